import SFV.Model.FockLoss
import SFV.Proofs.FockTensor
import Mathlib.Data.Nat.Choose.Sum
import Mathlib.Tactic.Ring

/-! The loss channel of the Fock back end is trace preserving on the truncated space — exactly, for every cutoff, every
transmissivity and every state, also one that populates the highest retained level — because its `trunc` Kraus operators satisfy
`Σ_k E(k)† E(k) = 1` there (the binomial theorem); with one operator fewer they do not. -/
namespace SFV.Fock
open Finset

theorem choose_eq : ∀ n k, choose n k = Nat.choose n k
  | _, 0 => by simp [choose]
  | 0, k + 1 => by simp [choose]
  | n + 1, k + 1 => by simp [choose, choose_eq n k, choose_eq n (k + 1), Nat.choose_succ_succ]

variable {K : Type} [CommRing K]

theorem pw_eq (x : K) : ∀ n, pw x n = x ^ n
  | 0 => by simp [pw]
  | n + 1 => by simp [pw, pw_eq x n, pow_succ]

theorem list_range_map_sum (f : Nat → K) : ∀ n, ((List.range n).map f).sum = ∑ k ∈ range n, f k
  | 0 => by simp
  | n + 1 => by rw [List.range_succ, List.map_append, List.sum_append, list_range_map_sum f n, Finset.sum_range_succ]; simp

/-- the binomial theorem in the form the loss channel needs -/
theorem lossSq_sum (T : K) (n : Nat) : ∑ k ∈ range (n + 1), lossSq T k n = 1 := by
  have h := add_pow (1 - T) T n
  have h1 : (1 - T + T) = (1 : K) := by ring
  rw [h1, one_pow] at h
  rw [h]
  refine Finset.sum_congr rfl fun k _ => ?_
  simp only [lossSq, choose_eq, pw_eq]
  ring

theorem lossSq_zero_of_gt (T : K) {k n : Nat} (h : n < k) : lossSq T k n = 0 := by
  simp [lossSq, choose_eq, Nat.choose_eq_zero_of_lt h]

/-- Gram sum of one Kraus operator: only the diagonal, only `k ≤ a` -/
theorem lossKraus_gram (e : Nat → Nat → K) (T : K) (he : ∀ k n, e k n * e k n = lossSq T k n) (D k a b : Nat)
    (ha : a < D) (_hb : b < D) :
    (∑ v ∈ range D, lossKraus e k v a * lossKraus e k v b) = if a = b then lossSq T k a else 0 := by
  by_cases hab : a = b
  · subst hab
    rw [if_pos rfl]
    by_cases hk : k ≤ a
    · rw [Finset.sum_eq_single (a - k)]
      · have : a - k + k = a := by omega
        simp [lossKraus, this, he]
      · intro v _ hv
        have : v + k ≠ a := by omega
        simp [lossKraus, this]
      · intro h; exfalso; exact h (Finset.mem_range.2 (by omega))
    · rw [lossSq_zero_of_gt T (by omega)]
      refine Finset.sum_eq_zero fun v _ => ?_
      have : v + k ≠ a := by omega
      simp [lossKraus, this]
  · rw [if_neg hab]
    refine Finset.sum_eq_zero fun v _ => ?_
    by_cases h1 : v + k = a
    · have : v + k ≠ b := by omega
      simp [lossKraus, this]
    · simp [lossKraus, h1]

/-- **completeness** `Σ_k E(k)† E(k) = 1` on the truncated space, as soon as the list has at least `D` operators -/
theorem loss_complete (e : Nat → Nat → K) (T : K) (he : ∀ k n, e k n * e k n = lossSq T k n) (D nK : Nat) (hK : D ≤ nK)
    (a b : Nat) (ha : a < D) (hb : b < D) :
    ((lossKrausList e nK).map fun k => ∑ v ∈ range D, k.1 v a * k.2 v b).sum = if a = b then 1 else 0 := by
  unfold lossKrausList
  rw [List.map_map]
  have : ((fun k : (Nat → Nat → K) × (Nat → Nat → K) => ∑ v ∈ range D, k.1 v a * k.2 v b) ∘
      fun k => (lossKraus e k, lossKraus e k)) = fun k => if a = b then lossSq T k a else 0 := by
    funext k
    exact lossKraus_gram e T he D k a b ha hb
  rw [this, list_range_map_sum]
  by_cases hab : a = b
  · simp only [hab, if_true]
    subst hab
    have hsub : range (a + 1) ⊆ range nK := Finset.range_subset_range.2 (by omega)
    rw [← Finset.sum_subset hsub]
    · exact lossSq_sum T a
    · intro k _ hk
      exact lossSq_zero_of_gt T (by simpa using hk)
  · simp [hab]

/-- **`Circuit.loss(T, m)` preserves the trace exactly** — and with it every reduced state of the other modes: for every
cutoff `D`, transmissivity, register size, position `m` and density tensor, also one supported on the top level `D − 1` -/
theorem loss_trace_preserving (e : Nat → Nat → K) (T : K) (he : ∀ k n, e k n * e k n = lossSq T k n) (D m : Nat)
    (ρ : Tens K) (idx : Idx) :
    (∑ v ∈ range D, applyChannel1 D (lossKrausList e D) m ρ (upd (upd idx (2 * m) v) (2 * m + 1) v)) =
      ∑ v ∈ range D, ρ (upd (upd idx (2 * m) v) (2 * m + 1) v) :=
  trace_channel1 D (lossKrausList e D) m (fun a b ha hb => loss_complete e T he D D (Nat.le_refl D) a b ha hb) ρ idx

/-- with one Kraus operator fewer (`range(trunc − 1)`, a seeded off-by-one) completeness fails at the top level:
`D = 3`, `T = 1/2`: the Gram sum at `a = b = 2` is `3/4` -/
theorem loss_incomplete_counterexample (e : Nat → Nat → ℚ) (he : ∀ k n, e k n * e k n = lossSq (1/2 : ℚ) k n) :
    ((lossKrausList e 2).map fun k => ∑ v ∈ range 3, k.1 v 2 * k.2 v 2).sum = 3 / 4 := by
  unfold lossKrausList
  rw [List.map_map]
  have : ((fun k : (Nat → Nat → ℚ) × (Nat → Nat → ℚ) => ∑ v ∈ range 3, k.1 v 2 * k.2 v 2) ∘
      fun k => (lossKraus e k, lossKraus e k)) = fun k => lossSq (1/2 : ℚ) k 2 := by
    funext k
    have := lossKraus_gram e (1/2 : ℚ) he 3 k 2 2 (by omega) (by omega)
    simpa using this
  rw [this, list_range_map_sum]
  simp [Finset.sum_range_succ, lossSq, choose, pw]
  norm_num

end SFV.Fock

namespace SFV.Fock
open Finset
variable {K : Type} [CommRing K]

/-- **loss scales the photon number by `T`**: a level `n` is sent to the levels `n − k` with weights `lossSq T k n`, whose mean
is exactly `T · n` (for every `n`, every `T`) -/
theorem loss_photon_number (T : K) (n : Nat) :
    ∑ k ∈ range (n + 1), ((n - k : Nat) : K) * lossSq T k n = (n : K) * T := by
  cases n with
  | zero => simp [lossSq]
  | succ n =>
    rw [Finset.sum_range_succ]
    have hlast : (((n + 1 - (n + 1) : Nat)) : K) * lossSq T (n + 1) (n + 1) = 0 := by simp
    rw [hlast, add_zero]
    have hterm : ∀ k ∈ range (n + 1), ((n + 1 - k : Nat) : K) * lossSq T k (n + 1) =
        ((n + 1 : Nat) : K) * T * ((1 - T) ^ k * T ^ (n - k) * (Nat.choose n k : K)) := by
      intro k hk
      have hk' : k ≤ n := by simpa [Nat.lt_succ_iff] using hk
      have h1 : (Nat.choose (n + 1) k * (n + 1 - k) : Nat) = Nat.choose n k * (n + 1) := (Nat.choose_mul_succ_eq n k).symm
      have h2 : ((Nat.choose (n + 1) k : K)) * ((n + 1 - k : Nat) : K) = (Nat.choose n k : K) * ((n + 1 : Nat) : K) := by
        exact_mod_cast congrArg (Nat.cast : Nat → K) h1
      have h3 : T ^ (n + 1 - k) = T ^ (n - k) * T := by
        rw [← pow_succ]; congr 1; omega
      simp only [lossSq, choose_eq, pw_eq, h3]
      calc ((n + 1 - k : Nat) : K) * ((Nat.choose (n + 1) k : K) * (1 - T) ^ k * (T ^ (n - k) * T))
          = ((Nat.choose (n + 1) k : K) * ((n + 1 - k : Nat) : K)) * ((1 - T) ^ k * T ^ (n - k) * T) := by ring
        _ = ((Nat.choose n k : K) * ((n + 1 : Nat) : K)) * ((1 - T) ^ k * T ^ (n - k) * T) := by rw [h2]
        _ = _ := by ring
    rw [Finset.sum_congr rfl hterm, ← Finset.mul_sum]
    have h := add_pow (1 - T) T n
    have h1 : (1 - T + T) = (1 : K) := by ring
    rw [h1, one_pow] at h
    rw [← h]
    ring

end SFV.Fock
