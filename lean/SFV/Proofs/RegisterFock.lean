import SFV.Proofs.RegisterSim
/-! The Fock back end (ModeMap + tensor axes) refines the abstract rows: axis-count invariant, data refinement
through `add_mode` / `del_mode` (`deleteLoop` + `partial_trace`) / gates on remapped axes, `get_modes`, `state`.
Core Lean only. -/
set_option linter.unusedSectionVars false
set_option linter.unusedSimpArgs false
namespace SFV.Reg
section FockRef
variable {D : Type} [DataSem D]

/-- read the tensor axes back under the external indices: the `j`-th non-`None` map entry owns axis `j` -/
def scatter : List (Option Nat) → List D → Rows D
  | [], _ => []
  | none :: ms, ds => none :: scatter ms ds
  | some _ :: ms, d :: ds => some d :: scatter ms ds
  | some _ :: ms, [] => none :: scatter ms []

def Fock.abs (s : Fock D) : Rows D := scatter s.mm.map s.axes

structure FockInv (s : Fock D) : Prop where
  num : Numbered 0 s.mm.map
  len : s.axes.length = countSome s.mm.map

theorem scatter_length : ∀ (m : List (Option Nat)) (ds : List D), (scatter m ds).length = m.length := by
  intro m
  induction m with
  | nil => intro _; rfl
  | cons x xs ih =>
    intro ds
    cases x with
    | none => simp [scatter, ih]
    | some a => cases ds <;> simp [scatter, ih]

theorem numbered_ge : ∀ (l : List (Option Nat)) (c m x : Nat), Numbered c l → l[m]? = some (some x) → c ≤ x := by
  intro l
  induction l with
  | nil => intro c m x _ h; simp at h
  | cons a as ih =>
    intro c m x hn h
    cases a with
    | none =>
      cases m with
      | zero => simp at h
      | succ m => exact ih c m x hn (by simpa using h)
    | some y =>
      obtain ⟨rfl, hn'⟩ := hn
      cases m with
      | zero => simp at h; omega
      | succ m => have := ih (y + 1) m x hn' (by simpa using h); omega

theorem numbered_lt : ∀ (l : List (Option Nat)) (c m x : Nat), Numbered c l → l[m]? = some (some x) →
    x < c + countSome l := by
  intro l
  induction l with
  | nil => intro c m x _ h; simp at h
  | cons a as ih =>
    intro c m x hn h
    cases a with
    | none =>
      cases m with
      | zero => simp at h
      | succ m => have := ih c m x hn (by simpa using h); simpa [countSome] using this
    | some y =>
      obtain ⟨rfl, hn'⟩ := hn
      cases m with
      | zero => simp at h; simp [countSome]; omega
      | succ m =>
        have := ih (y + 1) m x hn' (by simpa using h)
        simp [countSome] at this ⊢; omega

theorem numbered_inj : ∀ (l : List (Option Nat)) (c i j x : Nat), Numbered c l → l[i]? = some (some x) →
    l[j]? = some (some x) → i = j := by
  intro l
  induction l with
  | nil => intro c i j x _ h; simp at h
  | cons a as ih =>
    intro c i j x hn hi hj
    cases a with
    | none =>
      cases i with
      | zero => simp at hi
      | succ i =>
        cases j with
        | zero => simp at hj
        | succ j => rw [ih c i j x hn (by simpa using hi) (by simpa using hj)]
    | some y =>
      obtain ⟨rfl, hn'⟩ := hn
      cases i with
      | zero =>
        simp at hi; subst hi
        cases j with
        | zero => rfl
        | succ j => have := numbered_ge as (y + 1) j y hn' (by simpa using hj); omega
      | succ i =>
        cases j with
        | zero =>
          simp at hj; subst hj
          have := numbered_ge as (y + 1) i y hn' (by simpa using hi); omega
        | succ j => rw [ih (y + 1) i j x hn' (by simpa using hi) (by simpa using hj)]

/-- pointwise reading of `scatter` under the numbering invariant -/
theorem scatter_get : ∀ (l : List (Option Nat)) (c m : Nat) (ds : List D), Numbered c l →
    (scatter l ds)[m]? = (l[m]?).map (fun o => o.bind (fun x => ds[x - c]?)) := by
  intro l
  induction l with
  | nil => intro c m ds _; simp [scatter]
  | cons a as ih =>
    intro c m ds hn
    cases a with
    | none =>
      cases m with
      | zero => simp [scatter]
      | succ m => simpa [scatter] using ih c m ds hn
    | some y =>
      obtain ⟨rfl, hn'⟩ := hn
      cases ds with
      | nil =>
        cases m with
        | zero => simp [scatter]
        | succ m =>
          have := ih (y + 1) m [] hn'
          simp only [scatter, List.getElem?_cons_succ, this]
          cases as[m]? with
          | none => rfl
          | some o => cases o <;> simp
      | cons d ds =>
        cases m with
        | zero => simp [scatter]
        | succ m =>
          have := ih (y + 1) m ds hn'
          simp only [scatter, List.getElem?_cons_succ, this]
          cases hm : as[m]? with
          | none => rfl
          | some o =>
            cases o with
            | none => rfl
            | some x =>
              have hx := numbered_ge as (y + 1) m x hn' hm
              have : x - y = (x - (y + 1)) + 1 := by omega
              simp [this]

/-! begin / add_mode -/
theorem scatter_range (c n : Nat) (v : D) :
    scatter ((List.range' c n).map some) (List.replicate n v) = List.replicate n (some v) := by
  induction n generalizing c with
  | zero => rfl
  | succ n ih => simp [List.range'_succ, List.replicate_succ, scatter, ih]

theorem countSome_range (c n : Nat) : countSome ((List.range' c n).map some) = n := by
  induction n generalizing c with
  | zero => rfl
  | succ n ih =>
    have := ih (c + 1)
    simp only [countSome] at this ⊢
    simp [List.range'_succ, this]

theorem countSome_append (l1 l2 : List (Option Nat)) : countSome (l1 ++ l2) = countSome l1 + countSome l2 := by
  simp [countSome]

theorem Fock.begin_inv (n : Nat) : FockInv (Fock.begin n : Fock D) := by
  refine ⟨numbered_new n, ?_⟩
  simp only [Fock.begin, ModeMap.new, List.range_eq_range', List.length_replicate]
  exact (countSome_range 0 n).symm

theorem Fock.begin_abs (n : Nat) : (Fock.begin n : Fock D).abs = List.replicate n (some DataSem.vac) := by
  simp only [Fock.abs, Fock.begin, ModeMap.new, List.range_eq_range']
  exact scatter_range 0 n _

theorem scatter_append : ∀ (m1 m2 : List (Option Nat)) (d1 d2 : List D), d1.length = countSome m1 →
    scatter (m1 ++ m2) (d1 ++ d2) = scatter m1 d1 ++ scatter m2 d2 := by
  intro m1
  induction m1 with
  | nil => intro m2 d1 d2 h; cases d1 <;> simp_all [countSome, scatter]
  | cons x xs ih =>
    intro m2 d1 d2 h
    cases x with
    | none =>
      have h' : d1.length = countSome xs := by simpa [countSome] using h
      simp [scatter, ih m2 d1 d2 h']
    | some a =>
      cases d1 with
      | nil => simp [countSome] at h
      | cons d ds =>
        have h' : ds.length = countSome xs := by simpa [countSome] using h
        simp [scatter, ih m2 ds d2 h']

theorem Fock.addMode_inv (s : Fock D) (n : Nat) (h : FockInv s) : FockInv (s.addMode n) := by
  refine ⟨modemap_add_numbered s.mm n h.num, ?_⟩
  simp only [Fock.addMode, ModeMap.add, List.length_append, List.length_replicate, countSome_append,
    countSome_range, h.len]

theorem Fock.addMode_abs (s : Fock D) (n : Nat) (h : FockInv s) :
    (s.addMode n).abs = s.abs ++ List.replicate n (some DataSem.vac) := by
  simp only [Fock.abs, Fock.addMode, ModeMap.add]
  rw [scatter_append _ _ _ _ h.len, scatter_range]

/-! liveness and remapping -/
theorem Fock.abs_get (s : Fock D) (h : FockInv s) (m : Nat) :
    s.abs[m]? = (s.mm.map[m]?).map (fun o => o.bind (fun x => s.axes[x]?)) := by
  have := scatter_get s.mm.map 0 m s.axes h.num
  simpa [Fock.abs] using this

theorem Fock.live_iff (s : Fock D) (h : FockInv s) (m : Nat) :
    Rows.liveAt s.abs m = true ↔ ∃ x, s.mm.map[m]? = some (some x) := by
  unfold Rows.liveAt
  rw [Fock.abs_get s h]
  cases hm : s.mm.map[m]? with
  | none => simp
  | some o =>
    cases o with
    | none => simp
    | some x =>
      have hx := numbered_lt s.mm.map 0 m x h.num hm
      have : x < s.axes.length := by rw [h.len]; omega
      simp [List.getElem?_eq_getElem this]

theorem Fock.live_axis (s : Fock D) (h : FockInv s) (m x : Nat) (hm : s.mm.map[m]? = some (some x)) :
    x < s.axes.length ∧ s.abs[m]? = some (s.axes[x]?) := by
  have hx := numbered_lt s.mm.map 0 m x h.num hm
  refine ⟨by rw [h.len]; omega, ?_⟩
  rw [Fock.abs_get s h, hm]; rfl

theorem Fock.remap1_live (s : Fock D) (m x : Nat) (hm : s.mm.map[m]? = some (some x)) : s.remap1 m = .ok x := by
  have hlt := (List.getElem?_eq_some_iff.1 hm).1
  have hv : s.mm.valid [m] = true := by
    have h1 : ¬ (1 > s.mm.map.length) := by omega
    simp [ModeMap.valid, ModeMap.singleValid, hlt, h1]
  simp [Fock.remap1, Fock.remapModes, getAll, hm, hv]

theorem Fock.remap1_dead (s : Fock D) (h : FockInv s) (m : Nat) (hd : Rows.liveAt s.abs m = false) :
    ∃ e, s.remap1 m = .error e := by
  have hn : ¬ ∃ x, s.mm.map[m]? = some (some x) := by
    intro hx; rw [(Fock.live_iff s h m).2 hx] at hd; cases hd
  cases hm : s.mm.map[m]? with
  | none => exact ⟨.index, by simp [Fock.remap1, Fock.remapModes, getAll, hm]⟩
  | some o =>
    cases o with
    | some x => exact absurd ⟨x, hm⟩ hn
    | none => exact ⟨.value, by simp [Fock.remap1, Fock.remapModes, getAll, hm]⟩

/-- the axes of a list of live modes -/
def axesOf (s : Fock D) (ms : List Nat) : List Nat := ms.filterMap (fun m => (s.mm.map[m]?).join)

theorem Fock.remapEach_live (s : Fock D) (h : FockInv s) : ∀ (ms : List Nat), ms.all (Rows.liveAt s.abs) = true →
    s.remapEach ms = .ok (axesOf s ms) := by
  intro ms
  induction ms with
  | nil => intro _; rfl
  | cons m ms ih =>
    intro hl
    simp only [List.all_cons, Bool.and_eq_true] at hl
    obtain ⟨x, hx⟩ := (Fock.live_iff s h m).1 hl.1
    simp [Fock.remapEach, Fock.remap1_live s m x hx, ih hl.2, axesOf, hx]

theorem Fock.remapEach_dead (s : Fock D) (h : FockInv s) : ∀ (ms : List Nat),
    (∃ m ∈ ms, Rows.liveAt s.abs m = false) → ∃ e, s.remapEach ms = .error e := by
  intro ms
  induction ms with
  | nil => intro ⟨m, hm, _⟩; cases hm
  | cons m ms ih =>
    intro ⟨m', hm', hd⟩
    unfold Fock.remapEach
    cases hr : s.remap1 m with
    | error e => exact ⟨e, rfl⟩
    | ok x =>
      simp only
      rcases List.mem_cons.1 hm' with rfl | hin
      · obtain ⟨e, he⟩ := Fock.remap1_dead s h m' hd
        rw [he] at hr; cases hr
      · obtain ⟨e, he⟩ := ih ⟨m', hin, hd⟩
        simp only [he]; exact ⟨e, rfl⟩

/-- writing one axis = writing one row -/
theorem scatter_set (s : Fock D) (h : FockInv s) (m x : Nat) (v : D) (hm : s.mm.map[m]? = some (some x)) :
    scatter s.mm.map (s.axes.set x v) = s.abs.set m (some v) := by
  apply List.ext_getElem?
  intro j
  have hx := (Fock.live_axis s h m x hm).1
  rw [scatter_get _ 0 j _ h.num, List.getElem?_set, Fock.abs_get s h]
  have hlen : s.abs.length = s.mm.map.length := scatter_length _ _
  by_cases hj : m = j
  · subst hj
    have hlt := (List.getElem?_eq_some_iff.1 hm).1
    have hmm : s.mm.map[m] = some x := by
      have := List.getElem?_eq_getElem hlt
      rw [this] at hm; exact Option.some.inj hm
    simp [hm, hlen, hlt, hx, hmm]
  · simp only [hj, if_false, Nat.sub_zero]
    cases hjm : s.mm.map[j]? with
    | none => rfl
    | some o =>
      cases o with
      | none => rfl
      | some y =>
        have hne : x ≠ y := by
          intro he; subst he
          exact hj (numbered_inj s.mm.map 0 m j x h.num hm hjm)
        simp [List.getElem?_set, hne]

theorem Fock.writeBack_abs : ∀ (ms : List Nat) (vs : List D) (s : Fock D), FockInv s →
    ms.all (Rows.liveAt s.abs) = true →
    Fock.abs { s with axes := writeBack (axesOf s ms) vs s.axes } = writeBack ms (vs.map some) s.abs ∧
    FockInv { s with axes := writeBack (axesOf s ms) vs s.axes } := by
  intro ms
  induction ms with
  | nil => intro vs s h _; exact ⟨by simp [writeBack, axesOf], h⟩
  | cons m ms ih =>
    intro vs s h hl
    simp only [List.all_cons, Bool.and_eq_true] at hl
    obtain ⟨x, hx⟩ := (Fock.live_iff s h m).1 hl.1
    have hax : axesOf s (m :: ms) = x :: axesOf s ms := by simp [axesOf, hx]
    cases vs with
    | nil => rw [hax]; exact ⟨by simp [writeBack], h⟩
    | cons v vs =>
      have hs1 : FockInv { s with axes := s.axes.set x v } := ⟨h.num, by simp [h.len]⟩
      have habs1 : Fock.abs { s with axes := s.axes.set x v } = s.abs.set m (some v) := scatter_set s h m x v hx
      have hl1 : ms.all (Rows.liveAt (Fock.abs { s with axes := s.axes.set x v })) = true := by
        rw [habs1, List.all_eq_true]
        intro m' hm'
        rw [liveAt_set]
        split
        · rfl
        · exact (List.all_eq_true.1 hl.2) m' hm'
      have := ih vs _ hs1 hl1
      rw [hax]
      simp only [writeBack, List.map_cons]
      rw [← habs1]
      exact this

theorem Fock.readAll_abs (s : Fock D) (h : FockInv s) : ∀ (ms : List Nat), ms.all (Rows.liveAt s.abs) = true →
    (readAll s.abs ms).filterMap id = readAll s.axes (axesOf s ms) := by
  intro ms
  induction ms with
  | nil => intro _; rfl
  | cons m ms ih =>
    intro hl
    simp only [List.all_cons, Bool.and_eq_true] at hl
    obtain ⟨x, hx⟩ := (Fock.live_iff s h m).1 hl.1
    obtain ⟨hlt, hab⟩ := Fock.live_axis s h m x hx
    have := ih hl.2
    have hgx : s.axes[x]? = some s.axes[x] := List.getElem?_eq_getElem hlt
    simp only [readAll, axesOf, List.filterMap_cons, hab, hx, hgx, Option.join] at this ⊢
    simp [this, List.filterMap_cons, hgx]

theorem Fock.applyOn_ok (s : Fock D) (h : FockInv s) (f : List D → List D) (ms : List Nat)
    (hl : ms.all (Rows.liveAt s.abs) = true) :
    Fock.abs { s with axes := applyOn f (axesOf s ms) s.axes } = Rows.upd f ms s.abs ∧
    FockInv { s with axes := applyOn f (axesOf s ms) s.axes } := by
  unfold applyOn Rows.upd
  rw [Fock.readAll_abs s h ms hl]
  exact Fock.writeBack_abs ms _ s h hl

theorem Fock.gate_ok (s : Fock D) (h : FockInv s) (k : Int) (ms : List Nat)
    (hl : ms.all (Rows.liveAt s.abs) = true) :
    ∃ s', s.gate k ms = .ok s' ∧ FockInv s' ∧ s'.abs = Rows.upd (DataSem.gate k) ms s.abs := by
  unfold Fock.gate
  rw [Fock.remapEach_live s h ms hl]
  have := Fock.applyOn_ok s h (DataSem.gate k) ms hl
  exact ⟨_, rfl, this.2, this.1⟩

theorem Fock.gate_rejects (s : Fock D) (h : FockInv s) (k : Int) (ms : List Nat)
    (hb : ∃ m ∈ ms, Rows.liveAt s.abs m = false) : ∃ e, s.gate k ms = .error e := by
  obtain ⟨e, he⟩ := Fock.remapEach_dead s h ms hb
  exact ⟨e, by simp [Fock.gate, he]⟩
/-! list form of `_remap_modes` (measure_fock, del_mode) -/
theorem nodup_bounded_length : ∀ (n : Nat) (l : List Nat), l.Nodup → (∀ x ∈ l, x < n) → l.length ≤ n := by
  intro n
  induction n with
  | zero =>
    intro l _ hb
    cases l with
    | nil => simp
    | cons a as => have := hb a (by simp); omega
  | succ n ih =>
    intro l hn hb
    by_cases hm : n ∈ l
    · have h1 := ih (l.erase n) (hn.erase n) (by
        intro x hx
        have := (hn.mem_erase_iff).1 hx
        have := hb x this.2
        omega)
      have h2 := List.length_erase_of_mem hm
      omega
    · have := ih l hn (by
        intro x hx
        have h1 := hb x hx
        have : x ≠ n := fun he => hm (he ▸ hx)
        omega)
      omega

theorem Fock.getAll_live (s : Fock D) (h : FockInv s) : ∀ (ms : List Nat), ms.all (Rows.liveAt s.abs) = true →
    getAll s.mm.map ms = .ok ((axesOf s ms).map some) := by
  intro ms
  induction ms with
  | nil => intro _; rfl
  | cons m ms ih =>
    intro hl
    simp only [List.all_cons, Bool.and_eq_true] at hl
    obtain ⟨x, hx⟩ := (Fock.live_iff s h m).1 hl.1
    simp [getAll, hx, ih hl.2, axesOf]

theorem Fock.valid_live (s : Fock D) (h : FockInv s) (ms : List Nat) (hne : ms ≠ [])
    (hl : ms.all (Rows.liveAt s.abs) = true) (hd : ms.Nodup) : s.mm.valid ms = true := by
  have hb : ∀ m ∈ ms, m < s.mm.map.length := by
    intro m hm
    obtain ⟨x, hx⟩ := (Fock.live_iff s h m).1 ((List.all_eq_true.1 hl) m hm)
    exact (List.getElem?_eq_some_iff.1 hx).1
  have hlen := nodup_bounded_length _ ms hd hb
  have h0 : ms.length ≠ 0 := by cases ms <;> simp_all
  simp only [ModeMap.valid, ModeMap.singleValid, Bool.and_eq_true, Bool.not_eq_true', Bool.or_eq_false_iff,
    beq_eq_false_iff_ne, ne_eq, decide_eq_false_iff_not, List.all_eq_true, decide_eq_true_eq]
  exact ⟨⟨h0, by omega⟩, hb⟩

theorem Fock.remapModes_live (s : Fock D) (h : FockInv s) (ms : List Nat) (hne : ms ≠ [])
    (hl : ms.all (Rows.liveAt s.abs) = true) (hd : ms.Nodup) : s.remapModes ms = .ok (axesOf s ms) := by
  unfold Fock.remapModes
  rw [Fock.getAll_live s h ms hl]
  simp [Fock.valid_live s h ms hne hl hd]

theorem getAll_ok_mem {α : Type} (l : List α) : ∀ (ms : List Nat) (out : List α), getAll l ms = .ok out →
    ∀ m ∈ ms, ∃ x, l[m]? = some x ∧ x ∈ out := by
  intro ms
  induction ms with
  | nil => intro _ _ m hm; cases hm
  | cons a as ih =>
    intro out h m hm
    unfold getAll at h
    split at h
    · cases h
    · rename_i x hx
      split at h
      · cases h
      · rename_i xs hxs
        cases h
        rcases List.mem_cons.1 hm with rfl | hin
        · exact ⟨x, hx, by simp⟩
        · obtain ⟨y, hy, hyin⟩ := ih xs hxs m hin
          exact ⟨y, hy, by simp [hyin]⟩

theorem Fock.remapModes_dead (s : Fock D) (h : FockInv s) (ms : List Nat)
    (hb : ∃ m ∈ ms, Rows.liveAt s.abs m = false) : ∃ e, s.remapModes ms = .error e := by
  obtain ⟨m, hm, hd⟩ := hb
  unfold Fock.remapModes
  cases hg : getAll s.mm.map ms with
  | error e => exact ⟨e, rfl⟩
  | ok sub =>
    simp only
    obtain ⟨o, ho, hin⟩ := getAll_ok_mem _ ms sub hg m hm
    cases o with
    | some x =>
      rw [(Fock.live_iff s h m).2 ⟨x, ho⟩] at hd; cases hd
    | none =>
      refine ⟨.value, ?_⟩
      simp [hin]

theorem Fock.measure_ok (s : Fock D) (h : FockInv s) (ms : List Nat) (hok : s.abs.okSel ms = true) :
    ∃ s', s.measure ms = .ok s' ∧ FockInv s' ∧
      s'.abs = Rows.upd (fun l => l.map fun _ => DataSem.vac) ms s.abs := by
  simp only [Rows.okSel, Bool.and_eq_true, Bool.not_eq_true', List.isEmpty_eq_false_iff] at hok
  unfold Fock.measure
  rw [Fock.remapModes_live s h ms hok.1.1 hok.1.2 ((hasDup_false_iff ms).1 hok.2)]
  have := Fock.applyOn_ok s h (fun l => l.map fun _ => DataSem.vac) ms hok.1.2
  exact ⟨_, rfl, this.2, this.1⟩

theorem Fock.measure_rejects (s : Fock D) (h : FockInv s) (ms : List Nat)
    (hb : ∃ m ∈ ms, Rows.liveAt s.abs m = false) : ∃ e, s.measure ms = .error e := by
  obtain ⟨e, he⟩ := Fock.remapModes_dead s h ms hb
  exact ⟨e, by simp [Fock.measure, he]⟩

theorem Fock.delMode_rejects (s : Fock D) (h : FockInv s) (ms : List Nat)
    (hb : ∃ m ∈ ms, Rows.liveAt s.abs m = false) : ∃ e, s.delMode ms = .error e := by
  obtain ⟨e, he⟩ := Fock.remapModes_dead s h ms hb
  exact ⟨e, by simp [Fock.delMode, he]⟩

/-! `del_mode`: `ModeMap.delete` renumbers, `partial_trace` drops the axes -/
def clrFrom (modes : List Nat) : Nat → Rows D → Rows D
  | _, [] => []
  | m0, r :: rs => (if modes.contains m0 then none else r) :: clrFrom modes (m0 + 1) rs

theorem clrFrom_get (modes : List Nat) : ∀ (r : Rows D) (m0 j : Nat),
    (clrFrom modes m0 r)[j]? = (r[j]?).map (fun x => if modes.contains (m0 + j) then none else x) := by
  intro r
  induction r with
  | nil => intro _ _; simp [clrFrom]
  | cons x xs ih =>
    intro m0 j
    cases j with
    | zero => simp [clrFrom]
    | succ j =>
      simp only [clrFrom, List.getElem?_cons_succ, ih]
      have : m0 + 1 + j = m0 + (j + 1) := by omega
      rw [this]

theorem clear_eq_clrFrom (ms : List Nat) (a : Rows D) : Rows.clear ms a = clrFrom ms 0 a := by
  apply List.ext_getElem?
  intro j
  rw [Rows.clear_get, clrFrom_get]
  by_cases hj : j ∈ ms
  · have : ms.contains (0 + j) = true := by simpa using hj
    simp only [hj, if_true, this]
  · have : ms.contains (0 + j) = false := by simpa using hj
    simp only [hj, if_false, this, Bool.false_eq_true]
    cases a[j]? <;> rfl

theorem del_scatter (modes bad : List Nat) : ∀ (l : List (Option Nat)) (c m0 ctr : Nat) (ds : List D),
    Numbered c l → ds.length = countSome l →
    (∀ (i x : Nat), l[i]? = some (some x) → bad.contains x = modes.contains (m0 + i)) →
    scatter (deleteLoop modes m0 ctr l) (filterIdxFrom c bad ds) = clrFrom modes m0 (scatter l ds) ∧
    (filterIdxFrom c bad ds).length = countSome (deleteLoop modes m0 ctr l) := by
  intro l
  induction l with
  | nil =>
    intro c m0 ctr ds _ hlen _
    have : ds = [] := by cases ds <;> simp_all [countSome]
    subst this
    simp [deleteLoop, scatter, clrFrom, filterIdxFrom, countSome]
  | cons a as ih =>
    intro c m0 ctr ds hn hlen hH
    have hH' : ∀ (i x : Nat), as[i]? = some (some x) → bad.contains x = modes.contains (m0 + 1 + i) := by
      intro i x hi
      have := hH (i + 1) x (by simpa using hi)
      have e : m0 + 1 + i = m0 + (i + 1) := by omega
      rw [e]; exact this
    cases a with
    | none =>
      have hlen' : ds.length = countSome as := by simpa [countSome] using hlen
      obtain ⟨h1, h2⟩ := ih c (m0 + 1) ctr ds hn hlen' hH'
      refine ⟨?_, ?_⟩
      · simp only [deleteLoop, Option.isNone_none, Bool.or_true, if_true, scatter, clrFrom, h1]
        split <;> rfl
      · simp only [deleteLoop, Option.isNone_none, Bool.or_true, if_true]
        simpa [countSome] using h2
    | some y =>
      obtain ⟨rfl, hn'⟩ := hn
      cases ds with
      | nil => simp [countSome] at hlen
      | cons d ds =>
        have hlen' : ds.length = countSome as := by simpa [countSome] using hlen
        have h0 := hH 0 y (by simp)
        simp only [Nat.add_zero] at h0
        by_cases hc : modes.contains m0 = true
        · have hb : bad.contains y = true := by rw [h0, hc]
          obtain ⟨h1, h2⟩ := ih (y + 1) (m0 + 1) ctr ds hn' hlen' hH'
          refine ⟨?_, ?_⟩
          · simp only [deleteLoop, hc, Bool.true_or, if_true, filterIdxFrom, hb, scatter, clrFrom, h1]
          · simp only [deleteLoop, hc, Bool.true_or, if_true, filterIdxFrom, hb]
            simpa [countSome] using h2
        · have hc' : modes.contains m0 = false := by simpa using hc
          have hb : bad.contains y = false := by rw [h0, hc']
          obtain ⟨h1, h2⟩ := ih (y + 1) (m0 + 1) (ctr + 1) ds hn' hlen' hH'
          refine ⟨?_, ?_⟩
          · simp only [deleteLoop, hc', Option.isNone_some, Bool.or_self, Bool.false_eq_true, if_false,
              filterIdxFrom, hb, scatter, clrFrom, h1]
          · simp only [deleteLoop, hc', Option.isNone_some, Bool.or_self, Bool.false_eq_true, if_false,
              filterIdxFrom, hb, List.length_cons]
            simp only [countSome] at h2 ⊢
            simp [h2]

theorem Fock.delMode_ok (s : Fock D) (h : FockInv s) (ms : List Nat) (hok : s.abs.okSel ms = true) :
    ∃ s', s.delMode ms = .ok s' ∧ FockInv s' ∧ s'.abs = Rows.clear ms s.abs := by
  simp only [Rows.okSel, Bool.and_eq_true, Bool.not_eq_true', List.isEmpty_eq_false_iff] at hok
  have hnd := (hasDup_false_iff ms).1 hok.2
  unfold Fock.delMode
  rw [Fock.remapModes_live s h ms hok.1.1 hok.1.2 hnd]
  simp only [ModeMap.delete, Fock.valid_live s h ms hok.1.1 hok.1.2 hnd, if_true]
  have hH : ∀ (i x : Nat), s.mm.map[i]? = some (some x) → (axesOf s ms).contains x = ms.contains (0 + i) := by
    intro i x hi
    rw [Bool.eq_iff_iff]
    simp only [List.contains_iff_mem, Nat.zero_add, axesOf, List.mem_filterMap]
    constructor
    · rintro ⟨m, hm, hj⟩
      have hmx : s.mm.map[m]? = some (some x) := by
        cases hq : s.mm.map[m]? with
        | none => simp [hq] at hj
        | some o => cases o <;> simp_all
      rw [← numbered_inj s.mm.map 0 m i x h.num hmx hi]; exact hm
    · intro hm; exact ⟨i, hm, by simp [hi]⟩
  obtain ⟨h1, h2⟩ := del_scatter ms (axesOf s ms) s.mm.map 0 0 0 s.axes h.num h.len hH
  refine ⟨_, rfl, ⟨deleteLoop_numbered _ _ _ _, h2⟩, ?_⟩
  simp only [Fock.abs, h1, clear_eq_clrFrom]
/-! `get_modes`, `state(modes=None)` -/
theorem liveFrom_scatter : ∀ (l : List (Option Nat)) (ds : List D) (c : Nat), ds.length = countSome l →
    liveFrom c (scatter l ds) = liveFrom c l ∧ (liveFrom c l).zip ds = Rows.state c (scatter l ds) := by
  intro l
  induction l with
  | nil => intro ds c _; simp [scatter, liveFrom, Rows.state]
  | cons a as ih =>
    intro ds c hlen
    cases a with
    | none =>
      have hlen' : ds.length = countSome as := by simpa [countSome] using hlen
      obtain ⟨h1, h2⟩ := ih ds (c + 1) hlen'
      simp [scatter, liveFrom, Rows.state, h1, h2]
    | some y =>
      cases ds with
      | nil => simp [countSome] at hlen
      | cons d ds =>
        have hlen' : ds.length = countSome as := by simpa [countSome] using hlen
        obtain ⟨h1, h2⟩ := ih ds (c + 1) hlen'
        simp [scatter, liveFrom, Rows.state, h1, h2]

theorem Fock.getModes_live (s : Fock D) (h : FockInv s) : s.getModes = Rows.live s.abs := by
  unfold Fock.getModes Rows.live Fock.abs
  rw [(liveFrom_scatter s.mm.map s.axes 0 h.len).1]

/-- **Fock `state(modes=None)`**: exactly the live indices ascending, each with the data of its own axis -/
theorem Fock.stateNone_exact (s : Fock D) (h : FockInv s) : s.stateNone = .ok (Rows.state 0 s.abs) := by
  rw [Fock.stateNone_labels s h.len]
  unfold Fock.getModes Fock.abs
  rw [(liveFrom_scatter s.mm.map s.axes 0 h.len).2]

theorem Fock.applyCmd_refines (s : Fock D) (h : FockInv s) (c : Cmd) (r' : Rows D)
    (ha : Rows.cmd s.abs c = some r') : ∃ s', s.applyCmd c = .ok s' ∧ FockInv s' ∧ s'.abs = r' := by
  unfold Rows.cmd at ha
  unfold Fock.applyCmd
  cases hop : c.op with
  | newModes n =>
    simp only [hop] at ha ⊢
    cases ha
    exact ⟨_, rfl, Fock.addMode_inv s _ h, Fock.addMode_abs s _ h⟩
  | delete =>
    simp only [hop] at ha ⊢
    split at ha
    · rename_i hs; cases ha; exact Fock.delMode_ok s h c.reg hs
    · cases ha
  | gate k =>
    simp only [hop] at ha ⊢
    split at ha
    · rename_i hs; cases ha; exact Fock.gate_ok s h k c.reg (okSel_all hs)
    · cases ha
  | measure =>
    simp only [hop] at ha ⊢
    split at ha
    · rename_i hs; cases ha; exact Fock.measure_ok s h c.reg hs
    · cases ha

theorem Fock.runCircuit_refines : ∀ (cs : List Cmd) (s : Fock D), FockInv s → ∀ (r' : Rows D),
    Rows.run cs s.abs = some r' → ∃ s', Fock.runCircuit cs s = .ok s' ∧ FockInv s' ∧ s'.abs = r' := by
  intro cs
  induction cs with
  | nil => intro s h r' hr; cases hr; exact ⟨s, rfl, h, rfl⟩
  | cons c cs ih =>
    intro s h r' hr
    unfold Rows.run at hr
    split at hr
    · cases hr
    · rename_i r1 h1
      obtain ⟨s1, e1, i1, a1⟩ := Fock.applyCmd_refines s h c r1 h1
      unfold Fock.runCircuit
      rw [e1]
      exact ih s1 i1 r' (by rw [a1]; exact hr)

/-- the Fock back end refines the rows -/
theorem fockRefines : Refines (fockOps D) (Fock.abs (D := D)) (FockInv (D := D)) where
  begin_inv := Fock.begin_inv
  begin_abs := Fock.begin_abs
  run := fun _ cs b r' hb _ hr => Fock.runCircuit_refines cs b hb r' hr
  getModes := Fock.getModes_live
  state := Fock.stateNone_exact
end FockRef
end SFV.Reg
