import SFV.Model.BosonicState
import SFV.Proofs.GaussNM
import Mathlib.Algebra.Field.Basic
import Mathlib.Algebra.CharZero.Defs
import Mathlib.Algebra.CharP.Defs
import Mathlib.Algebra.Ring.CharZero
import Mathlib.Tactic.Ring
import Mathlib.Tactic.FieldSimp
import Mathlib.Tactic.Linarith

/-! Hermiticity of bosonic states (C07): a weighted sum of Gaussians whose components come in complex-conjugate pairs
represents a Hermitian operator — every linear quantity built from a conjugation-compatible kernel is real.  The property is
established by the cat-state preparation and preserved by every componentwise operation that commutes with conjugation, in
particular by all Gaussian channels (real `X`, `Y`, `d`). -/
namespace SFV.BosSt
open SFV.Gauss SFV.Gauss.Cx Finset

variable {K : Type}

/-- components come in conjugate pairs: an involution `σ` of the index set with `comp (σ k) = conj (comp k)` -/
def ConjClosed [Neg K] (st : BState K) : Prop :=
  ∃ σ : Nat → Nat, (∀ k, k < st.N → σ k < st.N ∧ σ (σ k) = k) ∧ ∀ k, k < st.N → st.comp (σ k) = (st.comp k).conj

section ring
variable [CommRing K]

@[simp] theorem conj_conj (a : Cx K) : Cx.conj (Cx.conj a) = a := by cases a; simp [Cx.conj]
theorem conj_add (a b : Cx K) : Cx.conj (a + b) = Cx.conj a + Cx.conj b := Cx.ext' (by simp) (by simp; ring)
theorem conj_mul (a b : Cx K) : Cx.conj (a * b) = Cx.conj a * Cx.conj b := Cx.ext' (by simp) (by simp; ring)
theorem conj_smul (x : K) (a : Cx K) : Cx.conj (smul x a) = smul x (Cx.conj a) := Cx.ext' (by simp) (by simp)
theorem conj_ofK (x : K) : Cx.conj (ofK x : Cx K) = ofK x := Cx.ext' (by simp) (by simp)

theorem conj_csum (n : Nat) (f : Nat → Cx K) : Cx.conj (csum n f) = csum n fun k => Cx.conj (f k) := by
  apply Cx.ext'
  · simp [csum_re]
  · simp [csum_im, Finset.sum_neg_distrib]

/-- **every componentwise operation that commutes with conjugation preserves the pairing** -/
theorem map_conjClosed (F : Comp K → Comp K) (hF : ∀ c, F c.conj = (F c).conj) (st : BState K) (h : ConjClosed st) :
    ConjClosed (st.map F) := by
  obtain ⟨σ, h1, h2⟩ := h
  exact ⟨σ, h1, fun k hk => by simp only [BState.map]; rw [h2 k hk, hF]⟩

/-- Gaussian channels and displacements (real `X`, `Y`, `d`) commute with conjugation … -/
theorem affine_conj (m : Nat) (X Y : Nat → Nat → K) (d : Nat → K) (c : Comp K) :
    (c.conj).affine m X Y d = (c.affine m X Y d).conj := by
  simp only [Comp.affine, Comp.conj, Comp.mk.injEq]
  refine ⟨trivial, ?_, ?_⟩
  · funext i
    rw [conj_add, conj_csum, conj_ofK]
    congr 1
    exact csum_congr fun j _ => (conj_smul _ _).symm
  · funext i j
    rw [conj_add, conj_csum, conj_ofK]
    congr 1
    refine csum_congr fun a _ => ?_
    rw [conj_csum]
    exact csum_congr fun b _ => (conj_smul _ _).symm

/-- … so **`apply_channel` keeps a bosonic state Hermitian**, for every register size, channel and number of components -/
theorem channel_conjClosed (m : Nat) (X Y : Nat → Nat → K) (d : Nat → K) (st : BState K) (h : ConjClosed st) :
    ConjClosed (st.map (Comp.affine m X Y d)) :=
  map_conjClosed _ (affine_conj m X Y d) st h

/-- the weights are not touched by a channel: their sum (the trace) is preserved -/
theorem channel_weights (m : Nat) (X Y : Nat → Nat → K) (d : Nat → K) (st : BState K) :
    (csum (st.map (Comp.affine m X Y d)).N fun k => ((st.map (Comp.affine m X Y d)).comp k).w) = csum st.N fun k => (st.comp k).w :=
  rfl

/-- reindexing a finite sum by an involution of the index set -/
theorem csum_involution (n : Nat) (σ : Nat → Nat) (hσ : ∀ k, k < n → σ k < n ∧ σ (σ k) = k) (f : Nat → Cx K) :
    csum n (fun k => f (σ k)) = csum n f := by
  have key : ∀ g : Nat → K, ∑ k ∈ range n, g (σ k) = ∑ k ∈ range n, g k := by
    intro g
    refine Finset.sum_nbij' σ σ ?_ ?_ ?_ ?_ ?_
    · intro k hk; exact Finset.mem_range.2 (hσ k (Finset.mem_range.1 hk)).1
    · intro k hk; exact Finset.mem_range.2 (hσ k (Finset.mem_range.1 hk)).1
    · intro k hk; exact (hσ k (Finset.mem_range.1 hk)).2
    · intro k hk; exact (hσ k (Finset.mem_range.1 hk)).2
    · intro k _; rfl
  apply Cx.ext'
  · rw [csum_re, csum_re]; exact key fun k => (f k).re
  · rw [csum_im, csum_im]; exact key fun k => (f k).im

/-- a conjugate-paired state gives a self-conjugate value to every linear quantity with a conjugation-compatible kernel -/
theorem linear_self_conj (g : (Nat → Cx K) → (Nat → Nat → Cx K) → Cx K)
    (hg : ∀ mu cov, g (fun i => Cx.conj (mu i)) (fun i j => Cx.conj (cov i j)) = Cx.conj (g mu cov))
    (st : BState K) (h : ConjClosed st) : Cx.conj (st.linear g) = st.linear g := by
  obtain ⟨σ, h1, h2⟩ := h
  unfold BState.linear
  rw [conj_csum, ← csum_involution st.N σ h1 (fun k => (st.comp k).w * g (st.comp k).mu (st.comp k).cov)]
  refine csum_congr fun k hk => ?_
  rw [h2 k hk, conj_mul, ← hg]
  rfl

end ring

/-- **a Hermitian bosonic state has real Wigner function, real quadrature densities, …**: the imaginary part of every linear
quantity with a conjugation-compatible kernel vanishes -/
theorem linear_real [Field K] [CharZero K] (g : (Nat → Cx K) → (Nat → Nat → Cx K) → Cx K)
    (hg : ∀ mu cov, g (fun i => Cx.conj (mu i)) (fun i j => Cx.conj (cov i j)) = Cx.conj (g mu cov))
    (st : BState K) (h : ConjClosed st) : (st.linear g).im = 0 := by
  have h1 := congrArg Cx.im (linear_self_conj g hg st h)
  simp only [Cx.conj_im] at h1
  have h2 : (2 : K) * (st.linear g).im = 0 := by
    calc (2 : K) * (st.linear g).im = (st.linear g).im - -(st.linear g).im := by ring
      _ = (st.linear g).im - (st.linear g).im := by rw [h1]
      _ = 0 := by ring
  rcases mul_eq_zero.1 h2 with h3 | h3
  · exact absurd h3 (by exact_mod_cast (Nat.cast_ne_zero (R := K)).2 (by decide : (2 : Nat) ≠ 0))
  · exact h3

/-- **the cat state of `prepare_cat` (complex representation) is Hermitian** for every amplitude, phase and parity: the
`|α⟩⟨α|` and `|−α⟩⟨−α|` terms are self-conjugate, the two interference terms are conjugates of each other -/
theorem cat_conjClosed [Field K] (hb2 s ar ai : K) (c : Cx K) : ConjClosed (catComplex hb2 s ar ai c) := by
  refine ⟨fun k => if k = 2 then 3 else if k = 3 then 2 else k, ?_, ?_⟩
  · intro k hk
    have : k = 0 ∨ k = 1 ∨ k = 2 ∨ k = 3 := by simp only [catComplex] at hk; omega
    rcases this with rfl | rfl | rfl | rfl <;> simp [catComplex]
  · intro k hk
    have : k = 0 ∨ k = 1 ∨ k = 2 ∨ k = 3 := by simp only [catComplex] at hk; omega
    have htot : ∀ c : Cx K, ((⟨1, 0⟩ : Cx K) + ⟨1, 0⟩ + c + Cx.conj c).im = 0 := by intro c; simp
    rcases this with rfl | rfl | rfl | rfl
    all_goals
      simp only [catComplex, Comp.conj, Comp.mk.injEq]
      refine ⟨?_, ?_, ?_⟩
      · apply Cx.ext' <;> simp [cdiv, htot] <;> ring
      · funext i
        by_cases h0 : i = 0 <;> by_cases h1 : i = 1 <;> simp [h0, h1] <;> apply Cx.ext' <;> simp
      · funext i j
        by_cases h : i = j ∧ i < 2 <;> simp [h] <;> apply Cx.ext' <;> simp <;> split_ifs <;> simp

end SFV.BosSt
