import SFV.Model.Bosonic
import SFV.Proofs.FockTensor

/-! Bosonic simulator: the permuted, expanded `(X, Y)` act as the identity on every quadrature of a
non-target mode (C05), and `from_xp`/`to_xp` are mutually inverse (C01: ordering conventions). -/
namespace SFV.Bos
open SFV.Fock Finset

variable {K : Type}

theorem fromXp_lt {n r : Nat} (h : r < 2 * n) : fromXp n r < 2 * n := by
  unfold fromXp
  have : r % 2 < 2 := Nat.mod_lt _ (by omega)
  have h2 : r / 2 < n := by omega
  rcases Nat.mod_two_eq_zero_or_one r with h1 | h1 <;> simp [h1] <;> omega

theorem toXp_fromXp {n r : Nat} (hn : 0 < n) (h : r < 2 * n) : toXp n (fromXp n r) = r := by
  unfold toXp fromXp
  have h2 : r / 2 < n := by omega
  rcases Nat.mod_two_eq_zero_or_one r with h1 | h1
  · simp [h1, Nat.mod_eq_of_lt h2, Nat.div_eq_of_lt h2]; omega
  · simp only [h1, one_mul]
    rw [Nat.add_mod_right, Nat.mod_eq_of_lt h2, Nat.add_div_right _ hn, Nat.div_eq_of_lt h2]; omega

theorem fromXp_mode {n r : Nat} (hn : 0 < n) (h : r < 2 * n) : fromXp n r % n = r / 2 := by
  unfold fromXp
  have h2 : r / 2 < n := by omega
  rcases Nat.mod_two_eq_zero_or_one r with h1 | h1
  · simp [h1, Nat.mod_eq_of_lt h2]
  · simp only [h1, one_mul]; rw [Nat.add_mod_right, Nat.mod_eq_of_lt h2]

theorem fromXp_inj {n r c : Nat} (hn : 0 < n) (hr : r < 2 * n) (hc : c < 2 * n)
    (h : fromXp n r = fromXp n c) : r = c := by
  rw [← toXp_fromXp hn hr, ← toXp_fromXp hn hc, h]

section
variable [Semiring K]

/-- the expanded, permuted `X` restricted to a row of a non-target mode is a unit row -/
theorem permBoth_expand_spectator (n : Nat) (hn : 0 < n) (modes : List Nat) (S : Nat → Nat → K)
    {r c : Nat} (hr : r < 2 * n) (hc : c < 2 * n) (hspec : ¬ (r / 2) ∈ modes) :
    permBoth n (expand n modes S) r c = if r = c then 1 else 0 := by
  unfold permBoth expand
  have hm : posOf modes (fromXp n r % n) = none := by
    rw [fromXp_mode hn hr]; simp [posOf, hspec]
  rw [hm]
  cases hpc : posOf modes (fromXp n c % n) with
  | some pj =>
    simp only
    have : r ≠ c := by
      intro h; subst h; rw [hm] at hpc; cases hpc
    simp [this]
  | none =>
    simp only
    by_cases h : r = c
    · simp [h]
    · have : fromXp n r ≠ fromXp n c := fun he => h (fromXp_inj hn hr hc he)
      simp [h, this]

theorem permBoth_expandY_spectator (n : Nat) (hn : 0 < n) (modes : List Nat) (Y : Nat → Nat → K)
    {r s : Nat} (hr : r < 2 * n) (hspec : ¬ (r / 2) ∈ modes) :
    permBoth n (expandY n modes Y) r s = 0 := by
  unfold permBoth expandY
  have hm : posOf modes (fromXp n r % n) = none := by
    rw [fromXp_mode hn hr]; simp [posOf, hspec]
  rw [hm]

theorem permBoth_expandY_spectator' (n : Nat) (hn : 0 < n) (modes : List Nat) (Y : Nat → Nat → K)
    {r s : Nat} (hs : s < 2 * n) (hspec : ¬ (s / 2) ∈ modes) :
    permBoth n (expandY n modes Y) r s = 0 := by
  unfold permBoth expandY
  have hm : posOf modes (fromXp n s % n) = none := by
    rw [fromXp_mode hn hs]; simp [posOf, hspec]
  rw [hm]
  cases posOf modes (fromXp n r % n) <;> rfl

/-- **means of spectator modes are untouched** by any `(X, Y)` expanded from the target modes -/
theorem updateMeans_spectator (n : Nat) (hn : 0 < n) (modes : List Nat) (S : Nat → Nat → K) (μ : Nat → K)
    {r : Nat} (hr : r < 2 * n) (hspec : ¬ (r / 2) ∈ modes) :
    updateMeans n (expand n modes S) μ r = μ r := by
  unfold updateMeans
  rw [sumTo_eq_sum, Finset.sum_eq_single_of_mem r (Finset.mem_range.mpr hr)]
  · rw [permBoth_expand_spectator n hn modes S hr hr hspec]; simp
  · intro c hc hne
    rw [permBoth_expand_spectator n hn modes S hr (Finset.mem_range.mp hc) hspec]
    simp [Ne.symm hne]

/-- **covariances between spectator quadratures are untouched** -/
theorem updateCovs_spectator (n : Nat) (hn : 0 < n) (modes : List Nat) (S Y : Nat → Nat → K)
    (V : Nat → Nat → K) {r s : Nat} (hr : r < 2 * n) (hs : s < 2 * n)
    (hr' : ¬ (r / 2) ∈ modes) (hs' : ¬ (s / 2) ∈ modes) :
    updateCovs n (expand n modes S) (expandY n modes Y) V r s = V r s := by
  unfold updateCovs
  rw [permBoth_expandY_spectator n hn modes Y hr hr', add_zero, sumTo_eq_sum,
    Finset.sum_eq_single_of_mem r (Finset.mem_range.mpr hr)]
  · rw [sumTo_eq_sum, Finset.sum_eq_single_of_mem s (Finset.mem_range.mpr hs)]
    · rw [permBoth_expand_spectator n hn modes S hr hr hr', permBoth_expand_spectator n hn modes S hs hs hs']
      simp
    · intro d hd hne
      rw [permBoth_expand_spectator n hn modes S hs (Finset.mem_range.mp hd) hs']
      simp [Ne.symm hne]
  · intro c hc hne
    rw [sumTo_eq_sum]
    apply Finset.sum_eq_zero
    intro d _
    rw [permBoth_expand_spectator n hn modes S hr (Finset.mem_range.mp hc) hr']
    simp [Ne.symm hne]

end

end SFV.Bos

namespace SFV.Bos
section
variable {K : Type} [Semiring K]

theorem fromXp_quad {n r : Nat} (hn : 0 < n) (h : r < 2 * n) : fromXp n r / n = r % 2 := by
  unfold fromXp
  have h2 : r / 2 < n := by omega
  rcases Nat.mod_two_eq_zero_or_one r with h0 | h1
  · rw [h0, Nat.zero_mul, Nat.add_zero]; exact Nat.div_eq_of_lt h2
  · rw [h1, Nat.one_mul, Nat.add_div_right _ hn, Nat.div_eq_of_lt h2]

/-- **the expanded, permuted `X` in a row of a target mode, for any list of target modes in any order**: the entry in
column `c` is the block entry at (position of the row's mode in the list + quadrature·k, position of the column's mode +
quadrature·k) when the column's mode is listed too, and zero otherwise -/
theorem permBoth_expand_target_general (n : Nat) (hn : 0 < n) (modes : List Nat) (S : Nat → Nat → K)
    {r c : Nat} (hr : r < 2 * n) (hc : c < 2 * n) (hrm : (r / 2) ∈ modes) :
    permBoth n (expand n modes S) r c =
      if (c / 2) ∈ modes then
        S (modes.idxOf (r / 2) + (r % 2) * modes.length) (modes.idxOf (c / 2) + (c % 2) * modes.length)
      else 0 := by
  unfold permBoth expand
  have hpr : posOf modes (fromXp n r % n) = some (modes.idxOf (r / 2)) := by
    rw [fromXp_mode hn hr]; simp [posOf, hrm]
  rw [hpr, fromXp_quad hn hr, fromXp_quad hn hc, fromXp_mode hn hc]
  by_cases hcm : (c / 2) ∈ modes
  · simp [posOf, hcm]
  · simp [posOf, hcm]

end
end SFV.Bos
