import SFV.Proofs.GaussNM
import SFV.Proofs.Physical

/-! Bridge between the sparse-row specification of `SFV.Model.PhaseSpace` and Mathlib matrices:
`linMap R V` is the congruence `S V Sᵀ` for the matrix `S` read off the rows, and `sympForm R` is
`S Ω Sᵀ`.  Hence the documented gate blocks (proved symplectic row by row) preserve the uncertainty
relation `V + iΩ ⪰ 0` of `SFV.Proofs.Physical` (C07). -/
namespace SFV.Gauss
open Finset Matrix

variable {K : Type} [CommRing K]

/-- quadrature index of an `n`-mode register -/
abbrev QI (n : Nat) := Fin n × Bool

def toQ {n : Nat} (v : QI n) : Q := (v.1.val, v.2)

/-- coefficient of quadrature `w` in a linear form -/
def coef (l : List (Q × K)) (w : Q) : K := l.foldr (fun t acc => (if t.1 = w then t.2 else 0) + acc) 0

theorem lsum_cons (t : Q × K) (l : List (Q × K)) (f : Q → K) : lsum (t :: l) f = t.2 * f t.1 + lsum l f := rfl
theorem lsum_nil (f : Q → K) : lsum ([] : List (Q × K)) f = 0 := rfl
theorem coef_cons (t : Q × K) (l : List (Q × K)) (w : Q) :
    coef (t :: l) w = (if t.1 = w then t.2 else 0) + coef l w := rfl
theorem coef_nil (w : Q) : coef ([] : List (Q × K)) w = 0 := rfl

/-- a linear form supported on modes `< n` is the sum over all quadratures of coefficient × value -/
theorem lsum_eq_sum {n : Nat} (l : List (Q × K)) (hl : ∀ t ∈ l, t.1.1 < n) (f : Q → K) :
    lsum l f = ∑ w : QI n, coef l (toQ w) * f (toQ w) := by
  induction l with
  | nil => simp [lsum_nil, coef_nil]
  | cons t l ih =>
    rw [lsum_cons, ih (fun s hs => hl s (by simp [hs]))]
    simp only [coef_cons, add_mul, Finset.sum_add_distrib]
    congr 1
    have ht := hl t (by simp)
    rw [Finset.sum_eq_single (⟨⟨t.1.1, ht⟩, t.1.2⟩ : QI n)]
    · simp [toQ]
    · intro w _ hne
      have : t.1 ≠ toQ w := by
        intro h; apply hne
        ext
        · simp [toQ] at h ⊢; rw [h]
        · simp [toQ] at h ⊢; rw [h]
      simp [this]
    · intro h; exact absurd (Finset.mem_univ _) h

theorem lsum_add (l : List (Q × K)) (f g : Q → K) : lsum l (fun u => f u + g u) = lsum l f + lsum l g := by
  induction l with
  | nil => simp [lsum_nil]
  | cons t l ih => rw [lsum_cons, lsum_cons, lsum_cons, ih]; ring

theorem lsum_smul (l : List (Q × K)) (c : K) (f : Q → K) : lsum l (fun u => c * f u) = c * lsum l f := by
  induction l with
  | nil => simp [lsum_nil]
  | cons t l ih => rw [lsum_cons, lsum_cons, ih]; ring

theorem lsum_comm (l1 l2 : List (Q × K)) (g : Q → Q → K) :
    lsum l1 (fun u => lsum l2 fun v => g u v) = lsum l2 (fun v => lsum l1 fun u => g u v) := by
  induction l1 with
  | nil =>
    simp only [lsum_nil]
    induction l2 with
    | nil => rfl
    | cons t l ih => rw [lsum_cons, ← ih]; ring
  | cons t l ih =>
    simp only [lsum_cons]
    rw [ih, lsum_add, lsum_smul]

/-- the generic form of every block of `linMap` -/
def covLin (R : Q → List (Q × K)) (V : XP K) (a b : Q) : K :=
  lsum (R a) fun u => lsum (R b) fun v => V.cov u v

theorem cov_symm (V : XP K) (hxx : ∀ i j, V.xx i j = V.xx j i) (hpp : ∀ i j, V.pp i j = V.pp j i) (a b : Q) :
    V.cov a b = V.cov b a := by
  obtain ⟨i, qi⟩ := a
  obtain ⟨j, qj⟩ := b
  cases qi <;> cases qj <;> simp [XP.cov, hxx i j, hpp i j]

theorem linMap_cov (R : Q → List (Q × K)) (V : XP K) (hxx : ∀ i j, V.xx i j = V.xx j i)
    (hpp : ∀ i j, V.pp i j = V.pp j i) (a b : Q) : (linMap R V).cov a b = covLin R V a b := by
  obtain ⟨i, qi⟩ := a
  obtain ⟨j, qj⟩ := b
  cases qi <;> cases qj <;> simp only [XP.cov, linMap, covLin]
  rw [lsum_comm]
  congr 1; funext u; congr 1; funext v
  exact cov_symm V hxx hpp v u

/-- the matrix of a row specification on an `n`-mode register -/
def rowsMatrix (n : Nat) (R : Q → List (Q × K)) : Matrix (QI n) (QI n) K := fun v w => coef (R (toQ v)) (toQ w)

/-- the covariance matrix of xp data -/
def covMatrix (n : Nat) (V : XP K) : Matrix (QI n) (QI n) K := fun v w => V.cov (toQ v) (toQ w)

/-- the symplectic form as a matrix -/
def omegaMatrix (n : Nat) : Matrix (QI n) (QI n) K := fun v w => sympOmega (toQ v) (toQ w)

/-- rows supported on the register -/
def Supported (n : Nat) (R : Q → List (Q × K)) : Prop := ∀ v : QI n, ∀ t ∈ R (toQ v), t.1.1 < n

/-- **`linMap R V` is the congruence `S V Sᵀ`** -/
theorem covMatrix_linMap (n : Nat) (R : Q → List (Q × K)) (hR : Supported n R) (V : XP K)
    (hxx : ∀ i j, V.xx i j = V.xx j i) (hpp : ∀ i j, V.pp i j = V.pp j i) :
    covMatrix n (linMap R V) = rowsMatrix n R * covMatrix n V * (rowsMatrix n R)ᵀ := by
  ext v w
  simp only [covMatrix, linMap_cov R V hxx hpp, covLin, Matrix.mul_apply, Matrix.transpose_apply, rowsMatrix]
  rw [lsum_eq_sum (n := n) _ (hR v)]
  simp only [Finset.sum_mul]
  rw [Finset.sum_comm]
  refine Finset.sum_congr rfl fun y _ => ?_
  rw [lsum_eq_sum (n := n) _ (hR w), Finset.mul_sum]
  refine Finset.sum_congr rfl fun x _ => ?_
  ring

/-- **`sympForm R` is `S Ω Sᵀ`** -/
theorem omega_congr (n : Nat) (R : Q → List (Q × K)) (hR : Supported n R)
    (hsymp : ∀ u v, sympForm R u v = sympOmega u v) :
    rowsMatrix n R * omegaMatrix n * (rowsMatrix n R)ᵀ = omegaMatrix n := by
  ext v w
  simp only [omegaMatrix, Matrix.mul_apply, Matrix.transpose_apply, rowsMatrix]
  conv_rhs => rw [← hsymp (toQ v) (toQ w)]
  simp only [sympForm]
  rw [lsum_eq_sum (n := n) _ (hR v)]
  simp only [Finset.sum_mul]
  rw [Finset.sum_comm]
  refine Finset.sum_congr rfl fun y _ => ?_
  rw [lsum_eq_sum (n := n) _ (hR w), Finset.mul_sum]
  refine Finset.sum_congr rfl fun x _ => ?_
  ring

/-- **gates preserve the uncertainty relation**: for real data, if the rows are symplectic then
`V + iΩ ⪰ 0` for the input implies it for `linMap R V` — all register sizes -/
theorem linMap_uncertainty (n : Nat) (R : Q → List (Q × ℝ)) (hR : Supported n R)
    (hsymp : ∀ u v, sympForm R u v = sympOmega u v) (V : XP ℝ)
    (hxx : ∀ i j, V.xx i j = V.xx j i) (hpp : ∀ i j, V.pp i j = V.pp j i)
    (h : SFV.Physical.Uncertainty (covMatrix n V) (omegaMatrix n)) :
    SFV.Physical.Uncertainty (covMatrix n (linMap R V)) (omegaMatrix n) := by
  rw [covMatrix_linMap n R hR V hxx hpp]
  exact SFV.Physical.uncertainty_congr _ _ _ (omega_congr n R hR hsymp) h

end SFV.Gauss

namespace SFV.Gauss
variable {K : Type} [CommRing K]

theorem rows1_supported (n k : Nat) (hk : k < n) (a b c d : K) : Supported n (rows1 k a b c d) := by
  intro v t ht
  obtain ⟨⟨i, hi⟩, q⟩ := v
  cases q <;> simp only [toQ, rows1] at ht <;> split at ht <;> simp [idRow] at ht
  all_goals first | (rcases ht with rfl | rfl <;> simpa using hk) | (subst ht; simpa using hi)

theorem bsRows_supported (n k l : Nat) (hk : k < n) (hl : l < n) (c s ct sn : K) :
    Supported n (bsRows k l c s ct sn) := by
  intro v t ht
  obtain ⟨⟨i, hi⟩, q⟩ := v
  cases q <;> simp only [toQ, bsRows] at ht <;> split at ht
  all_goals first
    | (simp at ht; rcases ht with rfl | rfl | rfl <;> simp [hk, hl])
    | (split at ht
       · simp at ht; rcases ht with rfl | rfl | rfl <;> simp [hk, hl]
       · simp [idRow] at ht; subst ht; simpa using hi)

end SFV.Gauss
