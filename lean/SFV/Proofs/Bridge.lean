import SFV.Proofs.GaussNM
import SFV.Proofs.Physical

/-! Bridge between the sparse-row specification of `SFV.Model.PhaseSpace` and Mathlib matrices:
`linMap R V` is the congruence `S V Sᵀ` for the matrix `S` read off the rows, and `sympForm R` is
`S Ω Sᵀ`.  Hence the documented gate blocks (proved symplectic row by row) preserve the uncertainty
relation `V + iΩ ⪰ 0` of `SFV.Proofs.Physical` (C07). -/
namespace SFV.Gauss
open Finset Matrix

variable {K : Type} [CommRing K]

/-- quadrature index of an `n`-mode register -/
abbrev QI (n : Nat) := Fin n × Bool

def toQ {n : Nat} (v : QI n) : Q := (v.1.val, v.2)

/-- coefficient of quadrature `w` in a linear form -/
def coef (l : List (Q × K)) (w : Q) : K := l.foldr (fun t acc => (if t.1 = w then t.2 else 0) + acc) 0

theorem lsum_cons (t : Q × K) (l : List (Q × K)) (f : Q → K) : lsum (t :: l) f = t.2 * f t.1 + lsum l f := rfl
theorem lsum_nil (f : Q → K) : lsum ([] : List (Q × K)) f = 0 := rfl
theorem coef_cons (t : Q × K) (l : List (Q × K)) (w : Q) :
    coef (t :: l) w = (if t.1 = w then t.2 else 0) + coef l w := rfl
theorem coef_nil (w : Q) : coef ([] : List (Q × K)) w = 0 := rfl

/-- a linear form supported on modes `< n` is the sum over all quadratures of coefficient × value -/
theorem lsum_eq_sum {n : Nat} (l : List (Q × K)) (hl : ∀ t ∈ l, t.1.1 < n) (f : Q → K) :
    lsum l f = ∑ w : QI n, coef l (toQ w) * f (toQ w) := by
  induction l with
  | nil => simp [lsum_nil, coef_nil]
  | cons t l ih =>
    rw [lsum_cons, ih (fun s hs => hl s (by simp [hs]))]
    simp only [coef_cons, add_mul, Finset.sum_add_distrib]
    congr 1
    have ht := hl t (by simp)
    rw [Finset.sum_eq_single (⟨⟨t.1.1, ht⟩, t.1.2⟩ : QI n)]
    · simp [toQ]
    · intro w _ hne
      have : t.1 ≠ toQ w := by
        intro h; apply hne
        ext
        · simp [toQ] at h ⊢; rw [h]
        · simp [toQ] at h ⊢; rw [h]
      simp [this]
    · intro h; exact absurd (Finset.mem_univ _) h

theorem lsum_add (l : List (Q × K)) (f g : Q → K) : lsum l (fun u => f u + g u) = lsum l f + lsum l g := by
  induction l with
  | nil => simp [lsum_nil]
  | cons t l ih => rw [lsum_cons, lsum_cons, lsum_cons, ih]; ring

theorem lsum_smul (l : List (Q × K)) (c : K) (f : Q → K) : lsum l (fun u => c * f u) = c * lsum l f := by
  induction l with
  | nil => simp [lsum_nil]
  | cons t l ih => rw [lsum_cons, lsum_cons, ih]; ring

theorem lsum_comm (l1 l2 : List (Q × K)) (g : Q → Q → K) :
    lsum l1 (fun u => lsum l2 fun v => g u v) = lsum l2 (fun v => lsum l1 fun u => g u v) := by
  induction l1 with
  | nil =>
    simp only [lsum_nil]
    induction l2 with
    | nil => rfl
    | cons t l ih => rw [lsum_cons, ← ih]; ring
  | cons t l ih =>
    simp only [lsum_cons]
    rw [ih, lsum_add, lsum_smul]

/-- the generic form of every block of `linMap` -/
def covLin (R : Q → List (Q × K)) (V : XP K) (a b : Q) : K :=
  lsum (R a) fun u => lsum (R b) fun v => V.cov u v

theorem cov_symm (V : XP K) (hxx : ∀ i j, V.xx i j = V.xx j i) (hpp : ∀ i j, V.pp i j = V.pp j i) (a b : Q) :
    V.cov a b = V.cov b a := by
  obtain ⟨i, qi⟩ := a
  obtain ⟨j, qj⟩ := b
  cases qi <;> cases qj <;> simp [XP.cov, hxx i j, hpp i j]

theorem linMap_cov (R : Q → List (Q × K)) (V : XP K) (hxx : ∀ i j, V.xx i j = V.xx j i)
    (hpp : ∀ i j, V.pp i j = V.pp j i) (a b : Q) : (linMap R V).cov a b = covLin R V a b := by
  obtain ⟨i, qi⟩ := a
  obtain ⟨j, qj⟩ := b
  cases qi <;> cases qj <;> simp only [XP.cov, linMap, covLin]
  rw [lsum_comm]
  congr 1; funext u; congr 1; funext v
  exact cov_symm V hxx hpp v u

/-- the matrix of a row specification on an `n`-mode register -/
def rowsMatrix (n : Nat) (R : Q → List (Q × K)) : Matrix (QI n) (QI n) K := fun v w => coef (R (toQ v)) (toQ w)

/-- the covariance matrix of xp data -/
def covMatrix (n : Nat) (V : XP K) : Matrix (QI n) (QI n) K := fun v w => V.cov (toQ v) (toQ w)

/-- the symplectic form as a matrix -/
def omegaMatrix (n : Nat) : Matrix (QI n) (QI n) K := fun v w => sympOmega (toQ v) (toQ w)

/-- rows supported on the register -/
def Supported (n : Nat) (R : Q → List (Q × K)) : Prop := ∀ v : QI n, ∀ t ∈ R (toQ v), t.1.1 < n

/-- **`linMap R V` is the congruence `S V Sᵀ`** -/
theorem covMatrix_linMap (n : Nat) (R : Q → List (Q × K)) (hR : Supported n R) (V : XP K)
    (hxx : ∀ i j, V.xx i j = V.xx j i) (hpp : ∀ i j, V.pp i j = V.pp j i) :
    covMatrix n (linMap R V) = rowsMatrix n R * covMatrix n V * (rowsMatrix n R)ᵀ := by
  ext v w
  simp only [covMatrix, linMap_cov R V hxx hpp, covLin, Matrix.mul_apply, Matrix.transpose_apply, rowsMatrix]
  rw [lsum_eq_sum (n := n) _ (hR v)]
  simp only [Finset.sum_mul]
  rw [Finset.sum_comm]
  refine Finset.sum_congr rfl fun y _ => ?_
  rw [lsum_eq_sum (n := n) _ (hR w), Finset.mul_sum]
  refine Finset.sum_congr rfl fun x _ => ?_
  ring

/-- **`sympForm R` is `S Ω Sᵀ`** -/
theorem omega_congr (n : Nat) (R : Q → List (Q × K)) (hR : Supported n R)
    (hsymp : ∀ u v, sympForm R u v = sympOmega u v) :
    rowsMatrix n R * omegaMatrix n * (rowsMatrix n R)ᵀ = omegaMatrix n := by
  ext v w
  simp only [omegaMatrix, Matrix.mul_apply, Matrix.transpose_apply, rowsMatrix]
  conv_rhs => rw [← hsymp (toQ v) (toQ w)]
  simp only [sympForm]
  rw [lsum_eq_sum (n := n) _ (hR v)]
  simp only [Finset.sum_mul]
  rw [Finset.sum_comm]
  refine Finset.sum_congr rfl fun y _ => ?_
  rw [lsum_eq_sum (n := n) _ (hR w), Finset.mul_sum]
  refine Finset.sum_congr rfl fun x _ => ?_
  ring

/-- **gates preserve the uncertainty relation**: for real data, if the rows are symplectic then
`V + iΩ ⪰ 0` for the input implies it for `linMap R V` — all register sizes -/
theorem linMap_uncertainty (n : Nat) (R : Q → List (Q × ℝ)) (hR : Supported n R)
    (hsymp : ∀ u v, sympForm R u v = sympOmega u v) (V : XP ℝ)
    (hxx : ∀ i j, V.xx i j = V.xx j i) (hpp : ∀ i j, V.pp i j = V.pp j i)
    (h : SFV.Physical.Uncertainty (covMatrix n V) (omegaMatrix n)) :
    SFV.Physical.Uncertainty (covMatrix n (linMap R V)) (omegaMatrix n) := by
  rw [covMatrix_linMap n R hR V hxx hpp]
  exact SFV.Physical.uncertainty_congr _ _ _ (omega_congr n R hR hsymp) h

end SFV.Gauss

namespace SFV.Gauss
variable {K : Type} [CommRing K]

theorem rows1_supported (n k : Nat) (hk : k < n) (a b c d : K) : Supported n (rows1 k a b c d) := by
  intro v t ht
  obtain ⟨⟨i, hi⟩, q⟩ := v
  cases q <;> simp only [toQ, rows1] at ht <;> split at ht <;> simp [idRow] at ht
  all_goals first | (rcases ht with rfl | rfl <;> simpa using hk) | (subst ht; simpa using hi)

theorem bsRows_supported (n k l : Nat) (hk : k < n) (hl : l < n) (c s ct sn : K) :
    Supported n (bsRows k l c s ct sn) := by
  intro v t ht
  obtain ⟨⟨i, hi⟩, q⟩ := v
  cases q <;> simp only [toQ, bsRows] at ht <;> split at ht
  all_goals first
    | (simp at ht; rcases ht with rfl | rfl | rfl <;> simp [hk, hl])
    | (split at ht
       · simp at ht; rcases ht with rfl | rfl | rfl <;> simp [hk, hl]
       · simp [idRow] at ht; subst ht; simpa using hi)

end SFV.Gauss

/-! ### loss and thermal loss as Gaussian channels satisfying the complete-positivity condition -/
namespace SFV.Gauss
open Matrix SFV.Physical
open scoped ComplexOrder

/-- attenuation matrix `X = diag(…, q, q, …)` on mode `k` -/
def lossX (n k : Nat) (q : ℝ) : Matrix (QI n) (QI n) ℝ :=
  Matrix.diagonal fun v => if v.1.val = k then q else 1

/-- noise matrix `Y = y · 1₂` on mode `k` -/
def lossY (n k : Nat) (y : ℝ) : Matrix (QI n) (QI n) ℝ :=
  Matrix.diagonal fun v => if v.1.val = k then y else 0

/-- `Y + i(Ω − XΩXᵀ)` for (thermal) loss: on mode `k` it is `y·1₂ + i(1−q²)Ω₂`, zero elsewhere -/
theorem loss_cp_entries (n k : Nat) (q y : ℝ) (v w : QI n) :
    ((cplx (lossY n k y) + Complex.I • cplx ((omegaMatrix n : Matrix (QI n) (QI n) ℝ) -
      lossX n k q * omegaMatrix n * (lossX n k q)ᵀ) : Matrix (QI n) (QI n) ℂ)) v w =
      if v.1.val = k ∧ w.1 = v.1 then
        (if v.2 = w.2 then (y : ℂ) else if w.2 then Complex.I * ((1 - q * q : ℝ) : ℂ) else -Complex.I * ((1 - q * q : ℝ) : ℂ))
      else 0 := by
  obtain ⟨i, a⟩ := v
  obtain ⟨j, b⟩ := w
  simp only [cplx, lossX, lossY, omegaMatrix, Matrix.add_apply, Matrix.smul_apply, Matrix.map_apply,
    Matrix.sub_apply, Matrix.diagonal_transpose, Matrix.mul_diagonal, Matrix.diagonal_mul, Matrix.diagonal_apply,
    sympOmega, toQ, smul_eq_mul, Complex.ofRealHom_eq_coe, Prod.mk.injEq]
  by_cases hi : i.val = k <;> by_cases hij : j = i
  · subst hij
    cases a <;> cases b <;> simp [hi] <;> ring_nf
  · have hne : i ≠ j := fun h => hij h.symm
    have hv : i.val ≠ j.val := fun h => hne (Fin.ext h)
    have hk : k ≠ j.val := hi ▸ hv
    have hk' : j.val ≠ k := Ne.symm hk
    cases a <;> cases b <;> simp [hi, hij, hne, hv, hk, hk']
  · subst hij
    cases a <;> cases b <;> simp [hi]
  · have hne : i ≠ j := fun h => hij h.symm
    have hv : i.val ≠ j.val := fun h => hne (Fin.ext h)
    cases a <;> cases b <;> simp [hi, hij, hne, hv]

/-- the vector whose outer product is the pure-loss CP matrix -/
noncomputable def lossVec (n k : Nat) (t : ℝ) : QI n → ℂ :=
  fun v => if v.1.val = k then (t : ℂ) * (if v.2 then -Complex.I else 1) else 0

theorem loss_cp_outer (n k : Nat) (q t : ℝ) (ht : t * t = 1 - q * q) :
    (cplx (lossY n k (1 - q * q)) + Complex.I • cplx ((omegaMatrix n : Matrix (QI n) (QI n) ℝ) -
      lossX n k q * omegaMatrix n * (lossX n k q)ᵀ) : Matrix (QI n) (QI n) ℂ) =
      Matrix.vecMulVec (lossVec n k t) (star (lossVec n k t)) := by
  ext v w
  rw [loss_cp_entries]
  obtain ⟨i, a⟩ := v
  obtain ⟨j, b⟩ := w
  have htc : (t : ℂ) * (t : ℂ) = ((1 - q * q : ℝ) : ℂ) := by rw [← Complex.ofReal_mul, ht]
  simp only [Matrix.vecMulVec_apply, lossVec, Pi.star_apply]
  by_cases hi : i.val = k <;> by_cases hij : j = i
  · subst hij
    cases a <;> cases b <;> simp [hi, ← htc] <;> ring_nf <;> simp [Complex.I_sq] <;> ring_nf
  · have hne : i ≠ j := fun h => hij h.symm
    have hv : i.val ≠ j.val := fun h => hne (Fin.ext h)
    have hk' : j.val ≠ k := fun h => hv (hi.trans h.symm)
    simp [hi, hij, hk']
  · subst hij
    simp [hi]
  · simp [hi, hij]

/-- **pure loss satisfies the complete-positivity condition** (for `0 ≤ 1 − q²`, witnessed by `t`) -/
theorem loss_cp (n k : Nat) (q t : ℝ) (ht : t * t = 1 - q * q) :
    (cplx (lossY n k (1 - q * q)) + Complex.I • cplx ((omegaMatrix n : Matrix (QI n) (QI n) ℝ) -
      lossX n k q * omegaMatrix n * (lossX n k q)ᵀ) : Matrix (QI n) (QI n) ℂ).PosSemidef := by
  rw [loss_cp_outer n k q t ht]
  exact Matrix.posSemidef_vecMulVec_self_star _

/-- **loss preserves the uncertainty relation**: `V ↦ X V Xᵀ + (1 − q²)·E_k` for `T = q² ≤ 1` -/
theorem loss_uncertainty_matrix (n k : Nat) (q t : ℝ) (ht : t * t = 1 - q * q)
    (V : Matrix (QI n) (QI n) ℝ) (h : Uncertainty V (omegaMatrix n)) :
    Uncertainty (lossX n k q * V * (lossX n k q)ᵀ + lossY n k (1 - q * q)) (omegaMatrix n) :=
  uncertainty_channel V _ _ _ (loss_cp n k q t ht) h

theorem lossY_add (n k : Nat) (y e : ℝ) : lossY n k (y + e) = lossY n k y + lossY n k e := by
  ext v w
  simp only [lossY, Matrix.add_apply, Matrix.diagonal_apply]
  by_cases h : v = w
  · subst h; by_cases hk : v.1.val = k <;> simp [hk]
  · simp [h]

theorem cplx_lossY_psd (n k : Nat) (e : ℝ) (he : 0 ≤ e) : (cplx (lossY n k e)).PosSemidef := by
  have : cplx (lossY n k e) = Matrix.diagonal fun v : QI n => ((if v.1.val = k then e else 0 : ℝ) : ℂ) := by
    ext v w
    simp only [cplx, lossY, Matrix.map_apply, Matrix.diagonal_apply]
    by_cases h : v = w <;> simp [h]
  rw [this, Matrix.posSemidef_diagonal_iff]
  intro v
  split <;> simp [he]

/-- **thermal loss preserves the uncertainty relation**: noise `(1 − q²)(2n̄ + 1) = (1 − q²) + e`, `e ≥ 0` -/
theorem thermal_loss_uncertainty_matrix (n k : Nat) (q t e : ℝ) (ht : t * t = 1 - q * q) (he : 0 ≤ e)
    (V : Matrix (QI n) (QI n) ℝ) (h : Uncertainty V (omegaMatrix n)) :
    Uncertainty (lossX n k q * V * (lossX n k q)ᵀ + lossY n k (1 - q * q + e)) (omegaMatrix n) := by
  apply uncertainty_channel V _ _ _ _ h
  rw [lossY_add, cplx_add, add_assoc, add_comm (cplx (lossY n k e)), ← add_assoc]
  exact (loss_cp n k q t ht).add (cplx_lossY_psd n k e he)

theorem rowsMatrix_lossRows (n k : Nat) (q : ℝ) : rowsMatrix n (lossRows k q) = lossX n k q := by
  ext v w
  obtain ⟨i, a⟩ := v
  obtain ⟨j, b⟩ := w
  simp only [rowsMatrix, lossRows, lossX, toQ, Matrix.diagonal_apply, Prod.mk.injEq]
  by_cases hi : i.val = k
  · cases a <;> cases b <;> simp [rows1, coef, hi, Fin.ext_iff] <;>
      (by_cases hij : i.val = j.val <;> simp [hij, hi, hi ▸ hij, eq_comm])
  · cases a <;> cases b <;> simp [rows1, idRow, coef, hi, Fin.ext_iff]

theorem covMatrix_addNoise (n k : Nat) (V : XP ℝ) (y : ℝ) :
    covMatrix n (addNoise V k y) = covMatrix n V + lossY n k y := by
  ext v w
  obtain ⟨i, a⟩ := v
  obtain ⟨j, b⟩ := w
  simp only [covMatrix, addNoise, lossY, toQ, Matrix.add_apply, Matrix.diagonal_apply, Prod.mk.injEq]
  cases a <;> cases b <;> simp only [XP.cov] <;>
    by_cases hi : i.val = k <;> by_cases hij : i = j <;> simp [hi, hij, Fin.ext_iff] <;>
    (try (subst hij; simp [hi])) <;>
    (try (intro h; exact absurd (Fin.ext (hi.trans h.symm)) hij))

/-- **the simulator's loss and thermal loss preserve the uncertainty relation** (specification side:
`addNoise (linMap (lossRows k q) V) k y`, to which `loss_refines` / `thermalLoss_refines` tie the
entrywise updates) -/
theorem loss_spec_uncertainty (n k : Nat) (q t e : ℝ) (ht : t * t = 1 - q * q) (he : 0 ≤ e) (V : XP ℝ)
    (hxx : ∀ i j, V.xx i j = V.xx j i) (hpp : ∀ i j, V.pp i j = V.pp j i)
    (hk : k < n) (h : Uncertainty (covMatrix n V) (omegaMatrix n)) :
    Uncertainty (covMatrix n (addNoise (linMap (lossRows k q) V) k (1 - q * q + e))) (omegaMatrix n) := by
  have hs : Supported n (lossRows k q) := rows1_supported n k hk _ _ _ _
  rw [covMatrix_addNoise, covMatrix_linMap n (lossRows k q) hs V hxx hpp, rowsMatrix_lossRows]
  exact thermal_loss_uncertainty_matrix n k q t e ht he _ h

end SFV.Gauss
