import SFV.Model.IoIR
/-! Lemmas for K8: round trips of values, commands and programs through the two IR models. -/
namespace SFV.Io

/-! ### generic -/

theorem mapM_ok {α β ε : Type} (f : α → Except ε β) (g : α → β) :
    ∀ l : List α, (∀ x ∈ l, f x = .ok (g x)) → l.mapM f = .ok (l.map g) := by
  intro l
  induction l with
  | nil => intro _; rfl
  | cons a l ih =>
    intro h
    rw [List.mapM_cons, h a (List.mem_cons_self), ih (fun x hx => h x (List.mem_cons_of_mem _ hx))]
    rfl

/-- writer `w` then reader `r` element-wise -/
theorem mapM_rt {α β ε : Type} (w : α → β) (r : β → Except ε α) :
    ∀ l : List α, (∀ v ∈ l, r (w v) = .ok v) → (l.map w).mapM r = .ok l := by
  intro l
  induction l with
  | nil => intro _; rfl
  | cons a l ih =>
    intro h
    rw [List.map_cons, List.mapM_cons, h a (List.mem_cons_self),
      ih (fun x hx => h x (List.mem_cons_of_mem _ hx))]
    rfl

theorem map_id' {α : Type} (f : α → α) (l : List α) (h : ∀ x ∈ l, f x = x) : l.map f = l := by
  induction l with
  | nil => rfl
  | cons a l ih =>
    rw [List.map_cons, h a (List.mem_cons_self), ih (fun x hx => h x (List.mem_cons_of_mem _ hx))]

/-! ### mode counting -/

theorem le_maxSucc {x : Nat} : ∀ {l : List Nat}, x ∈ l → x + 1 ≤ maxSucc l := by
  intro l
  induction l with
  | nil => intro h; cases h
  | cons y ys ih =>
    intro h
    simp only [maxSucc]
    rcases List.mem_cons.mp h with rfl | h
    · omega
    · have := ih h; omega

theorem maxSucc_le {b : Nat} : ∀ {l : List Nat}, (∀ x ∈ l, x + 1 ≤ b) → maxSucc l ≤ b := by
  intro l
  induction l with
  | nil => intro _; simp [maxSucc]
  | cons y ys ih =>
    intro h
    simp only [maxSucc]
    have h1 := h y (List.mem_cons_self)
    have h2 := ih (fun x hx => h x (List.mem_cons_of_mem _ hx))
    omega

theorem maxSucc_congr {l m : List Nat} (h : ∀ x, x ∈ l ↔ x ∈ m) : maxSucc l = maxSucc m :=
  Nat.le_antisymm (maxSucc_le fun x hx => le_maxSucc ((h x).mp hx))
    (maxSucc_le fun x hx => le_maxSucc ((h x).mpr hx))

theorem mem_insertAsc {x y : Nat} : ∀ {l : List Nat}, y ∈ insertAsc x l ↔ y = x ∨ y ∈ l := by
  intro l
  induction l with
  | nil => simp [insertAsc]
  | cons z zs ih =>
    simp only [insertAsc]
    split
    · simp
    · split
      · subst_vars; simp
      · simp only [List.mem_cons, ih]
        constructor
        · rintro (h | h | h) <;> simp [h]
        · rintro (h | h | h) <;> simp [h]

theorem mem_sortModes {y : Nat} : ∀ {l : List Nat}, y ∈ l.foldr insertAsc [] ↔ y ∈ l := by
  intro l
  induction l with
  | nil => simp
  | cons z zs ih => simp only [List.foldr_cons, mem_insertAsc, ih, List.mem_cons]

/-- the text layer's recomputation of the mode set does not change `max(modes) + 1` -/
theorem modeCount_reparse (l : List (List Nat)) :
    modeCount [l.flatten.foldr insertAsc []] = modeCount l := by
  unfold modeCount
  apply maxSucc_congr
  intro x
  simp only [List.flatten_cons, List.flatten_nil, List.append_nil]
  exact mem_sortModes

theorem sortModes_ne_nil {l : List Nat} (h : l ≠ []) : l.foldr insertAsc [] ≠ [] := by
  cases l with
  | nil => exact absurd rfl h
  | cons a as =>
    intro hc
    have : a ∈ (a :: as).foldr insertAsc [] := mem_sortModes.mpr (List.mem_cons_self)
    rw [hc] at this
    cases this

/-! ### symbolic values -/

@[simp] theorem negate_negate (e : Sym) : e.negate.negate = e := by
  cases e; rfl

@[simp] theorem negate_meas (e : Sym) : e.negate.meas = e.meas := rfl

theorem loopSym_meas (i : Nat) : (loopSym i).meas = [] := rfl
theorem loopSym_loop (i : Nat) : (loopSym i).pos.loop = some i := rfl

/-! ### expressible values -/

/-- a parameter of a gate / preparation / channel that Blackbird carries: numbers, arrays,
expressions of measured parameters of existing modes, and (TDM) the loop variables -/
def ValBB (tdm : Bool) (n : Nat) : Val → Prop
  | .sc _ => True
  | .arr _ _ => True
  | .sym e => (e.meas ≠ [] ∧ ∀ i ∈ e.meas, i < n) ∨ (tdm = true ∧ ∃ i, e = loopSym i)
  | _ => False

/-- a measurement phase that both IRs carry: a number or (TDM) a loop variable -/
def PhiOK (tdm : Bool) (k : Nat) : Val → Prop
  | .sc _ => True
  | .sym e => tdm = true ∧ ∃ i, i < k ∧ e = loopSym i
  | _ => False

/-- `select` / `dark_counts` values -/
def SelOK : Val → Prop
  | .sc _ => True
  | .lst _ => True
  | _ => False

/-- a parameter that XIR carries: numbers, arrays whose 1-D shape is their length, and (TDM, `k`
loop variables) the loop variables -/
def ValX (tdm : Bool) (k : Nat) : Val → Prop
  | .sc _ => True
  | .arr sh d => ∀ m, sh = [m] → m = d.length
  | .sym e => tdm = true ∧ ∃ i, i < k ∧ e = loopSym i
  | _ => False

theorem all_lt_of {n : Nat} {l : List Nat} (h : ∀ i ∈ l, i < n) : l.all (· < n) = true := by
  simp only [List.all_eq_true, decide_eq_true_eq]; exact h

/-- non-TDM Blackbird: writer then reader on one argument -/
theorem bb_val_rt {n : Nat} {v : Val} (h : ValBB false n v) :
    convert n (unPname (bbArg false v)) = .ok v := by
  cases v with
  | sc s => rfl
  | arr sh d => rfl
  | sym e =>
    rcases h with ⟨h1, h2⟩ | ⟨h1, _⟩
    · simp only [bbArg, h1, ne_eq, not_false_eq_true, ↓reduceIte, unPname, convert, all_lt_of h2]
    · cases h1
  | str s => cases h
  | lst l => cases h
  | rrt e => cases h
  | pname i => cases h

/-- TDM Blackbird: writer then reader on one argument -/
theorem bb_val_rt_tdm {n : Nat} {v : Val} (h : ValBB true n v) :
    convert n (tdmArg (bbArg true v)) = .ok v := by
  cases v with
  | sc s => rfl
  | arr sh d => rfl
  | sym e =>
    rcases h with ⟨h1, h2⟩ | ⟨_, i, rfl⟩
    · simp only [bbArg, h1, ne_eq, not_false_eq_true, ↓reduceIte, tdmArg, convert, all_lt_of h2]
    · simp [bbArg, loopSym_meas, loopSym_loop, tdmArg, convert]
  | str s => cases h
  | lst l => cases h
  | rrt e => cases h
  | pname i => cases h


theorem mapM_map_ok {α β γ ε : Type} (w : α → β) (r : β → Except ε γ) (g : α → γ) :
    ∀ l : List α, (∀ v ∈ l, r (w v) = .ok (g v)) → (l.map w).mapM r = .ok (l.map g) := by
  intro l
  induction l with
  | nil => intro _; rfl
  | cons a l ih =>
    intro h
    rw [List.map_cons, List.mapM_cons, h a (List.mem_cons_self),
      ih (fun x hx => h x (List.mem_cons_of_mem _ hx))]
    rfl

/-! ### measurement keyword arguments -/

/-- the keyword arguments both writers give a measurement -/
def measKw (c : Cmd) : List (String × Val) :=
  optKw "select" c.select ++ (if c.cls = "MeasureFock" then optKw "dark_counts" c.dark else [])

def OptSel (o : Option Val) : Prop := ∀ v, o = some v → SelOK v

theorem selOK_convert {n : Nat} {v : Val} (h : SelOK v) : convert n (unPname v) = .ok v ∧ convert n (tdmArg v) = .ok v
    ∧ convert n v = .ok v ∧ (∀ i, v ≠ .pname i) := by
  cases v <;> first | (refine ⟨rfl, rfl, rfl, ?_⟩; intro i hc; cases hc) | cases h

theorem kw_facts (n : Nat) (sel dark : Option Val) (hs : OptSel sel) (hd : OptSel dark) :
    let kws := optKw "select" sel ++ optKw "dark_counts" dark
    convertKw n (kws.map fun kv => (kv.1, unPname kv.2)) = .ok kws ∧
    convertKw n (kws.map fun kv => (kv.1, tdmArg kv.2)) = .ok kws ∧
    convertKw n kws = .ok kws ∧
    lookupKw "phi" kws = none ∧ lookupKw "select" kws = sel ∧ lookupKw "dark_counts" kws = dark ∧
    kws.any (fun kv => !(["phi", "select", "dark_counts"].contains kv.1)) = false := by
  cases sel with
  | none =>
    cases dark with
    | none => simp [optKw, convertKw, lookupKw]; rfl
    | some d =>
      obtain ⟨h1, h2, h3, _⟩ := selOK_convert (n := n) (hd d rfl)
      simp [optKw, convertKw, lookupKw, h1, h2, h3, List.mapM_cons]
      rfl
  | some s =>
    obtain ⟨s1, s2, s3, _⟩ := selOK_convert (n := n) (hs s rfl)
    cases dark with
    | none =>
      simp [optKw, convertKw, lookupKw, s1, s2, s3, List.mapM_cons]
      rfl
    | some d =>
      obtain ⟨h1, h2, h3, _⟩ := selOK_convert (n := n) (hd d rfl)
      simp [optKw, convertKw, lookupKw, s1, s2, s3, h1, h2, h3, List.mapM_cons]
      rfl

/-! ### commands -/

/-- dagger normal form: Blackbird has no inverse flag, an inverted gate is written (and comes back)
as the same gate with its first parameter negated -/
def normCmd (c : Cmd) : Cmd :=
  match c.dagger, c.pars with
  | true, a :: as => { c with dagger := false, pars := (a.neg.getD a) :: as }
  | _, _ => c

/-- commands in the fragment Blackbird expresses (`n` modes, `k` TDM loop variables) -/
def CmdBB (tdm : Bool) (n k : Nat) (c : Cmd) : Prop :=
  c.cls ≠ "Fouriergate" ∧ c.kw = [] ∧
  ((isMeasure c.cls = true ∧ c.dagger = false ∧ (∀ v ∈ c.pars, PhiOK tdm k v) ∧ OptSel c.select ∧
      OptSel c.dark ∧ (c.dark = none ∨ c.cls = "MeasureFock")) ∨
   (isMeasure c.cls = false ∧ c.select = none ∧ c.dark = none ∧ (∀ v ∈ c.pars, ValBB tdm n v) ∧
      (c.dagger = true → negInverts c.cls = true ∧
        ∃ a as b, c.pars = a :: as ∧ a.neg = some b ∧ ValBB tdm n b)))

theorem measKw_eq {c : Cmd} (h : c.dark = none ∨ c.cls = "MeasureFock") :
    measKw c = optKw "select" c.select ++ optKw "dark_counts" c.dark := by
  unfold measKw
  rcases h with h | h
  · rw [h]; simp [optKw]
  · rw [if_pos h]

theorem build_ok {cls : String} {regs : List Nat} {args : List Val} {sel dark : Option Val} {inv : Bool}
    (hF : cls ≠ "Fouriergate") (hs : OptSel sel) (hd : OptSel dark) :
    build cls regs args (optKw "select" sel ++ optKw "dark_counts" dark) inv =
      .ok { cls := cls, regs := regs, pars := args, dagger := inv, select := sel, dark := dark, kw := [] } := by
  obtain ⟨_, _, _, h4, h5, h6, h7⟩ := kw_facts 0 sel dark hs hd
  unfold build
  rw [if_neg (fun h => hF h.1), h7]
  simp only [Bool.false_eq_true, ↓reduceIte, h4, h5, h6, Option.toList_none, List.append_nil]

theorem build_ok_nokw {cls : String} {regs : List Nat} {args : List Val} {inv : Bool}
    (hF : cls ≠ "Fouriergate") :
    build cls regs args [] inv =
      .ok { cls := cls, regs := regs, pars := args, dagger := inv, select := none, dark := none, kw := [] } := by
  have := build_ok (cls := cls) (regs := regs) (args := args) (sel := none) (dark := none) (inv := inv) hF
    (fun _ h => by cases h) (fun _ h => by cases h)
  simpa [optKw] using this

theorem phi_bb_rt {k n : Nat} {v : Val} (h : PhiOK false k v) :
    convert n (unPname (bbMeasArg false v)) = .ok v := by
  cases v with
  | sc s => rfl
  | sym e => exact absurd h.1 (by decide)
  | str s => cases h
  | lst l => cases h
  | arr sh d => cases h
  | rrt e => cases h
  | pname i => cases h

theorem phi_bb_rt_tdm {k n : Nat} {v : Val} (h : PhiOK true k v) :
    convert n (tdmArg (bbMeasArg true v)) = .ok v := by
  cases v with
  | sc s => rfl
  | sym e =>
    obtain ⟨_, i, _, rfl⟩ := h
    simp [bbMeasArg, loopSym_loop, tdmArg, convert, loopSym_meas]
  | str s => cases h
  | lst l => cases h
  | arr sh d => cases h
  | rrt e => cases h
  | pname i => cases h

/-- one command through `to_blackbird` and `from_blackbird` -/
theorem bb_cmd_rt {n k : Nat} {c : Cmd} (h : CmdBB false n k c) :
    ∃ o, toBBOp false c = .ok o ∧ o.modes = c.regs ∧ fromBBOp n o = .ok (normCmd c) := by
  obtain ⟨cls, regs, pars, dagger, select, dark, kw⟩ := c
  obtain ⟨hF, hkw, h⟩ := h
  simp only at hF hkw
  subst hkw
  rcases h with ⟨hm, hd, hphi, hs, hdk, hmf⟩ | ⟨hm, hsel, hdark, hv, hdag⟩
  · simp only at hm hd hphi hs hdk hmf
    subst hd
    refine ⟨_, by simp only [toBBOp, hm, ↓reduceIte]; rfl, rfl, ?_⟩
    have hk := measKw_eq (c := ⟨cls, regs, pars, false, select, dark, []⟩) hmf
    unfold measKw at hk
    simp only at hk
    obtain ⟨k1, _, _⟩ := kw_facts n select dark hs hdk
    simp only [fromBBOp, hk, k1, List.map_map]
    rw [mapM_rt (unPname ∘ bbMeasArg false) (convert n) pars (fun v hv => phi_bb_rt (hphi v hv))]
    simp only [bind, Except.bind]
    rw [build_ok hF hs hdk]
    rfl
  · simp only at hm hsel hdark hv hdag
    subst hsel hdark
    cases dagger with
    | false =>
      refine ⟨_, by simp only [toBBOp, hm, Bool.false_eq_true, ↓reduceIte]; rfl, rfl, ?_⟩
      simp only [fromBBOp, List.map_map, List.map_nil, convertKw, List.mapM_nil]
      rw [mapM_rt (unPname ∘ bbArg false) (convert n) pars (fun v hm' => bb_val_rt (hv v hm'))]
      simp only [bind, Except.bind, pure, Except.pure]
      rw [build_ok_nokw hF]
      rfl
    | true =>
      obtain ⟨hneg, a, as, b, rfl, hb, hbv⟩ := hdag rfl
      have hall : ∀ v ∈ b :: as, ValBB false n v := by
        intro v hv'
        rcases List.mem_cons.mp hv' with rfl | hv'
        · exact hbv
        · exact hv v (List.mem_cons_of_mem _ hv')
      refine ⟨{ op := cls, modes := regs, args := (b :: as).map (bbArg false), kwargs := [] }, ?_, rfl, ?_⟩
      · simp only [toBBOp, hm, Bool.false_eq_true, ↓reduceIte, hneg, negFirst, hb]
        rfl
      · simp only [fromBBOp, List.map_map, List.map_nil, convertKw, List.mapM_nil]
        rw [mapM_rt (unPname ∘ bbArg false) (convert n) (b :: as) (fun v hm' => bb_val_rt (hall v hm'))]
        simp only [bind, Except.bind, pure, Except.pure]
        rw [build_ok_nokw hF]
        simp only [normCmd, hb, Option.getD_some]

/-! ### programs through Blackbird -/

/-- `max(used modes) + 1`: the number of subsystems a reader can infer -/
def usedModes (p : Prog) : Nat := modeCount (p.cmds.map (·.regs))

/-- the (non-TDM) fragment Blackbird expresses -/
def ExprBB (p : Prog) : Prop :=
  p.tdm = none ∧ (p.cmds.map (·.regs)).flatten ≠ [] ∧
  (p.target = none → p.shots = none ∧ p.cutoff = none) ∧
  ∀ c ∈ p.cmds, CmdBB false (usedModes p) 0 c

/-- what comes back: inverted gates in dagger normal form, trailing unused modes dropped -/
def normBB (p : Prog) : Prog := { p with n := usedModes p, cmds := p.cmds.map normCmd }

/-- the operation `to_blackbird` writes for a command (when it does not raise) -/
def bbOpOf (tdm : Bool) (c : Cmd) : BBOp :=
  match toBBOp tdm c with
  | .ok o => o
  | .error _ => default

theorem bb_prog_rt (p : Prog) (h : ExprBB p) :
    ∃ bb, toBB p = .ok bb ∧ toProgramBB (reparseBB bb) = .ok (normBB p) := by
  obtain ⟨name, n, target, shots, cutoff, tdm, cmds⟩ := p
  obtain ⟨htdm, hne, hopt, hc⟩ := h
  simp only at htdm hne hopt hc
  subst htdm
  have hw : ∀ c ∈ cmds, toBBOp false c = .ok (bbOpOf false c) ∧ (bbOpOf false c).modes = c.regs ∧
      fromBBOp (usedModes ⟨name, n, target, shots, cutoff, none, cmds⟩) (bbOpOf false c) = .ok (normCmd c) := by
    intro c hcm
    obtain ⟨o, h1, h2, h3⟩ := bb_cmd_rt (hc c hcm)
    have : bbOpOf false c = o := by simp [bbOpOf, h1]
    rw [this]; exact ⟨h1, h2, h3⟩
  have hmap : cmds.mapM (toBBOp false) = .ok (cmds.map (bbOpOf false)) :=
    mapM_ok _ _ _ (fun c hcm => (hw c hcm).1)
  have hmodes : (cmds.map (bbOpOf false)).map (·.modes) = cmds.map (·.regs) := by
    rw [List.map_map]
    exact List.map_congr_left (fun c hcm => (hw c hcm).2.1)
  refine ⟨_, by simp only [toBB, Option.isSome_none, hmap, bind, Except.bind]; rfl, ?_⟩
  have hn : modeCount [((cmds.map (bbOpOf false)).map (·.modes)).flatten.foldr insertAsc []] =
      usedModes ⟨name, n, target, shots, cutoff, none, cmds⟩ := by
    rw [modeCount_reparse, hmodes]; rfl
  have hne' : ((cmds.map (bbOpOf false)).map (·.modes)).flatten.foldr insertAsc [] ≠ [] := by
    rw [hmodes]; exact sortModes_ne_nil hne
  simp only [toProgramBB, reparseBB, Option.map_none, Option.isSome_none, Bool.false_eq_true, ↓reduceIte,
    if_neg hne', fromBB, hn]
  rw [mapM_map_ok (bbOpOf false) (fromBBOp _) normCmd cmds (fun c hcm => (hw c hcm).2.2)]
  simp only [bind, Except.bind, normBB]
  cases target with
  | none =>
    obtain ⟨h1, h2⟩ := hopt rfl
    subst h1 h2
    rfl
  | some t => rfl

/-! ### `_factor_out_pi` -/

theorem piTerm_aux (m : Int) (g : Nat) (hg : (g : Int) ∣ m) (hg2 : g ∣ 12) (hpos : 0 < g) :
    (m / (g : Int)) * 12 = m * ((12 / g : Nat) : Int) := by
  obtain ⟨q, rfl⟩ := hg
  obtain ⟨r, hr⟩ := hg2
  have hgz : (g : Int) ≠ 0 := by omega
  rw [Int.mul_ediv_cancel_left _ hgz]
  have : 12 / g = r := by rw [hr]; exact Nat.mul_div_cancel_left r hpos
  rw [this]
  have h12 : (12 : Int) = (g : Int) * (r : Int) := by exact_mod_cast hr
  rw [h12, Int.mul_comm (g : Int) q, Int.mul_assoc]

/-- the printed term `c*np.pi/d` denotes `m·π/12`: `c/d = m/12` -/
theorem piTerm_denotes (m : Int) : (piTerm m).1 * 12 = m * ((piTerm m).2 : Int) ∧ 0 < (piTerm m).2 := by
  have hg : ((Int.gcd m 12 : Nat) : Int) ∣ m := Int.gcd_dvd_left m 12
  have hg2 : (Int.gcd m 12) ∣ 12 := by
    have := Int.gcd_dvd_right m 12
    exact Int.natCast_dvd_natCast.mp (by simpa using this)
  have hpos : 0 < Int.gcd m 12 := Int.gcd_pos_of_ne_zero_right m (by decide)
  have haux := piTerm_aux m _ hg hg2 hpos
  unfold piTerm
  simp only
  split
  · rename_i h12
    rw [h12] at haux
    simp only [Nat.div_self (by decide : 0 < 12)] at haux
    exact ⟨haux, Nat.one_pos⟩
  · exact ⟨haux, Nat.div_pos (Nat.le_of_dvd (by decide) hg2) hpos⟩

/-! ### XIR, gate / preparation / channel statements -/

theorem xir_val_rt {n : Nat} {v : Val} (h : ValX false 0 v) :
    (xirReadArg (xirArg false v) >>= convert n) = .ok v := by
  cases v with
  | sc s => rfl
  | arr sh d =>
    match sh, h with
    | [], _ => rfl
    | [m], h =>
      have : m = d.length := h m rfl
      subst this
      rfl
    | _ :: _ :: _, _ => rfl
  | sym e => exact absurd h.1 (by decide)
  | str s => cases h
  | lst l => cases h
  | rrt e => cases h
  | pname i => cases h

theorem xir_vals_rt {n : Nat} : ∀ {l : List Val}, (∀ v ∈ l, ValX false 0 v) →
    ((l.map (xirArg false)).mapM xirReadArg >>= fun a => a.mapM (convert n)) = .ok l := by
  intro l
  induction l with
  | nil => intro _; rfl
  | cons a l ih =>
    intro h
    have ha := xir_val_rt (n := n) (h a (List.mem_cons_self))
    have hl := ih (fun x hx => h x (List.mem_cons_of_mem _ hx))
    simp only [List.map_cons, List.mapM_cons, bind, Except.bind] at ha hl ⊢
    cases h1 : xirReadArg (xirArg false a) with
    | error e => rw [h1] at ha; cases ha
    | ok a' =>
      rw [h1] at ha
      simp only at ha
      cases h2 : (l.map (xirArg false)).mapM xirReadArg with
      | error e => rw [h2] at hl; cases hl
      | ok l' =>
        rw [h2] at hl
        simp only at hl
        show List.mapM (convert n) (a' :: l') = Except.ok (a :: l)
        rw [List.mapM_cons, ha, hl]
        rfl

/-- a gate / preparation / channel command through `to_xir` and `from_xir`: returned unchanged,
including its inverse flag -/
theorem xir_gate_rt {n : Nat} {c : Cmd} (hF : c.cls ≠ "Fouriergate") (hkw : c.kw = [])
    (hm : isMeasure c.cls = false) (hs : c.select = none) (hd : c.dark = none)
    (hv : ∀ v ∈ c.pars, ValX false 0 v) : fromXStmt n (toXStmt false c) = .ok c := by
  obtain ⟨cls, regs, pars, dagger, select, dark, kw⟩ := c
  simp only at hF hkw hm hs hd hv
  subst hkw hs hd
  simp only [toXStmt, hm, Bool.false_eq_true, ↓reduceIte]
  cases pars with
  | nil => simp only [List.map_nil, fromXStmt]; exact build_ok_nokw hF
  | cons a as =>
    have := xir_vals_rt (n := n) hv
    simp only [List.map_cons, fromXStmt]
    simp only [List.map_cons, bind, Except.bind] at this ⊢
    cases h1 : (xirArg false a :: as.map (xirArg false)).mapM xirReadArg with
    | error e => rw [h1] at this; cases this
    | ok l' =>
      rw [h1] at this
      simp only at this ⊢
      rw [this]
      exact build_ok_nokw hF

end SFV.Io
