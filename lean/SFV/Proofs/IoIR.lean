import SFV.Model.IoIR
/-! Lemmas for K8: round trips of values, commands and programs through the two IR models. -/
namespace SFV.Io

/-! ### generic -/

theorem mapM_ok {α β ε : Type} (f : α → Except ε β) (g : α → β) :
    ∀ l : List α, (∀ x ∈ l, f x = .ok (g x)) → l.mapM f = .ok (l.map g) := by
  intro l
  induction l with
  | nil => intro _; rfl
  | cons a l ih =>
    intro h
    rw [List.mapM_cons, h a (List.mem_cons_self), ih (fun x hx => h x (List.mem_cons_of_mem _ hx))]
    rfl

/-- writer `w` then reader `r` element-wise -/
theorem mapM_rt {α β ε : Type} (w : α → β) (r : β → Except ε α) :
    ∀ l : List α, (∀ v ∈ l, r (w v) = .ok v) → (l.map w).mapM r = .ok l := by
  intro l
  induction l with
  | nil => intro _; rfl
  | cons a l ih =>
    intro h
    rw [List.map_cons, List.mapM_cons, h a (List.mem_cons_self),
      ih (fun x hx => h x (List.mem_cons_of_mem _ hx))]
    rfl

theorem mapM_map_ok {α β γ ε : Type} (w : α → β) (r : β → Except ε γ) (g : α → γ) :
    ∀ l : List α, (∀ v ∈ l, r (w v) = .ok (g v)) → (l.map w).mapM r = .ok (l.map g) := by
  intro l
  induction l with
  | nil => intro _; rfl
  | cons a l ih =>
    intro h
    rw [List.map_cons, List.mapM_cons, h a (List.mem_cons_self),
      ih (fun x hx => h x (List.mem_cons_of_mem _ hx))]
    rfl

theorem map_id' {α : Type} (f : α → α) (l : List α) (h : ∀ x ∈ l, f x = x) : l.map f = l := by
  induction l with
  | nil => rfl
  | cons a l ih =>
    rw [List.map_cons, h a (List.mem_cons_self), ih (fun x hx => h x (List.mem_cons_of_mem _ hx))]

/-! ### mode counting -/

theorem le_maxSucc {x : Nat} : ∀ {l : List Nat}, x ∈ l → x + 1 ≤ maxSucc l := by
  intro l
  induction l with
  | nil => intro h; cases h
  | cons y ys ih =>
    intro h
    simp only [maxSucc]
    rcases List.mem_cons.mp h with rfl | h
    · omega
    · have := ih h; omega

theorem maxSucc_le {b : Nat} : ∀ {l : List Nat}, (∀ x ∈ l, x + 1 ≤ b) → maxSucc l ≤ b := by
  intro l
  induction l with
  | nil => intro _; simp [maxSucc]
  | cons y ys ih =>
    intro h
    simp only [maxSucc]
    have h1 := h y (List.mem_cons_self)
    have h2 := ih (fun x hx => h x (List.mem_cons_of_mem _ hx))
    omega

theorem maxSucc_congr {l m : List Nat} (h : ∀ x, x ∈ l ↔ x ∈ m) : maxSucc l = maxSucc m :=
  Nat.le_antisymm (maxSucc_le fun x hx => le_maxSucc ((h x).mp hx))
    (maxSucc_le fun x hx => le_maxSucc ((h x).mpr hx))

theorem mem_insertAsc {x y : Nat} : ∀ {l : List Nat}, y ∈ insertAsc x l ↔ y = x ∨ y ∈ l := by
  intro l
  induction l with
  | nil => simp [insertAsc]
  | cons z zs ih =>
    simp only [insertAsc]
    split
    · simp
    · split
      · subst_vars; simp
      · simp only [List.mem_cons, ih]
        constructor
        · rintro (h | h | h) <;> simp [h]
        · rintro (h | h | h) <;> simp [h]

theorem mem_sortModes {y : Nat} : ∀ {l : List Nat}, y ∈ l.foldr insertAsc [] ↔ y ∈ l := by
  intro l
  induction l with
  | nil => simp
  | cons z zs ih => simp only [List.foldr_cons, mem_insertAsc, ih, List.mem_cons]

/-- the text layer's recomputation of the mode set does not change `max(modes) + 1` -/
theorem modeCount_reparse (l : List (List Nat)) :
    modeCount [l.flatten.foldr insertAsc []] = modeCount l := by
  unfold modeCount
  apply maxSucc_congr
  intro x
  simp only [List.flatten_cons, List.flatten_nil, List.append_nil]
  exact mem_sortModes

theorem sortModes_ne_nil {l : List Nat} (h : l ≠ []) : l.foldr insertAsc [] ≠ [] := by
  cases l with
  | nil => exact absurd rfl h
  | cons a as =>
    intro hc
    have : a ∈ (a :: as).foldr insertAsc [] := mem_sortModes.mpr (List.mem_cons_self)
    rw [hc] at this
    cases this

/-! ### symbolic values -/

theorem Sc.neg_neg (s : Sc) : s.neg.neg = s := by
  cases s <;> simp [Sc.neg, Rat.neg_neg]

@[simp] theorem negate_negate (e : Sym) : e.negate.negate = e := by
  obtain ⟨pos, neg, meas, frees, val⟩ := e
  cases val <;> simp [Sym.negate, Sc.neg_neg]

@[simp] theorem negate_meas (e : Sym) : e.negate.meas = e.meas := rfl
@[simp] theorem noVal_meas (e : Sym) : e.noVal.meas = e.meas := rfl
@[simp] theorem noVal_noVal (e : Sym) : e.noVal.noVal = e.noVal := rfl
@[simp] theorem noVal_pos (e : Sym) : e.noVal.pos = e.pos := rfl

theorem loopSym_meas (i : Nat) : (loopSym i).meas = [] := rfl
theorem loopSym_loop (i : Nat) : (loopSym i).pos.loop = some i := rfl
theorem loopSym_noVal (i : Nat) : (loopSym i).noVal = loopSym i := rfl

/-! ### subsystem indices in symbol names -/

theorem digitVal_digitChar {d : Nat} (h : d < 10) : digitVal (digitChar d) = some d := by
  have : ∀ d, d < 10 → digitVal (digitChar d) = some d := by decide
  exact this d h

theorem parseFrom_append (acc : Nat) (l : List Char) (c : Char) :
    parseFrom acc (l ++ [c]) = (parseFrom acc l).bind fun a => (digitVal c).map fun d => a * 10 + d := by
  induction l generalizing acc with
  | nil =>
    simp only [List.nil_append, parseFrom, Option.bind]
    cases digitVal c <;> rfl
  | cons x xs ih =>
    simp only [List.cons_append, parseFrom]
    cases digitVal x with
    | none => rfl
    | some d => exact ih _

theorem printIndex_ne_nil (n : Nat) : printIndex n ≠ [] := by
  rw [printIndex]
  split
  · simp
  · simp

/-- **decimal printing and parsing of an index round-trip**, for every `n` -/
theorem parseFrom_printIndex (n : Nat) : parseFrom 0 (printIndex n) = some n := by
  induction n using Nat.strongRecOn with
  | _ n ih =>
    rw [printIndex]
    split
    · rename_i h
      simp only [parseFrom, digitVal_digitChar h]
      simp
    · rename_i h
      rw [parseFrom_append, ih (n / 10) (by omega), digitVal_digitChar (Nat.mod_lt n (by decide))]
      simp only [Option.bind, Option.map]
      congr 1
      omega

theorem parseIndex_printIndex (n : Nat) : parseIndex (printIndex n) = some n := by
  have h := printIndex_ne_nil n
  have hp := parseFrom_printIndex n
  cases hl : printIndex n with
  | nil => exact absurd hl h
  | cons c cs => rw [hl] at hp; exact hp

theorem measuredIndex_qName (i : Nat) : measuredIndex (qName i) = some i := by
  simp only [measuredIndex, qName, String.toList_ofList]
  exact parseIndex_printIndex i

theorem ptypeIndex_pName (i : Nat) : ptypeIndex (pName i) = some i := by
  simp only [ptypeIndex, pName, String.toList_ofList]
  exact parseIndex_printIndex i

/-- free-parameter names that are not of the form `q<index>` (otherwise the IRs cannot tell them from
measured parameters) -/
def WellNamed (e : Sym) : Prop := ∀ f ∈ e.frees, measuredIndex f = none

instance (e : Sym) : Decidable (WellNamed e) := by unfold WellNamed; infer_instance

theorem filterMap_qName (l : List Nat) : (l.map qName).filterMap measuredIndex = l := by
  induction l with
  | nil => rfl
  | cons a l ih => simp only [List.map_cons, List.filterMap_cons, measuredIndex_qName, ih]

theorem filter_qName (l : List Nat) : (l.map qName).filter (fun s => (measuredIndex s).isNone) = [] := by
  induction l with
  | nil => rfl
  | cons a l ih => simp [measuredIndex_qName, ih]

theorem filterMap_free {l : List String} (h : ∀ f ∈ l, measuredIndex f = none) : l.filterMap measuredIndex = [] := by
  induction l with
  | nil => rfl
  | cons a l ih =>
    simp only [List.filterMap_cons, h a (List.mem_cons_self)]
    exact ih (fun f hf => h f (List.mem_cons_of_mem _ hf))

theorem filter_free {l : List String} (h : ∀ f ∈ l, measuredIndex f = none) :
    l.filter (fun s => (measuredIndex s).isNone) = l := by
  induction l with
  | nil => rfl
  | cons a l ih =>
    simp only [List.filter_cons, h a (List.mem_cons_self), Option.isNone_none, ↓reduceIte]
    rw [ih (fun f hf => h f (List.mem_cons_of_mem _ hf))]

/-- **`par_convert` inverts the writers' naming**: writing an expression under the names of its atoms and
mapping the names back (`q<i>` ↦ subsystem `i`, for every `i`, any number of digits) returns the expression -/
theorem fromI_toI (e : Sym) (hw : WellNamed e) : fromI (toI e) = e.noVal := by
  obtain ⟨pos, neg, meas, frees, val⟩ := e
  simp only [fromI, toI, Sym.noVal, List.filterMap_append, List.filter_append, filterMap_qName, filter_qName,
    filterMap_free hw, filter_free hw, List.append_nil, List.nil_append]

theorem fromI_toI_val (e : Sym) (hw : WellNamed e) : fromI { toI e with val := none } = e.noVal :=
  fromI_toI e hw

/-- a value as it is in a freshly loaded program: symbolic parameters hold no value -/
def Val.noVal : Val → Val
  | .sym e => match constVal e with
    | some v => .sc v           -- a constant expression is written (and comes back) as its value
    | none => .sym e.noVal
  | v => v

theorem all_lt_of {n : Nat} {l : List Nat} (h : ∀ i ∈ l, i < n) : l.all (· < n) = true := by
  simp only [List.all_eq_true, decide_eq_true_eq]; exact h

/-! ### expressible values -/

/-- `select` / `dark_counts` values -/
def SelOK : Val → Prop
  | .sc _ => True
  | .lst _ => True
  | _ => False

def OptSel (o : Option Val) : Prop := ∀ v, o = some v → SelOK v

/-- the reader's first step on a Blackbird argument: `p<i>` names (TDM) resp. nothing -/
def rdArg (tdm : Bool) : Val → Val := if tdm then tdmArg else unPname

/-- a parameter Blackbird carries (`P`: what SymPy parses, `n` modes): numbers, arrays, genuine
strings, expressions of measured parameters of existing modes (`RegRefTransform`), the TDM loop
variables, and expressions without measured parameters that are written as strings SymPy parses back -/
def ValBB (P : String → Option ISym) (tdm : Bool) (n : Nat) : Val → Prop
  | .sc _ => True
  | .arr _ _ => True
  | .str s => P s = none
  | .sym e => (∃ v, constVal e = some v)
      ∨ (constVal e = none ∧ e.meas ≠ [] ∧ (∀ i ∈ e.meas, i < n) ∧ WellNamed e)
      ∨ (tdm = true ∧ ∃ i, e = loopSym i)
      ∨ (constVal e = none ∧ e.meas = [] ∧ (tdm = false ∨ e.pos.loop = none) ∧ WellNamed e ∧
          P e.pos.text = some { toI e with val := none })
  | _ => False

theorem convert_rrt {n : Nat} {e : Sym} (hw : WellNamed e) (hm : ∀ i ∈ e.meas, i < n) :
    convert n (.rrt { toI e with val := none }) = .ok (.sym e.noVal) := by
  simp only [convert, fromI_toI_val e hw, noVal_meas, all_lt_of hm, ↓reduceIte]

theorem loopSym_const (i : Nat) : constVal (loopSym i) = none := by
  simp [constVal, loopSym]

/-- Blackbird: writer, text layer, reader on one argument -/
theorem bb_val_rt {P : String → Option ISym} {tdm : Bool} {n : Nat} {v : Val} (h : ValBB P tdm n v) :
    convert n (bbExpr P (rdArg tdm (textVal (bbArg tdm v)))) = .ok v.noVal := by
  cases v with
  | sc s => cases tdm <;> rfl
  | arr sh d => cases tdm <;> rfl
  | str s =>
    have h' : P s = none := h
    cases tdm <;> simp [bbArg, textVal, rdArg, tdmArg, unPname, bbExpr, h', convert, Val.noVal]
  | sym e =>
    rcases h with ⟨v, hc⟩ | ⟨hc, h1, h2, hw⟩ | ⟨h1, i, rfl⟩ | ⟨hc, h1, h2, hw, h3⟩
    · cases tdm <;> simp [bbArg, hc, textVal, rdArg, tdmArg, unPname, bbExpr, convert, Val.noVal]
    · have hcv := convert_rrt hw h2
      cases tdm <;>
        simp only [bbArg, hc, h1, ne_eq, not_false_eq_true, ↓reduceIte, textVal, rdArg, Bool.false_eq_true,
          tdmArg, unPname, bbExpr, hcv, Val.noVal]
    · subst h1
      simp [bbArg, loopSym_const, loopSym_meas, loopSym_loop, textVal, rdArg, tdmArg, bbExpr, convert, Val.noVal,
        loopSym_noVal]
    · have hcv := convert_rrt (n := n) hw (by rw [h1]; intro i hi; cases hi)
      rcases h2 with rfl | h2
      · simp only [bbArg, hc, h1, ne_eq, not_true_eq_false, ↓reduceIte, textVal, rdArg, Bool.false_eq_true,
          unPname, bbExpr, h3, hcv, Val.noVal]
      · cases tdm
        · simp only [bbArg, hc, h1, ne_eq, not_true_eq_false, ↓reduceIte, textVal, rdArg, Bool.false_eq_true,
            unPname, bbExpr, h3, hcv, Val.noVal]
        · simp only [bbArg, hc, h1, h2, ne_eq, not_true_eq_false, ↓reduceIte, textVal, rdArg, tdmArg, bbExpr,
            h3, hcv, Val.noVal]
  | lst l => cases h
  | rrt e => cases h
  | pname i => cases h

theorem selOK_facts {P : String → Option ISym} {tdm : Bool} {n : Nat} {v : Val} (h : SelOK v) :
    convert n (bbExpr P (rdArg tdm v)) = .ok v ∧ convert n v = .ok v ∧ xirExpr P (unPname v) = .ok v ∧
    (∀ k, xirReadKwTdm P k v = .ok v) ∧ xirArg tdm v = v := by
  cases v with
  | sc s => cases tdm <;> exact ⟨rfl, rfl, rfl, fun _ => rfl, rfl⟩
  | lst l => cases tdm <;> exact ⟨rfl, rfl, rfl, fun _ => rfl, rfl⟩
  | str s => cases h
  | arr sh d => cases h
  | sym e => cases h
  | rrt e => cases h
  | pname i => cases h

/-! ### measurement keyword arguments -/

/-- the keyword arguments both writers give a measurement (besides `phi` in XIR) -/
def measKw (c : Cmd) : List (String × Val) :=
  optKw "select" c.select ++ (if c.cls = "MeasureFock" then optKw "dark_counts" c.dark else [])

theorem measKw_eq {c : Cmd} (h : c.dark = none ∨ c.cls = "MeasureFock") :
    measKw c = optKw "select" c.select ++ optKw "dark_counts" c.dark := by
  unfold measKw
  rcases h with h | h
  · rw [h]; simp [optKw]
  · rw [if_pos h]

theorem kw_facts (P : String → Option ISym) (tdm : Bool) (n : Nat) (sel dark : Option Val)
    (hs : OptSel sel) (hd : OptSel dark) :
    let kws := optKw "select" sel ++ optKw "dark_counts" dark
    convertKw n (kws.map fun kv => (kv.1, bbExpr P (rdArg tdm kv.2))) = .ok kws ∧
    convertKw n kws = .ok kws ∧
    lookupKw "phi" kws = none ∧ lookupKw "select" kws = sel ∧ lookupKw "dark_counts" kws = dark ∧
    kws.any (fun kv => !(["phi", "select", "dark_counts"].contains kv.1)) = false := by
  cases sel with
  | none =>
    cases dark with
    | none => simp [optKw, convertKw, lookupKw]; rfl
    | some d =>
      obtain ⟨h1, h2, _⟩ := selOK_facts (P := P) (tdm := tdm) (n := n) (hd d rfl)
      simp [optKw, convertKw, lookupKw, h1, h2, List.mapM_cons]
      rfl
  | some s =>
    obtain ⟨s1, s2, _⟩ := selOK_facts (P := P) (tdm := tdm) (n := n) (hs s rfl)
    cases dark with
    | none =>
      simp [optKw, convertKw, lookupKw, s1, s2, List.mapM_cons]
      rfl
    | some d =>
      obtain ⟨h1, h2, _⟩ := selOK_facts (P := P) (tdm := tdm) (n := n) (hd d rfl)
      simp [optKw, convertKw, lookupKw, s1, s2, h1, h2, List.mapM_cons]
      rfl

theorem build_ok {cls : String} {regs : List Nat} {args : List Val} {sel dark : Option Val} {inv : Bool}
    (hF : cls ≠ "Fouriergate") (hs : OptSel sel) (hd : OptSel dark) :
    build cls regs args (optKw "select" sel ++ optKw "dark_counts" dark) inv =
      .ok { cls := cls, regs := regs, pars := args, dagger := inv, select := sel, dark := dark, kw := [] } := by
  obtain ⟨_, _, h4, h5, h6, h7⟩ := kw_facts (fun _ => none) false 0 sel dark hs hd
  unfold build
  rw [if_neg (fun h => hF h.1), h7]
  simp only [Bool.false_eq_true, ↓reduceIte, h4, h5, h6, Option.toList_none, List.append_nil, if_neg hF]

theorem build_ok_nokw {cls : String} {regs : List Nat} {args : List Val} {inv : Bool}
    (hF : cls ≠ "Fouriergate") :
    build cls regs args [] inv =
      .ok { cls := cls, regs := regs, pars := args, dagger := inv, select := none, dark := none, kw := [] } := by
  have := build_ok (cls := cls) (regs := regs) (args := args) (sel := none) (dark := none) (inv := inv) hF
    (fun _ h => by cases h) (fun _ h => by cases h)
  simpa [optKw] using this

theorem build_fourier {regs : List Nat} {inv : Bool} :
    build "Fouriergate" regs [] [] inv =
      .ok { cls := "Fouriergate", regs := regs, pars := [halfPi], dagger := inv, kw := [] } := by
  simp [build, lookupKw]

/-! ### commands through Blackbird -/

/-- dagger normal form: Blackbird has no inverse flag, an inverted gate is written (and comes back)
as the same gate with its first parameter negated -/
def normCmd (c : Cmd) : Cmd :=
  match c.dagger, c.pars with
  | true, a :: as => { c with dagger := false, pars := (a.neg.getD a) :: as }
  | _, _ => c

/-- a command as it is in a freshly loaded program: no parameter holds a value -/
def clearCmd (c : Cmd) : Cmd := { c with pars := c.pars.map Val.noVal }

/-- what the text layer does to an operation -/
def textOp (o : BBOp) : BBOp := { o with args := o.args.map textVal }

/-- the Blackbird reader of one operation, by program type -/
def rdBBOp (P : String → Option ISym) (tdm : Bool) (n : Nat) (o : BBOp) : Except Err Cmd :=
  if tdm then fromBBOpTdm P n o else fromBBOp P n o

theorem rdBBOp_eq (P : String → Option ISym) (tdm : Bool) (n : Nat) (o : BBOp) :
    rdBBOp P tdm n o = (do
      checkName o.op
      let args ← (o.args.map (bbExpr P ∘ rdArg tdm)).mapM (convert n)
      let kws ← convertKw n (o.kwargs.map fun kv => (kv.1, bbExpr P (rdArg tdm kv.2)))
      build o.op o.modes args kws false) := by
  cases tdm <;> rfl

/-- commands in the fragment Blackbird expresses -/
def CmdBB (P : String → Option ISym) (tdm : Bool) (n : Nat) (c : Cmd) : Prop :=
  SFV.Gen.ioClassNames.contains c.cls = true ∧ c.kw = [] ∧ (∀ v ∈ c.pars, ValBB P tdm n v) ∧
  ((isMeasure c.cls = true ∧ c.cls ≠ "Fouriergate" ∧ c.dagger = false ∧ OptSel c.select ∧ OptSel c.dark ∧
      (c.dark = none ∨ c.cls = "MeasureFock")) ∨
   (isMeasure c.cls = false ∧ c.select = none ∧ c.dark = none ∧
      ((c.cls = "Fouriergate" ∧ c.pars = [halfPi] ∧ c.dagger = false) ∨
       (c.cls ≠ "Fouriergate" ∧ (c.dagger = true → negInverts c.cls = true ∧
          ∃ a as b, c.pars = a :: as ∧ a.neg = some b ∧ ValBB P tdm n b)))))

theorem bb_vals_rt {P : String → Option ISym} {tdm : Bool} {n : Nat} {l : List Val}
    (h : ∀ v ∈ l, ValBB P tdm n v) :
    ((((l.map (bbArg tdm)).map textVal).map (bbExpr P ∘ rdArg tdm))).mapM (convert n) = .ok (l.map Val.noVal) := by
  rw [List.map_map, List.map_map]
  exact mapM_map_ok _ (convert n) Val.noVal l (fun v hv => bb_val_rt (h v hv))

/-- one command through `to_blackbird`, the text layer and the Blackbird reader -/
theorem bb_cmd_rt {P : String → Option ISym} {tdm : Bool} {n : Nat} {c : Cmd} (h : CmdBB P tdm n c) :
    ∃ o, toBBOp tdm c = .ok o ∧ o.modes = c.regs ∧
      rdBBOp P tdm n (textOp o) = .ok (clearCmd (normCmd c)) := by
  obtain ⟨cls, regs, pars, dagger, select, dark, kw⟩ := c
  obtain ⟨hnm, hkw, hv, h⟩ := h
  simp only at hnm hkw hv
  subst hkw
  have hck : checkName cls = .ok () := by unfold checkName; rw [if_pos hnm]
  rcases h with ⟨hm, hF, hd, hs, hdk, hmf⟩ | ⟨hm, hsel, hdark, h⟩
  · simp only at hm hF hd hs hdk hmf
    subst hd
    refine ⟨_, by simp only [toBBOp, hm, ↓reduceIte]; rfl, rfl, ?_⟩
    have hk := measKw_eq (c := ⟨cls, regs, pars, false, select, dark, []⟩) hmf
    unfold measKw at hk
    simp only at hk
    obtain ⟨k1, _⟩ := kw_facts P tdm n select dark hs hdk
    simp only [rdBBOp_eq, textOp, hck, hk, k1, bb_vals_rt hv, bind, Except.bind]
    rw [build_ok hF hs hdk]
    rfl
  · simp only at hm hsel hdark h
    subst hsel hdark
    rcases h with ⟨hF, hp, hd⟩ | ⟨hF, hdag⟩
    · subst hF hp hd
      refine ⟨_, by simp only [toBBOp, hm, Bool.false_eq_true, ↓reduceIte]; rfl, rfl, ?_⟩
      have hck' : checkName "Fouriergate" = .ok () := hck
      simp only [rdBBOp_eq, textOp, hck', ctorParams, ↓reduceIte, List.map_nil, List.mapM_nil, convertKw, bind,
        Except.bind, pure, Except.pure]
      rw [build_fourier]
      rfl
    · cases dagger with
      | false =>
        refine ⟨_, by simp only [toBBOp, hm, Bool.false_eq_true, ↓reduceIte]; rfl, rfl, ?_⟩
        simp only [rdBBOp_eq, textOp, hck, ctorParams, if_neg hF, bb_vals_rt hv, List.map_nil, convertKw,
          List.mapM_nil, bind, Except.bind, pure, Except.pure]
        rw [build_ok_nokw hF]
        rfl
      | true =>
        obtain ⟨hneg, a, as, b, rfl, hb, hbv⟩ := hdag rfl
        have hall : ∀ v ∈ b :: as, ValBB P tdm n v := by
          intro v hv'
          rcases List.mem_cons.mp hv' with rfl | hv'
          · exact hbv
          · exact hv v (List.mem_cons_of_mem _ hv')
        refine ⟨{ op := cls, modes := regs, args := (b :: as).map (bbArg tdm), kwargs := [] }, ?_, rfl, ?_⟩
        · simp only [toBBOp, hm, Bool.false_eq_true, ↓reduceIte, hneg, ctorParams, if_neg hF, negFirst, hb]
          rfl
        · simp only [rdBBOp_eq, textOp, hck, bb_vals_rt hall, List.map_nil, convertKw, List.mapM_nil, bind,
            Except.bind, pure, Except.pure]
          rw [build_ok_nokw hF]
          simp only [normCmd, hb, Option.getD_some, clearCmd]

/-! ### programs through Blackbird -/

/-- `max(used modes) + 1`: the number of subsystems a reader can infer -/
def usedModes (p : Prog) : Nat := modeCount (p.cmds.map (·.regs))

/-- the fragment Blackbird expresses (ordinary and TDM programs) -/
def ExprBB (P : String → Option ISym) (p : Prog) : Prop :=
  (p.cmds.map (·.regs)).flatten ≠ [] ∧
  (p.target = none → p.shots = none ∧ p.cutoff = none) ∧ p.extra = [] ∧
  (∀ t, p.tdm = some t → t.N = [usedModes p]) ∧
  ∀ c ∈ p.cmds, CmdBB P p.tdm.isSome (usedModes p) c

/-- what comes back from Blackbird: inverted gates in dagger normal form, no values held, trailing
unused modes dropped -/
def normBB (p : Prog) : Prog := { p with n := usedModes p, cmds := p.cmds.map (clearCmd ∘ normCmd) }

/-- the operation `to_blackbird` writes for a command (when it does not raise) -/
def bbOpOf (tdm : Bool) (c : Cmd) : BBOp :=
  match toBBOp tdm c with
  | .ok o => o
  | .error _ => default

theorem bb_prog_rt (P : String → Option ISym) (p : Prog) (h : ExprBB P p) :
    ∃ bb, toBB p = .ok bb ∧ toProgramBB P (reparseBB bb) = .ok (normBB p) := by
  obtain ⟨name, n, target, shots, cutoff, tdm, extra, cmds⟩ := p
  obtain ⟨hne, hopt, hex, hN, hc⟩ := h
  simp only at hne hopt hex hN hc
  subst hex
  have hw : ∀ c ∈ cmds, toBBOp tdm.isSome c = .ok (bbOpOf tdm.isSome c) ∧ (bbOpOf tdm.isSome c).modes = c.regs ∧
      rdBBOp P tdm.isSome (usedModes ⟨name, n, target, shots, cutoff, tdm, [], cmds⟩)
        (textOp (bbOpOf tdm.isSome c)) = .ok (clearCmd (normCmd c)) := by
    intro c hcm
    obtain ⟨o, h1, h2, h3⟩ := bb_cmd_rt (hc c hcm)
    have : bbOpOf tdm.isSome c = o := by simp [bbOpOf, h1]
    rw [this]; exact ⟨h1, h2, h3⟩
  have hmap : cmds.mapM (toBBOp tdm.isSome) = .ok (cmds.map (bbOpOf tdm.isSome)) :=
    mapM_ok _ _ _ (fun c hcm => (hw c hcm).1)
  refine ⟨_, by simp only [toBB, hmap, bind, Except.bind]; rfl, ?_⟩
  have hmodes0 : List.map ((fun x : BBOp => x.modes) ∘ bbOpOf tdm.isSome) cmds = cmds.map (·.regs) :=
    List.map_congr_left (fun c hcm => (hw c hcm).2.1)
  have hne0 : (List.map ((fun x : BBOp => x.modes) ∘ bbOpOf tdm.isSome) cmds).flatten.foldr insertAsc [] ≠ [] := by
    rw [hmodes0]; exact sortModes_ne_nil hne
  have hn0 : modeCount [(List.map ((fun x : BBOp => x.modes) ∘ bbOpOf tdm.isSome) cmds).flatten.foldr insertAsc []] =
      usedModes ⟨name, n, target, shots, cutoff, tdm, [], cmds⟩ := by
    rw [modeCount_reparse, hmodes0]; rfl
  have hrd := mapM_map_ok (fun c => textOp (bbOpOf tdm.isSome c))
    (rdBBOp P tdm.isSome (usedModes ⟨name, n, target, shots, cutoff, tdm, [], cmds⟩)) (clearCmd ∘ normCmd) cmds
    (fun c hcm => (hw c hcm).2.2)
  have hopts : (if target.isSome = true then (shots, cutoff) else (none, none)) = (shots, cutoff) := by
    cases target with
    | none => obtain ⟨h1, h2⟩ := hopt rfl; subst h1 h2; rfl
    | some t => rfl
  cases tdm with
  | none =>
    have hfun : ∀ m, rdBBOp P false m = fromBBOp P m := fun m => by funext o; rfl
    simp only [Option.isSome_none, hfun] at hrd hne0 hn0
    simp only [toProgramBB, reparseBB, Option.map_none, Option.isSome_none, Bool.false_eq_true, ↓reduceIte,
      if_neg hne0, fromBB, hn0, List.map_map]
    rw [show (fun o : BBOp => ({ o with args := o.args.map textVal } : BBOp)) ∘ bbOpOf false =
      fun c => textOp (bbOpOf false c) from rfl, hrd]
    simp only [bind, Except.bind, normBB, hopts]
  | some t =>
    have hfun : ∀ m, rdBBOp P true m = fromBBOpTdm P m := fun m => by funext o; rfl
    simp only [Option.isSome_some, hfun] at hrd hne0 hn0
    have hN' := hN t rfl
    simp only [toProgramBB, reparseBB, Option.map_some, Option.isSome_some, ↓reduceIte,
      if_neg hne0, fromBBTdm, hn0, List.map_map]
    rw [show (fun o : BBOp => ({ o with args := o.args.map textVal } : BBOp)) ∘ bbOpOf true =
      fun c => textOp (bbOpOf true c) from rfl, hrd]
    obtain ⟨N, params⟩ := t
    simp only [usedModes] at hN'
    subst hN'
    simp only [bind, Except.bind, normBB, hopts, usedModes]

/-! ### XIR: values -/

/-- the XIR reader of one positional argument, by program type (`k` loop variables) -/
def rdX (P : String → Option ISym) (tdm : Bool) (k : Nat) : Val → Except Err Val :=
  if tdm then xirReadArgTdm P k else xirReadArg P

/-- the XIR reader of one keyword argument, by program type -/
def rdKw (P : String → Option ISym) (tdm : Bool) (k : Nat) (v : Val) : Except Err Val :=
  if tdm then xirReadKwTdm P k v else xirExpr P (unPname v)

/-- a symbolic parameter XIR carries: a TDM loop variable, or an expression (free and measured
parameters of existing modes) whose printed form SymPy parses back -/
def SymX (P : String → Option ISym) (tdm : Bool) (k n : Nat) (e : Sym) : Prop :=
  (∃ v, constVal e = some v) ∨
  (tdm = true ∧ ∃ i, i < k ∧ e = loopSym i) ∨
  (constVal e = none ∧ (tdm = false ∨ e.pos.loop = none) ∧ WellNamed e ∧
    P e.pos.plain = some { toI e with val := none } ∧ ∀ i ∈ e.meas, i < n)

/-- a parameter XIR carries: numbers, arrays (1-D: shape = length), symbolic parameters -/
def ValX (P : String → Option ISym) (tdm : Bool) (k n : Nat) : Val → Prop
  | .sc _ => True
  | .arr sh d => ∀ m, sh = [m] → m = d.length
  | .sym e => SymX P tdm k n e
  | _ => False

/-- a measurement phase XIR carries (keyword argument): a number or a symbolic parameter -/
def PhiX (P : String → Option ISym) (tdm : Bool) (k n : Nat) : Val → Prop
  | .sc _ => True
  | .sym e => SymX P tdm k n e
  | _ => False

theorem xir_sym_rt {P : String → Option ISym} {tdm : Bool} {k n : Nat} {e : Sym} (h : SymX P tdm k n e) :
    (rdX P tdm k (xirArg tdm (.sym e)) >>= convert n) = .ok (Val.noVal (.sym e)) ∧
    (rdKw P tdm k (xirArg tdm (.sym e)) >>= convert n) = .ok (Val.noVal (.sym e)) := by
  rcases h with ⟨v, hc⟩ | ⟨rfl, i, hi, rfl⟩ | ⟨hc, h1, hw, h2, h3⟩
  · cases tdm <;>
      simp [rdX, rdKw, xirArg, hc, xirReadArg, xirReadArgTdm, xirReadKwTdm, unPname, xirExpr, bind, Except.bind,
        convert, Val.noVal]
  · simp [rdX, rdKw, xirArg, loopSym_const, loopSym_loop, xirReadArgTdm, xirReadKwTdm, hi, bind, Except.bind,
      convert, loopSym_meas, loopSym_noVal, Val.noVal]
  · have hcv := convert_rrt hw h3
    rcases h1 with rfl | h1
    · simp only [rdX, rdKw, Bool.false_eq_true, ↓reduceIte, xirArg, hc, xirReadArg, unPname, xirExpr, h2, bind,
        Except.bind, hcv, Val.noVal, and_self]
    · cases tdm
      · simp only [rdX, rdKw, Bool.false_eq_true, ↓reduceIte, xirArg, hc, xirReadArg, unPname, xirExpr, h2, bind,
          Except.bind, hcv, Val.noVal, and_self]
      · simp only [rdX, rdKw, ↓reduceIte, xirArg, hc, h1, xirReadArgTdm, xirReadKwTdm, xirExpr, h2, bind,
          Except.bind, hcv, Val.noVal, and_self]

theorem xir_val_rt {P : String → Option ISym} {tdm : Bool} {k n : Nat} {v : Val} (h : ValX P tdm k n v) :
    (rdX P tdm k (xirArg tdm v) >>= convert n) = .ok v.noVal := by
  cases v with
  | sc s => cases tdm <;> rfl
  | arr sh d =>
    match sh, h with
    | [], _ => cases tdm <;> rfl
    | [m], h =>
      have : m = d.length := h m rfl
      subst this
      cases tdm <;> rfl
    | _ :: _ :: _, _ => cases tdm <;> rfl
  | sym e => exact (xir_sym_rt h).1
  | str s => cases h
  | lst l => cases h
  | rrt e => cases h
  | pname i => cases h

theorem xir_phi_rt {P : String → Option ISym} {tdm : Bool} {k n : Nat} {v : Val} (h : PhiX P tdm k n v) :
    (rdKw P tdm k (xirArg tdm v) >>= convert n) = .ok v.noVal := by
  cases v with
  | sc s => cases tdm <;> rfl
  | sym e => exact (xir_sym_rt h).2
  | arr sh d => cases h
  | str s => cases h
  | lst l => cases h
  | rrt e => cases h
  | pname i => cases h

theorem xir_vals_rt {P : String → Option ISym} {tdm : Bool} {k n : Nat} : ∀ {l : List Val},
    (∀ v ∈ l, ValX P tdm k n v) →
    ((l.map (xirArg tdm)).mapM (rdX P tdm k) >>= fun a => a.mapM (convert n)) = .ok (l.map Val.noVal) := by
  intro l
  induction l with
  | nil => intro _; rfl
  | cons a l ih =>
    intro h
    have ha := xir_val_rt (h a (List.mem_cons_self))
    have hl := ih (fun x hx => h x (List.mem_cons_of_mem _ hx))
    simp only [List.map_cons, List.mapM_cons, bind, Except.bind] at ha hl ⊢
    cases h1 : rdX P tdm k (xirArg tdm a) with
    | error e => rw [h1] at ha; cases ha
    | ok a' =>
      rw [h1] at ha
      simp only at ha
      cases h2 : (l.map (xirArg tdm)).mapM (rdX P tdm k) with
      | error e => rw [h2] at hl; cases hl
      | ok l' =>
        rw [h2] at hl
        simp only at hl
        show List.mapM (convert n) (a' :: l') = Except.ok (a.noVal :: l.map Val.noVal)
        rw [List.mapM_cons, ha, hl]
        rfl

/-! ### XIR: commands -/

/-- the XIR reader of one statement, by program type -/
def rdXStmt (P : String → Option ISym) (tdm : Bool) (n k : Nat) (s : XStmt) : Except Err Cmd :=
  if tdm then fromXStmtTdm P n k s else fromXStmt P n s

def rdKwEntry (P : String → Option ISym) (tdm : Bool) (k : Nat) (kv : String × Val) : Except Err (String × Val) := do
  let v ← rdKw P tdm k kv.2
  pure (kv.1, v)

theorem rdXStmt_kw (P : String → Option ISym) (tdm : Bool) (n k : Nat) (name : String) (l : List (String × Val))
    (wires : List Nat) (inv : Bool) :
    rdXStmt P tdm n k ⟨name, .kw l, wires, inv⟩ = (do
      checkName name
      let vals ← l.mapM (rdKwEntry P tdm k)
      let kws ← convertKw n vals
      build name wires [] kws inv) := by
  cases tdm <;> cases l <;> rfl

theorem rdXStmt_pos (P : String → Option ISym) (tdm : Bool) (n k : Nat) (name : String) (l : List Val)
    (wires : List Nat) (inv : Bool) :
    rdXStmt P tdm n k ⟨name, .pos l, wires, inv⟩ = (do
      checkName name
      let a ← l.mapM (rdX P tdm k)
      let a ← a.mapM (convert n)
      build name wires a [] inv) := by
  cases tdm <;> cases l <;> rfl

/-- element-wise relation of two lists -/
inductive Rel2 {α β : Type} (R : α → β → Prop) : List α → List β → Prop
  | nil : Rel2 R [] []
  | cons {a b l l'} : R a b → Rel2 R l l' → Rel2 R (a :: l) (b :: l')

/-- reading a keyword list entry by entry -/
theorem kw_rt {P : String → Option ISym} {tdm : Bool} {n k : Nat} : ∀ {l l' : List (String × Val)},
    Rel2 (fun kv kv' => kv.1 = kv'.1 ∧ (rdKw P tdm k kv.2 >>= convert n) = .ok kv'.2) l l' →
    (l.mapM (rdKwEntry P tdm k) >>= convertKw n) = .ok l' := by
  intro l l' h
  induction h with
  | nil => rfl
  | @cons kv kv' l l' hkv _ ih =>
    obtain ⟨hk, hv⟩ := hkv
    simp only [List.mapM_cons, bind, Except.bind, rdKwEntry] at hv ih ⊢
    cases h1 : rdKw P tdm k kv.2 with
    | error e => rw [h1] at hv; cases hv
    | ok v =>
      rw [h1] at hv
      simp only at hv
      cases h2 : l.mapM (rdKwEntry P tdm k) with
      | error e => rw [h2] at ih; cases ih
      | ok vals =>
        rw [h2] at ih
        simp only at ih
        show convertKw n ((kv.1, v) :: vals) = Except.ok (kv' :: l')
        simp only [convertKw, List.mapM_cons, hv, bind, Except.bind] at ih ⊢
        rw [ih, hk]
        rfl

theorem sel_forall {P : String → Option ISym} {tdm : Bool} {n k : Nat} {sel dark : Option Val}
    (hs : OptSel sel) (hd : OptSel dark) :
    Rel2 (fun kv kv' => kv.1 = kv'.1 ∧ (rdKw P tdm k kv.2 >>= convert n) = .ok kv'.2)
      (optKw "select" sel ++ optKw "dark_counts" dark) (optKw "select" sel ++ optKw "dark_counts" dark) := by
  have hone : ∀ v, SelOK v → (rdKw P tdm k v >>= convert n) = .ok v := by
    intro v hv
    obtain ⟨_, _, h3, h4, _⟩ := selOK_facts (P := P) (tdm := tdm) (n := n) hv
    cases tdm
    · simp only [rdKw, Bool.false_eq_true, ↓reduceIte, h3, bind, Except.bind]
      exact (selOK_facts (P := P) (tdm := false) (n := n) hv).2.1
    · simp only [rdKw, ↓reduceIte, h4 k, bind, Except.bind]
      exact (selOK_facts (P := P) (tdm := true) (n := n) hv).2.1
  cases sel with
  | none =>
    cases dark with
    | none => exact Rel2.nil
    | some d => exact Rel2.cons ⟨rfl, hone d (hd d rfl)⟩ Rel2.nil
  | some s =>
    cases dark with
    | none => exact Rel2.cons ⟨rfl, hone s (hs s rfl)⟩ Rel2.nil
    | some d =>
      exact Rel2.cons ⟨rfl, hone s (hs s rfl)⟩ (Rel2.cons ⟨rfl, hone d (hd d rfl)⟩ Rel2.nil)

theorem build_phi {cls : String} {regs : List Nat} {a : Val} {sel dark : Option Val} {inv : Bool}
    (hF : cls ≠ "Fouriergate") (hs : OptSel sel) (hd : OptSel dark) :
    build cls regs [] (("phi", a) :: (optKw "select" sel ++ optKw "dark_counts" dark)) inv =
      .ok { cls := cls, regs := regs, pars := [a], dagger := inv, select := sel, dark := dark, kw := [] } := by
  obtain ⟨_, _, _, h5, h6, h7⟩ := kw_facts (fun _ => none) false 0 sel dark hs hd
  unfold build
  rw [if_neg (fun h => hF h.1)]
  have hany : (("phi", a) :: (optKw "select" sel ++ optKw "dark_counts" dark)).any
      (fun kv => !(["phi", "select", "dark_counts"].contains kv.1)) = false := by
    rw [List.any_cons, h7]; simp
  have hphi : lookupKw "phi" (("phi", a) :: (optKw "select" sel ++ optKw "dark_counts" dark)) = some a := by
    simp [lookupKw]
  have hsel : lookupKw "select" (("phi", a) :: (optKw "select" sel ++ optKw "dark_counts" dark)) = sel := by
    have : ∀ rest, lookupKw "select" (("phi", a) :: rest) = lookupKw "select" rest := by
      intro rest; simp [lookupKw]
    rw [this, h5]
  have hdk : lookupKw "dark_counts" (("phi", a) :: (optKw "select" sel ++ optKw "dark_counts" dark)) = dark := by
    have : ∀ rest, lookupKw "dark_counts" (("phi", a) :: rest) = lookupKw "dark_counts" rest := by
      intro rest; simp [lookupKw]
    rw [this, h6]
  rw [hany]
  simp only [Bool.false_eq_true, ↓reduceIte, if_neg hF, hphi, hsel, hdk, Option.toList_some, List.nil_append]

/-- commands in the fragment XIR expresses -/
def CmdX (P : String → Option ISym) (tdm : Bool) (k n : Nat) (c : Cmd) : Prop :=
  SFV.Gen.ioClassNames.contains c.cls = true ∧ c.kw = [] ∧
  ((isMeasure c.cls = true ∧ c.cls ≠ "Fouriergate" ∧ (c.pars = [] ∨ ∃ a, c.pars = [a] ∧ PhiX P tdm k n a) ∧
      OptSel c.select ∧ OptSel c.dark ∧ (c.dark = none ∨ c.cls = "MeasureFock")) ∨
   (isMeasure c.cls = false ∧ c.select = none ∧ c.dark = none ∧
      ((c.cls = "Fouriergate" ∧ c.pars = [halfPi]) ∨
       (c.cls ≠ "Fouriergate" ∧ ∀ v ∈ c.pars, ValX P tdm k n v))))

/-- one command through `to_xir` and the XIR reader: returned unchanged (inverse flag included), its
parameters holding no value -/
theorem xir_cmd_rt {P : String → Option ISym} {tdm : Bool} {k n : Nat} {c : Cmd} (h : CmdX P tdm k n c) :
    rdXStmt P tdm n k (toXStmt tdm c) = .ok (clearCmd c) := by
  obtain ⟨cls, regs, pars, dagger, select, dark, kw⟩ := c
  obtain ⟨hnm, hkw, h⟩ := h
  simp only at hnm hkw
  subst hkw
  have hck : checkName cls = .ok () := by unfold checkName; rw [if_pos hnm]
  rcases h with ⟨hm, hF, hp, hs, hdk, hmf⟩ | ⟨hm, hsel, hdark, h⟩
  · simp only at hm hF hp hs hdk hmf
    have hk := measKw_eq (c := ⟨cls, regs, pars, dagger, select, dark, []⟩) hmf
    unfold measKw at hk
    simp only at hk
    simp only [toXStmt, hm, ↓reduceIte, rdXStmt_kw, hck]
    rw [List.append_assoc, hk]
    rcases hp with rfl | ⟨a, rfl, ha⟩
    · simp only [List.nil_append]
      have := kw_rt (sel_forall (P := P) (tdm := tdm) (n := n) (k := k) hs hdk)
      simp only [bind, Except.bind] at this ⊢
      cases h1 : (optKw "select" select ++ optKw "dark_counts" dark).mapM (rdKwEntry P tdm k) with
      | error e => rw [h1] at this; cases this
      | ok vals =>
        rw [h1] at this
        simp only at this ⊢
        rw [this]
        simp only
        rw [build_ok hF hs hdk]
        rfl
    · have hall : Rel2 (fun kv kv' => kv.1 = kv'.1 ∧ (rdKw P tdm k kv.2 >>= convert n) = .ok kv'.2)
          ([("phi", xirArg tdm a)] ++ (optKw "select" select ++ optKw "dark_counts" dark))
          (("phi", a.noVal) :: (optKw "select" select ++ optKw "dark_counts" dark)) :=
        Rel2.cons ⟨rfl, xir_phi_rt ha⟩ (sel_forall hs hdk)
      have := kw_rt hall
      simp only [bind, Except.bind] at this ⊢
      cases h1 : ([("phi", xirArg tdm a)] ++ (optKw "select" select ++ optKw "dark_counts" dark)).mapM
          (rdKwEntry P tdm k) with
      | error e => rw [h1] at this; cases this
      | ok vals =>
        rw [h1] at this
        simp only at this ⊢
        rw [this]
        simp only
        rw [build_phi hF hs hdk]
        rfl
  · simp only at hm hsel hdark h
    subst hsel hdark
    rcases h with ⟨hF, hp⟩ | ⟨hF, hv⟩
    · subst hF hp
      have hck' : checkName "Fouriergate" = .ok () := hck
      simp only [toXStmt, hm, Bool.false_eq_true, ↓reduceIte, ctorParams, List.map_nil, rdXStmt_pos, hck',
        List.mapM_nil, bind, Except.bind, pure, Except.pure]
      rw [build_fourier]
      rfl
    · simp only [toXStmt, hm, Bool.false_eq_true, ↓reduceIte, ctorParams, if_neg hF, rdXStmt_pos, hck]
      have := xir_vals_rt (P := P) (tdm := tdm) (k := k) (n := n) hv
      simp only [bind, Except.bind] at this ⊢
      cases h1 : (pars.map (xirArg tdm)).mapM (rdX P tdm k) with
      | error e => rw [h1] at this; cases this
      | ok l' =>
        rw [h1] at this
        simp only at this ⊢
        rw [this]
        simp only
        rw [build_ok_nokw hF]
        rfl

/-! ### programs through XIR -/

theorem toXStmt_wires (tdm : Bool) (c : Cmd) : (toXStmt tdm c).wires = c.regs := by
  unfold toXStmt; split <;> rfl

/-- number of TDM loop variables -/
def loopCount (p : Prog) : Nat := match p.tdm with | some t => t.params.length | none => 0

/-- the number of subsystems the XIR reader gives the program: highest used mode + 1, for TDM programs
the sum of `N` -/
def readN (p : Prog) : Nat := match p.tdm with | some t => t.N.foldl (· + ·) 0 | none => usedModes p

/-- the fragment XIR expresses (ordinary and TDM programs) -/
def ExprX (P : String → Option ISym) (p : Prog) : Prop :=
  p.name ≠ "" ∧ p.target ≠ some "" ∧ p.extra = [] ∧
  (match p.tdm with
    | none => (p.cmds.map (·.regs)).flatten ≠ []
    | some t => t.N ≠ []) ∧
  ∀ c ∈ p.cmds, CmdX P p.tdm.isSome (loopCount p) (readN p) c

/-- what comes back from XIR: the program itself, no values held, `n` as the reader infers it -/
def normX (p : Prog) : Prog := { p with n := readN p, cmds := p.cmds.map clearCmd }

theorem xir_prog_rt (P : String → Option ISym) (p : Prog) (h : ExprX P p) :
    toProgramXIR P (toXIR p) = .ok (normX p) := by
  obtain ⟨name, n, target, shots, cutoff, tdm, extra, cmds⟩ := p
  obtain ⟨hname, htarget, hex, hshape, hc⟩ := h
  simp only at hname htarget hex hshape hc
  subst hex
  have hnm : nonEmpty name = some name := by simp [nonEmpty, hname]
  have htg : target.bind nonEmpty = target := by
    cases target with
    | none => rfl
    | some t =>
      have : t ≠ "" := fun h => htarget (by rw [h])
      simp [nonEmpty, this]
  have hwires : (cmds.map (toXStmt tdm.isSome)).map (·.wires) = cmds.map (·.regs) := by
    rw [List.map_map]
    exact List.map_congr_left (fun c _ => toXStmt_wires _ c)
  have hrd := mapM_map_ok (toXStmt tdm.isSome)
    (rdXStmt P tdm.isSome (readN ⟨name, n, target, shots, cutoff, tdm, [], cmds⟩)
      (loopCount ⟨name, n, target, shots, cutoff, tdm, [], cmds⟩)) clearCmd cmds
    (fun c hcm => xir_cmd_rt (hc c hcm))
  cases tdm with
  | none =>
    have hfun : ∀ m k, rdXStmt P false m k = fromXStmt P m := fun m k => by funext s; rfl
    simp only [Option.isSome_none, hfun, readN] at hrd hwires
    simp only at hshape
    simp only [toProgramXIR, toXIR, Option.map_none, Option.isSome_none, Bool.false_eq_true, ↓reduceIte,
      fromXIR, hwires, if_neg hshape, hnm, htg]
    rw [show modeCount (cmds.map (·.regs)) = usedModes ⟨name, n, target, shots, cutoff, none, [], cmds⟩ from rfl,
      hrd]
    rfl
  | some t =>
    obtain ⟨N, params⟩ := t
    have hfun : ∀ m k, rdXStmt P true m k = fromXStmtTdm P m k := fun m k => by funext s; rfl
    simp only [Option.isSome_some, hfun, readN, loopCount] at hrd
    simp only at hshape
    cases N with
    | nil => exact absurd rfl hshape
    | cons a as =>
      simp only [toProgramXIR, toXIR, Option.map_some, Option.isSome_some, ↓reduceIte, fromXIRTdm, hnm, htg,
        hrd, bind, Except.bind]
      rfl

/-! ### state kept between calls: the writers do not look at the values parameters hold -/

/-- give every symbolic parameter that has free or measured atoms another held value -/
def Val.reval (f : Sym → Option Sc) : Val → Val
  | .sym e => if e.meas = [] ∧ e.frees = [] then .sym e else .sym { e with val := f e }
  | v => v

def Cmd.reval (f : Sym → Option Sc) (c : Cmd) : Cmd := { c with pars := c.pars.map (Val.reval f) }

def Prog.reval (f : Sym → Option Sc) (p : Prog) : Prog := { p with cmds := p.cmds.map (Cmd.reval f) }

theorem xirArg_reval (f : Sym → Option Sc) (tdm : Bool) (v : Val) : xirArg tdm (v.reval f) = xirArg tdm v := by
  cases v with
  | sym e =>
    by_cases hc : e.meas = [] ∧ e.frees = []
    · simp [Val.reval, hc]
    · simp [Val.reval, hc, xirArg, constVal]
  | _ => rfl

theorem toXStmt_reval (f : Sym → Option Sc) (tdm : Bool) (c : Cmd) : toXStmt tdm (c.reval f) = toXStmt tdm c := by
  obtain ⟨cls, regs, pars, dagger, select, dark, kw⟩ := c
  unfold toXStmt Cmd.reval
  simp only
  split
  · cases pars with
    | nil => rfl
    | cons a as => simp only [List.map_cons, xirArg_reval]
  · simp only [ctorParams]
    split
    · rfl
    · simp only [List.map_map]
      have : List.map (xirArg tdm ∘ Val.reval f) pars = List.map (xirArg tdm) pars :=
        List.map_congr_left (fun v _ => xirArg_reval f tdm v)
      rw [this]

theorem toXIR_reval (f : Sym → Option Sc) (p : Prog) : toXIR (p.reval f) = toXIR p := by
  obtain ⟨name, n, target, shots, cutoff, tdm, extra, cmds⟩ := p
  simp only [toXIR, Prog.reval, List.map_map]
  congr 1
  exact List.map_congr_left (fun c _ => toXStmt_reval f _ c)

/-- two values that differ at most in the value held by a non-constant symbolic parameter -/
def SameButVal (x y : Val) : Prop :=
  x = y ∨ ∃ e e', x = .sym e ∧ y = .sym e' ∧ e.noVal = e'.noVal ∧ ¬(e.meas = [] ∧ e.frees = [])

theorem reval_same (f : Sym → Option Sc) (v : Val) : SameButVal (v.reval f) v := by
  cases v with
  | sym e =>
    by_cases hc : e.meas = [] ∧ e.frees = []
    · exact Or.inl (by simp [Val.reval, hc])
    · exact Or.inr ⟨{ e with val := f e }, e, by simp [Val.reval, hc], rfl, rfl, hc⟩
  | _ => exact Or.inl rfl

theorem bbArg_text_same {tdm : Bool} {x y : Val} (h : SameButVal x y) :
    textVal (bbArg tdm x) = textVal (bbArg tdm y) := by
  rcases h with rfl | ⟨e, e', rfl, rfl, he, hc⟩
  · rfl
  · have hpos : e.pos = e'.pos := (congrArg Sym.pos he : e.noVal.pos = e'.noVal.pos)
    have hmeas : e.meas = e'.meas := (congrArg Sym.meas he : e.noVal.meas = e'.noVal.meas)
    have hfrees : e.frees = e'.frees := (congrArg Sym.frees he : e.noVal.frees = e'.noVal.frees)
    have hc' : ¬(e'.meas = [] ∧ e'.frees = []) := by rw [← hmeas, ← hfrees]; exact hc
    simp only [bbArg, constVal, if_neg hc, if_neg hc']
    by_cases hm : e.meas = []
    · have hm' : e'.meas = [] := hmeas ▸ hm
      simp only [hm, hm', ne_eq, not_true_eq_false, ↓reduceIte, hpos]
    · have hm' : e'.meas ≠ [] := hmeas ▸ hm
      have hneg : e.neg = e'.neg := (congrArg Sym.neg he : e.noVal.neg = e'.noVal.neg)
      simp only [ne_eq, hm, hm', not_false_eq_true, ↓reduceIte, textVal, toI, hpos, hneg, hmeas, hfrees]

theorem neg_same {x y : Val} (h : SameButVal x y) :
    (x.neg = none ∧ y.neg = none) ∨ ∃ a b, x.neg = some a ∧ y.neg = some b ∧ SameButVal a b := by
  rcases h with rfl | ⟨e, e', rfl, rfl, he, hc⟩
  · cases hx : x.neg with
    | none => exact Or.inl ⟨rfl, rfl⟩
    | some a => exact Or.inr ⟨a, a, rfl, rfl, Or.inl rfl⟩
  · refine Or.inr ⟨_, _, rfl, rfl, Or.inr ⟨e.negate, e'.negate, rfl, rfl, ?_, hc⟩⟩
    have hpos : e.pos = e'.pos := (congrArg Sym.pos he : e.noVal.pos = e'.noVal.pos)
    have hneg : e.neg = e'.neg := (congrArg Sym.neg he : e.noVal.neg = e'.noVal.neg)
    have hmeas : e.meas = e'.meas := (congrArg Sym.meas he : e.noVal.meas = e'.noVal.meas)
    have hfrees : e.frees = e'.frees := (congrArg Sym.frees he : e.noVal.frees = e'.noVal.frees)
    simp only [Sym.negate, Sym.noVal, hpos, hneg, hmeas, hfrees]

theorem map_text_same {tdm : Bool} : ∀ {l l' : List Val}, Rel2 SameButVal l l' →
    (l.map (bbArg tdm)).map textVal = (l'.map (bbArg tdm)).map textVal := by
  intro l l' h
  induction h with
  | nil => rfl
  | cons hab _ ih => simp only [List.map_cons, bbArg_text_same hab, ih]

theorem rel2_reval (f : Sym → Option Sc) : ∀ l : List Val, Rel2 SameButVal (l.map (Val.reval f)) l := by
  intro l
  induction l with
  | nil => exact Rel2.nil
  | cons a l ih => exact Rel2.cons (reval_same f a) ih

/-- **no state between calls (Blackbird writer + text)**: the text written for a command does not depend
on the values its symbolic parameters hold -/
theorem toBBOp_reval (f : Sym → Option Sc) (tdm : Bool) (c : Cmd) :
    (toBBOp tdm (c.reval f)).map textOp = (toBBOp tdm c).map textOp := by
  obtain ⟨cls, regs, pars, dagger, select, dark, kw⟩ := c
  unfold toBBOp Cmd.reval
  simp only
  split
  · simp only [Except.map, textOp, map_text_same (rel2_reval f pars)]
  · have hctor : ctorParams ⟨cls, regs, pars.map (Val.reval f), dagger, select, dark, kw⟩ =
        (ctorParams ⟨cls, regs, pars, dagger, select, dark, kw⟩).map (Val.reval f) := by
      simp only [ctorParams]; split <;> rfl
    rw [hctor]
    generalize ctorParams ⟨cls, regs, pars, dagger, select, dark, kw⟩ = ps
    cases dagger with
    | false =>
      simp only [Bool.false_eq_true, ↓reduceIte, bind, Except.bind, Except.map, textOp,
        map_text_same (rel2_reval f ps)]
    | true =>
      simp only [↓reduceIte]
      split
      · cases ps with
        | nil => rfl
        | cons a as =>
          simp only [List.map_cons, negFirst]
          rcases neg_same (reval_same f a) with ⟨h1, h2⟩ | ⟨x, y, h1, h2, hxy⟩
          · simp only [h1, h2]
          · simp only [h1, h2, bind, Except.bind, Except.map, textOp]
            have := map_text_same (tdm := tdm) (Rel2.cons hxy (rel2_reval f as))
            simp only [List.map_cons] at this ⊢
            rw [this]
      · rfl

/-! ### `_factor_out_pi` -/

theorem piTerm_aux (m : Int) (g : Nat) (hg : (g : Int) ∣ m) (hg2 : g ∣ 12) (hpos : 0 < g) :
    (m / (g : Int)) * 12 = m * ((12 / g : Nat) : Int) := by
  obtain ⟨q, rfl⟩ := hg
  obtain ⟨r, hr⟩ := hg2
  have hgz : (g : Int) ≠ 0 := by omega
  rw [Int.mul_ediv_cancel_left _ hgz]
  have : 12 / g = r := by rw [hr]; exact Nat.mul_div_cancel_left r hpos
  rw [this]
  have h12 : (12 : Int) = (g : Int) * (r : Int) := by exact_mod_cast hr
  rw [h12, Int.mul_comm (g : Int) q, Int.mul_assoc]

/-- the printed term `c*np.pi/d` denotes `m·π/12`: `c/d = m/12` -/
theorem piTerm_denotes (m : Int) : (piTerm m).1 * 12 = m * ((piTerm m).2 : Int) ∧ 0 < (piTerm m).2 := by
  have hg : ((Int.gcd m 12 : Nat) : Int) ∣ m := Int.gcd_dvd_left m 12
  have hg2 : (Int.gcd m 12) ∣ 12 := by
    have := Int.gcd_dvd_right m 12
    exact Int.natCast_dvd_natCast.mp (by simpa using this)
  have hpos : 0 < Int.gcd m 12 := Int.gcd_pos_of_ne_zero_right m (by decide)
  have haux := piTerm_aux m _ hg hg2 hpos
  unfold piTerm
  simp only
  split
  · rename_i h12
    rw [h12] at haux
    simp only [Nat.div_self (by decide : 0 < 12)] at haux
    exact ⟨haux, Nat.one_pos⟩
  · exact ⟨haux, Nat.div_pos (Nat.le_of_dvd (by decide) hg2) hpos⟩

end SFV.Io
