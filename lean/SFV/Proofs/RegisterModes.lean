import SFV.Proofs.RegisterFock
/-! `state(modes=[…])` with an explicit selection: on all three back ends `modes` are SUBSYSTEM INDICES.  For distinct
live indices the result pairs every requested index with the data of that subsystem (requested order on Fock and
Gaussian, ascending order on bosonic); a deleted or unknown index is rejected.  Core Lean only. -/
set_option linter.unusedSectionVars false
set_option linter.unusedSimpArgs false
namespace SFV.Reg
section Modes
variable {D : Type} [DataSem D]

/-- every requested subsystem index paired with what that subsystem carries -/
def Rows.pairs (a : Rows D) (is : List Nat) : List (Nat × D) :=
  is.filterMap (fun i => match a[i]? with | some (some d) => some (i, d) | _ => none)

/-- for live indices `pairs` has one entry per request: entry `k` is (`is[k]`, the datum of subsystem `is[k]`) -/
theorem Rows.pairs_get (a : Rows D) : ∀ (is : List Nat), is.all a.liveAt = true → ∀ (k i : Nat), is[k]? = some i →
    ∃ d, a[i]? = some (some d) ∧ (Rows.pairs a is)[k]? = some (i, d) := by
  intro is
  induction is with
  | nil => intro _ k i hk; simp at hk
  | cons m ms ih =>
    intro hl k i hk
    simp only [List.all_cons, Bool.and_eq_true] at hl
    have hm := hl.1
    unfold Rows.liveAt at hm
    cases ha : a[m]? with
    | none => simp [ha] at hm
    | some o =>
      cases o with
      | none => simp [ha] at hm
      | some d =>
        cases k with
        | zero =>
          simp at hk; subst hk
          exact ⟨d, ha, by simp [Rows.pairs, ha]⟩
        | succ k =>
          obtain ⟨d', h1, h2⟩ := ih hl.2 k i (by simpa using hk)
          exact ⟨d', h1, by simpa [Rows.pairs, ha] using h2⟩

theorem mem_liveFrom : ∀ (l : Rows D) (c i : Nat), i ∈ liveFrom c l ↔ ∃ j, i = c + j ∧ Rows.liveAt l j = true := by
  intro l
  induction l with
  | nil => intro c i; simp [liveFrom, Rows.liveAt]
  | cons x xs ih =>
    intro c i
    cases x with
    | none =>
      simp only [liveFrom, ih]
      constructor
      · rintro ⟨j, rfl, hj⟩; exact ⟨j + 1, by omega, by simpa [Rows.liveAt] using hj⟩
      · rintro ⟨j, rfl, hj⟩
        cases j with
        | zero => simp [Rows.liveAt] at hj
        | succ j => exact ⟨j, by omega, by simpa [Rows.liveAt] using hj⟩
    | some d =>
      simp only [liveFrom, List.mem_cons, ih]
      constructor
      · rintro (rfl | ⟨j, rfl, hj⟩)
        · exact ⟨0, rfl, by simp [Rows.liveAt]⟩
        · exact ⟨j + 1, by omega, by simpa [Rows.liveAt] using hj⟩
      · rintro ⟨j, rfl, hj⟩
        cases j with
        | zero => exact Or.inl rfl
        | succ j => exact Or.inr ⟨j, by omega, by simpa [Rows.liveAt] using hj⟩

theorem mem_live_iff (a : Rows D) (i : Nat) : i ∈ Rows.live a ↔ Rows.liveAt a i = true := by
  unfold Rows.live
  rw [mem_liveFrom]
  constructor
  · rintro ⟨j, rfl, hj⟩; simpa using hj
  · intro h; exact ⟨i, by omega, h⟩

/-! phase-space back ends -/
theorem PS.active_check (s : PS D) (h : PSInv s) (modes : List Nat) :
    (modes.any (fun i => !s.getModes.contains i)) = !(modes.all (Rows.liveAt s.abs)) := by
  rw [PS.getModes_live s h]
  induction modes with
  | nil => rfl
  | cons m ms ih =>
    simp only [List.any_cons, List.all_cons, ih, Bool.not_and]
    congr 1
    rw [Bool.eq_iff_iff]
    simp [mem_live_iff]

theorem PS.rows_pairs (s : PS D) (h : PSInv s) : ∀ (ms : List Nat), ms.all (Rows.liveAt s.abs) = true →
    ∃ data, getAll s.rows ms = .ok data ∧ ms.zip data = Rows.pairs s.abs ms := by
  intro ms
  induction ms with
  | nil => intro _; exact ⟨[], rfl, rfl⟩
  | cons m ms ih =>
    intro hl
    simp only [List.all_cons, Bool.and_eq_true] at hl
    obtain ⟨_, d, hr, hab⟩ := liveAt_active s h m hl.1
    obtain ⟨data, h1, h2⟩ := ih hl.2
    refine ⟨d :: data, by simp [getAll, hr, h1], ?_⟩
    simp only [List.zip_cons_cons, h2, Rows.pairs, List.filterMap_cons, hab]

/-- **Gaussian `state(modes)`**: distinct-or-not live indices in any order ⇒ entry `k` is subsystem `modes[k]` -/
theorem PS.stateModesG_ok (s : PS D) (h : PSInv s) (modes : List Nat) (hl : modes.all (Rows.liveAt s.abs) = true) :
    s.stateModesG modes = .ok (Rows.pairs s.abs modes) := by
  obtain ⟨data, h1, h2⟩ := PS.rows_pairs s h modes hl
  unfold PS.stateModesG
  rw [PS.active_check s h, hl]
  simp [h1, h2]

theorem PS.stateModesG_rejects (s : PS D) (h : PSInv s) (modes : List Nat)
    (hb : ∃ i ∈ modes, Rows.liveAt s.abs i = false) : s.stateModesG modes = .error .value := by
  have : modes.all (Rows.liveAt s.abs) = false := by
    obtain ⟨i, hi, hd⟩ := hb
    cases hx : modes.all (Rows.liveAt s.abs) with
    | false => rfl
    | true => rw [(List.all_eq_true.1 hx) i hi] at hd; cases hd
  unfold PS.stateModesG
  rw [PS.active_check s h, this]
  simp

theorem mem_insertAsc (m : Nat) : ∀ (l : List Nat) (x : Nat), x ∈ PS.insertAsc m l ↔ x = m ∨ x ∈ l := by
  intro l
  induction l with
  | nil => intro x; simp [PS.insertAsc]
  | cons a as ih =>
    intro x
    simp only [PS.insertAsc]
    split
    · simp
    · simp only [List.mem_cons, ih]
      constructor
      · rintro (h | h | h) <;> simp [h]
      · rintro (h | h | h) <;> simp [h]

theorem mem_sortAsc : ∀ (l : List Nat) (x : Nat), x ∈ PS.sortAsc l ↔ x ∈ l := by
  intro l
  induction l with
  | nil => intro x; simp [PS.sortAsc]
  | cons a as ih =>
    intro x
    have : PS.sortAsc (a :: as) = PS.insertAsc a (PS.sortAsc as) := rfl
    rw [this, mem_insertAsc, ih]; simp

/-- **bosonic `state(modes)`**: the same pairs, in ascending index order -/
theorem PS.stateModesB_ok (s : PS D) (h : PSInv s) (modes : List Nat) (hl : modes.all (Rows.liveAt s.abs) = true) :
    s.stateModesB modes = .ok (Rows.pairs s.abs (PS.sortAsc modes)) := by
  have hl' : (PS.sortAsc modes).all (Rows.liveAt s.abs) = true := by
    rw [List.all_eq_true] at hl ⊢
    intro i hi; exact hl i ((mem_sortAsc modes i).1 hi)
  obtain ⟨data, h1, h2⟩ := PS.rows_pairs s h _ hl'
  unfold PS.stateModesB
  rw [PS.active_check s h, hl]
  simp [h1, h2]

theorem PS.stateModesB_rejects (s : PS D) (h : PSInv s) (modes : List Nat)
    (hb : ∃ i ∈ modes, Rows.liveAt s.abs i = false) : s.stateModesB modes = .error .value := by
  have : modes.all (Rows.liveAt s.abs) = false := by
    obtain ⟨i, hi, hd⟩ := hb
    cases hx : modes.all (Rows.liveAt s.abs) with
    | false => rfl
    | true => rw [(List.all_eq_true.1 hx) i hi] at hd; cases hd
  unfold PS.stateModesB
  rw [PS.active_check s h, this]
  simp

/-! Fock back end -/
theorem numbered_liveFrom_get : ∀ (l : List (Option Nat)) (c c0 i x : Nat), Numbered c l → l[i]? = some (some x) →
    (liveFrom c0 l)[x - c]? = some (c0 + i) := by
  intro l
  induction l with
  | nil => intro c c0 i x _ h; simp at h
  | cons a as ih =>
    intro c c0 i x hn h
    cases a with
    | none =>
      cases i with
      | zero => simp at h
      | succ i =>
        have := ih c (c0 + 1) i x hn (by simpa using h)
        simp only [liveFrom, this]; congr 1; omega
    | some y =>
      obtain ⟨rfl, hn'⟩ := hn
      cases i with
      | zero => simp at h; subst h; simp [liveFrom]
      | succ i =>
        have hx := numbered_ge as (y + 1) i x hn' (by simpa using h)
        have := ih (y + 1) (c0 + 1) i x hn' (by simpa using h)
        have e : x - y = (x - (y + 1)) + 1 := by omega
        simp only [liveFrom, e, List.getElem?_cons_succ, this]; congr 1; omega

theorem axesOf_mem (s : Fock D) (ms : List Nat) (x : Nat) :
    x ∈ axesOf s ms ↔ ∃ m ∈ ms, s.mm.map[m]? = some (some x) := by
  simp only [axesOf, List.mem_filterMap]
  constructor
  · rintro ⟨m, hm, hj⟩
    refine ⟨m, hm, ?_⟩
    cases hq : s.mm.map[m]? with
    | none => simp [hq] at hj
    | some o => cases o <;> simp_all
  · rintro ⟨m, hm, hq⟩; exact ⟨m, hm, by simp [hq]⟩

theorem axesOf_nodup (s : Fock D) (h : FockInv s) : ∀ (ms : List Nat), ms.all (Rows.liveAt s.abs) = true → ms.Nodup →
    (axesOf s ms).Nodup ∧ (axesOf s ms).length = ms.length := by
  intro ms
  induction ms with
  | nil => intro _ _; simp [axesOf]
  | cons m ms ih =>
    intro hl hd
    simp only [List.all_cons, Bool.and_eq_true] at hl
    obtain ⟨hni, hnd⟩ := List.nodup_cons.1 hd
    obtain ⟨x, hx⟩ := (Fock.live_iff s h m).1 hl.1
    have hax : axesOf s (m :: ms) = x :: axesOf s ms := by simp [axesOf, hx]
    obtain ⟨h1, h2⟩ := ih hl.2 hnd
    rw [hax]
    refine ⟨List.nodup_cons.2 ⟨?_, h1⟩, by simp [h2]⟩
    intro hmem
    obtain ⟨m', hm', hq⟩ := (axesOf_mem s ms x).1 hmem
    have := numbered_inj s.mm.map 0 m m' x h.num hx hq
    exact hni (this ▸ hm')

theorem Fock.axes_pairs (s : Fock D) (h : FockInv s) : ∀ (ms : List Nat), ms.all (Rows.liveAt s.abs) = true →
    ∃ data labels, getAll s.axes (axesOf s ms) = .ok data ∧ getAll s.getModes (axesOf s ms) = .ok labels ∧
      labels.zip data = Rows.pairs s.abs ms := by
  intro ms
  induction ms with
  | nil => intro _; exact ⟨[], [], rfl, rfl, rfl⟩
  | cons m ms ih =>
    intro hl
    simp only [List.all_cons, Bool.and_eq_true] at hl
    obtain ⟨x, hx⟩ := (Fock.live_iff s h m).1 hl.1
    obtain ⟨hlt, hab⟩ := Fock.live_axis s h m x hx
    have hgx : s.axes[x]? = some s.axes[x] := List.getElem?_eq_getElem hlt
    have hlab : s.getModes[x]? = some m := by
      have := numbered_liveFrom_get s.mm.map 0 0 m x h.num hx
      simpa [Fock.getModes] using this
    have hax : axesOf s (m :: ms) = x :: axesOf s ms := by simp [axesOf, hx]
    obtain ⟨data, labels, h1, h2, h3⟩ := ih hl.2
    refine ⟨s.axes[x] :: data, m :: labels, by simp [hax, getAll, hgx, h1], by simp [hax, getAll, hlab, h2], ?_⟩
    simp only [List.zip_cons_cons, h3, Rows.pairs, List.filterMap_cons, hab, hgx]

/-- **Fock `state(modes)`**: distinct live indices in any order ⇒ entry `k` is subsystem `modes[k]` -/
theorem Fock.stateModes_ok (s : Fock D) (h : FockInv s) (modes : List Nat) (hne : modes ≠ [])
    (hl : modes.all (Rows.liveAt s.abs) = true) (hd : modes.Nodup) :
    s.stateModes modes = .ok (Rows.pairs s.abs modes) := by
  obtain ⟨data, labels, h1, h2, h3⟩ := Fock.axes_pairs s h modes hl
  obtain ⟨hnd, hlen⟩ := axesOf_nodup s h modes hl hd
  have hb : ∀ x ∈ axesOf s modes, x < s.axes.length := by
    intro x hx
    obtain ⟨m, _, hq⟩ := (axesOf_mem s modes x).1 hx
    exact (Fock.live_axis s h m x hq).1
  have hle := nodup_bounded_length _ _ hnd hb
  have hgt : ¬ (axesOf s modes).length > s.axes.length := by omega
  simp [Fock.stateModes, (hasDup_false_iff modes).2 hd, Fock.remapModes_live s h modes hne hl hd, hgt, h1, h2, h3]

theorem Fock.stateModes_rejects (s : Fock D) (h : FockInv s) (modes : List Nat)
    (hb : ∃ i ∈ modes, Rows.liveAt s.abs i = false) : ∃ e, s.stateModes modes = .error e := by
  unfold Fock.stateModes
  split
  · exact ⟨_, rfl⟩
  · obtain ⟨e, he⟩ := Fock.remapModes_dead s h modes hb
    simp only [he]; exact ⟨e, rfl⟩

/-- specification of `state(modes)` shared by the three back ends (`ord`: order in which the modes come back) -/
def StateModesSpec {B : Type} (abs : B → Rows D) (Inv : B → Prop) (sm : B → List Nat → SFV.Reg.R (List (Nat × D)))
    (ord : List Nat → List Nat) : Prop :=
  ∀ (b : B) (modes : List Nat), Inv b →
    (modes ≠ [] → modes.Nodup → modes.all (Rows.liveAt (abs b)) = true →
      sm b modes = .ok (Rows.pairs (abs b) (ord modes))) ∧
    ((∃ i ∈ modes, Rows.liveAt (abs b) i = false) → ∃ e, sm b modes = .error e)

theorem stateModes_spec_all :
    StateModesSpec (Fock.abs (D := D)) FockInv Fock.stateModes id ∧
    StateModesSpec (PS.abs (D := D)) PSInv PS.stateModesG id ∧
    StateModesSpec (PS.abs (D := D)) PSInv PS.stateModesB PS.sortAsc :=
  ⟨fun b modes hb => ⟨fun hne hd hl => Fock.stateModes_ok b hb modes hne hl hd, Fock.stateModes_rejects b hb modes⟩,
   fun b modes hb => ⟨fun _ _ hl => PS.stateModesG_ok b hb modes hl, fun h => ⟨_, PS.stateModesG_rejects b hb modes h⟩⟩,
   fun b modes hb => ⟨fun _ _ hl => PS.stateModesB_ok b hb modes hl, fun h => ⟨_, PS.stateModesB_rejects b hb modes h⟩⟩⟩
end Modes
end SFV.Reg
