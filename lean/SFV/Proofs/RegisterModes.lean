import SFV.Proofs.RegisterFock
/-! `state(modes=[…])` with an explicit selection (Fock, Gaussian): the returned modes are the requested positions of
the full state — every returned mode carries the label and the data of one and the same live index. Core Lean only. -/
set_option linter.unusedSectionVars false
set_option linter.unusedSimpArgs false
namespace SFV.Reg
section Modes
variable {D : Type} [DataSem D]

theorem getAll_zip {α β : Type} (l1 : List α) (l2 : List β) : ∀ (ms : List Nat) (a : List α) (b : List β),
    getAll l1 ms = .ok a → getAll l2 ms = .ok b → getAll (l1.zip l2) ms = .ok (a.zip b) := by
  intro ms
  induction ms with
  | nil => intro a b h1 h2; simp only [getAll] at h1 h2; cases h1; cases h2; rfl
  | cons m ms ih =>
    intro a b h1 h2
    unfold getAll at h1 h2 ⊢
    cases hx : l1[m]? with
    | none => simp [hx] at h1
    | some x =>
      cases hy : l2[m]? with
      | none => simp [hy] at h2
      | some y =>
        simp only [hx, hy] at h1 h2
        cases ha : getAll l1 ms with
        | error e => simp [ha] at h1
        | ok as =>
          cases hb : getAll l2 ms with
          | error e => simp [hb] at h2
          | ok bs =>
            simp only [ha, hb] at h1 h2
            cases h1; cases h2
            have hz : (l1.zip l2)[m]? = some (x, y) := by simp [List.getElem?_zip_eq_some, hx, hy]
            simp only [hz, ih as bs ha hb, List.zip_cons_cons]

/-- **Fock `state(modes)`**: the requested positions of the full state, in the requested order -/
theorem Fock.stateModes_exact (s : Fock D) (h : FockInv s) (modes : List Nat) (out : List (Nat × D))
    (hs : s.stateModes modes = .ok out) : getAll (Rows.state 0 s.abs) modes = .ok out := by
  have hst : Rows.state 0 s.abs = s.getModes.zip s.axes := by
    have h1 := Fock.stateNone_exact s h
    rw [Fock.stateNone_labels s h.len] at h1
    exact (Except.ok.inj h1).symm
  unfold Fock.stateModes at hs
  split at hs
  · cases hs
  · split at hs
    · cases hs
    · split at hs
      · cases hs
      · rename_i data hd
        split at hs
        · cases hs
        · rename_i labels hl
          cases hs
          rw [hst]
          exact getAll_zip _ _ modes labels data hl hd

theorem getAll_ok_get {α : Type} (l : List α) : ∀ (idx : List Nat) (sel : List α), getAll l idx = .ok sel →
    ∀ (j i : Nat), idx[j]? = some i → sel[j]? = l[i]? ∧ (l[i]?).isSome := by
  intro idx
  induction idx with
  | nil => intro sel _ j i hj; simp at hj
  | cons a as ih =>
    intro sel h j i hj
    unfold getAll at h
    cases hx : l[a]? with
    | none => simp [hx] at h
    | some x =>
      simp only [hx] at h
      cases hr : getAll l as with
      | error e => simp [hr] at h
      | ok xs =>
        simp only [hr] at h
        cases h
        cases j with
        | zero => simp at hj; subst hj; simp [hx]
        | succ j => exact ih xs hr j i (by simpa using hj)

theorem getAll_comp {α : Type} (l : List α) (idx : List Nat) (sel : List α) (hsel : getAll l idx = .ok sel) :
    ∀ (ms idx' : List Nat), getAll idx ms = .ok idx' → getAll l idx' = getAll sel ms := by
  intro ms
  induction ms with
  | nil => intro idx' h; simp only [getAll] at h; cases h; rfl
  | cons m ms ih =>
    intro idx' h
    unfold getAll at h
    cases hx : idx[m]? with
    | none => simp [hx] at h
    | some i =>
      simp only [hx] at h
      cases hr : getAll idx ms with
      | error e => simp [hr] at h
      | ok is =>
        simp only [hr] at h
        cases h
        obtain ⟨h1, h2⟩ := getAll_ok_get l idx sel hsel m i hx
        have := ih is hr
        cases hl : l[i]? with
        | none => simp [hl] at h2
        | some v =>
          rw [hl] at h1
          simp only [getAll, hl, h1, this]

/-- **Gaussian `state(modes)`** (after the fix): the requested positions of the full state, in the requested order —
labels and data come from the same live index -/
theorem PS.stateModesG_exact (s : PS D) (h : PSInv s) (modes : List Nat) (out : List (Nat × D))
    (hs : s.stateModesG modes = .ok out) : getAll (Rows.state 0 s.abs) modes = .ok out := by
  have hg : s.getModes = liveFrom 0 s.active :=
    getModes_liveFrom s.active 0 (fun i j hij => by have := h.own i j hij; omega)
  have hsuf := getAll_live_suffix s.active s.rows [] (by rw [h.la, h.lr])
  simp only [List.length_nil, List.nil_append] at hsuf
  have hst : Rows.state 0 s.abs = s.getModes.zip (pick s.active s.rows) := by
    rw [hg, hsuf.2]; rfl
  unfold PS.stateModesG at hs
  split at hs
  · cases hs
  · rename_i labels hl
    split at hs
    · cases hs
    · rename_i data hd
      cases hs
      rw [hst]
      have hcomp := getAll_comp s.rows s.getModes (pick s.active s.rows) (by rw [hg]; exact hsuf.1) modes labels hl
      rw [hd] at hcomp
      exact getAll_zip _ _ modes labels data hl hcomp.symm
end Modes
end SFV.Reg
