import SFV.Model.MeasureSample
import SFV.Proofs.FockTensor
import SFV.Proofs.GaussNM
import SFV.Proofs.MeasureDiscrete
import Mathlib.Algebra.Order.Field.Basic
import Mathlib.Algebra.BigOperators.Group.List.Basic
import Mathlib.Tactic.Ring
import Mathlib.Tactic.Linarith
import Mathlib.Tactic.FieldSimp

/-! Lemmas for C06, sampling part: the distribution `measure_fock` draws from is the Born distribution (sum of the
full diagonal over the photon numbers of the unmeasured modes), it marginalises and sums to the trace; the accept test
of the bosonic rejection sampler yields a density proportional to the target when the envelope dominates. -/
namespace SFV.Meas
open SFV.Fock

/-! ### Fock: sums over photon numbers of a list of modes -/

section fock
variable {K : Type} [AddCommMonoid K]

/-- set the row and the column axis of mode `m` to `v` -/
def upd2 (idx : Idx) (m v : Nat) : Idx := upd (upd idx (2 * m) v) (2 * m + 1) v

theorem traceOver_cons (D : Nat) (m : Nat) (ms : List Nat) (f : Idx → K) (idx : Idx) :
    traceOver D (m :: ms) f idx = sumTo D fun v => traceOver D ms f (upd2 idx m v) := rfl

theorem upd2_comm (idx : Idx) {a b : Nat} (h : a ≠ b) (v w : Nat) :
    upd2 (upd2 idx a v) b w = upd2 (upd2 idx b w) a v := by
  funext x
  simp only [upd2, upd]
  split_ifs <;> first | rfl | (exfalso; omega)

theorem upd2_same (idx : Idx) (a v w : Nat) : upd2 (upd2 idx a v) a w = upd2 idx a w := by
  funext x
  simp only [upd2, upd]
  by_cases h1 : x = 2 * a + 1 <;> by_cases h2 : x = 2 * a <;> simp [h1, h2]

theorem traceOver_congr (D : Nat) (ms : List Nat) (f g : Idx → K) (h : ∀ idx, f idx = g idx) (idx : Idx) :
    traceOver D ms f idx = traceOver D ms g idx := by
  induction ms generalizing idx with
  | nil => exact h idx
  | cons m ms ih => simp only [traceOver_cons]; exact sumTo_congr fun v _ => ih _

theorem traceOver_swap (D : Nat) (a b : Nat) (l : List Nat) (f : Idx → K) (idx : Idx) :
    traceOver D (a :: b :: l) f idx = traceOver D (b :: a :: l) f idx := by
  by_cases h : a = b
  · subst h; rfl
  · simp only [traceOver_cons, sumTo_eq_sum]
    rw [Finset.sum_comm]
    refine Finset.sum_congr rfl fun w _ => Finset.sum_congr rfl fun v _ => ?_
    rw [upd2_comm idx h v w]

/-- the order in which modes are summed over does not matter -/
theorem traceOver_perm (D : Nat) {l1 l2 : List Nat} (h : l1.Perm l2) (f : Idx → K) (idx : Idx) :
    traceOver D l1 f idx = traceOver D l2 f idx := by
  induction h generalizing idx with
  | nil => rfl
  | cons x _ ih => simp only [traceOver_cons]; exact sumTo_congr fun v _ => ih _
  | swap x y l => exact traceOver_swap D y x l f idx
  | trans _ _ ih1 ih2 => exact (ih1 idx).trans (ih2 idx)

theorem traceOver_append (D : Nat) (l1 l2 : List Nat) (f : Idx → K) (idx : Idx) :
    traceOver D (l1 ++ l2) f idx = traceOver D l1 (traceOver D l2 f) idx := by
  induction l1 generalizing idx with
  | nil => rfl
  | cons m ms ih => simp only [List.cons_append, traceOver_cons]; exact sumTo_congr fun v _ => ih _

theorem tracedD_unmeasured (n : Nat) (measure : List Nat) :
    ((List.range n).filter fun i => (unmeasured n measure).contains i) = unmeasured n measure := by
  unfold unmeasured
  rw [List.filter_congr]
  intro x hx
  have hx' : x < n := List.mem_range.mp hx
  by_cases h : measure.contains x = true
  · simp [h, List.contains_iff_mem] at *
    simp [h]
  · have h' : x ∉ measure := by simpa [List.contains_iff_mem] using h
    simp [h', hx', List.mem_filter]

/-- **Born rule for the sampled distribution**: the diagonal entry of the reduced density matrix at the ascending-order
outcome `p` is the sum, over all photon numbers of the unmeasured modes, of the full diagonal entry in which every
measured mode `m` carries `p[axis of m]` -/
theorem reducedDiag_eq (D n : Nat) (measure : List Nat) (ρ : Tens K) (p : List Nat) :
    reducedDiag D n measure ρ p =
      traceOver D (unmeasured n measure) ρ
        (diagIdx fun m => p.getD (keptPos (unmeasured n measure) m) 0) := by
  unfold reducedDiag diagAt partialTrace
  simp only [tracedD_unmeasured]
  congr 1
  funext a
  simp only [diagIdx]
  have : (2 * keptPos (unmeasured n measure) (a / 2) + a % 2) / 2 = keptPos (unmeasured n measure) (a / 2) := by omega
  rw [this]

/-- two assignments that agree on every axis not summed over give the same sum -/
theorem traceOver_agree (D : Nat) (U : List Nat) (f : Idx → K) (i1 i2 : Idx)
    (h : ∀ a, a / 2 ∉ U → i1 a = i2 a) : traceOver D U f i1 = traceOver D U f i2 := by
  induction U generalizing i1 i2 with
  | nil => exact congrArg f (funext fun a => h a (by simp))
  | cons m ms ih =>
    simp only [traceOver_cons]
    refine sumTo_congr fun v _ => ih _ _ fun a ha => ?_
    simp only [upd2, upd]
    by_cases h1 : a = 2 * m + 1
    · simp [h1]
    · by_cases h2 : a = 2 * m
      · simp [h2]
      · simp only [h1, h2, if_false]
        exact h a (by
          intro hm
          rcases List.mem_cons.mp hm with e | e
          · omega
          · exact ha e)

theorem assign_of_not_mem (sel : List (Nat × Nat)) (a : Nat) (h : a / 2 ∉ sel.map (·.1)) : assign sel a = 0 := by
  induction sel with
  | nil => rfl
  | cons s sel ih =>
    simp only [List.map_cons, List.mem_cons, not_or] at h
    simp only [assign, upd]
    have h1 : ¬ a = 2 * s.1 + 1 := by omega
    have h2 : ¬ a = 2 * s.1 := by omega
    simp only [h1, h2, if_false]
    exact ih h.2

theorem assign_of_mem (sel : List (Nat × Nat)) (hnd : (sel.map (·.1)).Nodup) (s : Nat × Nat) (hs : s ∈ sel) (a : Nat)
    (ha : a / 2 = s.1) : assign sel a = s.2 := by
  induction sel with
  | nil => cases hs
  | cons t sel ih =>
    simp only [List.map_cons, List.nodup_cons] at hnd
    simp only [assign, upd]
    rcases List.mem_cons.mp hs with rfl | hs'
    · by_cases h1 : a = 2 * s.1 + 1
      · simp [h1]
      · have h2 : a = 2 * s.1 := by omega
        simp [h2]
    · have hne : s.1 ≠ t.1 := fun e => hnd.1 (e ▸ List.mem_map_of_mem hs')
      have h1 : ¬ a = 2 * t.1 + 1 := by omega
      have h2 : ¬ a = 2 * t.1 := by omega
      simp only [h1, h2, if_false]
      exact ih hnd.2 hs'

theorem keptPos_ge (n : Nat) (measure : List Nat) (hnd : measure.Nodup) (hlt : ∀ m ∈ measure, m < n) (m : Nat)
    (hm : n ≤ m) : measure.length ≤ keptPos (unmeasured n measure) m := by
  unfold keptPos
  apply List.Nodup.length_le_of_subset hnd
  intro x hx
  have hxn := hlt x hx
  simp only [List.mem_filter, List.mem_range, unmeasured, Bool.not_eq_true', List.contains_eq_mem,
    decide_eq_false_iff_not, not_and, Bool.not_eq_eq_eq_not, Bool.not_true, decide_eq_true_eq]
  exact ⟨by omega, fun _ => by simpa using hx⟩

theorem unmeasured_eq_filter_sel (n : Nat) (measure : List Nat) (g : Nat → Nat) :
    ((List.range n).filter fun i => !((measure.map fun m => (m, g m)).map (·.1)).contains i) = unmeasured n measure := by
  unfold unmeasured
  congr 1
  funext i
  simp [List.map_map, Function.comp]

/-- **the sampled distribution is the Born distribution**: the entry for the ascending-order outcome `p` equals the Born
probability that each measured mode `m` holds `p[rank of m]` photons -/
theorem reducedDiag_eq_bornProb (D n : Nat) (measure : List Nat) (hnd : measure.Nodup) (hlt : ∀ m ∈ measure, m < n)
    (ρ : Tens K) (p : List Nat) (hp : p.length = measure.length) :
    reducedDiag D n measure ρ p = bornProb D n ρ (measure.map fun m => (m, p.getD (rank measure m) 0)) := by
  rw [reducedDiag_eq]
  unfold bornProb
  rw [unmeasured_eq_filter_sel]
  apply traceOver_agree
  intro a ha
  have hsel : ((measure.map fun m => (m, p.getD (rank measure m) 0)).map (·.1)) = measure := by
    rw [List.map_map]
    exact List.map_id'' (fun _ => rfl) measure
  by_cases hm : a / 2 ∈ measure
  · have hmem : (a / 2, p.getD (rank measure (a / 2)) 0) ∈ measure.map fun m => (m, p.getD (rank measure m) 0) :=
      List.mem_map.mpr ⟨a / 2, hm, rfl⟩
    rw [assign_of_mem _ (by rw [hsel]; exact hnd) _ hmem a rfl]
    simp only [diagIdx]
    rw [rank_eq_keptPos n measure hnd (a / 2) (hlt _ hm)]
  · rw [assign_of_not_mem _ a (by rw [hsel]; exact hm)]
    have hn : n ≤ a / 2 := by
      by_contra hc
      apply ha
      simp only [unmeasured, List.mem_filter, List.mem_range]
      exact ⟨by omega, by simpa using hm⟩
    simp only [diagIdx]
    have := keptPos_ge n measure hnd hlt (a / 2) hn
    rw [List.getD_eq_getElem?_getD, List.getElem?_eq_none (by omega)]
    rfl

/-- **marginalisation**: summing the Born probability over the photon number of one more mode `m` gives the Born
probability of the remaining selection -/
theorem bornProb_marginal (D n : Nat) (ρ : Tens K) (sel : List (Nat × Nat)) (m : Nat) (hm : m < n)
    (hnot : m ∉ sel.map (·.1)) :
    (sumTo D fun v => bornProb D n ρ ((m, v) :: sel)) = bornProb D n ρ sel := by
  unfold bornProb
  have hperm : ((List.range n).filter fun i => !(sel.map (·.1)).contains i).Perm
      (m :: (List.range n).filter fun i => !(((m, 0) :: sel).map (·.1)).contains i) := by
    rw [List.perm_ext_iff_of_nodup (List.nodup_range.filter _)]
    · intro a
      simp only [List.mem_filter, List.mem_range, List.map_cons, List.contains_cons, Bool.not_eq_true',
        Bool.or_eq_false_iff, List.mem_cons, Bool.not_eq_eq_eq_not, Bool.not_true, List.contains_eq_mem,
        decide_eq_false_iff_not, beq_eq_false_iff_ne, ne_eq]
      constructor
      · rintro ⟨h1, h2⟩
        by_cases e : a = m
        · exact Or.inl e
        · exact Or.inr ⟨h1, fun h => h.elim e h2⟩
      · rintro (e | ⟨h1, h2⟩)
        · subst e; exact ⟨hm, hnot⟩
        · exact ⟨h1, fun h => h2 (Or.inr h)⟩
    · rw [List.nodup_cons]
      refine ⟨?_, List.nodup_range.filter _⟩
      simp [List.mem_filter]
  rw [traceOver_perm D hperm, traceOver_cons]
  refine sumTo_congr fun v _ => ?_
  rfl

/-- **normalisation**: with nothing selected the Born "probability" is the trace; by `bornProb_marginal` the sum over
all outcomes of any list of measured modes is therefore the trace -/
theorem bornProb_nil (D n : Nat) (ρ : Tens K) : bornProb D n ρ [] = traceOver D (List.range n) ρ (fun _ => 0) := by
  unfold bornProb
  simp [assign]

end fock

/-! ### Gaussian back end: index computation of the photon-counting / threshold path -/

section discrete
open SFV.Gauss
variable {K : Type} [CommRing K]

/-- the quadrature a position of the sampler's argument must describe: `x` of `modes[j]` for `j < k`, then `p` -/
def discreteLabel (modes : List Nat) (j : Nat) : Q :=
  if j < modes.length then ((modes.getD j 0, false) : Q) else ((modes.getD (j - modes.length) 0, true) : Q)

theorem discreteIdxs_x (nlen : Nat) (modes : List Nat) (j : Nat) (hj : j < modes.length) :
    (discreteIdxs nlen modes).getD j 0 = modes.getD j 0 := by
  unfold discreteIdxs
  rw [List.getD_eq_getElem?_getD, List.getD_eq_getElem?_getD, List.getElem?_append_left hj]

theorem discreteIdxs_p (nlen : Nat) (modes : List Nat) (j : Nat) (hj : j < modes.length) :
    (discreteIdxs nlen modes).getD (modes.length + j) 0 = modes.getD j 0 + nlen := by
  unfold discreteIdxs
  rw [List.getD_eq_getElem?_getD, List.getD_eq_getElem?_getD,
    List.getElem?_append_right (Nat.le_add_right _ _)]
  simp [List.getElem?_map, List.getElem?_eq_getElem hj]

/-- **the samplers receive exactly the measured modes' quadratures**, for every array size `st.n` (live or deleted
rows alike) and every list of modes below it, in the order listed -/
theorem gaussDiscreteArgs_spec (st : GS K) (modes : List Nat) (hlt : ∀ m ∈ modes, m < st.n) (a b : Nat)
    (ha : a < 2 * modes.length) (hb : b < 2 * modes.length) :
    (gaussDiscreteArgs st modes).cov a b = (toXP st).cov (discreteLabel modes a) (discreteLabel modes b) ∧
    (gaussDiscreteArgs st modes).mean a = (toXP st).mean (discreteLabel modes a) := by
  have key : ∀ j, j < 2 * modes.length →
      (j < modes.length ∧ (discreteIdxs st.n modes).getD j 0 = modes.getD j 0 ∧ modes.getD j 0 < st.n) ∨
      (¬ j < modes.length ∧ (discreteIdxs st.n modes).getD j 0 = modes.getD (j - modes.length) 0 + st.n ∧
        modes.getD (j - modes.length) 0 < st.n) := by
    intro j hj
    by_cases h : j < modes.length
    · refine Or.inl ⟨h, discreteIdxs_x _ _ _ h, ?_⟩
      rw [List.getD_eq_getElem?_getD, List.getElem?_eq_getElem h]; exact hlt _ (List.getElem_mem h)
    · have h' : j - modes.length < modes.length := by omega
      refine Or.inr ⟨h, ?_, ?_⟩
      · have := discreteIdxs_p st.n modes (j - modes.length) h'
        rwa [show modes.length + (j - modes.length) = j by omega] at this
      · rw [List.getD_eq_getElem?_getD, List.getElem?_eq_getElem h']; exact hlt _ (List.getElem_mem h')
  unfold gaussDiscreteArgs
  simp only
  rcases key a ha with ⟨h1, e1, l1⟩ | ⟨h1, e1, l1⟩ <;> rcases key b hb with ⟨h2, e2, l2⟩ | ⟨h2, e2, l2⟩ <;>
    simp only [e1, e2, discreteLabel, h1, h2, if_true, if_false, scovxp, smeanxp, l1, l2, XP.cov, XP.mean, toXP,
      Nat.add_sub_cancel, Nat.not_lt.mpr (Nat.le_add_left _ _), and_self]

end discrete

/-! ### bosonic rejection sampler -/

section sampler
variable {K : Type} [Field K] [LinearOrder K] [IsStrictOrderedRing K]

theorem foldl_add_eq_sum (l : List K) : l.foldl (· + ·) 0 = l.sum := (List.sum_eq_foldl).symm

theorem probDistVal_eq (peaks : List (Peak K)) : probDistVal peaks = (peaks.map fun p => p.w * p.pref * p.e).sum :=
  foldl_add_eq_sum _

theorem probUpbnd_eq (peaks : List (Peak K)) :
    probUpbnd peaks = ((peaks.filter fun p => isUb p.w).map fun p => absK p.w * p.pref * p.e).sum :=
  foldl_add_eq_sum _

/-- **the envelope dominates the target** wherever the Gaussian factors are non-negative: dropping the negative-weight
peaks can only increase the sum -/
theorem envelope_dominates (peaks : List (Peak K)) (h : ∀ p ∈ peaks, 0 ≤ p.pref * p.e) :
    probDistVal peaks ≤ probUpbnd peaks := by
  rw [probDistVal_eq, probUpbnd_eq]
  induction peaks with
  | nil => simp
  | cons p ps ih =>
    have ihp := ih fun q hq => h q (List.mem_cons_of_mem _ hq)
    have hp := h p List.mem_cons_self
    by_cases hw : p.w < 0
    · have : isUb p.w = false := by simp [isUb, hw]
      simp only [List.map_cons, List.sum_cons, List.filter_cons, this, Bool.false_eq_true, if_false]
      have : p.w * p.pref * p.e ≤ 0 := by
        rw [mul_assoc]; exact mul_nonpos_of_nonpos_of_nonneg (le_of_lt hw) hp
      linarith
    · have : isUb p.w = true := by simp [isUb, hw]
      have ha : absK p.w = p.w := by simp [absK, hw]
      simp only [List.map_cons, List.sum_cons, List.filter_cons, this, if_true, ha]
      linarith

/-- the accept test in terms of the uniform draw: accepted exactly on the interval `[0, p/ub)` -/
theorem accept_iff (u p ub : K) (hub : 0 < ub) : u * ub < p ↔ u < p / ub := by
  rw [lt_div_iff₀ hub]

/-- when `0 ≤ p ≤ ub` that interval lies inside `[0, 1]`: its length `p/ub` is the acceptance probability -/
theorem accept_fraction_unit (p ub : K) (hub : 0 < ub) (h0 : 0 ≤ p) (h1 : p ≤ ub) : 0 ≤ p / ub ∧ p / ub ≤ 1 :=
  ⟨div_nonneg h0 (le_of_lt hub), (div_le_one hub).mpr h1⟩

/-- the proposal (choose a peak with `ub_weights_prob`, draw from it) has density `envelope / Z` -/
theorem proposal_density (peaks : List (Peak K)) (Z : K) :
    ((peaks.filter fun p => isUb p.w).map fun p => absK p.w / Z * (p.pref * p.e)).sum = probUpbnd peaks / Z := by
  rw [probUpbnd_eq]
  induction (peaks.filter fun p => isUb p.w) with
  | nil => simp
  | cons p ps ih => simp only [List.map_cons, List.sum_cons, ih, add_div]; ring

/-- **accepted density ∝ target**: proposal density × acceptance probability `p/ub` = `p / Z`, with the same constant
`1/Z` at every point -/
theorem accepted_density (peaks : List (Peak K)) (Z : K) (hub : probUpbnd peaks ≠ 0) :
    ((peaks.filter fun p => isUb p.w).map fun p => absK p.w / Z * (p.pref * p.e)).sum
        * (probDistVal peaks / probUpbnd peaks) = probDistVal peaks / Z := by
  rw [proposal_density]
  field_simp

/-- without domination the test accepts every draw `u ∈ [0, 1)`: the acceptance probability is `1`, not `p/ub` -/
theorem accept_not_dominated (u p ub : K) (hu : u < 1) (h0 : 0 ≤ ub) (hp : ub < p) : u * ub < p := by
  have : u * ub ≤ ub := by
    have := mul_le_mul_of_nonneg_right (le_of_lt hu) h0
    simpa using this
  linarith

end sampler

end SFV.Meas

/-! ### normalisation of the sampled Fock distribution as a flat list sum -/

namespace SFV.Meas
open SFV.Fock

section flat
variable {K : Type} [AddCommMonoid K]

theorem sum_map_range (N : Nat) (g : Nat → K) : ((List.range N).map g).sum = sumTo N g := by
  induction N with
  | zero => rfl
  | succ N ih => simp [List.range_succ, List.map_append, List.sum_append, ih, sumTo]

theorem sumTo_add (a b : Nat) (f : Nat → K) : sumTo (a + b) f = sumTo a f + sumTo b fun x => f (a + x) := by
  induction b with
  | zero => simp [sumTo]
  | succ b ih => rw [← Nat.add_assoc]; simp only [sumTo, ih, add_assoc]

theorem sumTo_mul (N D : Nat) (f : Nat → K) :
    sumTo (N * D) f = sumTo N fun h => sumTo D fun l => f (h * D + l) := by
  induction N with
  | zero => simp [sumTo]
  | succ N ih => rw [Nat.succ_mul, sumTo_add, ih]; rfl

theorem unIndex_snoc (h l k D : Nat) (hl : l < D) : unIndex (h * D + l) (k + 1) D = unIndex h k D ++ [l] := by
  have hD : 0 < D := by omega
  simp only [unIndex, List.range_succ, List.map_append, List.map_cons, List.map_nil]
  congr 1
  · apply List.map_congr_left
    intro m hm
    have hm' : m < k := List.mem_range.mp hm
    have e1 : k + 1 - 1 - m = (k - 1 - m) + 1 := by omega
    have e3 : (h * D + l) / D = h := by
      rw [Nat.mul_comm, Nat.mul_add_div hD, Nat.div_eq_of_lt hl]; simp
    rw [e1, pow_succ, Nat.mul_comm (D ^ _) D, ← Nat.div_div_eq_div_mul, e3]
  · have e2 : k + 1 - 1 - k = 0 := by omega
    rw [e2]
    simp [Nat.mul_add_mod_of_lt hl]

theorem exists_max (l : List Nat) (h : l ≠ []) : ∃ x ∈ l, ∀ y ∈ l, y ≤ x := by
  induction l with
  | nil => exact absurd rfl h
  | cons a t ih =>
    by_cases ht : t = []
    · subst ht; exact ⟨a, by simp, by simp⟩
    · obtain ⟨x, hx, hmax⟩ := ih ht
      by_cases hax : x ≤ a
      · refine ⟨a, by simp, ?_⟩
        intro y hy
        rcases List.mem_cons.mp hy with rfl | hy
        · exact le_refl _
        · exact le_trans (hmax y hy) hax
      · refine ⟨x, List.mem_cons_of_mem _ hx, ?_⟩
        intro y hy
        rcases List.mem_cons.mp hy with rfl | hy
        · omega
        · exact hmax y hy

/-- the Born probability depends on the selection only as a set of (mode, value) pairs -/
theorem bornProb_perm (D n : Nat) (ρ : Tens K) {s1 s2 : List (Nat × Nat)} (h : s1.Perm s2)
    (hnd : (s1.map (·.1)).Nodup) : bornProb D n ρ s1 = bornProb D n ρ s2 := by
  have hnd2 : (s2.map (·.1)).Nodup := (h.map _).nodup_iff.mp hnd
  have hassign : assign s1 = assign s2 := by
    funext a
    by_cases hm : a / 2 ∈ s1.map (·.1)
    · obtain ⟨s, hs, hs1⟩ := List.mem_map.mp hm
      rw [assign_of_mem s1 hnd s hs a hs1.symm, assign_of_mem s2 hnd2 s (h.mem_iff.mp hs) a hs1.symm]
    · have hm2 : a / 2 ∉ s2.map (·.1) := fun x => hm ((h.map _).mem_iff.mpr x)
      rw [assign_of_not_mem s1 a hm, assign_of_not_mem s2 a hm2]
  unfold bornProb
  rw [hassign]
  congr 1
  apply List.filter_congr
  intro i _
  have : (s1.map (·.1)).contains i = (s2.map (·.1)).contains i := by
    rw [Bool.eq_iff_iff, List.contains_iff_mem, List.contains_iff_mem]
    exact (h.map _).mem_iff
  rw [this]

/-- the selection read off an ascending-order outcome `p` -/
def selOf (measure p : List Nat) : List (Nat × Nat) := measure.map fun m => (m, p.getD (rank measure m) 0)

theorem selOf_modes (measure p : List Nat) : (selOf measure p).map (·.1) = measure := by
  unfold selOf
  rw [List.map_map]
  exact List.map_id'' (fun _ => rfl) measure

theorem rank_perm {l1 l2 : List Nat} (h : l1.Perm l2) (m : Nat) : rank l1 m = rank l2 m :=
  (h.filter _).length_eq

/-- the largest measured mode owns the last axis; removing it leaves the other ranks unchanged -/
theorem selOf_snoc (measure : List Nat) (hnd : measure.Nodup) (mx : Nat) (hmx : mx ∈ measure)
    (hmax : ∀ y ∈ measure, y ≤ mx) (q : List Nat) (l : Nat) (hq : q.length + 1 = measure.length) :
    (selOf measure (q ++ [l])).Perm ((mx, l) :: selOf (measure.erase mx) q) := by
  have hperm : measure.Perm (mx :: measure.erase mx) := List.perm_cons_erase hmx
  have hnd' : (mx :: measure.erase mx).Nodup := hperm.nodup_iff.mp hnd
  rw [List.nodup_cons] at hnd'
  have hlt : ∀ y ∈ measure.erase mx, y < mx := by
    intro y hy
    have h1 := hmax y (List.mem_of_mem_erase hy)
    have h2 : y ≠ mx := fun e => hnd'.1 (e ▸ hy)
    omega
  have hlen : (measure.erase mx).length = q.length := by
    have := hperm.length_eq
    simp at this
    omega
  have hrank_mx : rank measure mx = q.length := by
    rw [rank_perm hperm mx]
    unfold rank
    rw [List.filter_cons_of_neg (by simp)]
    rw [List.filter_eq_self.mpr (by intro y hy; simpa using hlt y hy), hlen]
  have hrank : ∀ m ∈ measure.erase mx, rank measure m = rank (measure.erase mx) m ∧ rank (measure.erase mx) m < q.length := by
    intro m hm
    constructor
    · rw [rank_perm hperm m]
      unfold rank
      rw [List.filter_cons_of_neg (by have := hlt m hm; simp; omega)]
    · unfold rank
      rw [← hlen]
      apply List.length_filter_lt_length_iff_exists.mpr
      exact ⟨m, hm, by simp⟩
  unfold selOf
  refine (hperm.map _).trans ?_
  rw [List.map_cons]
  have e1 : (q ++ [l]).getD (rank measure mx) 0 = l := by
    rw [hrank_mx, List.getD_eq_getElem?_getD, List.getElem?_append_right (le_refl _)]
    simp
  rw [e1]
  refine List.Perm.cons _ ?_
  apply List.Perm.of_eq
  apply List.map_congr_left
  intro m hm
  obtain ⟨h1, h2⟩ := hrank m hm
  rw [h1, List.getD_eq_getElem?_getD, List.getElem?_append_left h2, ← List.getD_eq_getElem?_getD]

/-- **normalisation as a flat list sum**: the entries of the vector `measure_fock` hands to `choice` (before the
division) sum to the trace of the state — for every register size, cutoff and list of distinct measured modes -/
theorem fockDist_sum (D n k : Nat) : ∀ (measure : List Nat), measure.length = k → measure.Nodup →
    (∀ m ∈ measure, m < n) → ∀ ρ : Tens K, (fockDist D n measure ρ).sum = bornProb D n ρ [] := by
  induction k with
  | zero =>
    intro measure hk _ _ ρ
    have hm : measure = [] := List.length_eq_zero_iff.mp hk
    subst hm
    have := reducedDiag_eq_bornProb D n [] List.nodup_nil (by simp) ρ (unIndex 0 0 D) (by simp [unIndex])
    simpa [fockDist] using this
  | succ k ih =>
    intro measure hk hnd hlt ρ
    have hne : measure ≠ [] := by intro h; rw [h] at hk; simp at hk
    obtain ⟨mx, hmx, hmax⟩ := exists_max measure hne
    have hperm : measure.Perm (mx :: measure.erase mx) := List.perm_cons_erase hmx
    have hlen' : (measure.erase mx).length = k := by
      have := hperm.length_eq
      simp at this
      omega
    have hnd' : (measure.erase mx).Nodup := hnd.erase mx
    have hlt' : ∀ m ∈ measure.erase mx, m < n := fun m hm => hlt m (List.mem_of_mem_erase hm)
    have hnot : mx ∉ measure.erase mx := by
      have := hperm.nodup_iff.mp hnd
      rw [List.nodup_cons] at this
      exact this.1
    unfold fockDist
    rw [sum_map_range, hk, pow_succ, sumTo_mul]
    rw [← ih (measure.erase mx) hlen' hnd' hlt' ρ]
    unfold fockDist
    rw [sum_map_range, hlen']
    refine sumTo_congr fun h _ => ?_
    have hq : (unIndex h k D).length = k := by simp [unIndex]
    rw [reducedDiag_eq_bornProb D n (measure.erase mx) hnd' hlt' ρ _ (by rw [hq, hlen'])]
    rw [← bornProb_marginal D n ρ _ mx (hlt mx hmx) (by rw [show (fun m => (m, (unIndex h k D).getD (rank (measure.erase mx) m) 0))
      = fun m => (m, (unIndex h k D).getD (rank (measure.erase mx) m) 0) from rfl]; simpa [List.map_map, Function.comp] using hnot)]
    refine sumTo_congr fun l hl => ?_
    rw [unIndex_snoc h l k D hl, reducedDiag_eq_bornProb D n measure hnd hlt ρ _ (by simp [hq, hk])]
    exact bornProb_perm D n ρ (selOf_snoc measure hnd mx hmx hmax _ l (by rw [hq, hk]))
      (by have := selOf_modes measure (unIndex h k D ++ [l]); unfold selOf at this; rw [this]; exact hnd)

end flat

end SFV.Meas

/-! ### Fock homodyne grid and Hermite table -/

namespace SFV.Meas

section hermite
variable {K : Type} [Field K]

theorem linspace_first (q : K) (nb : Nat) : linspacePt q nb 0 = -q := by
  simp [linspacePt]

theorem linspace_step (q : K) (nb k : Nat) :
    linspacePt q nb (k + 1) - linspacePt q nb k = (q + q) / ((nb : K) - 1) := by
  simp only [linspacePt, Nat.cast_add, Nat.cast_one]
  ring

theorem linspace_last (q : K) (nb : Nat) (hnb : 1 ≤ nb) (h : (nb : K) - 1 ≠ 0) :
    linspacePt q nb (nb - 1) = q := by
  simp only [linspacePt, Nat.cast_sub hnb, Nat.cast_one]
  field_simp
  ring

theorem linspace_symm (q : K) (nb k : Nat) (hk : k ≤ nb - 1) (hnb : 1 ≤ nb) (h : (nb : K) - 1 ≠ 0) :
    linspacePt q nb (nb - 1 - k) = -linspacePt q nb k := by
  simp only [linspacePt, Nat.cast_sub hk, Nat.cast_sub hnb, Nat.cast_one]
  field_simp
  ring

theorem hermiteAt_neg (x : K) : ∀ n, hermiteAt (-x) n = (-1) ^ n * hermiteAt x n := by
  intro n
  induction n using Nat.twoStepInduction with
  | zero => simp [hermiteAt]
  | one => simp [hermiteAt]
  | more n ih0 ih1 =>
    simp only [hermiteAt, ih0, ih1, pow_succ]
    ring

end hermite

end SFV.Meas

/-! ### peaks with complex means -/

namespace SFV.Meas
open SFV.Gauss SFV.Gauss.Cx SFV.Fock

section cxmean
variable {K : Type} [CommRing K]

theorem sumTo_re (k : Nat) (f : Nat → Cx K) : (sumTo k f).re = sumTo k fun a => (f a).re := by
  induction k with
  | zero => rfl
  | succ k ih => simp only [sumTo, Cx.add_re, ih]

theorem sumTo_sub (k : Nat) (f g : Nat → K) : sumTo k (fun a => f a - g a) = sumTo k f - sumTo k g := by
  induction k with
  | zero => simp [sumTo]
  | succ k ih => simp only [sumTo, ih]; ring

/-- the real part of the complex exponent is the real-mean form minus the form of the imaginary part of the mean -/
theorem quadFormCx_re (W : Mat K) (d m : Vec K) (k : Nat) :
    (quadFormCx W d m k).re = quadForm W d k - quadForm W m k := by
  unfold quadFormCx quadForm
  rw [sumTo_re, ← sumTo_sub]
  refine sumTo_congr fun a _ => ?_
  rw [sumTo_re, ← sumTo_sub]
  refine sumTo_congr fun b _ => ?_
  simp only [Cx.mul_re, Cx.mul_im, Cx.ofK_re, Cx.ofK_im, Cx.mk_re, Cx.mk_im]
  ring

end cxmean

end SFV.Meas
