import SFV.Model.TdmNames
import SFV.Proofs.IoIR
/-! K7 lemmas: resolving a loop variable by name is resolving it by index. -/
namespace SFV.Tdm
open SFV.Io (pName ptypeIndex ptypeIndex_pName)

theorem pName_inj {i j : Nat} (h : pName i = pName j) : i = j := by
  have := congrArg ptypeIndex h
  rw [ptypeIndex_pName, ptypeIndex_pName] at this
  exact Option.some.inj this

theorem find_zipIdx_pName (l : List (List Int)) : ∀ (k i : Nat), k ≤ i → i - k < l.length →
    ((l.zipIdx k).map fun x => (pName x.2, x.1)).find? (fun kv => kv.1 == pName i) =
      some (pName i, l.getD (i - k) []) := by
  induction l with
  | nil => intro k i _ h; simp at h
  | cons a l ih =>
    intro k i hk hi
    simp only [List.zipIdx_cons, List.map_cons, List.find?_cons]
    by_cases e : k = i
    · subst e; simp
    · have hne : (pName k == pName i) = false := by
        simp only [beq_eq_false_iff_ne, ne_eq]
        exact fun h => e (pName_inj h)
      simp only [hne]
      have := ih (k + 1) i (by omega) (by simp only [List.length_cons] at hi; omega)
      rw [this]
      have e2 : i - k = (i - (k + 1)) + 1 := by omega
      rw [e2]; simp [List.getD_eq_getElem?_getD]

/-- **the name of the `i`-th loop variable denotes the `i`-th parameter array**, for every number of
arrays (multi-digit indices, names that are prefixes of one another) -/
theorem lookupName_pName (cfg : Cfg) (i : Nat) (h : i < cfg.params.length) :
    lookupName (parametersDict cfg) (pName i) = some (cfg.params.getD i []) := by
  unfold lookupName parametersDict
  rw [find_zipIdx_pName cfg.params 0 i (Nat.zero_le _) (by simpa using h)]
  simp

theorem resolve_eq_named (cfg : Cfg) (t i : Nat) (h : i < cfg.params.length) :
    resolveNamed cfg t (pName i) = some ((cfg.params.getD i []).getD (t % cfg.timebins) 0) ∧
    resolve cfg t (.var i) = .const ((resolveNamed cfg t (pName i)).getD 0) := by
  have : resolveNamed cfg t (pName i) = some ((cfg.params.getD i []).getD (t % cfg.timebins) 0) := by
    simp [resolveNamed, lookupName_pName cfg i h]
  exact ⟨this, by simp [this, resolve]⟩

end SFV.Tdm
