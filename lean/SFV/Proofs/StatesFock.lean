import SFV.Model.States
import SFV.Proofs.FockTensor
import Mathlib.Data.List.Sort
import Mathlib.Data.List.Perm.Basic
import Mathlib.Tactic.Ring

/-! Lemmas for the Fock part of `SFV.Model.States`: the role loop of `reduced_dm` / `FockBackend.state`,
the `argsort` transposition, and the diagonal expectations as sums over all Fock indices. -/
namespace SFV.States
open SFV.Fock

variable {K : Type}

/-- `reduced_dm(modes)` for an ascending in-range mode list is the reduced state of exactly these modes -/
theorem fockReducedDm_subset [Zero K] [Add K] (D n : Nat) (modes : List Nat) (ρ : Tens K) (hρ : RankLe (2 * n) ρ)
    (hs : modes.Pairwise (· < ·)) (hr : ∀ m ∈ modes, m < n) :
    ∃ T, fockReducedDm D n modes ρ = .ok (modes.length, T) ∧ ∀ idx, T idx = reducedSpec D n modes ρ idx := by
  sorry

/-- … and every other mode list (unsorted, duplicated, out of range) is rejected -/
theorem fockReducedDm_raises [Zero K] [Add K] (D n : Nat) (modes : List Nat) (ρ : Tens K)
    (h : ¬ (modes.Pairwise (· < ·) ∧ ∀ m ∈ modes, m < n)) :
    fockReducedDm D n modes ρ = .error .valueError := by
  sorry

/-- `FockBackend.state(modes)` for any duplicate-free in-range mode list, in any order -/
theorem fockBackendState_order [Zero K] [Add K] [Mul K] (cj : K → K) (D n : Nat) (pure : Bool) (modes : List Nat)
    (st : Tens K) (hd : modes.Nodup) (hr : ∀ m ∈ modes, m < n) :
    ∃ T, fockBackendState cj D n pure (some modes) st = .ok (false, modes.length, T) ∧
      ∀ idx, T idx = reducedSpec D n modes (if pure then mix cj st else st) idx := by
  sorry

/-- … and duplicated / out-of-range lists are rejected -/
theorem fockBackendState_raises [Zero K] [Add K] [Mul K] (cj : K → K) (D n : Nat) (pure : Bool) (modes : List Nat)
    (st : Tens K) (h : ¬ (modes.Nodup ∧ ∀ m ∈ modes, m < n)) :
    fockBackendState cj D n pure (some modes) st = .error .valueError := by
  sorry

/-- `diagonal_expectation(modes, values)` is `Σ_n (Π_{m ∈ modes} values n_m) p(n)` with `p = all_fock_probs()`;
`re` is additive (it is the real part) -/
theorem diagonalExpectation_sum [CommSemiring K] (nsq re : K → K) (D n : Nat) (pure : Bool) (modes : List Nat)
    (values : Nat → K) (st : Tens K) (hd : modes.Nodup) (hr : ∀ m ∈ modes, m < n) :
    diagonalExpectation nsq re D n pure modes values st
      = .ok (diagonalSpec D n modes values (if pure then probsPure nsq st else probsMixed re st)) := by
  sorry

/-- `mean_photon(mode)[0]` is `Σ_n n_mode p(n)`, i.e. `number_expectation([mode])[0]` (mixed representation) -/
theorem fockMeanPhoton_sum [CommSemiring K] [Sub K] (re : K → K) (nat : Nat → K) (hre0 : re 0 = 0)
    (hre : ∀ a b, re (a + b) = re a + re b) (hnat : ∀ v a, re (nat v * a) = nat v * re a)
    (D n mode : Nat) (ρ : Tens K) (hρ : RankLe (2 * n) ρ) (hm : mode < n) :
    ∃ var, fockMeanPhoton re nat D n mode ρ
      = .ok (diagonalSpec D n [mode] nat (probsMixed re ρ), var) := by
  sorry

end SFV.States
