import SFV.Model.States
import SFV.Proofs.FockTensor
import Mathlib.Data.List.Sort
import Mathlib.Data.List.Perm.Basic
import Mathlib.Tactic.Ring

/-! Lemmas for the Fock part of `SFV.Model.States`: the role loop of `reduced_dm` / `FockBackend.state`,
the `argsort` transposition, and the diagonal expectations as sums over all Fock indices. -/
namespace SFV.States
open SFV.Fock

/-- number of elements of `modes` below `m` (for a duplicate-free list) -/
def rankIn (modes : List Nat) (m : Nat) : Nat := ((List.range m).filter fun x => modes.contains x).length

theorem roleLoop_append (modes l₁ l₂ : List Nat) (ctr : Nat) :
    roleLoop modes (l₁ ++ l₂) ctr
      = roleLoop modes l₁ ctr ++ roleLoop modes l₂ (ctr + (l₁.filter fun x => modes.contains x).length) := by
  induction l₁ generalizing ctr with
  | nil => simp [roleLoop]
  | cons a t ih =>
    by_cases h : modes.contains a = true
    · simp only [List.cons_append, roleLoop, h, if_true, ih, List.filter_cons, List.length_cons]
      congr 3; omega
    · simp only [List.cons_append, roleLoop, h, ih, List.filter_cons]
      simp

theorem roleLoop_length (modes l : List Nat) (ctr : Nat) : (roleLoop modes l ctr).length = l.length := by
  induction l generalizing ctr with
  | nil => rfl
  | cons a t ih => unfold roleLoop; split <;> simp [ih]

theorem keptCount_roleLoop (modes l : List Nat) (ctr : Nat) :
    keptCount (roleLoop modes l ctr) = (l.filter fun x => modes.contains x).length := by
  induction l generalizing ctr with
  | nil => rfl
  | cons a t ih =>
    unfold roleLoop
    by_cases h : modes.contains a = true
    · have := ih (ctr + 1)
      simp only [keptCount] at this ⊢
      rw [if_pos h]
      simp only [List.filter_cons, h, Option.isSome_some, if_true, List.length_cons, this]
    · have := ih ctr
      simp only [keptCount] at this ⊢
      rw [if_neg h]
      simp only [List.filter_cons, h, Option.isSome_none]
      simpa using this

theorem roles_succ (n : Nat) (modes : List Nat) :
    roles (n + 1) modes = roles n modes ++ [if modes.contains n then some (rankIn modes n) else none] := by
  unfold roles rankIn
  rw [List.range_succ, roleLoop_append]
  congr 1
  simp only [roleLoop, Nat.zero_add]
  split <;> rfl

theorem roles_length (n : Nat) (modes : List Nat) : (roles n modes).length = n := by
  unfold roles; rw [roleLoop_length, List.length_range]

theorem roles_getElem? (n : Nat) (modes : List Nat) (m : Nat) :
    (roles n modes)[m]? = if m < n then some (if modes.contains m then some (rankIn modes m) else none) else none := by
  induction n with
  | zero => simp [roles, roleLoop]
  | succ n ih =>
    rw [roles_succ, List.getElem?_append, roles_length, ih]
    by_cases h1 : m < n
    · simp [h1, Nat.lt_succ_of_lt h1]
    · by_cases h2 : m = n
      · subst h2; simp
      · have : ¬ m < n + 1 := by omega
        have h3 : m - n ≠ 0 := by omega
        simp [h1, this, h3]

theorem roles_getD (n : Nat) (modes : List Nat) (m : Nat) :
    (roles n modes).getD m none = if m < n ∧ modes.contains m then some (rankIn modes m) else none := by
  rw [List.getD_eq_getElem?_getD, roles_getElem?]
  by_cases h1 : m < n <;> simp [h1]


theorem keptCount_roles (n : Nat) (modes : List Nat) :
    keptCount (roles n modes) = ((List.range n).filter fun x => modes.contains x).length := by
  unfold roles; rw [keptCount_roleLoop]

theorem filter_range_perm (n : Nat) (modes : List Nat) (hd : modes.Nodup) (hr : ∀ m ∈ modes, m < n) :
    ((List.range n).filter fun x => modes.contains x).Perm modes := by
  apply (List.perm_ext_iff_of_nodup (List.nodup_range.filter _) hd).mpr
  intro a
  simp only [List.mem_filter, List.mem_range, List.contains_iff_mem]
  exact ⟨fun h => h.2, fun h => ⟨hr a h, h⟩⟩

theorem keptCount_roles_of_nodup (n : Nat) (modes : List Nat) (hd : modes.Nodup) (hr : ∀ m ∈ modes, m < n) :
    keptCount (roles n modes) = modes.length := by
  rw [keptCount_roles]; exact (filter_range_perm n modes hd hr).length_eq

theorem length_le_of_nodup_lt (n : Nat) (modes : List Nat) (hd : modes.Nodup) (hr : ∀ m ∈ modes, m < n) :
    modes.length ≤ n := by
  have := hd.length_le_of_subset (l₂ := List.range n) (fun a ha => List.mem_range.mpr (hr a ha))
  simpa using this

/-- the einsum accepts the string only for duplicate-free in-range lists -/
theorem nodup_of_keptCount (n : Nat) (modes : List Nat) (h : keptCount (roles n modes) = modes.length) :
    modes.Nodup ∧ ∀ m ∈ modes, m < n := by
  rw [keptCount_roles] at h
  have hF : ((List.range n).filter fun x => modes.contains x).Nodup := List.nodup_range.filter _
  have hsub : ((List.range n).filter fun x => modes.contains x) ⊆ (modes.filter fun x => decide (x < n)).dedup := by
    intro a ha
    simp only [List.mem_filter, List.mem_range, List.contains_iff_mem] at ha
    simp only [List.mem_dedup, List.mem_filter, decide_eq_true_eq]
    exact ⟨ha.2, ha.1⟩
  have h1 := hF.length_le_of_subset hsub
  have h2 := (List.dedup_sublist (modes.filter fun x => decide (x < n))).length_le
  have h3 := (List.filter_sublist (p := fun x => decide (x < n)) (l := modes)).length_le
  have e3 : modes.filter (fun x => decide (x < n)) = modes :=
    List.filter_sublist.eq_of_length (by omega)
  have e2 : (modes.filter fun x => decide (x < n)).dedup = modes.filter fun x => decide (x < n) :=
    (List.dedup_sublist _).eq_of_length (by omega)
  refine ⟨?_, ?_⟩
  · rw [← e3, ← e2]; exact List.nodup_dedup _
  · have := List.filter_eq_self.mp e3
    intro m hm; simpa using this m hm

theorem rankIn_eq_idxOf (S : List Nat) (hs : S.Pairwise (· < ·)) (m : Nat) (hm : m ∈ S) :
    rankIn S m = S.idxOf m := by
  have hj : S.idxOf m < S.length := List.idxOf_lt_length_of_mem hm
  have hSj : S[S.idxOf m] = m := List.getElem_idxOf hj
  have hnd : S.Nodup := hs.nodup
  have hp : ((List.range m).filter fun x => S.contains x).Perm (S.take (S.idxOf m)) := by
    apply (List.perm_ext_iff_of_nodup (List.nodup_range.filter _) (hnd.sublist (List.take_sublist _ _))).mpr
    intro a
    simp only [List.mem_filter, List.mem_range, List.contains_iff_mem, List.mem_take_iff_getElem]
    have hpw := List.pairwise_iff_getElem.mp hs
    constructor
    · rintro ⟨ham, haS⟩
      obtain ⟨i, hi, rfl⟩ := List.getElem_of_mem haS
      refine ⟨i, ?_, rfl⟩
      rcases Nat.lt_or_ge i (S.idxOf m) with h | h
      · omega
      · rcases Nat.eq_or_lt_of_le h with h | h
        · exfalso; subst h; omega
        · have := hpw _ _ hj hi h; omega
    · rintro ⟨i, hi, rfl⟩
      have hi' : i < S.idxOf m := by omega
      have := hpw _ _ (by omega) hj hi'
      exact ⟨by omega, List.getElem_mem _⟩
  unfold rankIn
  rw [hp.length_eq, List.length_take]; omega


theorem isSortedLe_iff_pairwise (l : List Nat) : isSortedLe l = true ↔ l.Pairwise (· ≤ ·) := by
  fun_induction isSortedLe l with
  | case1 => simp
  | case2 => simp
  | case3 a b t ih =>
    rw [Bool.and_eq_true, ih, decide_eq_true_eq, List.pairwise_cons (a := a)]
    constructor
    · rintro ⟨hab, hp⟩
      refine ⟨?_, hp⟩
      intro x hx
      rcases List.mem_cons.mp hx with rfl | hx
      · exact hab
      · exact Nat.le_trans hab ((List.pairwise_cons.mp hp).1 x hx)
    · rintro ⟨h1, hp⟩
      exact ⟨h1 b (List.mem_cons_self), hp⟩

theorem tracedOf_roles (n : Nat) (modes : List Nat) :
    tracedOf (roles n modes) = (List.range n).filter fun m => !modes.contains m := by
  unfold tracedOf; rw [roles_length]
  apply List.filter_congr
  intro m hm
  rw [roles_getD]
  have := List.mem_range.mp hm
  by_cases h : m ∈ modes <;> simp [h, this]

theorem readRole_roles (n : Nat) (modes : List Nat) (hr : ∀ m ∈ modes, m < n) (idx : Idx) :
    readRole (roles n modes) idx
      = fun a => if modes.contains (a / 2) then idx (2 * rankIn modes (a / 2) + a % 2) else 0 := by
  funext a
  unfold readRole
  rw [roles_getD]
  by_cases h : a / 2 ∈ modes
  · have : a / 2 < n := hr _ h
    simp [h, this]
  · simp [h]

theorem idxOf_range {n m : Nat} (h : m < n) : (List.range n).idxOf m = m := by
  have := List.nodup_range.idxOf_getElem (xs := List.range n) m (by simpa using h)
  simpa using this

/-- `reduced_dm(modes)` for an ascending in-range mode list is the reduced state of exactly these modes -/
theorem fockReducedDm_subset {K : Type} [Zero K] [Add K] (D n : Nat) (modes : List Nat) (ρ : Tens K) (hρ : RankLe (2 * n) ρ)
    (hs : modes.Pairwise (· < ·)) (hr : ∀ m ∈ modes, m < n) :
    ∃ T, fockReducedDm D n modes ρ = .ok (modes.length, T) ∧ ∀ idx, T idx = reducedSpec D n modes ρ idx := by
  have hd : modes.Nodup := hs.nodup
  unfold fockReducedDm
  by_cases h0 : modes = List.range n
  · refine ⟨ρ, by simp [h0], fun idx => ?_⟩
    unfold reducedSpec
    have hnil : ((List.range n).filter fun m => !modes.contains m) = [] := by
      rw [List.filter_eq_nil_iff]; intro a ha; simp [h0, List.mem_range.mp ha]
    rw [hnil]
    show ρ idx = ρ _
    apply hρ
    intro a ha
    have h2 : a / 2 < n := by omega
    have hc : modes.contains (a / 2) = true := by simp [h0, h2]
    rw [if_pos hc, h0, idxOf_range h2]
    congr 1; omega
  · rw [if_neg h0]
    have hsl : isSortedLe modes = true := (isSortedLe_iff_pairwise _).mpr (hs.imp Nat.le_of_lt)
    have hlen := length_le_of_nodup_lt n modes hd hr
    have hk := keptCount_roles_of_nodup n modes hd hr
    refine ⟨einsumRoles D (roles n modes) ρ, ?_, ?_⟩
    · simp [hsl, hk]; omega
    · intro idx
      unfold einsumRoles reducedSpec
      rw [tracedOf_roles, readRole_roles n modes hr]
      congr 1; funext a
      by_cases h : modes.contains (a / 2) = true
      · rw [if_pos h, if_pos h, rankIn_eq_idxOf modes hs _ (List.contains_iff_mem.mp h)]
      · rw [if_neg h, if_neg h]


/-- … and every other mode list (unsorted, duplicated, out of range) is rejected -/
theorem fockReducedDm_raises {K : Type} [Zero K] [Add K] (D n : Nat) (modes : List Nat) (ρ : Tens K)
    (h : ¬ (modes.Pairwise (· < ·) ∧ ∀ m ∈ modes, m < n)) :
    fockReducedDm D n modes ρ = .error .valueError := by
  unfold fockReducedDm
  by_cases h0 : modes = List.range n
  · exfalso; apply h; rw [h0]
    exact ⟨List.pairwise_lt_range, fun m hm => List.mem_range.mp hm⟩
  · rw [if_neg h0]
    by_cases h1 : isSortedLe modes = true
    · by_cases h2 : modes.length > n
      · simp [h1, h2]
      · have hk : keptCount (roles n modes) ≠ modes.length := by
          intro hk
          obtain ⟨hd, hr⟩ := nodup_of_keptCount n modes hk
          apply h
          refine ⟨?_, hr⟩
          have hle := (isSortedLe_iff_pairwise _).mp h1
          exact (hle.and hd).imp (fun hab => Nat.lt_of_le_of_ne hab.1 hab.2)
        simp [h1, h2, hk]
    · simp [h1]

/-- … and duplicated / out-of-range lists are rejected -/
theorem fockBackendState_raises {K : Type} [Zero K] [Add K] [Mul K] (cj : K → K) (D n : Nat) (pure : Bool) (modes : List Nat)
    (st : Tens K) (h : ¬ (modes.Nodup ∧ ∀ m ∈ modes, m < n)) :
    fockBackendState cj D n pure (some modes) st = .error .valueError := by
  unfold fockBackendState
  by_cases h1 : modes.Nodup
  · by_cases h2 : modes.length > n
    · simp [noDup, h1, h2]
    · have hk : keptCount (roles n modes) ≠ modes.length := fun hk => h (nodup_of_keptCount n modes hk)
      simp [noDup, h1, h2, hk]
  · simp [noDup, h1]


/-! ### `argsort` -/

theorem argsort_perm (l : List Nat) : (argsort l).Perm (List.range l.length) :=
  List.mergeSort_perm _ _

theorem argsort_length (l : List Nat) : (argsort l).length = l.length := by
  rw [(argsort_perm l).length_eq, List.length_range]

theorem argsort_lt (l : List Nat) {a : Nat} (h : a ∈ argsort l) : a < l.length :=
  List.mem_range.mp ((argsort_perm l).mem_iff.mp h)

theorem argsort_nodup (l : List Nat) : (argsort l).Nodup :=
  (argsort_perm l).nodup_iff.mpr List.nodup_range

theorem map_getD_range (l : List Nat) : (List.range l.length).map (fun a => l.getD a 0) = l := by
  apply List.ext_getElem
  · simp
  · intro i h1 h2
    rw [List.getElem_map, List.getElem_range, List.getD_eq_getElem l 0 h2]

/-- the keys read through `argsort` are a sorted permutation of the list -/
theorem argsort_map_perm (l : List Nat) : ((argsort l).map fun a => l.getD a 0).Perm l := by
  have := (argsort_perm l).map fun a => l.getD a 0
  rwa [map_getD_range] at this

theorem argsort_map_sorted (l : List Nat) : ((argsort l).map fun a => l.getD a 0).Pairwise (· ≤ ·) := by
  rw [List.pairwise_map]
  have := List.pairwise_mergeSort (le := fun a b => decide (l.getD a 0 ≤ l.getD b 0))
    (fun a b c h1 h2 => by
      simp only [decide_eq_true_eq] at h1 h2 ⊢; exact Nat.le_trans h1 h2)
    (fun a b => by
      simp only [Bool.or_eq_true, decide_eq_true_eq]; exact Nat.le_total _ _)
    (List.range l.length)
  exact this.imp (fun h => by simpa using h)

/-- `argsort` of a permutation of `range N` is the inverse permutation -/
theorem argsort_inv (p : List Nat) (N : Nat) (hp : p.Perm (List.range N)) (a : Nat) (ha : a < N) :
    (argsort p).idxOf a = p.getD a 0 := by
  have hN : p.length = N := by rw [hp.length_eq, List.length_range]
  have hpn : p.Nodup := hp.nodup_iff.mpr List.nodup_range
  have hid : ((argsort p).map fun a => p.getD a 0) = List.range N :=
    List.Perm.eq_of_pairwise (le := (· ≤ ·)) (fun a b _ _ h1 h2 => Nat.le_antisymm h1 h2)
      (argsort_map_sorted p) List.pairwise_le_range ((argsort_map_perm p).trans hp)
  have hap : a < p.length := by omega
  have hj : p[a] < N := List.mem_range.mp (hp.mem_iff.mp (List.getElem_mem hap))
  have hjq : p[a] < (argsort p).length := by rw [argsort_length]; omega
  have hq : (argsort p)[p[a]] < p.length := argsort_lt p (List.getElem_mem hjq)
  have h1 : p[(argsort p)[p[a]]] = p[a] := by
    have : ((argsort p).map fun a => p.getD a 0).getD p[a] 0 = (List.range N).getD p[a] 0 := by rw [hid]
    rw [List.getD_eq_getElem _ 0 (by simpa using hjq), List.getD_eq_getElem _ 0 (by simpa using hj),
      List.getElem_map, List.getElem_range, List.getD_eq_getElem _ 0 hq] at this
    exact this
  have h2 : (argsort p)[p[a]] = a := hpn.getElem_inj_iff.mp h1
  rw [List.getD_eq_getElem _ 0 hap]
  conv_lhs => rw [← h2]
  exact (argsort_nodup p).idxOf_getElem _ hjq


theorem indexPerm_range (k : Nat) : indexPerm (List.range k) = List.range (2 * k) := by
  induction k with
  | zero => rfl
  | succ k ih =>
    unfold indexPerm at ih ⊢
    rw [List.range_succ, List.flatMap_append, ih]
    have : 2 * (k + 1) = 2 * k + 1 + 1 := by omega
    rw [this, List.range_succ, List.range_succ]
    simp

theorem indexPerm_perm (σ : List Nat) (k : Nat) (h : σ.Perm (List.range k)) :
    (indexPerm σ).Perm (List.range (2 * k)) := by
  rw [← indexPerm_range]; exact h.flatMap_right _

theorem indexPerm_getD (σ : List Nat) (c b : Nat) (hc : c < σ.length) (hb : b < 2) :
    (indexPerm σ).getD (2 * c + b) 0 = 2 * σ.getD c 0 + b := by
  induction σ generalizing c with
  | nil => simp at hc
  | cons x t ih =>
    cases c with
    | zero =>
      rcases (by omega : b = 0 ∨ b = 1) with rfl | rfl <;> simp [indexPerm]
    | succ c =>
      have : 2 * (c + 1) + b = (2 * c + b) + 1 + 1 := by omega
      rw [this]
      have := ih c (by simpa using hc)
      simpa [indexPerm] using this

/-- the `c`-th smallest entry of a duplicate-free list sits where `argsort` says -/
theorem argsort_rank (modes : List Nat) (hd : modes.Nodup) (m : Nat) (hm : m ∈ modes) :
    rankIn modes m < modes.length ∧ (argsort modes).getD (rankIn modes m) 0 = modes.idxOf m := by
  have hperm : ((argsort modes).map fun a => modes.getD a 0).Perm modes := argsort_map_perm modes
  generalize hS : ((argsort modes).map fun a => modes.getD a 0) = S at hperm
  have hSd : S.Nodup := hperm.nodup_iff.mpr hd
  have hSs : S.Pairwise (· < ·) := by
    have := argsort_map_sorted modes
    rw [hS] at this
    exact (this.and hSd).imp (fun h => Nat.lt_of_le_of_ne h.1 h.2)
  have hmS : m ∈ S := hperm.mem_iff.mpr hm
  have hrank : rankIn modes m = S.idxOf m := by
    rw [← rankIn_eq_idxOf S hSs m hmS]
    unfold rankIn
    congr 1
    apply List.filter_congr
    intro x _
    exact (hperm.contains_eq).symm
  have hlen : S.length = modes.length := hperm.length_eq
  have hc : S.idxOf m < S.length := List.idxOf_lt_length_of_mem hmS
  have hSc : S[S.idxOf m] = m := List.getElem_idxOf hc
  rw [hrank]
  generalize S.idxOf m = c at hc hSc
  refine ⟨by omega, ?_⟩
  have hcq : c < (argsort modes).length := by rw [argsort_length]; omega
  rw [List.getD_eq_getElem _ 0 hcq]
  have hq : (argsort modes)[c] < modes.length := argsort_lt modes (List.getElem_mem hcq)
  have h1 : modes[(argsort modes)[c]] = m := by
    rw [← hSc]
    subst hS
    rw [List.getElem_map, List.getD_eq_getElem _ 0 hq]
  rw [← h1]
  exact (hd.idxOf_getElem _ hq).symm


theorem einsumRoles_roles {K : Type} [Zero K] [Add K] (D n : Nat) (modes : List Nat) (ρ : Tens K)
    (hr : ∀ m ∈ modes, m < n) (idx : Idx) :
    einsumRoles D (roles n modes) ρ idx
      = traceOver D ((List.range n).filter fun m => !modes.contains m) ρ
          (fun a => if modes.contains (a / 2) then idx (2 * rankIn modes (a / 2) + a % 2) else 0) := by
  unfold einsumRoles
  rw [tracedOf_roles, readRole_roles n modes hr]

/-- `FockBackend.state(modes)` for any duplicate-free in-range mode list, in any order -/
theorem fockBackendState_order {K : Type} [Zero K] [Add K] [Mul K] (cj : K → K) (D n : Nat) (pure : Bool) (modes : List Nat)
    (st : Tens K) (hd : modes.Nodup) (hr : ∀ m ∈ modes, m < n) :
    ∃ T, fockBackendState cj D n pure (some modes) st = .ok (false, modes.length, T) ∧
      ∀ idx, T idx = reducedSpec D n modes (if pure then mix cj st else st) idx := by
  have hlen := length_le_of_nodup_lt n modes hd hr
  have hk := keptCount_roles_of_nodup n modes hd hr
  by_cases hsl : isSortedLe modes = true
  · refine ⟨einsumRoles D (roles n modes) (if pure then mix cj st else st), ?_, ?_⟩
    · simp [fockBackendState, noDup, hd, hk, hsl]; omega
    · intro idx
      have hs : modes.Pairwise (· < ·) :=
        (((isSortedLe_iff_pairwise _).mp hsl).and hd).imp (fun h => Nat.lt_of_le_of_ne h.1 h.2)
      rw [einsumRoles_roles D n modes _ hr]
      unfold reducedSpec
      congr 1; funext a
      by_cases h : modes.contains (a / 2) = true
      · rw [if_pos h, if_pos h, rankIn_eq_idxOf modes hs _ (List.contains_iff_mem.mp h)]
      · rw [if_neg h, if_neg h]
  · refine ⟨trList (argsort (indexPerm (argsort modes)))
      (einsumRoles D (roles n modes) (if pure then mix cj st else st)), ?_, ?_⟩
    · simp [fockBackendState, noDup, hd, hk, hsl]; omega
    · intro idx
      unfold trList tr
      rw [einsumRoles_roles D n modes _ hr]
      unfold reducedSpec
      congr 1; funext a
      by_cases h : modes.contains (a / 2) = true
      · rw [if_pos h, if_pos h]
        obtain ⟨hc, hσ⟩ := argsort_rank modes hd (a / 2) (List.contains_iff_mem.mp h)
        have hpp := indexPerm_perm (argsort modes) modes.length (argsort_perm modes)
        have hL : (argsort (indexPerm (argsort modes))).length = 2 * modes.length := by
          rw [argsort_length, hpp.length_eq, List.length_range]
        have hb : a % 2 < 2 := Nat.mod_lt _ (by omega)
        rw [hL]
        beta_reduce
        rw [if_pos (by omega), argsort_inv _ _ hpp _ (by omega),
          indexPerm_getD _ _ _ (by rw [argsort_length]; exact hc) hb, hσ]
      · rw [if_neg h, if_neg h]


/-! ### sums over axes -/

theorem sumOver_perm {K : Type} [AddCommMonoid K] (D : Nat) {l₁ l₂ : List Nat} (h : l₁.Perm l₂) (f : Idx → K)
    (idx : Idx) : sumOver D l₁ f idx = sumOver D l₂ f idx := by
  induction h generalizing idx with
  | nil => rfl
  | cons x _ ih => simp only [sumOver]; exact sumTo_congr fun v _ => ih _
  | swap x y l =>
    simp only [sumOver, sumTo_eq_sum]
    by_cases hxy : x = y
    · subst hxy; rfl
    · rw [Finset.sum_comm]
      refine Finset.sum_congr rfl fun a _ => Finset.sum_congr rfl fun b _ => ?_
      rw [upd_comm _ (Ne.symm hxy)]
  | trans _ _ ih1 ih2 => rw [ih1, ih2]

theorem traceOver_eq_sumOver {K : Type} [Zero K] [Add K] (D : Nat) (l : List Nat) (f : Idx → K) (j : Idx) :
    traceOver D l f (fun a => j (a / 2)) = sumOver D l (fun j => f (fun a => j (a / 2))) j := by
  induction l generalizing j with
  | nil => rfl
  | cons m ms ih =>
    simp only [traceOver, sumOver]
    congr 1; funext v
    rw [← ih]
    congr 1; funext a
    simp only [upd]
    split_ifs <;> first | rfl | omega

theorem re_sumTo {K : Type} [Zero K] [Add K] (re : K → K) (hre0 : re 0 = 0)
    (hre : ∀ a b, re (a + b) = re a + re b) (D : Nat) (g : Nat → K) :
    re (sumTo D g) = sumTo D fun v => re (g v) := by
  induction D with
  | zero => exact hre0
  | succ D ih => simp only [sumTo]; rw [hre, ih]

theorem re_traceOver {K : Type} [Zero K] [Add K] (re : K → K) (hre0 : re 0 = 0)
    (hre : ∀ a b, re (a + b) = re a + re b) (D : Nat) (l : List Nat) (f : Idx → K) (idx : Idx) :
    re (traceOver D l f idx) = traceOver D l (fun i => re (f i)) idx := by
  induction l generalizing idx with
  | nil => rfl
  | cons m ms ih =>
    simp only [traceOver]
    rw [re_sumTo re hre0 hre]
    congr 1; funext v; exact ih _

theorem sumOver_mul_left {K : Type} [CommSemiring K] (D : Nat) (l : List Nat) (m : Nat) (hm : m ∉ l)
    (c : Nat → K) (G : Idx → K) (j : Idx) :
    sumOver D l (fun i => c (i m) * G i) j = c (j m) * sumOver D l G j := by
  induction l generalizing j with
  | nil => rfl
  | cons x xs ih =>
    simp only [sumOver, sumTo_eq_sum]
    rw [Finset.mul_sum]
    refine Finset.sum_congr rfl fun v _ => ?_
    have hmx : m ≠ x := fun h => hm (by rw [h]; exact List.mem_cons_self)
    rw [ih (fun h => hm (List.mem_cons_of_mem _ h)), upd_other _ hmx]


/-- `mean_photon(mode)[0]` is `Σ_n n_mode p(n)`, i.e. `number_expectation([mode])[0]` (mixed representation) -/
theorem fockMeanPhoton_sum {K : Type} [CommSemiring K] [Sub K] (re : K → K) (nat : Nat → K) (hre0 : re 0 = 0)
    (hre : ∀ a b, re (a + b) = re a + re b) (hnat : ∀ v a, re (nat v * a) = nat v * re a)
    (D n mode : Nat) (ρ : Tens K) (hρ : RankLe (2 * n) ρ) (hm : mode < n) :
    ∃ var, fockMeanPhoton re nat D n mode ρ
      = .ok (diagonalSpec D n [mode] nat (probsMixed re ρ), var) := by
  obtain ⟨T, hT, hTs⟩ := fockReducedDm_subset D n [mode] ρ hρ (by simp) (by simpa using hm)
  have hmean : re (sumTo D fun v => nat v * T (fun _ => v)) = diagonalSpec D n [mode] nat (probsMixed re ρ) := by
    rw [re_sumTo re hre0 hre]
    unfold diagonalSpec
    have hperm : (List.range n).Perm (mode :: (List.range n).filter fun m => !([mode] : List Nat).contains m) := by
      apply (List.perm_ext_iff_of_nodup List.nodup_range ?_).mpr
      · intro a
        simp only [List.mem_range, List.mem_cons, List.mem_filter]
        by_cases h : a = mode
        · subst h; simp [hm]
        · simp [h]
      · rw [List.nodup_cons]
        exact ⟨by simp, List.nodup_range.filter _⟩
    rw [sumOver_perm D hperm]
    simp only [sumOver]
    refine sumTo_congr fun v _ => ?_
    rw [hnat, hTs]
    unfold reducedSpec
    rw [re_traceOver re hre0 hre]
    have hbase : (fun a => if ([mode] : List Nat).contains (a / 2)
        then (fun _ : Nat => v) (2 * ([mode] : List Nat).idxOf (a / 2) + a % 2) else 0)
        = fun a => (upd (fun _ => 0) mode v) (a / 2) := by
      funext a; simp [upd]
    rw [hbase, traceOver_eq_sumOver]
    have hnotin : mode ∉ (List.range n).filter fun m => !([mode] : List Nat).contains m := by simp
    have := sumOver_mul_left D _ mode hnotin nat (fun j => re (ρ (fun a => j (a / 2)))) (upd (fun _ => 0) mode v)
    rw [upd_self_p] at this
    rw [← this]
    congr 1; funext idx; simp [probsMixed]
  refine ⟨re (sumTo D fun v => nat (v * v) * T (fun _ => v))
    - diagonalSpec D n [mode] nat (probsMixed re ρ) * diagonalSpec D n [mode] nat (probsMixed re ρ), ?_⟩
  unfold fockMeanPhoton
  rw [hT]
  show Except.ok (_, _) = _
  rw [hmean]

/-! ### `diagonal_expectation` -/

theorem iter_succ' {α : Type} (f : α → α) (k : Nat) (x : α) : iter f (k + 1) x = f (iter f k x) := by
  induction k generalizing x with
  | zero => rfl
  | succ k ih => show iter f (k + 1) (f x) = _; rw [ih]; rfl

/-- prepend the value `v` as axis 0 -/
def consIdx (v : Nat) (j : Idx) : Idx := fun a => if a = 0 then v else j (a - 1)

/-- `Π_{m ∈ l} values (j m)` -/
def wprod {K : Type} [One K] [Mul K] (values : Nat → K) (l : List Nat) (j : Idx) : K :=
  l.foldr (fun m acc => values (j m) * acc) 1

theorem wprod_perm {K : Type} [CommSemiring K] (values : Nat → K) {l₁ l₂ : List Nat} (h : l₁.Perm l₂) (j : Idx) :
    wprod values l₁ j = wprod values l₂ j := by
  induction h with
  | nil => rfl
  | cons x _ ih => simp only [wprod, List.foldr_cons] at ih ⊢; rw [ih]
  | swap x y l => simp only [wprod, List.foldr_cons]; ring
  | trans _ _ ih1 ih2 => rw [ih1, ih2]

theorem wprod_map {K : Type} [One K] [Mul K] (values : Nat → K) (l : List Nat) (φ : Nat → Nat) (j : Idx) :
    wprod values (l.map φ) j = wprod values l (fun a => j (φ a)) := by
  induction l with
  | nil => rfl
  | cons x xs ih => simp only [wprod, List.map_cons, List.foldr_cons] at ih ⊢; rw [ih]

theorem sumOver_map_succ {K : Type} [Zero K] [Add K] (D : Nat) (l : List Nat) (F : Idx → K) (v : Nat) (j : Idx) :
    sumOver D (l.map Nat.succ) F (consIdx v j) = sumOver D l (fun j => F (consIdx v j)) j := by
  induction l generalizing j with
  | nil => rfl
  | cons x xs ih =>
    simp only [List.map_cons, sumOver]
    congr 1; funext w
    rw [← ih]; congr 1
    funext a
    simp only [upd, consIdx, Nat.succ_eq_add_one]
    split_ifs <;> first | rfl | omega

theorem sumOver_sumTo {K : Type} [AddCommMonoid K] (D : Nat) (l : List Nat) (g : Idx → Nat → K) (i : Idx) :
    sumOver D l (fun j => sumTo D (g j)) i = sumTo D fun v => sumOver D l (fun j => g j v) i := by
  induction l generalizing i with
  | nil => rfl
  | cons x xs ih =>
    simp only [sumOver, ih]
    simp only [sumTo_eq_sum]
    exact Finset.sum_comm

theorem sumOver_congr {K : Type} [Zero K] [Add K] (D : Nat) (l : List Nat) {f g : Idx → K} (h : ∀ i, f i = g i)
    (idx : Idx) : sumOver D l f idx = sumOver D l g idx := by
  rw [funext h]

theorem iter_contract0 {K : Type} [CommSemiring K] (D : Nat) (values : Nat → K) (k : Nat) (ps : Tens K) :
    iter (contract0 D values) k ps (fun _ => 0)
      = sumOver D (List.range k) (fun j => wprod values (List.range k) j * ps j) (fun _ => 0) := by
  induction k generalizing ps with
  | zero => simp [iter, sumOver, wprod]
  | succ k ih =>
    show iter (contract0 D values) k (contract0 D values ps) (fun _ => 0) = _
    rw [ih, List.range_succ_eq_map]
    simp only [sumOver]
    have h0 : ∀ v, upd (fun _ => 0) 0 v = consIdx v (fun _ => 0) := by
      intro v; funext a; simp only [upd, consIdx]
    simp only [h0, sumOver_map_succ]
    rw [← sumOver_sumTo]
    apply sumOver_congr
    intro j
    simp only [contract0, sumTo_eq_sum, Finset.mul_sum]
    refine Finset.sum_congr rfl fun v _ => ?_
    have e1 : (fun a => if a = 0 then v else j (a - 1)) = consIdx v j := rfl
    have e2 : wprod values (0 :: (List.range k).map Nat.succ) (consIdx v j) = values v * wprod values (List.range k) j := by
      show values (consIdx v j 0) * wprod values ((List.range k).map Nat.succ) (consIdx v j) = _
      rw [wprod_map]; rfl
    rw [e1, e2]; ring


/-- `H` does not read the axes in `E` -/
def Ignores {K : Type} (E : List Nat) (H : Idx → K) : Prop :=
  ∀ i i' : Idx, (∀ a, a ∉ E → i a = i' a) → H i = H i'

theorem ignores_sumOver_self {K : Type} [Zero K] [Add K] (D : Nat) (l : List Nat) (f : Idx → K) :
    Ignores l (sumOver D l f) := by
  induction l with
  | nil => intro i i' h; have : i = i' := funext fun a => h a (by simp); rw [this]
  | cons x xs ih =>
    intro i i' h
    simp only [sumOver]
    congr 1; funext v
    apply ih
    intro a ha
    unfold upd
    split
    · rfl
    · rename_i hax; exact h a (by simp [hax, ha])

theorem ignores_sumOver {K : Type} [Zero K] [Add K] (D : Nat) (l E : List Nat) (H : Idx → K) (hH : Ignores E H) :
    Ignores E (sumOver D l H) := by
  induction l with
  | nil => exact hH
  | cons x xs ih =>
    intro i i' h
    simp only [sumOver]
    congr 1; funext v
    apply ih
    intro a ha
    unfold upd
    split
    · rfl
    · exact h a ha

theorem sumOver_reindex {K : Type} [Zero K] [Add K] (D : Nat) (E l : List Nat) (φ : Nat → Nat) (H : Idx → K)
    (hH : Ignores E H) (hφ : ∀ x ∈ l, ∀ a, a ∉ E → φ a = φ x → a = x) (j0 : Idx) :
    sumOver D (l.map φ) (fun j => H (fun a => j (φ a))) j0 = sumOver D l H (fun a => j0 (φ a)) := by
  induction l generalizing j0 with
  | nil => rfl
  | cons x xs ih =>
    simp only [List.map_cons, sumOver]
    congr 1; funext v
    rw [ih (fun y hy => hφ y (List.mem_cons_of_mem _ hy))]
    apply ignores_sumOver D xs E H hH
    intro a ha
    unfold upd
    by_cases hax : a = x
    · simp [hax]
    · have : φ a ≠ φ x := fun h => hax (hφ x List.mem_cons_self a ha h)
      simp [hax, this]

theorem sumOver_mul_left' {K : Type} [CommSemiring K] (D : Nat) (l : List Nat) (c : Idx → K) (hc : Ignores l c)
    (G : Idx → K) (j : Idx) :
    sumOver D l (fun i => c i * G i) j = c j * sumOver D l G j := by
  induction l generalizing j with
  | nil => rfl
  | cons x xs ih =>
    have hc' : Ignores xs c := fun i i' h => hc i i' fun a ha => h a fun hx => ha (List.mem_cons_of_mem _ hx)
    simp only [sumOver, sumTo_eq_sum]
    rw [Finset.mul_sum]
    refine Finset.sum_congr rfl fun v _ => ?_
    rw [ih hc']
    congr 1
    apply hc
    intro a ha
    unfold upd
    rw [if_neg (fun h => ha (by rw [h]; exact List.mem_cons_self))]

theorem wprod_ignores {K : Type} [One K] [Mul K] (values : Nat → K) (modes E : List Nat) (h : ∀ m ∈ modes, m ∉ E) :
    Ignores E (wprod values modes) := by
  induction modes with
  | nil => intro i i' _; rfl
  | cons x xs ih =>
    intro i i' hi
    show values (i x) * wprod values xs i = values (i' x) * wprod values xs i'
    rw [hi x (h x List.mem_cons_self), ih (fun m hm => h m (List.mem_cons_of_mem _ hm)) i i' hi]

theorem sumOver_append {K : Type} [Zero K] [Add K] (D : Nat) (l₁ l₂ : List Nat) (f : Idx → K) (idx : Idx) :
    sumOver D (l₁ ++ l₂) f idx = sumOver D l₁ (fun i => sumOver D l₂ f i) idx := by
  induction l₁ generalizing idx with
  | nil => rfl
  | cons x xs ih => simp only [List.cons_append, sumOver, ih]

/-! ### `keptPos` -/

theorem keptPos_succ (traced : List Nat) (a : Nat) (h : a ∉ traced) :
    keptPos traced (a + 1) = keptPos traced a + 1 := by
  unfold keptPos
  rw [List.range_succ, List.filter_append]
  simp [h]

theorem keptPos_mono (traced : List Nat) {a b : Nat} (h : a ≤ b) : keptPos traced a ≤ keptPos traced b := by
  unfold keptPos
  exact ((List.range_sublist.mpr h).filter _).length_le

theorem keptPos_lt (traced : List Nat) {a b : Nat} (h : a < b) (ha : a ∉ traced) :
    keptPos traced a < keptPos traced b := by
  have := keptPos_mono traced (Nat.succ_le_of_lt h)
  rw [Nat.succ_eq_add_one, keptPos_succ traced a ha] at this
  omega

theorem keptPos_tracedModes (n : Nat) (modes : List Nat) (a : Nat) (ha : a ≤ n) :
    keptPos (tracedModes n modes) a = rankIn modes a := by
  unfold keptPos rankIn tracedModes
  congr 1
  apply List.filter_congr
  intro x hx
  have := List.mem_range.mp hx
  have hxn : x < n := by omega
  by_cases hm : x ∈ modes <;> simp [hm, hxn]

theorem filter_map_rank (c : Nat → Bool) (n : Nat) :
    ((List.range n).filter c).map (fun a => ((List.range a).filter c).length)
      = List.range ((List.range n).filter c).length := by
  induction n with
  | zero => rfl
  | succ n ih =>
    rw [List.range_succ, List.filter_append]
    by_cases h : c n = true
    · simp only [List.filter_cons, h, if_true, List.filter_nil, List.map_append, List.map_cons, List.map_nil,
        List.length_append, List.length_cons, List.length_nil, List.range_succ]
      rw [← List.range_succ, ih, List.range_succ]
    · simp only [List.filter_cons, h, List.filter_nil]
      simpa using ih


theorem filter_contains_tracedModes (n : Nat) (modes : List Nat) :
    ((List.range n).filter fun a => (tracedModes n modes).contains a) = tracedModes n modes := by
  unfold tracedModes
  apply List.filter_congr
  intro x hx
  have := List.mem_range.mp hx
  by_cases hm : x ∈ modes <;> simp [hm, this]

/-- the pure branch of `diagonal_expectation` for an arbitrary probability tensor `P` -/
theorem diagonal_pure {K : Type} [CommSemiring K] (D n : Nat) (modes : List Nat) (values : Nat → K) (P : Tens K)
    (hd : modes.Nodup) (hr : ∀ m ∈ modes, m < n) :
    iter (contract0 D values) modes.length (sumAxes D n (tracedModes n modes) P) (fun _ => 0)
      = diagonalSpec D n modes values P := by
  have hSperm := filter_range_perm n modes hd hr
  have hSk := hSperm.length_eq
  have hmap : ((List.range n).filter fun x => modes.contains x).map (keptPos (tracedModes n modes))
      = List.range modes.length := by
    rw [← hSk, ← filter_map_rank]
    apply List.map_congr_left
    intro a ha
    have := (List.mem_filter.mp ha).1
    exact keptPos_tracedModes n modes a (Nat.le_of_lt (List.mem_range.mp this))
  have hdisj : ∀ m ∈ modes, m ∉ tracedModes n modes := by
    intro m hm; simp [tracedModes, hm]
  have hH : Ignores (tracedModes n modes)
      (fun i => wprod values modes i * sumOver D (tracedModes n modes) P i) := by
    intro i i' h
    show _ * _ = _ * _
    rw [wprod_ignores values modes _ hdisj i i' h, ignores_sumOver_self D _ P i i' h]
  have hφ : ∀ x ∈ (List.range n).filter fun x => modes.contains x, ∀ a, a ∉ tracedModes n modes →
      keptPos (tracedModes n modes) a = keptPos (tracedModes n modes) x → a = x := by
    intro x hx a ha he
    have hxm : x ∈ modes := by simpa using (List.mem_filter.mp hx).2
    rcases Nat.lt_trichotomy a x with h | h | h
    · have := keptPos_lt (tracedModes n modes) h ha; omega
    · exact h
    · have := keptPos_lt (tracedModes n modes) h (hdisj x hxm); omega
  have step1 : ∀ j : Idx, wprod values (List.range modes.length) j * sumAxes D n (tracedModes n modes) P j
      = (fun i => wprod values modes i * sumOver D (tracedModes n modes) P i)
          (fun a => j (keptPos (tracedModes n modes) a)) := by
    intro j
    show _ = _ * _
    rw [← hmap, wprod_map, wprod_perm values hSperm]
    unfold sumAxes
    rw [filter_contains_tracedModes]
  rw [iter_contract0, sumOver_congr D _ step1, ← hmap, sumOver_reindex D _ _ _ _ hH hφ]
  unfold diagonalSpec
  have hperm : (List.range n).Perm (((List.range n).filter fun x => modes.contains x) ++ tracedModes n modes) :=
    (List.filter_append_perm _ _).symm
  rw [sumOver_perm D hperm, sumOver_append]
  apply sumOver_congr
  intro i
  exact (sumOver_mul_left' D _ (wprod values modes) (wprod_ignores values modes _ hdisj) P i).symm

/-- the diagonal of a mixed tensor: row = column for every mode -/
def diagT {K : Type} (ps : Tens K) : Tens K := fun j => ps (fun a => j (a / 2))

/-- `q.sum(axis=m)` -/
def sumAxis1 {K : Type} [Zero K] [Add K] (D m : Nat) (q : Tens K) : Tens K :=
  fun j => sumTo D fun v => q (fun b => if b < m then j b else if b = m then v else j (b - 1))

theorem diagT_contractDiag0 {K : Type} [Zero K] [Add K] [Mul K] (D : Nat) (values : Nat → K) (ps : Tens K) :
    diagT (contractDiag0 D values ps) = contract0 D values (diagT ps) := by
  funext j
  simp only [diagT, contractDiag0, contract0]
  congr 1; funext v; congr 2; funext a
  by_cases h : a < 2
  · have : a / 2 = 0 := by omega
    simp [h, this]
  · have h1 : a / 2 ≠ 0 := by omega
    have h2 : (a - 2) / 2 = a / 2 - 1 := by omega
    simp [h, h1, h2]

theorem diagT_iter {K : Type} [Zero K] [Add K] [Mul K] (D : Nat) (values : Nat → K) (k : Nat) (ps : Tens K) :
    diagT (iter (contractDiag0 D values) k ps) = iter (contract0 D values) k (diagT ps) := by
  induction k generalizing ps with
  | zero => rfl
  | succ k ih =>
    show diagT (iter (contractDiag0 D values) k (contractDiag0 D values ps)) = _
    rw [ih, diagT_contractDiag0]; rfl

theorem diagT_tracePair {K : Type} [Zero K] [Add K] (D m : Nat) (ps : Tens K) :
    diagT (tracePair D m ps) = sumAxis1 D m (diagT ps) := by
  funext j
  simp only [diagT, tracePair, sumAxis1]
  congr 1; funext v; congr 1; funext a
  by_cases h1 : a < 2 * m
  · have : a / 2 < m := by omega
    simp [h1, this]
  · by_cases h2 : a < 2 * m + 2
    · have h3 : ¬ a / 2 < m := by omega
      have h4 : a / 2 = m := by omega
      simp [h1, h2, h4]
    · have h3 : ¬ a / 2 < m := by omega
      have h4 : a / 2 ≠ m := by omega
      have h5 : (a - 2) / 2 = a / 2 - 1 := by omega
      simp [h1, h2, h3, h4, h5]

theorem diagT_foldl {K : Type} [Zero K] [Add K] (D : Nat) (l : List Nat) (ps : Tens K) :
    diagT (l.reverse.foldl (fun p m => tracePair D m p) ps) = l.foldr (fun m q => sumAxis1 D m q) (diagT ps) := by
  rw [List.foldl_reverse]
  induction l with
  | nil => rfl
  | cons m ms ih => simp only [List.foldr_cons, diagT_tracePair, ih]

theorem keptPos_of_le (l : List Nat) (a : Nat) (h : ∀ x, x < a → x ∉ l) : keptPos l a = a := by
  unfold keptPos
  have : (List.range a).filter (fun x => !l.contains x) = List.range a := by
    rw [List.filter_eq_self]; intro x hx; simp [h x (List.mem_range.mp hx)]
  rw [this, List.length_range]

theorem keptPos_cons (m : Nat) (rest : List Nat) (a : Nat) (hma : m < a) (hm : m ∉ rest) :
    keptPos rest a = keptPos (m :: rest) a + 1 := by
  unfold keptPos
  have hp : ((List.range a).filter fun x => !rest.contains x).Perm
      (m :: (List.range a).filter fun x => !(m :: rest).contains x) := by
    apply (List.perm_ext_iff_of_nodup (List.nodup_range.filter _) ?_).mpr
    · intro x
      simp only [List.mem_filter, List.mem_range, List.mem_cons, Bool.not_eq_true', List.contains_cons]
      by_cases hx : x = m
      · subst hx; simp [hma, hm]
      · simp [hx]
    · rw [List.nodup_cons]
      exact ⟨by simp, List.nodup_range.filter _⟩
  rw [hp.length_eq, List.length_cons]

theorem foldr_sumAxis1 {K : Type} [Zero K] [Add K] (D : Nat) (l : List Nat) (hl : l.Pairwise (· < ·)) (P : Tens K)
    (j : Idx) :
    l.foldr (fun m q => sumAxis1 D m q) P j = sumOver D l P (fun a => j (keptPos l a)) := by
  induction l generalizing j with
  | nil =>
    show P j = P _
    congr 1; funext a
    rw [keptPos_of_le [] a (by simp)]
  | cons m rest ih =>
    have hm : ∀ x ∈ rest, m < x := (List.pairwise_cons.mp hl).1
    have hmr : m ∉ rest := fun h => Nat.lt_irrefl _ (hm m h)
    simp only [List.foldr_cons, sumOver]
    show (sumTo D fun v => _) = _
    congr 1; funext v
    rw [ih (List.pairwise_cons.mp hl).2]
    apply ignores_sumOver_self
    intro a ha
    have hk1 : ∀ b, b ≤ m + 1 → keptPos rest b = b := fun b hb =>
      keptPos_of_le rest b fun x hx hxr => by have := hm x hxr; omega
    unfold upd
    beta_reduce
    rcases Nat.lt_trichotomy a m with h | h | h
    · have e1 := hk1 a (by omega)
      have e2 : keptPos (m :: rest) a = a := keptPos_of_le _ a fun x hx hxr => by
        rcases List.mem_cons.mp hxr with h' | h'
        · omega
        · have := hm x h'; omega
      rw [e1, if_pos h, if_neg (by omega), e2]
    · subst h
      rw [hk1 a (by omega), if_neg (by omega), if_pos rfl, if_pos rfl]
    · have e1 := keptPos_cons m rest a h hmr
      have e2 : m + 1 ≤ keptPos rest a := by
        have := keptPos_mono rest (show m + 1 ≤ a by omega)
        rw [hk1 (m + 1) (Nat.le_refl _)] at this; exact this
      rw [if_neg (by omega), if_neg (by omega), if_neg (by omega)]
      congr 1; omega


/-- `diagonal_expectation(modes, values)` is `Σ_n (Π_{m ∈ modes} values n_m) p(n)` with `p = all_fock_probs()`;
`re` is additive (it is the real part) -/
theorem diagonalExpectation_sum {K : Type} [CommSemiring K] (nsq re : K → K) (D n : Nat) (pure : Bool) (modes : List Nat)
    (values : Nat → K) (st : Tens K) (hd : modes.Nodup) (hr : ∀ m ∈ modes, m < n) :
    diagonalExpectation nsq re D n pure modes values st
      = .ok (diagonalSpec D n modes values (if pure then probsPure nsq st else probsMixed re st)) := by
  unfold diagonalExpectation
  have hnd : noDup modes = true := by simp [noDup, hd]
  cases pure with
  | true =>
    simp only [hnd, Bool.not_true, Bool.false_eq_true, if_false, if_true]
    rw [diagonal_pure D n modes values _ hd hr]
  | false =>
    simp only [hnd, Bool.not_true, Bool.false_eq_true, if_false]
    congr 1
    have hsorted : (tracedModes n modes).Pairwise (· < ·) := List.pairwise_lt_range.filter _
    have h1 : ∀ Q : Tens K, iter (contractDiag0 D values) modes.length Q (fun _ => 0)
        = diagT (iter (contractDiag0 D values) modes.length Q) (fun _ => 0) := fun _ => rfl
    have h2 : (tracedModes n modes).foldr (fun m q => sumAxis1 D m q) (diagT fun idx => re (st idx))
        = sumAxes D n (tracedModes n modes) (probsMixed re st) := by
      funext j
      rw [foldr_sumAxis1 D _ hsorted]
      unfold sumAxes
      rw [filter_contains_tracedModes]
      rfl
    rw [h1, diagT_iter, diagT_foldl, h2, diagonal_pure D n modes values _ hd hr]


end SFV.States
