import SFV.Model.Apps

/-!
# K6 — `orbits` / `sample_to_orbit` / `sample_to_event` (proofs about `SFV.Apps`)

Core Lean only.
-/
namespace SFV.Apps

/-- a partition of n: non-increasing, positive parts, sum n -/
def IsPartition (n : Nat) (p : List Nat) : Prop :=
  p.Pairwise (fun a b => b ≤ a) ∧ (∀ x ∈ p, 1 ≤ x) ∧ p.sum = n

/-! ## `sortAsc` -/

theorem orb_insertAsc_perm (x : Nat) (l : List Nat) : (insertAsc x l).Perm (x :: l) := by
  induction l with
  | nil => simp [insertAsc]
  | cons y ys ih =>
    simp only [insertAsc]
    split
    · exact List.Perm.refl _
    · exact (List.Perm.cons y ih).trans (List.Perm.swap x y ys)

theorem orb_sortAsc_cons (x : Nat) (l : List Nat) : sortAsc (x :: l) = insertAsc x (sortAsc l) := rfl

private theorem orb_sortAsc_perm_aux (l : List Nat) : (sortAsc l).Perm l := by
  induction l with
  | nil => simp [sortAsc]
  | cons x xs ih =>
    rw [orb_sortAsc_cons]
    exact (orb_insertAsc_perm x _).trans (List.Perm.cons x ih)

theorem orb_mem_sortAsc (x : Nat) (l : List Nat) : x ∈ sortAsc l ↔ x ∈ l :=
  (orb_sortAsc_perm_aux l).mem_iff

theorem orb_sortAsc_perm (l : List Nat) : (sortAsc l).Perm l := orb_sortAsc_perm_aux l

theorem orb_insertAsc_sorted (x : Nat) (l : List Nat) (h : l.Pairwise (· ≤ ·)) :
    (insertAsc x l).Pairwise (· ≤ ·) := by
  induction l with
  | nil => simp [insertAsc]
  | cons y ys ih =>
    simp only [insertAsc]
    split
    · rename_i hxy
      refine List.pairwise_cons.2 ⟨?_, h⟩
      intro a ha
      rcases List.mem_cons.1 ha with rfl | ha
      · exact hxy
      · exact Nat.le_trans hxy ((List.pairwise_cons.1 h).1 a ha)
    · rename_i hxy
      have h' := List.pairwise_cons.1 h
      refine List.pairwise_cons.2 ⟨?_, ih h'.2⟩
      intro a ha
      have := (orb_insertAsc_perm x ys).mem_iff.1 ha
      rcases List.mem_cons.1 this with rfl | ha
      · omega
      · exact h'.1 a ha

theorem orb_sortAsc_sorted (l : List Nat) : (sortAsc l).Pairwise (· ≤ ·) := by
  induction l with
  | nil => simp [sortAsc]
  | cons x xs ih =>
    rw [orb_sortAsc_cons]
    exact orb_insertAsc_sorted x _ ih

/-- a sorted permutation is *the* sorted list -/
theorem orb_sortAsc_eq_of_perm {l l' : List Nat} (hp : l.Perm l') (hs : l'.Pairwise (· ≤ ·)) :
    sortAsc l = l' :=
  List.Perm.eq_of_pairwise (le := (· ≤ ·)) (fun _ _ _ _ h1 h2 => Nat.le_antisymm h1 h2)
    (orb_sortAsc_sorted l) hs ((orb_sortAsc_perm l).trans hp)

theorem orb_sortAsc_eq_of_sorted (l : List Nat) (h : l.Pairwise (· ≤ ·)) : sortAsc l = l :=
  orb_sortAsc_eq_of_perm (List.Perm.refl l) h

/-- `sorted(l, reverse=True)` leaves a non-increasing list alone -/
theorem orb_sortDesc_eq_of_sorted (l : List Nat) (h : l.Pairwise (fun a b => b ≤ a)) : sortDesc l = l := by
  have h1 : sortAsc l = l.reverse :=
    orb_sortAsc_eq_of_perm (List.reverse_perm l).symm (List.pairwise_reverse.2 h)
  simp [sortDesc, h1]

/-! ## `ascFuel` -/

theorem orb_ascFuel_succ (fuel m n : Nat) :
    ascFuel (fuel + 1) m n =
      ((List.range' m (n / 2 + 1 - m)).flatMap fun x => (ascFuel fuel x (n - x)).map (x :: ·)) ++ [[n]] := rfl

theorem orb_mem_ascFuel_succ {fuel m n : Nat} {p : List Nat} :
    p ∈ ascFuel (fuel + 1) m n ↔
      (∃ x, (m ≤ x ∧ x ≤ n / 2) ∧ ∃ q ∈ ascFuel fuel x (n - x), p = x :: q) ∨ p = [n] := by
  rw [orb_ascFuel_succ, List.mem_append, List.mem_flatMap]
  constructor
  · rintro (⟨x, hx, hp⟩ | hp)
    · left
      rw [List.mem_range'_1] at hx
      rw [List.mem_map] at hp
      obtain ⟨q, hq, rfl⟩ := hp
      exact ⟨x, ⟨hx.1, by omega⟩, q, hq, rfl⟩
    · right; simpa using hp
  · rintro (⟨x, hx, q, hq, rfl⟩ | rfl)
    · left
      refine ⟨x, List.mem_range'_1.2 ⟨hx.1, by omega⟩, List.mem_map.2 ⟨q, hq, rfl⟩⟩
    · right; simp

theorem ascFuel_sound {fuel m n : Nat} {p : List Nat} (hm : 1 ≤ m) (hmn : m ≤ n) (h : p ∈ ascFuel fuel m n) :
    p ≠ [] ∧ p.Pairwise (· ≤ ·) ∧ (∀ x ∈ p, m ≤ x) ∧ p.sum = n := by
  induction fuel generalizing m n p with
  | zero => simp [ascFuel] at h
  | succ f ih =>
    rcases orb_mem_ascFuel_succ.1 h with ⟨x, ⟨hx1, hx2⟩, q, hq, rfl⟩ | rfl
    · have hxn : x ≤ n - x := by omega
      obtain ⟨_, h2, h3, h4⟩ := ih (Nat.le_trans hm hx1) hxn hq
      refine ⟨by simp, List.pairwise_cons.2 ⟨h3, h2⟩, ?_, ?_⟩
      · intro y hy
        rcases List.mem_cons.1 hy with rfl | hy
        · exact hx1
        · exact Nat.le_trans hx1 (h3 y hy)
      · simp only [List.sum_cons, h4]; omega
    · refine ⟨by simp, by simp, ?_, by simp⟩
      intro y hy
      simp at hy
      omega

theorem orb_le_sum_of_mem {l : List Nat} {x : Nat} (h : x ∈ l) : x ≤ l.sum := by
  induction l with
  | nil => simp at h
  | cons y ys ih =>
    rcases List.mem_cons.1 h with rfl | h
    · simp
    · have := ih h
      simp only [List.sum_cons]; omega

theorem ascFuel_complete {fuel m n : Nat} {p : List Nat} (hm : 1 ≤ m) (hne : p ≠ []) (hs : p.Pairwise (· ≤ ·))
    (hge : ∀ x ∈ p, m ≤ x) (hsum : p.sum = n) (hf : p.length ≤ fuel) : p ∈ ascFuel fuel m n := by
  induction p generalizing fuel m n with
  | nil => exact absurd rfl hne
  | cons x q ih =>
    cases fuel with
    | zero => simp at hf
    | succ f =>
      rw [orb_mem_ascFuel_succ]
      have hmx : m ≤ x := hge x (by simp)
      have hs' := List.pairwise_cons.1 hs
      simp only [List.sum_cons] at hsum
      cases q with
      | nil =>
        right
        simp at hsum
        simp [hsum]
      | cons y r =>
        left
        have hxy : x ≤ y := hs'.1 y (by simp)
        have hy : y ≤ (y :: r).sum := orb_le_sum_of_mem (by simp)
        refine ⟨x, ⟨hmx, by omega⟩, y :: r, ?_, rfl⟩
        apply ih (Nat.le_trans hm hmx) (by simp) hs'.2 hs'.1 (by omega)
        simp only [List.length_cons] at hf ⊢
        omega

theorem ascFuel_nodup {fuel m n : Nat} (hm : 1 ≤ m) (hmn : m ≤ n) : (ascFuel fuel m n).Nodup := by
  induction fuel generalizing m n with
  | zero => simp [ascFuel]
  | succ f ih =>
    rw [orb_ascFuel_succ, List.nodup_append]
    refine ⟨?_, by simp, ?_⟩
    · unfold List.Nodup
      rw [List.pairwise_flatMap]
      constructor
      · intro x hx
        rw [List.mem_range'_1] at hx
        rw [List.pairwise_map]
        have hnd : (ascFuel f x (n - x)).Nodup := ih (Nat.le_trans hm hx.1) (by omega)
        exact List.Pairwise.imp (fun h h' => h (List.cons.inj h').2) hnd
      · refine List.Pairwise.imp ?_ (List.pairwise_lt_range' (s := m) (n := n / 2 + 1 - m))
        intro a b hab p hp q hq
        rw [List.mem_map] at hp hq
        obtain ⟨p', _, rfl⟩ := hp
        obtain ⟨q', _, rfl⟩ := hq
        intro h
        have := (List.cons.inj h).1
        omega
    · intro a ha b hb
      rw [List.mem_flatMap] at ha
      obtain ⟨x, hx, ha⟩ := ha
      rw [List.mem_range'_1] at hx
      rw [List.mem_map] at ha
      obtain ⟨q, _, rfl⟩ := ha
      simp at hb
      subst hb
      intro h
      have := (List.cons.inj h).1
      omega

/-! ## `orbits` -/

theorem orb_length_le_sum {p : List Nat} (h : ∀ x ∈ p, 1 ≤ x) : p.length ≤ p.sum := by
  induction p with
  | nil => simp
  | cons x q ih =>
    have h1 := h x (by simp)
    have h2 := ih (fun y hy => h y (by simp [hy]))
    simp only [List.length_cons, List.sum_cons]
    omega

/-- orbits n lists exactly the partitions of n (n ≥ 1) … -/
theorem orbits_mem_iff {n : Nat} (hn : 1 ≤ n) (p : List Nat) : p ∈ orbits n ↔ IsPartition n p := by
  unfold orbits IsPartition
  rw [List.mem_map]
  constructor
  · rintro ⟨q, hq, rfl⟩
    obtain ⟨_, h2, h3, h4⟩ := ascFuel_sound (Nat.le_refl 1) hn hq
    refine ⟨List.pairwise_reverse.2 h2, ?_, ?_⟩
    · intro x hx
      exact h3 x (List.mem_reverse.1 hx)
    · rw [List.sum_reverse]; exact h4
  · rintro ⟨h1, h2, h3⟩
    refine ⟨p.reverse, ?_, List.reverse_reverse p⟩
    apply ascFuel_complete (Nat.le_refl 1)
    · intro h
      have : p = [] := by simpa using h
      subst this
      simp at h3
      omega
    · exact List.pairwise_reverse.2 (by simpa using h1)
    · intro x hx
      exact h2 x (List.mem_reverse.1 hx)
    · rw [List.sum_reverse]; exact h3
    · have := orb_length_le_sum h2
      simp only [List.length_reverse]
      omega

theorem orbits_zero : orbits 0 = [[0]] := by
  simp [orbits, ascFuel]

/-- … each exactly once -/
theorem orbits_nodup (n : Nat) : (orbits n).Nodup := by
  cases n with
  | zero => simp [orbits_zero]
  | succ k =>
    unfold orbits List.Nodup
    rw [List.pairwise_map]
    have hnd : (ascFuel (k + 1 + 1) 1 (k + 1)).Nodup := ascFuel_nodup (Nat.le_refl 1) (by omega)
    exact List.Pairwise.imp (fun h h' => h (List.reverse_inj.1 h')) hnd

/-- every orbit yielded is already in the `sorted(..., reverse=True)` form -/
theorem orbits_sorted {n : Nat} (hn : 1 ≤ n) {p : List Nat} (h : p ∈ orbits n) : sortDesc p = p :=
  orb_sortDesc_eq_of_sorted p ((orbits_mem_iff hn p).1 h).1

/-! ## `sample_to_orbit`, `sample_to_event` -/

theorem orb_sum_filter_ne_zero (s : List Nat) : (s.filter (fun c => c != 0)).sum = s.sum := by
  induction s with
  | nil => simp
  | cons x xs ih =>
    by_cases hx : x = 0
    · simp [hx, ih]
    · simp [hx, ih]

theorem orb_sortDesc_sum (l : List Nat) : (sortDesc l).sum = l.sum := by
  unfold sortDesc
  rw [List.sum_reverse]
  exact (orb_sortAsc_perm l).sum_nat

theorem orb_mem_sortDesc (x : Nat) (l : List Nat) : x ∈ sortDesc l ↔ x ∈ l := by
  unfold sortDesc
  rw [List.mem_reverse, orb_mem_sortAsc]

theorem orb_mem_sampleToOrbit (x : Nat) (s : List Nat) : x ∈ sampleToOrbit s ↔ x ∈ s ∧ x ≠ 0 := by
  unfold sampleToOrbit
  rw [orb_mem_sortDesc, List.mem_filter]
  simp

/-- sample, orbit and event agree: the event of a sample is the photon number of its orbit … -/
theorem sampleToOrbit_sum (s : List Nat) : (sampleToOrbit s).sum = s.sum := by
  unfold sampleToOrbit
  rw [orb_sortDesc_sum, orb_sum_filter_ne_zero]

theorem sampleToOrbit_isPartition (s : List Nat) : IsPartition s.sum (sampleToOrbit s) := by
  refine ⟨?_, ?_, sampleToOrbit_sum s⟩
  · unfold sampleToOrbit sortDesc
    rw [List.pairwise_reverse]
    exact List.Pairwise.imp (fun h => h) (orb_sortAsc_sorted _)
  · intro x hx
    have := ((orb_mem_sampleToOrbit x s).1 hx).2
    omega

theorem sampleToOrbit_mem_orbits (s : List Nat) (h : 1 ≤ s.sum) : sampleToOrbit s ∈ orbits s.sum :=
  (orbits_mem_iff h _).2 (sampleToOrbit_isPartition s)

/-- a partition is its own orbit -/
theorem sampleToOrbit_of_partition {n : Nat} {p : List Nat} (h : IsPartition n p) : sampleToOrbit p = p := by
  unfold sampleToOrbit
  have hf : p.filter (fun c => c != 0) = p := by
    rw [List.filter_eq_self]
    intro x hx
    have := h.2.1 x hx
    simp; omega
  rw [hf]
  exact orb_sortDesc_eq_of_sorted p h.1

theorem listMax_le_iff (l : List Nat) (m : Nat) : listMax l ≤ m ↔ ∀ c ∈ l, c ≤ m := by
  induction l with
  | nil => simp [listMax]
  | cons x xs ih =>
    have : listMax (x :: xs) = max x (listMax xs) := rfl
    rw [this, Nat.max_le, ih]
    simp

theorem sampleToEvent_eq_some (s : List Nat) (m k : Nat) :
    sampleToEvent s m = some k ↔ (k = s.sum ∧ ∀ c ∈ s, c ≤ m) := by
  unfold sampleToEvent
  rw [← listMax_le_iff]
  split
  · rename_i h
    simp [h, eq_comm]
  · rename_i h
    simp [h]

/-- … and the orbit's largest part is the sample's largest count -/
theorem sampleToOrbit_listMax (s : List Nat) : listMax (sampleToOrbit s) = listMax s := by
  have key : ∀ m, listMax (sampleToOrbit s) ≤ m ↔ listMax s ≤ m := by
    intro m
    rw [listMax_le_iff, listMax_le_iff]
    constructor
    · intro h c hc
      by_cases hc0 : c = 0
      · omega
      · exact h c ((orb_mem_sampleToOrbit c s).2 ⟨hc, hc0⟩)
    · intro h c hc
      exact h c ((orb_mem_sampleToOrbit c s).1 hc).1
  apply Nat.le_antisymm
  · exact (key _).2 (Nat.le_refl _)
  · exact (key _).1 (Nat.le_refl _)


/-! ## OPTIONAL: the imperative transcription agrees with the structural form

Stack-machine simulation.  At the top of the `while k != 0` loop the array prefix `a[0..k-1]` is the stack of
parts chosen so far; one pass through loop A descends into the first sub-branches, loop B emits the
two-part tails, and the following outer iterations pop the stack.  `orb_G pre x N` is what the generator
must emit for "prefix `pre`, next part ≥ `x`, remaining total `N`". -/

theorem orb_ascFuel_fuel_irrel {f f' m n : Nat} (hm : 1 ≤ m) (hf : n < f) (hf' : n < f') :
    ascFuel f m n = ascFuel f' m n := by
  induction f generalizing f' m n with
  | zero => omega
  | succ g ih =>
    cases f' with
    | zero => omega
    | succ g' =>
      rw [orb_ascFuel_succ, orb_ascFuel_succ, List.flatMap_def, List.flatMap_def]
      congr 2
      apply List.map_congr_left
      intro x hx
      rw [List.mem_range'_1] at hx
      rw [ih (f' := g') (m := x) (n := n - x) (by omega) (by omega) (by omega)]

def orb_G (pre : List Nat) (x N : Nat) : List (List Nat) :=
  (ascFuel (N + 1) x N).map fun q => sortDesc (pre ++ q)

theorem orb_G_base {pre : List Nat} {x N : Nat} (h : N < 2 * x) :
    orb_G pre x N = [sortDesc (pre ++ [N])] := by
  have : N / 2 + 1 - x = 0 := by omega
  simp [orb_G, orb_ascFuel_succ, this]

theorem orb_G_step {pre : List Nat} {x N : Nat} (hx : 1 ≤ x) (h : 2 * x ≤ N) :
    orb_G pre x N = orb_G (pre ++ [x]) x (N - x) ++ orb_G pre (x + 1) N := by
  have e : N / 2 + 1 - x = (N / 2 + 1 - (x + 1)) + 1 := by omega
  unfold orb_G
  rw [orb_ascFuel_succ N x N, e, List.range'_succ, List.flatMap_cons, orb_ascFuel_succ N (x + 1) N]
  rw [orb_ascFuel_fuel_irrel (f := N) (f' := N - x + 1) hx (by omega) (by omega)]
  simp [List.map_append, List.map_map, List.append_assoc, Function.comp_def]

def orb_fromB (F k fb x : Nat) (y : Int) (a : Array Nat) (out : List (List Nat)) : List (List Nat) :=
  match orbLoopB k (k + 1) fb x y a out with
  | (x, y, a, out) =>
    orbOuter F (a.setIfInBounds k ((x : Int) + y).toNat) k ((x : Int) + y - 1)
      (sortDesc ((a.setIfInBounds k ((x : Int) + y).toNat).extract 0 (k + 1)).toList :: out)

def orb_fromA (F fa x k : Nat) (y : Int) (a : Array Nat) (out : List (List Nat)) : List (List Nat) :=
  match orbLoopA x fa a k y with
  | (a, k, y) => orb_fromB F k (a.size + 1) x y a out

theorem orb_outer_succ (F : Nat) (a : Array Nat) (k : Nat) (y : Int) (out : List (List Nat)) :
    orbOuter (F + 1) a k y out =
      if k = 0 then out else orb_fromA F (a.size + 1) (a[k - 1]! + 1) (k - 1) y a out := rfl

theorem orb_extract_toList (a : Array Nat) (m : Nat) : (a.extract 0 m).toList = a.toList.take m := by
  simp [Array.toList_extract, List.extract_eq_take_drop]

theorem orb_take_set_self (l : List Nat) (k v : Nat) (h : k < l.length) :
    (l.set k v).take (k + 1) = l.take k ++ [v] := by
  rw [List.take_add_one, List.take_set_of_le (Nat.le_refl k), List.getElem?_set_self h]
  rfl

theorem orb_getElem_of_take (a : Array Nat) (pre : List Nat) (c : Nat)
    (h : a.toList.take (pre.length + 1) = pre ++ [c]) : a[pre.length]! = c := by
  have hl := congrArg List.length h
  simp at hl
  have hlt : pre.length < a.size := by omega
  rw [getElem!_pos a pre.length hlt]
  have h1 : (a.toList.take (pre.length + 1))[pre.length]? = a.toList[pre.length]? :=
    List.getElem?_take_of_lt (by omega)
  rw [h] at h1
  simp at h1
  have h2 : a[pre.length]? = some a[pre.length] := by simp [hlt]
  rw [h2] at h1
  exact (Option.some.inj h1).symm


theorem orb_fromB_step (F k fb x y : Nat) (a : Array Nat) (out : List (List Nat)) (hx : 1 ≤ x) (h : x ≤ y) :
    orb_fromB F k (fb + 1) x (y : Int) a out =
      orb_fromB F k fb (x + 1) ((y - 1 : Nat) : Int) ((a.setIfInBounds k x).setIfInBounds (k + 1) y)
        (sortDesc (((a.setIfInBounds k x).setIfInBounds (k + 1) y).extract 0 (k + 2)).toList :: out) := by
  have h1 : (x : Int) ≤ (y : Int) := by omega
  have h2 : (y : Int) - 1 = ((y - 1 : Nat) : Int) := by omega
  simp only [orb_fromB, orbLoopB, h1, if_true, Int.toNat_natCast, h2]

theorem orb_fromB_exit (F k fb x y : Nat) (a : Array Nat) (out : List (List Nat)) (h : y < x) :
    orb_fromB F k fb x (y : Int) a out =
      orbOuter F (a.setIfInBounds k (x + y)) k ((x : Int) + y - 1)
        (sortDesc ((a.setIfInBounds k (x + y)).extract 0 (k + 1)).toList :: out) := by
  have h1 : ¬ ((x : Int) ≤ (y : Int)) := by omega
  have h2 : ((x : Int) + (y : Int)).toNat = x + y := by omega
  cases fb <;> simp only [orb_fromB, orbLoopB, h1, if_false, h2]

theorem orb_fromA_step (F fa x k y : Nat) (a : Array Nat) (out : List (List Nat)) (h : 2 * x ≤ y) :
    orb_fromA F (fa + 1) x k (y : Int) a out =
      orb_fromA F fa x (k + 1) ((y - x : Nat) : Int) (a.setIfInBounds k x) out := by
  have h1 : 2 * (x : Int) ≤ (y : Int) := by omega
  have h2 : (y : Int) - (x : Int) = ((y - x : Nat) : Int) := by omega
  simp only [orb_fromA, orbLoopA, h1, if_true, h2]

theorem orb_fromA_exit (F fa x k y : Nat) (a : Array Nat) (out : List (List Nat)) (h : y < 2 * x) :
    orb_fromA F fa x k (y : Int) a out = orb_fromB F k (a.size + 1) x (y : Int) a out := by
  have h1 : ¬ (2 * (x : Int) ≤ (y : Int)) := by omega
  cases fa <;> simp only [orb_fromA, orbLoopA, h1, if_false]


theorem orb_fromB_exit_spec (fb x y : Nat) (a : Array Nat) (out : List (List Nat)) (F : Nat) (pre : List Nat)
    (hyx : y < x) (hsz : pre.length + x + y < a.size) (hpre : a.toList.take pre.length = pre) :
    ∃ a' : Array Nat, a'.size = a.size ∧ a'.toList.take pre.length = pre ∧
      orb_fromB F pre.length fb x (y : Int) a out =
        orbOuter F a' pre.length ((x : Int) + (y : Int) - 1) ((orb_G pre x (x + y)).reverse ++ out) := by
  refine ⟨a.setIfInBounds pre.length (x + y), by simp, ?_, ?_⟩
  · rw [Array.toList_setIfInBounds, List.take_set_of_le (Nat.le_refl _), hpre]
  · rw [orb_fromB_exit _ _ _ _ _ _ _ hyx, orb_G_base (by omega), orb_extract_toList,
      Array.toList_setIfInBounds, orb_take_set_self _ _ _ (by simp; omega), hpre]
    simp

theorem orb_fromB_spec (fb : Nat) : ∀ (x y : Nat) (a : Array Nat) (out : List (List Nat)) (F : Nat) (pre : List Nat),
    1 ≤ x → y < 2 * x → pre.length + x + y < a.size → a.toList.take pre.length = pre → y + 1 ≤ fb + x →
    ∃ a' : Array Nat, a'.size = a.size ∧ a'.toList.take pre.length = pre ∧
      orb_fromB F pre.length fb x (y : Int) a out =
        orbOuter F a' pre.length ((x : Int) + (y : Int) - 1) ((orb_G pre x (x + y)).reverse ++ out) := by
  induction fb with
  | zero =>
    intro x y a out F pre hx hy hsz hpre hfb
    exact orb_fromB_exit_spec 0 x y a out F pre (by omega) hsz hpre
  | succ fb ih =>
    intro x y a out F pre hx hy hsz hpre hfb
    by_cases hxy : x ≤ y
    · rw [orb_fromB_step _ _ _ _ _ _ _ hx hxy]
      have hyld : (((a.setIfInBounds pre.length x).setIfInBounds (pre.length + 1) y).extract 0
          (pre.length + 2)).toList = pre ++ [x, y] := by
        rw [orb_extract_toList, Array.toList_setIfInBounds, orb_take_set_self _ _ _ (by simp; omega),
          Array.toList_setIfInBounds, orb_take_set_self _ _ _ (by simp; omega), hpre]
        simp
      rw [hyld]
      obtain ⟨a', h1, h2, h3⟩ := ih (x + 1) (y - 1)
        ((a.setIfInBounds pre.length x).setIfInBounds (pre.length + 1) y)
        (sortDesc (pre ++ [x, y]) :: out) F pre (by omega) (by omega) (by simp; omega)
        (by
          rw [Array.toList_setIfInBounds, List.take_set_of_le (by omega), Array.toList_setIfInBounds,
            List.take_set_of_le (Nat.le_refl _), hpre])
        (by omega)
      refine ⟨a', by simpa using h1, h2, ?_⟩
      rw [h3]
      have e1 : ((x + 1 : Nat) : Int) + ((y - 1 : Nat) : Int) - 1 = (x : Int) + (y : Int) - 1 := by omega
      have e2 : x + 1 + (y - 1) = x + y := by omega
      have e3 : x + y - x = y := by omega
      rw [e1, e2, orb_G_step (pre := pre) (x := x) (N := x + y) hx (by omega),
        orb_G_base (pre := pre ++ [x]) (x := x) (N := x + y - x) (by omega), e3]
      simp
    · exact orb_fromB_exit_spec (fb + 1) x y a out F pre (by omega) hsz hpre


theorem orb_fromA_spec (y : Nat) : ∀ (x fa : Nat) (a : Array Nat) (out : List (List Nat)) (F R : Nat)
    (pre : List Nat),
    1 ≤ x → pre.length + x + y < a.size → a.toList.take pre.length = pre → y + 1 ≤ fa →
    2 ^ y + R ≤ F + 1 →
    ∃ (F' : Nat) (a' : Array Nat), R ≤ F' ∧ a'.size = a.size ∧ a'.toList.take pre.length = pre ∧
      orb_fromA F fa x pre.length (y : Int) a out =
        orbOuter F' a' pre.length ((x : Int) + (y : Int) - 1) ((orb_G pre x (x + y)).reverse ++ out) := by
  induction y using Nat.strongRecOn with
  | ind y ih =>
    intro x fa a out F R pre hx hsz hpre hfa hF
    by_cases hxy : 2 * x ≤ y
    · obtain ⟨fa', rfl⟩ : ∃ fa', fa = fa' + 1 := ⟨fa - 1, by omega⟩
      obtain ⟨y', rfl⟩ : ∃ y', y = y' + 1 := ⟨y - 1, by omega⟩
      have hp1 : 2 ^ (y' + 1) = 2 * 2 ^ y' := by rw [Nat.pow_succ]; omega
      have hp2 : 2 ^ (y' + 1 - x) ≤ 2 ^ y' := Nat.pow_le_pow_right (by omega) (by omega)
      have hp3 : 1 ≤ 2 ^ y' := Nat.one_le_two_pow
      rw [orb_fromA_step _ _ _ _ _ _ _ hxy]
      have hlen : (pre ++ [x]).length = pre.length + 1 := by simp
      obtain ⟨F₁, a₁, hR₁, hs₁, hpre₁, heq₁⟩ := ih (y' + 1 - x) (by omega) x fa'
        (a.setIfInBounds pre.length x) out F (2 ^ y' + R) (pre ++ [x]) hx
        (by rw [hlen]; simp; omega)
        (by
          rw [hlen, Array.toList_setIfInBounds, orb_take_set_self _ _ _ (by simp; omega), hpre])
        (by omega) (by omega)
      rw [hlen] at hpre₁ heq₁
      rw [heq₁]
      obtain ⟨F₂, rfl⟩ : ∃ F₂, F₁ = F₂ + 1 := ⟨F₁ - 1, by omega⟩
      rw [orb_outer_succ, if_neg (by omega)]
      have hget : a₁[pre.length + 1 - 1]! = x := by
        rw [Nat.add_sub_cancel]; exact orb_getElem_of_take a₁ pre x hpre₁
      have hk : pre.length + 1 - 1 = pre.length := by omega
      have hy2 : (x : Int) + ((y' + 1 - x : Nat) : Int) - 1 = ((y' : Nat) : Int) := by omega
      rw [hget, hk, hy2]
      have hpre₂ : a₁.toList.take pre.length = pre := by
        have := congrArg (List.take pre.length) hpre₁
        rw [List.take_take] at this
        simpa [Nat.min_eq_left (Nat.le_succ _)] using this
      obtain ⟨F', a', hR', hs', hpre', heq'⟩ := ih y' (by omega) (x + 1) (a₁.size + 1) a₁
        ((orb_G (pre ++ [x]) x (x + (y' + 1 - x))).reverse ++ out) F₂ R pre (by omega)
        (by rw [hs₁]; simp; omega) hpre₂ (by rw [hs₁]; simp; omega) (by omega)
      refine ⟨F', a', hR', by rw [hs', hs₁]; simp, hpre', ?_⟩
      rw [heq']
      have e1 : ((x + 1 : Nat) : Int) + (y' : Int) - 1 = (x : Int) + ((y' + 1 : Nat) : Int) - 1 := by omega
      have e2 : x + 1 + y' = x + (y' + 1) := by omega
      have e3 : x + (y' + 1 - x) = x + (y' + 1) - x := by omega
      rw [e1, e2, e3, orb_G_step (pre := pre) (x := x) (N := x + (y' + 1)) hx (by omega)]
      simp
    · rw [orb_fromA_exit _ _ _ _ _ _ _ (by omega)]
      obtain ⟨a', h1, h2, h3⟩ := orb_fromB_spec (a.size + 1) x y a out F pre hx (by omega) hsz hpre (by omega)
      have hp3 : 1 ≤ 2 ^ y := Nat.one_le_two_pow
      exact ⟨F, a', by omega, h1, h2, h3⟩

theorem orb_G_nil (n : Nat) (hn : 1 ≤ n) : orb_G [] 1 n = orbits n := by
  unfold orb_G orbits
  apply List.map_congr_left
  intro q hq
  have hs := (ascFuel_sound (Nat.le_refl 1) hn hq).2.1
  simp [sortDesc, orb_sortAsc_eq_of_sorted q hs]

theorem orbitsImp_eq_orbits (n : Nat) : orbitsImp n = orbits n := by
  cases n with
  | zero => rfl
  | succ m =>
    unfold orbitsImp
    rw [orb_outer_succ, if_neg (by omega)]
    have hp : 2 ^ m ≤ 2 ^ (m + 1) := Nat.pow_le_pow_right (by omega) (by omega)
    obtain ⟨F', a', _, _, _, heq⟩ := orb_fromA_spec m 1 ((Array.replicate (m + 1 + 1) 0).size + 1)
      (Array.replicate (m + 1 + 1) 0) [] (2 ^ (m + 1)) 0 [] (Nat.le_refl 1) (by simp; omega) (by simp)
      (by simp) (by omega)
    have h0 : (Array.replicate (m + 1 + 1) 0)[1 - 1]! + 1 = 1 := by simp
    have h1 : 1 - 1 = ([] : List Nat).length := rfl
    have h2 : ((m + 1 : Nat) : Int) - 1 = (m : Int) := by omega
    rw [h0, h1, h2, heq]
    have h3 : orbOuter F' a' ([] : List Nat).length ((1 : Nat) + (m : Int) - 1)
        ((orb_G [] 1 (1 + m)).reverse ++ []) = (orb_G [] 1 (1 + m)).reverse := by
      cases F' <;> simp [orbOuter]
    rw [h3, List.reverse_reverse, Nat.add_comm 1 m]
    exact orb_G_nil (m + 1) (by omega)

end SFV.Apps
