import SFV.Model.GaussBlocks
import SFV.Proofs.GaussCompile
import SFV.Proofs.GaussNM
import Mathlib.Tactic.IntervalCases
import Mathlib.Tactic.LinearCombination
import SFV.Proofs.Bridge

set_option linter.unusedSimpArgs false
set_option linter.unusedVariables false

/-! The documented blocks: inverses, and identification with the documented rows of `Model/PhaseSpace`. -/
namespace SFV.GC
open SFV.Gauss

variable {K : Type} [CommRing K]

/-- `B` is a left inverse of `A` on the `m × m` corner -/
def LeftInv (m : Nat) (B A : Mat K) : Prop := ∀ i j, i < m → j < m → mulE m B A i j = ident i j

theorem rot_inv (c s : K) (h : c * c + s * s = 1) : LeftInv 2 (rotBlock c (-s)) (rotBlock c s) := by
  intro i j hi hj
  interval_cases i <;> interval_cases j <;> simp [mulE, dot, rotBlock, ofRows, ident] <;> grind

theorem sq_inv (c s ch sh : K) (h1 : c * c + s * s = 1) (h2 : ch * ch - sh * sh = 1) :
    LeftInv 2 (sqBlock c s ch (-sh)) (sqBlock c s ch sh) := by
  intro i j hi hj
  interval_cases i <;> interval_cases j <;> simp [mulE, dot, sqBlock, ofRows, ident] <;> grind

theorem s2_inv (c s ch sh : K) (h1 : c * c + s * s = 1) (h2 : ch * ch - sh * sh = 1) :
    LeftInv 4 (s2Block c s ch (-sh)) (s2Block c s ch sh) := by
  intro i j hi hj
  interval_cases i <;> interval_cases j <;> simp [mulE, dot, s2Block, ofRows, ident] <;> grind

theorem bs_inv (ct st c s : K) (h1 : c * c + s * s = 1) (h2 : ct * ct + st * st = 1) :
    LeftInv 4 (bsBlock ct (-st) c s) (bsBlock ct st c s) := by
  intro i j hi hj
  interval_cases i <;> interval_cases j <;>
    simp [mulE, dot, bsBlock, ofU, bsU, interf2, ofRows, ident] <;> grind

/-- unitarity of a 2×2 complex matrix `[u00, u01, u10, u11]`, as real equations -/
def Unitary2 (l : List (Cx K)) : Prop :=
  let a := l.getD 0 0; let b := l.getD 1 0; let c := l.getD 2 0; let d := l.getD 3 0
  a.re * a.re + a.im * a.im + c.re * c.re + c.im * c.im = 1 ∧
  b.re * b.re + b.im * b.im + d.re * d.re + d.im * d.im = 1 ∧
  a.re * b.re + a.im * b.im + c.re * d.re + c.im * d.im = 0 ∧
  a.re * b.im - a.im * b.re + c.re * d.im - c.im * d.re = 0

/-- the interferometer block of the adjoint is the inverse of the interferometer block of a unitary -/
theorem ofU_adj_inv (l : List (Cx K)) (h : Unitary2 l) : LeftInv 4 (ofU (adjU l)) (ofU l) := by
  obtain ⟨h1, h2, h3, h4⟩ := h
  intro i j hi hj
  interval_cases i <;> interval_cases j <;>
    simp [mulE, dot, ofU, adjU, interf2, ofRows, ident] <;> grind

theorem mz_unitary (h : K) (v u : Cx K) (hh : h + h = 1) (hv : v.re * v.re + v.im * v.im = 1)
    (hu : u.re * u.re + u.im * u.im = 1) : Unitary2 (mzU h v u) := by
  refine ⟨?_, ?_, ?_, ?_⟩ <;> simp [mzU] <;> grind

theorem smz_unitary (es : Cx K) (cd sd : K) (he : es.re * es.re + es.im * es.im = 1)
    (hd : cd * cd + sd * sd = 1) : Unitary2 (smzU es cd sd) := by
  refine ⟨?_, ?_, ?_, ?_⟩ <;> simp [smzU] <;> grind

theorem bs_unitary (ct st c s : K) (h1 : c * c + s * s = 1) (h2 : ct * ct + st * st = 1) :
    Unitary2 (bsU ct st c s) := by
  refine ⟨?_, ?_, ?_, ?_⟩ <;> simp [bsU] <;> grind

/-! ### embedded blocks are the matrices of the documented rows -/

theorem qOf_eq_x (n k j : Nat) (_hk : k < n) : (k, false) = qOf n j ↔ j = k := by
  unfold qOf; split <;> simp [Prod.ext_iff] <;> omega

theorem qOf_eq_p (n k j : Nat) (hk : k < n) (hj : j < 2 * n) : (k, true) = qOf n j ↔ j = k + n := by
  unfold qOf; split <;> simp [Prod.ext_iff] <;> omega

theorem qOf_inj (n i j : Nat) (hi : i < 2 * n) (hj : j < 2 * n) : qOf n i = qOf n j ↔ i = j := by
  unfold qOf; split <;> split <;> simp [Prod.ext_iff] <;> omega

theorem coefQ_idRow (u w : Q) : coefQ (idRow u : List (Q × K)) w = if u = w then 1 else 0 := by
  simp [coefQ, idRow]

/-- rows of `n` modes that are identity rows of a row specification touching only the modes in `ks` -/
theorem rowsMat_id_row (n : Nat) (R : Q → List (Q × K)) (i j : Nat) (hi : i < 2 * n) (hj : j < 2 * n)
    (hR : R (qOf n i) = idRow (qOf n i)) : rowsMat n R i j = ident i j := by
  simp only [rowsMat, hR, coefQ_idRow, qOf_inj n i j hi hj, ident]

theorem rows1_mat (n k : Nat) (hk : k < n) (a b c d : K) (i j : Nat) (hi : i < 2 * n) (hj : j < 2 * n) :
    embedRows (xpRows [k] n) (ofRows [[a, b], [c, d]]) i j = rowsMat n (rows1 k a b c d) i j := by
  have hfind : ∀ x, find? x (xpRows [k] n) =
      if x = k then some 0 else if x = k + n then some 1 else none := by
    intro x
    simp only [xpRows, List.map_cons, List.map_nil, List.cons_append, List.nil_append, find?]
    by_cases h1 : x = k <;> by_cases h2 : x = k + n <;> simp [h1, h2]
  have hn : n ≠ 0 := by omega
  by_cases hik : i = k
  · subst hik
    have hq : qOf n i = (i, false) := by simp [qOf, hk]
    simp only [embedRows, hfind, if_true, rowsMat, hq, rows1, coefQ, List.foldr_cons, List.foldr_nil,
      qOf_eq_x n i j hk, qOf_eq_p n i j hk hj]
    by_cases h1 : j = i
    · subst h1; simp [ofRows, hn]
    · by_cases h2 : j = i + n
      · subst h2; simp [ofRows, hn]
      · have : ¬ i = j := fun h => h1 h.symm
        simp [h1, h2, ident, this]
  · by_cases hik' : i = k + n
    · subst hik'
      have hq : qOf n (k + n) = (k, true) := by simp [qOf]
      have hne : ¬ k + n = k := by omega
      simp only [embedRows, hfind, hne, if_false, if_true, rowsMat, hq, rows1, coefQ, List.foldr_cons,
        List.foldr_nil, qOf_eq_x n k j hk, qOf_eq_p n k j hk hj]
      by_cases h1 : j = k
      · subst h1; simp [ofRows, hn]
      · by_cases h2 : j = k + n
        · subst h2; simp [ofRows, hn]
        · have : ¬ k + n = j := fun h => h2 h.symm
          simp [h1, h2, ident, this]
    · have hrow : rows1 k a b c d (qOf n i) = idRow (qOf n i) := by
        unfold qOf
        split
        · simp [rows1, hik]
        · have : ¬ i - n = k := by omega
          simp [rows1, this]
      rw [rowsMat_id_row n _ i j hi hj hrow]
      simp [embedRows, hfind, hik, hik']

theorem rot_rows (n k : Nat) (hk : k < n) (c s : K) (i j : Nat) (hi : i < 2 * n) (hj : j < 2 * n) :
    embedRows (xpRows [k] n) (rotBlock c s) i j = rowsMat n (rotRows k c s) i j :=
  rows1_mat n k hk c (-s) s c i j hi hj

theorem sq_rows (n k : Nat) (hk : k < n) (c s ch sh : K) (i j : Nat) (hi : i < 2 * n) (hj : j < 2 * n) :
    embedRows (xpRows [k] n) (sqBlock c s ch sh) i j = rowsMat n (squeezeRows k c s ch sh) i j :=
  rows1_mat n k hk _ _ _ _ i j hi hj

/-- `BSgate(θ, φ) | (k, l)` is `GaussianModes.beamsplitter(−θ, −φ, k, l)` — the call convention of the back end -/
theorem bs_rows (n k l : Nat) (hk : k < n) (hl : l < n) (hkl : k ≠ l) (ct st c s : K) (i j : Nat)
    (hi : i < 2 * n) (hj : j < 2 * n) :
    embedRows (xpRows [k, l] n) (bsBlock ct st c s) i j = rowsMat n (bsRows k l c (-s) ct (-st)) i j := by
  have hn : n ≠ 0 := by omega
  have hfind : ∀ x, find? x (xpRows [k, l] n) =
      if x = k then some 0 else if x = l then some 1 else if x = k + n then some 2
      else if x = l + n then some 3 else none := by
    intro x
    simp only [xpRows, List.map_cons, List.map_nil, List.cons_append, List.nil_append, find?]
    split_ifs <;> first | rfl | (exfalso; omega) | simp
  have hlk : l ≠ k := fun h => hkl h.symm
  have f1 : ¬ k = k + n := by omega
  have f2 : ¬ k = l + n := by omega
  have f3 : ¬ l = k + n := by omega
  have f4 : ¬ l = l + n := by omega
  have f5 : ¬ k + n = l + n := by omega
  have f6 : ¬ l + n = k + n := by omega
  have f1' : ¬ k + n = k := by omega
  have f2' : ¬ l + n = k := by omega
  have f3' : ¬ k + n = l := by omega
  have f4' : ¬ l + n = l := by omega
  have hcol : j = k ∨ j = l ∨ j = k + n ∨ j = l + n ∨ (j ≠ k ∧ j ≠ l ∧ j ≠ k + n ∧ j ≠ l + n) := by omega
  have hxk := qOf_eq_x n k j hk
  have hxl := qOf_eq_x n l j hl
  have hpk := qOf_eq_p n k j hk hj
  have hpl := qOf_eq_p n l j hl hj
  by_cases h1 : i = k
  · have hq : qOf n (k) = (k, false) := by simp [qOf, hk]
    simp only [embedRows, hfind, h1, hkl, hlk, f1, f2, f3, f4, f5, f6, f1', f2', f3', f4', if_true, if_false, rowsMat, hq,
      bsRows, coefQ, List.foldr_cons, List.foldr_nil, hxk, hxl, hpk, hpl]
    rcases hcol with e | e | e | e | ⟨a1, a2, a3, a4⟩
    · simp [e, bsBlock, ofU, bsU, interf2, ofRows, hn, hkl, hlk, f1, f2, f3, f4, f5, f6, f1', f2', f3', f4'] <;> ring
    · simp [e, bsBlock, ofU, bsU, interf2, ofRows, hn, hkl, hlk, f1, f2, f3, f4, f5, f6, f1', f2', f3', f4'] <;> ring
    · simp [e, bsBlock, ofU, bsU, interf2, ofRows, hn, hkl, hlk, f1, f2, f3, f4, f5, f6, f1', f2', f3', f4'] <;> ring
    · simp [e, bsBlock, ofU, bsU, interf2, ofRows, hn, hkl, hlk, f1, f2, f3, f4, f5, f6, f1', f2', f3', f4'] <;> ring
    · have : ¬ k = j := fun h => by omega
      simp [a1, a2, a3, a4, ident, this]
  · by_cases h2 : i = l
    · have hq : qOf n (l) = (l, false) := by simp [qOf, hl]
      simp only [embedRows, hfind, h2, hkl, hlk, f1, f2, f3, f4, f5, f6, f1', f2', f3', f4', if_true, if_false, rowsMat, hq,
        bsRows, coefQ, List.foldr_cons, List.foldr_nil, hxk, hxl, hpk, hpl]
      rcases hcol with e | e | e | e | ⟨a1, a2, a3, a4⟩
      · simp [e, bsBlock, ofU, bsU, interf2, ofRows, hn, hkl, hlk, f1, f2, f3, f4, f5, f6, f1', f2', f3', f4'] <;> ring
      · simp [e, bsBlock, ofU, bsU, interf2, ofRows, hn, hkl, hlk, f1, f2, f3, f4, f5, f6, f1', f2', f3', f4'] <;> ring
      · simp [e, bsBlock, ofU, bsU, interf2, ofRows, hn, hkl, hlk, f1, f2, f3, f4, f5, f6, f1', f2', f3', f4'] <;> ring
      · simp [e, bsBlock, ofU, bsU, interf2, ofRows, hn, hkl, hlk, f1, f2, f3, f4, f5, f6, f1', f2', f3', f4'] <;> ring
      · have : ¬ l = j := fun h => by omega
        simp [a1, a2, a3, a4, ident, this]
    · by_cases h3 : i = k + n
      · have hq : qOf n (k + n) = (k, true) := by simp [qOf]
        simp only [embedRows, hfind, h3, hkl, hlk, f1, f2, f3, f4, f5, f6, f1', f2', f3', f4', if_true, if_false, rowsMat, hq,
          bsRows, coefQ, List.foldr_cons, List.foldr_nil, hxk, hxl, hpk, hpl]
        rcases hcol with e | e | e | e | ⟨a1, a2, a3, a4⟩
        · simp [e, bsBlock, ofU, bsU, interf2, ofRows, hn, hkl, hlk, f1, f2, f3, f4, f5, f6, f1', f2', f3', f4'] <;> ring
        · simp [e, bsBlock, ofU, bsU, interf2, ofRows, hn, hkl, hlk, f1, f2, f3, f4, f5, f6, f1', f2', f3', f4'] <;> ring
        · simp [e, bsBlock, ofU, bsU, interf2, ofRows, hn, hkl, hlk, f1, f2, f3, f4, f5, f6, f1', f2', f3', f4'] <;> ring
        · simp [e, bsBlock, ofU, bsU, interf2, ofRows, hn, hkl, hlk, f1, f2, f3, f4, f5, f6, f1', f2', f3', f4'] <;> ring
        · have : ¬ k + n = j := fun h => by omega
          simp [a1, a2, a3, a4, ident, this]
      · by_cases h4 : i = l + n
        · have hq : qOf n (l + n) = (l, true) := by simp [qOf]
          simp only [embedRows, hfind, h4, hkl, hlk, f1, f2, f3, f4, f5, f6, f1', f2', f3', f4', if_true, if_false, rowsMat, hq,
            bsRows, coefQ, List.foldr_cons, List.foldr_nil, hxk, hxl, hpk, hpl]
          rcases hcol with e | e | e | e | ⟨a1, a2, a3, a4⟩
          · simp [e, bsBlock, ofU, bsU, interf2, ofRows, hn, hkl, hlk, f1, f2, f3, f4, f5, f6, f1', f2', f3', f4'] <;> ring
          · simp [e, bsBlock, ofU, bsU, interf2, ofRows, hn, hkl, hlk, f1, f2, f3, f4, f5, f6, f1', f2', f3', f4'] <;> ring
          · simp [e, bsBlock, ofU, bsU, interf2, ofRows, hn, hkl, hlk, f1, f2, f3, f4, f5, f6, f1', f2', f3', f4'] <;> ring
          · simp [e, bsBlock, ofU, bsU, interf2, ofRows, hn, hkl, hlk, f1, f2, f3, f4, f5, f6, f1', f2', f3', f4'] <;> ring
          · have : ¬ l + n = j := fun h => by omega
            simp [a1, a2, a3, a4, ident, this]
        · have hrow : bsRows k l c (-s) ct (-st) (qOf n i) = idRow (qOf n i) := by
            unfold qOf
            split
            · simp [bsRows, h1, h2]
            · have e1 : ¬ i - n = k := by omega
              have e2 : ¬ i - n = l := by omega
              simp [bsRows, e1, e2]
          rw [rowsMat_id_row n _ i j hi hj hrow]
          simp [embedRows, hfind, h1, h2, h3, h4]

/-! ### index-level matrices as Mathlib matrices -/
open Finset Matrix

/-- row/column of quadrature `v` in the xxpp ordering -/
def xq (n : Nat) (v : QI n) : Nat := v.1.val + if v.2 then n else 0

theorem xq_lt (n : Nat) (v : QI n) : xq n v < 2 * n := by
  obtain ⟨⟨i, hi⟩, b⟩ := v
  cases b <;> simp [xq] <;> omega

theorem qOf_xq (n : Nat) (v : QI n) : qOf n (xq n v) = toQ v := by
  obtain ⟨⟨i, hi⟩, b⟩ := v
  cases b <;> simp [xq, qOf, toQ, hi]

/-- the `2n × 2n` corner of an index-level matrix as a matrix over quadratures -/
def toMat (n : Nat) (X : Mat K) : Matrix (QI n) (QI n) K := fun v w => X (xq n v) (xq n w)

theorem toMat_congr (n : Nat) {X Y : Mat K} (h : ∀ i j, i < 2 * n → j < 2 * n → X i j = Y i j) :
    toMat n X = toMat n Y := by
  ext v w; exact h _ _ (xq_lt n v) (xq_lt n w)

theorem toMat_rowsMat (n : Nat) (R : Q → List (Q × K)) : toMat n (rowsMat n R) = rowsMatrix n R := by
  ext v w
  simp only [toMat, rowsMat, rowsMatrix, qOf_xq]
  rfl

theorem toMat_ident (n : Nat) : toMat n (ident : Mat K) = 1 := by
  ext v w
  obtain ⟨⟨i, hi⟩, b⟩ := v
  obtain ⟨⟨j, hj⟩, b'⟩ := w
  simp only [toMat, ident, xq, Matrix.one_apply, Prod.mk.injEq, Fin.mk.injEq]
  cases b <;> cases b' <;> simp <;> omega

theorem dot_fin (m : Nat) (f g : Nat → K) : dot m f g = ∑ i : Fin m, f i * g i := by
  induction m with
  | zero => simp [dot]
  | succ m ih => rw [Fin.sum_univ_castSucc, dot, ih]; simp

theorem dot_split (n m : Nat) (f g : Nat → K) :
    dot (n + m) f g = dot n f g + dot m (fun k => f (n + k)) (fun k => g (n + k)) := by
  induction m with
  | zero => simp [dot]
  | succ m ih => rw [← Nat.add_assoc, dot, ih, dot]; ring

theorem dot_quad (n : Nat) (f g : Nat → K) : dot (2 * n) f g = ∑ v : QI n, f (xq n v) * g (xq n v) := by
  rw [show 2 * n = n + n by omega, dot_split, dot_fin, dot_fin, Fintype.sum_prod_type, ← Finset.sum_add_distrib]
  refine Finset.sum_congr rfl fun i _ => ?_
  simp [xq, Nat.add_comm]; ring

theorem toMat_mulE (n : Nat) (E X : Mat K) : toMat n (mulE (2 * n) E X) = toMat n E * toMat n X := by
  ext v w
  simp only [toMat, mulE, Matrix.mul_apply, dot_quad]

/-! ### the accumulated matrix is the ordered product of the documented row matrices -/

theorem applied_wf (a : Applied K) (h : a.hasRows) : a.cmd.wf := by
  obtain ⟨g, regs, d⟩ := a
  cases g <;> simp only [Applied.hasRows] at h <;>
    first
    | exact h.elim
    | (match regs, h with
       | [m], _ => simp [Applied.cmd, Gate.cmd, GCmd.wf])
    | (match regs, h with
       | [m, m'], h => simp [Applied.cmd, Gate.cmd, GCmd.wf, h])

theorem applied_step (pos : Nat → Nat) (n : Nat) (a : Applied K) (h : a.hasRows)
    (hpos : ∀ m ∈ a.regs, pos m < n) (hinj : ∀ m ∈ a.regs, ∀ m' ∈ a.regs, pos m = pos m' → m = m')
    (acc : Net K) :
    toMat n (specStepGU pos n acc a.cmd).S = rowsMatrix n (a.rows pos) * toMat n acc.S := by
  obtain ⟨g, regs, d⟩ := a
  cases g with
  | R c s =>
    match regs, h with
    | [m], _ =>
      have hm := hpos m (by simp)
      simp only [Applied.cmd, Gate.cmd, specStepGU, List.map_cons, List.map_nil, List.take_succ_cons,
        List.take_zero, toMat_mulE, Applied.rows, sgn]
      congr 1
      rw [← toMat_rowsMat]
      cases d
      · exact toMat_congr n (fun i j hi hj => rot_rows n (pos m) hm c s i j hi hj)
      · exact toMat_congr n (fun i j hi hj => rot_rows n (pos m) hm c (-s) i j hi hj)
  | S c s ch sh =>
    match regs, h with
    | [m], _ =>
      have hm := hpos m (by simp)
      simp only [Applied.cmd, Gate.cmd, specStepGU, List.map_cons, List.map_nil, List.take_succ_cons,
        List.take_zero, toMat_mulE, Applied.rows, sgn]
      congr 1
      rw [← toMat_rowsMat]
      cases d
      · exact toMat_congr n (fun i j hi hj => sq_rows n (pos m) hm c s ch sh i j hi hj)
      · exact toMat_congr n (fun i j hi hj => sq_rows n (pos m) hm c s ch (-sh) i j hi hj)
  | BS ct st c s =>
    match regs, h with
    | [m, m'], hne =>
      have hm := hpos m (by simp)
      have hm' := hpos m' (by simp)
      have hp : pos m ≠ pos m' := fun e => hne (hinj m (by simp) m' (by simp) e)
      simp only [Applied.cmd, Gate.cmd, specStepGU, List.map_cons, List.map_nil, List.take_succ_cons,
        List.take_zero, toMat_mulE, Applied.rows, sgn]
      congr 1
      rw [← toMat_rowsMat]
      cases d
      · exact toMat_congr n (fun i j hi hj => bs_rows n (pos m) (pos m') hm hm' hp ct st c s i j hi hj)
      · exact toMat_congr n (fun i j hi hj => bs_rows n (pos m) (pos m') hm hm' hp ct (-st) c s i j hi hj)
  | D _ _ => exact h.elim
  | S2 _ _ _ _ => exact h.elim
  | MZ _ _ _ => exact h.elim
  | sMZ _ _ _ => exact h.elim

theorem applied_fold (pos : Nat → Nat) (n : Nat) (l : List (Applied K))
    (hall : ∀ a ∈ l, a.hasRows ∧ (∀ m ∈ a.regs, pos m < n) ∧
      (∀ m ∈ a.regs, ∀ m' ∈ a.regs, pos m = pos m' → m = m')) (acc : Net K) :
    toMat n ((l.map Applied.cmd).foldl (specStepGU pos n) acc).S =
      (l.map fun a => rowsMatrix n (a.rows pos)).foldl (fun P M => M * P) (toMat n acc.S) := by
  induction l generalizing acc with
  | nil => rfl
  | cons a l ih =>
    obtain ⟨h1, h2, h3⟩ := hall a (by simp)
    simp only [List.map_cons, List.foldl_cons]
    rw [ih (fun b hb => hall b (by simp [hb])), applied_step pos n a h1 h2 h3]

/-- **the accumulated matrix is the ordered product of the documented row matrices**, positions taken in the
emitted register list -/
theorem compileGU_documented [DecidableEq K] (registers : List Nat) (l : List (Applied K))
    (hreg : ∀ a ∈ l, ∀ m ∈ a.regs, m ∈ registers) (hrows : ∀ a ∈ l, a.hasRows) :
    toMat (compileGU registers (l.map Applied.cmd)).n (compileGU registers (l.map Applied.cmd)).S =
      (l.map fun a => rowsMatrix (compileGU registers (l.map Applied.cmd)).n
        (a.rows fun m => (compileGU registers (l.map Applied.cmd)).regs.idxOf m)).foldl (fun P M => M * P) 1 := by
  have hreg' : ∀ c ∈ l.map Applied.cmd, ∀ m ∈ c.regs, m ∈ registers := by
    intro c hc m hm
    obtain ⟨a, ha, rfl⟩ := List.mem_map.1 hc
    exact hreg a ha m hm
  have hwf : ∀ c ∈ l.map Applied.cmd, c.wf := by
    intro c hc
    obtain ⟨a, ha, rfl⟩ := List.mem_map.1 hc
    exact applied_wf a (hrows a ha)
  obtain ⟨hregs, hn, hnet⟩ := compileGU_net registers (l.map Applied.cmd) hreg' hwf
  rw [toMat_congr _ (fun i j hi _ => hnet.1 i hi j)]
  simp only [netSpecGU]
  rw [applied_fold, toMat_ident]
  intro a ha
  refine ⟨hrows a ha, ?_, ?_⟩
  · intro m hm
    rw [hn, hregs]
    exact idxOf_lt_of_mem (mem_usedModes (List.mem_map.2 ⟨a, ha, rfl⟩) hm)
  · intro m hm m' _ e
    rw [hregs] at e
    exact idxOf_inj (mem_usedModes (List.mem_map.2 ⟨a, ha, rfl⟩) hm) e

/-! ### … and the source program on the Gaussian simulator's specification is the congruence by that product -/

/-- the operation of the Gaussian simulator (`Proofs/GaussNM.GOp`, refined by `GaussianModes` — C01) that an
applied gate is, with its modes relabelled by `pos` -/
def Applied.gop (pos : Nat → Nat) (a : Applied K) : SFV.Gauss.GOp K :=
  match a.g, a.regs with
  | .R c s, [m] => .phase c (sgn a.dagger s) (pos m)
  | .S c s ch sh, [m] => .squeeze c s ch (sgn a.dagger sh) (pos m)
  | .BS ct st c s, [m, m'] => .bs c (-s) ct (-(sgn a.dagger st)) (pos m) (pos m')
  | _, _ => .phase 1 0 0

theorem applyXP_gop (pos : Nat → Nat) (a : Applied K) (h : a.hasRows) (V : XP K) :
    applyXP V (a.gop pos) = linMap (a.rows pos) V := by
  obtain ⟨g, regs, d⟩ := a
  cases g <;> simp only [Applied.hasRows] at h <;>
    first
    | exact h.elim
    | (match regs, h with
       | [m], _ => rfl)
    | (match regs, h with
       | [m, m'], _ => rfl)

theorem covLin_symm (R : Q → List (Q × K)) (V : XP K) (hxx : ∀ i j, V.xx i j = V.xx j i)
    (hpp : ∀ i j, V.pp i j = V.pp j i) (a b : Q) : covLin R V a b = covLin R V b a := by
  simp only [covLin]
  rw [lsum_comm]
  congr 1; funext u; congr 1; funext v
  exact cov_symm V hxx hpp v u

theorem linMap_symm (R : Q → List (Q × K)) (V : XP K) (hxx : ∀ i j, V.xx i j = V.xx j i)
    (hpp : ∀ i j, V.pp i j = V.pp j i) :
    (∀ i j, (linMap R V).xx i j = (linMap R V).xx j i) ∧ (∀ i j, (linMap R V).pp i j = (linMap R V).pp j i) := by
  constructor
  · intro i j
    have := linMap_cov R V hxx hpp (i, false) (j, false)
    have h2 := linMap_cov R V hxx hpp (j, false) (i, false)
    simp only [XP.cov] at this h2
    rw [this, h2, covLin_symm R V hxx hpp]
  · intro i j
    have := linMap_cov R V hxx hpp (i, true) (j, true)
    have h2 := linMap_cov R V hxx hpp (j, true) (i, true)
    simp only [XP.cov] at this h2
    rw [this, h2, covLin_symm R V hxx hpp]

theorem applied_supported (pos : Nat → Nat) (n : Nat) (a : Applied K) (h : a.hasRows)
    (hpos : ∀ m ∈ a.regs, pos m < n) : Supported n (a.rows pos) := by
  obtain ⟨g, regs, d⟩ := a
  cases g with
  | R c s =>
    match regs, h with
    | [m], _ => exact rows1_supported n (pos m) (hpos m (by simp)) _ _ _ _
  | S c s ch sh =>
    match regs, h with
    | [m], _ => exact rows1_supported n (pos m) (hpos m (by simp)) _ _ _ _
  | BS ct st c s =>
    match regs, h with
    | [m, m'], _ => exact bsRows_supported n (pos m) (pos m') (hpos m (by simp)) (hpos m' (by simp)) _ _ _ _
  | D _ _ => exact h.elim
  | S2 _ _ _ _ => exact h.elim
  | MZ _ _ _ => exact h.elim
  | sMZ _ _ _ => exact h.elim

theorem foldl_mul_init {n : Nat} (l : List (Matrix (QI n) (QI n) K)) (A : Matrix (QI n) (QI n) K) :
    l.foldl (fun P M => M * P) A = l.foldl (fun P M => M * P) 1 * A := by
  induction l generalizing A with
  | nil => simp
  | cons M l ih => simp only [List.foldl_cons]; rw [ih (M * A), ih (M * 1)]; simp [Matrix.mul_assoc]

/-- running the source gates on the specification of the Gaussian simulator transforms the covariance by the
congruence with the ordered product of the documented row matrices -/
theorem source_cov (pos : Nat → Nat) (n : Nat) (l : List (Applied K))
    (hall : ∀ a ∈ l, a.hasRows ∧ (∀ m ∈ a.regs, pos m < n)) (V : XP K)
    (hxx : ∀ i j, V.xx i j = V.xx j i) (hpp : ∀ i j, V.pp i j = V.pp j i) :
    covMatrix n ((l.map (Applied.gop pos)).foldl applyXP V) =
      (l.map fun a => rowsMatrix n (a.rows pos)).foldl (fun P M => M * P) 1 * covMatrix n V *
      ((l.map fun a => rowsMatrix n (a.rows pos)).foldl (fun P M => M * P) 1)ᵀ := by
  induction l generalizing V with
  | nil => simp
  | cons a l ih =>
    obtain ⟨h1, h2⟩ := hall a (by simp)
    simp only [List.map_cons, List.foldl_cons]
    rw [applyXP_gop pos a h1]
    obtain ⟨sxx, spp⟩ := linMap_symm (a.rows pos) V hxx hpp
    rw [ih (fun b hb => hall b (by simp [hb])) _ sxx spp,
      covMatrix_linMap n _ (applied_supported pos n a h1 h2) V hxx hpp, foldl_mul_init _ (_ * 1)]
    simp only [Matrix.mul_one, Matrix.transpose_mul, Matrix.mul_assoc]

/-- **compiled = source on the specification of the Gaussian simulator**: the covariance the (relabelled) source
gates produce is the congruence of the input covariance with the emitted matrix -/
theorem compileGU_source_cov [DecidableEq K] (registers : List Nat) (l : List (Applied K))
    (hreg : ∀ a ∈ l, ∀ m ∈ a.regs, m ∈ registers) (hrows : ∀ a ∈ l, a.hasRows) (V : XP K)
    (hxx : ∀ i j, V.xx i j = V.xx j i) (hpp : ∀ i j, V.pp i j = V.pp j i) :
    covMatrix (compileGU registers (l.map Applied.cmd)).n
        ((l.map (Applied.gop fun m => (compileGU registers (l.map Applied.cmd)).regs.idxOf m)).foldl applyXP V) =
      toMat (compileGU registers (l.map Applied.cmd)).n (compileGU registers (l.map Applied.cmd)).S *
        covMatrix (compileGU registers (l.map Applied.cmd)).n V *
        (toMat (compileGU registers (l.map Applied.cmd)).n (compileGU registers (l.map Applied.cmd)).S)ᵀ := by
  rw [compileGU_documented registers l hreg hrows]
  refine source_cov _ _ l ?_ V hxx hpp
  intro a ha
  refine ⟨hrows a ha, ?_⟩
  intro m hm
  have hreg' : ∀ c ∈ l.map Applied.cmd, ∀ m ∈ c.regs, m ∈ registers := by
    intro c hc m hm
    obtain ⟨a, ha, rfl⟩ := List.mem_map.1 hc
    exact hreg a ha m hm
  have hwf : ∀ c ∈ l.map Applied.cmd, c.wf := by
    intro c hc
    obtain ⟨a, ha, rfl⟩ := List.mem_map.1 hc
    exact applied_wf a (hrows a ha)
  obtain ⟨hregs, hn, _⟩ := compileGU_net registers (l.map Applied.cmd) hreg' hwf
  rw [hn, hregs]
  exact idxOf_lt_of_mem (mem_usedModes (List.mem_map.2 ⟨a, ha, rfl⟩) hm)

/-! ### the full affine statement: displacements and means -/

/-- a displacement gate on one mode -/
def Applied.isD (a : Applied K) : Bool :=
  match a.g, a.regs with
  | .D _ _, [_] => true
  | _, _ => false

/-- the quadrature vector a (possibly daggered) `Dgate` adds: `(2 Re α, 2 Im α)` on its mode -/
def Applied.dvec (pos : Nat → Nat) (n : Nat) (a : Applied K) : QI n → K :=
  match a.g, a.regs with
  | .D ar ai, [m] => fun v =>
      if v.1.val = pos m then (if v.2 then sgn a.dagger (ai + ai) else sgn a.dagger (ar + ar)) else 0
  | _, _ => 0

/-- simulator operation of a gate, displacements included -/
def Applied.gop' (pos : Nat → Nat) (a : Applied K) : SFV.Gauss.GOp K :=
  match a.g, a.regs with
  | .D ar ai, [m] => .displace ⟨sgn a.dagger ar, sgn a.dagger ai⟩ (pos m)
  | _, _ => a.gop pos

/-- the affine action of an applied gate on `(P, t)` (matrix and vector over the quadratures of `n` modes) -/
def affStep (pos : Nat → Nat) (n : Nat) (st : Matrix (QI n) (QI n) K × (QI n → K)) (a : Applied K) :
    Matrix (QI n) (QI n) K × (QI n → K) :=
  if a.isD then (st.1, st.2 + a.dvec pos n)
  else (rowsMatrix n (a.rows pos) * st.1, rowsMatrix n (a.rows pos) *ᵥ st.2)

def toVec (n : Nat) (r : Nat → K) : QI n → K := fun v => r (xq n v)
def meanVec (n : Nat) (V : XP K) : QI n → K := fun v => V.mean (toQ v)

theorem toVec_mulE (n : Nat) (E : Mat K) (r : Nat → K) :
    toVec n (ofCol (mulE (2 * n) E (asCol r))) = toMat n E *ᵥ toVec n r := by
  funext v
  simp only [toVec, ofCol, mulE, asCol, Matrix.mulVec, dotProduct, toMat, dot_quad]

/-- a gate with rows is one product with an embedded block whose matrix is the matrix of its rows -/
theorem applied_E (pos : Nat → Nat) (n : Nat) (a : Applied K) (h : a.hasRows)
    (hpos : ∀ m ∈ a.regs, pos m < n) (hinj : ∀ m ∈ a.regs, ∀ m' ∈ a.regs, pos m = pos m' → m = m')
    (acc : Net K) : ∃ E : Mat K,
      specStepGU pos n acc a.cmd = { S := mulE (2 * n) E acc.S, r := ofCol (mulE (2 * n) E (asCol acc.r)) } ∧
      toMat n E = rowsMatrix n (a.rows pos) := by
  obtain ⟨g, regs, d⟩ := a
  cases g with
  | R c s =>
    match regs, h with
    | [m], _ =>
      have hm := hpos m (by simp)
      refine ⟨_, rfl, ?_⟩
      simp only [List.map_cons, List.map_nil, List.take_succ_cons, List.take_zero, Applied.rows, sgn]
      rw [← toMat_rowsMat]
      cases d
      · exact toMat_congr n (fun i j hi hj => rot_rows n (pos m) hm c s i j hi hj)
      · exact toMat_congr n (fun i j hi hj => rot_rows n (pos m) hm c (-s) i j hi hj)
  | S c s ch sh =>
    match regs, h with
    | [m], _ =>
      have hm := hpos m (by simp)
      refine ⟨_, rfl, ?_⟩
      simp only [List.map_cons, List.map_nil, List.take_succ_cons, List.take_zero, Applied.rows, sgn]
      rw [← toMat_rowsMat]
      cases d
      · exact toMat_congr n (fun i j hi hj => sq_rows n (pos m) hm c s ch sh i j hi hj)
      · exact toMat_congr n (fun i j hi hj => sq_rows n (pos m) hm c s ch (-sh) i j hi hj)
  | BS ct st c s =>
    match regs, h with
    | [m, m'], hne =>
      have hm := hpos m (by simp)
      have hm' := hpos m' (by simp)
      have hp : pos m ≠ pos m' := fun e => hne (hinj m (by simp) m' (by simp) e)
      refine ⟨_, rfl, ?_⟩
      simp only [List.map_cons, List.map_nil, List.take_succ_cons, List.take_zero, Applied.rows, sgn]
      rw [← toMat_rowsMat]
      cases d
      · exact toMat_congr n (fun i j hi hj => bs_rows n (pos m) (pos m') hm hm' hp ct st c s i j hi hj)
      · exact toMat_congr n (fun i j hi hj => bs_rows n (pos m) (pos m') hm hm' hp ct (-st) c s i j hi hj)
  | D _ _ => exact h.elim
  | S2 _ _ _ _ => exact h.elim
  | MZ _ _ _ => exact h.elim
  | sMZ _ _ _ => exact h.elim

theorem hasRows_not_isD (a : Applied K) (h : a.hasRows) : a.isD = false := by
  obtain ⟨g, regs, d⟩ := a
  cases g <;> simp only [Applied.hasRows] at h <;> first | exact h.elim | rfl | (simp [Applied.isD])

theorem xq_eq_x (n k : Nat) (hk : k < n) (v : QI n) : xq n v = k ↔ v.1.val = k ∧ v.2 = false := by
  obtain ⟨⟨i, hi⟩, b⟩ := v
  cases b <;> simp [xq] <;> omega

theorem xq_eq_p (n k : Nat) (hk : k < n) (v : QI n) : xq n v = k + n ↔ v.1.val = k ∧ v.2 = true := by
  obtain ⟨⟨i, hi⟩, b⟩ := v
  cases b <;> simp [xq] <;> omega

/-- one iteration of the specification fold in matrix form, displacements included -/
theorem applied_step_aff (pos : Nat → Nat) (n : Nat) (a : Applied K) (h : a.hasRows ∨ a.isD = true)
    (hpos : ∀ m ∈ a.regs, pos m < n) (hinj : ∀ m ∈ a.regs, ∀ m' ∈ a.regs, pos m = pos m' → m = m')
    (acc : Net K) :
    (toMat n (specStepGU pos n acc a.cmd).S, toVec n (specStepGU pos n acc a.cmd).r) =
      affStep pos n (toMat n acc.S, toVec n acc.r) a := by
  rcases h with h | h
  · obtain ⟨E, hE, hM⟩ := applied_E pos n a h hpos hinj acc
    rw [hE]
    simp only [affStep, hasRows_not_isD a h, Bool.false_eq_true, if_false, toMat_mulE, toVec_mulE, hM]
  · obtain ⟨g, regs, d⟩ := a
    cases g with
    | D ar ai =>
      match regs, h with
      | [m], _ =>
        have hm := hpos m (by simp)
        simp only [affStep, Applied.isD, if_true, Applied.cmd, Gate.cmd, specStepGU, List.getD_cons_zero,
          Applied.dvec]
        refine Prod.ext rfl ?_
        funext v
        simp only [toVec, Pi.add_apply, xq_eq_x n (pos m) hm v, xq_eq_p n (pos m) hm v, sgn]
        obtain ⟨⟨i, hi⟩, b⟩ := v
        by_cases e : i = pos m <;> cases b <;> cases d <;> simp [e] <;> ring
    | R _ _ => simp [Applied.isD] at h
    | S _ _ _ _ => simp [Applied.isD] at h
    | BS _ _ _ _ => simp [Applied.isD] at h
    | S2 _ _ _ _ => simp [Applied.isD] at h
    | MZ _ _ _ => simp [Applied.isD] at h
    | sMZ _ _ _ => simp [Applied.isD] at h

theorem applied_fold_aff (pos : Nat → Nat) (n : Nat) (l : List (Applied K))
    (hall : ∀ a ∈ l, (a.hasRows ∨ a.isD = true) ∧ (∀ m ∈ a.regs, pos m < n) ∧
      (∀ m ∈ a.regs, ∀ m' ∈ a.regs, pos m = pos m' → m = m')) (acc : Net K) :
    (toMat n ((l.map Applied.cmd).foldl (specStepGU pos n) acc).S,
      toVec n ((l.map Applied.cmd).foldl (specStepGU pos n) acc).r) =
      l.foldl (affStep pos n) (toMat n acc.S, toVec n acc.r) := by
  induction l generalizing acc with
  | nil => rfl
  | cons a l ih =>
    obtain ⟨h1, h2, h3⟩ := hall a (by simp)
    simp only [List.map_cons, List.foldl_cons]
    rw [ih (fun b hb => hall b (by simp [hb])), applied_step_aff pos n a h1 h2 h3]

theorem meanVec_linMap (n : Nat) (R : Q → List (Q × K)) (hR : Supported n R) (V : XP K) :
    meanVec n (linMap R V) = rowsMatrix n R *ᵥ meanVec n V := by
  funext v
  have : (linMap R V).mean (toQ v) = lsum (R (toQ v)) V.mean := by
    obtain ⟨⟨i, hi⟩, b⟩ := v
    cases b <;> rfl
  simp only [meanVec, this, Matrix.mulVec, dotProduct, rowsMatrix]
  exact lsum_eq_sum (n := n) _ (hR v) _

theorem covMatrix_shift (n : Nat) (V : XP K) (k : Nat) (dx dp : K) :
    covMatrix n (shift V k dx dp) = covMatrix n V := by
  ext v w
  obtain ⟨⟨i, hi⟩, b⟩ := v
  obtain ⟨⟨j, hj⟩, b'⟩ := w
  cases b <;> cases b' <;> rfl

/-- **the source program on the simulator's specification is the affine map `(P, t)`** obtained by folding the
documented row matrices and displacement vectors: covariance `P V Pᵀ`, means `P μ + t` -/
theorem source_aff (pos : Nat → Nat) (n : Nat) (l : List (Applied K))
    (hall : ∀ a ∈ l, (a.hasRows ∨ a.isD = true) ∧ (∀ m ∈ a.regs, pos m < n))
    (V0 Vc : XP K) (P0 : Matrix (QI n) (QI n) K) (t0 : QI n → K)
    (hxx : ∀ i j, Vc.xx i j = Vc.xx j i) (hpp : ∀ i j, Vc.pp i j = Vc.pp j i)
    (hc : covMatrix n Vc = P0 * covMatrix n V0 * P0ᵀ) (hm : meanVec n Vc = P0 *ᵥ meanVec n V0 + t0) :
    covMatrix n ((l.map (Applied.gop' pos)).foldl applyXP Vc) =
        (l.foldl (affStep pos n) (P0, t0)).1 * covMatrix n V0 * ((l.foldl (affStep pos n) (P0, t0)).1)ᵀ ∧
      meanVec n ((l.map (Applied.gop' pos)).foldl applyXP Vc) =
        (l.foldl (affStep pos n) (P0, t0)).1 *ᵥ meanVec n V0 + (l.foldl (affStep pos n) (P0, t0)).2 := by
  induction l generalizing Vc P0 t0 with
  | nil => exact ⟨hc, hm⟩
  | cons a l ih =>
    obtain ⟨h1, h2⟩ := hall a (by simp)
    simp only [List.map_cons, List.foldl_cons]
    rcases h1 with h1 | h1
    · -- a gate with rows
      have hg : a.gop' pos = a.gop pos := by
        obtain ⟨g, regs, d⟩ := a
        cases g <;> simp only [Applied.hasRows] at h1 <;> first | exact h1.elim | rfl
      rw [hg, applyXP_gop pos a h1]
      obtain ⟨sxx, spp⟩ := linMap_symm (a.rows pos) Vc hxx hpp
      have hsup := applied_supported pos n a h1 h2
      have hstep : affStep pos n (P0, t0) a =
          (rowsMatrix n (a.rows pos) * P0, rowsMatrix n (a.rows pos) *ᵥ t0) := by
        simp [affStep, hasRows_not_isD a h1]
      rw [hstep]
      refine ih (fun b hb => hall b (by simp [hb])) _ _ _ sxx spp ?_ ?_
      · rw [covMatrix_linMap n _ hsup Vc hxx hpp, hc]
        simp only [Matrix.transpose_mul, Matrix.mul_assoc]
      · rw [meanVec_linMap n _ hsup, hm, Matrix.mulVec_add, Matrix.mulVec_mulVec]
    · -- a displacement
      obtain ⟨g, regs, d⟩ := a
      cases g with
      | D ar ai =>
        match regs, h1 with
        | [m], _ =>
          simp only [Applied.gop', applyXP]
          have hstep : affStep pos n (P0, t0) ({ g := .D ar ai, regs := [m], dagger := d } : Applied K) =
              (P0, t0 + Applied.dvec pos n ({ g := .D ar ai, regs := [m], dagger := d } : Applied K)) := by
            simp [affStep, Applied.isD]
          rw [hstep]
          refine ih (fun b hb => hall b (by simp [hb])) _ _ _ hxx hpp ?_ ?_
          · rw [covMatrix_shift, hc]
          · simp only [Applied.dvec]
            rw [← add_assoc, ← hm]
            funext v
            obtain ⟨⟨i, hi⟩, b⟩ := v
            cases b <;> cases d <;>
              by_cases e : i = pos m <;> simp [meanVec, shift, XP.mean, toQ, sgn, e]
      | R _ _ => simp [Applied.isD] at h1
      | S _ _ _ _ => simp [Applied.isD] at h1
      | BS _ _ _ _ => simp [Applied.isD] at h1
      | S2 _ _ _ _ => simp [Applied.isD] at h1
      | MZ _ _ _ => simp [Applied.isD] at h1
      | sMZ _ _ _ => simp [Applied.isD] at h1

theorem applied_wf' (a : Applied K) (h : a.hasRows ∨ a.isD = true) : a.cmd.wf := by
  rcases h with h | h
  · exact applied_wf a h
  · obtain ⟨g, regs, d⟩ := a
    cases g with
    | D ar ai =>
      match regs, h with
      | [m], _ => simp [Applied.cmd, Gate.cmd, GCmd.wf]
    | R _ _ => simp [Applied.isD] at h
    | S _ _ _ _ => simp [Applied.isD] at h
    | BS _ _ _ _ => simp [Applied.isD] at h
    | S2 _ _ _ _ => simp [Applied.isD] at h
    | MZ _ _ _ => simp [Applied.isD] at h
    | sMZ _ _ _ => simp [Applied.isD] at h

/-- **compiled = source on the specification of the Gaussian simulator, displacements included**: the source
gates (rotations, squeezers, beamsplitters, displacements, any dagger pattern, any index set) transform every
symmetric Gaussian state `(μ, V)` into `(S_net μ + r_net, S_net V S_netᵀ)` with the emitted matrix and the emitted
displacement vector -/
theorem compileGU_source_aff [DecidableEq K] (registers : List Nat) (l : List (Applied K))
    (hreg : ∀ a ∈ l, ∀ m ∈ a.regs, m ∈ registers) (hok : ∀ a ∈ l, a.hasRows ∨ a.isD = true) (V : XP K)
    (hxx : ∀ i j, V.xx i j = V.xx j i) (hpp : ∀ i j, V.pp i j = V.pp j i) :
    covMatrix (compileGU registers (l.map Applied.cmd)).n
        ((l.map (Applied.gop' fun m => (compileGU registers (l.map Applied.cmd)).regs.idxOf m)).foldl applyXP V) =
      toMat (compileGU registers (l.map Applied.cmd)).n (compileGU registers (l.map Applied.cmd)).S *
        covMatrix (compileGU registers (l.map Applied.cmd)).n V *
        (toMat (compileGU registers (l.map Applied.cmd)).n (compileGU registers (l.map Applied.cmd)).S)ᵀ ∧
    meanVec (compileGU registers (l.map Applied.cmd)).n
        ((l.map (Applied.gop' fun m => (compileGU registers (l.map Applied.cmd)).regs.idxOf m)).foldl applyXP V) =
      toMat (compileGU registers (l.map Applied.cmd)).n (compileGU registers (l.map Applied.cmd)).S *ᵥ
        meanVec (compileGU registers (l.map Applied.cmd)).n V +
      toVec (compileGU registers (l.map Applied.cmd)).n (compileGU registers (l.map Applied.cmd)).r := by
  have hreg' : ∀ c ∈ l.map Applied.cmd, ∀ m ∈ c.regs, m ∈ registers := by
    intro c hc m hm
    obtain ⟨a, ha, rfl⟩ := List.mem_map.1 hc
    exact hreg a ha m hm
  have hwf : ∀ c ∈ l.map Applied.cmd, c.wf := by
    intro c hc
    obtain ⟨a, ha, rfl⟩ := List.mem_map.1 hc
    exact applied_wf' a (hok a ha)
  obtain ⟨hregs, hn, hnet⟩ := compileGU_net registers (l.map Applied.cmd) hreg' hwf
  have hpos : ∀ a ∈ l, ∀ m ∈ a.regs,
      (compileGU registers (l.map Applied.cmd)).regs.idxOf m < (compileGU registers (l.map Applied.cmd)).n := by
    intro a ha m hm
    rw [hn, hregs]
    exact idxOf_lt_of_mem (mem_usedModes (List.mem_map.2 ⟨a, ha, rfl⟩) hm)
  have hS : toMat _ (compileGU registers (l.map Applied.cmd)).S = toMat _ (netSpecGU _ _ (l.map Applied.cmd)).S :=
    toMat_congr _ (fun i j hi _ => hnet.1 i hi j)
  have hr : toVec (compileGU registers (l.map Applied.cmd)).n (compileGU registers (l.map Applied.cmd)).r =
      toVec _ (netSpecGU (fun m => (compileGU registers (l.map Applied.cmd)).regs.idxOf m)
        (compileGU registers (l.map Applied.cmd)).n (l.map Applied.cmd)).r := by
    funext v
    exact hnet.2 _ (xq_lt _ v)
  have hfold := applied_fold_aff (fun m => (compileGU registers (l.map Applied.cmd)).regs.idxOf m)
    (compileGU registers (l.map Applied.cmd)).n l (fun a ha => ⟨hok a ha, hpos a ha, fun m hm m' _ e => by
      rw [hregs] at e
      exact idxOf_inj (mem_usedModes (List.mem_map.2 ⟨a, ha, rfl⟩) hm) e⟩)
    ({ S := ident, r := fun _ => 0 } : Net K)
  have h0 : toVec (compileGU registers (l.map Applied.cmd)).n (fun _ => (0 : K)) = 0 := by funext v; rfl
  simp only [toMat_ident, h0] at hfold
  have hsrc := source_aff (fun m => (compileGU registers (l.map Applied.cmd)).regs.idxOf m)
    (compileGU registers (l.map Applied.cmd)).n l (fun a ha => ⟨hok a ha, hpos a ha⟩) V V 1 0 hxx hpp
    (by simp) (by simp)
  rw [hS, hr]
  simp only [netSpecGU]
  have h1 := congrArg Prod.fst hfold
  have h2 := congrArg Prod.snd hfold
  simp only at h1 h2
  rw [h1, h2]
  exact hsrc

theorem toXP_symm (st : GS K) (hI : NMInv st) :
    (∀ i j, (toXP st).xx i j = (toXP st).xx j i) ∧ (∀ i j, (toXP st).pp i j = (toXP st).pp j i) := by
  have hMs := NMInv.m_symm st hI
  constructor <;> intro i j <;> simp only [toXP, Vxx, Vpp] <;> rw [hMs i j] <;>
    by_cases h : i = j <;> simp [h, eq_comm] <;> ring

/-- **compiled = source on the model of the Gaussian back end**: `GaussianModes` (entrywise `nmat/mmat/mean`
updates, `applyNM`) run on the source gates from any state satisfying its representation invariant ends in the
state `(S_net μ + r_net, S_net V S_netᵀ)` -/
theorem compileGU_source_backend [DecidableEq K] (registers : List Nat) (l : List (Applied K))
    (hreg : ∀ a ∈ l, ∀ m ∈ a.regs, m ∈ registers) (hok : ∀ a ∈ l, a.hasRows ∨ a.isD = true)
    (hatoms : ∀ a ∈ l, (a.gop' fun m => (compileGU registers (l.map Applied.cmd)).regs.idxOf m).ok)
    (st : GS K) (hI : NMInv st) :
    covMatrix (compileGU registers (l.map Applied.cmd)).n (toXP
        ((l.map (Applied.gop' fun m => (compileGU registers (l.map Applied.cmd)).regs.idxOf m)).foldl applyNM st)) =
      toMat (compileGU registers (l.map Applied.cmd)).n (compileGU registers (l.map Applied.cmd)).S *
        covMatrix (compileGU registers (l.map Applied.cmd)).n (toXP st) *
        (toMat (compileGU registers (l.map Applied.cmd)).n (compileGU registers (l.map Applied.cmd)).S)ᵀ ∧
    meanVec (compileGU registers (l.map Applied.cmd)).n (toXP
        ((l.map (Applied.gop' fun m => (compileGU registers (l.map Applied.cmd)).regs.idxOf m)).foldl applyNM st)) =
      toMat (compileGU registers (l.map Applied.cmd)).n (compileGU registers (l.map Applied.cmd)).S *ᵥ
        meanVec (compileGU registers (l.map Applied.cmd)).n (toXP st) +
      toVec (compileGU registers (l.map Applied.cmd)).n (compileGU registers (l.map Applied.cmd)).r := by
  have hprog := (applyNM_program
    (l.map (Applied.gop' fun m => (compileGU registers (l.map Applied.cmd)).regs.idxOf m)) st hI
    (by
      intro op hop
      obtain ⟨a, ha, rfl⟩ := List.mem_map.1 hop
      exact hatoms a ha)).1
  rw [hprog]
  obtain ⟨hxx, hpp⟩ := toXP_symm st hI
  exact compileGU_source_aff registers l hreg hok (toXP st) hxx hpp

end SFV.GC
