import SFV.Model.Circuit
import Mathlib.Algebra.Group.Commute.Defs
import Mathlib.Data.List.Basic
import Mathlib.Data.List.Nodup
import Mathlib.Data.List.Chain
import Mathlib.Data.List.Pairwise
import Mathlib.Data.List.Perm.Basic
import Mathlib.Data.List.Perm.Subperm

/-! Helper lemmas for the circuit algebra (K1). -/
namespace SFV

/-! ### semantics in an arbitrary monoid -/
section Sem
variable {M : Type} [Monoid M]

/-- the meaning of a command list: ordered product of the meanings of its commands -/
def sem (f : Cmd → M) : List Cmd → M
  | [] => 1
  | c :: cs => f c * sem f cs

theorem sem_append (f : Cmd → M) (l₁ l₂ : List Cmd) : sem f (l₁ ++ l₂) = sem f l₁ * sem f l₂ := by
  induction l₁ with
  | nil => simp [sem]
  | cons a l ih => simp [sem, ih, mul_assoc]

/-- `h` commutes past a block of commands all independent of it -/
theorem commute_block (f : Cmd → M) (hcomm : ∀ a b, ¬ dep a b → f a * f b = f b * f a)
    (h : Cmd) (pre : List Cmd) (hind : ∀ x ∈ pre, ¬ dep x h) :
    sem f pre * f h = f h * sem f pre := by
  induction pre with
  | nil => simp [sem]
  | cons a l ih =>
    have h1 := hcomm a h (hind a (by simp))
    have h2 := ih (fun x hx => hind x (by simp [hx]))
    simp only [sem]
    rw [mul_assoc, h2, ← mul_assoc, h1, mul_assoc]
end Sem

/-- `Legal src out`: `out` is obtained from `src` by repeatedly moving to the front a command
all of whose predecessors are independent of it. -/
inductive Legal : List Cmd → List Cmd → Prop
  | nil : Legal [] []
  | cons (h : Cmd) (pre post out : List Cmd) :
      (∀ x ∈ pre, ¬ dep x h) → Legal (pre ++ post) out → Legal (pre ++ h :: post) (h :: out)

theorem legal_sem {M : Type} [Monoid M] (f : Cmd → M)
    (hcomm : ∀ a b, ¬ dep a b → f a * f b = f b * f a)
    {src out : List Cmd} (hl : Legal src out) : sem f out = sem f src := by
  induction hl with
  | nil => rfl
  | cons h pre post out hind _ ih =>
    simp only [sem, sem_append, ih]
    rw [← mul_assoc, ← commute_block f hcomm h pre hind, mul_assoc]

theorem legal_perm {src out : List Cmd} (hl : Legal src out) : out.Perm src := by
  induction hl with
  | nil => exact List.Perm.refl _
  | cons h pre post out _ _ ih =>
    exact (List.Perm.cons h ih).trans (List.perm_middle.symm)

/-! ### the executable checker is sound -/

theorem pull_spec {h : Cmd} {src src' : List Cmd} (hp : pull h src = some src') :
    ∃ pre post, src = pre ++ h :: post ∧ src' = pre ++ post ∧ ∀ x ∈ pre, ¬ dep x h := by
  induction src generalizing src' with
  | nil => simp [pull] at hp
  | cons x xs ih =>
    unfold pull at hp
    split at hp
    · rename_i hx
      subst hx
      refine ⟨[], xs, by simp, by simpa using hp.symm, by simp⟩
    · split at hp
      · simp at hp
      · rename_i hne hnd
        cases hq : pull h xs with
        | none => simp [hq] at hp
        | some r =>
          simp [hq] at hp
          obtain ⟨pre, post, e1, e2, e3⟩ := ih hq
          refine ⟨x :: pre, post, by simp [e1], by simp [← hp, e2], ?_⟩
          intro y hy
          rcases List.mem_cons.1 hy with rfl | hy
          · exact hnd
          · exact e3 y hy

theorem isLegal_sound : ∀ {src out : List Cmd}, isLegal src out = true → Legal src out := by
  intro src out
  induction out generalizing src with
  | nil =>
    intro h
    simp [isLegal] at h
    subst h
    exact Legal.nil
  | cons h out ih =>
    intro hl
    unfold isLegal at hl
    split at hl
    · simp at hl
    · rename_i src' hp
      obtain ⟨pre, post, e1, e2, e3⟩ := pull_spec hp
      subst e1
      subst e2
      exact Legal.cons h pre post out e3 (ih hl)

/-! ### order preservation -/

/-- `a` occurs before `b` in `l` -/
abbrev Before (l : List Cmd) (a b : Cmd) : Prop := List.Sublist [a, b] l

/-- `out` has the same commands as `l` and keeps the relative order of dependent commands -/
def Respects (l out : List Cmd) : Prop :=
  out.Perm l ∧ ∀ a b, dep a b → Before l a b → Before out a b

theorem before_ne {l : List Cmd} (hn : l.Nodup) {a b : Cmd} (h : Before l a b) : a ≠ b := by
  have := h.nodup hn
  simpa using this

theorem before_mem {l : List Cmd} {a b : Cmd} (h : Before l a b) : a ∈ l ∧ b ∈ l :=
  ⟨h.subset (by simp), h.subset (by simp)⟩

/-- dropping an element different from `a` and `b` keeps `a` before `b` -/
theorem before_remove {pre post : List Cmd} {h a b : Cmd} (hn : (pre ++ h :: post).Nodup)
    (hb : Before (pre ++ h :: post) a b) (ha : a ≠ h) (hbh : b ≠ h) : Before (pre ++ post) a b := by
  have hf := hb.filter (fun c => decide (c ≠ h))
  have hpre : h ∉ pre := by
    intro hm
    have := List.nodup_append.1 hn
    exact this.2.2 h hm h (by simp) rfl
  have hpost : h ∉ post := by
    have := (List.nodup_append.1 hn).2.1
    exact (List.nodup_cons.1 this).1
  have e1 : (pre ++ h :: post).filter (fun c => decide (c ≠ h)) = pre ++ post := by
    rw [List.filter_append, List.filter_cons]
    simp only [ne_eq, not_true_eq_false, decide_false, Bool.false_eq_true, ↓reduceIte]
    rw [List.filter_eq_self.2, List.filter_eq_self.2]
    · intro c hc; simp; rintro rfl; exact hpost hc
    · intro c hc; simp; rintro rfl; exact hpre hc
  have e2 : [a, b].filter (fun c => decide (c ≠ h)) = [a, b] := by
    simp [ha, hbh]
  rw [e1, e2] at hf
  exact hf

theorem before_insert {pre post : List Cmd} {h a b : Cmd} (hb : Before (pre ++ post) a b) :
    Before (pre ++ h :: post) a b :=
  hb.trans (List.Sublist.append (List.Sublist.refl pre) (List.sublist_cons_self h post))

theorem before_cons_of_ne {out : List Cmd} {h a b : Cmd} (hb : Before (h :: out) a b) (ha : a ≠ h) :
    Before out a b := by
  cases hb with
  | cons _ h' => exact h'
  | cons_cons _ _ => exact absurd rfl ha

theorem respects_legal : ∀ {l out : List Cmd}, l.Nodup → Respects l out → Legal l out := by
  intro l out
  induction out generalizing l with
  | nil =>
    intro _ hr
    have : l = [] := by simpa using hr.1.symm.eq_nil
    subst this
    exact Legal.nil
  | cons h out ih =>
    intro hn hr
    obtain ⟨hperm, hord⟩ := hr
    have hmem : h ∈ l := hperm.subset (by simp)
    obtain ⟨pre, post, rfl⟩ := List.append_of_mem hmem
    have hnout : (h :: out).Nodup := hperm.nodup_iff.2 hn
    have hhout : h ∉ out := (List.nodup_cons.1 hnout).1
    have hpre : h ∉ pre := by
      intro hm
      exact (List.nodup_append.1 hn).2.2 h hm h (by simp) rfl
    have hpost : h ∉ post := (List.nodup_cons.1 (List.nodup_append.1 hn).2.1).1
    refine Legal.cons h pre post out ?_ (ih ?_ ⟨?_, ?_⟩)
    · intro x hx hd
      have hb : Before (pre ++ h :: post) x h :=
        List.Sublist.append (List.singleton_sublist.2 hx)
          (List.Sublist.cons_cons h (List.nil_sublist post))
      have hb' := hord x h hd hb
      have hxh : x ≠ h := by rintro rfl; exact hpre hx
      have := before_cons_of_ne hb' hxh
      exact hhout (before_mem this).2
    · have := hn
      rw [List.nodup_append] at this ⊢
      refine ⟨this.1, (List.nodup_cons.1 this.2.1).2, ?_⟩
      intro a ha b hb
      exact this.2.2 a ha b (List.mem_cons_of_mem _ hb)
    · have := hperm.trans List.perm_middle
      exact this.cons_inv
    · intro a b hd hb
      have hab := before_mem hb
      have hah : a ≠ h := by
        rintro rfl
        rcases List.mem_append.1 hab.1 with h1 | h1
        · exact hpre h1
        · exact hpost h1
      exact before_cons_of_ne (hord a b hd (before_insert hb)) hah

theorem legal_respects {l out : List Cmd} (hl : Legal l out) (hn : l.Nodup) : Respects l out := by
  refine ⟨legal_perm hl, ?_⟩
  induction hl with
  | nil => intro a b _ hb; simp at hb
  | cons h pre post out hind hleg ih =>
    intro a b hd hb
    have hpre : h ∉ pre := by
      intro hm
      exact (List.nodup_append.1 hn).2.2 h hm h (by simp) rfl
    have hpost : h ∉ post := (List.nodup_cons.1 (List.nodup_append.1 hn).2.1).1
    have hn' : (pre ++ post).Nodup := by
      have := hn
      rw [List.nodup_append] at this ⊢
      refine ⟨this.1, (List.nodup_cons.1 this.2.1).2, ?_⟩
      intro a ha b hb
      exact this.2.2 a ha b (List.mem_cons_of_mem _ hb)
    have hab := before_ne hn hb
    have hmem := before_mem hb
    by_cases ha : a = h
    · subst ha
      have hbm : b ∈ pre ++ post := by
        rcases List.mem_append.1 hmem.2 with h1 | h1
        · exact List.mem_append_left _ h1
        · rcases List.mem_cons.1 h1 with h2 | h2
          · exact absurd h2.symm hab
          · exact List.mem_append_right _ h2
      have : b ∈ out := (legal_perm hleg).symm.subset hbm
      exact List.Sublist.cons_cons a (List.singleton_sublist.2 this)
    · by_cases hbh : b = h
      · subst hbh
        exfalso
        -- a must lie in `pre`, contradicting independence
        have : a ∈ pre := by
          rcases List.sublist_append_iff.1 hb with ⟨l1, l2, e, h1, h2⟩
          match l1, e with
          | [], e =>
            simp at e; subst e
            cases h2 with
            | cons _ h3 => exact absurd (h3.subset (by simp)) hpost
            | cons_cons _ _ => exact absurd rfl ha
          | [x], e =>
            simp at e
            obtain ⟨rfl, _⟩ := e
            exact h1.subset (by simp)
          | x :: y :: r, e =>
            simp at e
            obtain ⟨rfl, rfl, _⟩ := e
            exact absurd (h1.subset (by simp)) hpre
        exact hind a this hd
      · have hb' := before_remove hn hb ha hbh
        exact List.Sublist.cons _ (ih hn' a b hd hb')

/-! ### every topological order of the wire DAG is legal -/

theorem consecPairs_chain (R : Cmd → Cmd → Prop) :
    ∀ r : List Cmd, (∀ e ∈ consecPairs r, R e.1 e.2) → List.IsChain R r
  | [] => fun _ => List.IsChain.nil
  | [a] => fun _ => List.IsChain.singleton a
  | a :: b :: rest => fun h => by
    refine List.IsChain.cons_cons (h (a, b) (by simp [consecPairs])) ?_
    exact consecPairs_chain R (b :: rest) (fun e he => h e (by simp [consecPairs, he]))

theorem idxOf_lt_before : ∀ {out : List Cmd} {a b : Cmd}, b ∈ out →
    out.idxOf a < out.idxOf b → Before out a b := by
  intro out
  induction out with
  | nil => intro a b hb; simp at hb
  | cons x xs ih =>
    intro a b hb hlt
    by_cases hxa : x = a
    · subst hxa
      have hxb : x ≠ b := by
        rintro rfl
        simp at hlt
      have : b ∈ xs := by
        rcases List.mem_cons.1 hb with h | h
        · exact absurd h.symm hxb
        · exact h
      exact List.Sublist.cons_cons x (List.singleton_sublist.2 this)
    · have hxb : x ≠ b := by
        rintro rfl
        simp at hlt
      have hb' : b ∈ xs := by
        rcases List.mem_cons.1 hb with h | h
        · exact absurd h.symm hxb
        · exact h
      rw [List.idxOf_cons_ne _ hxa, List.idxOf_cons_ne _ hxb] at hlt
      exact List.Sublist.cons _ (ih hb' (by omega))

end SFV

namespace SFV

theorem mem_insertSorted {x y : Nat} : ∀ {l : List Nat}, y ∈ insertSorted x l ↔ y = x ∨ y ∈ l := by
  intro l
  induction l with
  | nil => simp [insertSorted]
  | cons z zs ih =>
    unfold insertSorted
    split
    · simp
    · split
      · rename_i _ h; subst h; simp
      · simp [ih]; tauto

theorem mem_sortDedup {y : Nat} : ∀ {l : List Nat}, y ∈ sortDedup l ↔ y ∈ l := by
  intro l
  induction l with
  | nil => simp [sortDedup]
  | cons z zs ih =>
    have : sortDedup (z :: zs) = insertSorted z (sortDedup zs) := rfl
    rw [this, mem_insertSorted, ih]; simp

theorem row_edges_mem {l : List Cmd} {a : Cmd} {w : Nat} (ha : a ∈ l) (hw : w ∈ a.wires) :
    ∀ e ∈ consecPairs (gridRow l w), e ∈ dagEdges l := by
  intro e he
  unfold dagEdges gridEdges listToGrid
  rw [List.mem_flatMap]
  refine ⟨(w, gridRow l w), ?_, he⟩
  rw [List.mem_map]
  refine ⟨w, ?_, rfl⟩
  unfold allWires
  rw [mem_sortDedup, List.mem_flatMap]
  exact ⟨a, ha, hw⟩

theorem linExt_respects {l out : List Cmd} (hn : l.Nodup) (h : isLinExt l out = true) :
    Respects l out := by
  unfold isLinExt at h
  simp only [Bool.and_eq_true, beq_iff_eq, List.all_eq_true, List.contains_iff_mem,
    decide_eq_true_eq] at h
  obtain ⟨⟨hlen, hsub⟩, hedges⟩ := h
  have hperm : out.Perm l := by
    have hsp : l.Subperm out := List.subperm_of_subset hn (fun c hc => hsub c hc)
    exact (hsp.perm_of_length_le (by omega)).symm
  refine ⟨hperm, ?_⟩
  intro a b hd hb
  obtain ⟨w, hwa, hwb⟩ := hd
  have hmem := before_mem hb
  -- both commands are on row `w`, in the same order
  have hrow : Before (gridRow l w) a b := by
    have := hb.filter (fun c => c.wires.contains w)
    simpa [gridRow, hwa, hwb] using this
  -- the chain of edges along the row orders every pair on it
  let R : Cmd → Cmd → Prop := fun x y => out.idxOf x < out.idxOf y
  have hchain : List.IsChain R (gridRow l w) :=
    consecPairs_chain R _ (fun e he => hedges e (row_edges_mem hmem.1 hwa e he))
  have : IsTrans Cmd R := ⟨fun x y z h1 h2 => Nat.lt_trans h1 h2⟩
  have hpw : List.Pairwise R (gridRow l w) := List.isChain_iff_pairwise.1 hchain
  have hab : R a b := (List.pairwise_iff_forall_sublist.1 hpw) hrow
  exact idxOf_lt_before (hperm.symm.subset hmem.2) hab

/-- every topological order of the wire DAG is a legal reordering -/
theorem linExt_legal {l out : List Cmd} (hn : l.Nodup) (h : isLinExt l out = true) : Legal l out :=
  respects_legal hn (linExt_respects hn h)

/-! ### Legal is transitive-ish: composition through Respects -/

theorem respects_trans {l m out : List Cmd} (h1 : Respects l m) (h2 : Respects m out) :
    Respects l out :=
  ⟨h2.1.trans h1.1, fun a b hd hb => h2.2 a b hd (h1.2 a b hd hb)⟩

theorem respects_refl (l : List Cmd) : Respects l l := ⟨List.Perm.refl _, fun _ _ _ h => h⟩

/-- appending a prefix that is kept fixed -/
theorem respects_append_left {a l out : List Cmd} (hn : (a ++ l).Nodup) (h : Respects l out) :
    Respects (a ++ l) (a ++ out) := by
  refine ⟨List.Perm.append_left a h.1, ?_⟩
  intro x y hd hb
  have hdisj := (List.nodup_append.1 hn).2.2
  rcases List.sublist_append_iff.1 hb with ⟨l1, l2, e, h1, h2⟩
  match l1, e with
  | [], e =>
    simp at e; subst e
    exact (h.2 x y hd h2).trans (List.sublist_append_right a out)
  | [x'], e =>
    simp at e
    obtain ⟨rfl, rfl⟩ := e
    have hy : y ∈ out := h.1.symm.subset (h2.subset (by simp))
    exact List.Sublist.append h1 (List.singleton_sublist.2 hy)
  | x' :: y' :: r, e =>
    simp at e
    obtain ⟨rfl, rfl, rfl, rfl⟩ := e
    exact h1.trans (List.sublist_append_left a out)

end SFV

namespace SFV

/-! ### group_operations -/

theorem take_findIdx_false (p : Cmd → Bool) : ∀ l : List Cmd, ∀ c ∈ l.take (l.findIdx p), p c = false := by
  intro l
  induction l with
  | nil => simp
  | cons x xs ih =>
    intro c hc
    rw [List.findIdx_cons] at hc
    by_cases hx : p x = true
    · simp [hx] at hc
    · simp [hx] at hc
      rcases hc with rfl | hc
      · simpa using hx
      · exact ih c hc

theorem drop_findIdx_head (p : Cmd → Bool) : ∀ l : List Cmd, ∀ c ∈ (l.drop (l.findIdx p)).head?, p c = true := by
  intro l
  induction l with
  | nil => simp
  | cons x xs ih =>
    intro c hc
    rw [List.findIdx_cons] at hc
    by_cases hx : p x = true
    · simp [hx] at hc; subst hc; exact hx
    · simp [hx] at hc
      exact ih c (by simpa using hc)

theorem drop_len_sub_findIdx_reverse_false (p : Cmd → Bool) (l : List Cmd) :
    ∀ c ∈ l.drop (l.length - l.reverse.findIdx p), p c = false := by
  intro c hc
  have h := take_findIdx_false p l.reverse
  have e : l.drop (l.length - l.reverse.findIdx p) = (l.reverse.take (l.reverse.findIdx p)).reverse := by
    rw [List.reverse_take]; simp
  rw [e] at hc
  exact h c (List.mem_reverse.1 hc)

/-- `group_operations`: for every pair of topological sorts NetworkX may return, `A ++ B ++ C` is
the input reordered respecting all dependencies, `A` and `C` contain no marked command, every
marked command is in `B`, and `B = [] → C = []`. -/
theorem groupSplit_spec {seq c1 c2 : List Cmd} (hn : seq.Nodup)
    (h1 : isLinExt seq c1 = true) (h2 : isLinExt (groupRest c1) c2 = true) :
    Respects seq ((groupSplit c1 c2).1 ++ (groupSplit c1 c2).2.1 ++ (groupSplit c1 c2).2.2) ∧
    (∀ c ∈ (groupSplit c1 c2).1, c.marked = false) ∧
    (∀ c ∈ (groupSplit c1 c2).2.2, c.marked = false) ∧
    ((groupSplit c1 c2).2.1 = [] → (groupSplit c1 c2).2.2 = []) ∧
    (∀ c ∈ seq, c.marked = true → c ∈ (groupSplit c1 c2).2.1) := by
  have r1 := linExt_respects hn h1
  have hn1 : c1.Nodup := r1.1.nodup_iff.2 hn
  have hsplit : c1 = c1.take (firstMarked c1) ++ groupRest c1 := by
    simp [groupRest]
  have hn1' : (c1.take (firstMarked c1) ++ groupRest c1).Nodup := by rw [← hsplit]; exact hn1
  have hnrest : (groupRest c1).Nodup := (List.nodup_append.1 hn1').2.1
  have r2 := linExt_respects hnrest h2
  have hA : ∀ c ∈ c1.take (firstMarked c1), c.marked = false :=
    take_findIdx_false (fun c => c.marked) c1
  have hC : ∀ c ∈ c2.drop (c2.length - firstMarked c2.reverse), c.marked = false :=
    drop_len_sub_findIdx_reverse_false (fun c => c.marked) c2
  have hall : Respects seq (c1.take (firstMarked c1) ++ c2) := by
    have := respects_append_left hn1' r2
    rw [← hsplit] at this
    exact respects_trans r1 this
  simp only [groupSplit]
  refine ⟨?_, hA, hC, ?_, ?_⟩
  · rw [List.append_assoc, List.take_append_drop]; exact hall
  · intro hB
    by_cases hc2 : c2 = []
    · simp [hc2]
    · exfalso
      -- `groupRest c1` is non-empty, so its head is marked, so `c2` contains a marked command
      have hrne : groupRest c1 ≠ [] := by
        intro he
        have := r2.1
        rw [he] at this
        exact hc2 this.eq_nil
      obtain ⟨m, hm⟩ : ∃ m, (groupRest c1).head? = some m := by
        cases hh : groupRest c1 with
        | nil => exact absurd hh hrne
        | cons m _ => exact ⟨m, rfl⟩
      have hmm : m.marked = true := drop_findIdx_head (fun c => c.marked) c1 m (by
        simpa [groupRest, firstMarked] using hm)
      have hmem : m ∈ c2.reverse := by
        rw [List.mem_reverse]
        exact r2.1.symm.subset (List.mem_of_mem_head? hm)
      have hlt : firstMarked c2.reverse < c2.reverse.length :=
        List.findIdx_lt_length_of_exists ⟨m, hmem, hmm⟩
      have hpos : 0 < c2.length - firstMarked c2.reverse := by
        simp at hlt; omega
      have hne : c2.take (c2.length - firstMarked c2.reverse) ≠ [] := by
        cases c2 with
        | nil => exact absurd rfl hc2
        | cons x xs =>
          obtain ⟨k, hk⟩ := Nat.exists_eq_succ_of_ne_zero (Nat.pos_iff_ne_zero.1 hpos)
          rw [hk]; simp
      exact hne hB
  · intro c hc hm
    have hc1 : c ∈ c1 := r1.1.symm.subset hc
    rw [hsplit] at hc1
    rcases List.mem_append.1 hc1 with h | h
    · rw [hA c h] at hm; cases hm
    · have hc2 : c ∈ c2 := r2.1.symm.subset h
      rw [← List.take_append_drop (c2.length - firstMarked c2.reverse) c2] at hc2
      rcases List.mem_append.1 hc2 with h' | h'
      · exact h'
      · rw [hC c h'] at hm; cases hm

/-! ### gbs measurement collection -/

theorem collectMeasured_spec : ∀ (b : List Cmd) (acc ms : List Nat),
    collectMeasured b acc = .ok ms →
    (∀ c ∈ b, c.marked = true) ∧ (∀ r, r ∈ ms ↔ r ∈ acc ∨ ∃ c ∈ b, r ∈ c.regs) ∧
    (∀ c ∈ b, ∀ r ∈ c.regs, r ∉ acc) := by
  intro b
  induction b with
  | nil =>
    intro acc ms h
    simp [collectMeasured] at h
    cases h
    simp
  | cons c cs ih =>
    intro acc ms h
    unfold collectMeasured at h
    split at h
    · cases h
    · rename_i hm
      split at h
      · cases h
      · rename_i hdis
        obtain ⟨i1, i2, i3⟩ := ih _ _ h
        simp at hm hdis
        refine ⟨?_, ?_, ?_⟩
        · intro d hd
          rcases List.mem_cons.1 hd with rfl | hd
          · exact hm
          · exact i1 d hd
        · intro r
          rw [i2 r]
          simp only [List.mem_append, List.mem_eraseDups, List.mem_cons, exists_eq_or_imp]
          tauto
        · intro d hd r hr
          rcases List.mem_cons.1 hd with rfl | hd
          · exact hdis r hr
          · intro hacc
            exact i3 d hd r hr (List.mem_append_left _ hacc)

/-- when the GBS measurement collection does not raise: nothing follows the measurements, the
middle block consists of Fock measurements only, and the result is the leading part followed by a
single measurement on exactly the union of the measured modes. -/
theorem gbsCollect_spec {a b c out : List Cmd} {newId : Nat} (h : gbsCollect a b c newId = .ok out) :
    c = [] ∧ b ≠ [] ∧ (∀ x ∈ b, x.marked = true) ∧
    ∃ m : Cmd, out = a ++ [m] ∧ m.marked = true ∧ (∀ r, r ∈ m.regs ↔ ∃ x ∈ b, r ∈ x.regs) := by
  unfold gbsCollect at h
  split at h
  · cases h
  · rename_i hc
    split at h
    · cases h
    · rename_i hb
      split at h
      · cases h
      · rename_i ms hms
        obtain ⟨i1, i2, _⟩ := collectMeasured_spec b [] ms hms
        simp at hc hb
        cases h
        refine ⟨hc, hb, i1, _, rfl, rfl, ?_⟩
        intro r
        simp [mem_sortDedup, i2 r]

end SFV
