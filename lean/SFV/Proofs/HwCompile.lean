import SFV.Model.HwCompile

/-!
# Lemmas for the hardware-compilation model (C12), part 1: ranges, parameter validation, layout cache,
mode limits, loop-offset insertion, phase compensation.  Core Lean only.
-/
namespace SFV.Hw

/-! ## ranges -/

theorem range_contains_iff (r : Range) (v : Rat) :
    r.contains v = true ↔ r.x - r.atol ≤ v ∧ v ≤ r.y + r.atol := by
  simp [Range.contains]

theorem rangesContain_iff (rs : List Range) (v : Rat) :
    rangesContain rs v = true ↔ ∃ r ∈ rs, r.x - r.atol ≤ v ∧ v ≤ r.y + r.atol := by
  simp [rangesContain, List.any_eq_true, range_contains_iff]

theorem mkRange_spec {a : List Rat} {r : Range} (h : mkRange a = some r) :
    r.x ≤ r.y ∧ r.atol = defaultAtol ∧ (a = [r.x] ∧ r.y = r.x ∨ a = [r.x, r.y]) := by
  unfold mkRange at h
  split at h
  · cases h; simp
  · split at h
    · cases h
    · cases h
      refine ⟨by grind, rfl, Or.inr rfl⟩
  · cases h

theorem firstInvalid_none_iff (rs : List Range) (vs : List Rat) :
    firstInvalid rs vs = none ↔ ∀ v ∈ vs, rangesContain rs v = true := by
  induction vs with
  | nil => simp [firstInvalid]
  | cons v vs ih =>
    simp only [firstInvalid, List.mem_cons, forall_eq_or_imp]
    by_cases h : rangesContain rs v = true <;> simp [h, ih]

theorem firstInvalid_some {rs : List Range} {vs : List Rat} {v : Rat} (h : firstInvalid rs vs = some v) :
    v ∈ vs ∧ rangesContain rs v = false := by
  induction vs with
  | nil => simp [firstInvalid] at h
  | cons w ws ih =>
    simp only [firstInvalid] at h
    by_cases hw : rangesContain rs w = true
    · simp only [hw, if_true] at h
      exact ⟨List.mem_cons_of_mem _ (ih h).1, (ih h).2⟩
    · simp only [hw] at h
      cases h
      exact ⟨List.mem_cons_self, by simpa using hw⟩

theorem validate_none_iff (g : List (String × List Range)) (ps : List (String × List Rat)) :
    validateParameters (some g) ps = none ↔
      ∀ e ∈ ps, ∃ rs, lookup g e.1 = some rs ∧ ∀ v ∈ e.2, rangesContain rs v = true := by
  induction ps with
  | nil => simp [validateParameters]
  | cons e es ih =>
    obtain ⟨p, vs⟩ := e
    simp only [validateParameters, List.mem_cons, forall_eq_or_imp]
    cases hl : lookup g p with
    | none => simp
    | some rs =>
      cases hf : firstInvalid rs vs with
      | none =>
        have := (firstInvalid_none_iff rs vs).1 hf
        simp only [hf, Option.some.injEq, exists_eq_left', ih]
        constructor
        · intro h; exact ⟨this, h⟩
        · intro h; exact h.2
      | some v =>
        have := firstInvalid_some hf
        simp only [hf, Option.some.injEq, exists_eq_left']
        constructor
        · intro h; cases h
        · intro h
          have := h.1 v this.1
          simp_all

theorem validate_error_sound {g : List (String × List Range)} {ps : List (String × List Rat)} {e : VErr}
    (h : validateParameters (some g) ps = some e) :
    (∃ p, e = .unknown p ∧ (∃ vs, (p, vs) ∈ ps) ∧ lookup g p = none) ∨
    (∃ p v rs, e = .invalid p v ∧ lookup g p = some rs ∧ (∃ vs, (p, vs) ∈ ps ∧ v ∈ vs) ∧
      rangesContain rs v = false) := by
  induction ps with
  | nil => simp [validateParameters] at h
  | cons x xs ih =>
    obtain ⟨p, vs⟩ := x
    simp only [validateParameters] at h
    cases hl : lookup g p with
    | none =>
      simp only [hl, Option.some.injEq] at h
      subst h
      exact Or.inl ⟨p, rfl, ⟨vs, List.mem_cons_self⟩, hl⟩
    | some rs =>
      simp only [hl] at h
      cases hf : firstInvalid rs vs with
      | some v =>
        simp only [hf, Option.some.injEq] at h
        subst h
        have := firstInvalid_some hf
        exact Or.inr ⟨p, v, rs, rfl, hl, ⟨vs, List.mem_cons_self, this.1⟩, this.2⟩
      | none =>
        simp only [hf] at h
        rcases ih h with ⟨q, he, ⟨ws, hw⟩, hq⟩ | ⟨q, v, rs', he, hq, ⟨ws, hw, hv⟩, hr⟩
        · exact Or.inl ⟨q, he, ⟨ws, List.mem_cons_of_mem _ hw⟩, hq⟩
        · exact Or.inr ⟨q, v, rs', he, hq, ⟨ws, List.mem_cons_of_mem _ hw, hv⟩, hr⟩

/-! ## layout cache -/

/-- the cached layout is "set" -/
def isSet : Option String → Bool
  | some l => l ≠ ""
  | none => false

theorem initCircuit_set {cur : Option String} (h : isSet cur = true) (layout : String) :
    initCircuit cur layout =
      if (cur.map stripNewlines) = some (stripNewlines layout) then some cur else none := by
  cases cur with
  | none => simp [isSet] at h
  | some l =>
    have hl : l ≠ "" := by simpa [isSet] using h
    simp only [initCircuit, hl, ne_eq, not_false_eq_true, if_true, Option.map_some, Option.some.injEq]
    by_cases hs : stripNewlines l = stripNewlines layout <;> simp [hs]

theorem initCircuit_unset {cur : Option String} (h : isSet cur = false) (layout : String) :
    initCircuit cur layout = some (some layout) := by
  cases cur with
  | none => rfl
  | some l =>
    have hl : l = "" := by simpa [isSet] using h
    simp [initCircuit, hl]

/-- once set, a history without `reset` never changes the cached layout, and accepts exactly the
layouts equal to it up to newlines -/
theorem runLayout_set {cur : Option String} (h : isSet cur = true) (evs : List LayoutEv)
    (hnr : ∀ e ∈ evs, ∃ l, e = LayoutEv.init l) :
    (runLayout cur evs).1 = cur ∧
    (runLayout cur evs).2 = evs.map fun e =>
      match e with
      | .init l => decide (cur.map stripNewlines = some (stripNewlines l))
      | .reset => true := by
  induction evs with
  | nil => simp [runLayout]
  | cons e es ih =>
    have ih' := ih (fun e he => hnr e (List.mem_cons_of_mem _ he))
    obtain ⟨l, rfl⟩ := hnr e List.mem_cons_self
    simp only [runLayout, initCircuit_set h]
    by_cases hs : cur.map stripNewlines = some (stripNewlines l)
    · rw [if_pos hs]
      refine ⟨ih'.1, ?_⟩
      simp only [List.map_cons, decide_eq_true hs]
      rw [ih'.2]
    · rw [if_neg hs]
      refine ⟨ih'.1, ?_⟩
      simp only [List.map_cons, decide_eq_false hs]
      rw [ih'.2]

/-! ## mode limits -/

theorem assertModesInt_mono {t t' m m' : Nat} (ht : t' ≤ t) (hm : m ≤ m')
    (h : assertModesInt t m = none) : assertModesInt t' m' = none := by
  unfold assertModesInt at *
  split at h
  · cases h
  · rw [if_neg]; omega

theorem countMeas_cons (k : MeasKind) (n : Nat) (rest : List (MeasKind × Nat)) :
    countMeas ((k, n) :: rest) =
      ((countMeas rest).1 + (if k = .pnr then n else 0),
       (countMeas rest).2.1 + (if k = .homodyne then n else 0),
       (countMeas rest).2.2 + (if k = .heterodyne then n else 0)) := by
  simp only [countMeas]
  rcases countMeas rest with ⟨a, b, c⟩
  cases k <;> simp

theorem countMeas_sublist {c c' : List (MeasKind × Nat)} (h : c'.Sublist c) :
    (countMeas c').1 ≤ (countMeas c).1 ∧ (countMeas c').2.1 ≤ (countMeas c).2.1 ∧
      (countMeas c').2.2 ≤ (countMeas c).2.2 := by
  induction h with
  | slnil => simp
  | cons a _ ih =>
    obtain ⟨k, n⟩ := a
    rw [countMeas_cons]
    simp only
    omega
  | cons_cons a _ ih =>
    obtain ⟨k, n⟩ := a
    rw [countMeas_cons, countMeas_cons]
    simp only
    omega

theorem assertModesDict_none_iff (c : List (MeasKind × Nat)) (p h t : Nat) :
    assertModesDict c p h t = none ↔
      (countMeas c).1 ≤ p ∧ (countMeas c).2.1 ≤ h ∧ (countMeas c).2.2 ≤ t := by
  unfold assertModesDict
  rcases hc : countMeas c with ⟨a, b, d⟩
  simp only
  by_cases h1 : a > p
  · simp [h1] <;> omega
  · by_cases h2 : b > h
    · simp [h1, h2] <;> omega
    · by_cases h3 : d > t
      · simp [h1, h2, h3] <;> omega
      · simp [h1, h2, h3] <;> omega

theorem tdmAssertModes_none_iff (tb c s tmax dc ds : Nat) :
    tdmAssertModes tb c s tmax dc ds = none ↔ tb ≤ tmax ∧ c = dc ∧ s = ds := by
  unfold tdmAssertModes
  by_cases h1 : tb > tmax
  · simp [h1] <;> omega
  · by_cases h2 : c = dc
    · by_cases h3 : s = ds
      · simp [h1, h2, h3] <;> omega
      · simp [h1, h2, h3]
    · simp [h1, h2]

/-! ## loop-offset insertion -/

/-- same operation class and same wires -/
def sameOp (l u : TCmd) : Prop := l.cls = u.cls ∧ l.wires = u.wires

/-- `out` is `seq` with layout loop-offset gates inserted -/
inductive Inserted : List TCmd → List TCmd → Prop
  | nil : Inserted [] []
  | keep (u : TCmd) {s o : List TCmd} : Inserted s o → Inserted (u :: s) (u :: o)
  | ins (l : TCmd) {s o : List TCmd} : l.offset = true → Inserted s o → Inserted s (l :: o)

theorem Inserted.refl (s : List TCmd) : Inserted s s := by
  induction s with
  | nil => exact .nil
  | cons u s ih => exact .keep u ih

/-- position by position the output carries the class and wires of the layout, as long as both last -/
def Conforms : List TCmd → List TCmd → Prop
  | l :: ls, o :: os => sameOp l o ∧ Conforms ls os
  | _, _ => True

theorem inserted_offsets (l : List TCmd) (h : l.all (·.offset) = true) : Inserted [] l := by
  induction l with
  | nil => exact .nil
  | cons x xs ih =>
    simp only [List.all_cons, Bool.and_eq_true] at h
    exact .ins x h.1 (ih h.2)

theorem conforms_refl (l : List TCmd) : Conforms l l := by
  induction l with
  | nil => simp [Conforms]
  | cons x xs ih => exact ⟨⟨rfl, rfl⟩, ih⟩

theorem offsetInsert_spec (lay seq : List TCmd) {out : List TCmd} {fl : List Bool}
    (h : offsetInsert lay seq = some (out, fl)) :
    Conforms lay out ∧ lay.length ≤ out.length ∧ fl.length = (lay.filter (·.offset)).length ∧
    Inserted seq out := by
  induction lay generalizing seq out fl with
  | nil =>
    simp only [offsetInsert, Option.some.injEq, Prod.mk.injEq] at h
    obtain ⟨rfl, rfl⟩ := h
    simp [Conforms, Inserted.refl]
  | cons l ls ih =>
    cases seq with
    | nil =>
      simp only [offsetInsert] at h
      by_cases ha : (l :: ls).all (·.offset) = true
      · simp only [ha, if_true, Option.some.injEq, Prod.mk.injEq] at h
        obtain ⟨rfl, rfl⟩ := h
        refine ⟨conforms_refl _, Nat.le_refl _, ?_, inserted_offsets _ ha⟩
        rw [List.length_map, List.filter_eq_self.2]
        intro a ha'
        exact (List.all_eq_true.1 ha) a ha'
      · simp [ha] at h
    | cons u us =>
      simp only [offsetInsert] at h
      by_cases ho : l.offset = true
      · by_cases hne : l.cls ≠ u.cls ∨ l.wires ≠ u.wires
        · simp only [ho, hne, if_true, Option.map_eq_some_iff] at h
          obtain ⟨⟨s, f⟩, hrec, heq⟩ := h
          simp only [Prod.mk.injEq] at heq
          obtain ⟨rfl, rfl⟩ := heq
          have := ih (u :: us) hrec
          refine ⟨⟨⟨rfl, rfl⟩, this.1⟩, ?_, ?_, .ins l ho this.2.2.2⟩
          · simp only [List.length_cons]; omega
          · simp only [List.length_cons, List.filter_cons, ho, if_true]; omega
        · simp only [ho, hne, if_true, if_false, Option.map_eq_some_iff] at h
          obtain ⟨⟨s, f⟩, hrec, heq⟩ := h
          simp only [Prod.mk.injEq] at heq
          obtain ⟨rfl, rfl⟩ := heq
          have := ih us hrec
          have hs : sameOp l u := by
            constructor
            · exact Classical.byContradiction fun hc => hne (Or.inl hc)
            · exact Classical.byContradiction fun hc => hne (Or.inr hc)
          refine ⟨⟨hs, this.1⟩, ?_, ?_, .keep u this.2.2.2⟩
          · simp only [List.length_cons]; omega
          · simp only [List.length_cons, List.filter_cons, ho, if_true]; omega
      · by_cases hne : l.cls ≠ u.cls ∨ l.wires ≠ u.wires
        · simp [ho, hne] at h
        · simp only [ho, hne, if_false, Bool.false_eq_true, Option.map_eq_some_iff] at h
          obtain ⟨⟨s, f⟩, hrec, heq⟩ := h
          simp only [Prod.mk.injEq] at heq
          obtain ⟨rfl, rfl⟩ := heq
          have := ih us hrec
          have hs : sameOp l u := by
            constructor
            · exact Classical.byContradiction fun hc => hne (Or.inl hc)
            · exact Classical.byContradiction fun hc => hne (Or.inr hc)
          refine ⟨⟨hs, this.1⟩, ?_, ?_, .keep u this.2.2.2⟩
          · simp only [List.length_cons]; omega
          · simp only [List.filter_cons, ho]; simpa using this.2.2.1

/-! ## phase compensation (angles in units of π) -/

theorem mod2_range (q : Rat) : 0 ≤ mod2 q ∧ mod2 q < 2 := by
  unfold mod2
  have h1 := Rat.floor_le (q / 2)
  have h2 := Rat.lt_floor_add_one (q / 2)
  have : ((((q / 2).floor + 1 : Int)) : Rat) = ((q / 2).floor : Rat) + 1 := by simp [Rat.intCast_add]
  constructor <;> grind

theorem wrapPi_spec (q : Rat) :
    (∃ m : Int, wrapPi q = q + 2 * (m : Rat)) ∧ -1 < wrapPi q ∧ wrapPi q ≤ 1 := by
  have hr := mod2_range q
  unfold wrapPi
  simp only
  by_cases h : mod2 q > 1
  · rw [if_pos h]
    refine ⟨⟨-(q / 2).floor - 1, ?_⟩, by grind, by grind⟩
    unfold mod2
    simp [Rat.intCast_sub, Rat.intCast_neg]
    grind
  · rw [if_neg h]
    refine ⟨⟨-(q / 2).floor, ?_⟩, by grind, by grind⟩
    unfold mod2
    simp [Rat.intCast_neg]
    grind

theorem shiftIntoRange_spec (q : Rat) (h1 : -1 < q) (h2 : q ≤ 1) :
    -1 / 2 ≤ shiftIntoRange q ∧ shiftIntoRange q ≤ 1 / 2 ∧
    (shiftIntoRange q = q ∨ shiftIntoRange q = q + 1 ∨ shiftIntoRange q = q - 1) ∧
    (-1 / 2 ≤ q → q ≤ 1 / 2 → shiftIntoRange q = q) := by
  unfold shiftIntoRange
  by_cases a : q < -1 / 2
  · rw [if_pos a]; grind
  · rw [if_neg a]
    by_cases b : q > 1 / 2
    · rw [if_pos b]; grind
    · rw [if_neg b]; grind

/-- correction of the last compensated (non-user) loop before the current one -/
def prevAfter (prev : Nat → Rat) : List (Rat × Nat × Bool × List Rat) → Nat → Rat
  | [] => prev
  | (offset, delay, user, _) :: rest => prevAfter (if user then prev else corrAt offset delay) rest

theorem updateLoops_length (len : Nat) (prev : Nat → Rat) (loops : List (Rat × Nat × Bool × List Rat)) :
    (updateLoops len prev loops).length = loops.length := by
  induction loops generalizing prev with
  | nil => rfl
  | cons e es ih =>
    obtain ⟨o, d, u, ph⟩ := e
    by_cases hu : u = true <;> simp [updateLoops, hu, ih]

theorem updateLoops_get (len : Nat) (prev : Nat → Rat) (loops : List (Rat × Nat × Bool × List Rat))
    (i : Nat) (o : Rat) (d : Nat) (u : Bool) (ph : List Rat) (h : loops[i]? = some (o, d, u, ph)) :
    (updateLoops len prev loops)[i]? = some (if u then ph else
      (List.range len).map fun j => compensate (ph.getD j 0) (corrAt o d j) (prevAfter prev (loops.take i) j)) := by
  induction loops generalizing prev i with
  | nil => simp at h
  | cons e es ih =>
    obtain ⟨o', d', u', ph'⟩ := e
    cases i with
    | zero =>
      simp only [List.getElem?_cons_zero, Option.some.injEq, Prod.mk.injEq] at h
      obtain ⟨rfl, rfl, rfl, rfl⟩ := h
      by_cases hu : u' = true <;> simp [updateLoops, hu, prevAfter]
    | succ i =>
      simp only [List.getElem?_cons_succ] at h
      by_cases hu : u' = true
      · simp only [updateLoops, hu, if_true, List.getElem?_cons_succ, List.take_succ_cons, prevAfter]
        exact ih prev i h
      · simp only [updateLoops, hu, if_false, Bool.false_eq_true, List.getElem?_cons_succ, List.take_succ_cons,
          prevAfter]
        exact ih _ i h

theorem prevAfter_append_compensated (prev : Nat → Rat) (l : List (Rat × Nat × Bool × List Rat)) (o : Rat) (d : Nat)
    (ph : List Rat) : prevAfter prev (l ++ [(o, d, false, ph)]) = corrAt o d := by
  induction l generalizing prev with
  | nil => simp [prevAfter]
  | cons e es ih =>
    obtain ⟨o', d', u', ph'⟩ := e
    simp only [List.cons_append, prevAfter]
    exact ih _

/-- when the loop before loop `i + 1` is compensated by the compiler, loop `i + 1` (if compensated too) removes exactly that
loop's accumulated offset -/
theorem updateLoops_get_succ (len : Nat) (prev : Nat → Rat) (loops : List (Rat × Nat × Bool × List Rat))
    (i : Nat) (o o' : Rat) (d d' : Nat) (ph ph' : List Rat)
    (h0 : loops[i]? = some (o', d', false, ph')) (h1 : loops[i + 1]? = some (o, d, false, ph)) :
    (updateLoops len prev loops)[i + 1]? = some
      ((List.range len).map fun j => compensate (ph.getD j 0) (corrAt o d j) (corrAt o' d' j)) := by
  have := updateLoops_get len prev loops (i + 1) o d false ph h1
  rw [this]
  have ht : loops.take (i + 1) = loops.take i ++ [(o', d', false, ph')] := by
    rw [List.take_succ, h0]
    rfl
  simp only [Bool.false_eq_true, if_false, ht, prevAfter_append_compensated]

end SFV.Hw
