import SFV.Model.GaussCompile
import SFV.Proofs.Circuit
import Mathlib.Tactic.Ring
import Mathlib.Data.List.Sort

/-! Lemmas for the net-transformation accumulators (C11). -/
namespace SFV.GC

/-! ### sorted duplicate-free lists -/

theorem insertSorted_pairwise {x : Nat} : ∀ {l : List Nat}, l.Pairwise (· < ·) →
    (insertSorted x l).Pairwise (· < ·) := by
  intro l
  induction l with
  | nil => intro _; simp [insertSorted]
  | cons y ys ih =>
    intro h
    unfold insertSorted
    have hy := List.pairwise_cons.1 h
    split
    · rename_i hxy
      refine List.pairwise_cons.2 ⟨?_, h⟩
      intro a ha
      rcases List.mem_cons.1 ha with rfl | ha
      · exact hxy
      · exact Nat.lt_trans hxy (hy.1 a ha)
    · split
      · exact h
      · rename_i h1 h2
        refine List.pairwise_cons.2 ⟨?_, ih hy.2⟩
        intro a ha
        rcases mem_insertSorted.1 ha with rfl | ha
        · omega
        · exact hy.1 a ha

theorem sortDedup_pairwise (l : List Nat) : (sortDedup l).Pairwise (· < ·) := by
  induction l with
  | nil => simp [sortDedup]
  | cons z zs ih =>
    have : sortDedup (z :: zs) = insertSorted z (sortDedup zs) := rfl
    rw [this]; exact insertSorted_pairwise ih

theorem sortDedup_nodup (l : List Nat) : (sortDedup l).Nodup :=
  (sortDedup_pairwise l).imp (fun h => Nat.ne_of_lt h)

/-- `ord_reg` is the list of used modes when every used mode is a register -/
theorem ordReg_eq (registers l : List Nat) (h : ∀ m ∈ l, m ∈ registers) :
    ordReg registers (sortDedup l) = sortDedup l := by
  unfold ordReg
  refine List.Pairwise.eq_of_mem_iff (sortDedup_pairwise _) (sortDedup_pairwise _) ?_
  intro a
  simp only [mem_sortDedup, List.mem_filter, List.contains_iff_mem]
  constructor
  · intro ha; simpa [mem_sortDedup] using ha.2
  · intro ha; exact ⟨h a ha, by simpa [mem_sortDedup] using ha⟩

theorem idxOf_lt_of_mem {l : List Nat} {m : Nat} (h : m ∈ l) : l.idxOf m < l.length :=
  List.idxOf_lt_length_of_mem h

theorem idxOf_inj {l : List Nat} {a b : Nat} (ha : a ∈ l) (h : l.idxOf a = l.idxOf b) : a = b := by
  have := List.idxOf_inj (l := l) (x := a) (y := b) ha
  exact this.1 h

/-! ### the driver's tabulation is the identity -/

theorem ofTable_eq {K : Type} (arr : Array (Array K)) (X : Mat K)
    (h : ∀ i j (hi : i < arr.size) (hj : j < arr[i].size), arr[i][j] = X i j) : ofTable arr X = X := by
  funext i j
  unfold ofTable
  split
  · split
    · exact h i j _ _
    · rfl
  · rfl

theorem ofTable_tabulate {K : Type} (m : Nat) (X : Mat K) : ofTable (tabulate m X) X = X := by
  refine ofTable_eq _ _ ?_
  intro i j hi hj
  simp [tabulate]

theorem ofTableV_eq {K : Type} (arr : Array K) (r : Nat → K)
    (h : ∀ i (hi : i < arr.size), arr[i] = r i) : ofTableV arr r = r := by
  funext i
  unfold ofTableV
  split
  · exact h i _
  · rfl

theorem ofTableV_tabulateV {K : Type} (m : Nat) (r : Nat → K) : ofTableV (tabulateV m r) r = r := by
  refine ofTableV_eq _ _ ?_
  intro i hi
  simp [tabulateV]

theorem compileGUFast_eq {K : Type} [Zero K] [One K] [Add K] [Mul K] [Neg K] [DecidableEq K]
    (registers : List Nat) (cmds : List (GCmd K)) : compileGUFast registers cmds = compileGU registers cmds := by
  have : (freezeNet : Nat → Net K → Net K) = fun _ a => a := by
    funext n a
    simp only [freezeNet, ofTable_tabulate, ofTableV_tabulateV]
  simp only [compileGUFast, compileGU, compileGUWith, this]

theorem compilePFast_eq {K : Type} [Zero K] [One K] [Add K] [Mul K]
    (registers : List Nat) (cmds : List (PCmd K)) : compilePFast registers cmds = compileP registers cmds := by
  have : (freezeP : Nat → PNet K → PNet K) = fun _ a => a := by
    funext n a
    simp only [freezeP, ofTable_tabulate]
  simp only [compilePFast, compileP, this]

/-! ### dot products -/
section dot
variable {K : Type} [CommRing K]

theorem dot_congr {m : Nat} {f f' g g' : Nat → K} (h : ∀ k < m, f k = f' k) (h' : ∀ k < m, g k = g' k) :
    dot m f g = dot m f' g' := by
  induction m with
  | zero => rfl
  | succ m ih =>
    simp only [dot]
    rw [ih (fun k hk => h k (by omega)) (fun k hk => h' k (by omega)), h m (by omega), h' m (by omega)]

theorem dot_add (m : Nat) (f f' g : Nat → K) :
    dot m (fun k => f k + f' k) g = dot m f g + dot m f' g := by
  induction m with
  | zero => simp [dot]
  | succ m ih => simp only [dot, ih]; ring

theorem dot_single_ge (m i : Nat) (a : K) (g : Nat → K) (h : m ≤ i) :
    dot m (fun k => if k = i then a else 0) g = 0 := by
  induction m with
  | zero => rfl
  | succ m ih =>
    simp only [dot]
    rw [ih (by omega), if_neg (by omega)]; ring

theorem dot_single (m i : Nat) (a : K) (g : Nat → K) (h : i < m) :
    dot m (fun k => if k = i then a else 0) g = a * g i := by
  induction m with
  | zero => omega
  | succ m ih =>
    simp only [dot]
    by_cases hi : i = m
    · subst hi
      rw [dot_single_ge _ _ _ _ (Nat.le_refl _), if_pos rfl]; ring
    · rw [ih (by omega), if_neg (fun h => hi h.symm)]; ring

theorem dot_ident (m k : Nat) (g : Nat → K) (h : k < m) : dot m (ident k) g = g k := by
  have : dot m (ident k) g = dot m (fun k' => if k' = k then (1 : K) else 0) g :=
    dot_congr (fun k' _ => by simp [ident, eq_comm]) (fun _ _ => rfl)
  rw [this, dot_single m k 1 g h]; ring

end dot

/-! ### row operations are products with embedded blocks -/
section rows
variable {K : Type} [CommRing K] {β : Type}

/-- agreement on the first `m` rows -/
def EqOn (m : Nat) (X Y : Nat → β → K) : Prop := ∀ k, k < m → ∀ b, X k b = Y k b

theorem mulE_congr {m : Nat} (E : Mat K) {X Y : Nat → β → K} (h : EqOn m X Y) :
    mulE m E X = mulE m E Y := by
  funext k b
  exact dot_congr (fun _ _ => rfl) (fun k' hk' => h k' hk' b)

theorem embedRows_not_mem (rows : List Nat) (g : Mat K) (k : Nat) (h : find? k rows = none) :
    embedRows rows g k = ident k := by
  funext j
  simp [embedRows, h]

theorem embedRows_row (rows : List Nat) (g : Mat K) (r a : Nat) (hr : find? r rows = some a) (k' : Nat) :
    embedRows rows g r k' = match find? k' rows with
      | some b => g a b
      | none => ident r k' := by
  simp only [embedRows, hr]
  cases find? k' rows <;> rfl

theorem mix1_eq (m : Nat) (g : K) (i : Nat) (hi : i < m) {X Y : Nat → β → K} (h : EqOn m X Y) :
    EqOn m (mix1 g i X) (mulE m (embedRows [i] (fun _ _ => g)) Y) := by
  intro k hk b
  simp only [mix1, mulE]
  by_cases h1 : k = i
  · subst h1
    have : dot m (embedRows [k] (fun _ _ => g) k) (fun k' => Y k' b) =
        dot m (fun k' => if k' = k then g else 0) (fun k' => Y k' b) := by
      refine dot_congr (fun k' _ => ?_) (fun _ _ => rfl)
      by_cases e : k' = k
      · subst e; simp [embedRows, find?]
      · have e' : ¬ k = k' := fun h => e h.symm
        simp [embedRows, find?, ident, e, e']
    rw [this, dot_single m k g _ hk, if_pos rfl, h k hk b]; ring
  · rw [if_neg h1, embedRows_not_mem _ _ _ (by simp [find?, h1]), dot_ident m k _ hk, h k hk b]

theorem mix2_eq (m : Nat) (g : Mat K) (i i' : Nat) (hne : i ≠ i') (hi : i < m) (hi' : i' < m)
    {X Y : Nat → β → K} (h : EqOn m X Y) :
    EqOn m (mix2 g i i' X) (mulE m (embedRows [i, i'] g) Y) := by
  intro k hk b
  simp only [mix2, mulE]
  have row : ∀ a : Nat, ∀ r : Nat, find? r [i, i'] = some a →
      dot m (embedRows [i, i'] g r) (fun k' => Y k' b) = g a 0 * Y i b + g a 1 * Y i' b := by
    intro a r hr
    have : dot m (embedRows [i, i'] g r) (fun k' => Y k' b) =
        dot m (fun k' => (if k' = i then g a 0 else 0) + (if k' = i' then g a 1 else 0)) (fun k' => Y k' b) := by
      refine dot_congr (fun k' _ => ?_) (fun _ _ => rfl)
      rw [embedRows_row _ _ _ _ hr]
      by_cases e1 : k' = i
      · subst e1; simp [find?, hne]
      · by_cases e2 : k' = i'
        · subst e2; simp [find?, e1]
        · have : r ≠ k' := by
            rintro rfl; simp [find?, e1, e2] at hr
          simp [find?, e1, e2, ident, this]
    rw [this, dot_add, dot_single m i _ _ hi, dot_single m i' _ _ hi']
  by_cases h1 : k = i
  · subst h1
    rw [if_pos rfl, row 0 k (by simp [find?]), h k hi b, h i' hi' b]
  · rw [if_neg h1]
    by_cases h2 : k = i'
    · subst h2
      rw [if_pos rfl, row 1 k (by simp [find?, h1]), h i hi b, h k hi' b]
    · rw [if_neg h2, embedRows_not_mem _ _ _ (by simp [find?, h1, h2]), dot_ident m k _ hk, h k hk b]

theorem mix4_eq (m : Nat) (g : Mat K) (i j i' j' : Nat)
    (h12 : i ≠ j) (h13 : i ≠ i') (h14 : i ≠ j') (h23 : j ≠ i') (h24 : j ≠ j') (h34 : i' ≠ j')
    (hi : i < m) (hj : j < m) (hi' : i' < m) (hj' : j' < m)
    {X Y : Nat → β → K} (h : EqOn m X Y) :
    EqOn m (mix4 g i j i' j' X) (mulE m (embedRows [i, j, i', j'] g) Y) := by
  intro k hk b
  simp only [mix4, mulE]
  have row : ∀ a : Nat, ∀ r : Nat, find? r [i, j, i', j'] = some a →
      dot m (embedRows [i, j, i', j'] g r) (fun k' => Y k' b) =
        g a 0 * Y i b + g a 1 * Y j b + g a 2 * Y i' b + g a 3 * Y j' b := by
    intro a r hr
    have : dot m (embedRows [i, j, i', j'] g r) (fun k' => Y k' b) =
        dot m (fun k' => (if k' = i then g a 0 else 0) + (if k' = j then g a 1 else 0)
          + (if k' = i' then g a 2 else 0) + (if k' = j' then g a 3 else 0)) (fun k' => Y k' b) := by
      refine dot_congr (fun k' _ => ?_) (fun _ _ => rfl)
      rw [embedRows_row _ _ _ _ hr]
      by_cases e1 : k' = i
      · subst e1; simp [find?, h12, h13, h14]
      · by_cases e2 : k' = j
        · subst e2; simp [find?, e1, h23, h24]
        · by_cases e3 : k' = i'
          · subst e3; simp [find?, e1, e2, h34]
          · by_cases e4 : k' = j'
            · subst e4; simp [find?, e1, e2, e3]
            · have : r ≠ k' := by
                rintro rfl; simp [find?, e1, e2, e3, e4] at hr
              simp [find?, e1, e2, e3, e4, ident, this]
    rw [this, dot_add, dot_add, dot_add, dot_single m i _ _ hi, dot_single m j _ _ hj,
      dot_single m i' _ _ hi', dot_single m j' _ _ hj']
  by_cases h1 : k = i
  · subst h1
    rw [if_pos rfl, row 0 k (by simp [find?]), h k hi b, h j hj b, h i' hi' b, h j' hj' b]
  · rw [if_neg h1]
    by_cases h2 : k = j
    · subst h2
      rw [if_pos rfl, row 1 k (by simp [find?, h1]), h i hi b, h k hj b, h i' hi' b, h j' hj' b]
    · rw [if_neg h2]
      by_cases h3 : k = i'
      · subst h3
        rw [if_pos rfl, row 2 k (by simp [find?, h1, h2]), h i hi b, h j hj b, h k hi' b, h j' hj' b]
      · rw [if_neg h3]
        by_cases h4 : k = j'
        · subst h4
          rw [if_pos rfl, row 3 k (by simp [find?, h1, h2, h3]), h i hi b, h j hj b, h i' hi' b, h k hj' b]
        · rw [if_neg h4, embedRows_not_mem _ _ _ (by simp [find?, h1, h2, h3, h4]), dot_ident m k _ hk,
            h k hk b]

end rows

/-! ### the accumulation loops refine the ordered product of embedded blocks -/
section refine
variable {K : Type} [CommRing K]

/-- agreement of two `(S, r)` pairs on the `2n` rows that exist -/
def NetEq (n : Nat) (a a' : Net K) : Prop :=
  EqOn (2 * n) a.S a'.S ∧ ∀ k, k < 2 * n → a.r k = a'.r k

omit [CommRing K] in
theorem eqOn_asCol {m : Nat} {r r' : Nat → K} (h : ∀ k, k < m → r k = r' k) :
    EqOn m (asCol r) (asCol r') := fun k hk _ => h k hk

theorem stepGU_refines (pos : Nat → Nat) (n : Nat) (a a' : Net K) (c : GCmd K)
    (hpos : ∀ m ∈ c.regs, pos m < n)
    (hinj : ∀ m ∈ c.regs, ∀ m' ∈ c.regs, pos m = pos m' → m = m')
    (hwf : c.wf) (h : NetEq n a a') : NetEq n (stepGU pos n a c) (specStepGU pos n a' c) := by
  obtain ⟨regs, dagger, op⟩ := c
  cases op with
  | disp dx dp =>
    refine ⟨h.1, ?_⟩
    intro k hk
    simp only [stepGU, specStepGU]
    split_ifs <;> rw [h.2 k hk]
  | blk1 g gi =>
    simp only [GCmd.wf] at hwf
    match regs, hwf with
    | [m], _ =>
      have hm : pos m < n := hpos m (by simp)
      simp only [stepGU, specStepGU, applyOne, eff, List.getD_cons_zero, List.map_cons, List.map_nil,
        List.take_succ_cons, List.take_zero, xpRows, List.cons_append, List.nil_append]
      refine ⟨mix2_eq (2 * n) _ _ _ (by omega) (by omega) (by omega) h.1, ?_⟩
      intro k hk
      exact mix2_eq (2 * n) _ _ _ (by omega) (by omega) (by omega) (eqOn_asCol h.2) k hk ()
  | blk2 g gi =>
    simp only [GCmd.wf] at hwf
    match regs, hwf with
    | [m0, m1], ⟨_, hnd⟩ =>
      have h0 : pos m0 < n := hpos m0 (by simp)
      have h1 : pos m1 < n := hpos m1 (by simp)
      have hne : pos m0 ≠ pos m1 := by
        intro e
        have := hinj m0 (by simp) m1 (by simp) e
        subst this
        simp at hnd
      simp only [stepGU, specStepGU, applyTwo, eff, List.getD_cons_zero, List.getD_cons_succ, List.map_cons,
        List.map_nil, List.take_succ_cons, List.take_zero, xpRows, List.cons_append, List.nil_append]
      refine ⟨mix4_eq (2 * n) _ _ _ _ _ hne (by omega) (by omega) (by omega) (by omega) (by omega)
        (by omega) (by omega) (by omega) (by omega) h.1, ?_⟩
      intro k hk
      exact mix4_eq (2 * n) _ _ _ _ _ hne (by omega) (by omega) (by omega) (by omega) (by omega)
        (by omega) (by omega) (by omega) (by omega) (eqOn_asCol h.2) k hk ()
  | blkN g =>
    simp only [stepGU, specStepGU]
    refine ⟨?_, ?_⟩
    · rw [mulE_congr _ h.1]; intro k _ b; rfl
    · intro k _
      simp only [ofCol]
      rw [mulE_congr _ (eqOn_asCol h.2)]
  | skip => exact h

theorem foldlGU_refines (pos : Nat → Nat) (n : Nat) (cmds : List (GCmd K))
    (hall : ∀ c ∈ cmds, (∀ m ∈ c.regs, pos m < n) ∧
      (∀ m ∈ c.regs, ∀ m' ∈ c.regs, pos m = pos m' → m = m') ∧ c.wf)
    (a a' : Net K) (h : NetEq n a a') :
    NetEq n (cmds.foldl (stepGU pos n) a) (cmds.foldl (specStepGU pos n) a') := by
  induction cmds generalizing a a' with
  | nil => exact h
  | cons c cs ih =>
    simp only [List.foldl_cons]
    obtain ⟨h1, h2, h3⟩ := hall c (by simp)
    exact ih (fun d hd => hall d (by simp [hd])) _ _ (stepGU_refines pos n a a' c h1 h2 h3 h)

omit [CommRing K] in
theorem mem_usedModes {cmds : List (GCmd K)} {c : GCmd K} {m : Nat} (hc : c ∈ cmds) (hm : m ∈ c.regs) :
    m ∈ usedModes cmds := by
  unfold usedModes
  rw [mem_sortDedup, List.mem_flatMap]
  exact ⟨c, hc, hm⟩

theorem compileGU_net [DecidableEq K] (registers : List Nat) (cmds : List (GCmd K))
    (hreg : ∀ c ∈ cmds, ∀ m ∈ c.regs, m ∈ registers) (hwf : ∀ c ∈ cmds, c.wf) :
    (compileGU registers cmds).regs = usedModes cmds ∧
    (compileGU registers cmds).n = (compileGU registers cmds).regs.length ∧
    NetEq (compileGU registers cmds).n ⟨(compileGU registers cmds).S, (compileGU registers cmds).r⟩
      (netSpecGU (fun m => (compileGU registers cmds).regs.idxOf m) (compileGU registers cmds).n cmds) := by
  have hregs : ordReg registers (usedModes cmds) = usedModes cmds := by
    unfold usedModes
    refine ordReg_eq _ _ ?_
    intro m hm
    obtain ⟨c, hc, hmc⟩ := List.mem_flatMap.1 hm
    exact hreg c hc m hmc
  simp only [compileGU, compileGUWith, compileGUCore, hregs, netSpecGU]
  refine ⟨trivial, trivial, ?_⟩
  refine foldlGU_refines (dictIdx (usedModes cmds)) _ cmds ?_ _ _ ⟨fun _ _ _ => rfl, fun _ _ => rfl⟩
  intro c hc
  refine ⟨?_, ?_, hwf c hc⟩
  · intro m hm
    exact idxOf_lt_of_mem (mem_usedModes hc hm)
  · intro m hm m' _ e
    exact idxOf_inj (mem_usedModes hc hm) e

/-! passive -/

theorem stepP_refines (pos : Nat → Nat) (n : Nat) (T T' : Mat K) (c : PCmd K)
    (hpos : ∀ m ∈ c.regs, pos m < n)
    (hinj : ∀ m ∈ c.regs, ∀ m' ∈ c.regs, pos m = pos m' → m = m')
    (hwf : c.wf) (h : EqOn n T T') : EqOn n (stepP pos n T c) (specStepP pos n T' c) := by
  obtain ⟨regs, dagger, op⟩ := c
  cases op with
  | one g gi =>
    simp only [PCmd.wf] at hwf
    match regs, hwf with
    | [m], _ =>
      have hm : pos m < n := hpos m (by simp)
      simp only [stepP, specStepP, List.getD_cons_zero, List.map_cons, List.map_nil,
        List.take_succ_cons, List.take_zero]
      exact mix1_eq n _ _ hm h
  | two g gi =>
    simp only [PCmd.wf] at hwf
    match regs, hwf with
    | [m0, m1], ⟨_, hnd⟩ =>
      have h0 : pos m0 < n := hpos m0 (by simp)
      have h1 : pos m1 < n := hpos m1 (by simp)
      have hne : pos m0 ≠ pos m1 := by
        intro e
        have := hinj m0 (by simp) m1 (by simp) e
        subst this
        simp at hnd
      simp only [stepP, specStepP, eff, List.getD_cons_zero, List.getD_cons_succ, List.map_cons,
        List.map_nil, List.take_succ_cons, List.take_zero]
      exact mix2_eq n _ _ _ hne h0 h1 h
  | many g =>
    simp only [stepP, specStepP]
    rw [mulE_congr _ h]; intro k _ b; rfl
  | skip => exact h

theorem foldlP_refines (pos : Nat → Nat) (n : Nat) (cmds : List (PCmd K))
    (hall : ∀ c ∈ cmds, (∀ m ∈ c.regs, pos m < n) ∧
      (∀ m ∈ c.regs, ∀ m' ∈ c.regs, pos m = pos m' → m = m') ∧ c.wf)
    (T T' : Mat K) (h : EqOn n T T') :
    EqOn n (cmds.foldl (stepP pos n) T) (cmds.foldl (specStepP pos n) T') := by
  induction cmds generalizing T T' with
  | nil => exact h
  | cons c cs ih =>
    simp only [List.foldl_cons]
    obtain ⟨h1, h2, h3⟩ := hall c (by simp)
    exact ih (fun d hd => hall d (by simp [hd])) _ _ (stepP_refines pos n T T' c h1 h2 h3 h)

theorem compileP_net (registers : List Nat) (cmds : List (PCmd K))
    (hreg : ∀ c ∈ cmds, ∀ m ∈ c.regs, m ∈ registers) (hwf : ∀ c ∈ cmds, c.wf) :
    (compileP registers cmds).regs = usedModesP cmds ∧
    (compileP registers cmds).n = (compileP registers cmds).regs.length ∧
    EqOn (compileP registers cmds).n (compileP registers cmds).T
      (netSpecP (fun m => (compileP registers cmds).regs.idxOf m) (compileP registers cmds).n cmds) := by
  have hmem : ∀ {c : PCmd K} {m : Nat}, c ∈ cmds → m ∈ c.regs → m ∈ usedModesP cmds := by
    intro c m hc hm
    unfold usedModesP
    rw [mem_sortDedup, List.mem_flatMap]
    exact ⟨c, hc, hm⟩
  have hregs : ordReg registers (usedModesP cmds) = usedModesP cmds := by
    unfold usedModesP
    refine ordReg_eq _ _ ?_
    intro m hm
    obtain ⟨c, hc, hmc⟩ := List.mem_flatMap.1 hm
    exact hreg c hc m hmc
  simp only [compileP, compilePWith, hregs, netSpecP]
  refine ⟨trivial, trivial, ?_⟩
  have hfold : ∀ (l : List (PCmd K)) (a : PNet K),
      (l.foldl (fun a c => (⟨stepP (dictIdx (usedModesP cmds)) (usedModesP cmds).length a.T c⟩ : PNet K)) a).T
        = l.foldl (stepP (dictIdx (usedModesP cmds)) (usedModesP cmds).length) a.T := by
    intro l
    induction l with
    | nil => intro a; rfl
    | cons c cs ih => intro a; simp only [List.foldl_cons]; rw [ih]
  rw [hfold]
  refine foldlP_refines (dictIdx (usedModesP cmds)) _ cmds ?_ _ _ (fun _ _ _ => rfl)
  intro c hc
  refine ⟨?_, ?_, hwf c hc⟩
  · intro m hm
    exact idxOf_lt_of_mem (hmem hc hm)
  · intro m hm m' _ e
    exact idxOf_inj (hmem hc hm) e

/-- the pre-fix code agrees with the repaired code when the hash order of the used modes happens to be
ascending and no command is daggered -/
theorem compileGUOld_eq [DecidableEq K] (registers : List Nat) (cmds : List (GCmd K))
    (hd : ∀ c ∈ cmds, c.dagger = false) :
    compileGUOld (usedModes cmds) registers cmds = compileGU registers cmds := by
  have hfold : ∀ (l : List (GCmd K)) (a : Net K), (∀ c ∈ l, c.dagger = false) →
      l.foldl (fun a c => stepGU (dictIdx (usedModes cmds)) (usedModes cmds).length a { c with dagger := false }) a
        = l.foldl (fun a c => stepGU (dictIdx (usedModes cmds)) (usedModes cmds).length a c) a := by
    intro l
    induction l with
    | nil => intro a _; rfl
    | cons c cs ih =>
      intro a h
      have hc : ({ c with dagger := false } : GCmd K) = c := by
        have := h c (by simp)
        cases c; simp_all
      simp only [List.foldl_cons, hc]
      exact ih _ (fun d hd' => h d (by simp [hd']))
  simp only [compileGUOld, compileGU, compileGUWith, compileGUCore, hfold cmds _ hd]

/-! emission -/

theorem isIdent_spec [DecidableEq K] (m : Nat) (S : Mat K) (h : isIdent m S = true) :
    ∀ i j, i < m → j < m → S i j = ident i j := by
  intro i j hi hj
  simp only [isIdent, List.all_eq_true, List.mem_range, decide_eq_true_eq] at h
  exact h i hi j hj

theorem compileGU_emit [DecidableEq K] (registers : List Nat) (cmds : List (GCmd K)) :
    ((compileGU registers cmds).hasGT = false → ∀ i j, i < 2 * (compileGU registers cmds).n →
      j < 2 * (compileGU registers cmds).n → (compileGU registers cmds).S i j = ident i j) ∧
    (∀ i, i < (compileGU registers cmds).regs.length →
      ((compileGU registers cmds).r i = 0 ∧ (compileGU registers cmds).r (i + (compileGU registers cmds).n) = 0) ∨
      ((compileGU registers cmds).regs.getD i 0, (compileGU registers cmds).r i,
        (compileGU registers cmds).r (i + (compileGU registers cmds).n)) ∈ (compileGU registers cmds).dgates) ∧
    (∀ e ∈ (compileGU registers cmds).dgates, ∃ i, i < (compileGU registers cmds).regs.length ∧
      e = ((compileGU registers cmds).regs.getD i 0, (compileGU registers cmds).r i,
        (compileGU registers cmds).r (i + (compileGU registers cmds).n)) ∧
      ¬ ((compileGU registers cmds).r i = 0 ∧ (compileGU registers cmds).r (i + (compileGU registers cmds).n) = 0)) := by
  simp only [compileGU, compileGUWith, compileGUCore]
  generalize List.foldl (stepGU (dictIdx (usedModes cmds)) (usedModes cmds).length)
    ({ S := ident, r := fun _ => 0 } : Net K) cmds = net
  refine ⟨?_, ?_, ?_⟩
  · intro h i j hi hj
    have h' : isIdent (2 * (usedModes cmds).length) net.S = true := by simpa using h
    exact isIdent_spec _ _ h' i j hi hj
  · intro i hi
    by_cases hz : net.r i = 0 ∧ net.r (i + (usedModes cmds).length) = 0
    · exact Or.inl hz
    · refine Or.inr ?_
      rw [List.mem_filterMap]
      exact ⟨i, List.mem_range.2 hi, by rw [if_neg hz]⟩
  · intro e he
    rw [List.mem_filterMap] at he
    obtain ⟨i, hi, hie⟩ := he
    refine ⟨i, List.mem_range.1 hi, ?_⟩
    split at hie
    · cases hie
    · rename_i hz
      exact ⟨(Option.some.inj hie).symm, hz⟩

end refine

/-! ### gaussian_merge: the witness checker is sound -/
section merge
variable {M : Type} [Monoid M]

theorem sem_flatten_cons (f : Cmd → M) (x : List Cmd) (xs : List (List Cmd)) :
    sem f (x :: xs).flatten = sem f x * sem f xs.flatten := by
  simp [List.flatten_cons, sem_append]

theorem segs_sem (f : Cmd → M) (src out : List Cmd) (blocks : List MergeBlock)
    (hblk : ∀ b ∈ blocks, ∀ ms es, lookupAll src b.members = some ms →
      lookupAll out b.emitted = some es → sem f es = sem f ms) :
    ∀ (segs : List Seg) (ss os : List (List Cmd)),
      segs.mapM (segSrc src blocks) = some ss → segs.mapM (segOut out blocks) = some os →
      (∀ s ∈ segs, segOk src out blocks s = true) → sem f os.flatten = sem f ss.flatten := by
  intro segs
  induction segs with
  | nil =>
    intro ss os h1 h2 _
    simp at h1 h2
    subst h1; subst h2; rfl
  | cons s rest ih =>
    intro ss os h1 h2 hok
    simp only [List.mapM_cons, Option.pure_def, Option.bind_eq_bind, Option.bind_eq_some_iff] at h1 h2
    obtain ⟨x, hx, xs, hxs, e1⟩ := h1
    obtain ⟨y, hy, ys, hys, e2⟩ := h2
    cases e1; cases e2
    rw [sem_flatten_cons, sem_flatten_cons, ih xs ys hxs hys (fun t ht => hok t (by simp [ht]))]
    congr 1
    have hs := hok s (by simp)
    cases s with
    | keep i =>
      simp only [segSrc, segOut, Option.map_eq_some_iff] at hx hy
      obtain ⟨a, ha, rfl⟩ := hx
      obtain ⟨b, hb, rfl⟩ := hy
      simp only [segOk, ha, hb, beq_iff_eq] at hs
      subst hs; rfl
    | block k =>
      simp only [segSrc, segOut] at hx hy
      cases hb : blocks[k]? with
      | none => simp [hb] at hx
      | some b =>
        simp only [hb] at hx hy
        exact hblk b (List.mem_of_getElem? hb) x y hx hy

/-- **certificate soundness**: if the checker accepts the witness and every emitted block means the
ordered product of its members, the compiled circuit means the same as the source, in any monoid
interpretation in which commands without a common wire commute. -/
theorem checkMerge_sound (f : Cmd → M) (hcomm : ∀ a b, ¬ dep a b → f a * f b = f b * f a)
    (src out : List Cmd) (blocks : List MergeBlock) (segs : List Seg)
    (hblk : ∀ b ∈ blocks, ∀ ms es, lookupAll src b.members = some ms →
      lookupAll out b.emitted = some es → sem f es = sem f ms)
    (h : checkMerge src out blocks segs = true) : sem f out = sem f src := by
  unfold checkMerge at h
  split at h
  · rename_i ss os h1 h2
    simp only [Bool.and_eq_true, List.all_eq_true] at h
    obtain ⟨⟨hl1, hl2⟩, hok⟩ := h
    rw [legal_sem f hcomm (isLegal_sound hl2), segs_sem f src out blocks hblk segs ss os h1 h2 hok,
      legal_sem f hcomm (isLegal_sound hl1)]
  · cases h

/-- what the checker guarantees about positions: the compiled circuit is a dependency-respecting
reordering of the circuit in which every block is replaced by its emitted commands -/
theorem checkMerge_legal (src out : List Cmd) (blocks : List MergeBlock) (segs : List Seg)
    (h : checkMerge src out blocks segs = true) :
    ∃ ss os, segs.mapM (segSrc src blocks) = some ss ∧ segs.mapM (segOut out blocks) = some os ∧
      Legal src ss.flatten ∧ Legal os.flatten out := by
  unfold checkMerge at h
  split at h
  · rename_i ss os h1 h2
    simp only [Bool.and_eq_true] at h
    exact ⟨ss, os, h1, h2, isLegal_sound h.1.1, isLegal_sound h.1.2⟩
  · cases h

end merge

end SFV.GC

/-! ### gaussian_merge: what every topological order of the graph after the surgery guarantees -/
namespace SFV.GC

/-- position in `out` with all merged commands collapsed onto the representative `rep` -/
def cpos (ms : List Cmd) (rep : Cmd) (out : List Cmd) (c : Cmd) : Nat :=
  if c ∈ ms then out.idxOf rep else out.idxOf c

/-- "strictly earlier after collapsing, or both merged" -/
def CR (ms : List Cmd) (rep : Cmd) (out : List Cmd) (x y : Cmd) : Prop :=
  cpos ms rep out x < cpos ms rep out y ∨ (x ∈ ms ∧ y ∈ ms)

theorem CR_trans {ms : List Cmd} {rep : Cmd} {out : List Cmd} {x y z : Cmd}
    (h1 : CR ms rep out x y) (h2 : CR ms rep out y z) : CR ms rep out x z := by
  unfold CR at *
  rcases h1 with h1 | ⟨hx, hy⟩ <;> rcases h2 with h2 | ⟨hy', hz⟩
  · exact Or.inl (Nat.lt_trans h1 h2)
  · left
    have : cpos ms rep out y = cpos ms rep out z := by simp [cpos, hy', hz]
    omega
  · left
    have : cpos ms rep out x = cpos ms rep out y := by simp [cpos, hx, hy]
    omega
  · exact Or.inr ⟨hx, hz⟩

/-- if the relation holds along the consecutive pairs of a wire's row it holds for every ordered pair on it -/
theorem row_CR (ms : List Cmd) (rep : Cmd) (out l : List Cmd) (w : Nat)
    (hcons : ∀ e ∈ consecPairs (gridRow l w), CR ms rep out e.1 e.2) {a b : Cmd}
    (hrow : Before (gridRow l w) a b) : CR ms rep out a b := by
  have hchain : List.IsChain (CR ms rep out) (gridRow l w) := consecPairs_chain _ _ hcons
  have : IsTrans Cmd (CR ms rep out) := ⟨fun _ _ _ h1 h2 => CR_trans h1 h2⟩
  have hpw : List.Pairwise (CR ms rep out) (gridRow l w) := List.isChain_iff_pairwise.1 hchain
  exact (List.pairwise_iff_forall_sublist.1 hpw) hrow

theorem consecPairs_mem_right : ∀ {r : List Cmd} {e : Cmd × Cmd}, e ∈ consecPairs r → e.2 ∈ r
  | [], _, h => by simp [consecPairs] at h
  | [_], _, h => by simp [consecPairs] at h
  | a :: b :: rest, e, h => by
    simp only [consecPairs, List.mem_cons] at h
    rcases h with rfl | h
    · simp
    · have := consecPairs_mem_right (r := b :: rest) h
      exact List.mem_cons_of_mem _ this

theorem before_row {l : List Cmd} {a b : Cmd} {w : Nat} (hb : Before l a b) (hwa : w ∈ a.wires)
    (hwb : w ∈ b.wires) : Before (gridRow l w) a b := by
  have := hb.filter (fun c => c.wires.contains w)
  simpa [gridRow, hwa, hwb] using this

/-- **order guarantees of the surgery, relative to the first emitted command.**  In every list in which all
edges of the graph after the surgery point forward: two commands that stay and share a wire keep their
order; a command that stays and shares a wire with a merged command that follows (precedes) it in the
circuit comes before (after) the first emitted command. -/
theorem surgery_order (l ms ds : List Cmd) (g : Cmd) (out : List Cmd)
    (hf : forward (surgeryEdges l ms g ds) out = true) {a b : Cmd} (hb : Before l a b) (hd : dep a b) :
    CR ms g out a b := by
  obtain ⟨w, hwa, hwb⟩ := hd
  have hmem := before_mem hb
  refine row_CR ms g out l w ?_ (before_row hb hwa hwb)
  intro e he
  have hedge : e ∈ dagEdges l := row_edges_mem hmem.1 hwa e he
  simp only [forward, List.all_eq_true, decide_eq_true_eq] at hf
  unfold CR cpos
  by_cases h1 : e.1 ∈ ms <;> by_cases h2 : e.2 ∈ ms
  · exact Or.inr ⟨h1, h2⟩
  · left
    simp only [h1, h2, if_true, if_false]
    refine hf (g, e.2) ?_
    simp only [surgeryEdges, List.mem_append, List.mem_flatMap]
    exact Or.inl ⟨e, hedge, by simp [h1, h2]⟩
  · left
    simp only [h1, h2, if_true, if_false]
    refine hf (e.1, g) ?_
    simp only [surgeryEdges, List.mem_append, List.mem_flatMap]
    exact Or.inl ⟨e, hedge, by simp [h1, h2]⟩
  · left
    simp only [h1, h2, if_false]
    refine hf e ?_
    simp only [surgeryEdges, List.mem_append, List.mem_flatMap]
    exact Or.inl ⟨e, hedge, by simp [h1, h2]⟩

/-- **… and relative to an emitted displacement gate `d` on mode `q`** (circuits without measured-parameter
dependencies on `q`): a command that stays, acts on `q` and follows a merged command acting on `q` comes
after `d`. -/
theorem surgery_order_disp (l ms ds : List Cmd) (g d : Cmd) (out : List Cmd) (q : Nat)
    (hf : forward (surgeryEdges l ms g ds) out = true) (hd : d ∈ ds) (hq : q ∈ d.regs)
    (hregs : ∀ c ∈ l, q ∈ c.wires → q ∈ c.regs)
    {a b : Cmd} (hb : Before l a b) (ha : q ∈ a.wires) (hbq : q ∈ b.wires) (ham : a ∈ ms) (hbm : b ∉ ms) :
    out.idxOf d < out.idxOf b := by
  have hmem := before_mem hb
  have hgd : out.idxOf g < out.idxOf d := by
    simp only [forward, List.all_eq_true, decide_eq_true_eq] at hf
    refine hf (g, d) ?_
    simp only [surgeryEdges, List.mem_append, List.mem_map]
    exact Or.inr ⟨d, hd, rfl⟩
  have key : CR ms d out a b := by
    refine row_CR ms d out l q ?_ (before_row hb ha hbq)
    intro e he
    have hedge : e ∈ dagEdges l := row_edges_mem hmem.1 ha e he
    have he2 : e.2 ∈ gridRow l q := by
      have := consecPairs_mem_right he
      exact this
    have he2l : e.2 ∈ l ∧ q ∈ e.2.wires := by
      simpa [gridRow] using he2
    simp only [forward, List.all_eq_true, decide_eq_true_eq] at hf
    unfold CR cpos
    by_cases h1 : e.1 ∈ ms <;> by_cases h2 : e.2 ∈ ms
    · exact Or.inr ⟨h1, h2⟩
    · left
      simp only [h1, h2, if_true, if_false]
      refine hf (d, e.2) ?_
      simp only [surgeryEdges, List.mem_append, List.mem_flatMap]
      refine Or.inl ⟨e, hedge, ?_⟩
      have hs : sharesReg d e.2 = true := by
        simp only [sharesReg, List.any_eq_true, List.contains_iff_mem]
        exact ⟨q, hq, hregs e.2 he2l.1 he2l.2⟩
      simp [h1, h2, hd, hs]
    · left
      simp only [h1, h2, if_true, if_false]
      have : out.idxOf e.1 < out.idxOf g := by
        refine hf (e.1, g) ?_
        simp only [surgeryEdges, List.mem_append, List.mem_flatMap]
        exact Or.inl ⟨e, hedge, by simp [h1, h2]⟩
      omega
    · left
      simp only [h1, h2, if_false]
      refine hf e ?_
      simp only [surgeryEdges, List.mem_append, List.mem_flatMap]
      exact Or.inl ⟨e, hedge, by simp [h1, h2]⟩
  rcases key with h | ⟨_, h⟩
  · simpa [cpos, ham, hbm] using h
  · exact absurd h hbm

end SFV.GC

/-! ### gaussian_merge: the cancelling case (nothing is emitted) -/
namespace SFV.GC

/-- edges leaving the merged commands -/
def exitEdges (l ms : List Cmd) : List (Cmd × Cmd) :=
  (dagEdges l).filter fun e => ms.contains e.1 && !ms.contains e.2

/-- the relation carried along a wire's row when the merged commands are removed without replacement:
two staying commands are ordered in `out`; a staying command before a merged one is before every target of an
exit edge; a staying command after a merged one is at or after some target of an exit edge -/
def NR (l ms out : List Cmd) (x y : Cmd) : Prop :=
  if x ∈ ms then (if y ∈ ms then True else ∃ q ∈ exitEdges l ms, out.idxOf q.2 ≤ out.idxOf y)
  else (if y ∈ ms then ∀ q ∈ exitEdges l ms, out.idxOf x < out.idxOf q.2 else out.idxOf x < out.idxOf y)

theorem NR_trans {l ms out : List Cmd} {x y z : Cmd} (h1 : NR l ms out x y) (h2 : NR l ms out y z) :
    NR l ms out x z := by
  unfold NR at *
  by_cases hx : x ∈ ms <;> by_cases hy : y ∈ ms <;> by_cases hz : z ∈ ms <;>
    simp only [hx, hy, hz, if_true, if_false] at h1 h2 ⊢
  · exact h2
  · obtain ⟨q, hq, h⟩ := h1
    exact ⟨q, hq, by omega⟩
  · intro q hq
    exact h1 q hq
  · obtain ⟨q, hq, h⟩ := h2
    have := h1 q hq
    omega
  · intro q hq
    have := h2 q hq
    omega
  · omega

theorem row_NR (l ms out : List Cmd) (w : Nat)
    (hcons : ∀ e ∈ consecPairs (gridRow l w), NR l ms out e.1 e.2) {a b : Cmd}
    (hrow : Before (gridRow l w) a b) : NR l ms out a b := by
  have hchain : List.IsChain (NR l ms out) (gridRow l w) := consecPairs_chain _ _ hcons
  have : IsTrans Cmd (NR l ms out) := ⟨fun _ _ _ h1 h2 => NR_trans h1 h2⟩
  have hpw : List.Pairwise (NR l ms out) (gridRow l w) := List.isChain_iff_pairwise.1 hchain
  exact (List.pairwise_iff_forall_sublist.1 hpw) hrow

/-- **the cancelling surgery keeps the order of the commands that stay**: in every list in which the edges of
`surgeryEdgesNil` point forward (every topological sort of the graph after a cancelled block was removed), two
staying commands that share a wire keep the order they have in the circuit. -/
theorem surgeryNil_order (l ms out : List Cmd) (hf : forward (surgeryEdgesNil l ms) out = true)
    {a b : Cmd} (hb : Before l a b) (hd : dep a b) (ha : a ∉ ms) (hbm : b ∉ ms) :
    out.idxOf a < out.idxOf b := by
  obtain ⟨w, hwa, hwb⟩ := hd
  have hmem := before_mem hb
  have key : NR l ms out a b := by
    refine row_NR l ms out w ?_ (before_row hb hwa hwb)
    intro e he
    have hedge : e ∈ dagEdges l := row_edges_mem hmem.1 hwa e he
    simp only [forward, List.all_eq_true, decide_eq_true_eq] at hf
    unfold NR
    by_cases h1 : e.1 ∈ ms <;> by_cases h2 : e.2 ∈ ms <;> simp only [h1, h2, if_true, if_false]
    · refine ⟨e, ?_, Nat.le_refl _⟩
      simp [exitEdges, hedge, h1, h2]
    · intro q hq
      refine hf (e.1, q.2) ?_
      simp only [surgeryEdgesNil, List.mem_append, List.mem_flatMap, List.mem_map, List.mem_filter]
      refine Or.inr ⟨e, ⟨hedge, by simp [h1, h2]⟩, q, ?_, rfl⟩
      simpa [exitEdges] using hq
    · refine hf e ?_
      simp only [surgeryEdgesNil, List.mem_append, List.mem_filter]
      exact Or.inl ⟨hedge, by simp [h1, h2]⟩
  simpa [NR, ha, hbm] using key

end SFV.GC
