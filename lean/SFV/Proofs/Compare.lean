import SFV.Model.Compare
import SFV.Proofs.Circuit

namespace SFV

theorem insertAll_perm {x : Cmd} : ∀ {l m : List Cmd}, m ∈ insertAll x l → m.Perm (x :: l) := by
  intro l
  induction l with
  | nil => intro m h; simp [insertAll] at h; subst h; exact List.Perm.refl _
  | cons y ys ih =>
    intro m h
    simp only [insertAll, List.mem_cons, List.mem_map] at h
    rcases h with rfl | ⟨m', hm', rfl⟩
    · exact List.Perm.refl _
    · exact ((ih hm').cons y).trans (List.Perm.swap x y ys)

theorem perms_perm : ∀ {l m : List Cmd}, m ∈ perms l → m.Perm l := by
  intro l
  induction l with
  | nil => intro m h; simp [perms] at h; subst h; exact List.Perm.refl _
  | cons x xs ih =>
    intro m h
    simp only [perms, List.mem_flatMap] at h
    obtain ⟨m', hm', hm⟩ := h
    exact (insertAll_perm hm).trans ((ih hm').cons x)

theorem before_idxOf_lt : ∀ {l : List Cmd} {a b : Cmd}, l.Nodup → Before l a b →
    l.idxOf a < l.idxOf b := by
  intro l
  induction l with
  | nil => intro a b _ h; simp at h
  | cons x xs ih =>
    intro a b hn h
    have hx := (List.nodup_cons.1 hn)
    cases h with
    | cons _ h' =>
      have hm := before_mem h'
      have hxa : x ≠ a := by rintro rfl; exact hx.1 hm.1
      have hxb : x ≠ b := by rintro rfl; exact hx.1 hm.2
      rw [List.idxOf_cons_ne _ hxa, List.idxOf_cons_ne _ hxb]
      exact Nat.succ_lt_succ (ih hx.2 h')
    | cons_cons _ h' =>
      have hb : b ∈ xs := h'.subset (by simp)
      have hxb : x ≠ b := by rintro rfl; exact hx.1 hb
      rw [List.idxOf_cons_self, List.idxOf_cons_ne _ hxb]
      exact Nat.succ_pos _

theorem consecPairs_sublist : ∀ (r : List Cmd) (e : Cmd × Cmd), e ∈ consecPairs r → Before r e.1 e.2
  | [], e, h => by simp [consecPairs] at h
  | [_], e, h => by simp [consecPairs] at h
  | a :: b :: rest, e, h => by
    simp only [consecPairs, List.mem_cons] at h
    rcases h with rfl | h
    · exact List.Sublist.cons_cons _ (List.Sublist.cons_cons _ (List.nil_sublist _))
    · exact List.Sublist.cons _ (consecPairs_sublist (b :: rest) e h)

/-- a duplicate-free list is a topological order of its own wire DAG -/
theorem self_edges_ordered {l : List Cmd} (hn : l.Nodup) :
    ∀ e ∈ dagEdges l, l.idxOf e.1 < l.idxOf e.2 := by
  intro e he
  unfold dagEdges gridEdges listToGrid at he
  rw [List.mem_flatMap] at he
  obtain ⟨r, hr, he⟩ := he
  rw [List.mem_map] at hr
  obtain ⟨w, _, rfl⟩ := hr
  have h1 := consecPairs_sublist _ e he
  have h2 : Before l e.1 e.2 := h1.trans List.filter_sublist
  exact before_idxOf_lt hn h2

theorem sem_congr_zip {M : Type} [Monoid M] (f : Cmd → M) : ∀ (l1 l2 : List Cmd),
    l1.length = l2.length → (∀ ab ∈ l1.zip l2, f ab.1 = f ab.2) → sem f l1 = sem f l2
  | [], [], _, _ => rfl
  | [], _ :: _, h, _ => by simp at h
  | _ :: _, [], h, _ => by simp at h
  | a :: l1, b :: l2, h, hz => by
    simp only [sem]
    rw [hz (a, b) (by simp), sem_congr_zip f l1 l2 (by simpa using h)
      (fun ab hab => hz ab (by simp [hab]))]

theorem programEq_keys {t1 t2 : String} {r1 r2 : List (Nat × Bool)} {l1 l2 : List Cmd}
    (h : programEq t1 t2 r1 r2 l1 l2 = true) :
    t1 = t2 ∧ r1 = r2 ∧ l1.map Cmd.key = l2.map Cmd.key := by
  unfold programEq at h
  simp only [Bool.and_eq_true, beq_iff_eq, List.all_eq_true] at h
  obtain ⟨⟨⟨ht, hr⟩, hlen⟩, hall⟩ := h
  refine ⟨ht, hr, ?_⟩
  clear ht hr
  induction l1 generalizing l2 with
  | nil => cases l2 with
    | nil => rfl
    | cons _ _ => simp at hlen
  | cons a l1 ih => cases l2 with
    | nil => simp at hlen
    | cons b l2 =>
      have h1 := hall (a, b) (by simp)
      simp only [cmdEq, beq_iff_eq] at h1
      simp only [List.map_cons, h1]
      rw [ih (l2 := l2) (fun ab hab => hall ab (by simp [hab])) (by simpa using hlen)]

end SFV
