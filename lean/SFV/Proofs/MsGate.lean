import SFV.Proofs.Bridge

/-! The average map of measurement-based squeezing (`BosonicModes.mb_squeeze_avg`, C07): `X = diag(cos θ, 1/cos θ)` on the target
mode, `Y = ħ/2 · diag(sin²θ e^{−2 r_anc}, tan²θ (1 − η)/η)`.  `X` is symplectic, so the map is completely positive as soon as
both noise entries are non-negative — and then it preserves the uncertainty relation, for every register and input state. -/
namespace SFV.Bridge
open SFV.Gauss SFV.Physical Matrix
open scoped ComplexOrder

/-- `X` of the average map: `c` on `x_k`, `ci` on `p_k` (`c · ci = 1`), identity elsewhere -/
def msX (n k : Nat) (c ci : ℝ) : Matrix (QI n) (QI n) ℝ :=
  Matrix.diagonal fun v => if v.1.val = k then (if v.2 then ci else c) else 1

/-- `Y` of the average map: `yx` on `x_k`, `yp` on `p_k` -/
def msY (n k : Nat) (yx yp : ℝ) : Matrix (QI n) (QI n) ℝ :=
  Matrix.diagonal fun v => if v.1.val = k then (if v.2 then yp else yx) else 0

theorem msX_symplectic (n k : Nat) (c ci : ℝ) (hc : c * ci = 1) :
    msX n k c ci * omegaMatrix n * (msX n k c ci)ᵀ = (omegaMatrix n : Matrix (QI n) (QI n) ℝ) := by
  ext v w
  obtain ⟨i, a⟩ := v
  obtain ⟨j, b⟩ := w
  have hc' : ci * c = 1 := by rw [mul_comm]; exact hc
  simp only [msX, omegaMatrix, Matrix.diagonal_transpose, Matrix.mul_diagonal, Matrix.diagonal_mul, sympOmega, toQ]
  by_cases hij : i.val = j.val
  · by_cases hi : i.val = k
    · have hj : j.val = k := by omega
      cases a <;> cases b <;> simp [hi, hj, hc, hc']
    · have hj : ¬ j.val = k := by omega
      cases a <;> cases b <;> simp [hj, hij]
  · cases a <;> cases b <;> simp [hij]

theorem cplx_msY_psd (n k : Nat) (yx yp : ℝ) (hx : 0 ≤ yx) (hp : 0 ≤ yp) : (cplx (msY n k yx yp)).PosSemidef := by
  have : cplx (msY n k yx yp) =
      Matrix.diagonal fun v : QI n => ((if v.1.val = k then (if v.2 then yp else yx) else 0 : ℝ) : ℂ) := by
    ext v w
    simp only [cplx, msY, Matrix.map_apply, Matrix.diagonal_apply]
    by_cases h : v = w <;> simp [h]
  rw [this, Matrix.posSemidef_diagonal_iff]
  intro v
  split
  · split <;> simp [hx, hp]
  · simp

/-- **the average map of measurement-based squeezing preserves the uncertainty relation** whenever its two noise entries are
non-negative (`η ≤ 1` makes `tan²θ (1 − η)/η ≥ 0`): every register size, target position, squeezing and input state -/
theorem ms_avg_uncertainty (n k : Nat) (c ci yx yp : ℝ) (hc : c * ci = 1) (hx : 0 ≤ yx) (hp : 0 ≤ yp)
    (V : Matrix (QI n) (QI n) ℝ) (h : Uncertainty V (omegaMatrix n)) :
    Uncertainty (msX n k c ci * V * (msX n k c ci)ᵀ + msY n k yx yp) (omegaMatrix n) := by
  apply uncertainty_channel V _ _ _ _ h
  rw [msX_symplectic n k c ci hc, sub_self]
  have : cplx (0 : Matrix (QI n) (QI n) ℝ) = 0 := by ext i j; simp [cplx]
  rw [this, smul_zero, add_zero]
  exact cplx_msY_psd n k yx yp hx hp

/-- the noise entry the back end uses, `t2 · (1 − η)/η`, is non-negative for a detection efficiency `0 < η ≤ 1`; with the sign of
seeded change C07-c1, `t2 · (1 − 1/η)`, it is negative as soon as `η < 1` and `t2 > 0` -/
theorem ms_noise_nonneg (t2 η : ℝ) (ht : 0 ≤ t2) (h0 : 0 < η) (h1 : η ≤ 1) : 0 ≤ t2 * (1 - η) / η :=
  div_nonneg (mul_nonneg ht (by linarith)) (le_of_lt h0)

theorem ms_noise_wrong_sign_negative (t2 η : ℝ) (ht : 0 < t2) (h0 : 0 < η) (h1 : η < 1) : t2 * (1 - 1 / η) < 0 := by
  have : 1 < 1 / η := by rw [lt_div_iff₀ h0]; linarith
  nlinarith

end SFV.Bridge
