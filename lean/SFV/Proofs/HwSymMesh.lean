import SFV.Proofs.DecompMore
import SFV.Model.HwCompile

/-!
# `rectangular_symmetric`: the ANGLES it computes when pushing the local phases through a Mach-Zehnder block (C12)

The identity on atoms, `M(φ_i, φ_e)⁻¹ · diag(a, b) = diag(a', b') · M(φ_i, φ_e')`, is `SFV.Decomp.push_phase_MZ` (C17).  Here: the
angle arithmetic of the source (`φ_e' = α − β`, `α' = β − φ_e − φ_i + π`, `β' = β − φ_i + π`, all mod 2π) produces exactly those atoms.
-/
namespace SFV.Hw
open SFV.Decomp SFV.Decomp.Cx

/-- what is used of `x ↦ e^{iπx}`: a homomorphism from the angles (rationals, units of π) to complex pairs with `e^{iπ} = −1`,
conjugation = negation of the angle, period 2 -/
structure PhaseHom (K : Type) [CommRing K] where
  E : Rat → Cx K
  add : ∀ x y, E (x + y) = E x * E y
  neg : ∀ x, E (-x) = conj (E x)
  one : E 1 = -1
  period : ∀ m : Int, E (2 * (m : Rat)) = 1

variable {K : Type} [CommRing K]

theorem PhaseHom.mod2 (H : PhaseHom K) (q : Rat) : H.E (mod2 q) = H.E q := by
  have : SFV.Hw.mod2 q = q + 2 * ((-(q / 2).floor : Int) : Rat) := by
    unfold SFV.Hw.mod2
    rw [Rat.intCast_neg]
    grind
  rw [this, H.add, H.period]
  apply Cx.ext' <;> simp

theorem PhaseHom.sub (H : PhaseHom K) (x y : Rat) : H.E (x - y) = H.E x * conj (H.E y) := by
  have : x - y = x + -y := by grind
  rw [this, H.add, H.neg]

/-- the new angles are the phases the matrix identity `push_phase_MZ` needs -/
theorem pushSymStep_atoms (H : PhaseHom K) (phiI phiE alpha beta : Rat) :
    H.E (pushSymStep phiI phiE alpha beta).1 = H.E phiI ∧
    H.E (pushSymStep phiI phiE alpha beta).2.1 = H.E alpha * conj (H.E beta) ∧
    H.E (pushSymStep phiI phiE alpha beta).2.2.1 = -(H.E beta * conj (H.E phiE) * conj (H.E phiI)) ∧
    H.E (pushSymStep phiI phiE alpha beta).2.2.2 = -(H.E beta * conj (H.E phiI)) := by
  simp only [pushSymStep, H.mod2]
  refine ⟨trivial, H.sub alpha beta, ?_, ?_⟩
  · rw [H.add, H.sub, H.sub, H.one]
    apply Cx.ext' <;> simp <;> ring
  · rw [H.add, H.sub, H.one]
    apply Cx.ext' <;> simp <;> ring

/-- **the push-through of `rectangular_symmetric` is exact**: with `c = cos(φ_i/2)`, `s = sin(φ_i/2)` (`(c + is)² = c² − s² + 2ics = e^{iφ_i}`),
`M(φ_i, φ_e)⁻¹ · diag(e^{iα}, e^{iβ}) = diag(e^{iα'}, e^{iβ'}) · M(φ_i', φ_e')` for the angles `pushSymStep` computes -/
theorem pushSymStep_sound (H : PhaseHom K) (c s : K) (phiI phiE alpha beta : Rat) (hc : c * c + s * s = 1)
    (hcs : (⟨c * c - s * s, 2 * c * s⟩ : Cx K) = H.E phiI)
    (hb : (H.E beta).re * (H.E beta).re + (H.E beta).im * (H.E beta).im = 1) :
    let r := pushSymStep phiI phiE alpha beta
    (blkMZi c s (H.E phiE)).a * H.E alpha = H.E r.2.2.1 * (blkMZ c s (H.E r.2.1)).a ∧
    (blkMZi c s (H.E phiE)).b * H.E beta = H.E r.2.2.1 * (blkMZ c s (H.E r.2.1)).b ∧
    (blkMZi c s (H.E phiE)).c * H.E alpha = H.E r.2.2.2 * (blkMZ c s (H.E r.2.1)).c ∧
    (blkMZi c s (H.E phiE)).d * H.E beta = H.E r.2.2.2 * (blkMZ c s (H.E r.2.1)).d := by
  obtain ⟨_, h2, h3, h4⟩ := pushSymStep_atoms H phiI phiE alpha beta
  have := push_phase_MZ c s (H.E alpha) (H.E beta) (H.E phiE) hc hb
  simp only [hcs] at this
  simp only [h2, h3, h4]
  exact this

end SFV.Hw
