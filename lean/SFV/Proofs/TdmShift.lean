import SFV.Proofs.Tdm
/-! K7 lemmas: closed form of the band-wise default shift, the space-unrolled loop, sample arrangement. -/
namespace SFV.Tdm

theorem shiftBy_length {α : Type} (l : List α) (n : Int) : (shiftBy l n).length = l.length :=
  (shiftBy_perm l n).length_eq

/-- rotation by one, closed form -/
theorem shiftBy_one_getD_mod (l : List Nat) (o : Nat) (h : o < l.length) :
    (shiftBy l 1).getD o 0 = l.getD ((o + 1) % l.length) 0 := by
  by_cases h1 : o + 1 < l.length
  · rw [Nat.mod_eq_of_lt h1]; exact shiftBy_one_getD l o h1
  · have h2 : o + 1 = l.length := by omega
    rw [h2, Nat.mod_self]
    have h3 : o = l.length - 1 := by omega
    rw [h3]; exact shiftBy_one_last l (by omega)

theorem getD_append3 (a b c : List Nat) (j : Nat) :
    (a ++ b ++ c).getD j 0 =
      if j < a.length then a.getD j 0
      else if j < a.length + b.length then b.getD (j - a.length) 0
      else c.getD (j - a.length - b.length) 0 := by
  simp only [List.getD_eq_getElem?_getD]
  split
  · rename_i h
    rw [List.append_assoc, List.getElem?_append_left h]
  · rename_i h
    split
    · rename_i h2
      rw [List.append_assoc, List.getElem?_append_right (by omega), List.getElem?_append_left (by omega)]
    · rename_i h2
      rw [List.getElem?_append_right (by simp; omega)]
      simp [Nat.sub_sub]

/-- **the default shift rotates every band by one step**: after `shiftBands`, slot `o` of band `b`
holds what slot `(o+1) mod N_b` of the same band held; slots below the first band are untouched. -/
theorem shiftBandsFrom_spec (N : List Nat) : ∀ (s : Nat) (q : List Nat), s + N.sum ≤ q.length →
    (shiftBandsFrom s N q).length = q.length ∧
    (∀ j, j < s → (shiftBandsFrom s N q).getD j 0 = q.getD j 0) ∧
    (∀ b, b < N.length → ∀ o, o < N.getD b 0 →
      (shiftBandsFrom s N q).getD (s + (N.take b).sum + o) 0 =
        q.getD (s + (N.take b).sum + (o + 1) % N.getD b 0) 0) := by
  induction N with
  | nil =>
    intro s q _
    exact ⟨rfl, fun _ _ => rfl, fun b hb => by simp at hb⟩
  | cons n ns ih =>
    intro s q hlen
    simp only [List.sum_cons] at hlen
    have hmid : ((q.drop s).take n).length = n := by simp; omega
    have hq'len : (q.take s ++ shiftBy ((q.drop s).take n) 1 ++ q.drop (s + n)).length = q.length := by
      simp [shiftBy_length]; omega
    have hq' : ∀ j, (q.take s ++ shiftBy ((q.drop s).take n) 1 ++ q.drop (s + n)).getD j 0 =
        if j < s then q.getD j 0
        else if j < s + n then ((q.drop s).take n).getD ((j - s + 1) % n) 0
        else q.getD j 0 := by
      intro j
      rw [getD_append3]
      have hts : (q.take s).length = s := by simp; omega
      simp only [hts, shiftBy_length, hmid]
      split
      · rename_i h
        simp [List.getD_eq_getElem?_getD, List.getElem?_take, h]
      · split
        · rename_i h1 h2
          rw [shiftBy_one_getD_mod _ _ (by rw [hmid]; omega), hmid]
        · rename_i h1 h2
          simp only [List.getD_eq_getElem?_getD, List.getElem?_drop]
          congr 2; omega
    have hmidget : ∀ k, k < n → ((q.drop s).take n).getD k 0 = q.getD (s + k) 0 := by
      intro k hk
      simp [List.getD_eq_getElem?_getD, List.getElem?_take, hk, List.getElem?_drop]
    have := ih (s + n) _ (by rw [hq'len]; omega)
    obtain ⟨h1, h2, h3⟩ := this
    simp only [shiftBandsFrom]
    refine ⟨h1.trans hq'len, ?_, ?_⟩
    · intro j hj
      rw [h2 j (by omega), hq' j]; simp [hj]
    · intro b hb o ho
      cases b with
      | zero =>
        simp only [List.take_zero, List.sum_nil, Nat.add_zero, List.getD_cons_zero] at ho ⊢
        rw [h2 (s + o) (by omega), hq' (s + o)]
        have hn : ¬ (s + o < s) := by omega
        have hn2 : s + o < s + n := by omega
        simp only [hn, hn2, if_false, if_true]
        have : s + o - s = o := by omega
        rw [this, hmidget _ (Nat.mod_lt _ (by omega))]
      | succ b =>
        simp only [List.take_succ_cons, List.sum_cons, List.getD_cons_succ, List.length_cons] at ho hb ⊢
        have := h3 b (by omega) o ho
        have e1 : s + (n + (ns.take b).sum) + o = s + n + (ns.take b).sum + o := by omega
        have e2 : s + (n + (ns.take b).sum) + (o + 1) % ns.getD b 0 =
            s + n + (ns.take b).sum + (o + 1) % ns.getD b 0 := by omega
        rw [e1, e2, this, hq']
        have hn : ¬ (s + n + (ns.take b).sum + (o + 1) % ns.getD b 0 < s) := by omega
        have hn2 : ¬ (s + n + (ns.take b).sum + (o + 1) % ns.getD b 0 < s + n) := by omega
        rw [if_neg hn, if_neg hn2]

theorem regAt_succ (cfg : Cfg) (space : Bool) (g : Nat) (q : List Nat) :
    regAt cfg space (g + 1) q = shiftStep cfg space (regAt cfg space g q) := by
  rw [regAt_add]; rfl

theorem regAt_length (cfg : Cfg) (space : Bool) (g : Nat) (q : List Nat) :
    (regAt cfg space g q).length = q.length := (regAt_perm cfg space g q).length_eq

/-- one bin of the default shift, in terms of bands: slot `o` of band `b` at bin `g+1` holds the
subsystem slot `(o+1) mod N_b` of band `b` held at bin `g` -/
theorem regAt_default_step (cfg : Cfg) (hs : cfg.shift = .default) (q : List Nat)
    (hq : cfg.N.sum ≤ q.length) (g b o : Nat) (hb : b < cfg.N.length) (ho : o < cfg.N.getD b 0) :
    (regAt cfg false (g + 1) q).getD ((cfg.N.take b).sum + o) 0 =
      (regAt cfg false g q).getD ((cfg.N.take b).sum + (o + 1) % cfg.N.getD b 0) 0 := by
  rw [regAt_succ]
  have h := (shiftBandsFrom_spec cfg.N 0 (regAt cfg false g q) (by rw [regAt_length]; omega)).2.2 b hb o ho
  simp only [Nat.zero_add] at h
  simpa [shiftStep, hs, shiftBands] using h

/-- closed form: under the default shift, slot `o` of band `b` at bin `g` holds the subsystem that
started in slot `(o + g) mod N_b` of that band -/
theorem regAt_default_closed (cfg : Cfg) (hs : cfg.shift = .default) (q : List Nat)
    (hq : cfg.N.sum ≤ q.length) (g b o : Nat) (hb : b < cfg.N.length) (ho : o < cfg.N.getD b 0) :
    (regAt cfg false g q).getD ((cfg.N.take b).sum + o) 0 =
      q.getD ((cfg.N.take b).sum + (o + g) % cfg.N.getD b 0) 0 := by
  induction g generalizing o with
  | zero => rw [Nat.add_zero, Nat.mod_eq_of_lt ho]; rfl
  | succ g ih =>
    rw [regAt_default_step cfg hs q hq g b o hb ho, ih _ (Nat.mod_lt _ (by omega))]
    congr 2
    rw [Nat.mod_add_mod]; congr 1; omega

/-! ### the space variant: the `has_looped_back` filter never fires on a long enough register -/

theorem listMin_foldl_le (l : List Nat) (a : Nat) : l.foldl min a ≤ a ∧ ∀ m ∈ l, l.foldl min a ≤ m := by
  induction l generalizing a with
  | nil => simp
  | cons x xs ih =>
    simp only [List.foldl_cons, List.mem_cons]
    have := ih (min a x)
    refine ⟨Nat.le_trans this.1 (Nat.min_le_left _ _), ?_⟩
    intro m hm
    rcases hm with rfl | hm
    · exact Nat.le_trans this.1 (Nat.min_le_right _ _)
    · exact this.2 m hm

theorem listMin_le (l : List Nat) : ∀ m ∈ l, listMin l ≤ m := by
  cases l with
  | nil => simp
  | cons x xs =>
    intro m hm
    simp only [listMin]
    rcases List.mem_cons.mp hm with rfl | hm
    · exact (listMin_foldl_le xs _).1
    · exact (listMin_foldl_le xs x).2 m hm

/-- pointwise relation between two lists of the same length -/
inductive All2 {α β : Type} (R : α → β → Prop) : List α → List β → Prop
  | nil : All2 R [] []
  | cons {a b l₁ l₂} : R a b → All2 R l₁ l₂ → All2 R (a :: l₁) (b :: l₂)

/-- no previous index exceeds a current mode -/
def NoLoop (q : List Nat) (c : TCmd) (pv : Nat) : Prop := ∀ m ∈ getModes q c, pv ≤ m

theorem stepCmd_noLoop (cfg : Cfg) (q : List Nat) (t : Nat) (c : TCmd) (pv : Nat) (h : NoLoop q c pv) :
    stepCmd cfg true q t c pv = (some (applyOp cfg c (getModes q c) t), listMin (getModes q c)) := by
  have : (getModes q c).any (· < pv) = false := by
    rw [List.any_eq_false]
    intro m hm
    have := h m hm
    simp; omega
  simp [stepCmd, this]

theorem binStep_space (cfg : Cfg) (q : List Nat) (t : Nat) (rolled : List TCmd) (prev : List Nat)
    (h : All2 (NoLoop q) rolled prev) :
    (binStep cfg true q t rolled prev).1 = binCmds cfg rolled q t ∧
    (binStep cfg true q t rolled prev).2 = rolled.map fun c => listMin (getModes q c) := by
  induction h with
  | nil => simp [binStep, binCmds]
  | cons hc _ ih =>
    simp only [binStep, binCmds] at ih ⊢
    simp [List.zipWith, stepCmd_noLoop cfg q t _ _ hc, ih.1, ih.2]

theorem forall2_map_right {α β : Type} (R : α → β → Prop) (l : List α) (f : α → β)
    (h : ∀ a ∈ l, R a (f a)) : All2 R l (l.map f) := by
  induction l with
  | nil => exact All2.nil
  | cons a l ih =>
    exact All2.cons (h a (by simp)) (ih fun b hb => h b (by simp [hb]))

/-- modes never decrease from one bin to the next (over the bins of `ts`) -/
def Mono (cfg : Cfg) (rolled : List TCmd) (q : List Nat) (n : Nat) : Prop :=
  ∀ j, j + 1 < n → ∀ c ∈ rolled, NoLoop (regAt cfg true (j + 1) q) c (listMin (getModes (regAt cfg true j q) c))

theorem binsLoop_space (cfg : Cfg) (rolled : List TCmd) (ts : List Nat) (q prev : List Nat)
    (h0 : All2 (NoLoop q) rolled prev) (hm : Mono cfg rolled q ts.length) :
    (binsLoop cfg true rolled ts q prev).1 =
      (List.range ts.length).flatMap (fun j => binCmds cfg rolled (regAt cfg true j q) (ts.getD j 0)) ∧
    (binsLoop cfg true rolled ts q prev).2 = regAt cfg true ts.length q := by
  induction ts generalizing q prev with
  | nil => simp [binsLoop, regAt]
  | cons t ts ih =>
    have hb := binStep_space cfg q t rolled prev h0
    cases ts with
    | nil =>
      simp [binsLoop, hb.1, regAt]
    | cons t2 ts2 =>
      have h0' : All2 (NoLoop (shiftStep cfg true q)) rolled (binStep cfg true q t rolled prev).2 := by
        rw [hb.2]
        apply forall2_map_right
        intro c hc
        exact hm 0 (by simp) c hc
      have hm' : Mono cfg rolled (shiftStep cfg true q) (t2 :: ts2).length := by
        intro j hj c hc
        exact hm (j + 1) (by simp at hj ⊢; omega) c hc
      have := ih (shiftStep cfg true q) _ h0' hm'
      have e : binsLoop cfg true rolled (t :: t2 :: ts2) q prev =
          ((binStep cfg true q t rolled prev).1 ++
            (binsLoop cfg true rolled (t2 :: ts2) (shiftStep cfg true q) (binStep cfg true q t rolled prev).2).1,
           (binsLoop cfg true rolled (t2 :: ts2) (shiftStep cfg true q) (binStep cfg true q t rolled prev).2).2) := rfl
      rw [e]
      simp only []
      rw [this.1, this.2, hb.1]
      refine ⟨?_, rfl⟩
      rw [List.length_cons (a := t), List.range_succ_eq_map, List.flatMap_cons, List.flatMap_map]
      simp [regAt]

theorem shotsLoop_space (cfg : Cfg) (rolled : List TCmd) (shots : Nat) (q : List Nat)
    (hm : ∀ s, s < shots → Mono cfg rolled (regAt cfg true (s * cfg.timebins) q) cfg.timebins) :
    shotsLoop cfg true rolled shots q =
      (List.range shots).flatMap fun s => (List.range cfg.timebins).flatMap fun i =>
        binCmds cfg rolled (regAt cfg true (s * cfg.timebins + i) q) i := by
  induction shots generalizing q with
  | zero => simp [shotsLoop]
  | succ n ih =>
    have h0 : All2 (NoLoop q) rolled (rolled.map fun _ => 0) :=
      forall2_map_right _ _ _ (fun _ _ _ _ => Nat.zero_le _)
    have hb := binsLoop_space cfg rolled (List.range cfg.timebins) q _ h0
      (by have := hm 0 (by omega); simpa [regAt] using this)
    have ih' := ih (regAt cfg true cfg.timebins q) (by
      intro s hs
      have := hm (s + 1) (by omega)
      rw [← regAt_add]
      have e : cfg.timebins + s * cfg.timebins = (s + 1) * cfg.timebins := by rw [Nat.succ_mul]; omega
      rw [e]; exact this)
    simp only [shotsLoop]
    rw [hb.1, hb.2, List.length_range, ih', List.range_succ_eq_map, List.flatMap_cons, List.flatMap_map]
    congr 1
    · apply flatMap_congr'
      intro j hj
      simp at hj
      simp [hj]
    · apply flatMap_congr'
      intro s _
      apply flatMap_congr'
      intro i _
      rw [← regAt_add]
      congr 2
      rw [Nat.succ_mul]; omega

theorem regAt_space_range (cfg : Cfg) (L g j : Nat) (h : j + g < L) :
    (regAt cfg true g (List.range L)).getD j 0 = j + g := by
  induction g generalizing j with
  | zero =>
    have hj : j < L := by omega
    simp [regAt, List.getD_eq_getElem?_getD, List.getElem?_range hj]
  | succ g ih =>
    rw [regAt_succ]
    have hl : j + 1 < (regAt cfg true g (List.range L)).length := by
      rw [regAt_length]; simp; omega
    have : shiftStep cfg true (regAt cfg true g (List.range L)) = shiftBy (regAt cfg true g (List.range L)) 1 := by
      simp [shiftStep]
    rw [this, shiftBy_one_getD _ _ hl, ih (j + 1) (by omega)]
    omega

theorem getModes_space_range (cfg : Cfg) (L g : Nat) (c : TCmd) (h : ∀ j ∈ c.regs, j + g < L) :
    getModes (regAt cfg true g (List.range L)) c = c.regs.map (· + g) := by
  unfold getModes
  apply List.map_congr_left
  intro j hj
  exact regAt_space_range cfg L g j (h j hj)

/-- **space-unrolling is the explicit loop with pulse `g + j` in mode `g + j`.**  On a register of
`L ≥ shots·T + C − 1` fresh modes (what `space_unroll(shots)` allocates) no command is ever filtered
and the command on slot `j` in global bin `g = s·T + i` acts on mode `g + j` with parameter column `i`,
for every loop body with slots `< C`, every number of bins and shots. -/
theorem space_unroll_range (cfg : Cfg) (rolled : List TCmd) (shots C L : Nat)
    (hc : ∀ c ∈ rolled, ∀ j ∈ c.regs, j < C) (hL : shots * cfg.timebins + C ≤ L + 1) :
    unrollProgram cfg true rolled shots (List.range L) =
      (List.range shots).flatMap fun s => (List.range cfg.timebins).flatMap fun i =>
        rolled.map fun c => applyOp cfg c (c.regs.map (· + (s * cfg.timebins + i))) i := by
  have hbound : ∀ s i, s < shots → i < cfg.timebins → s * cfg.timebins + i < shots * cfg.timebins := by
    intro s i hs hi
    have : (s + 1) * cfg.timebins ≤ shots * cfg.timebins := Nat.mul_le_mul_right _ hs
    rw [Nat.succ_mul] at this; omega
  unfold unrollProgram
  rw [shotsLoop_space]
  · apply flatMap_congr'
    intro s hs
    apply flatMap_congr'
    intro i hi
    simp at hs hi
    unfold binCmds
    apply List.map_congr_left
    intro c hcm
    rw [getModes_space_range]
    intro j hj
    have := hc c hcm j hj
    have := hbound s i hs hi
    omega
  · intro s hs j hj c hcm m hm
    rw [← regAt_add] at hm ⊢
    have hb1 := hbound s (j + 1) hs hj
    rw [getModes_space_range cfg L _ c (by intro k hk; have := hc c hcm k hk; omega)] at hm
    rw [getModes_space_range cfg L _ c (by intro k hk; have := hc c hcm k hk; omega)]
    simp only [List.mem_map] at hm
    obtain ⟨k, hk, rfl⟩ := hm
    have := listMin_le (c.regs.map (· + (s * cfg.timebins + j))) (k + (s * cfg.timebins + j))
      (List.mem_map.mpr ⟨k, hk, rfl⟩)
    omega


theorem register_addSubsystems (C k : Nat) :
    register (addSubsystems (initRefs C) k) = List.range (C + k) := by
  have hall : ∀ r ∈ addSubsystems (initRefs C) k, r.2 = true := by
    intro r hr
    simp [addSubsystems, initRefs] at hr
    rcases hr with ⟨a, _, rfl⟩ | ⟨a, _, rfl⟩ <;> rfl
  rw [register_all_active _ hall, List.range_add]
  simp [addSubsystems, initRefs, List.map_map, Function.comp_def]

/-- the circuit `space_unroll(k)` installs on a rolled program is the explicit fresh-mode loop -/
theorem spaceFresh_circuit (cfg : Cfg) (prog : List TCmd) (s : St) (h : IsRolled cfg prog s) (k : Nat)
    (hc : ∀ c ∈ prog, ∀ j ∈ c.regs, j < cfg.concurr) :
    (St.spaceFresh cfg s k).circuit =
      (List.range k).flatMap fun sh => (List.range cfg.timebins).flatMap fun i =>
        prog.map fun c => applyOp cfg c (c.regs.map (· + (sh * cfg.timebins + i))) i := by
  by_cases hp : 0 < (k : Int) * (cfg.timebins : Int) - (cfg.concurr : Int) + ((cfg.concurr : Int) - 1)
  · have hreg : (St.spaceFresh cfg s k).circuit = unrollProgram cfg true prog k
        (List.range (cfg.concurr + ((k : Int) * (cfg.timebins : Int) - (cfg.concurr : Int) + ((cfg.concurr : Int) - 1)).toNat)) := by
      simp [St.spaceFresh, St.build, h.circuit, h.initNum, h.regRefs, hp, register_addSubsystems]
    rw [hreg]
    apply space_unroll_range cfg prog k cfg.concurr _ hc
    omega
  · have hreg : (St.spaceFresh cfg s k).circuit = unrollProgram cfg true prog k (List.range cfg.concurr) := by
      simp [St.spaceFresh, St.build, h.circuit, h.initNum, h.regRefs, hp, register_initRefs]
    rw [hreg]
    apply space_unroll_range cfg prog k cfg.concurr _ hc
    have : ((k * cfg.timebins : Nat) : Int) = (k : Int) * (cfg.timebins : Int) := by simp
    omega

end SFV.Tdm
