import SFV.Proofs.TdmShift
/-! K7 lemmas: `reshape_samples` puts the sample of (shot, band, bin) at that entry. -/
namespace SFV.Tdm

/-! ### association lists -/

def keys {β : Type} (l : List (Nat × β)) : List Nat := l.map (·.1)

theorem alGet_alSet {β : Type} (d : β) (l : List (Nat × β)) (k k' : Nat) (v : β) :
    alGet d (alSet l k v) k' = if k' = k then v else alGet d l k' := by
  induction l with
  | nil =>
    simp only [alSet, alGet]
    by_cases h : k = k'
    · simp [h]
    · have : ¬ k' = k := fun e => h e.symm
      simp [h, this]
  | cons a l ih =>
    obtain ⟨ka, va⟩ := a
    simp only [alSet]
    by_cases h : ka = k
    · subst h
      simp only [if_true, alGet]
      by_cases h2 : ka = k'
      · simp [h2]
      · have : ¬ k' = ka := fun e => h2 e.symm
        simp [h2, this]
    · simp only [h, if_false, alGet, ih]
      by_cases h2 : ka = k'
      · subst h2; simp [h]
      · simp [h2]

theorem keys_alSet {β : Type} (l : List (Nat × β)) (k : Nat) (v : β) :
    keys (alSet l k v) = if k ∈ keys l then keys l else keys l ++ [k] := by
  induction l with
  | nil => simp [alSet, keys]
  | cons a l ih =>
    obtain ⟨ka, va⟩ := a
    simp only [alSet]
    by_cases h : ka = k
    · subst h; simp [keys]
    · simp only [h, if_false]
      simp only [keys, List.map_cons, List.mem_cons] at ih ⊢
      rw [ih]
      have : ¬ k = ka := fun e => h e.symm
      simp only [this, false_or]
      split <;> simp [*]

theorem any_key_iff {β : Type} (l : List (Nat × β)) (k : Nat) :
    l.any (·.1 == k) = true ↔ k ∈ keys l := by
  simp only [keys, List.any_eq_true, List.mem_map, beq_iff_eq]

theorem al_ext {β : Type} (d : β) (l : List (Nat × β)) (h : (keys l).Nodup) :
    l = (keys l).map fun k => (k, alGet d l k) := by
  induction l with
  | nil => simp [keys]
  | cons a l ih =>
    obtain ⟨ka, va⟩ := a
    simp only [keys, List.map_cons, List.nodup_cons] at h ⊢
    have ih' := ih h.2
    simp only [alGet, if_true]
    congr 1
    conv => lhs; rw [ih']
    apply List.map_congr_left
    intro k hk
    have : ¬ ka = k := by
      intro e; subst e; exact h.1 hk
    simp [keys, this]

theorem listSet_map_range {β : Type} (T : Nat) (f : Nat → β) (t : Nat) (x : β) :
    listSet ((List.range T).map f) t x = (List.range T).map fun t' => if t' = t then x else f t' := by
  induction T generalizing f t with
  | zero => simp [listSet]
  | succ n ih =>
    rw [List.range_succ_eq_map]
    simp only [List.map_cons, List.map_map]
    cases t with
    | zero =>
      simp only [listSet, if_true]
      congr 1
    | succ t =>
      simp only [listSet]
      have := ih (f ∘ Nat.succ) t
      simp only [Function.comp_def] at this ⊢
      rw [this]
      simp

/-! ### one placement step -/

/-- `out` holds, for the first `nb` measured modes (in order), the `T` rows `O b t`; nothing else -/
structure PInv (modes : List Nat) (T : Nat) (out : List (Nat × List (List Int))) (nb : Nat)
    (O : Nat → Nat → List Int) : Prop where
  hkeys : keys out = modes.take nb
  hrows : ∀ b, b < nb → alGet [] out (modes.getD b 0) = (List.range T).map (O b)
  hempty : ∀ b, nb ≤ b → ∀ t, O b t = []

theorem getD_inj_of_nodup (modes : List Nat) (hm : modes.Nodup) (a b : Nat) (ha : a < modes.length)
    (hb : b < modes.length) (h : modes.getD a 0 = modes.getD b 0) : a = b :=
  (List.getD_inj ha hb hm).mp h

theorem getD_mem_take_iff (modes : List Nat) (hm : modes.Nodup) (b nb : Nat) (hb : b < modes.length)
    (hnb : nb ≤ modes.length) : modes.getD b 0 ∈ modes.take nb ↔ b < nb := by
  constructor
  · intro h
    rw [List.mem_take_iff_getElem] at h
    obtain ⟨i, hi, he⟩ := h
    have hi' : i < modes.length := by omega
    have : i = b := by
      apply getD_inj_of_nodup modes hm i b hi' hb
      simp [List.getD_eq_getElem?_getD, hi', he]
    omega
  · intro h
    rw [List.mem_take_iff_getElem]
    refine ⟨b, by omega, ?_⟩
    simp [List.getD_eq_getElem?_getD, hb]

theorem placeSample_inv (modes : List Nat) (B T : Nat) (hm : modes.Nodup) (hl : modes.length = B)
    (out : List (Nat × List (List Int))) (nb : Nat) (O : Nat → Nat → List Int)
    (h : PInv modes T out nb O) (tb i : Nat) (v : Int) (htb : tb < T) (b : Nat) (hb : i % B = b)
    (hbB : b < B) (hnb : nb ≤ B) (hpres : b ≤ nb) :
    PInv modes T (placeSample modes B T out tb i v).1 (max nb (b + 1))
      (fun b' t' => if b' = b ∧ t' = tb then O b' t' ++ [v] else O b' t') ∧
    (placeSample modes B T out tb i v).2 = if (i + 1) % B = 0 then (tb + 1) % T else tb := by
  refine ⟨?_, rfl⟩
  have hcur : (if out.any (·.1 == modes.getD b 0) then alGet [] out (modes.getD b 0) else List.replicate T [])
      = (List.range T).map (O b) := by
    by_cases hlt : b < nb
    · have : out.any (·.1 == modes.getD b 0) = true := by
        rw [any_key_iff, h.hkeys, getD_mem_take_iff modes hm b nb (by omega) (by omega)]; exact hlt
      rw [this, if_pos rfl, h.hrows b hlt]
    · have : ¬ (out.any (·.1 == modes.getD b 0) = true) := by
        rw [any_key_iff, h.hkeys, getD_mem_take_iff modes hm b nb (by omega) (by omega)]; exact hlt
      rw [if_neg this]
      have he : O b = fun _ => [] := funext (h.hempty b (by omega))
      rw [he]
      apply List.ext_getElem <;> simp
  have hget : ((List.range T).map (O b)).getD tb [] = O b tb := by
    simp [List.getD_eq_getElem?_getD, htb]
  simp only [placeSample, hb, hcur, hget, listSet_map_range]
  constructor
  · rw [keys_alSet, h.hkeys]
    have hiff := getD_mem_take_iff modes hm b nb (by omega) (by omega)
    by_cases hlt : b < nb
    · rw [if_pos (hiff.mpr hlt)]; congr 1; omega
    · rw [if_neg (fun hh => hlt (hiff.mp hh))]
      have e : nb = b := by omega
      subst e
      rw [Nat.max_eq_right (by omega), List.take_succ]
      congr 1
      have : nb < modes.length := by omega
      simp [List.getD_eq_getElem?_getD, this]
  · intro b' hb'
    rw [alGet_alSet]
    by_cases hbb : b' = b
    · subst hbb
      rw [if_pos rfl]
      apply List.map_congr_left
      intro t' _
      by_cases ht : t' = tb
      · subst ht; simp
      · simp [ht]
    · have hb'nb : b' < nb := by omega
      have hne : ¬ modes.getD b' 0 = modes.getD b 0 := by
        intro e
        exact hbb (getD_inj_of_nodup modes hm b' b (by omega) (by omega) e)
      rw [if_neg hne, h.hrows b' hb'nb]
      apply List.map_congr_left
      intro t' _
      simp [hbb]
  · intro b' hb' t'
    have : ¬ b' = b := by omega
    simp only [this, false_and, if_false]
    exact h.hempty b' (by omega) t'

/-! ### bins, shots, all shots -/

theorem PInv.congr {modes : List Nat} {T : Nat} {out : List (Nat × List (List Int))} {nb nb' : Nat}
    {O O' : Nat → Nat → List Int} (h : PInv modes T out nb O) (hn : nb = nb')
    (ho : ∀ b t, O b t = O' b t) : PInv modes T out nb' O' := by
  have : O = O' := funext fun b => funext fun t => ho b t
  subst this; subst hn; exact h

theorem add_mod_small {k B x : Nat} (hk : k % B = 0) (hx : x < B) : (k + x) % B = x := by
  rw [Nat.add_mod, hk, Nat.zero_add, Nat.mod_mod, Nat.mod_eq_of_lt hx]

theorem add_mod_full {k B : Nat} (hk : k % B = 0) : (k + B) % B = 0 := by
  rw [Nat.add_mod_right, hk]

/-- the placement loop over a list of (sample, index) pairs -/
def placeFold (modes : List Nat) (B T : Nat) (st : List (Nat × List (List Int)) × Nat)
    (l : List (Int × Nat)) : List (Nat × List (List Int)) × Nat :=
  l.foldl (fun st x => placeSample modes B T st.1 st.2 x.2 x.1) st

/-- one time bin: the samples `ws` of the bands `m, m+1, …, B-1` -/
theorem placeBin (modes : List Nat) (B T : Nat) (hm : modes.Nodup) (hl : modes.length = B) (k : Nat)
    (hk : k % B = 0) (tb : Nat) (htb : tb < T) :
    ∀ (ws : List Int) (m : Nat) (out : List (Nat × List (List Int))) (nb : Nat) (O : Nat → Nat → List Int),
      m + ws.length = B → PInv modes T out nb O → m ≤ nb → nb ≤ B →
      PInv modes T (placeFold modes B T (out, tb) (ws.zipIdx (k + m))).1 (if ws = [] then nb else B)
        (fun b' t' => if m ≤ b' ∧ b' < B ∧ t' = tb then O b' t' ++ [ws.getD (b' - m) 0] else O b' t') ∧
      (placeFold modes B T (out, tb) (ws.zipIdx (k + m))).2 = if ws = [] then tb else (tb + 1) % T := by
  intro ws
  induction ws with
  | nil =>
    intro m out nb O hlen h _ _
    simp only [List.length_nil, Nat.add_zero] at hlen
    refine ⟨h.congr (by simp) ?_, by simp [placeFold]⟩
    intro b t
    have : ¬ (m ≤ b ∧ b < B ∧ t = tb) := by omega
    simp [this]
  | cons w ws ih =>
    intro m out nb O hlen h hmn hnb
    simp only [List.length_cons] at hlen
    have hmB : m < B := by omega
    have hmod : (k + m) % B = m := add_mod_small hk hmB
    have hstep := placeSample_inv modes B T hm hl out nb O h tb (k + m) w htb m hmod hmB hnb hmn
    have hfold : placeFold modes B T (out, tb) ((w :: ws).zipIdx (k + m)) =
        placeFold modes B T (placeSample modes B T out tb (k + m) w) (ws.zipIdx (k + (m + 1))) := by
      simp [placeFold, List.zipIdx_cons, Nat.add_assoc]
    rw [hfold]
    by_cases hws : ws = []
    · subst hws
      simp only [List.length_nil, Nat.add_zero] at hlen
      have hnext : (k + m + 1) % B = 0 := by
        have : k + m + 1 = k + B := by omega
        rw [this]; exact add_mod_full hk
      simp only [placeFold, List.zipIdx_nil, List.foldl_nil]
      refine ⟨hstep.1.congr ?_ ?_, ?_⟩
      · simp; omega
      · intro b t
        by_cases hb : b = m ∧ t = tb
        · obtain ⟨rfl, rfl⟩ := hb
          have : b ≤ b ∧ b < B ∧ t = t := ⟨Nat.le_refl _, hmB, rfl⟩
          simp [this]
        · have : ¬ (m ≤ b ∧ b < B ∧ t = tb) := by omega
          simp [hb, this]
      · rw [hstep.2, if_pos hnext]; simp
    · have hlen' : 0 < ws.length := List.length_pos_iff.mpr hws
      have hnext : ¬ (k + m + 1) % B = 0 := by
        have : (k + m + 1) % B = m + 1 := by
          rw [Nat.add_assoc]; exact add_mod_small hk (by omega)
        omega
      have htb1 : (placeSample modes B T out tb (k + m) w).2 = tb := by rw [hstep.2, if_neg hnext]
      have := ih (m + 1) (placeSample modes B T out tb (k + m) w).1 (max nb (m + 1)) _ (by omega) hstep.1
        (by omega) (by omega)
      have hpair : placeSample modes B T out tb (k + m) w = ((placeSample modes B T out tb (k + m) w).1, tb) :=
        Prod.ext rfl htb1
      rw [hpair]
      simp only [hws, if_false] at this ⊢
      refine ⟨this.1.congr rfl ?_, by simpa using this.2⟩
      intro b t
      by_cases hb : b = m ∧ t = tb
      · obtain ⟨rfl, rfl⟩ := hb
        have h1 : ¬ (b + 1 ≤ b ∧ b < B ∧ t = t) := by omega
        have h2 : b ≤ b ∧ b < B ∧ t = t := ⟨Nat.le_refl _, hmB, rfl⟩
        simp [h1, h2]
      · by_cases hb2 : m + 1 ≤ b ∧ b < B ∧ t = tb
        · have h2 : m ≤ b ∧ b < B ∧ t = tb := by omega
          have e : b - m = (b - (m + 1)) + 1 := by omega
          have hbm : ¬ b = m := by omega
          simp [hb2, h2, e, hbm]
        · have h2 : ¬ (m ≤ b ∧ b < B ∧ t = tb) := by omega
          simp [hb, hb2, h2]

theorem placeFold_append (modes : List Nat) (B T : Nat) (st : List (Nat × List (List Int)) × Nat)
    (l₁ l₂ : List (Int × Nat)) :
    placeFold modes B T st (l₁ ++ l₂) = placeFold modes B T (placeFold modes B T st l₁) l₂ := by
  simp [placeFold, List.foldl_append]

theorem flatten_length_const (bins : List (List Int)) (B : Nat) (h : ∀ ws ∈ bins, ws.length = B) :
    bins.flatten.length = bins.length * B := by
  induction bins with
  | nil => simp
  | cons ws bins ih =>
    simp only [List.flatten_cons, List.length_append, List.length_cons]
    rw [ih (fun x hx => h x (by simp [hx])), h ws (by simp), Nat.succ_mul]; omega

/-- one shot: the bins `m, m+1, …, T-1` -/
theorem placeShot (modes : List Nat) (B T : Nat) (hm : modes.Nodup) (hl : modes.length = B) (hB : 0 < B)
    (hT : 0 < T) :
    ∀ (bins : List (List Int)) (m : Nat) (out : List (Nat × List (List Int))) (nb : Nat)
      (O : Nat → Nat → List Int) (k : Nat),
      (∀ ws ∈ bins, ws.length = B) → m + bins.length = T → k % B = 0 → PInv modes T out nb O → nb ≤ B →
      PInv modes T (placeFold modes B T (out, m % T) (bins.flatten.zipIdx k)).1 (if bins = [] then nb else B)
        (fun b' t' => if b' < B ∧ m ≤ t' ∧ t' < T then O b' t' ++ [(bins.getD (t' - m) []).getD b' 0]
          else O b' t') ∧
      (placeFold modes B T (out, m % T) (bins.flatten.zipIdx k)).2 = 0 := by
  intro bins
  induction bins with
  | nil =>
    intro m out nb O k _ hlen _ h _
    simp only [List.length_nil, Nat.add_zero] at hlen
    subst hlen
    refine ⟨h.congr (by simp) ?_, by simp [placeFold, Nat.mod_self]⟩
    intro b t
    have : ¬ (b < B ∧ m ≤ t ∧ t < m) := by omega
    simp [this]
  | cons ws bins ih =>
    intro m out nb O k hlens hlen hk h hnb
    simp only [List.length_cons] at hlen
    have hmT : m < T := by omega
    have hwl : ws.length = B := hlens ws (by simp)
    have hws : ws ≠ [] := by
      intro e; rw [e] at hwl; simp at hwl; omega
    rw [Nat.mod_eq_of_lt hmT, List.flatten_cons, List.zipIdx_append, placeFold_append]
    have hbin := placeBin modes B T hm hl k hk m hmT ws 0 out nb O (by omega) h (Nat.zero_le _) hnb
    simp only [hws, if_false, Nat.add_zero] at hbin
    have hpair : placeFold modes B T (out, m) (ws.zipIdx k) =
        ((placeFold modes B T (out, m) (ws.zipIdx k)).1, (m + 1) % T) := Prod.ext rfl hbin.2
    rw [hpair, hwl]
    have := ih (m + 1) _ B _ (k + B) (fun x hx => hlens x (by simp [hx])) (by omega)
      (add_mod_full hk) hbin.1 (Nat.le_refl _)
    refine ⟨this.1.congr (by simp) ?_, this.2⟩
    intro b t
    by_cases hbB : b < B
    · by_cases htm : t = m
      · subst htm
        have h1 : ¬ (b < B ∧ t + 1 ≤ t ∧ t < T) := by omega
        have h2 : (0 ≤ b ∧ b < B ∧ t = t) := ⟨Nat.zero_le _, hbB, rfl⟩
        have h3 : b < B ∧ t ≤ t ∧ t < T := ⟨hbB, Nat.le_refl _, hmT⟩
        simp [h1, h2, h3]
      · by_cases htr : m + 1 ≤ t ∧ t < T
        · have h1 : b < B ∧ m + 1 ≤ t ∧ t < T := ⟨hbB, htr.1, htr.2⟩
          have h2 : ¬ (0 ≤ b ∧ b < B ∧ t = m) := by omega
          have h3 : b < B ∧ m ≤ t ∧ t < T := by omega
          have e : t - m = (t - (m + 1)) + 1 := by omega
          simp [h1, h3, e, htm]
        · have h1 : ¬ (b < B ∧ m + 1 ≤ t ∧ t < T) := by omega
          have h2 : ¬ (0 ≤ b ∧ b < B ∧ t = m) := by omega
          have h3 : ¬ (b < B ∧ m ≤ t ∧ t < T) := by omega
          simp only [h1, h2, h3, if_false]
    · have h1 : ¬ (b < B ∧ m + 1 ≤ t ∧ t < T) := by omega
      have h2 : ¬ (0 ≤ b ∧ b < B ∧ t = m) := by omega
      have h3 : ¬ (b < B ∧ m ≤ t ∧ t < T) := by omega
      simp only [h1, h2, h3, if_false]

/-- all shots -/
theorem placeShots (modes : List Nat) (B T : Nat) (hm : modes.Nodup) (hl : modes.length = B) (hB : 0 < B)
    (hT : 0 < T) :
    ∀ (shots : List (List (List Int))) (out : List (Nat × List (List Int))) (nb : Nat)
      (O : Nat → Nat → List Int) (k : Nat),
      (∀ sh ∈ shots, sh.length = T ∧ ∀ ws ∈ sh, ws.length = B) → k % B = 0 → PInv modes T out nb O → nb ≤ B →
      PInv modes T (placeFold modes B T (out, 0) (shots.flatten.flatten.zipIdx k)).1
        (if shots = [] then nb else B)
        (fun b' t' => if b' < B ∧ t' < T then O b' t' ++ shots.map (fun sh => (sh.getD t' []).getD b' 0)
          else O b' t') ∧
      (placeFold modes B T (out, 0) (shots.flatten.flatten.zipIdx k)).2 = 0 := by
  intro shots
  induction shots with
  | nil =>
    intro out nb O k _ _ h _
    refine ⟨h.congr (by simp) ?_, by simp [placeFold]⟩
    intro b t; simp
  | cons sh shots ih =>
    intro out nb O k hsh hk h hnb
    obtain ⟨hshT, hshB⟩ := hsh sh (by simp)
    have hne : sh ≠ [] := by
      intro e; rw [e] at hshT; simp at hshT; omega
    rw [List.flatten_cons, List.flatten_append, List.zipIdx_append, placeFold_append]
    have h0 : (0 : Nat) % T = 0 := Nat.zero_mod _
    have hshot := placeShot modes B T hm hl hB hT sh 0 out nb O k hshB (by omega) hk h hnb
    rw [h0] at hshot
    simp only [hne, if_false] at hshot
    have hpair : placeFold modes B T (out, 0) (sh.flatten.zipIdx k) =
        ((placeFold modes B T (out, 0) (sh.flatten.zipIdx k)).1, 0) := Prod.ext rfl hshot.2
    rw [hpair, flatten_length_const sh B hshB, hshT]
    have hk' : (k + T * B) % B = 0 := by rw [Nat.add_mul_mod_self_right, hk]
    have := ih _ B _ (k + T * B) (fun x hx => hsh x (by simp [hx])) hk' hshot.1 (Nat.le_refl _)
    refine ⟨this.1.congr (by simp) ?_, this.2⟩
    intro b t
    by_cases hbt : b < B ∧ t < T
    · have h1 : b < B ∧ 0 ≤ t ∧ t < T := ⟨hbt.1, Nat.zero_le _, hbt.2⟩
      rw [if_pos hbt, if_pos h1, if_pos hbt]
      simp
    · have h1 : ¬ (b < B ∧ 0 ≤ t ∧ t < T) := by omega
      rw [if_neg hbt, if_neg h1, if_neg hbt]

/-! ### reading the per-subsystem queues -/

/-- the samples the loop reads while walking along `rest`, when the subsystems of `pre` were read before -/
def readVals (samples : List (Nat × List Int)) : List Nat → List Nat → List Int
  | _, [] => []
  | pre, m :: rest => (alGet [] samples m).getD (pre.count m) 0 :: readVals samples (pre ++ [m]) rest

theorem fold_reshape (samples : List (Nat × List Int)) (modes : List Nat) (B T : Nat) :
    ∀ (rest pre : List Nat) (st : RS) (k : Nat), (∀ m, alGet 0 st.tracker m = pre.count m) →
      (((rest.zipIdx k).map fun x => (x.2, x.1)).foldl (reshapeStep samples modes B T) st).out =
        (placeFold modes B T (st.out, st.tb) ((readVals samples pre rest).zipIdx k)).1 ∧
      (((rest.zipIdx k).map fun x => (x.2, x.1)).foldl (reshapeStep samples modes B T) st).tb =
        (placeFold modes B T (st.out, st.tb) ((readVals samples pre rest).zipIdx k)).2 := by
  intro rest
  induction rest with
  | nil => intro pre st k _; simp [readVals, placeFold]
  | cons m rest ih =>
    intro pre st k htr
    simp only [List.zipIdx_cons, List.map_cons, List.foldl_cons, readVals, placeFold]
    have hstep : reshapeStep samples modes B T st (k, m) =
        { tracker := alSet st.tracker m (pre.count m + 1),
          out := (placeSample modes B T st.out st.tb k ((alGet [] samples m).getD (pre.count m) 0)).1,
          tb := (placeSample modes B T st.out st.tb k ((alGet [] samples m).getD (pre.count m) 0)).2 } := by
      simp [reshapeStep, htr m]
    rw [hstep]
    have := ih (pre ++ [m])
      { tracker := alSet st.tracker m (pre.count m + 1),
        out := (placeSample modes B T st.out st.tb k ((alGet [] samples m).getD (pre.count m) 0)).1,
        tb := (placeSample modes B T st.out st.tb k ((alGet [] samples m).getD (pre.count m) 0)).2 }
      (k + 1) (by
      intro m'
      simp only [alGet_alSet, List.count_append, List.count_singleton]
      by_cases e : m' = m
      · subst e; simp
      · have : ¬ m = m' := fun h => e h.symm
        simp [e, this, htr m'])
    simpa [placeFold] using this

theorem map_eq_map_range_getD {β : Type} (l : List Nat) (F : Nat → β) :
    l.map F = (List.range l.length).map fun i => F (l.getD i 0) := by
  apply List.ext_getElem
  · simp
  · intro i h1 h2
    simp only [List.length_map] at h1
    simp [List.getD_eq_getElem?_getD, h1]

theorem transposeRect_rect (T S : Nat) (hT : 0 < T) (f : Nat → Nat → Int) :
    transposeRect ((List.range T).map fun t => (List.range S).map fun s => f s t) =
      (List.range S).map fun s => (List.range T).map fun t => f s t := by
  obtain ⟨n, rfl⟩ : ∃ n, T = n + 1 := ⟨T - 1, by omega⟩
  have hv : ((List.range (n + 1)).map fun t => (List.range S).map fun s => f s t) =
      ((List.range S).map fun s => f s 0) ::
        ((List.range n).map fun t => (List.range S).map fun s => f s (t + 1)) := by
    rw [List.range_succ_eq_map]; simp [List.map_map, Function.comp_def]
  rw [hv]
  simp only [transposeRect, List.length_map, List.length_range]
  rw [← hv]
  apply List.map_congr_left
  intro s hs
  rw [List.map_map]
  apply List.map_congr_left
  intro t _
  simp only [List.mem_range] at hs
  simp [Function.comp, List.getD_eq_getElem?_getD, hs]

/-- **`reshape_samples` is correct for every mode order.**  If reading the per-subsystem queues of
`samples` along `order` yields the values `val s t b` shot by shot, bin by bin, band by band, then the
result has exactly the keys `modes` (in order) and entry `[s][t]` under key `modes[b]` is `val s t b` -/
theorem reshapeWith_correct (samples : List (Nat × List Int)) (modes : List Nat) (B T S : Nat)
    (order : List Nat) (val : Nat → Nat → Nat → Int)
    (hm : modes.Nodup) (hl : modes.length = B) (hB : 0 < B) (hT : 0 < T) (hS : 0 < S)
    (hread : readVals samples [] order =
      ((List.range S).map fun s => (List.range T).map fun t => (List.range B).map fun b => val s t b).flatten.flatten) :
    reshapeWith samples modes B T order =
      (List.range B).map fun b => (modes.getD b 0, (List.range S).map fun s => (List.range T).map fun t => val s t b) := by
  have hfold := fold_reshape samples modes B T order [] {} 0 (by intro m; simp [alGet])
  have h0 : PInv modes T ([] : List (Nat × List (List Int))) 0 (fun _ _ => []) :=
    ⟨by simp [keys], fun b hb => by omega, fun _ _ _ => rfl⟩
  have hshots := placeShots modes B T hm hl hB hT
    ((List.range S).map fun s => (List.range T).map fun t => (List.range B).map fun b => val s t b)
    [] 0 (fun _ _ => []) 0 (by
      intro sh hsh
      simp only [List.mem_map, List.mem_range] at hsh
      obtain ⟨s, _, rfl⟩ := hsh
      refine ⟨by simp, ?_⟩
      intro ws hws
      simp only [List.mem_map, List.mem_range] at hws
      obtain ⟨t, _, rfl⟩ := hws
      simp) (Nat.zero_mod _) h0 (Nat.zero_le _)
  have hne : ((List.range S).map fun s => (List.range T).map fun t => (List.range B).map fun b => val s t b) ≠ [] := by
    intro e
    have := congrArg List.length e
    simp at this; omega
  simp only [hne, if_false] at hshots
  rw [← hread] at hshots
  have hinv := hshots.1
  unfold reshapeWith
  simp only []
  have hout : ((order.zipIdx.map fun x => (x.2, x.1)).foldl (reshapeStep samples modes B T) {}).out =
      (placeFold modes B T ([], 0) ((readVals samples [] order).zipIdx 0)).1 := hfold.1
  rw [hout]
  have hkeys : keys (placeFold modes B T ([], 0) ((readVals samples [] order).zipIdx 0)).1 = modes := by
    rw [hinv.hkeys, ← hl, List.take_length]
  have hext := al_ext [] (placeFold modes B T ([], 0) ((readVals samples [] order).zipIdx 0)).1
    (by rw [hkeys]; exact hm)
  rw [hkeys] at hext
  rw [hext, List.map_map, map_eq_map_range_getD modes, hl]
  apply List.map_congr_left
  intro b hb
  simp only [List.mem_range] at hb
  simp only [Function.comp]
  rw [hinv.hrows b hb]
  congr 1
  rw [← transposeRect_rect T S hT (fun s t => val s t b)]
  congr 1
  apply List.map_congr_left
  intro t ht
  simp only [List.mem_range] at ht
  rw [if_pos ⟨hb, ht⟩, List.nil_append, List.map_map]
  apply List.map_congr_left
  intro s _
  simp [Function.comp, List.getD_eq_getElem?_getD, ht, hb]


/-! ### what `_run_program` collects, read along `get_mode_order` -/

/-- the collecting loop over the measured subsystems `ms` (tags = positions, starting at `k0`) -/
def collectFrom (acc : List (Nat × List Int)) (ms : List Nat) (k0 : Nat) : List (Nat × List Int) :=
  (ms.zipIdx k0).foldl (fun acc x => alSet acc x.1 (alGet [] acc x.1 ++ [(x.2 : Int)])) acc

theorem collect_fold_map (l : List TCmd) : ∀ (k : Nat) (acc : List (Nat × List Int)),
    (l.zipIdx k).foldl (fun acc x => alSet acc (x.1.regs.getD 0 0)
        (alGet [] acc (x.1.regs.getD 0 0) ++ [(x.2 : Int)])) acc =
      ((l.map fun c => c.regs.getD 0 0).zipIdx k).foldl
        (fun acc x => alSet acc x.1 (alGet [] acc x.1 ++ [(x.2 : Int)])) acc := by
  induction l with
  | nil => intro k acc; rfl
  | cons c l ih =>
    intro k acc
    simp only [List.zipIdx_cons, List.foldl_cons, List.map_cons]
    exact ih _ _

theorem collectSamples_eq (circ : List TCmd) :
    collectSamples circ = collectFrom [] (measuredRegs circ) 0 := by
  unfold collectSamples collectFrom measuredRegs
  exact collect_fold_map _ 0 []

/-- the queue of subsystem `m`: the tags of its measurements, in circuit order -/
theorem alGet_collectFrom (ms : List Nat) : ∀ (acc : List (Nat × List Int)) (k0 m : Nat),
    alGet [] (collectFrom acc ms k0) m =
      alGet [] acc m ++ ((ms.zipIdx k0).filter (fun x => x.1 = m)).map (fun x => (x.2 : Int)) := by
  induction ms with
  | nil => intro acc k0 m; simp [collectFrom]
  | cons a ms ih =>
    intro acc k0 m
    have : collectFrom acc (a :: ms) k0 =
        collectFrom (alSet acc a (alGet [] acc a ++ [(k0 : Int)])) ms (k0 + 1) := by
      simp [collectFrom, List.zipIdx_cons]
    rw [this, ih, alGet_alSet]
    by_cases h : m = a
    · subst h; simp [List.zipIdx_cons, List.filter_cons]
    · have h' : ¬ a = m := fun e => h e.symm
      simp [List.zipIdx_cons, List.filter_cons, h, h']

/-- the `count`-th entry of the queue of `m = ms[i]` is the tag of position `i` -/
theorem queue_getD (ms : List Nat) : ∀ (k0 i m : Nat), i < ms.length → ms.getD i 0 = m →
    (((ms.zipIdx k0).filter (fun x => x.1 = m)).map (fun x => (x.2 : Int))).getD
        ((ms.take i).count m) 0 = ((k0 + i : Nat) : Int) := by
  induction ms with
  | nil => intro k0 i m hi; simp at hi
  | cons a ms ih =>
    intro k0 i m hi hm
    cases i with
    | zero =>
      have : a = m := by simpa [List.getD_eq_getElem?_getD] using hm
      subst this
      simp [List.zipIdx_cons, List.filter_cons]
    | succ i =>
      have hi' : i < ms.length := by simpa using hi
      have hm' : ms.getD i 0 = m := by simpa [List.getD_eq_getElem?_getD] using hm
      have := ih (k0 + 1) i m hi' hm'
      have e : k0 + 1 + i = k0 + (i + 1) := by omega
      rw [e] at this
      by_cases h : a = m
      · subst h
        simp only [List.take_succ_cons, List.zipIdx_cons, List.filter_cons, List.count_cons_self,
          decide_true, if_true, List.map_cons]
        simp only [List.getD_eq_getElem?_getD, List.getElem?_cons_succ] at this ⊢
        exact this
      · have hd : decide (a = m) = false := by simp [h]
        have hne : (a == m) = false := by simp [h]
        simp only [List.take_succ_cons, List.zipIdx_cons, List.filter_cons, hd, List.count_cons, hne]
        simpa using this

theorem readVals_append (samples : List (Nat × List Int)) (l₁ : List Nat) :
    ∀ (pre l₂ : List Nat),
      readVals samples pre (l₁ ++ l₂) = readVals samples pre l₁ ++ readVals samples (pre ++ l₁) l₂ := by
  induction l₁ with
  | nil => intro pre l₂; simp [readVals]
  | cons a l₁ ih =>
    intro pre l₂
    simp only [List.cons_append, readVals, ih]
    simp [List.append_assoc]

/-! ### `rankOf` is a permutation -/

theorem insertByKey_perm (key : Nat → Nat) (x : Nat) (l : List Nat) : (insertByKey key x l).Perm (x :: l) := by
  induction l with
  | nil => exact List.Perm.refl _
  | cons y ys ih =>
    simp only [insertByKey]
    split
    · exact List.Perm.refl _
    · exact ((List.Perm.cons y ih).trans (List.Perm.swap x y ys))

theorem rank_fold_perm (key : Nat → Nat) (l acc : List Nat) :
    (l.foldl (fun acc i => insertByKey key i acc) acc).Perm (l ++ acc) := by
  induction l generalizing acc with
  | nil => exact List.Perm.refl _
  | cons a l ih =>
    simp only [List.foldl_cons, List.cons_append]
    refine (ih _).trans ?_
    refine (List.Perm.append_left l (insertByKey_perm key a acc)).trans ?_
    exact List.perm_middle

theorem rankOf_perm (slots : List Nat) : (rankOf slots).Perm (List.range slots.length) := by
  unfold rankOf
  simpa using rank_fold_perm (fun k => slots.getD k 0) (List.range slots.length) []

/-! ### groups of `n` consecutive measurements (one time bin) -/

/-- the subsystems measured in the `g`-th group of `n` measurements, in circuit order -/
def grp (ms : List Nat) (n g : Nat) : List Nat := (List.range n).map fun k => ms.getD (g * n + k) 0

theorem drop_take_eq_grp (ms : List Nat) (n g k : Nat) (hk : k ≤ n) (h : g * n + k ≤ ms.length) :
    (ms.drop (g * n)).take k = (List.range k).map fun j => ms.getD (g * n + j) 0 := by
  apply List.ext_getElem
  · simp; omega
  · intro i h1 h2
    simp only [List.length_map, List.length_range] at h2
    simp only [List.getElem_take, List.getElem_drop, List.getElem_map, List.getElem_range]
    have : g * n + i < ms.length := by omega
    simp [List.getD_eq_getElem?_getD, this]

theorem take_groups (ms : List Nat) (n : Nat) : ∀ g, g * n ≤ ms.length →
    ms.take (g * n) = (List.range g).flatMap (grp ms n) := by
  intro g
  induction g with
  | zero => intro _; simp
  | succ g ih =>
    intro h
    have hg : g * n ≤ ms.length := by rw [Nat.succ_mul] at h; omega
    rw [Nat.succ_mul, List.take_add, ih hg, List.range_succ, List.flatMap_append]
    congr 1
    simp only [List.flatMap_cons, List.flatMap_nil, List.append_nil]
    exact drop_take_eq_grp ms n g n (Nat.le_refl _) (by rw [Nat.succ_mul] at h; omega)

theorem count_flatMap_perm (m : Nat) (F F' : Nat → List Nat) : ∀ g, (∀ g', g' < g → (F g').Perm (F' g')) →
    ((List.range g).flatMap F).count m = ((List.range g).flatMap F').count m := by
  intro g
  induction g with
  | zero => intro _; simp
  | succ g ih =>
    intro h
    rw [List.range_succ, List.flatMap_append, List.flatMap_append, List.count_append, List.count_append,
      ih (fun g' hg' => h g' (by omega))]
    simp only [List.flatMap_cons, List.flatMap_nil, List.append_nil]
    rw [(h g (by omega)).count_eq]

theorem grp_getD_ne (ms : List Nat) (n g : Nat) (hn : (grp ms n g).Nodup) (k k' : Nat) (hk : k < n)
    (hk' : k' < n) (hne : k' ≠ k) : ms.getD (g * n + k') 0 ≠ ms.getD (g * n + k) 0 := by
  intro e
  have h1 : (grp ms n g).getD k' 0 = ms.getD (g * n + k') 0 := by
    simp [grp, List.getD_eq_getElem?_getD, hk']
  have h2 : (grp ms n g).getD k 0 = ms.getD (g * n + k) 0 := by
    simp [grp, List.getD_eq_getElem?_getD, hk]
  have := (List.getD_inj (fallback := 0) (by simp [grp]; exact hk') (by simp [grp]; exact hk) hn).mp
    (by rw [h1, h2, e])
  exact hne this

/-- one time bin: walking along the group in any duplicate-free order `ks` of its positions reads the
tags of exactly those positions -/
theorem readVals_group (ms : List Nat) (n g : Nat) (hlen : (g + 1) * n ≤ ms.length)
    (hn : (grp ms n g).Nodup) (pre : List Nat)
    (hpre : ∀ m, pre.count m = (ms.take (g * n)).count m) :
    ∀ (rest done : List Nat), (done ++ rest).Nodup → (∀ k ∈ done ++ rest, k < n) →
      readVals (collectFrom [] ms 0) (pre ++ done.map fun k => ms.getD (g * n + k) 0)
          (rest.map fun k => ms.getD (g * n + k) 0) =
        rest.map fun k => ((g * n + k : Nat) : Int) := by
  intro rest
  induction rest with
  | nil => intro done _ _; simp [readVals]
  | cons k rest ih =>
    intro done hnd hlt
    have hk : k < n := hlt k (by simp)
    have hi : g * n + k < ms.length := by rw [Nat.succ_mul] at hlen; omega
    simp only [List.map_cons, readVals]
    congr 1
    · -- the value read is the tag of position g*n+k
      rw [alGet_collectFrom]
      simp only [alGet, List.nil_append]
      have hq := queue_getD ms 0 (g * n + k) (ms.getD (g * n + k) 0) hi rfl
      rw [Nat.zero_add] at hq
      rw [← hq]
      congr 1
      rw [List.count_append, hpre]
      have hdone : (done.map fun k' => ms.getD (g * n + k') 0).count (ms.getD (g * n + k) 0) = 0 := by
        apply List.count_eq_zero_of_not_mem
        intro hmem
        simp only [List.mem_map] at hmem
        obtain ⟨k', hk'mem, he⟩ := hmem
        have hk'lt : k' < n := hlt k' (by simp [hk'mem])
        have hne : k' ≠ k := by
          intro e; subst e
          have := List.nodup_append.mp hnd
          exact this.2.2 k' hk'mem k' (by simp) rfl
        exact grp_getD_ne ms n g hn k k' hk hk'lt hne he
      rw [hdone, Nat.add_zero, List.take_add, List.count_append]
      have hin : ((ms.drop (g * n)).take k).count (ms.getD (g * n + k) 0) = 0 := by
        apply List.count_eq_zero_of_not_mem
        rw [drop_take_eq_grp ms n g k (by omega) (by omega)]
        intro hmem
        simp only [List.mem_map, List.mem_range] at hmem
        obtain ⟨j, hj, he⟩ := hmem
        exact grp_getD_ne ms n g hn k j hk (by omega) (by omega) he
      rw [hin, Nat.add_zero]
    · have := ih (done ++ [k]) (by simpa [List.append_assoc] using hnd)
        (by intro k' hk'; exact hlt k' (by simpa [List.append_assoc] using hk'))
      simpa [List.map_append, List.append_assoc] using this

/-- all time bins: walking along `get_mode_order` reads, from the collected queues, the tag of the
`rank[b]`-th measurement of every group -/
theorem readVals_groups (ms : List Nat) (n G : Nat) (rank : List Nat) (hlen : ms.length = G * n)
    (hrank : rank.Perm (List.range n)) (hn : ∀ g, g < G → (grp ms n g).Nodup) :
    ∀ g, g ≤ G →
      readVals (collectFrom [] ms 0) []
          ((List.range g).flatMap fun g' => rank.map fun k => ms.getD (g' * n + k) 0) =
        (List.range g).flatMap fun g' => rank.map fun k => ((g' * n + k : Nat) : Int) := by
  intro g
  induction g with
  | zero => intro _; simp [readVals]
  | succ g ih =>
    intro hg
    have hgl : (g + 1) * n ≤ ms.length := by rw [hlen]; exact Nat.mul_le_mul_right _ hg
    rw [List.range_succ, List.flatMap_append, List.flatMap_append, readVals_append, ih (by omega)]
    congr 1
    simp only [List.flatMap_cons, List.flatMap_nil, List.append_nil, List.nil_append]
    have hpre : ∀ m, ((List.range g).flatMap fun g' => rank.map fun k => ms.getD (g' * n + k) 0).count m =
        (ms.take (g * n)).count m := by
      intro m
      rw [take_groups ms n g (by rw [Nat.succ_mul] at hgl; omega)]
      apply count_flatMap_perm
      intro g' _
      exact hrank.map _
    have := readVals_group ms n g hgl (hn g (by omega)) _ hpre rank []
      (by simpa using hrank.nodup_iff.mpr List.nodup_range)
      (by intro k hk; simpa using (hrank.mem_iff.mp (by simpa using hk)))
    simpa using this

theorem range_mul_flatMap {β : Type} (S T : Nat) (H : Nat → List β) :
    (List.range (S * T)).flatMap H = (List.range S).flatMap fun s => (List.range T).flatMap fun t => H (s * T + t) := by
  induction S with
  | zero => simp
  | succ S ih =>
    rw [Nat.succ_mul, List.range_add, List.flatMap_append, ih, List.range_succ, List.flatMap_append]
    congr 1
    simp [List.flatMap_map]

theorem nested_flatten (S T : Nat) (X : Nat → Nat → List Int) :
    ((List.range S).map fun s => (List.range T).map fun t => X s t).flatten.flatten =
      (List.range S).flatMap fun s => (List.range T).flatMap fun t => X s t := by
  induction S with
  | zero => simp
  | succ S ih =>
    rw [List.range_succ, List.map_append, List.flatten_append, List.flatten_append, ih, List.flatMap_append]
    simp [List.flatMap_def]

theorem ceil_div_mul (G n : Nat) (hn : 0 < n) : (G * n + n - 1) / n = G := by
  have : G * n + n - 1 = n * G + (n - 1) := by rw [Nat.mul_comm]; omega
  rw [this, Nat.mul_add_div hn, Nat.div_eq_of_lt (by omega)]; omega

/-- **what a run reads.**  If the executed circuit performs `S·T` groups of `n` measurements (`n` = number
of measurements in the loop body) and the subsystems measured within one group are pairwise distinct,
then walking along `get_mode_order` through the collected samples reads, for shot `s`, bin `t`, band `b`,
the outcome of the `rank[b]`-th measurement of time bin `s·T + t` (tag = its position in the circuit). -/
theorem run_reads_in_order (rolled circ : List TCmd) (S T : Nat)
    (hn0 : 0 < (measuredRegs rolled).length)
    (hlen : (measuredRegs circ).length = S * T * (measuredRegs rolled).length)
    (hn : ∀ g, g < S * T → (grp (measuredRegs circ) (measuredRegs rolled).length g).Nodup) :
    readVals (collectSamples circ) [] (measOrder rolled circ) =
      ((List.range S).map fun s => (List.range T).map fun t =>
        (List.range (measuredRegs rolled).length).map fun b =>
          (((s * T + t) * (measuredRegs rolled).length + (rankOf (measuredRegs rolled)).getD b 0 : Nat) : Int)
        ).flatten.flatten := by
  have hrank := rankOf_perm (measuredRegs rolled)
  have hrl : (rankOf (measuredRegs rolled)).length = (measuredRegs rolled).length := by
    simpa using hrank.length_eq
  have hne : ¬ (measuredRegs rolled).length = 0 := by omega
  rw [collectSamples_eq]
  unfold measOrder
  simp only [hne, if_false, hlen, ceil_div_mul _ _ hn0]
  rw [readVals_groups _ _ (S * T) _ hlen hrank hn (S * T) (Nat.le_refl _), range_mul_flatMap, nested_flatten]
  apply flatMap_congr'
  intro s _
  apply flatMap_congr'
  intro t _
  rw [map_eq_map_range_getD, hrl]


/-! ### the measurements of the unrolled circuits satisfy the side conditions of the sample theorems -/

theorem measuredRegs_append (a b : List TCmd) : measuredRegs (a ++ b) = measuredRegs a ++ measuredRegs b := by
  simp [measuredRegs]

theorem measuredRegs_flatMap {α : Type} (l : List α) (F : α → List TCmd) :
    measuredRegs (l.flatMap F) = l.flatMap fun a => measuredRegs (F a) := by
  induction l with
  | nil => simp [measuredRegs]
  | cons a l ih => simp [List.flatMap_cons, measuredRegs_append, ih]

/-- the measurements of one bin, instantiated through any renaming `f` of the slots -/
theorem measuredRegs_map_apply (cfg : Cfg) (rolled : List TCmd) (f : Nat → Nat) (t : Nat)
    (hne : ∀ c ∈ rolled, c.meas = true → c.regs ≠ []) :
    measuredRegs (rolled.map fun c => applyOp cfg c (c.regs.map f) t) = (measuredRegs rolled).map f := by
  induction rolled with
  | nil => simp [measuredRegs]
  | cons c cs ih =>
    have ih' := ih (fun x hx => hne x (by simp [hx]))
    simp only [measuredRegs, List.map_cons, List.filter_cons, applyOp] at ih' ⊢
    by_cases hm : c.meas = true
    · have hr := hne c (by simp) hm
      simp only [hm, if_true, List.map_cons]
      rw [ih']
      congr 1
      cases hc : c.regs with
      | nil => exact absurd hc hr
      | cons a as => simp
    · simp only [hm, if_false]
      exact ih'

/-- blocks of equal length: the `g`-th group of the concatenation is the `g`-th block -/
theorem grp_flatMap_blocks (n : Nat) (B : Nat → List Nat) (hB : ∀ g, (B g).length = n) :
    ∀ G, ((List.range G).flatMap B).length = G * n ∧
      ∀ g, g < G → grp ((List.range G).flatMap B) n g = B g := by
  intro G
  induction G with
  | zero => exact ⟨by simp, fun g hg => by omega⟩
  | succ G ih =>
    have hlen : ((List.range (G + 1)).flatMap B).length = (G + 1) * n := by
      rw [List.range_succ, List.flatMap_append, List.length_append, ih.1]
      simp [hB, Nat.succ_mul]
    refine ⟨hlen, ?_⟩
    intro g hg
    rw [List.range_succ, List.flatMap_append]
    simp only [List.flatMap_cons, List.flatMap_nil, List.append_nil]
    unfold grp
    by_cases hgG : g < G
    · rw [← ih.2 g hgG]
      unfold grp
      apply List.map_congr_left
      intro k hk
      simp only [List.mem_range] at hk
      have hlt : g * n + k < ((List.range G).flatMap B).length := by
        rw [ih.1]
        have : (g + 1) * n ≤ G * n := Nat.mul_le_mul_right _ hgG
        rw [Nat.succ_mul] at this; omega
      simp only [List.getD_eq_getElem?_getD]
      rw [List.getElem?_append_left hlt]
    · have e : g = G := by omega
      subst e
      apply List.ext_getElem
      · simp [hB]
      · intro k h1 h2
        simp only [List.length_map, List.length_range] at h1
        simp only [List.getElem_map, List.getElem_range, List.getD_eq_getElem?_getD]
        rw [List.getElem?_append_right (by rw [ih.1]; omega), ih.1]
        have : g * n + k - g * n = k := by omega
        rw [this]
        simp [h2]

theorem nodup_map_of_inj_on {l : List Nat} {f : Nat → Nat} (hl : l.Nodup)
    (hf : ∀ a ∈ l, ∀ b ∈ l, f a = f b → a = b) : (l.map f).Nodup := by
  induction l with
  | nil => simp
  | cons a l ih =>
    simp only [List.nodup_cons, List.map_cons, List.mem_map, not_exists, not_and] at hl ⊢
    refine ⟨?_, ih hl.2 (fun x hx y hy => hf x (by simp [hx]) y (by simp [hy]))⟩
    intro x hx e
    have := hf x (by simp [hx]) a (by simp) e
    subst this
    exact hl.1 hx

/-- measurement data of a circuit given bin by bin through slot renamings `Q g` -/
theorem measured_of_bins (cfg : Cfg) (rolled : List TCmd) (S : Nat) (Q : Nat → Nat → Nat) (circ : List TCmd)
    (hcirc : circ = (List.range S).flatMap fun s => (List.range cfg.timebins).flatMap fun i =>
      rolled.map fun c => applyOp cfg c (c.regs.map (Q (s * cfg.timebins + i))) i)
    (hne : ∀ c ∈ rolled, c.meas = true → c.regs ≠ [])
    (hslots : (measuredRegs rolled).Nodup)
    (hinj : ∀ g, g < S * cfg.timebins → ∀ a ∈ measuredRegs rolled, ∀ b ∈ measuredRegs rolled,
      Q g a = Q g b → a = b) :
    (measuredRegs circ).length = S * cfg.timebins * (measuredRegs rolled).length ∧
    ∀ g, g < S * cfg.timebins → (grp (measuredRegs circ) (measuredRegs rolled).length g).Nodup := by
  have hms : measuredRegs circ =
      (List.range (S * cfg.timebins)).flatMap fun g => (measuredRegs rolled).map (Q g) := by
    rw [hcirc, measuredRegs_flatMap, range_mul_flatMap]
    apply flatMap_congr'
    intro s _
    rw [measuredRegs_flatMap]
    apply flatMap_congr'
    intro i _
    exact measuredRegs_map_apply cfg rolled _ i hne
  have hblocks := grp_flatMap_blocks (measuredRegs rolled).length
    (fun g => (measuredRegs rolled).map (Q g)) (fun g => by simp) (S * cfg.timebins)
  rw [hms]
  refine ⟨hblocks.1, ?_⟩
  intro g hg
  rw [hblocks.2 g hg]
  exact nodup_map_of_inj_on hslots (hinj g hg)

/-- the shift-unrolled circuit performs `S·T` groups of `n` measurements on pairwise distinct subsystems -/
theorem shift_side_conditions (cfg : Cfg) (rolled : List TCmd) (S : Nat) (q : List Nat) (hq : q.Nodup)
    (hne : ∀ c ∈ rolled, c.meas = true → c.regs ≠ []) (hslots : (measuredRegs rolled).Nodup)
    (hlt : ∀ j ∈ measuredRegs rolled, j < q.length) :
    (measuredRegs (unrollProgram cfg false rolled S q)).length =
        S * cfg.timebins * (measuredRegs rolled).length ∧
    ∀ g, g < S * cfg.timebins →
      (grp (measuredRegs (unrollProgram cfg false rolled S q)) (measuredRegs rolled).length g).Nodup := by
  apply measured_of_bins cfg rolled S (fun g j => (regAt cfg false g q).getD j 0) _ _ hne hslots
  · intro g _ a ha b hb e
    have hp := regAt_perm cfg false g q
    exact (List.getD_inj (by rw [hp.length_eq]; exact hlt a ha) (by rw [hp.length_eq]; exact hlt b hb)
      (hp.nodup_iff.mpr hq)).mp e
  · unfold unrollProgram
    rw [shotsLoop_shift]
    rfl

/-- the space-unrolled circuit on a long enough fresh register, likewise -/
theorem space_side_conditions (cfg : Cfg) (rolled : List TCmd) (S C L : Nat)
    (hc : ∀ c ∈ rolled, ∀ j ∈ c.regs, j < C) (hL : S * cfg.timebins + C ≤ L + 1)
    (hne : ∀ c ∈ rolled, c.meas = true → c.regs ≠ []) (hslots : (measuredRegs rolled).Nodup) :
    (measuredRegs (unrollProgram cfg true rolled S (List.range L))).length =
        S * cfg.timebins * (measuredRegs rolled).length ∧
    ∀ g, g < S * cfg.timebins →
      (grp (measuredRegs (unrollProgram cfg true rolled S (List.range L))) (measuredRegs rolled).length g).Nodup := by
  apply measured_of_bins cfg rolled S (fun g j => j + g) _ _ hne hslots
  · intro g _ a _ b _ e; omega
  · exact space_unroll_range cfg rolled S C L hc hL


end SFV.Tdm
