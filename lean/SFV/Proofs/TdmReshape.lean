import SFV.Proofs.TdmShift
/-! K7 lemmas: `reshape_samples` puts the sample of (shot, band, bin) at that entry. -/
namespace SFV.Tdm

/-! ### association lists -/

def keys {β : Type} (l : List (Nat × β)) : List Nat := l.map (·.1)

theorem alGet_alSet {β : Type} (d : β) (l : List (Nat × β)) (k k' : Nat) (v : β) :
    alGet d (alSet l k v) k' = if k' = k then v else alGet d l k' := by
  induction l with
  | nil =>
    simp only [alSet, alGet]
    by_cases h : k = k'
    · simp [h]
    · have : ¬ k' = k := fun e => h e.symm
      simp [h, this]
  | cons a l ih =>
    obtain ⟨ka, va⟩ := a
    simp only [alSet]
    by_cases h : ka = k
    · subst h
      simp only [if_true, alGet]
      by_cases h2 : ka = k'
      · simp [h2]
      · have : ¬ k' = ka := fun e => h2 e.symm
        simp [h2, this]
    · simp only [h, if_false, alGet, ih]
      by_cases h2 : ka = k'
      · subst h2; simp [h]
      · simp [h2]

theorem keys_alSet {β : Type} (l : List (Nat × β)) (k : Nat) (v : β) :
    keys (alSet l k v) = if k ∈ keys l then keys l else keys l ++ [k] := by
  induction l with
  | nil => simp [alSet, keys]
  | cons a l ih =>
    obtain ⟨ka, va⟩ := a
    simp only [alSet]
    by_cases h : ka = k
    · subst h; simp [keys]
    · simp only [h, if_false]
      simp only [keys, List.map_cons, List.mem_cons] at ih ⊢
      rw [ih]
      have : ¬ k = ka := fun e => h e.symm
      simp only [this, false_or]
      split <;> simp [*]

theorem any_key_iff {β : Type} (l : List (Nat × β)) (k : Nat) :
    l.any (·.1 == k) = true ↔ k ∈ keys l := by
  simp only [keys, List.any_eq_true, List.mem_map, beq_iff_eq]

theorem al_ext {β : Type} (d : β) (l : List (Nat × β)) (h : (keys l).Nodup) :
    l = (keys l).map fun k => (k, alGet d l k) := by
  induction l with
  | nil => simp [keys]
  | cons a l ih =>
    obtain ⟨ka, va⟩ := a
    simp only [keys, List.map_cons, List.nodup_cons] at h ⊢
    have ih' := ih h.2
    simp only [alGet, if_true]
    congr 1
    conv => lhs; rw [ih']
    apply List.map_congr_left
    intro k hk
    have : ¬ ka = k := by
      intro e; subst e; exact h.1 hk
    simp [keys, this]

theorem listSet_map_range {β : Type} (T : Nat) (f : Nat → β) (t : Nat) (x : β) :
    listSet ((List.range T).map f) t x = (List.range T).map fun t' => if t' = t then x else f t' := by
  induction T generalizing f t with
  | zero => simp [listSet]
  | succ n ih =>
    rw [List.range_succ_eq_map]
    simp only [List.map_cons, List.map_map]
    cases t with
    | zero =>
      simp only [listSet, if_true]
      congr 1
    | succ t =>
      simp only [listSet]
      have := ih (f ∘ Nat.succ) t
      simp only [Function.comp_def] at this ⊢
      rw [this]
      simp

/-! ### one placement step -/

/-- `out` holds, for the first `nb` measured modes (in order), the `T` rows `O b t`; nothing else -/
structure PInv (modes : List Nat) (T : Nat) (out : List (Nat × List (List Int))) (nb : Nat)
    (O : Nat → Nat → List Int) : Prop where
  hkeys : keys out = modes.take nb
  hrows : ∀ b, b < nb → alGet [] out (modes.getD b 0) = (List.range T).map (O b)
  hempty : ∀ b, nb ≤ b → ∀ t, O b t = []

theorem getD_inj_of_nodup (modes : List Nat) (hm : modes.Nodup) (a b : Nat) (ha : a < modes.length)
    (hb : b < modes.length) (h : modes.getD a 0 = modes.getD b 0) : a = b :=
  (List.getD_inj ha hb hm).mp h

theorem getD_mem_take_iff (modes : List Nat) (hm : modes.Nodup) (b nb : Nat) (hb : b < modes.length)
    (hnb : nb ≤ modes.length) : modes.getD b 0 ∈ modes.take nb ↔ b < nb := by
  constructor
  · intro h
    rw [List.mem_take_iff_getElem] at h
    obtain ⟨i, hi, he⟩ := h
    have hi' : i < modes.length := by omega
    have : i = b := by
      apply getD_inj_of_nodup modes hm i b hi' hb
      simp [List.getD_eq_getElem?_getD, hi', he]
    omega
  · intro h
    rw [List.mem_take_iff_getElem]
    refine ⟨b, by omega, ?_⟩
    simp [List.getD_eq_getElem?_getD, hb]

theorem placeSample_inv (modes : List Nat) (B T : Nat) (hm : modes.Nodup) (hl : modes.length = B)
    (out : List (Nat × List (List Int))) (nb : Nat) (O : Nat → Nat → List Int)
    (h : PInv modes T out nb O) (tb i : Nat) (v : Int) (htb : tb < T) (b : Nat) (hb : i % B = b)
    (hbB : b < B) (hnb : nb ≤ B) (hpres : b ≤ nb) :
    PInv modes T (placeSample modes B T out tb i v).1 (max nb (b + 1))
      (fun b' t' => if b' = b ∧ t' = tb then O b' t' ++ [v] else O b' t') ∧
    (placeSample modes B T out tb i v).2 = if (i + 1) % B = 0 then (tb + 1) % T else tb := by
  refine ⟨?_, rfl⟩
  have hcur : (if out.any (·.1 == modes.getD b 0) then alGet [] out (modes.getD b 0) else List.replicate T [])
      = (List.range T).map (O b) := by
    by_cases hlt : b < nb
    · have : out.any (·.1 == modes.getD b 0) = true := by
        rw [any_key_iff, h.hkeys, getD_mem_take_iff modes hm b nb (by omega) (by omega)]; exact hlt
      rw [this, if_pos rfl, h.hrows b hlt]
    · have : ¬ (out.any (·.1 == modes.getD b 0) = true) := by
        rw [any_key_iff, h.hkeys, getD_mem_take_iff modes hm b nb (by omega) (by omega)]; exact hlt
      rw [if_neg this]
      have he : O b = fun _ => [] := funext (h.hempty b (by omega))
      rw [he]
      apply List.ext_getElem <;> simp
  have hget : ((List.range T).map (O b)).getD tb [] = O b tb := by
    simp [List.getD_eq_getElem?_getD, htb]
  simp only [placeSample, hb, hcur, hget, listSet_map_range]
  constructor
  · rw [keys_alSet, h.hkeys]
    have hiff := getD_mem_take_iff modes hm b nb (by omega) (by omega)
    by_cases hlt : b < nb
    · rw [if_pos (hiff.mpr hlt)]; congr 1; omega
    · rw [if_neg (fun hh => hlt (hiff.mp hh))]
      have e : nb = b := by omega
      subst e
      rw [Nat.max_eq_right (by omega), List.take_succ]
      congr 1
      have : nb < modes.length := by omega
      simp [List.getD_eq_getElem?_getD, this]
  · intro b' hb'
    rw [alGet_alSet]
    by_cases hbb : b' = b
    · subst hbb
      rw [if_pos rfl]
      apply List.map_congr_left
      intro t' _
      by_cases ht : t' = tb
      · subst ht; simp
      · simp [ht]
    · have hb'nb : b' < nb := by omega
      have hne : ¬ modes.getD b' 0 = modes.getD b 0 := by
        intro e
        exact hbb (getD_inj_of_nodup modes hm b' b (by omega) (by omega) e)
      rw [if_neg hne, h.hrows b' hb'nb]
      apply List.map_congr_left
      intro t' _
      simp [hbb]
  · intro b' hb' t'
    have : ¬ b' = b := by omega
    simp only [this, false_and, if_false]
    exact h.hempty b' (by omega) t'

/-! ### bins, shots, all shots -/

theorem PInv.congr {modes : List Nat} {T : Nat} {out : List (Nat × List (List Int))} {nb nb' : Nat}
    {O O' : Nat → Nat → List Int} (h : PInv modes T out nb O) (hn : nb = nb')
    (ho : ∀ b t, O b t = O' b t) : PInv modes T out nb' O' := by
  have : O = O' := funext fun b => funext fun t => ho b t
  subst this; subst hn; exact h

theorem add_mod_small {k B x : Nat} (hk : k % B = 0) (hx : x < B) : (k + x) % B = x := by
  rw [Nat.add_mod, hk, Nat.zero_add, Nat.mod_mod, Nat.mod_eq_of_lt hx]

theorem add_mod_full {k B : Nat} (hk : k % B = 0) : (k + B) % B = 0 := by
  rw [Nat.add_mod_right, hk]

/-- the placement loop over a list of (sample, index) pairs -/
def placeFold (modes : List Nat) (B T : Nat) (st : List (Nat × List (List Int)) × Nat)
    (l : List (Int × Nat)) : List (Nat × List (List Int)) × Nat :=
  l.foldl (fun st x => placeSample modes B T st.1 st.2 x.2 x.1) st

/-- one time bin: the samples `ws` of the bands `m, m+1, …, B-1` -/
theorem placeBin (modes : List Nat) (B T : Nat) (hm : modes.Nodup) (hl : modes.length = B) (k : Nat)
    (hk : k % B = 0) (tb : Nat) (htb : tb < T) :
    ∀ (ws : List Int) (m : Nat) (out : List (Nat × List (List Int))) (nb : Nat) (O : Nat → Nat → List Int),
      m + ws.length = B → PInv modes T out nb O → m ≤ nb → nb ≤ B →
      PInv modes T (placeFold modes B T (out, tb) (ws.zipIdx (k + m))).1 (if ws = [] then nb else B)
        (fun b' t' => if m ≤ b' ∧ b' < B ∧ t' = tb then O b' t' ++ [ws.getD (b' - m) 0] else O b' t') ∧
      (placeFold modes B T (out, tb) (ws.zipIdx (k + m))).2 = if ws = [] then tb else (tb + 1) % T := by
  intro ws
  induction ws with
  | nil =>
    intro m out nb O hlen h _ _
    simp only [List.length_nil, Nat.add_zero] at hlen
    refine ⟨h.congr (by simp) ?_, by simp [placeFold]⟩
    intro b t
    have : ¬ (m ≤ b ∧ b < B ∧ t = tb) := by omega
    simp [this]
  | cons w ws ih =>
    intro m out nb O hlen h hmn hnb
    simp only [List.length_cons] at hlen
    have hmB : m < B := by omega
    have hmod : (k + m) % B = m := add_mod_small hk hmB
    have hstep := placeSample_inv modes B T hm hl out nb O h tb (k + m) w htb m hmod hmB hnb hmn
    have hfold : placeFold modes B T (out, tb) ((w :: ws).zipIdx (k + m)) =
        placeFold modes B T (placeSample modes B T out tb (k + m) w) (ws.zipIdx (k + (m + 1))) := by
      simp [placeFold, List.zipIdx_cons, Nat.add_assoc]
    rw [hfold]
    by_cases hws : ws = []
    · subst hws
      simp only [List.length_nil, Nat.add_zero] at hlen
      have hnext : (k + m + 1) % B = 0 := by
        have : k + m + 1 = k + B := by omega
        rw [this]; exact add_mod_full hk
      simp only [placeFold, List.zipIdx_nil, List.foldl_nil]
      refine ⟨hstep.1.congr ?_ ?_, ?_⟩
      · simp; omega
      · intro b t
        by_cases hb : b = m ∧ t = tb
        · obtain ⟨rfl, rfl⟩ := hb
          have : b ≤ b ∧ b < B ∧ t = t := ⟨Nat.le_refl _, hmB, rfl⟩
          simp [this]
        · have : ¬ (m ≤ b ∧ b < B ∧ t = tb) := by omega
          simp [hb, this]
      · rw [hstep.2, if_pos hnext]; simp
    · have hlen' : 0 < ws.length := List.length_pos_iff.mpr hws
      have hnext : ¬ (k + m + 1) % B = 0 := by
        have : (k + m + 1) % B = m + 1 := by
          rw [Nat.add_assoc]; exact add_mod_small hk (by omega)
        omega
      have htb1 : (placeSample modes B T out tb (k + m) w).2 = tb := by rw [hstep.2, if_neg hnext]
      have := ih (m + 1) (placeSample modes B T out tb (k + m) w).1 (max nb (m + 1)) _ (by omega) hstep.1
        (by omega) (by omega)
      have hpair : placeSample modes B T out tb (k + m) w = ((placeSample modes B T out tb (k + m) w).1, tb) :=
        Prod.ext rfl htb1
      rw [hpair]
      simp only [hws, if_false] at this ⊢
      refine ⟨this.1.congr rfl ?_, by simpa using this.2⟩
      intro b t
      by_cases hb : b = m ∧ t = tb
      · obtain ⟨rfl, rfl⟩ := hb
        have h1 : ¬ (b + 1 ≤ b ∧ b < B ∧ t = t) := by omega
        have h2 : b ≤ b ∧ b < B ∧ t = t := ⟨Nat.le_refl _, hmB, rfl⟩
        simp [h1, h2]
      · by_cases hb2 : m + 1 ≤ b ∧ b < B ∧ t = tb
        · have h2 : m ≤ b ∧ b < B ∧ t = tb := by omega
          have e : b - m = (b - (m + 1)) + 1 := by omega
          have hbm : ¬ b = m := by omega
          simp [hb2, h2, e, hbm]
        · have h2 : ¬ (m ≤ b ∧ b < B ∧ t = tb) := by omega
          simp [hb, hb2, h2]

theorem placeFold_append (modes : List Nat) (B T : Nat) (st : List (Nat × List (List Int)) × Nat)
    (l₁ l₂ : List (Int × Nat)) :
    placeFold modes B T st (l₁ ++ l₂) = placeFold modes B T (placeFold modes B T st l₁) l₂ := by
  simp [placeFold, List.foldl_append]

theorem flatten_length_const (bins : List (List Int)) (B : Nat) (h : ∀ ws ∈ bins, ws.length = B) :
    bins.flatten.length = bins.length * B := by
  induction bins with
  | nil => simp
  | cons ws bins ih =>
    simp only [List.flatten_cons, List.length_append, List.length_cons]
    rw [ih (fun x hx => h x (by simp [hx])), h ws (by simp), Nat.succ_mul]; omega

/-- one shot: the bins `m, m+1, …, T-1` -/
theorem placeShot (modes : List Nat) (B T : Nat) (hm : modes.Nodup) (hl : modes.length = B) (hB : 0 < B)
    (hT : 0 < T) :
    ∀ (bins : List (List Int)) (m : Nat) (out : List (Nat × List (List Int))) (nb : Nat)
      (O : Nat → Nat → List Int) (k : Nat),
      (∀ ws ∈ bins, ws.length = B) → m + bins.length = T → k % B = 0 → PInv modes T out nb O → nb ≤ B →
      PInv modes T (placeFold modes B T (out, m % T) (bins.flatten.zipIdx k)).1 (if bins = [] then nb else B)
        (fun b' t' => if b' < B ∧ m ≤ t' ∧ t' < T then O b' t' ++ [(bins.getD (t' - m) []).getD b' 0]
          else O b' t') ∧
      (placeFold modes B T (out, m % T) (bins.flatten.zipIdx k)).2 = 0 := by
  intro bins
  induction bins with
  | nil =>
    intro m out nb O k _ hlen _ h _
    simp only [List.length_nil, Nat.add_zero] at hlen
    subst hlen
    refine ⟨h.congr (by simp) ?_, by simp [placeFold, Nat.mod_self]⟩
    intro b t
    have : ¬ (b < B ∧ m ≤ t ∧ t < m) := by omega
    simp [this]
  | cons ws bins ih =>
    intro m out nb O k hlens hlen hk h hnb
    simp only [List.length_cons] at hlen
    have hmT : m < T := by omega
    have hwl : ws.length = B := hlens ws (by simp)
    have hws : ws ≠ [] := by
      intro e; rw [e] at hwl; simp at hwl; omega
    rw [Nat.mod_eq_of_lt hmT, List.flatten_cons, List.zipIdx_append, placeFold_append]
    have hbin := placeBin modes B T hm hl k hk m hmT ws 0 out nb O (by omega) h (Nat.zero_le _) hnb
    simp only [hws, if_false, Nat.add_zero] at hbin
    have hpair : placeFold modes B T (out, m) (ws.zipIdx k) =
        ((placeFold modes B T (out, m) (ws.zipIdx k)).1, (m + 1) % T) := Prod.ext rfl hbin.2
    rw [hpair, hwl]
    have := ih (m + 1) _ B _ (k + B) (fun x hx => hlens x (by simp [hx])) (by omega)
      (add_mod_full hk) hbin.1 (Nat.le_refl _)
    refine ⟨this.1.congr (by simp) ?_, this.2⟩
    intro b t
    by_cases hbB : b < B
    · by_cases htm : t = m
      · subst htm
        have h1 : ¬ (b < B ∧ t + 1 ≤ t ∧ t < T) := by omega
        have h2 : (0 ≤ b ∧ b < B ∧ t = t) := ⟨Nat.zero_le _, hbB, rfl⟩
        have h3 : b < B ∧ t ≤ t ∧ t < T := ⟨hbB, Nat.le_refl _, hmT⟩
        simp [h1, h2, h3]
      · by_cases htr : m + 1 ≤ t ∧ t < T
        · have h1 : b < B ∧ m + 1 ≤ t ∧ t < T := ⟨hbB, htr.1, htr.2⟩
          have h2 : ¬ (0 ≤ b ∧ b < B ∧ t = m) := by omega
          have h3 : b < B ∧ m ≤ t ∧ t < T := by omega
          have e : t - m = (t - (m + 1)) + 1 := by omega
          simp [h1, h3, e, htm]
        · have h1 : ¬ (b < B ∧ m + 1 ≤ t ∧ t < T) := by omega
          have h2 : ¬ (0 ≤ b ∧ b < B ∧ t = m) := by omega
          have h3 : ¬ (b < B ∧ m ≤ t ∧ t < T) := by omega
          simp only [h1, h2, h3, if_false]
    · have h1 : ¬ (b < B ∧ m + 1 ≤ t ∧ t < T) := by omega
      have h2 : ¬ (0 ≤ b ∧ b < B ∧ t = m) := by omega
      have h3 : ¬ (b < B ∧ m ≤ t ∧ t < T) := by omega
      simp only [h1, h2, h3, if_false]

/-- all shots -/
theorem placeShots (modes : List Nat) (B T : Nat) (hm : modes.Nodup) (hl : modes.length = B) (hB : 0 < B)
    (hT : 0 < T) :
    ∀ (shots : List (List (List Int))) (out : List (Nat × List (List Int))) (nb : Nat)
      (O : Nat → Nat → List Int) (k : Nat),
      (∀ sh ∈ shots, sh.length = T ∧ ∀ ws ∈ sh, ws.length = B) → k % B = 0 → PInv modes T out nb O → nb ≤ B →
      PInv modes T (placeFold modes B T (out, 0) (shots.flatten.flatten.zipIdx k)).1
        (if shots = [] then nb else B)
        (fun b' t' => if b' < B ∧ t' < T then O b' t' ++ shots.map (fun sh => (sh.getD t' []).getD b' 0)
          else O b' t') ∧
      (placeFold modes B T (out, 0) (shots.flatten.flatten.zipIdx k)).2 = 0 := by
  intro shots
  induction shots with
  | nil =>
    intro out nb O k _ _ h _
    refine ⟨h.congr (by simp) ?_, by simp [placeFold]⟩
    intro b t; simp
  | cons sh shots ih =>
    intro out nb O k hsh hk h hnb
    obtain ⟨hshT, hshB⟩ := hsh sh (by simp)
    have hne : sh ≠ [] := by
      intro e; rw [e] at hshT; simp at hshT; omega
    rw [List.flatten_cons, List.flatten_append, List.zipIdx_append, placeFold_append]
    have h0 : (0 : Nat) % T = 0 := Nat.zero_mod _
    have hshot := placeShot modes B T hm hl hB hT sh 0 out nb O k hshB (by omega) hk h hnb
    rw [h0] at hshot
    simp only [hne, if_false] at hshot
    have hpair : placeFold modes B T (out, 0) (sh.flatten.zipIdx k) =
        ((placeFold modes B T (out, 0) (sh.flatten.zipIdx k)).1, 0) := Prod.ext rfl hshot.2
    rw [hpair, flatten_length_const sh B hshB, hshT]
    have hk' : (k + T * B) % B = 0 := by rw [Nat.add_mul_mod_self_right, hk]
    have := ih _ B _ (k + T * B) (fun x hx => hsh x (by simp [hx])) hk' hshot.1 (Nat.le_refl _)
    refine ⟨this.1.congr (by simp) ?_, this.2⟩
    intro b t
    by_cases hbt : b < B ∧ t < T
    · have h1 : b < B ∧ 0 ≤ t ∧ t < T := ⟨hbt.1, Nat.zero_le _, hbt.2⟩
      rw [if_pos hbt, if_pos h1, if_pos hbt]
      simp
    · have h1 : ¬ (b < B ∧ 0 ≤ t ∧ t < T) := by omega
      rw [if_neg hbt, if_neg h1, if_neg hbt]

/-! ### reading the per-subsystem queues -/

/-- the samples the loop reads while walking along `rest`, when the subsystems of `pre` were read before -/
def readVals (samples : List (Nat × List Int)) : List Nat → List Nat → List Int
  | _, [] => []
  | pre, m :: rest => (alGet [] samples m).getD (pre.count m) 0 :: readVals samples (pre ++ [m]) rest

theorem fold_reshape (samples : List (Nat × List Int)) (modes : List Nat) (B T : Nat) :
    ∀ (rest pre : List Nat) (st : RS) (k : Nat), (∀ m, alGet 0 st.tracker m = pre.count m) →
      (((rest.zipIdx k).map fun x => (x.2, x.1)).foldl (reshapeStep samples modes B T) st).out =
        (placeFold modes B T (st.out, st.tb) ((readVals samples pre rest).zipIdx k)).1 ∧
      (((rest.zipIdx k).map fun x => (x.2, x.1)).foldl (reshapeStep samples modes B T) st).tb =
        (placeFold modes B T (st.out, st.tb) ((readVals samples pre rest).zipIdx k)).2 := by
  intro rest
  induction rest with
  | nil => intro pre st k _; simp [readVals, placeFold]
  | cons m rest ih =>
    intro pre st k htr
    simp only [List.zipIdx_cons, List.map_cons, List.foldl_cons, readVals, placeFold]
    have hstep : reshapeStep samples modes B T st (k, m) =
        { tracker := alSet st.tracker m (pre.count m + 1),
          out := (placeSample modes B T st.out st.tb k ((alGet [] samples m).getD (pre.count m) 0)).1,
          tb := (placeSample modes B T st.out st.tb k ((alGet [] samples m).getD (pre.count m) 0)).2 } := by
      simp [reshapeStep, htr m]
    rw [hstep]
    have := ih (pre ++ [m])
      { tracker := alSet st.tracker m (pre.count m + 1),
        out := (placeSample modes B T st.out st.tb k ((alGet [] samples m).getD (pre.count m) 0)).1,
        tb := (placeSample modes B T st.out st.tb k ((alGet [] samples m).getD (pre.count m) 0)).2 }
      (k + 1) (by
      intro m'
      simp only [alGet_alSet, List.count_append, List.count_singleton]
      by_cases e : m' = m
      · subst e; simp
      · have : ¬ m = m' := fun h => e h.symm
        simp [e, this, htr m'])
    simpa [placeFold] using this

theorem map_eq_map_range_getD {β : Type} (l : List Nat) (F : Nat → β) :
    l.map F = (List.range l.length).map fun i => F (l.getD i 0) := by
  apply List.ext_getElem
  · simp
  · intro i h1 h2
    simp only [List.length_map] at h1
    simp [List.getD_eq_getElem?_getD, h1]

theorem transposeRect_rect (T S : Nat) (hT : 0 < T) (f : Nat → Nat → Int) :
    transposeRect ((List.range T).map fun t => (List.range S).map fun s => f s t) =
      (List.range S).map fun s => (List.range T).map fun t => f s t := by
  obtain ⟨n, rfl⟩ : ∃ n, T = n + 1 := ⟨T - 1, by omega⟩
  have hv : ((List.range (n + 1)).map fun t => (List.range S).map fun s => f s t) =
      ((List.range S).map fun s => f s 0) ::
        ((List.range n).map fun t => (List.range S).map fun s => f s (t + 1)) := by
    rw [List.range_succ_eq_map]; simp [List.map_map, Function.comp_def]
  rw [hv]
  simp only [transposeRect, List.length_map, List.length_range]
  rw [← hv]
  apply List.map_congr_left
  intro s hs
  rw [List.map_map]
  apply List.map_congr_left
  intro t _
  simp only [List.mem_range] at hs
  simp [Function.comp, List.getD_eq_getElem?_getD, hs]

/-- **`reshape_samples` is correct for every mode order.**  If reading the per-subsystem queues of
`samples` along `order` yields the values `val s t b` shot by shot, bin by bin, band by band, then the
result has exactly the keys `modes` (in order) and entry `[s][t]` under key `modes[b]` is `val s t b` -/
theorem reshapeWith_correct (samples : List (Nat × List Int)) (modes : List Nat) (B T S : Nat)
    (order : List Nat) (val : Nat → Nat → Nat → Int)
    (hm : modes.Nodup) (hl : modes.length = B) (hB : 0 < B) (hT : 0 < T) (hS : 0 < S)
    (hread : readVals samples [] order =
      ((List.range S).map fun s => (List.range T).map fun t => (List.range B).map fun b => val s t b).flatten.flatten) :
    reshapeWith samples modes B T order =
      (List.range B).map fun b => (modes.getD b 0, (List.range S).map fun s => (List.range T).map fun t => val s t b) := by
  have hfold := fold_reshape samples modes B T order [] {} 0 (by intro m; simp [alGet])
  have h0 : PInv modes T ([] : List (Nat × List (List Int))) 0 (fun _ _ => []) :=
    ⟨by simp [keys], fun b hb => by omega, fun _ _ _ => rfl⟩
  have hshots := placeShots modes B T hm hl hB hT
    ((List.range S).map fun s => (List.range T).map fun t => (List.range B).map fun b => val s t b)
    [] 0 (fun _ _ => []) 0 (by
      intro sh hsh
      simp only [List.mem_map, List.mem_range] at hsh
      obtain ⟨s, _, rfl⟩ := hsh
      refine ⟨by simp, ?_⟩
      intro ws hws
      simp only [List.mem_map, List.mem_range] at hws
      obtain ⟨t, _, rfl⟩ := hws
      simp) (Nat.zero_mod _) h0 (Nat.zero_le _)
  have hne : ((List.range S).map fun s => (List.range T).map fun t => (List.range B).map fun b => val s t b) ≠ [] := by
    intro e
    have := congrArg List.length e
    simp at this; omega
  simp only [hne, if_false] at hshots
  rw [← hread] at hshots
  have hinv := hshots.1
  unfold reshapeWith
  simp only []
  have hout : ((order.zipIdx.map fun x => (x.2, x.1)).foldl (reshapeStep samples modes B T) {}).out =
      (placeFold modes B T ([], 0) ((readVals samples [] order).zipIdx 0)).1 := hfold.1
  rw [hout]
  have hkeys : keys (placeFold modes B T ([], 0) ((readVals samples [] order).zipIdx 0)).1 = modes := by
    rw [hinv.hkeys, ← hl, List.take_length]
  have hext := al_ext [] (placeFold modes B T ([], 0) ((readVals samples [] order).zipIdx 0)).1
    (by rw [hkeys]; exact hm)
  rw [hkeys] at hext
  rw [hext, List.map_map, map_eq_map_range_getD modes, hl]
  apply List.map_congr_left
  intro b hb
  simp only [List.mem_range] at hb
  simp only [Function.comp]
  rw [hinv.hrows b hb]
  congr 1
  rw [← transposeRect_rect T S hT (fun s t => val s t b)]
  congr 1
  apply List.map_congr_left
  intro t ht
  simp only [List.mem_range] at ht
  rw [if_pos ⟨hb, ht⟩, List.nil_append, List.map_map]
  apply List.map_congr_left
  intro s _
  simp [Function.comp, List.getD_eq_getElem?_getD, ht, hb]


end SFV.Tdm
