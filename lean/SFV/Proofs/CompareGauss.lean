import SFV.Proofs.OptimizeGauss
import SFV.Proofs.Compare

/-!
C18 ∩ K3: which two-mode gates really are symmetric in their modes, and a physical (Gaussian) interpretation under which the
soundness of `program_equivalence` needs no hypothesis.

`program_equivalence` compares the wires of `S2gate`, `CZgate`, `CKgate`, of a `CXgate` with parameter 0 and of a beamsplitter
with `θ ≡ π/4`, `φ ≡ π/2 (mod π)` as a *set*.  Proved here from the documented rows, for all parameter values:

* `s2_swap`, `cz_swap` — `S2(z)` and `CZ(s)` on `(k, l)` and on `(l, k)` are the same channel;
* `cx_zero` — `CX(0)` is the identity;
* `bs_swap` — a beamsplitter whose reflection coefficient is imaginary (`cos φ = 0`) is symmetric, for every `θ`;
* `bs_real_reflection_not_symmetric` — with a real reflection coefficient (`φ = 0`) it is not.
-/
namespace SFV.GaussSem
open SFV.Gauss

theorem wsum_perm {W W' : List Q} (h : W.Perm W') (f : Q → ℝ) : wsum W f = wsum W' f := by
  unfold wsum
  exact (h.map f).sum_eq

theorem vact_perm {W W' : List Q} (h : W.Perm W') (A : Q → Q → ℝ) : vact W A = vact W' A := by
  funext μ u
  unfold vact
  by_cases hu : u ∈ W
  · rw [if_pos hu, if_pos (h.mem_iff.1 hu), wsum_perm h]
  · rw [if_neg hu, if_neg (fun h' => hu (h.mem_iff.2 h'))]

/-- a local channel depends on its support only as a set -/
theorem act_perm (L : Loc) (W' : List Q) (h : L.W.Perm W') : L.act = ({ L with W := W' } : Loc).act := by
  apply Ch.ext'
  intro s
  apply St.ext'
  · intro u
    simp only [Loc.act, vact_perm h]
    congr 1
    unfold suppv
    by_cases hu : u ∈ L.W
    · rw [if_pos hu, if_pos (h.mem_iff.1 hu)]
    · rw [if_neg hu, if_neg (fun h' => hu (h.mem_iff.2 h'))]
  · intro u v
    simp only [Loc.act, cong, ract, lact, vact_perm h]
    congr 1
    unfold suppt
    by_cases hu : u ∈ L.W ∧ v ∈ L.W
    · rw [if_pos hu, if_pos ⟨h.mem_iff.1 hu.1, h.mem_iff.1 hu.2⟩]
    · rw [if_neg hu, if_neg (fun h' => hu ⟨h.mem_iff.2 h'.1, h.mem_iff.2 h'.2⟩)]

theorem quads2_perm (k l : Nat) : (quads2 k l).Perm (quads2 l k) := List.perm_append_comm

/-- two row descriptions with the same coefficients on the (permuted) support give the same channel -/
theorem rowsLoc_swap (k l : Nat) (R R' : Q → List (Q × ℝ))
    (h : ∀ u ∈ quads2 k l, ∀ w ∈ quads2 k l, coef (R u) w = coef (R' u) w) :
    (rowsLoc (quads2 k l) R).act = (rowsLoc (quads2 l k) R').act := by
  rw [act_perm (rowsLoc (quads2 k l) R) (quads2 l k) (quads2_perm k l)]
  apply act_congr
  · rfl
  · intro u hu w hw
    exact h u ((quads2_perm k l).mem_iff.2 hu) w ((quads2_perm k l).mem_iff.2 hw)
  · intro _ _ _ _; rfl
  · intro _ _; rfl

/-- **`S2gate` is symmetric in its modes**, for every squeezing amplitude and phase -/
theorem s2_swap (k l : Nat) (hkl : k ≠ l) (φ x : ℝ) : (s2Loc k l φ x).act = (s2Loc l k φ x).act := by
  unfold s2Loc
  apply rowsLoc_swap
  intro u hu w hw
  have hlk : l ≠ k := Ne.symm hkl
  rcases mem_quads2.1 hu with rfl | rfl | rfl | rfl <;> rcases mem_quads2.1 hw with rfl | rfl | rfl | rfl <;>
    simp [s2Rows, coef, hkl, hlk]

/-- **`CZgate` is symmetric in its modes** -/
theorem cz_swap (k l : Nat) (hkl : k ≠ l) (x : ℝ) : (czLoc k l x).act = (czLoc l k x).act := by
  unfold czLoc
  apply rowsLoc_swap
  intro u hu w hw
  have hlk : l ≠ k := Ne.symm hkl
  rcases mem_quads2.1 hu with rfl | rfl | rfl | rfl <;> rcases mem_quads2.1 hw with rfl | rfl | rfl | rfl <;>
    simp [czRows, idRow, coef, hkl, hlk]

/-- the beamsplitter rows at `cos φ = c`, `sin φ = s`, `cos θ = ct`, `sin θ = sn` in the convention of `bsLoc` -/
def bsLocAt (k l : Nat) (c s ct sn : ℝ) : Loc := rowsLoc (quads2 k l) (bsRows k l c (-s) ct (-sn))

theorem bsLoc_eq (k l : Nat) (φ x : ℝ) : bsLoc k l φ x = bsLocAt k l (Real.cos φ) (Real.sin φ) (Real.cos x) (Real.sin x) := rfl

/-- **a beamsplitter with imaginary reflection coefficient (`cos φ = 0`) is symmetric in its modes**, whatever `θ` -/
theorem bs_swap (k l : Nat) (hkl : k ≠ l) (s ct sn : ℝ) : (bsLocAt k l 0 s ct sn).act = (bsLocAt l k 0 s ct sn).act := by
  unfold bsLocAt
  apply rowsLoc_swap
  intro u hu w hw
  have hlk : l ≠ k := Ne.symm hkl
  rcases mem_quads2.1 hu with rfl | rfl | rfl | rfl <;> rcases mem_quads2.1 hw with rfl | rfl | rfl | rfl <;>
    simp [bsRows, coef, hkl, hlk]

/-- … and with a real reflection coefficient (`φ = 0`; here `cos θ = 3/5`, `sin θ = 4/5`) it is **not**: the two mode orders
send the unit mean of `x₁` to `∓4/5` on `x₀` -/
theorem bs_real_reflection_not_symmetric :
    (bsLocAt 0 1 1 0 (3/5) (4/5)).act ≠ (bsLocAt 1 0 1 0 (3/5) (4/5)).act := by
  intro h
  have h2 := congrArg (fun c : Ch => (c.run ⟨fun u => if u = (1, false) then 1 else 0, fun _ _ => 0⟩).mu (0, false)) h
  simp [bsLocAt, Loc.act, rowsLoc, vact, suppv, wsum, quads2, quads, bsRows, idRow, coef] at h2
  norm_num at h2

/-! ### a Gaussian interpretation of commands that depends on a command only through what `program_equivalence` compares -/

open SFV in
/-- the channel of a mode-symmetric class on the ascending pair `k < l` -/
noncomputable def sym2 (θ : Nat → Rat) (cls : String) (k l : Nat) (t : List Par) (x : ℝ) : Loc :=
  if cls = "S2gate" then s2Loc k l (tailv θ t 0) x
  else if cls = "CZgate" then czLoc k l x
  else if cls = "BSgateSym" then bsLocAt k l 0 (Real.sin (tailv θ t 0)) (Real.cos x) (Real.sin x)
  else idLoc      -- `CXgate0` (identity, `cx_zero`); `CKgate` is not Gaussian

/-- first parameter with the sign of the dagger flag -/
noncomputable def par0 (θ : Nat → Rat) (c : Cmd) (p : Par) : ℝ := (((sg c.dagger * p.val θ : ℚ)) : ℝ)

/-- the interpretation: symmetric classes are read on their *sorted* modes (that is all the comparison keeps of them),
every other Gaussian gate on its modes as written -/
noncomputable def loc18 (θ : Nat → Rat) (c : Cmd) : Loc :=
  if symmetricCls c then
    match sortDedup c.regs, c.pars with
    | [k, l], p :: t => sym2 θ c.cls k l t (par0 θ c p)
    | _, _ => idLoc
  else
    match c.regs, c.pars with
    | [k], p :: t => G1 θ c.cls k t (par0 θ c p)
    | [k, l], p :: t => G2 θ c.cls k l t (par0 θ c p)
    | _, _ => idLoc

noncomputable def g18 (θ : Nat → Rat) (c : Cmd) : Ch := (loc18 θ c).act

theorem sym2_W (θ : Nat → Rat) (cls : String) (k l : Nat) (t : List Par) (x : ℝ) :
    ∀ u ∈ (sym2 θ cls k l t x).W, u.1 = k ∨ u.1 = l := by
  intro u hu
  unfold sym2 at hu
  split_ifs at hu <;>
    first
    | (simp only [s2Loc, czLoc, bsLocAt, rowsLoc] at hu
       rcases mem_quads2.1 hu with rfl | rfl | rfl | rfl <;> simp)
    | (simp [idLoc] at hu)

theorem loc18_W (θ : Nat → Rat) (c : Cmd) : ∀ u ∈ (loc18 θ c).W, u.1 ∈ c.regs := by
  intro u hu
  unfold loc18 at hu
  split_ifs at hu
  · split at hu
    · rename_i k l p t hs _
      have hkl : ∀ y, y ∈ [k, l] → y ∈ c.regs := fun y hy => mem_sortDedup.1 (hs ▸ hy)
      rcases sym2_W _ _ _ _ _ _ u hu with h | h <;> rw [h]
      · exact hkl k (by simp)
      · exact hkl l (by simp)
    · simp [idLoc] at hu
  · split at hu
    · rename_i k p t hr _
      rw [hr, G1_W _ _ _ _ _ u hu]; simp
    · rename_i k l p t hr _
      rw [hr]
      rcases G2_W _ _ _ _ _ _ u hu with h | h <;> simp [h]
    · simp [idLoc] at hu

/-- independent commands commute -/
theorem g18_comm (θ : Nat → Rat) (a b : Cmd) (h : ¬ dep a b) : g18 θ a * g18 θ b = g18 θ b * g18 θ a := by
  unfold g18
  apply act_comm
  intro u hu hu'
  apply h
  exact ⟨u.1, by simp [Cmd.wires, loc18_W θ a u hu], by simp [Cmd.wires, loc18_W θ b u hu']⟩

/-- the interpretation sees of a command exactly what the comparison sees -/
theorem g18_nodeKey (θ : Nat → Rat) (a b : Cmd) (h : a.nodeKey = b.nodeKey) : g18 θ a = g18 θ b := by
  simp only [Cmd.nodeKey, Prod.mk.injEq] at h
  obtain ⟨hc, hp, hr, _, hd, _⟩ := h
  have hs : symmetricCls a = symmetricCls b := by simp [symmetricCls, hc]
  unfold g18 loc18 par0
  rw [hs] at hr ⊢
  by_cases hb : symmetricCls b = true
  · simp only [hb, if_true] at hr ⊢
    rw [hr, hp, hc, hd]
  · simp only [hb] at hr ⊢
    simp only [Bool.false_eq_true, if_false] at hr ⊢
    rw [hr, hp, hc, hd]

/-- **what the symmetric reading means physically**: for a well-formed command of a mode-symmetric class, on modes `k ≠ l` in
either order, the interpretation is the documented channel on the modes *as written* -/
theorem g18_symmetric_as_written (θ : Nat → Rat) (c : Cmd) (k l : Nat) (hkl : k ≠ l) (hr : c.regs = [k, l])
    (p : Par) (t : List Par) (hp : c.pars = p :: t) (hs : symmetricCls c = true) :
    g18 θ c = (sym2 θ c.cls k l t (par0 θ c p)).act := by
  unfold g18 loc18
  rw [if_pos hs, hr, hp]
  rcases Nat.lt_or_gt_of_ne hkl with h | h
  · have : sortDedup [k, l] = [k, l] := by simp [sortDedup, insertSorted, h]
    rw [this]
  · have : sortDedup [k, l] = [l, k] := by
      simp [sortDedup, insertSorted, Nat.not_lt.2 (Nat.le_of_lt h), Nat.ne_of_gt h]
    rw [this]
    show (sym2 θ c.cls l k t (par0 θ c p)).act = (sym2 θ c.cls k l t (par0 θ c p)).act
    unfold sym2
    split_ifs
    · exact s2_swap l k (Ne.symm hkl) _ _
    · exact cz_swap l k (Ne.symm hkl) _
    · exact bs_swap l k (Ne.symm hkl) _ _ _
    · rfl

end SFV.GaussSem

namespace SFV.GaussSem

/-- the interpretation depends on a command only through the fields `Program.__eq__` compares -/
theorem g18_key (θ : Nat → Rat) (a b : Cmd) (h : a.key = b.key) : g18 θ a = g18 θ b := by
  simp only [Cmd.key, Prod.mk.injEq] at h
  obtain ⟨hc, hp, hr, hd, _⟩ := h
  have hs : symmetricCls a = symmetricCls b := by simp [symmetricCls, hc]
  unfold g18 loc18 par0
  rw [hs, hr, hp, hc, hd]

end SFV.GaussSem
