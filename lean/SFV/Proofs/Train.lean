import SFV.Model.Train
import SFV.Proofs.GaussNM
import SFV.Proofs.AppsCard
import Mathlib.Tactic.Ring
import Mathlib.Tactic.FieldSimp
import Mathlib.Tactic.LinearCombination
import Mathlib.Algebra.Field.Basic
/-!
Lemmas about `SFV.Model.Train`, algebraic part: diagonal sandwiches (`W A W`, `diag(√ω') U diag(1/√ω)`),
the exponential family `P_w(n) = c(n) Π w^n / Z(w)` with its formal partial derivatives, the chain-rule
images `KL.grad` / `Stochastic._gradient_one_sample`, rotations of the Gaussian simulator, the sample
store, exact orbit probabilities.
-/
namespace SFV.Train
open SFV.Gauss

/-! ### sums -/
section sums
variable {K : Type} [CommRing K]

theorem sumTo_zero_fn (n : Nat) : sumTo n (fun _ => (0 : K)) = 0 := by
  induction n with
  | zero => rfl
  | succ n ih => simp [sumTo, ih]

theorem sumTo_congr {n : Nat} {f g : Nat → K} (h : ∀ k, k < n → f k = g k) : sumTo n f = sumTo n g := by
  induction n with
  | zero => rfl
  | succ n ih =>
    simp only [sumTo]
    rw [ih (fun k hk => h k (Nat.lt_succ_of_lt hk)), h n (Nat.lt_succ_self n)]

theorem sumTo_add (n : Nat) (f g : Nat → K) : sumTo n (fun k => f k + g k) = sumTo n f + sumTo n g := by
  induction n with
  | zero => simp [sumTo]
  | succ n ih => simp only [sumTo, ih]; ring

theorem sumTo_mul_left (n : Nat) (a : K) (f : Nat → K) : sumTo n (fun k => a * f k) = a * sumTo n f := by
  induction n with
  | zero => simp [sumTo]
  | succ n ih => simp only [sumTo, ih]; ring

/-- a sum with a single non-zero term -/
theorem sumTo_single {n i : Nat} (hi : i < n) (f : Nat → K) :
    sumTo n (fun k => if k = i then f k else 0) = f i := by
  induction n with
  | zero => omega
  | succ n ih =>
    simp only [sumTo]
    by_cases h : i = n
    · subst h
      have : sumTo i (fun k => if k = i then f k else 0) = 0 := by
        have h0 : sumTo i (fun k => if k = i then f k else 0) = sumTo i (fun _ => (0 : K)) :=
          sumTo_congr fun k hk => by simp [Nat.ne_of_lt hk]
        rw [h0, sumTo_zero_fn]
      simp [this]
    · have hi' : i < n := by omega
      rw [ih hi']
      simp [Ne.symm h]

theorem sumL_append (a b : List K) : sumL (a ++ b) = sumL a + sumL b := by
  induction a with
  | nil => simp [sumL]
  | cons x xs ih => simp only [List.cons_append, sumL, ih]; ring

theorem sumL_map_mul_left {α : Type} (l : List α) (a : K) (f : α → K) :
    sumL (l.map fun e => a * f e) = a * sumL (l.map f) := by
  induction l with
  | nil => simp [sumL]
  | cons x xs ih => simp only [List.map_cons, sumL, ih]; ring

theorem sumL_map_add {α : Type} (l : List α) (f g : α → K) :
    sumL (l.map fun e => f e + g e) = sumL (l.map f) + sumL (l.map g) := by
  induction l with
  | nil => simp [sumL]
  | cons x xs ih => simp only [List.map_cons, sumL, ih]; ring

theorem sumL_map_sub {α : Type} (l : List α) (f g : α → K) :
    sumL (l.map fun e => f e - g e) = sumL (l.map f) - sumL (l.map g) := by
  induction l with
  | nil => simp [sumL]
  | cons x xs ih => simp only [List.map_cons, sumL, ih]; ring

theorem sumL_map_const {α : Type} (l : List α) (a : K) : sumL (l.map fun _ => a) = (l.length : K) * a := by
  induction l with
  | nil => simp [sumL]
  | cons x xs ih => simp only [List.map_cons, sumL, ih, List.length_cons]; push_cast; ring

/-- exchanging a list sum with a range sum -/
theorem sumL_sumTo {α : Type} (l : List α) (n : Nat) (f : α → Nat → K) :
    sumL (l.map fun e => sumTo n (f e)) = sumTo n fun k => sumL (l.map fun e => f e k) := by
  induction l with
  | nil => simp [sumL, sumTo_zero_fn]
  | cons x xs ih => simp only [List.map_cons, sumL, ih, sumTo_add]

end sums

/-! ### diagonal sandwiches: `VGBS.A`, the matrix of `gbs_params` -/
section sandwich
variable {K : Type} [CommRing K]

theorem mm_diag_left {n i : Nat} (hi : i < n) (a : Nat → K) (A : Nat → Nat → K) (j : Nat) :
    mm n (diag a) A i j = a i * A i j := by
  unfold mm diag
  rw [← sumTo_single hi (fun k => a i * A k j)]
  refine sumTo_congr fun k _ => ?_
  by_cases h : k = i
  · subst h; simp
  · have h' : ¬ i = k := fun e => h e.symm
    simp [h, h']

theorem mm_diag_right {n j : Nat} (hj : j < n) (A : Nat → Nat → K) (b : Nat → K) (i : Nat) :
    mm n A (diag b) i j = A i j * b j := by
  unfold mm diag
  rw [← sumTo_single hj (fun k => A i k * b j)]
  exact sumTo_congr fun k _ => by by_cases h : k = j <;> simp [h]

/-- the two matrix products of `np.diag(a) @ A @ np.diag(b)` scale entry `(i, j)` by `a i` and `b j` -/
theorem dAd_entry {n i j : Nat} (hi : i < n) (hj : j < n) (a b : Nat → K) (A : Nat → Nat → K) :
    dAd n a A b i j = a i * A i j * b j := by
  unfold dAd
  rw [mm_diag_right hj, mm_diag_left hi]

theorem vgbsA_entry {n i j : Nat} (hi : i < n) (hj : j < n) (s : Nat → K) (A : Nat → Nat → K) :
    vgbsA n s A i j = s i * A i j * s j := dAd_entry hi hj s s A

theorem vgbsA_symm {n : Nat} (s : Nat → K) (A : Nat → Nat → K) (hA : ∀ i j, i < n → j < n → A i j = A j i)
    {i j : Nat} (hi : i < n) (hj : j < n) : vgbsA n s A i j = vgbsA n s A j i := by
  rw [vgbsA_entry hi hj, vgbsA_entry hj hi, hA i j hi hj]; ring

/-- with `s i² = w i` the trained matrix carries the weight `w` once per row and once per column
in every *product of two entries*: the entry itself is `√w_i A_ij √w_j` -/
theorem vgbsA_sq {n i j : Nat} (hi : i < n) (hj : j < n) (s w : Nat → K) (A : Nat → Nat → K)
    (hs : ∀ k, k < n → s k * s k = w k) :
    vgbsA n s A i j * vgbsA n s A i j = w i * (A i j * A i j) * w j := by
  rw [vgbsA_entry hi hj, ← hs i hi, ← hs j hj]; ring

end sandwich

/-! ### the exponential family -/
section expfam
variable {K : Type} [CommRing K]

theorem pw_pred_mul (x : K) {c : Nat} (hc : c ≠ 0) : pw x (c - 1) * x = pw x c := by
  cases c with
  | zero => exact absurd rfl hc
  | succ c => simp [pw]

theorem prodTo_congr {n : Nat} {f g : Nat → K} (h : ∀ k, k < n → f k = g k) : prodTo n f = prodTo n g := by
  induction n with
  | zero => rfl
  | succ n ih =>
    simp only [prodTo]
    rw [ih (fun k hk => h k (Nat.lt_succ_of_lt hk)), h n (Nat.lt_succ_self n)]

/-- splitting the factor of mode `k` off a product -/
theorem prodTo_split {m k : Nat} (hk : k < m) (f : Nat → K) :
    prodTo m f = f k * prodTo m (fun j => if j = k then 1 else f j) := by
  induction m with
  | zero => omega
  | succ m ih =>
    simp only [prodTo]
    by_cases h : k = m
    · subst h
      have : prodTo k (fun j => if j = k then 1 else f j) = prodTo k f :=
        prodTo_congr fun j hj => by simp [Nat.ne_of_lt hj]
      simp [this]; ring
    · have hk' : k < m := by omega
      rw [ih hk']
      simp [Ne.symm h]; ring

theorem mono_split {m k : Nat} (hk : k < m) (w : Nat → K) (n : List Nat) :
    mono m w n = pw (w k) (cnt n k) * prodTo m (fun j => if j = k then 1 else pw (w j) (cnt n j)) :=
  prodTo_split hk _

/-- `w_k ∂_k (Π w^n) = n_k Π w^n` -/
theorem dmono_mul {m k : Nat} (hk : k < m) (w : Nat → K) (n : List Nat) :
    w k * dmono m w n k = (cnt n k : K) * mono m w n := by
  rw [mono_split hk]
  unfold dmono
  by_cases hc : cnt n k = 0
  · simp [hc]
  · rw [← pw_pred_mul (w k) hc]; ring

/-- **`w_k ∂_k Z = Σ_n n_k c(n) Π w^n`** for every finite support -/
theorem dZ_mul {m k : Nat} (hk : k < m) (w : Nat → K) (S : Support K) :
    w k * dZ m w S k = M1 m w S k := by
  unfold dZ M1
  rw [← sumL_map_mul_left]
  congr 1
  apply List.map_congr_left
  intro e _
  have := dmono_mul hk w e.1
  calc w k * (e.2 * dmono m w e.1 k) = e.2 * (w k * dmono m w e.1 k) := by ring
    _ = _ := by rw [this]; ring

/-- the quotient rule for `P_w(n) = c(n) Π w^n / Z(w)`, cleared of denominators:
`w_k (∂_k num · Z − num · ∂_k Z) = num · (n_k Z − Σ_n' n'_k c(n') Π w^n')` -/
theorem quotient_rule_numerator {m k : Nat} (hk : k < m) (w : Nat → K) (S : Support K) (e : List Nat × K) :
    w k * (e.2 * dmono m w e.1 k * Z m w S - e.2 * mono m w e.1 * dZ m w S k)
      = e.2 * mono m w e.1 * ((cnt e.1 k : K) * Z m w S - M1 m w S k) := by
  have h1 := dmono_mul hk w e.1
  have h2 := dZ_mul hk w S
  calc w k * (e.2 * dmono m w e.1 k * Z m w S - e.2 * mono m w e.1 * dZ m w S k)
      = e.2 * (w k * dmono m w e.1 k) * Z m w S - e.2 * mono m w e.1 * (w k * dZ m w S k) := by ring
    _ = _ := by rw [h1, h2]; ring

end expfam

section expfamField
variable {K : Type} [Field K]

theorem sumL_map_div {α : Type} (l : List α) (z : K) (f : α → K) :
    sumL (l.map fun e => f e / z) = sumL (l.map f) / z := by
  induction l with
  | nil => simp [sumL]
  | cons x xs ih => simp only [List.map_cons, sumL, ih]; ring

/-- **normalisation by construction of `Z`** -/
theorem prob_sum_one (m : Nat) (w : Nat → K) (S : Support K) (hZ : Z m w S ≠ 0) :
    sumL (S.map (prob m w S)) = 1 := by
  unfold prob
  rw [sumL_map_div]
  exact div_self hZ

/-- `∂_k P_w(n) = P_w(n) (n_k − ⟨n_k⟩_w) / w_k` with the formal derivatives of numerator and `Z` -/
theorem prob_formal_derivative {m k : Nat} (hk : k < m) (w : Nat → K) (S : Support K) (e : List Nat × K)
    (hZ : Z m w S ≠ 0) (hw : w k ≠ 0) :
    (e.2 * dmono m w e.1 k * Z m w S - e.2 * mono m w e.1 * dZ m w S k) / (Z m w S * Z m w S)
      = prob m w S e * ((cnt e.1 k : K) - meanN m w S k) / w k := by
  have h := quotient_rule_numerator hk w S e
  unfold prob meanN
  field_simp
  linear_combination h

/-- the first moments of the model distribution are `M1 / Z` -/
theorem meanN_eq_sum (m : Nat) (w : Nat → K) (S : Support K) (k : Nat) :
    meanN m w S k = sumL (S.map fun e => (cnt e.1 k : K) * prob m w S e) := by
  unfold meanN M1 prob
  rw [← sumL_map_div]
  congr 1
  apply List.map_congr_left
  intro e _
  ring

/-! ### `KL.grad`, `Stochastic._gradient_one_sample` -/

/-- the weights cancel: `KL.grad_j = Σ_k (⟨n_k⟩_model − ⟨n_k⟩_data)(−F_kj)` -/
theorem klGrad_cancel (m : Nat) (F : Nat → Nat → K) (w nM nD : Nat → K) (hw : ∀ k, k < m → w k ≠ 0) (j : Nat) :
    klGrad m F w nM nD j = sumTo m fun k => (nM k - nD k) * -(F k j) := by
  unfold klGrad jacobian
  apply sumTo_congr
  intro k hk
  have := hw k hk
  field_simp

/-- the data enter `KL.grad` only through their mean: `Σ_S (S_k − a) = T (mean_k − a)` -/
theorem meanData_spec (data : List (List Nat)) (k : Nat) (a : K) (hT : (data.length : K) ≠ 0) :
    sumL (data.map fun s => ((cnt s k : K) - a)) = (data.length : K) * (meanData data k - a) := by
  rw [sumL_map_sub, sumL_map_const]
  unfold meanData
  field_simp

/-- **`KL.grad` is the chain-rule image of the cost**: with `∂KL/∂w_k = −(1/T) Σ_S (S_k − ⟨n_k⟩)/w_k`
(the partial derivatives `prob_formal_derivative` gives for `−(1/T) Σ_S log P_w(S)`) and the Jacobian of
the embedding, `KL.grad_j = Σ_k ∂KL/∂w_k · ∂w_k/∂θ_j` — for every data set and every feature matrix -/
theorem klGrad_chain (m : Nat) (F : Nat → Nat → K) (w nM : Nat → K) (data : List (List Nat))
    (hT : (data.length : K) ≠ 0) (j : Nat) :
    klGrad m F w nM (meanData data) j
      = sumTo m fun k => (-(sumL (data.map fun s => ((cnt s k : K) - nM k) / w k)) / (data.length : K))
          * jacobian F w k j := by
  unfold klGrad
  apply sumTo_congr
  intro k _
  have h := meanData_spec data k (nM k) hT
  have h2 : sumL (data.map fun s => ((cnt s k : K) - nM k) / w k)
      = sumL (data.map fun s => ((cnt s k : K) - nM k)) / w k := sumL_map_div data (w k) _
  rw [h2, h]
  field_simp
  ring

/-- one-sample gradient with the weights cancelled -/
theorem gradOne_cancel (m : Nat) (F : Nat → Nat → K) (w nM : Nat → K) (hrep : K) (n : List Nat)
    (hw : ∀ k, k < m → w k ≠ 0) (j : Nat) :
    gradOne m F w nM hrep n j = hrep * sumTo m fun k => ((cnt n k : K) - nM k) * -(F k j) := by
  unfold gradOne jacobian
  rw [← sumTo_mul_left]
  apply sumTo_congr
  intro k hk
  have := hw k hk
  field_simp

/-- `Stochastic.grad` is the mean of the one-sample gradients, which are the chain-rule images of
`h_reparametrized`: `∂_k h(n, θ) = h(n, θ) (n_k − ⟨n_k⟩)/w_k` by `prob_formal_derivative` -/
theorem stochGrad_chain (m : Nat) (F : Nat → Nat → K) (w nM : Nat → K) (samples : List (K × List Nat)) (j : Nat) :
    stochGrad m F w nM samples j
      = sumL (samples.map fun e => sumTo m fun k => (e.1 * (((cnt e.2 k : K) - nM k) / w k)) * jacobian F w k j)
          / (samples.length : K) := rfl

end expfamField

/-! ### `TimeEvolution`: a product of rotations -/
section rotations
variable {K : Type} [CommRing K]

theorem rotations_N_diag (rots : List (K × K × Nat)) (st : GS K) (i : Nat) :
    ((rotations st rots).N i i).re = (st.N i i).re := by
  induction rots generalizing st with
  | nil => rfl
  | cons r rest ih =>
    obtain ⟨c, s, k⟩ := r
    simp only [rotations]
    rw [ih, phaseShift_photon]
    split <;> simp_all

theorem rotations_n (rots : List (K × K × Nat)) (st : GS K) : (rotations st rots).n = st.n := by
  induction rots generalizing st with
  | nil => rfl
  | cons r rest ih =>
    obtain ⟨c, s, k⟩ := r
    simp only [rotations]
    rw [ih]; rfl

/-- `|⟨a_i⟩|²` is kept by every rotation on the unit circle -/
theorem phaseShift_amp (st : GS K) (c s : K) (hcs : c * c + s * s = 1) (k i : Nat) :
    ((phaseShift st c s k).mean i).re * ((phaseShift st c s k).mean i).re
      + ((phaseShift st c s k).mean i).im * ((phaseShift st c s k).mean i).im
      = (st.mean i).re * (st.mean i).re + (st.mean i).im * (st.mean i).im := by
  by_cases hi : i = k
  · subst hi
    simp [phaseShift, writeRowCol]
    linear_combination ((st.mean i).re * (st.mean i).re + (st.mean i).im * (st.mean i).im) * hcs
  · simp [phaseShift, writeRowCol, hi]

theorem rotations_amp (rots : List (K × K × Nat)) (hcs : ∀ r ∈ rots, r.1 * r.1 + r.2.1 * r.2.1 = 1)
    (st : GS K) (i : Nat) :
    ((rotations st rots).mean i).re * ((rotations st rots).mean i).re
      + ((rotations st rots).mean i).im * ((rotations st rots).mean i).im
      = (st.mean i).re * (st.mean i).re + (st.mean i).im * (st.mean i).im := by
  induction rots generalizing st with
  | nil => rfl
  | cons r rest ih =>
    obtain ⟨c, s, k⟩ := r
    simp only [rotations]
    rw [ih (fun r hr => hcs r (List.mem_cons_of_mem _ hr))]
    exact phaseShift_amp st c s (hcs (c, s, k) (List.mem_cons_self ..)) k i

/-- `TimeEvolution` is the rotation sequence on modes `i0, i0+1, …` -/
def indexed : List (K × K) → Nat → List (K × K × Nat)
  | [], _ => []
  | (c, s) :: rest, i => (c, s, i) :: indexed rest (i + 1)

theorem timeEvolve_eq_rotations (rots : List (K × K)) (st : GS K) (i0 : Nat) :
    timeEvolve st rots i0 = rotations st (indexed rots i0) := by
  induction rots generalizing st i0 with
  | nil => rfl
  | cons r rest ih =>
    obtain ⟨c, s⟩ := r
    simp only [timeEvolve, indexed, rotations]
    exact ih _ _

theorem indexed_circle (rots : List (K × K)) (h : ∀ r ∈ rots, r.1 * r.1 + r.2 * r.2 = 1) (i0 : Nat) :
    ∀ r ∈ indexed rots i0, r.1 * r.1 + r.2.1 * r.2.1 = 1 := by
  induction rots generalizing i0 with
  | nil => intro r hr; cases hr
  | cons r rest ih =>
    obtain ⟨c, s⟩ := r
    intro x hx
    simp only [indexed, List.mem_cons] at hx
    rcases hx with rfl | hx
    · exact h (c, s) (List.mem_cons_self ..)
    · exact ih (fun r hr => h r (List.mem_cons_of_mem _ hr)) _ x hx

/-- every rotation of the list keeps the invariant of the simulator -/
theorem rotations_inv (rots : List (K × K × Nat)) (st : GS K) (hI : NMInv st) : NMInv (rotations st rots) := by
  induction rots generalizing st with
  | nil => exact hI
  | cons r rest ih =>
    obtain ⟨c, s, k⟩ := r
    simp only [rotations]
    exact ih _ (phaseShift_inv st hI c s k)

end rotations

/-! ### the sample store -/
section store
variable {α : Type}

theorem getSamples_store_prefix (store : List α) (n : Nat) (fresh : Nat → List α) :
    ∃ new, (getSamples store n fresh).1 = store ++ new := by
  unfold getSamples
  split
  · exact ⟨_, rfl⟩
  · exact ⟨[], by simp⟩

theorem getSamples_result (store : List α) (n : Nat) (fresh : Nat → List α) :
    (getSamples store n fresh).2.1 = (getSamples store n fresh).1.take n := by
  unfold getSamples
  split <;> rfl

theorem getSamples_length (store : List α) (n : Nat) (fresh : Nat → List α) (hf : ∀ k, (fresh k).length = k) :
    (getSamples store n fresh).2.1.length = n := by
  unfold getSamples
  split
  · simp [hf]; omega
  · simp; omega

/-- stored samples are never regenerated: what was returned before is returned again -/
theorem getSamples_keeps_old (store : List α) (n : Nat) (fresh : Nat → List α) :
    (getSamples store n fresh).2.1.take store.length = store.take n := by
  unfold getSamples
  split
  · next h =>
    simp only [List.take_take]
    rw [Nat.min_eq_left (Nat.le_of_lt h), List.take_left']
    · rw [List.take_of_length_le (Nat.le_of_lt h)]
    · rfl
  · next h =>
    simp only [List.take_take]
    rw [Nat.min_eq_right (by omega)]

theorem getSamples_requests (store : List α) (n : Nat) (fresh : Nat → List α) :
    (getSamples store n fresh).2.2 = n - store.length := by
  unfold getSamples
  split
  · rfl
  · simp; omega

end store

/-! ### exact orbit / event probabilities -/
section orbit
open SFV.Apps

theorem orbitPatterns_short {orbit : List Nat} {modes : Nat} (h : modes < orbit.length) :
    orbitPatterns orbit modes = [] := by simp [orbitPatterns, h]

theorem orbitPatterns_mem {orbit : List Nat} {modes : Nat} (h : orbit.length ≤ modes) (w : List Nat) :
    w ∈ orbitPatterns orbit modes ↔ w.Perm (orbitSample orbit modes) := by
  have : ¬ modes < orbit.length := by omega
  simp only [orbitPatterns, this, if_false]
  exact card_dperms_mem_iff modes _ w (orbitSample_length h)

theorem orbitPatterns_nodup (orbit : List Nat) (modes : Nat) : (orbitPatterns orbit modes).Nodup := by
  unfold orbitPatterns
  split
  · exact List.nodup_nil
  · exact card_dperms_nodup modes _

end orbit

/-! ### hafnian: homogeneity under a diagonal sandwich; the exponential-family form of the GBS weight -/
section hafnian
variable {K : Type} [CommRing K]

theorem picks_mem {l : List Nat} {p : Nat × List Nat} (hp : p ∈ picks l) : p.1 ∈ l ∧ ∀ x ∈ p.2, x ∈ l := by
  induction l generalizing p with
  | nil => cases hp
  | cons a as ih =>
    simp only [picks, List.mem_cons, List.mem_map] at hp
    rcases hp with rfl | ⟨q, hq, rfl⟩
    · exact ⟨List.mem_cons_self .., fun x hx => List.mem_cons_of_mem _ hx⟩
    · obtain ⟨h1, h2⟩ := ih hq
      refine ⟨List.mem_cons_of_mem _ h1, fun x hx => ?_⟩
      rcases List.mem_cons.mp hx with rfl | hx
      · exact List.mem_cons_self ..
      · exact List.mem_cons_of_mem _ (h2 x hx)

/-- taking an element out does not change the product over the list -/
theorem picks_prod (f : Nat → K) {l : List Nat} {p : Nat × List Nat} (hp : p ∈ picks l) :
    f p.1 * prodL (p.2.map f) = prodL (l.map f) := by
  induction l generalizing p with
  | nil => cases hp
  | cons a as ih =>
    simp only [picks, List.mem_cons, List.mem_map] at hp
    rcases hp with rfl | ⟨q, hq, rfl⟩
    · rfl
    · have := ih hq
      simp only [List.map_cons, prodL]
      rw [← this]; ring

theorem sumL_map_congr {α : Type} {l : List α} {f g : α → K} (h : ∀ e ∈ l, f e = g e) :
    sumL (l.map f) = sumL (l.map g) := by
  rw [List.map_congr_left h]

/-- **homogeneity of the hafnian**: scaling row and column `i` by `s i` multiplies every perfect matching, hence the
hafnian over any index list (with repetitions), by the product of the `s i` over the list -/
theorem hafAux_scale (s : Nat → K) (A : Nat → Nat → K) (fuel : Nat) (idx : List Nat) :
    hafAux (fun i j => s i * A i j * s j) fuel idx = prodL (idx.map s) * hafAux A fuel idx := by
  induction fuel generalizing idx with
  | zero =>
    cases idx with
    | nil => simp [hafAux, prodL]
    | cons i rest => simp [hafAux]
  | succ fuel ih =>
    cases idx with
    | nil => simp [hafAux, prodL]
    | cons i rest =>
      simp only [hafAux, List.map_cons, prodL]
      rw [← sumL_map_mul_left]
      apply sumL_map_congr
      intro p hp
      rw [ih p.2, ← picks_prod s hp]
      ring

theorem hafAux_congr {A B : Nat → Nat → K} (fuel : Nat) (idx : List Nat)
    (h : ∀ i ∈ idx, ∀ j ∈ idx, A i j = B i j) : hafAux A fuel idx = hafAux B fuel idx := by
  induction fuel generalizing idx with
  | zero => cases idx <;> simp [hafAux]
  | succ fuel ih =>
    cases idx with
    | nil => simp [hafAux]
    | cons i rest =>
      simp only [hafAux]
      apply sumL_map_congr
      intro p hp
      obtain ⟨h1, h2⟩ := picks_mem hp
      rw [h i (List.mem_cons_self ..) p.1 (List.mem_cons_of_mem _ h1),
        ih p.2 fun a ha b hb => h a (List.mem_cons_of_mem _ (h2 a ha)) b (List.mem_cons_of_mem _ (h2 b hb))]

theorem expand_lt (n : List Nat) (k0 : Nat) : ∀ x ∈ expand n k0, x < k0 + n.length := by
  induction n generalizing k0 with
  | nil => intro x hx; cases hx
  | cons c rest ih =>
    intro x hx
    simp only [expand, List.mem_append, List.mem_replicate] at hx
    rcases hx with ⟨_, rfl⟩ | hx
    · simp
    · have := ih (k0 + 1) x hx
      simp only [List.length_cons]; omega

theorem prodL_append (a b : List K) : prodL (a ++ b) = prodL a * prodL b := by
  induction a with
  | nil => simp [prodL]
  | cons x xs ih => simp only [List.cons_append, prodL, ih]; ring

theorem prodL_replicate (c : Nat) (x : K) : prodL (List.replicate c x) = pw x c := by
  induction c with
  | zero => rfl
  | succ c ih => simp only [List.replicate_succ, prodL, ih, pw]; ring

/-- the product of `f` over the expanded index list is `Π_k f(k0+k)^{n_k}` -/
theorem prodL_expand (f : Nat → K) (n : List Nat) (k0 : Nat) : prodL ((expand n k0).map f) = monoL f n k0 := by
  induction n generalizing k0 with
  | nil => rfl
  | cons c rest ih =>
    simp only [expand, List.map_append, List.map_replicate, prodL_append, prodL_replicate, monoL, ih]

theorem pw_mul_pw (x y : K) (c : Nat) : pw x c * pw y c = pw (x * y) c := by
  induction c with
  | zero => simp [pw]
  | succ c ih => simp only [pw, ← ih]; ring

theorem monoL_sq (s : Nat → K) (n : List Nat) (k0 : Nat) :
    monoL s n k0 * monoL s n k0 = monoL (fun k => s k * s k) n k0 := by
  induction n generalizing k0 with
  | nil => simp [monoL]
  | cons c rest ih =>
    simp only [monoL]
    rw [← ih (k0 + 1), ← pw_mul_pw]; ring

theorem monoL_congr {f g : Nat → K} (n : List Nat) (k0 : Nat) (h : ∀ k, k0 ≤ k → k < k0 + n.length → f k = g k) :
    monoL f n k0 = monoL g n k0 := by
  induction n generalizing k0 with
  | nil => rfl
  | cons c rest ih =>
    simp only [monoL]
    rw [h k0 (Nat.le_refl _) (by simp), ih (k0 + 1) fun k h1 h2 => h k (by omega) (by simp only [List.length_cons]; omega)]

theorem prodTo_one (m : Nat) : prodTo m (fun _ => (1 : K)) = 1 := by
  induction m with
  | zero => rfl
  | succ m ih => simp [prodTo, ih]

theorem prodTo_succ_left (m : Nat) (f : Nat → K) : prodTo (m + 1) f = f 0 * prodTo m (fun k => f (k + 1)) := by
  induction m with
  | zero => simp [prodTo]
  | succ m ih =>
    rw [prodTo, ih]
    simp only [prodTo]; ring

/-- the list recursion and the indexed product agree: `mono` is `monoL` at offset 0 -/
theorem prodTo_eq_monoL (g : Nat → K) (n : List Nat) (m k0 : Nat) (hm : n.length ≤ m) :
    prodTo m (fun k => pw (g (k0 + k)) (cnt n k)) = monoL g n k0 := by
  induction n generalizing m k0 with
  | nil =>
    have : (fun k => pw (g (k0 + k)) (cnt [] k)) = fun _ => (1 : K) := by funext k; simp [cnt, pw]
    rw [this, prodTo_one]; rfl
  | cons c rest ih =>
    obtain ⟨m', rfl⟩ : ∃ m', m = m' + 1 := ⟨m - 1, by simp only [List.length_cons] at hm; omega⟩
    rw [prodTo_succ_left]
    simp only [monoL]
    have hfun : (fun k => pw (g (k0 + (k + 1))) (cnt (c :: rest) (k + 1)))
        = fun k => pw (g (k0 + 1 + k)) (cnt rest k) := by
      funext k
      have : k0 + (k + 1) = k0 + 1 + k := by omega
      simp [cnt, this]
    rw [hfun, ih m' (k0 + 1) (by simp only [List.length_cons] at hm; omega)]
    simp [cnt]

theorem mono_eq_monoL (m : Nat) (w : Nat → K) (n : List Nat) (hm : n.length ≤ m) : mono m w n = monoL w n 0 := by
  have := prodTo_eq_monoL w n m 0 hm
  simpa [mono] using this

/-- **the GBS weight is an exponential family in the weights**: for every pattern `n` on at most `m` modes,
`|Haf((W A W)_n)|² = Π_k w_k^{n_k} · |Haf(A_n)|²` when `s_k² = w_k` -/
theorem gbsWeight_vgbsA (m : Nat) (s w : Nat → K) (A : Nat → Nat → K) (n : List Nat) (hm : n.length ≤ m)
    (hs : ∀ k, k < m → s k * s k = w k) :
    gbsWeight (vgbsA m s A) n = mono m w n * gbsWeight A n := by
  have hlt : ∀ x ∈ expand n 0, x < m := fun x hx => by have := expand_lt n 0 x hx; omega
  have hcongr : haf (vgbsA m s A) (expand n 0) = haf (fun i j => s i * A i j * s j) (expand n 0) :=
    hafAux_congr _ _ fun i hi j hj => vgbsA_entry (hlt i hi) (hlt j hj) s A
  unfold gbsWeight
  rw [hcongr]
  unfold haf
  rw [hafAux_scale, prodL_expand, mono_eq_monoL m w n hm]
  have hw : monoL w n 0 = monoL (fun k => s k * s k) n 0 :=
    monoL_congr n 0 fun k _ hk => (hs k (by omega)).symm
  rw [hw, ← monoL_sq]
  ring

/-- the partition function of the model family over a pattern list is the sum of the GBS weights of the trained
matrix: the truncated, renormalised distribution of `A(θ)` *is* `P_w(n) = c(n) Π w^n / Z(w)` with `c(n) = |Haf(A_n)|²/n!` -/
theorem gbsSupport_Z (m : Nat) (s w : Nat → K) (A : Nat → Nat → K) (invfact : List Nat → K) (pats : List (List Nat))
    (hm : ∀ n ∈ pats, n.length ≤ m) (hs : ∀ k, k < m → s k * s k = w k) :
    Z m w (gbsSupport A invfact pats) = sumL (pats.map fun n => gbsWeight (vgbsA m s A) n * invfact n) := by
  unfold Z gbsSupport
  rw [List.map_map]
  apply sumL_map_congr
  intro n hn
  simp only [Function.comp]
  rw [gbsWeight_vgbsA m s w A n (hm n hn) hs]; ring

theorem gbsSupport_num (m : Nat) (s w : Nat → K) (A : Nat → Nat → K) (invfact : List Nat → K) (n : List Nat)
    (hm : n.length ≤ m) (hs : ∀ k, k < m → s k * s k = w k) :
    (gbsWeight A n * invfact n) * mono m w n = gbsWeight (vgbsA m s A) n * invfact n := by
  rw [gbsWeight_vgbsA m s w A n hm hs]; ring

end hafnian

/-! ### chemistry helpers -/
section chemistry
variable {K : Type} [CommRing K]

theorem duschDelta_entry {a M k : Nat} (hk : k < M) (Lf : Nat → Nat → K) (sm ri rf linv : Nat → K) :
    duschDelta a M Lf sm ri rf linv k = duschD a Lf sm ri rf k * linv k := by
  unfold duschDelta
  exact mm_diag_right (n := M) hk (fun _ j => duschD a Lf sm ri rf j) linv 0

theorem dotCounts_append (a b : List Nat) (f : Nat → K) (k : Nat) :
    dotCounts (a ++ b) f k = dotCounts a f k + dotCounts b f (k + a.length) := by
  induction a generalizing k with
  | nil => simp [dotCounts]
  | cons c rest ih =>
    simp only [List.cons_append, dotCounts, ih, List.length_cons]
    have : k + 1 + rest.length = k + (rest.length + 1) := by omega
    rw [this]; ring

theorem energy_split (a b : List Nat) (h : a.length = b.length) (wp w : Nat → K) :
    energy (a ++ b) wp w = dotCounts a wp 0 - dotCounts b w 0 := by
  unfold energy
  have hl : (a ++ b).length / 2 = a.length := by simp [h]; omega
  rw [hl, List.take_left', List.drop_left'] <;> rfl

theorem marginalCalls_mem (nModes nMax : Nat) (p : Nat × Nat) :
    p ∈ marginalCalls nModes nMax ↔ p.1 < nModes ∧ p.2 < nMax := by
  unfold marginalCalls
  simp only [List.mem_flatMap, List.mem_range, List.mem_map]
  constructor
  · rintro ⟨mode, hm, i, hi, rfl⟩; exact ⟨hm, hi⟩
  · rintro ⟨h1, h2⟩; exact ⟨p.1, h1, p.2, h2, rfl⟩

theorem marginalCalls_length (nModes nMax : Nat) : (marginalCalls nModes nMax).length = nModes * nMax := by
  unfold marginalCalls
  induction nModes with
  | zero => simp
  | succ n ih =>
    rw [List.range_succ, List.flatMap_append, List.length_append, ih]
    simp; ring

end chemistry

/-! ### the sampling programs -/
section programs

theorem vibSampleOps_last (n : Nat) (anyT loss : Bool) :
    (vibSampleOps n anyT loss).getLast? = some (.measureFock (List.range (vibSampleModes n anyT))) := by
  simp [vibSampleOps]

theorem lossOps_mem (loss : Bool) (modes : Nat) (o : QOp) :
    o ∈ lossOps loss modes ↔ loss = true ∧ ∃ k, k < modes ∧ o = .loss k := by
  unfold lossOps
  cases loss <;> simp [eq_comm]

/-- in `sample_tmsv` the time evolution touches the first `N` modes only -/
theorem dynCore_modes (n : Nat) : ∀ o ∈ dynCore n, ∀ x ∈ o.modes, x < n := by
  intro o ho x hx
  simp only [dynCore, timeEvolutionOps, List.mem_append, List.mem_cons, List.mem_map, List.mem_range,
    List.not_mem_nil, or_false] at ho
  rcases ho with (rfl | ⟨i, hi, rfl⟩) | rfl
  · simpa [QOp.modes] using hx
  · simp only [QOp.modes, List.mem_cons, List.not_mem_nil, or_false] at hx; omega
  · simpa [QOp.modes] using hx

end programs

/-! ### the certificate check of the driver's inverse -/
section certificate
variable {K : Type} [CommRing K] [DecidableEq K]

theorem isInverse_sound (n : Nat) (X M : Nat → Nat → K) (h : isInverse n X M = true) {i j : Nat} (hi : i < n) (hj : j < n) :
    mm n X M i j = if i = j then 1 else 0 := by
  unfold isInverse at h
  rw [List.all_eq_true] at h
  have h1 := h i (List.mem_range.mpr hi)
  rw [List.all_eq_true] at h1
  have h2 := h1 j (List.mem_range.mpr hj)
  simpa using h2

end certificate

end SFV.Train
