import SFV.Model.Train
import SFV.Proofs.GaussNM
import SFV.Proofs.AppsCard
import Mathlib.Tactic.Ring
import Mathlib.Tactic.FieldSimp
import Mathlib.Tactic.LinearCombination
import Mathlib.Algebra.Field.Basic
/-!
Lemmas about `SFV.Model.Train`, algebraic part: diagonal sandwiches (`W A W`, `diag(√ω') U diag(1/√ω)`),
the exponential family `P_w(n) = c(n) Π w^n / Z(w)` with its formal partial derivatives, the chain-rule
images `KL.grad` / `Stochastic._gradient_one_sample`, rotations of the Gaussian simulator, the sample
store, exact orbit probabilities.
-/
namespace SFV.Train
open SFV.Gauss

/-! ### sums -/
section sums
variable {K : Type} [CommRing K]

theorem sumTo_zero_fn (n : Nat) : sumTo n (fun _ => (0 : K)) = 0 := by
  induction n with
  | zero => rfl
  | succ n ih => simp [sumTo, ih]

theorem sumTo_congr {n : Nat} {f g : Nat → K} (h : ∀ k, k < n → f k = g k) : sumTo n f = sumTo n g := by
  induction n with
  | zero => rfl
  | succ n ih =>
    simp only [sumTo]
    rw [ih (fun k hk => h k (Nat.lt_succ_of_lt hk)), h n (Nat.lt_succ_self n)]

theorem sumTo_add (n : Nat) (f g : Nat → K) : sumTo n (fun k => f k + g k) = sumTo n f + sumTo n g := by
  induction n with
  | zero => simp [sumTo]
  | succ n ih => simp only [sumTo, ih]; ring

theorem sumTo_mul_left (n : Nat) (a : K) (f : Nat → K) : sumTo n (fun k => a * f k) = a * sumTo n f := by
  induction n with
  | zero => simp [sumTo]
  | succ n ih => simp only [sumTo, ih]; ring

/-- a sum with a single non-zero term -/
theorem sumTo_single {n i : Nat} (hi : i < n) (f : Nat → K) :
    sumTo n (fun k => if k = i then f k else 0) = f i := by
  induction n with
  | zero => omega
  | succ n ih =>
    simp only [sumTo]
    by_cases h : i = n
    · subst h
      have : sumTo i (fun k => if k = i then f k else 0) = 0 := by
        have h0 : sumTo i (fun k => if k = i then f k else 0) = sumTo i (fun _ => (0 : K)) :=
          sumTo_congr fun k hk => by simp [Nat.ne_of_lt hk]
        rw [h0, sumTo_zero_fn]
      simp [this]
    · have hi' : i < n := by omega
      rw [ih hi']
      simp [Ne.symm h]

theorem sumL_append (a b : List K) : sumL (a ++ b) = sumL a + sumL b := by
  induction a with
  | nil => simp [sumL]
  | cons x xs ih => simp only [List.cons_append, sumL, ih]; ring

theorem sumL_map_mul_left {α : Type} (l : List α) (a : K) (f : α → K) :
    sumL (l.map fun e => a * f e) = a * sumL (l.map f) := by
  induction l with
  | nil => simp [sumL]
  | cons x xs ih => simp only [List.map_cons, sumL, ih]; ring

theorem sumL_map_add {α : Type} (l : List α) (f g : α → K) :
    sumL (l.map fun e => f e + g e) = sumL (l.map f) + sumL (l.map g) := by
  induction l with
  | nil => simp [sumL]
  | cons x xs ih => simp only [List.map_cons, sumL, ih]; ring

theorem sumL_map_sub {α : Type} (l : List α) (f g : α → K) :
    sumL (l.map fun e => f e - g e) = sumL (l.map f) - sumL (l.map g) := by
  induction l with
  | nil => simp [sumL]
  | cons x xs ih => simp only [List.map_cons, sumL, ih]; ring

theorem sumL_map_const {α : Type} (l : List α) (a : K) : sumL (l.map fun _ => a) = (l.length : K) * a := by
  induction l with
  | nil => simp [sumL]
  | cons x xs ih => simp only [List.map_cons, sumL, ih, List.length_cons]; push_cast; ring

/-- exchanging a list sum with a range sum -/
theorem sumL_sumTo {α : Type} (l : List α) (n : Nat) (f : α → Nat → K) :
    sumL (l.map fun e => sumTo n (f e)) = sumTo n fun k => sumL (l.map fun e => f e k) := by
  induction l with
  | nil => simp [sumL, sumTo_zero_fn]
  | cons x xs ih => simp only [List.map_cons, sumL, ih, sumTo_add]

end sums

/-! ### diagonal sandwiches: `VGBS.A`, the matrix of `gbs_params` -/
section sandwich
variable {K : Type} [CommRing K]

theorem mm_diag_left {n i : Nat} (hi : i < n) (a : Nat → K) (A : Nat → Nat → K) (j : Nat) :
    mm n (diag a) A i j = a i * A i j := by
  unfold mm diag
  rw [← sumTo_single hi (fun k => a i * A k j)]
  refine sumTo_congr fun k _ => ?_
  by_cases h : k = i
  · subst h; simp
  · have h' : ¬ i = k := fun e => h e.symm
    simp [h, h']

theorem mm_diag_right {n j : Nat} (hj : j < n) (A : Nat → Nat → K) (b : Nat → K) (i : Nat) :
    mm n A (diag b) i j = A i j * b j := by
  unfold mm diag
  rw [← sumTo_single hj (fun k => A i k * b j)]
  exact sumTo_congr fun k _ => by by_cases h : k = j <;> simp [h]

/-- the two matrix products of `np.diag(a) @ A @ np.diag(b)` scale entry `(i, j)` by `a i` and `b j` -/
theorem dAd_entry {n i j : Nat} (hi : i < n) (hj : j < n) (a b : Nat → K) (A : Nat → Nat → K) :
    dAd n a A b i j = a i * A i j * b j := by
  unfold dAd
  rw [mm_diag_right hj, mm_diag_left hi]

theorem vgbsA_entry {n i j : Nat} (hi : i < n) (hj : j < n) (s : Nat → K) (A : Nat → Nat → K) :
    vgbsA n s A i j = s i * A i j * s j := dAd_entry hi hj s s A

theorem vgbsA_symm {n : Nat} (s : Nat → K) (A : Nat → Nat → K) (hA : ∀ i j, i < n → j < n → A i j = A j i)
    {i j : Nat} (hi : i < n) (hj : j < n) : vgbsA n s A i j = vgbsA n s A j i := by
  rw [vgbsA_entry hi hj, vgbsA_entry hj hi, hA i j hi hj]; ring

/-- with `s i² = w i` the trained matrix carries the weight `w` once per row and once per column
in every *product of two entries*: the entry itself is `√w_i A_ij √w_j` -/
theorem vgbsA_sq {n i j : Nat} (hi : i < n) (hj : j < n) (s w : Nat → K) (A : Nat → Nat → K)
    (hs : ∀ k, k < n → s k * s k = w k) :
    vgbsA n s A i j * vgbsA n s A i j = w i * (A i j * A i j) * w j := by
  rw [vgbsA_entry hi hj, ← hs i hi, ← hs j hj]; ring

end sandwich

/-! ### the exponential family -/
section expfam
variable {K : Type} [CommRing K]

theorem pw_pred_mul (x : K) {c : Nat} (hc : c ≠ 0) : pw x (c - 1) * x = pw x c := by
  cases c with
  | zero => exact absurd rfl hc
  | succ c => simp [pw]

theorem prodTo_congr {n : Nat} {f g : Nat → K} (h : ∀ k, k < n → f k = g k) : prodTo n f = prodTo n g := by
  induction n with
  | zero => rfl
  | succ n ih =>
    simp only [prodTo]
    rw [ih (fun k hk => h k (Nat.lt_succ_of_lt hk)), h n (Nat.lt_succ_self n)]

/-- splitting the factor of mode `k` off a product -/
theorem prodTo_split {m k : Nat} (hk : k < m) (f : Nat → K) :
    prodTo m f = f k * prodTo m (fun j => if j = k then 1 else f j) := by
  induction m with
  | zero => omega
  | succ m ih =>
    simp only [prodTo]
    by_cases h : k = m
    · subst h
      have : prodTo k (fun j => if j = k then 1 else f j) = prodTo k f :=
        prodTo_congr fun j hj => by simp [Nat.ne_of_lt hj]
      simp [this]; ring
    · have hk' : k < m := by omega
      rw [ih hk']
      simp [Ne.symm h]; ring

theorem mono_split {m k : Nat} (hk : k < m) (w : Nat → K) (n : List Nat) :
    mono m w n = pw (w k) (cnt n k) * prodTo m (fun j => if j = k then 1 else pw (w j) (cnt n j)) :=
  prodTo_split hk _

/-- `w_k ∂_k (Π w^n) = n_k Π w^n` -/
theorem dmono_mul {m k : Nat} (hk : k < m) (w : Nat → K) (n : List Nat) :
    w k * dmono m w n k = (cnt n k : K) * mono m w n := by
  rw [mono_split hk]
  unfold dmono
  by_cases hc : cnt n k = 0
  · simp [hc]
  · rw [← pw_pred_mul (w k) hc]; ring

/-- **`w_k ∂_k Z = Σ_n n_k c(n) Π w^n`** for every finite support -/
theorem dZ_mul {m k : Nat} (hk : k < m) (w : Nat → K) (S : Support K) :
    w k * dZ m w S k = M1 m w S k := by
  unfold dZ M1
  rw [← sumL_map_mul_left]
  congr 1
  apply List.map_congr_left
  intro e _
  have := dmono_mul hk w e.1
  calc w k * (e.2 * dmono m w e.1 k) = e.2 * (w k * dmono m w e.1 k) := by ring
    _ = _ := by rw [this]; ring

/-- the quotient rule for `P_w(n) = c(n) Π w^n / Z(w)`, cleared of denominators:
`w_k (∂_k num · Z − num · ∂_k Z) = num · (n_k Z − Σ_n' n'_k c(n') Π w^n')` -/
theorem quotient_rule_numerator {m k : Nat} (hk : k < m) (w : Nat → K) (S : Support K) (e : List Nat × K) :
    w k * (e.2 * dmono m w e.1 k * Z m w S - e.2 * mono m w e.1 * dZ m w S k)
      = e.2 * mono m w e.1 * ((cnt e.1 k : K) * Z m w S - M1 m w S k) := by
  have h1 := dmono_mul hk w e.1
  have h2 := dZ_mul hk w S
  calc w k * (e.2 * dmono m w e.1 k * Z m w S - e.2 * mono m w e.1 * dZ m w S k)
      = e.2 * (w k * dmono m w e.1 k) * Z m w S - e.2 * mono m w e.1 * (w k * dZ m w S k) := by ring
    _ = _ := by rw [h1, h2]; ring

end expfam

section expfamField
variable {K : Type} [Field K]

theorem sumL_map_div {α : Type} (l : List α) (z : K) (f : α → K) :
    sumL (l.map fun e => f e / z) = sumL (l.map f) / z := by
  induction l with
  | nil => simp [sumL]
  | cons x xs ih => simp only [List.map_cons, sumL, ih]; ring

/-- **normalisation by construction of `Z`** -/
theorem prob_sum_one (m : Nat) (w : Nat → K) (S : Support K) (hZ : Z m w S ≠ 0) :
    sumL (S.map (prob m w S)) = 1 := by
  unfold prob
  rw [sumL_map_div]
  exact div_self hZ

/-- `∂_k P_w(n) = P_w(n) (n_k − ⟨n_k⟩_w) / w_k` with the formal derivatives of numerator and `Z` -/
theorem prob_formal_derivative {m k : Nat} (hk : k < m) (w : Nat → K) (S : Support K) (e : List Nat × K)
    (hZ : Z m w S ≠ 0) (hw : w k ≠ 0) :
    (e.2 * dmono m w e.1 k * Z m w S - e.2 * mono m w e.1 * dZ m w S k) / (Z m w S * Z m w S)
      = prob m w S e * ((cnt e.1 k : K) - meanN m w S k) / w k := by
  have h := quotient_rule_numerator hk w S e
  unfold prob meanN
  field_simp
  linear_combination h

/-- the first moments of the model distribution are `M1 / Z` -/
theorem meanN_eq_sum (m : Nat) (w : Nat → K) (S : Support K) (k : Nat) :
    meanN m w S k = sumL (S.map fun e => (cnt e.1 k : K) * prob m w S e) := by
  unfold meanN M1 prob
  rw [← sumL_map_div]
  congr 1
  apply List.map_congr_left
  intro e _
  ring

/-! ### `KL.grad`, `Stochastic._gradient_one_sample` -/

/-- the weights cancel: `KL.grad_j = Σ_k (⟨n_k⟩_model − ⟨n_k⟩_data)(−F_kj)` -/
theorem klGrad_cancel (m : Nat) (F : Nat → Nat → K) (w nM nD : Nat → K) (hw : ∀ k, k < m → w k ≠ 0) (j : Nat) :
    klGrad m F w nM nD j = sumTo m fun k => (nM k - nD k) * -(F k j) := by
  unfold klGrad jacobian
  apply sumTo_congr
  intro k hk
  have := hw k hk
  field_simp

/-- the data enter `KL.grad` only through their mean: `Σ_S (S_k − a) = T (mean_k − a)` -/
theorem meanData_spec (data : List (List Nat)) (k : Nat) (a : K) (hT : (data.length : K) ≠ 0) :
    sumL (data.map fun s => ((cnt s k : K) - a)) = (data.length : K) * (meanData data k - a) := by
  rw [sumL_map_sub, sumL_map_const]
  unfold meanData
  field_simp

/-- **`KL.grad` is the chain-rule image of the cost**: with `∂KL/∂w_k = −(1/T) Σ_S (S_k − ⟨n_k⟩)/w_k`
(the partial derivatives `prob_formal_derivative` gives for `−(1/T) Σ_S log P_w(S)`) and the Jacobian of
the embedding, `KL.grad_j = Σ_k ∂KL/∂w_k · ∂w_k/∂θ_j` — for every data set and every feature matrix -/
theorem klGrad_chain (m : Nat) (F : Nat → Nat → K) (w nM : Nat → K) (data : List (List Nat))
    (hT : (data.length : K) ≠ 0) (j : Nat) :
    klGrad m F w nM (meanData data) j
      = sumTo m fun k => (-(sumL (data.map fun s => ((cnt s k : K) - nM k) / w k)) / (data.length : K))
          * jacobian F w k j := by
  unfold klGrad
  apply sumTo_congr
  intro k _
  have h := meanData_spec data k (nM k) hT
  have h2 : sumL (data.map fun s => ((cnt s k : K) - nM k) / w k)
      = sumL (data.map fun s => ((cnt s k : K) - nM k)) / w k := sumL_map_div data (w k) _
  rw [h2, h]
  field_simp
  ring

/-- one-sample gradient with the weights cancelled -/
theorem gradOne_cancel (m : Nat) (F : Nat → Nat → K) (w nM : Nat → K) (hrep : K) (n : List Nat)
    (hw : ∀ k, k < m → w k ≠ 0) (j : Nat) :
    gradOne m F w nM hrep n j = hrep * sumTo m fun k => ((cnt n k : K) - nM k) * -(F k j) := by
  unfold gradOne jacobian
  rw [← sumTo_mul_left]
  apply sumTo_congr
  intro k hk
  have := hw k hk
  field_simp

/-- `Stochastic.grad` is the mean of the one-sample gradients, which are the chain-rule images of
`h_reparametrized`: `∂_k h(n, θ) = h(n, θ) (n_k − ⟨n_k⟩)/w_k` by `prob_formal_derivative` -/
theorem stochGrad_chain (m : Nat) (F : Nat → Nat → K) (w nM : Nat → K) (samples : List (K × List Nat)) (j : Nat) :
    stochGrad m F w nM samples j
      = sumL (samples.map fun e => sumTo m fun k => (e.1 * (((cnt e.2 k : K) - nM k) / w k)) * jacobian F w k j)
          / (samples.length : K) := rfl

end expfamField

/-! ### `TimeEvolution`: a product of rotations -/
section rotations
variable {K : Type} [CommRing K]

theorem rotations_N_diag (rots : List (K × K × Nat)) (st : GS K) (i : Nat) :
    ((rotations st rots).N i i).re = (st.N i i).re := by
  induction rots generalizing st with
  | nil => rfl
  | cons r rest ih =>
    obtain ⟨c, s, k⟩ := r
    simp only [rotations]
    rw [ih, phaseShift_photon]
    split <;> simp_all

theorem rotations_n (rots : List (K × K × Nat)) (st : GS K) : (rotations st rots).n = st.n := by
  induction rots generalizing st with
  | nil => rfl
  | cons r rest ih =>
    obtain ⟨c, s, k⟩ := r
    simp only [rotations]
    rw [ih]; rfl

/-- `|⟨a_i⟩|²` is kept by every rotation on the unit circle -/
theorem phaseShift_amp (st : GS K) (c s : K) (hcs : c * c + s * s = 1) (k i : Nat) :
    ((phaseShift st c s k).mean i).re * ((phaseShift st c s k).mean i).re
      + ((phaseShift st c s k).mean i).im * ((phaseShift st c s k).mean i).im
      = (st.mean i).re * (st.mean i).re + (st.mean i).im * (st.mean i).im := by
  by_cases hi : i = k
  · subst hi
    simp [phaseShift, writeRowCol]
    linear_combination ((st.mean i).re * (st.mean i).re + (st.mean i).im * (st.mean i).im) * hcs
  · simp [phaseShift, writeRowCol, hi]

theorem rotations_amp (rots : List (K × K × Nat)) (hcs : ∀ r ∈ rots, r.1 * r.1 + r.2.1 * r.2.1 = 1)
    (st : GS K) (i : Nat) :
    ((rotations st rots).mean i).re * ((rotations st rots).mean i).re
      + ((rotations st rots).mean i).im * ((rotations st rots).mean i).im
      = (st.mean i).re * (st.mean i).re + (st.mean i).im * (st.mean i).im := by
  induction rots generalizing st with
  | nil => rfl
  | cons r rest ih =>
    obtain ⟨c, s, k⟩ := r
    simp only [rotations]
    rw [ih (fun r hr => hcs r (List.mem_cons_of_mem _ hr))]
    exact phaseShift_amp st c s (hcs (c, s, k) (List.mem_cons_self ..)) k i

/-- `TimeEvolution` is the rotation sequence on modes `i0, i0+1, …` -/
def indexed : List (K × K) → Nat → List (K × K × Nat)
  | [], _ => []
  | (c, s) :: rest, i => (c, s, i) :: indexed rest (i + 1)

theorem timeEvolve_eq_rotations (rots : List (K × K)) (st : GS K) (i0 : Nat) :
    timeEvolve st rots i0 = rotations st (indexed rots i0) := by
  induction rots generalizing st i0 with
  | nil => rfl
  | cons r rest ih =>
    obtain ⟨c, s⟩ := r
    simp only [timeEvolve, indexed, rotations]
    exact ih _ _

theorem indexed_circle (rots : List (K × K)) (h : ∀ r ∈ rots, r.1 * r.1 + r.2 * r.2 = 1) (i0 : Nat) :
    ∀ r ∈ indexed rots i0, r.1 * r.1 + r.2.1 * r.2.1 = 1 := by
  induction rots generalizing i0 with
  | nil => intro r hr; cases hr
  | cons r rest ih =>
    obtain ⟨c, s⟩ := r
    intro x hx
    simp only [indexed, List.mem_cons] at hx
    rcases hx with rfl | hx
    · exact h (c, s) (List.mem_cons_self ..)
    · exact ih (fun r hr => h r (List.mem_cons_of_mem _ hr)) _ x hx

/-- every rotation of the list keeps the invariant of the simulator -/
theorem rotations_inv (rots : List (K × K × Nat)) (st : GS K) (hI : NMInv st) : NMInv (rotations st rots) := by
  induction rots generalizing st with
  | nil => exact hI
  | cons r rest ih =>
    obtain ⟨c, s, k⟩ := r
    simp only [rotations]
    exact ih _ (phaseShift_inv st hI c s k)

end rotations

/-! ### the sample store -/
section store
variable {α : Type}

theorem getSamples_store_prefix (store : List α) (n : Nat) (fresh : Nat → List α) :
    ∃ new, (getSamples store n fresh).1 = store ++ new := by
  unfold getSamples
  split
  · exact ⟨_, rfl⟩
  · exact ⟨[], by simp⟩

theorem getSamples_result (store : List α) (n : Nat) (fresh : Nat → List α) :
    (getSamples store n fresh).2.1 = (getSamples store n fresh).1.take n := by
  unfold getSamples
  split <;> rfl

theorem getSamples_length (store : List α) (n : Nat) (fresh : Nat → List α) (hf : ∀ k, (fresh k).length = k) :
    (getSamples store n fresh).2.1.length = n := by
  unfold getSamples
  split
  · simp [hf]; omega
  · simp; omega

/-- stored samples are never regenerated: what was returned before is returned again -/
theorem getSamples_keeps_old (store : List α) (n : Nat) (fresh : Nat → List α) :
    (getSamples store n fresh).2.1.take store.length = store.take n := by
  unfold getSamples
  split
  · next h =>
    simp only [List.take_take]
    rw [Nat.min_eq_left (Nat.le_of_lt h), List.take_left']
    · rw [List.take_of_length_le (Nat.le_of_lt h)]
    · rfl
  · next h =>
    simp only [List.take_take]
    rw [Nat.min_eq_right (by omega)]

theorem getSamples_requests (store : List α) (n : Nat) (fresh : Nat → List α) :
    (getSamples store n fresh).2.2 = n - store.length := by
  unfold getSamples
  split
  · rfl
  · simp; omega

end store

/-! ### exact orbit / event probabilities -/
section orbit
open SFV.Apps

theorem orbitPatterns_short {orbit : List Nat} {modes : Nat} (h : modes < orbit.length) :
    orbitPatterns orbit modes = [] := by simp [orbitPatterns, h]

theorem orbitPatterns_mem {orbit : List Nat} {modes : Nat} (h : orbit.length ≤ modes) (w : List Nat) :
    w ∈ orbitPatterns orbit modes ↔ w.Perm (orbitSample orbit modes) := by
  have : ¬ modes < orbit.length := by omega
  simp only [orbitPatterns, this, if_false]
  exact card_dperms_mem_iff modes _ w (orbitSample_length h)

theorem orbitPatterns_nodup (orbit : List Nat) (modes : Nat) : (orbitPatterns orbit modes).Nodup := by
  unfold orbitPatterns
  split
  · exact List.nodup_nil
  · exact card_dperms_nodup modes _

end orbit

end SFV.Train
