import Mathlib.Tactic.Ring
import Mathlib.Tactic.LinearCombination
import Mathlib.Algebra.Group.Basic
import SFV.Model.Decomp
/-! Lemmas about the decomposition model: complex-pair arithmetic, the nulling identities of every
`null*` helper (generic and exact-zero branches), soundness of the Boolean zero pattern, and the
elimination schedules for every size. -/
namespace SFV.Decomp

/-! ### complex pairs over a commutative ring -/
section cx
variable {K : Type} [CommRing K]

theorem Cx.ext' {a b : Cx K} (h1 : a.re = b.re) (h2 : a.im = b.im) : a = b := by
  cases a; cases b; simp_all

theorem Cx.mul_zero' (a : Cx K) : a * 0 = 0 := by apply Cx.ext' <;> simp
theorem Cx.zero_mul' (a : Cx K) : (0 : Cx K) * a = 0 := by apply Cx.ext' <;> simp
theorem Cx.add_zero' (a : Cx K) : a + 0 = a := by apply Cx.ext' <;> simp
theorem Cx.zero_add' (a : Cx K) : (0 : Cx K) + a = a := by apply Cx.ext' <;> simp

end cx

/-! ### the nulling identities (`null_step`) -/
section null
variable {K : Type} [CommRing K]
open Cx

/-- `nullTi`, generic branch: `r = U[m,n] / U[m,n+1] = ρ e`, `tan θ = ρ`, `φ = arg r`. -/
theorem nullTi_generic (U : CMat K) (m n : Nat) (c s ρ : K) (e : Cx K)
    (he : e.re * e.re + e.im * e.im = 1) (hs : s = ρ * c)
    (hr : U m n = ofReal ρ * e * U m (n + 1)) :
    rightMix U (blkTi c s e) n (n + 1) m n = 0 := by
  simp only [rightMix, if_true, blkTi, hr]
  subst hs
  apply Cx.ext' <;> simp
  · linear_combination (ρ * c * (U m (n + 1)).re) * he
  · linear_combination (ρ * c * (U m (n + 1)).im) * he

/-- `nullTi`, identity-like branch (`U[m,n] = 0`: θ = 0, φ = 0). -/
theorem nullTi_zero (U : CMat K) (m n : Nat) (h : U m n = 0) :
    rightMix U (blkTi 1 0 1) n (n + 1) m n = 0 := by
  simp only [rightMix, if_true, blkTi, h]
  apply Cx.ext' <;> simp

/-- `nullTi`, divide-by-zero branch (`U[m,n+1] = 0`: θ = π/2, φ = 0). -/
theorem nullTi_swap (U : CMat K) (m n : Nat) (h : U m (n + 1) = 0) :
    rightMix U (blkTi 0 1 1) n (n + 1) m n = 0 := by
  simp only [rightMix, if_true, blkTi, h]
  apply Cx.ext' <;> simp

/-- `nullT(p+1, m)`, generic branch: `r = −U[p+1,m] / U[p,m] = ρ e`, `tan θ = ρ`, `φ = arg r`. -/
theorem nullT_generic (U : CMat K) (p m : Nat) (c s ρ : K) (e : Cx K) (hs : s = ρ * c)
    (hr : U (p + 1) m = -(ofReal ρ * e * U p m)) :
    leftMix (blkT c s e) p (p + 1) U (p + 1) m = 0 := by
  simp only [leftMix, if_true, blkT, hr, Nat.succ_ne_self, if_false]
  subst hs
  apply Cx.ext' <;> simp <;> ring

theorem nullT_zero (U : CMat K) (p m : Nat) (h : U (p + 1) m = 0) :
    leftMix (blkT 1 0 1) p (p + 1) U (p + 1) m = 0 := by
  simp only [leftMix, if_true, blkT, h, Nat.succ_ne_self, if_false]
  apply Cx.ext' <;> simp

theorem nullT_swap (U : CMat K) (p m : Nat) (h : U p m = 0) :
    leftMix (blkT 0 1 1) p (p + 1) U (p + 1) m = 0 := by
  simp only [leftMix, if_true, blkT, h, Nat.succ_ne_self, if_false]
  apply Cx.ext' <;> simp

/-- `nullMZi(m, n)`, generic branch: `r = −U[m,n+1] / U[m,n] = ρ ε`, `tan(φ_i/2) = ρ`, `φ_e = −arg r`
(so `e = e^{iφ_e} = conj ε`). -/
theorem nullMZi_generic (U : CMat K) (m n : Nat) (c s ρ : K) (e : Cx K) (hs : s = ρ * c)
    (hr : U m (n + 1) = -(ofReal ρ * conj e * U m n)) :
    rightMix U (blkMZi c s e) n (n + 1) m n = 0 := by
  simp only [rightMix, if_true, blkMZi, blkMZ, hr]
  subst hs
  apply Cx.ext' <;> simp <;> ring

/-- identity-like branch: `U[m,n] = 0`, φ_i = π (half angle π/2), φ_e = 0 -/
theorem nullMZi_zero (U : CMat K) (m n : Nat) (h : U m n = 0) :
    rightMix U (blkMZi 0 1 1) n (n + 1) m n = 0 := by
  simp only [rightMix, if_true, blkMZi, blkMZ, h]
  apply Cx.ext' <;> simp

/-- divide-by-zero branch: `U[m,n+1] = 0`, φ_i = 0, φ_e = 0 -/
theorem nullMZi_swap (U : CMat K) (m n : Nat) (h : U m (n + 1) = 0) :
    rightMix U (blkMZi 1 0 1) n (n + 1) m n = 0 := by
  simp only [rightMix, if_true, blkMZi, blkMZ, h]
  apply Cx.ext' <;> simp

/-- `nullMZ(p+1, m)`, generic branch: `r = U[p,m] / U[p+1,m] = ρ ε`, `tan(φ_i/2) = ρ`, `φ_e = −arg r`. -/
theorem nullMZ_generic (U : CMat K) (p m : Nat) (c s ρ : K) (e : Cx K)
    (he : e.re * e.re + e.im * e.im = 1) (hs : s = ρ * c)
    (hr : U p m = ofReal ρ * conj e * U (p + 1) m) :
    leftMix (blkMZ c s e) p (p + 1) U (p + 1) m = 0 := by
  simp only [leftMix, if_true, blkMZ, hr, Nat.succ_ne_self, if_false]
  subst hs
  apply Cx.ext' <;> simp
  · linear_combination (ρ * c * (-(ρ * c) * (U (p + 1) m).re - c * (U (p + 1) m).im)) * he
  · linear_combination (ρ * c * (c * (U (p + 1) m).re - (ρ * c) * (U (p + 1) m).im)) * he

theorem nullMZ_zero (U : CMat K) (p m : Nat) (h : U (p + 1) m = 0) :
    leftMix (blkMZ 0 1 1) p (p + 1) U (p + 1) m = 0 := by
  simp only [leftMix, if_true, blkMZ, h, Nat.succ_ne_self, if_false]
  apply Cx.ext' <;> simp

theorem nullMZ_swap (U : CMat K) (p m : Nat) (h : U p m = 0) :
    leftMix (blkMZ 1 0 1) p (p + 1) U (p + 1) m = 0 := by
  simp only [leftMix, if_true, blkMZ, h, Nat.succ_ne_self, if_false]
  apply Cx.ext' <;> simp

/-- sMZI from the right (`triangular_compact`, even diagonals of `rectangular_compact`): after the phase
shifter has aligned the two entries (`V[x,y] = α w`, `V[x,y+1] = β w`) and `δ = arctan2(−β, α)`
(i.e. `cos δ ⋅ β + sin δ ⋅ α = 0`; the `V[x,y] = 0 ⇒ δ = π/2` branch is the case `α = 0, c = 0`),
entry `(x, y)` is nulled whatever `σ` is. -/
theorem nullM_cols (V : CMat K) (x y : Nat) (c s α β : K) (e w : Cx K)
    (hA : V x y = ofReal α * w) (hB : V x (y + 1) = ofReal β * w) (hrel : c * β + s * α = 0) :
    rightMix V (blkM c s e) y (y + 1) x y = 0 := by
  simp only [rightMix, if_true, blkM, hA, hB]
  apply Cx.ext' <;> simp
  · linear_combination (w.re * e.re - w.im * e.im) * hrel
  · linear_combination (w.re * e.im + w.im * e.re) * hrel

/-- sMZI from the left (odd diagonals of `rectangular_compact`): `V[p,y] = β w`, `V[p+1,y] = α w`,
`δ = arctan2(β, α)` (`cos δ ⋅ β − sin δ ⋅ α = 0`). -/
theorem nullM_rows (V : CMat K) (p y : Nat) (c s α β : K) (e w : Cx K)
    (hA : V (p + 1) y = ofReal α * w) (hB : V p y = ofReal β * w) (hrel : c * β - s * α = 0) :
    leftMix (blkM c s e) p (p + 1) V (p + 1) y = 0 := by
  simp only [leftMix, if_true, blkM, hA, hB, Nat.succ_ne_self, if_false]
  apply Cx.ext' <;> simp
  · linear_combination (w.re * e.re - w.im * e.im) * hrel
  · linear_combination (w.re * e.im + w.im * e.re) * hrel

/-- `rectangular_phase_end`: `T(θ,φ)⁻¹ ⋅ diag(a, b) = diag(a', b') ⋅ T(θ, φ')` with
`e^{iφ'} = −a conj b`, `a' = −b conj f`, `b' = b` (`f = e^{iφ}`; `a, b, f` unit complex numbers);
entrywise on the 2×2 blocks. -/
theorem push_phase (c s : K) (a b f : Cx K) (hb : b.re * b.re + b.im * b.im = 1) :
    let f' : Cx K := -(a * conj b)
    let a' : Cx K := -(b * conj f)
    (blkTi c s f).a * a = a' * (blkT c s f').a ∧ (blkTi c s f).b * b = a' * (blkT c s f').b ∧
    (blkTi c s f).c * a = b * (blkT c s f').c ∧ (blkTi c s f).d * b = b * (blkT c s f').d := by
  refine ⟨?_, ?_, ?_, ?_⟩ <;> apply Cx.ext' <;> simp [blkTi, blkT]
  · linear_combination (-(c * (f.re * a.re + f.im * a.im))) * hb
  · linear_combination (-(c * (f.re * a.im - f.im * a.re))) * hb
  · ring
  · ring
  · linear_combination (s * a.re) * hb
  · linear_combination (s * a.im) * hb
  · ring
  · ring

/-- whichever non-generic branch `nullBranch` selects, the atoms it fixes null the target (`nullTi`) -/
theorem exact_branch_Ti [DecidableEq K] (U : CMat K) (m n : Nat) (c s : K)
    (h : branchAtomsT (nullBranch (U m n) (U m (n + 1))) = some (c, s)) :
    rightMix U (blkTi c s 1) n (n + 1) m n = 0 := by
  unfold nullBranch at h
  by_cases h1 : U m n = 0
  · simp only [h1, if_true, branchAtomsT, Option.some.injEq, Prod.mk.injEq] at h
    obtain ⟨rfl, rfl⟩ := h; exact nullTi_zero U m n h1
  · by_cases h2 : U m (n + 1) = 0
    · simp only [h1, h2, if_true, if_false, branchAtomsT, Option.some.injEq, Prod.mk.injEq] at h
      obtain ⟨rfl, rfl⟩ := h; exact nullTi_swap U m n h2
    · simp [h1, h2, branchAtomsT] at h

theorem exact_branch_T [DecidableEq K] (U : CMat K) (p m : Nat) (c s : K)
    (h : branchAtomsT (nullBranch (U (p + 1) m) (U p m)) = some (c, s)) :
    leftMix (blkT c s 1) p (p + 1) U (p + 1) m = 0 := by
  unfold nullBranch at h
  by_cases h1 : U (p + 1) m = 0
  · simp only [h1, if_true, branchAtomsT, Option.some.injEq, Prod.mk.injEq] at h
    obtain ⟨rfl, rfl⟩ := h; exact nullT_zero U p m h1
  · by_cases h2 : U p m = 0
    · simp only [h1, h2, if_true, if_false, branchAtomsT, Option.some.injEq, Prod.mk.injEq] at h
      obtain ⟨rfl, rfl⟩ := h; exact nullT_swap U p m h2
    · simp [h1, h2, branchAtomsT] at h

theorem exact_branch_MZi [DecidableEq K] (U : CMat K) (m n : Nat) (c s : K)
    (h : branchAtomsMZ (nullBranch (U m n) (U m (n + 1))) = some (c, s)) :
    rightMix U (blkMZi c s 1) n (n + 1) m n = 0 := by
  unfold nullBranch at h
  by_cases h1 : U m n = 0
  · simp only [h1, if_true, branchAtomsMZ, Option.some.injEq, Prod.mk.injEq] at h
    obtain ⟨rfl, rfl⟩ := h; exact nullMZi_zero U m n h1
  · by_cases h2 : U m (n + 1) = 0
    · simp only [h1, h2, if_true, if_false, branchAtomsMZ, Option.some.injEq, Prod.mk.injEq] at h
      obtain ⟨rfl, rfl⟩ := h; exact nullMZi_swap U m n h2
    · simp [h1, h2, branchAtomsMZ] at h

theorem exact_branch_MZ [DecidableEq K] (U : CMat K) (p m : Nat) (c s : K)
    (h : branchAtomsMZ (nullBranch (U (p + 1) m) (U p m)) = some (c, s)) :
    leftMix (blkMZ c s 1) p (p + 1) U (p + 1) m = 0 := by
  unfold nullBranch at h
  by_cases h1 : U (p + 1) m = 0
  · simp only [h1, if_true, branchAtomsMZ, Option.some.injEq, Prod.mk.injEq] at h
    obtain ⟨rfl, rfl⟩ := h; exact nullMZ_zero U p m h1
  · by_cases h2 : U p m = 0
    · simp only [h1, h2, if_true, if_false, branchAtomsMZ, Option.some.injEq, Prod.mk.injEq] at h
      obtain ⟨rfl, rfl⟩ := h; exact nullMZ_swap U p m h2
    · simp [h1, h2, branchAtomsMZ] at h

end null

/-! ### soundness of the Boolean zero pattern (`zero_pattern`) -/
section pattern
variable {K : Type} [CommRing K]

/-- every entry the pattern marks is zero in the matrix -/
def Describes (Z : Pat) (U : CMat K) : Prop := ∀ i j, Z i j = true → U i j = 0

theorem describes_noZeros (U : CMat K) : Describes noZeros U := by
  intro i j h; simp [noZeros] at h

theorem describes_rows (Z : Pat) (U : CMat K) (b : Blk K) (p tr tc : Nat) (hd : Describes Z U)
    (ht : leftMix b p (p + 1) U tr tc = 0) :
    Describes (applyStep Z ⟨true, p, tr, tc⟩) (leftMix b p (p + 1) U) := by
  intro i j h
  simp only [applyStep] at h
  by_cases h1 : i = tr ∧ j = tc
  · obtain ⟨rfl, rfl⟩ := h1; exact ht
  · simp only [h1, if_false, if_true] at h
    by_cases h2 : i = p ∨ i = p + 1
    · simp only [h2, if_true, Bool.and_eq_true] at h
      have hp := hd _ _ h.1
      have hq := hd _ _ h.2
      rcases h2 with rfl | rfl
      · simp [leftMix, hp, hq, Cx.mul_zero', Cx.add_zero']
      · simp [leftMix, hp, hq, Cx.mul_zero', Cx.add_zero']
    · simp only [h2, if_false] at h
      have := hd _ _ h
      have hi1 : i ≠ p := fun e => h2 (Or.inl e)
      have hi2 : i ≠ p + 1 := fun e => h2 (Or.inr e)
      simp [leftMix, hi1, hi2, this]

theorem describes_cols (Z : Pat) (U : CMat K) (b : Blk K) (p tr tc : Nat) (hd : Describes Z U)
    (ht : rightMix U b p (p + 1) tr tc = 0) :
    Describes (applyStep Z ⟨false, p, tr, tc⟩) (rightMix U b p (p + 1)) := by
  intro i j h
  simp only [applyStep] at h
  by_cases h1 : i = tr ∧ j = tc
  · obtain ⟨rfl, rfl⟩ := h1; exact ht
  · simp only [h1, if_false, Bool.false_eq_true] at h
    by_cases h2 : j = p ∨ j = p + 1
    · simp only [h2, if_true, Bool.and_eq_true] at h
      have hp := hd _ _ h.1
      have hq := hd _ _ h.2
      rcases h2 with rfl | rfl
      · simp [rightMix, hp, hq, Cx.zero_mul', Cx.add_zero']
      · simp [rightMix, hp, hq, Cx.zero_mul', Cx.add_zero']
    · simp only [h2, if_false] at h
      have := hd _ _ h
      have hi1 : j ≠ p := fun e => h2 (Or.inl e)
      have hi2 : j ≠ p + 1 := fun e => h2 (Or.inr e)
      simp [rightMix, hi1, hi2, this]

/-- the phase shifters of the compact meshes do not destroy zeros -/
theorem describes_leftPhase (Z : Pat) (U : CMat K) (e : Cx K) (p : Nat) (hd : Describes Z U) :
    Describes Z (leftPhase e p U) := by
  intro i j h
  have := hd _ _ h
  by_cases hi : i = p
  · subst hi; simp [leftPhase, this, Cx.mul_zero']
  · simp [leftPhase, hi, this]

theorem describes_rightPhase (Z : Pat) (U : CMat K) (e : Cx K) (p : Nat) (hd : Describes Z U) :
    Describes Z (rightPhase U e p) := by
  intro i j h
  have := hd _ _ h
  by_cases hi : j = p
  · subst hi; simp [rightPhase, this, Cx.zero_mul']
  · simp [rightPhase, hi, this]

/-- a run of actual matrices that follows a schedule: every step multiplies by *some* 2×2 block on the
scheduled pair, from the scheduled side, and nulls the scheduled entry; phase shifters may be applied in
between (compact meshes). -/
inductive Follows : CMat K → List Step → CMat K → Prop
  | nil (U : CMat K) : Follows U [] U
  | row (U : CMat K) (b : Blk K) (p tr tc : Nat) (l : List Step) (U' : CMat K) :
      leftMix b p (p + 1) U tr tc = 0 → Follows (leftMix b p (p + 1) U) l U' →
      Follows U (⟨true, p, tr, tc⟩ :: l) U'
  | col (U : CMat K) (b : Blk K) (p tr tc : Nat) (l : List Step) (U' : CMat K) :
      rightMix U b p (p + 1) tr tc = 0 → Follows (rightMix U b p (p + 1)) l U' →
      Follows U (⟨false, p, tr, tc⟩ :: l) U'
  | lphase (U : CMat K) (e : Cx K) (p : Nat) (l : List Step) (U' : CMat K) :
      Follows (leftPhase e p U) l U' → Follows U l U'
  | rphase (U : CMat K) (e : Cx K) (p : Nat) (l : List Step) (U' : CMat K) :
      Follows (rightPhase U e p) l U' → Follows U l U'

theorem follows_describes {U U' : CMat K} {l : List Step} (h : Follows U l U') :
    ∀ Z : Pat, Describes Z U → Describes (runPat Z l) U' := by
  induction h with
  | nil U => intro Z hd; exact hd
  | row U b p tr tc l U' ht _ ih => intro Z hd; exact ih _ (describes_rows Z U b p tr tc hd ht)
  | col U b p tr tc l U' ht _ ih => intro Z hd; exact ih _ (describes_cols Z U b p tr tc hd ht)
  | lphase U e p l U' _ ih => intro Z hd; exact ih _ (describes_leftPhase Z U e p hd)
  | rphase U e p l U' _ ih => intro Z hd; exact ih _ (describes_rightPhase Z U e p hd)

end pattern

/-! ### the schedules, for every size -/
section schedules

theorem runPat_nil (Z : Pat) : runPat Z [] = Z := rfl
theorem runPat_cons (Z : Pat) (s : Step) (l : List Step) : runPat Z (s :: l) = runPat (applyStep Z s) l := rfl
theorem runPat_append (Z : Pat) (a b : List Step) : runPat Z (a ++ b) = runPat (runPat Z a) b := by
  simp [runPat, List.foldl_append]

/-- all entries of an `n × n` pattern with `row − col ≥ d` are known zeros -/
def Low (n d : Nat) (Z : Pat) : Prop := ∀ i k, i < n → k + d ≤ i → Z i k = true

theorem low_noZeros (n : Nat) : Low n n noZeros := by
  intro i k hi hk; omega

/-- a column sweep completes the sub-diagonal `d` and keeps everything below it -/
theorem sweepCols_inv (n d : Nat) : ∀ (j : Nat) (Z : Pat), j + d ≤ n → Low n (d + 1) Z →
    (∀ k, j ≤ k → k + d < n → Z (k + d) k = true) → Low n d (runPat Z (sweepCols d j)) := by
  intro j
  induction j with
  | zero =>
    intro Z _ hl hdiag i k hi hk
    simp only [sweepCols, runPat_nil]
    by_cases h : k + d = i
    · subst h; exact hdiag k (Nat.zero_le _) hi
    · exact hl i k hi (by omega)
  | succ j ih =>
    intro Z hj hl hdiag
    simp only [sweepCols, runPat_cons]
    apply ih _ (by omega)
    · intro i k hi hk
      simp only [applyStep, Bool.false_eq_true, if_false]
      by_cases h1 : i = d + j ∧ k = j
      · simp [h1]
      · simp only [h1, if_false]
        by_cases h2 : k = j ∨ k = j + 1
        · simp only [h2, if_true, Bool.and_eq_true]
          constructor
          · exact hl i j hi (by omega)
          · by_cases h3 : j + 1 + d = i
            · subst h3; exact hdiag (j + 1) (by omega) hi
            · exact hl i (j + 1) hi (by omega)
        · simp only [h2, if_false]; exact hl i k hi hk
    · intro k hk hkn
      simp only [applyStep, Bool.false_eq_true, if_false]
      by_cases h1 : k + d = d + j ∧ k = j
      · rw [if_pos h1]
      · simp only [h1, if_false]
        have hkj : k ≠ j := fun e => h1 ⟨by omega, e⟩
        by_cases h2 : k = j ∨ k = j + 1
        · simp only [h2, if_true, Bool.and_eq_true]
          have : k = j + 1 := by omega
          subst this
          exact ⟨hl _ _ hkn (by omega), hdiag (j + 1) (by omega) hkn⟩
        · simp only [h2, if_false]; exact hdiag k (by omega) hkn

/-- a row sweep completes the sub-diagonal `d` and keeps everything below it -/
theorem sweepRows_inv (n d : Nat) (hd : 1 ≤ d) : ∀ (cnt j0 : Nat) (Z : Pat), j0 + cnt + d = n →
    Low n (d + 1) Z → (∀ k, k < j0 → Z (k + d) k = true) → Low n d (runPat Z (sweepRows d j0 cnt)) := by
  intro cnt
  induction cnt with
  | zero =>
    intro j0 Z hn hl hdiag i k hi hk
    simp only [sweepRows, runPat_nil]
    by_cases h : k + d = i
    · subst h; exact hdiag k (by omega)
    · exact hl i k hi (by omega)
  | succ cnt ih =>
    intro j0 Z hn hl hdiag
    simp only [sweepRows, runPat_cons]
    have hp : d + j0 - 1 + 1 = d + j0 := by omega
    apply ih (j0 + 1) _ (by omega)
    · intro i k hi hk
      simp only [applyStep, if_true, hp]
      by_cases h1 : i = d + j0 ∧ k = j0
      · simp [h1]
      · simp only [h1, if_false]
        by_cases h2 : i = d + j0 - 1 ∨ i = d + j0
        · simp only [h2, if_true, Bool.and_eq_true]
          constructor
          · by_cases h3 : k + d = d + j0 - 1
            · have : d + j0 - 1 = k + d := h3.symm
              rw [this]; exact hdiag k (by omega)
            · exact hl _ k (by omega) (by omega)
          · exact hl _ k (by omega) (by omega)
        · simp only [h2, if_false]; exact hl i k hi hk
    · intro k hk
      simp only [applyStep, if_true, hp]
      by_cases h1 : k + d = d + j0 ∧ k = j0
      · rw [if_pos h1]
      · simp only [h1, if_false]
        have hkj : k < j0 := by
          rcases Nat.lt_or_ge k j0 with h | h
          · exact h
          · exact absurd ⟨by omega, by omega⟩ h1
        by_cases h2 : k + d = d + j0 - 1 ∨ k + d = d + j0
        · simp only [h2, if_true, Bool.and_eq_true]
          have hk1 : k + 1 = j0 := by omega
          constructor
          · have : d + j0 - 1 = k + d := by omega
            rw [this]; exact hdiag k hkj
          · exact hl _ k (by omega) (by omega)
        · simp only [h2, if_false]; exact hdiag k hkj

/-- Clements order: after the remaining diagonals everything below the main diagonal is zero -/
theorem clementsFrom_inv (n : Nat) : ∀ (todo k : Nat) (Z : Pat), k + todo = n - 1 → Low n (n - k) Z →
    Low n 1 (runPat Z (clementsFrom n k todo)) := by
  intro todo
  induction todo with
  | zero =>
    intro k Z hk hl
    simp only [clementsFrom, runPat_nil]
    intro i j hi hj
    exact hl i j hi (by omega)
  | succ todo ih =>
    intro k Z hk hl
    simp only [clementsFrom, runPat_append]
    apply ih (k + 1) _ (by omega)
    have hd : n - (k + 1) = n - 1 - k := by omega
    rw [hd]
    have hl' : Low n (n - 1 - k + 1) Z := by
      have : n - 1 - k + 1 = n - k := by omega
      rw [this]; exact hl
    by_cases hpar : k % 2 = 0
    · simp only [hpar, if_true]
      exact sweepCols_inv n (n - 1 - k) (k + 1) Z (by omega) hl' (by intro j hj hjn; omega)
    · simp only [hpar, if_false]
      exact sweepRows_inv n (n - 1 - k) (by omega) (k + 1) 0 Z (by omega) hl' (by intro j hj; omega)

theorem triCompactFrom_inv (n : Nat) : ∀ (todo k : Nat) (Z : Pat), k + todo = n - 1 → Low n (n - k) Z →
    Low n 1 (runPat Z (triCompactFrom n k todo)) := by
  intro todo
  induction todo with
  | zero =>
    intro k Z hk hl
    simp only [triCompactFrom, runPat_nil]
    intro i j hi hj
    exact hl i j hi (by omega)
  | succ todo ih =>
    intro k Z hk hl
    simp only [triCompactFrom, runPat_append]
    apply ih (k + 1) _ (by omega)
    have hd : n - (k + 1) = n - 1 - k := by omega
    rw [hd]
    have hl' : Low n (n - 1 - k + 1) Z := by
      have : n - 1 - k + 1 = n - k := by omega
      rw [this]; exact hl
    exact sweepCols_inv n (n - 1 - k) (k + 1) Z (by omega) hl' (by intro j hj hjn; omega)

/-- the first `c` columns are zero below the diagonal -/
def ColsDone (n c : Nat) (Z : Pat) : Prop := ∀ i k, i < n → k < c → k < i → Z i k = true

/-- one column of the Reck scheme, bottom up -/
theorem reckColumn_inv (n c : Nat) : ∀ (cnt : Nat) (Z : Pat), c + cnt < n → ColsDone n c Z →
    (∀ i, c + cnt < i → i < n → Z i c = true) → ColsDone n (c + 1) (runPat Z (reckColumn c cnt)) := by
  intro cnt
  induction cnt with
  | zero =>
    intro Z _ hc hcol i k hi hk hki
    simp only [reckColumn, runPat_nil]
    by_cases h : k = c
    · subst h; exact hcol i (by omega) hi
    · exact hc i k hi (by omega) hki
  | succ cnt ih =>
    intro Z hn hc hcol
    simp only [reckColumn, runPat_cons]
    apply ih _ (by omega)
    · intro i k hi hk hki
      simp only [applyStep, if_true]
      by_cases h1 : i = c + cnt + 1 ∧ k = c
      · simp [h1]
      · simp only [h1, if_false]
        by_cases h2 : i = c + cnt ∨ i = c + cnt + 1
        · simp only [h2, if_true, Bool.and_eq_true]
          exact ⟨hc _ k (by omega) hk (by omega), hc _ k (by omega) hk (by omega)⟩
        · simp only [h2, if_false]; exact hc i k hi hk hki
    · intro i hi hin
      simp only [applyStep, if_true, and_true]
      by_cases h1 : i = c + cnt + 1
      · rw [if_pos h1]
      · rw [if_neg h1]
        have h2 : ¬ (i = c + cnt ∨ i = c + cnt + 1) := by omega
        rw [if_neg h2]
        exact hcol i (by omega) hin

theorem reckFrom_inv (n : Nat) : ∀ (todo c : Nat) (Z : Pat), c + todo = n - 1 → ColsDone n c Z →
    ColsDone n (n - 1) (runPat Z (reckFrom n c todo)) := by
  intro todo
  induction todo with
  | zero =>
    intro c Z hc hz
    simp only [reckFrom, runPat_nil]
    have : c = n - 1 := by omega
    subst this; exact hz
  | succ todo ih =>
    intro c Z hc hz
    simp only [reckFrom, runPat_append]
    apply ih (c + 1) _ (by omega)
    exact reckColumn_inv n c (n - 1 - c) Z (by omega) hz (by intro i hi hin; omega)

end schedules

/-! ### reconstruction from the recorded factors (abstract monoid) -/
section reconstruct
variable {G : Type} [Monoid G]

/-- ordered product -/
def prodL : List G → G
  | [] => 1
  | x :: l => x * prodL l

theorem prodL_append (a b : List G) : prodL (a ++ b) = prodL a * prodL b := by
  induction a with
  | nil => simp [prodL]
  | cons x a ih => simp [prodL, ih, mul_assoc]

/-- what the elimination loop does to the matrix: each recorded factor multiplies from the left (`.inl t`)
or from the right (`.inr t`) -/
def runElim (V : G) : List (G ⊕ G) → G
  | [] => V
  | .inl t :: l => runElim (t * V) l
  | .inr t :: l => runElim (V * t) l

def lefts : List (G ⊕ G) → List G
  | [] => []
  | .inl t :: l => t :: lefts l
  | .inr _ :: l => lefts l

def rights : List (G ⊕ G) → List G
  | [] => []
  | .inl _ :: l => rights l
  | .inr t :: l => t :: rights l

/-- the loop computes `T_k ⋯ T_1 ⋅ V ⋅ R_1 ⋯ R_l`, whatever the interleaving -/
theorem runElim_eq (l : List (G ⊕ G)) : ∀ V : G,
    runElim V l = prodL (lefts l).reverse * V * prodL (rights l) := by
  induction l with
  | nil => intro V; simp [runElim, lefts, rights, prodL]
  | cons x l ih =>
    intro V
    cases x with
    | inl t => simp [runElim, lefts, rights, ih, prodL_append, prodL, mul_assoc]
    | inr t => simp [runElim, lefts, rights, ih, prodL, mul_assoc]

theorem prodL_map_inv_left (ts : List G) (inv : G → G) (h : ∀ t ∈ ts, inv t * t = 1) :
    prodL (ts.map inv) * prodL ts.reverse = 1 := by
  induction ts with
  | nil => simp [prodL]
  | cons t ts ih =>
    have ih' := ih (fun x hx => h x (List.mem_cons_of_mem _ hx))
    have ht := h t List.mem_cons_self
    simp only [List.map_cons, prodL, List.reverse_cons, prodL_append, mul_one]
    calc inv t * prodL (ts.map inv) * (prodL ts.reverse * t)
        = inv t * (prodL (ts.map inv) * prodL ts.reverse) * t := by simp [mul_assoc]
      _ = 1 := by rw [ih', mul_one, ht]

theorem prodL_map_inv_right (ts : List G) (inv : G → G) (h : ∀ t ∈ ts, t * inv t = 1) :
    prodL ts * prodL (ts.reverse.map inv) = 1 := by
  induction ts with
  | nil => simp [prodL]
  | cons t ts ih =>
    have ih' := ih (fun x hx => h x (List.mem_cons_of_mem _ hx))
    have ht := h t List.mem_cons_self
    simp only [prodL, List.reverse_cons, List.map_append, List.map_cons, List.map_nil, prodL_append, mul_one]
    calc t * prodL ts * (prodL (ts.reverse.map inv) * inv t)
        = t * (prodL ts * prodL (ts.reverse.map inv)) * inv t := by simp [mul_assoc]
      _ = 1 := by rw [ih', mul_one, ht]

/-- the input is the ordered product of the inverse left factors, the final matrix, and the inverse right
factors in reverse order -/
theorem reconstruct_eq (V D : G) (l : List (G ⊕ G)) (inv : G → G)
    (hl : ∀ t ∈ lefts l, inv t * t = 1) (hr : ∀ t ∈ rights l, t * inv t = 1) (h : runElim V l = D) :
    V = prodL ((lefts l).map inv) * D * prodL ((rights l).reverse.map inv) := by
  rw [← h, runElim_eq]
  have h1 := prodL_map_inv_left (lefts l) inv hl
  have h2 := prodL_map_inv_right (rights l) inv hr
  calc V = 1 * V * 1 := by simp
    _ = (prodL ((lefts l).map inv) * prodL (lefts l).reverse) * V
          * (prodL (rights l) * prodL ((rights l).reverse.map inv)) := by rw [h1, h2]
    _ = _ := by simp [mul_assoc]

end reconstruct

/-! ### structure lemmas for `williamson`, `bloch_messiah`, `takagi` (block algebra kept abstract) -/
section structure_lemmas
variable {G : Type} [Group G]

/-- a transpose-like anti-involution of a group of matrices -/
structure Transp (G : Type) [Group G] where
  t : G → G
  mul : ∀ a b, t (a * b) = t b * t a
  invol : ∀ a, t (t a) = a

theorem Transp.one (T : Transp G) : T.t 1 = 1 := by
  have h := T.mul 1 1
  rw [mul_one] at h
  exact (mul_eq_left (a := T.t 1) (b := T.t 1)).mp h.symm

theorem Transp.inv (T : Transp G) (a : G) : T.t a⁻¹ = (T.t a)⁻¹ := by
  apply eq_inv_of_mul_eq_one_left
  rw [← T.mul, mul_inv_cancel, T.one]

/-- `williamson`: with `M = V^{-1/2}` symmetric, `K` orthogonal, `R = √Db` symmetric, the returned
`S = ((M K R)⁻¹)ᵀ` satisfies `S Db Sᵀ = V`. -/
theorem williamson_factors (T : Transp G) (V M K R : G) (hM : T.t M = M) (hK : T.t K = K⁻¹)
    (hR : T.t R = R) (hV : M * V * M = 1) :
    T.t (M * K * R)⁻¹ * (R * R) * T.t (T.t (M * K * R)⁻¹) = V := by
  have hV' : V = M⁻¹ * M⁻¹ := by
    have : V = M⁻¹ * (M * V * M) * M⁻¹ := by simp [mul_assoc]
    rw [this, hV, mul_one]
  rw [T.invol, T.inv, T.mul, T.mul, hM, hK, hR, hV']
  simp [mul_assoc]

/-- `williamson`: `Sᵀ Ω S = Ω` for `S = M K R` once the Schur factor satisfies `Kᵀ (M Ω M) K = s₁` and
`R s₁ R = Ω` (`s₁` has the blocks `1/ν`, `R = √Db`). -/
theorem williamson_symplectic (T : Transp G) (Ω M K R s1 : G) (hM : T.t M = M) (hR : T.t R = R)
    (hschur : T.t K * (M * Ω * M) * K = s1) (hs : R * s1 * R = Ω) :
    T.t (M * K * R) * Ω * (M * K * R) = Ω := by
  calc T.t (M * K * R) * Ω * (M * K * R)
      = R * (T.t K * (M * Ω * M) * K) * R := by rw [T.mul, T.mul, hM, hR]; simp [mul_assoc]
    _ = R * s1 * R := by rw [hschur]
    _ = Ω := hs

end structure_lemmas

section bm
variable {G : Type} [Monoid G]

/-- `bloch_messiah`, active branch: `S = σ u` (polar), `σ = W D Wᵀ` (Takagi / eigen-decomposition),
`Q = pmat ⋅ pmat1` orthogonal: the returned `(W Q) ⋅ (Qᵀ D Q) ⋅ ((W Q)ᵀ u)` is `S`. -/
theorem bloch_messiah_factors (W Wt Q Qt D u : G) (hQ : Q * Qt = 1) :
    (W * Q) * (Qt * D * Q) * ((Qt * Wt) * u) = (W * D * Wt) * u := by
  have h : ∀ x : G, Q * (Qt * x) = x := fun x => by rw [← mul_assoc, hQ, one_mul]
  simp [mul_assoc, h]

/-- the returned outer factors are orthogonal when `W` and `Q` are -/
theorem bloch_messiah_orthogonal (W Wt Q Qt : G) (hW : Wt * W = 1) (hQ : Qt * Q = 1) :
    (Qt * Wt) * (W * Q) = 1 := by
  have h : ∀ x : G, Wt * (W * x) = x := fun x => by rw [← mul_assoc, hW, one_mul]
  simp [mul_assoc, h, hQ]

end bm

section takagi
variable {K : Type} [CommRing K] [LT K] [DecidableRel (fun a b : K => a < b)]

/-- `takagi`, real branch, entrywise: with `vals = |l|` and `phases² = sign`, `phase² ⋅ val = l`
(so `(U diag(phases)) diag(vals) (U diag(phases))ᵀ = U diag(l) Uᵀ = N`). -/
theorem takagi_real_entry (l : K) :
    (if 0 < l then (1 : K) else -1) * (if 0 < l then l else -l) = l := by
  split <;> ring

end takagi

/-! ### restricted symplectic form (why the unit subspace of `bloch_messiah` needs its own basis) -/
section findings

/-- restriction of the symplectic form to a basis: `(BᵀΩB)ᵢⱼ` for integer matrices given as functions -/
def restrictForm (n : Nat) (Ω B : Nat → Nat → Int) (i j : Nat) : Int :=
  (List.range n).foldl (fun acc a => (List.range n).foldl (fun acc b => acc + B a i * Ω a b * B b j) acc) 0

end findings

end SFV.Decomp
