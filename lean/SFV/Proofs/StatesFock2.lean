import SFV.Proofs.StatesFock

/-! Second batch of lemmas for the Fock part of `SFV.Model.States`: the einsum string built letter by letter equals the role
description, the NumPy sorting contracts determine `argsort` / `sort`, and `FockBackend.state(modes)` on registers with holes. -/
namespace SFV.States
open SFV.Fock

namespace F2

/-- number of `x < m` with `c x` -/
def cnt (c : Nat → Bool) (m : Nat) : Nat := ((List.range m).filter c).length

theorem cnt_succ_pos (c : Nat → Bool) (m : Nat) (h : c m = true) : cnt c (m + 1) = cnt c m + 1 := by
  unfold cnt; rw [List.range_succ, List.filter_append]; simp [h]

theorem cnt_succ_neg (c : Nat → Bool) (m : Nat) (h : c m = false) : cnt c (m + 1) = cnt c m := by
  unfold cnt; rw [List.range_succ, List.filter_append]; simp [h]

theorem cnt_mono (c : Nat → Bool) {a b : Nat} (h : a ≤ b) : cnt c a ≤ cnt c b := by
  unfold cnt
  exact ((List.range_sublist.mpr h).filter _).length_le

theorem cnt_lt (c : Nat → Bool) {a b : Nat} (h : a < b) (ha : c a = true) : cnt c a < cnt c b := by
  have := cnt_mono c (Nat.succ_le_of_lt h)
  rw [Nat.succ_eq_add_one, cnt_succ_pos c a ha] at this
  omega

theorem cnt_inj (c : Nat → Bool) {a b : Nat} (ha : c a = true) (hb : c b = true) (h : cnt c a = cnt c b) : a = b := by
  rcases Nat.lt_trichotomy a b with h' | h' | h'
  · have := cnt_lt c h' ha; omega
  · exact h'
  · have := cnt_lt c h' hb; omega

/-- the `cnt c m`-th element of the filtered range is `m` -/
theorem filter_getD_cnt (c : Nat → Bool) (n m : Nat) (hm : m < n) (hc : c m = true) :
    ((List.range n).filter c).getD (cnt c m) 0 = m := by
  have hmem : m ∈ (List.range n).filter c := List.mem_filter.mpr ⟨List.mem_range.mpr hm, hc⟩
  obtain ⟨i, hi, he⟩ := List.getElem_of_mem hmem
  have h1 := filter_map_rank c n
  have h2 : (((List.range n).filter c).map (fun a => ((List.range a).filter c).length))[i]'(by simpa using hi)
      = (List.range ((List.range n).filter c).length)[i]'(by simpa using hi) := by
    simp only [h1]
  rw [List.getElem_map, List.getElem_range, he] at h2
  unfold cnt
  rw [h2, List.getD_eq_getElem _ 0 hi, he]

end F2

/-- **any** sorted rearrangement of a list is the model's merge sort -/
theorem sort_unique (l s : List Nat) (h : IsSorted l s) : s = l.mergeSort fun a b => decide (a ≤ b) := by
  obtain ⟨hp, hs⟩ := h
  have hm : (l.mergeSort fun a b => decide (a ≤ b)).Pairwise (· ≤ ·) := by
    have := List.pairwise_mergeSort (le := fun a b : Nat => decide (a ≤ b))
      (by intro _ _ _; simp only [decide_eq_true_eq]; omega)
      (by intro _ _; simp only [Bool.or_eq_true, decide_eq_true_eq]; omega) l
    exact this.imp (fun h => by simpa using h)
  exact List.Perm.eq_of_pairwise (fun _ _ _ _ hab hba => Nat.le_antisymm hab hba) hs hm
    (hp.trans (List.mergeSort_perm _ _).symm)

/-- **any** argsort of a duplicate-free list is the model's `argsort` -/
theorem argsort_unique (l σ : List Nat) (hd : l.Nodup) (h : IsArgsort l σ) : σ = argsort l := by
  obtain ⟨hp, hs⟩ := h
  have h1 : σ.Pairwise (fun a b => l.getD a 0 ≤ l.getD b 0) := List.pairwise_map.mp hs
  have h2 : (argsort l).Pairwise (fun a b => l.getD a 0 ≤ l.getD b 0) := List.pairwise_map.mp (argsort_map_sorted l)
  refine List.Perm.eq_of_pairwise ?_ h1 h2 (hp.trans (argsort_perm l).symm)
  intro a b ha hb hab hba
  have ha' : a < l.length := List.mem_range.mp (hp.mem_iff.mp ha)
  have hb' : b < l.length := argsort_lt l hb
  have he : l.getD a 0 = l.getD b 0 := Nat.le_antisymm hab hba
  rw [List.getD_eq_getElem _ 0 ha', List.getD_eq_getElem _ 0 hb'] at he
  exact hd.getElem_inj_iff.mp he

/-! ### registers with holes -/

theorem F2.mem_activeModes (map : List (Option Nat)) (m : Nat) :
    m ∈ activeModes map ↔ m < map.length ∧ (map.getD m none).isSome = true := by
  unfold activeModes
  rw [List.mem_filter, List.mem_range]

theorem F2.axisOf_eq (map : List (Option Nat)) (m : Nat) :
    axisOf map m = F2.cnt (fun x => (map.getD x none).isSome) m := rfl

theorem F2.getD_of_active (map : List (Option Nat)) (hw : WellFormedMap map) (m : Nat) (hm : m ∈ activeModes map) :
    map.getD m none = some (axisOf map m) := by
  obtain ⟨h1, h2⟩ := (F2.mem_activeModes map m).mp hm
  rcases hw m h1 with h | h
  · rw [h] at h2; simp at h2
  · exact h

theorem F2.remapModes_ok (map : List (Option Nat)) (hw : WellFormedMap map) (modes : List Nat) (hne : modes ≠ [])
    (hd : modes.Nodup) (ha : ∀ m ∈ modes, m ∈ activeModes map) :
    remapModes map modes = .ok (modes.map (axisOf map)) := by
  have hlt : ∀ m ∈ modes, m < map.length := fun m hm => ((F2.mem_activeModes map m).mp (ha m hm)).1
  have hlen := length_le_of_nodup_lt map.length modes hd hlt
  unfold remapModes
  have h1 : modes.any (fun m => decide (map.length ≤ m)) = false := by
    rw [List.any_eq_false]; intro m hm; have := hlt m hm; simp; omega
  have h2 : modes.any (fun m => (map.getD m none).isNone) = false := by
    rw [List.any_eq_false]; intro m hm
    rw [F2.getD_of_active map hw m (ha m hm)]; simp
  have h3 : modes.isEmpty = false := by
    cases modes with
    | nil => exact absurd rfl hne
    | cons a t => rfl
  have h4 : decide (modes.length > map.length) = false := by simp; omega
  rw [h1, h2, h3, h4]
  simp only [Bool.false_eq_true, if_false, Bool.or_self]
  congr 1
  apply List.map_congr_left
  intro m hm
  rw [F2.getD_of_active map hw m (ha m hm)]; rfl

/-- `FockBackend.state(modes)` on a register with holes: for a well-formed mode map with `n` active subsystems and every
duplicate-free list of *active subsystem indices*, in any order, the result is the reduced state of the axes these subsystems
live on, in the requested order, flagged mixed, and labelled with the requested subsystem indices -/
theorem fockBackendStateR_order {K : Type} [Zero K] [Add K] [Mul K] (cj : K → K) (D n : Nat) (pure : Bool)
    (map : List (Option Nat)) (modes : List Nat) (st : Tens K) (hw : WellFormedMap map)
    (hn : (activeModes map).length = n) (hne : modes ≠ []) (hd : modes.Nodup) (ha : ∀ m ∈ modes, m ∈ activeModes map) :
    ∃ T, fockBackendStateR cj D n pure map (some modes) st = .ok (false, modes.length, T, modes) ∧
      ∀ idx, T idx = reducedSpec D n (modes.map (axisOf map)) (if pure then mix cj st else st) idx := by
  have hc : ∀ m ∈ modes, (map.getD m none).isSome = true := fun m hm => ((F2.mem_activeModes map m).mp (ha m hm)).2
  have hlt : ∀ m ∈ modes, m < map.length := fun m hm => ((F2.mem_activeModes map m).mp (ha m hm)).1
  have hrd : (modes.map (axisOf map)).Nodup := by
    refine List.Nodup.map_on ?_ hd
    intro a haa b hb he
    exact F2.cnt_inj _ (hc a haa) (hc b hb) he
  have hrr : ∀ a ∈ modes.map (axisOf map), a < n := by
    intro a haa
    obtain ⟨m, hm, rfl⟩ := List.mem_map.mp haa
    rw [← hn]
    have h1 := F2.cnt_succ_pos (fun x => (map.getD x none).isSome) m (hc m hm)
    have h2 := F2.cnt_mono (fun x => (map.getD x none).isSome) (show m + 1 ≤ map.length from hlt m hm)
    rw [F2.axisOf_eq]
    show _ < F2.cnt (fun x => (map.getD x none).isSome) map.length
    omega
  obtain ⟨T, hT, hTs⟩ := fockBackendState_order cj D n pure (modes.map (axisOf map)) st hrd hrr
  refine ⟨T, ?_, hTs⟩
  have hnd : noDup modes = true := by simp [noDup, hd]
  have hback : (modes.map (axisOf map)).map (fun a => (activeModes map).getD a 0) = modes := by
    rw [List.map_map]
    conv_rhs => rw [← List.map_id modes]
    apply List.map_congr_left
    intro m hm
    exact F2.filter_getD_cnt _ map.length m (hlt m hm) (hc m hm)
  unfold fockBackendStateR
  simp only [hnd, Bool.not_true, Bool.false_eq_true, if_false, F2.remapModes_ok map hw modes hne hd ha, hT,
    List.length_map, hback]

/-- … and every other list is rejected: duplicates, deleted subsystems and the empty list with `ValueError`, an index beyond
the map with `IndexError` (duplicates are tested first) -/
theorem fockBackendStateR_raises {K : Type} [Zero K] [Add K] [Mul K] (cj : K → K) (D n : Nat) (pure : Bool)
    (map : List (Option Nat)) (modes : List Nat) (st : Tens K)
    (h : ¬ (modes ≠ [] ∧ modes.Nodup ∧ ∀ m ∈ modes, m ∈ activeModes map)) :
    ∃ e, fockBackendStateR cj D n pure map (some modes) st = .error e := by
  unfold fockBackendStateR
  by_cases hd : modes.Nodup
  · have hnd : noDup modes = true := by simp [noDup, hd]
    simp only [hnd, Bool.not_true, Bool.false_eq_true, if_false]
    have hre : ∃ e, remapModes map modes = .error e := by
      unfold remapModes
      by_cases h1 : modes.any (fun m => decide (map.length ≤ m)) = true
      · exact ⟨_, if_pos h1⟩
      · rw [if_neg h1]
        by_cases h2 : (modes.isEmpty || decide (modes.length > map.length)
            || modes.any (fun m => (map.getD m none).isNone)) = true
        · exact ⟨_, if_pos h2⟩
        · exfalso
          apply h
          simp only [Bool.or_eq_true, not_or, Bool.not_eq_true] at h2
          obtain ⟨⟨h2a, _⟩, h2c⟩ := h2
          refine ⟨?_, hd, ?_⟩
          · intro he; rw [he] at h2a; simp at h2a
          · intro m hm
            rw [F2.mem_activeModes]
            have h1' : modes.any (fun m => decide (map.length ≤ m)) = false := by simpa using h1
            have a1 := List.any_eq_false.mp h1' m hm
            have a2 := List.any_eq_false.mp h2c m hm
            refine ⟨by simpa using a1, ?_⟩
            cases hg : map.getD m none with
            | none => rw [hg] at a2; simp at a2
            | some v => rfl
    obtain ⟨e, he⟩ := hre
    exact ⟨e, by rw [he]⟩
  · have hnd : noDup modes = false := by simp [noDup, hd]
    exact ⟨.valueError, by simp [hnd]⟩


/-! ### the einsum string, letter by letter -/
namespace F2

theorem indLoop_append (modes l₁ l₂ : List Nat) (ctr : Nat) (ind : List (Nat × Nat)) :
    indLoop modes (l₁ ++ l₂) ctr ind
      = indLoop modes l₂ (ctr + (l₁.filter fun x => modes.contains x).length) (indLoop modes l₁ ctr ind) := by
  induction l₁ generalizing ctr ind with
  | nil => simp [indLoop]
  | cons a t ih =>
    by_cases h : modes.contains a = true
    · simp only [List.cons_append, indLoop, h, if_true, ih, List.filter_cons, List.length_cons]
      congr 1; omega
    · simp only [List.cons_append, indLoop, h, ih, List.filter_cons]
      simp

/-- closed form of the entry of axis pair `m` -/
def cf (n : Nat) (modes : List Nat) (m : Nat) : Nat × Nat :=
  match (roles n modes).getD m none with
  | some c => (2 * c, 2 * c + 1)
  | none => (2 * modes.length + keptPos modes m, 2 * modes.length + keptPos modes m)

theorem cf_kept (n : Nat) (modes : List Nat) (m : Nat) (hm : m < n) (hc : modes.contains m = true) :
    cf n modes m = (2 * rankIn modes m, 2 * rankIn modes m + 1) := by
  unfold cf; rw [roles_getD]; simp only [hm, hc, and_self, if_true]

theorem cf_traced (n : Nat) (modes : List Nat) (m : Nat) (hc : modes.contains m = false) :
    cf n modes m = (2 * modes.length + keptPos modes m, 2 * modes.length + keptPos modes m) := by
  unfold cf; rw [roles_getD]; simp only [hc, Bool.false_eq_true, and_false, if_false]

/-- the initial `ind`: the doubled trace letters -/
def init (n : Nat) (modes : List Nat) : List (Nat × Nat) :=
  (List.range (n - modes.length)).map fun t => (2 * modes.length + t, 2 * modes.length + t)

theorem keptPos_eq_cnt (modes : List Nat) (m : Nat) : keptPos modes m = cnt (fun x => !modes.contains x) m := rfl

theorem keptPos_total (n : Nat) (modes : List Nat) (hd : modes.Nodup) (hr : ∀ m ∈ modes, m < n) :
    keptPos modes n + modes.length = n := by
  have h1 := (List.filter_append_perm (fun x => modes.contains x) (List.range n)).length_eq
  have h2 := (filter_range_perm n modes hd hr).length_eq
  rw [List.length_append, List.length_range, h2] at h1
  unfold keptPos
  omega

theorem pyInsert_append {α : Type} (L R : List α) (m : Nat) (x : α) (h : L.length = m) :
    pyInsert (L ++ R) m x = L ++ x :: R := by
  unfold pyInsert
  rw [List.take_left' h, List.drop_left' h]

theorem indLoop_range (n : Nat) (modes : List Nat) (hd : modes.Nodup) (hr : ∀ m ∈ modes, m < n) (m : Nat) (hm : m ≤ n) :
    indLoop modes (List.range m) 0 (init n modes)
      = (List.range m).map (cf n modes) ++ (init n modes).drop (keptPos modes m) := by
  induction m with
  | zero => simp [indLoop, keptPos]
  | succ m ih =>
    have hmn : m < n := hm
    rw [List.range_succ, indLoop_append, ih (Nat.le_of_lt hmn), List.map_append, List.map_cons, List.map_nil]
    by_cases hc : modes.contains m = true
    · have hk : keptPos modes (m + 1) = keptPos modes m := cnt_succ_neg _ m (by simpa using hc)
      simp only [indLoop, hc, if_true]
      rw [pyInsert_append _ _ _ _ (by simp), hk, cf_kept n modes m hmn hc, List.append_assoc]
      simp [rankIn]
    · have hc' : modes.contains m = false := by simpa using hc
      have hk : keptPos modes (m + 1) = keptPos modes m + 1 := cnt_succ_pos _ m (by simpa using hc')
      have htot := keptPos_total n modes hd hr
      have hmono : keptPos modes (m + 1) ≤ keptPos modes n := cnt_mono _ hmn
      have hlt : keptPos modes m < (init n modes).length := by
        unfold init; rw [List.length_map, List.length_range]; omega
      simp only [indLoop, hc]
      rw [List.drop_eq_getElem_cons hlt, hk, cf_traced n modes m hc', List.append_assoc]
      simp [init]

end F2

/-- closed form of the list `ind` the loop builds: axis pair `m` carries the `c`-th pair of output letters when its role is
`some c`, and the doubled trace letter `2k + (number of traced modes below m)` otherwise -/
theorem indList_eq (n : Nat) (modes : List Nat) (hd : modes.Nodup) (hr : ∀ m ∈ modes, m < n) :
    indList n modes = (List.range n).map fun m =>
      match (roles n modes).getD m none with
      | some c => (2 * c, 2 * c + 1)
      | none => (2 * modes.length + ((List.range m).filter fun x => !modes.contains x).length,
                 2 * modes.length + ((List.range m).filter fun x => !modes.contains x).length) := by
  have h := F2.indLoop_range n modes hd hr n (Nat.le_refl n)
  have htot := F2.keptPos_total n modes hd hr
  have hnil : (F2.init n modes).drop (keptPos modes n) = [] := by
    apply List.drop_eq_nil_of_le
    unfold F2.init; rw [List.length_map, List.length_range]; omega
  rw [hnil, List.append_nil] at h
  exact h

namespace F2

theorem indList_eq_cf (n : Nat) (modes : List Nat) (hd : modes.Nodup) (hr : ∀ m ∈ modes, m < n) :
    indList n modes = (List.range n).map (cf n modes) := indList_eq n modes hd hr

theorem indList_getD (n : Nat) (modes : List Nat) (hd : modes.Nodup) (hr : ∀ m ∈ modes, m < n) (m : Nat) (hm : m < n) :
    (indList n modes).getD m (0, 0) = cf n modes m := by
  rw [indList_eq_cf n modes hd hr, List.getD_eq_getElem _ _ (by simpa using hm), List.getElem_map, List.getElem_range]

theorem letterOf_kept (n : Nat) (modes : List Nat) (hd : modes.Nodup) (hr : ∀ m ∈ modes, m < n) (a : Nat)
    (ha : a < 2 * n) (hc : modes.contains (a / 2) = true) :
    letterOf (indList n modes) a = 2 * rankIn modes (a / 2) + a % 2 := by
  unfold letterOf
  rw [indList_getD n modes hd hr _ (by omega), cf_kept n modes _ (by omega) hc]
  rcases Nat.mod_two_eq_zero_or_one a with h | h <;> simp [h]

theorem letterOf_traced (n : Nat) (modes : List Nat) (hd : modes.Nodup) (hr : ∀ m ∈ modes, m < n) (a : Nat)
    (ha : a < 2 * n) (hc : modes.contains (a / 2) = false) :
    letterOf (indList n modes) a = 2 * modes.length + keptPos modes (a / 2) := by
  unfold letterOf
  rw [indList_getD n modes hd hr _ (by omega), cf_traced n modes _ hc]
  rcases Nat.mod_two_eq_zero_or_one a with h | h <;> simp [h]

theorem sumLetters_eq_traceOver {K : Type} [Zero K] [Add K] (D N nout : Nat) (letter lt : Nat → Nat) (ρ : Tens K)
    (idx : Idx) (Tr : List Nat)
    (h1 : ∀ m ∈ Tr, 2 * m + 1 < N ∧ letter (2 * m) = lt m ∧ letter (2 * m + 1) = lt m ∧ nout ≤ lt m)
    (h2 : ∀ m ∈ Tr, ∀ a, a < N → a / 2 ≠ m → letter a ≠ lt m)
    (val : Nat → Nat) (base : Idx)
    (hb : ∀ a, a / 2 ∉ Tr →
      base a = if a < N then (if letter a < nout then idx (letter a) else val (letter a)) else 0) :
    sumLetters D (Tr.map lt)
        (fun val => ρ (fun a => if a < N then (if letter a < nout then idx (letter a) else val (letter a)) else 0)) val
      = traceOver D Tr ρ base := by
  induction Tr generalizing val base with
  | nil =>
    simp only [List.map_nil, sumLetters, traceOver]
    congr 1; funext a; exact (hb a (by simp)).symm
  | cons m ms ih =>
    simp only [List.map_cons, sumLetters, traceOver]
    congr 1; funext v
    apply ih (fun x hx => h1 x (List.mem_cons_of_mem _ hx)) (fun x hx => h2 x (List.mem_cons_of_mem _ hx))
    intro a ha
    obtain ⟨hN, hl0, hl1, hout⟩ := h1 m List.mem_cons_self
    by_cases hm : a / 2 = m
    · rcases (by omega : a = 2 * m ∨ a = 2 * m + 1) with rfl | rfl
      · rw [if_pos (by omega), hl0, if_neg (by omega), if_pos rfl]
        simp [upd]
      · rw [if_pos (by omega), hl1, if_neg (by omega), if_pos rfl]
        simp [upd]
    · have e1 : upd (upd base (2 * m) v) (2 * m + 1) v a = base a := by
        unfold upd; rw [if_neg (by omega), if_neg (by omega)]
      rw [e1, hb a (by simp [hm, ha])]
      by_cases haN : a < N
      · rw [if_pos haN, if_pos haN, if_neg (h2 m List.mem_cons_self a haN hm)]
      · rw [if_neg haN, if_neg haN]

theorem eraseDups_double (xs : List Nat) (hx : xs.Nodup) : (xs.flatMap fun x => [x, x]).eraseDups = xs := by
  induction xs with
  | nil => rfl
  | cons x t ih =>
    obtain ⟨hxt, ht⟩ := List.nodup_cons.mp hx
    have hfil : (t.flatMap fun x => [x, x]).filter (fun b => !b == x) = t.flatMap fun x => [x, x] := by
      rw [List.filter_eq_self]
      intro b hb
      obtain ⟨y, hy, hby⟩ := List.mem_flatMap.mp hb
      have : b = y := by simpa using hby
      subst this
      have : b ≠ x := fun h => hxt (h ▸ hy)
      simpa using this
    simp only [List.flatMap_cons, List.cons_append, List.nil_append]
    rw [List.eraseDups_cons, List.filter_cons]
    simp only [beq_self_eq_true, Bool.not_true, Bool.false_eq_true, if_false]
    rw [hfil, ih ht]

theorem free_filter (n : Nat) (modes : List Nat) (hd : modes.Nodup) (hr : ∀ m ∈ modes, m < n) (l : List Nat)
    (hl : ∀ m ∈ l, m < n) :
    ((l.flatMap fun m => [2 * m, 2 * m + 1]).map (letterOf (indList n modes))).filter
        (fun x => decide (2 * modes.length ≤ x))
      = (l.filter fun m => !modes.contains m).flatMap
          fun m => [2 * modes.length + keptPos modes m, 2 * modes.length + keptPos modes m] := by
  induction l with
  | nil => rfl
  | cons x t ih =>
    have hx : x < n := hl x List.mem_cons_self
    rw [List.flatMap_cons, List.map_append, List.filter_append, ih (fun m hm => hl m (List.mem_cons_of_mem _ hm))]
    have d0 : 2 * x / 2 = x := by omega
    have d1 : (2 * x + 1) / 2 = x := by omega
    by_cases hc : modes.contains x = true
    · have hk := (argsort_rank modes hd x (List.contains_iff_mem.mp hc)).1
      have e0 := letterOf_kept n modes hd hr (2 * x) (by omega) (by rw [d0]; exact hc)
      have e1 := letterOf_kept n modes hd hr (2 * x + 1) (by omega) (by rw [d1]; exact hc)
      rw [d0] at e0; rw [d1] at e1
      have hxm : x ∈ modes := List.contains_iff_mem.mp hc
      have f0' : ¬ modes.length ≤ rankIn modes x := by omega
      have f1' : ¬ 2 * modes.length ≤ 2 * rankIn modes x + 1 := by omega
      simp [hxm, e0, e1, f0', f1']
    · have hc' : modes.contains x = false := by simpa using hc
      have e0 := letterOf_traced n modes hd hr (2 * x) (by omega) (by rw [d0]; exact hc')
      have e1 := letterOf_traced n modes hd hr (2 * x + 1) (by omega) (by rw [d1]; exact hc')
      rw [d0] at e0; rw [d1] at e1
      have hxm : x ∉ modes := fun h => hc (List.contains_iff_mem.mpr h)
      simp [hxm, e0, e1]

end F2

/-- the einsum of the letter string is the einsum the roles denote (any order of the nested sums: commutative addition) -/
theorem einsumLetters_eq_roles {K : Type} [AddCommMonoid K] (D n : Nat) (modes : List Nat) (ρ : Tens K)
    (hd : modes.Nodup) (hr : ∀ m ∈ modes, m < n) (idx : Idx) :
    einsumLetters D (indList n modes) (2 * modes.length) ρ idx = einsumRoles D (roles n modes) ρ idx := by
  have hlen : (indList n modes).length = n := by rw [F2.indList_eq_cf n modes hd hr]; simp
  have hTr : ∀ m ∈ (List.range n).filter (fun m => !modes.contains m), m < n ∧ modes.contains m = false := by
    intro m hm
    obtain ⟨h1, h2⟩ := List.mem_filter.mp hm
    exact ⟨List.mem_range.mp h1, by simpa using h2⟩
  have hnd : (((List.range n).filter fun m => !modes.contains m).map
      fun m => 2 * modes.length + keptPos modes m).Nodup := by
    refine List.Nodup.map_on ?_ (List.nodup_range.filter _)
    intro a ha b hb he
    refine F2.cnt_inj (fun x => !modes.contains x) ?_ ?_ (by rw [← F2.keptPos_eq_cnt, ← F2.keptPos_eq_cnt]; omega)
    · show (!modes.contains a) = true
      rw [(hTr a ha).2]; rfl
    · show (!modes.contains b) = true
      rw [(hTr b hb).2]; rfl
  have hfree : (((List.range (2 * n)).map (letterOf (indList n modes))).filter
        (fun l => decide (2 * modes.length ≤ l))).eraseDups
      = ((List.range n).filter fun m => !modes.contains m).map fun m => 2 * modes.length + keptPos modes m := by
    rw [← indexPerm_range]
    show (((((List.range n).flatMap fun m => [2 * m, 2 * m + 1]).map (letterOf (indList n modes))).filter
        (fun l => decide (2 * modes.length ≤ l)))).eraseDups = _
    rw [F2.free_filter n modes hd hr _ (fun m hm => List.mem_range.mp hm)]
    rw [← F2.eraseDups_double _ hnd, List.flatMap_map]
  unfold einsumLetters einsumRoles
  rw [tracedOf_roles, readRole_roles n modes hr]
  simp only [hlen, hfree]
  apply F2.sumLetters_eq_traceOver
  · intro m hm
    obtain ⟨hmn, hc⟩ := hTr m hm
    have d0 : 2 * m / 2 = m := by omega
    have d1 : (2 * m + 1) / 2 = m := by omega
    have e0 := F2.letterOf_traced n modes hd hr (2 * m) (by omega) (by rw [d0]; exact hc)
    have e1 := F2.letterOf_traced n modes hd hr (2 * m + 1) (by omega) (by rw [d1]; exact hc)
    rw [d0] at e0; rw [d1] at e1
    exact ⟨by omega, e0, e1, by omega⟩
  · intro m hm a ha ham
    obtain ⟨hmn, hc⟩ := hTr m hm
    by_cases hca : modes.contains (a / 2) = true
    · rw [F2.letterOf_kept n modes hd hr a ha hca]
      have hk := (argsort_rank modes hd _ (List.contains_iff_mem.mp hca)).1
      omega
    · have hca' : modes.contains (a / 2) = false := by simpa using hca
      rw [F2.letterOf_traced n modes hd hr a ha hca']
      intro he
      apply ham
      refine F2.cnt_inj (fun x => !modes.contains x) (show (!modes.contains (a / 2)) = true by rw [hca']; rfl)
        (show (!modes.contains m) = true by rw [hc]; rfl) ?_
      rw [← F2.keptPos_eq_cnt, ← F2.keptPos_eq_cnt]; omega
  · intro a ha
    by_cases hca : modes.contains (a / 2) = true
    · have ha2 : a / 2 < n := hr _ (List.contains_iff_mem.mp hca)
      have haN : a < 2 * n := by omega
      have hk := (argsort_rank modes hd _ (List.contains_iff_mem.mp hca)).1
      rw [if_pos hca, if_pos haN, F2.letterOf_kept n modes hd hr a haN hca, if_pos (by omega)]
    · have hca' : modes.contains (a / 2) = false := by simpa using hca
      have haN : ¬ a < 2 * n := by
        intro h
        apply ha
        exact List.mem_filter.mpr ⟨List.mem_range.mpr (by omega), by rw [hca']; rfl⟩
      rw [if_neg hca, if_neg haN]

end SFV.States
