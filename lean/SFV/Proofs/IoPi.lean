import Mathlib.Tactic.Linarith
import Mathlib.Tactic.Ring
import Mathlib.Algebra.Order.Ring.Abs
import Mathlib.Algebra.Order.Field.Rat
import SFV.Proofs.IoCode
/-! Numeric part of `_factor_out_pi`: the multiple of `π/12` it factors out of a number is within the
`np.isclose` window of the number, so the printed `c*np.pi/d` denotes the parameter up to 3e-6. -/
namespace SFV.Io

theorem ratAbs_eq (q : Rat) : ratAbs q = |q| := by
  unfold ratAbs
  split
  · rename_i h; rw [abs_of_neg h]
  · rename_i h; rw [abs_of_nonneg (not_lt.mp h)]

theorem floor_unique (x : Rat) (k : Int) (h1 : (k : Rat) ≤ x) (h2 : x < (k : Rat) + 1) : x.floor = k := by
  have a := Rat.floor_le x
  have b := Rat.lt_floor_add_one x
  push_cast at b
  have c1 : ((x.floor : Int) : Rat) < (k : Rat) + 1 := lt_of_le_of_lt a h2
  have c2 : (k : Rat) < ((x.floor : Int) : Rat) + 1 := lt_of_le_of_lt h1 b
  have d1 : x.floor < k + 1 := by exact_mod_cast c1
  have d2 : k < x.floor + 1 := by exact_mod_cast c2
  omega

theorem piF_pos : (0 : Rat) < piF := by norm_num [piF]

theorem pyMod_range (q : Rat) : 0 ≤ pyMod q piF ∧ pyMod q piF < piF := by
  have hf := piF_pos
  have h1 := Rat.floor_le (q / piF)
  have h2 := Rat.lt_floor_add_one (q / piF)
  have e : q = (q / piF) * piF := (div_mul_cancel₀ q (ne_of_gt hf)).symm
  push_cast at h2
  unfold pyMod
  constructor <;> nlinarith

/-- **the factored multiple is close**: whenever `_factor_out_pi` decides that `q` is the multiple `m` of
`π/12`, `|q - m·(π/12)| ≤ 2.7e-6` (the `np.isclose` window: 1e-8 above a multiple, 1e-8 + 1e-5·π/12 below) -/
theorem piMultiple_close (q : Rat) (m : Int) (h : piMultiple q = some m) :
    |q - (m : Rat) * piF| ≤ 27 / 10000000 := by
  have hf := piF_pos
  obtain ⟨hr0, hr1⟩ := pyMod_range q
  have hk1 := Rat.floor_le (q / piF)
  have hk2 := Rat.lt_floor_add_one (q / piF)
  push_cast at hk2
  have e : q = (q / piF) * piF := (div_mul_cancel₀ q (ne_of_gt hf)).symm
  unfold piMultiple at h
  split at h
  · rename_i hc
    obtain ⟨_, hc⟩ := hc
    simp only [Option.some.injEq] at h
    have hfv : piF = 4716158501352293 / 18014398509481984 := rfl
    rcases hc with hc | hc
    · -- just above a multiple
      simp only [isClose, decide_eq_true_eq, ratAbs_eq, sub_zero, abs_zero, mul_zero, add_zero] at hc
      rw [abs_of_nonneg hr0] at hc
      have hm : (q / piF + 1 / 2).floor = (q / piF).floor := by
        apply floor_unique
        · linarith
        · have : q / piF < ((q / piF).floor : Rat) + 1 / 2 := by
            rw [div_lt_iff₀ hf]
            unfold pyMod at hc
            rw [hfv] at hc ⊢
            nlinarith
          linarith
      rw [← h, hm]
      have : q - ((q / piF).floor : Rat) * piF = pyMod q piF := rfl
      rw [this, abs_of_nonneg hr0]
      linarith
    · -- just below a multiple
      simp only [isClose, decide_eq_true_eq, ratAbs_eq] at hc
      rw [abs_of_pos hf, abs_of_nonpos (by linarith)] at hc
      have hm : (q / piF + 1 / 2).floor = (q / piF).floor + 1 := by
        apply floor_unique
        · push_cast
          have : ((q / piF).floor : Rat) + 1 / 2 ≤ q / piF := by
            rw [le_div_iff₀ hf]
            unfold pyMod at hc
            rw [hfv] at hc ⊢
            nlinarith
          linarith
        · push_cast; linarith
      rw [← h, hm]
      push_cast
      have : q - (((q / piF).floor : Rat) + 1) * piF = pyMod q piF - piF := by unfold pyMod; ring
      rw [this, abs_of_nonpos (by linarith)]
      rw [hfv] at hc ⊢
      linarith
  · cases h

/-- the two float constants agree: `|π/12 - π_float/12| ≤ (π/12)·1e-15` -/
theorem piF_piFloat : |piF - piFloat / 12| ≤ piF / 1000000000000000 := by
  norm_num [piF, piFloat, abs_le]

/-- closeness of a number and of what its printed form denotes -/
def ScClose (s s' : Sc) : Prop :=
  s = s' ∨ ∃ q q', scRat s = some q ∧ s' = .flt q' ∧ |q - q'| ≤ 3 / 1000000 + |q| / 1000000000000000

/-- **`_factor_out_pi` prints a term that denotes its argument**, for every number: either the literal
itself, or `c*np.pi/d` whose value (with `np.pi` the float) is within `3e-6 + 1e-15·|q|` of the number -/
theorem genNum_close (s : Sc) : ScClose s (denSc s) := by
  unfold denSc genNum
  cases hq : scRat s with
  | none => exact Or.inl rfl
  | some q =>
    simp only
    cases hm : piMultiple q with
    | none => exact Or.inl rfl
    | some m =>
      refine Or.inr ⟨q, _, hq, rfl, ?_⟩
      obtain ⟨hcd, hd⟩ := piTerm_denotes m
      have hclose := piMultiple_close q m hm
      have hdq : (0 : Rat) < ((piTerm m).2 : Rat) := by exact_mod_cast hd
      have hcd' : ((piTerm m).1 : Rat) * 12 = (m : Rat) * ((piTerm m).2 : Rat) := by exact_mod_cast hcd
      have hval : ((piTerm m).1 : Rat) * piFloat / ((piTerm m).2 : Rat) = (m : Rat) * (piFloat / 12) := by
        rw [div_eq_iff (ne_of_gt hdq)]
        have : (m : Rat) * (piFloat / 12) * ((piTerm m).2 : Rat) = ((m : Rat) * ((piTerm m).2 : Rat)) * piFloat / 12 := by
          ring
        rw [this, ← hcd']; ring
      rw [hval]
      have hpp := piF_piFloat
      have hf := piF_pos
      have h1 : |q - (m : Rat) * (piFloat / 12)| ≤ |q - (m : Rat) * piF| + |(m : Rat)| * |piF - piFloat / 12| := by
        have : q - (m : Rat) * (piFloat / 12) = (q - (m : Rat) * piF) + (m : Rat) * (piF - piFloat / 12) := by ring
        rw [this]
        calc |q - ↑m * piF + ↑m * (piF - piFloat / 12)| ≤ |q - ↑m * piF| + |↑m * (piF - piFloat / 12)| := abs_add_le _ _
          _ = |q - ↑m * piF| + |(m : Rat)| * |piF - piFloat / 12| := by rw [abs_mul]
      have h2 : |(m : Rat)| * piF ≤ |q| + 27 / 10000000 := by
        have : |(m : Rat)| * piF = |(m : Rat) * piF| := by rw [abs_mul, abs_of_pos hf]
        rw [this]
        have : (m : Rat) * piF = q - (q - (m : Rat) * piF) := by ring
        rw [this]
        calc |q - (q - ↑m * piF)| ≤ |q| + |q - ↑m * piF| := abs_sub _ _
          _ ≤ |q| + 27 / 10000000 := by linarith
      have h3 : |(m : Rat)| * |piF - piFloat / 12| ≤ (|q| + 27 / 10000000) / 1000000000000000 := by
        have hm0 : 0 ≤ |(m : Rat)| := abs_nonneg _
        calc |(m : Rat)| * |piF - piFloat / 12| ≤ |(m : Rat)| * (piF / 1000000000000000) :=
              mul_le_mul_of_nonneg_left hpp hm0
          _ = |(m : Rat)| * piF / 1000000000000000 := by ring
          _ ≤ (|q| + 27 / 10000000) / 1000000000000000 := by
              apply div_le_div_of_nonneg_right h2 (by norm_num)
      have hq0 : 0 ≤ |q| := abs_nonneg _
      linarith

end SFV.Io
