import SFV.Model.Optimize
import SFV.Proofs.Circuit
import Mathlib.Algebra.Ring.Rat
import Mathlib.Tactic.Ring

/-! Lemmas for the optimiser model (K1 / C03). -/
set_option linter.unusedSimpArgs false
namespace SFV

/-! ### rows of a list -/

theorem mem_gridRow {l : List Cmd} {w : Nat} {c : Cmd} : c ∈ gridRow l w ↔ c ∈ l ∧ w ∈ c.wires := by
  simp [gridRow]

theorem gridRow_append (l₁ l₂ : List Cmd) (w : Nat) :
    gridRow (l₁ ++ l₂) w = gridRow l₁ w ++ gridRow l₂ w := by
  simp [gridRow]

theorem gridRow_cons_pos {c : Cmd} {w : Nat} (l : List Cmd) (h : w ∈ c.wires) :
    gridRow (c :: l) w = c :: gridRow l w := by
  simp [gridRow, h]

theorem gridRow_cons_neg {c : Cmd} {w : Nat} (l : List Cmd) (h : w ∉ c.wires) :
    gridRow (c :: l) w = gridRow l w := by
  simp [gridRow, h]

theorem gridRow_eq_nil {l : List Cmd} {w : Nat} (h : ∀ c ∈ l, w ∉ c.wires) : gridRow l w = [] := by
  simp only [gridRow, List.filter_eq_nil_iff]
  intro c hc
  simpa using h c hc

theorem gridRow_eq_self {l : List Cmd} {w : Nat} (h : ∀ c ∈ l, w ∈ c.wires) : gridRow l w = l := by
  simp only [gridRow, List.filter_eq_self]
  intro c hc
  simpa using h c hc

/-- two lists with the same grid are legal reorderings of each other: `out` is *any* list whose
rows coincide with the rows of `L` (what a topological sort of the wire DAG returns). -/
theorem sameRows_legal : ∀ (out L : List Cmd), (∀ c ∈ L, c.wires ≠ []) → (∀ c ∈ out, c.wires ≠ []) →
    (∀ w, gridRow out w = gridRow L w) → Legal L out := by
  intro out
  induction out with
  | nil =>
    intro L hL _ hrows
    cases L with
    | nil => exact Legal.nil
    | cons c L' =>
      exfalso
      obtain ⟨w, hw⟩ := List.exists_mem_of_ne_nil _ (hL c (by simp))
      have : c ∈ gridRow (c :: L') w := mem_gridRow.2 ⟨by simp, hw⟩
      rw [← hrows w] at this
      simp [gridRow] at this
  | cons h out ih =>
    intro L hL hout hrows
    obtain ⟨w0, hw0⟩ := List.exists_mem_of_ne_nil _ (hout h (by simp))
    have hmem : h ∈ L := by
      have : h ∈ gridRow (h :: out) w0 := mem_gridRow.2 ⟨by simp, hw0⟩
      rw [hrows w0] at this
      exact (mem_gridRow.1 this).1
    obtain ⟨pre, post, rfl, hpre⟩ := List.eq_append_cons_of_mem hmem
    -- on every wire of `h`, nothing of `pre` sits on that wire
    have hnil : ∀ w, w ∈ h.wires → gridRow pre w = [] := by
      intro w hw
      have e := hrows w
      rw [gridRow_cons_pos _ hw, gridRow_append, gridRow_cons_pos _ hw] at e
      cases hp : gridRow pre w with
      | nil => rfl
      | cons y ys =>
        exfalso
        rw [hp] at e
        simp only [List.cons_append, List.cons.injEq] at e
        have : y ∈ gridRow pre w := by rw [hp]; simp
        exact hpre (e.1 ▸ (mem_gridRow.1 this).1)
    refine Legal.cons h pre post out ?_ (ih (pre ++ post) ?_ ?_ ?_)
    · intro x hx hd
      obtain ⟨w, hwx, hwh⟩ := hd
      have : x ∈ gridRow pre w := mem_gridRow.2 ⟨hx, hwx⟩
      rw [hnil w hwh] at this
      simp at this
    · intro c hc
      refine hL c ?_
      rcases List.mem_append.1 hc with h1 | h1
      · exact List.mem_append_left _ h1
      · exact List.mem_append_right _ (List.mem_cons_of_mem _ h1)
    · intro c hc
      exact hout c (List.mem_cons_of_mem _ hc)
    · intro w
      have e := hrows w
      by_cases hw : w ∈ h.wires
      · rw [gridRow_cons_pos _ hw, gridRow_append, gridRow_cons_pos _ hw, hnil w hw] at e
        simp only [List.nil_append, List.cons.injEq, true_and] at e
        rw [gridRow_append, hnil w hw, e]
        simp
      · rw [gridRow_cons_neg _ hw, gridRow_append, gridRow_cons_neg _ hw] at e
        rw [gridRow_append, e]

/-! ### unfolding equations of the loop -/

theorem optLoop_zero (try_ : Cmd → Cmd → Step) (done rest : List Cmd) :
    optLoop try_ 0 done rest = done.reverse ++ rest := by
  cases rest with
  | nil => rfl
  | cons a r => cases r <;> rfl

theorem optLoop_nil (try_ : Cmd → Cmd → Step) (fuel : Nat) (done : List Cmd) :
    optLoop try_ fuel done [] = done.reverse ++ [] := by
  cases fuel <;> rfl

theorem optLoop_single (try_ : Cmd → Cmd → Step) (fuel : Nat) (done : List Cmd) (a : Cmd) :
    optLoop try_ fuel done [a] = done.reverse ++ [a] := by
  cases fuel <;> rfl

theorem optLoop_succ (try_ : Cmd → Cmd → Step) (fuel : Nat) (done rest : List Cmd) (a b : Cmd) :
    optLoop try_ (fuel + 1) done (a :: b :: rest) =
      match try_ a b with
      | .advance => optLoop try_ fuel (a :: done) (b :: rest)
      | .identity =>
        match done with
        | [] => optLoop try_ fuel [] rest
        | d :: done' => optLoop try_ fuel done' (d :: rest)
      | .merged m =>
        match done with
        | [] => optLoop try_ fuel [] (m :: rest)
        | d :: done' => optLoop try_ fuel done' (d :: m :: rest) := by
  rfl

/-! ### lifting one merge step from a row to the whole list -/

section Sim
variable {M : Type} [Monoid M]

theorem sem_singleton (f : Cmd → M) (c : Cmd) : sem f [c] = f c := by simp [sem]

/-- If on wire `w` the commands `a`, `b` are neighbours, both sit on wire `w` only, and `f a * f b` is
the meaning of `mid` (a list of commands on wire `w` only), then `a … b` can be replaced by `mid` in the
whole list: row `w` changes as in the loop, all other rows are untouched, the meaning is kept. -/
theorem lift_step (f : Cmd → M) (hcomm : ∀ a b, ¬ dep a b → f a * f b = f b * f a)
    {l : List Cmd} {w : Nat} {r1 r2 mid : List Cmd} {a b : Cmd}
    (hrow : gridRow l w = r1 ++ a :: b :: r2) (ha : a.wires = [w]) (hb : b.wires = [w])
    (hm : ∀ c ∈ mid, c.wires = [w]) (hsem : f a * f b = sem f mid) :
    ∃ l', gridRow l' w = r1 ++ mid ++ r2 ∧ (∀ v, v ≠ w → gridRow l' v = gridRow l v) ∧
      sem f l' = sem f l ∧ (∀ c ∈ l', c ∈ l ∨ c ∈ mid) := by
  unfold gridRow at hrow
  obtain ⟨l1, l2, rfl, h1, h2⟩ := List.filter_eq_append_iff.1 hrow
  obtain ⟨m1, l3, rfl, hm1, _, h3⟩ := List.filter_eq_cons_iff.1 h2
  obtain ⟨m2, l4, rfl, hm2, _, h4⟩ := List.filter_eq_cons_iff.1 h3
  have hm1' : ∀ c ∈ m1, w ∉ c.wires := fun c hc => by simpa using hm1 c hc
  have hm2' : ∀ c ∈ m2, w ∉ c.wires := fun c hc => by simpa using hm2 c hc
  have hmid : ∀ c ∈ mid, w ∈ c.wires := fun c hc => by rw [hm c hc]; simp
  refine ⟨l1 ++ (m1 ++ (mid ++ (m2 ++ l4))), ?_, ?_, ?_, ?_⟩
  · simp only [gridRow_append, gridRow_eq_nil hm1', gridRow_eq_nil hm2', gridRow_eq_self hmid]
    simp only [gridRow, h1, h4, List.nil_append, List.append_assoc]
  · intro v hv
    have hav : v ∉ a.wires := by rw [ha]; simpa using hv
    have hbv : v ∉ b.wires := by rw [hb]; simpa using hv
    have hmv : ∀ c ∈ mid, v ∉ c.wires := fun c hc => by rw [hm c hc]; simpa using hv
    simp only [gridRow_append, gridRow_cons_neg _ hav, gridRow_cons_neg _ hbv, gridRow_eq_nil hmv,
      List.nil_append]
  · have hind : ∀ x ∈ m2, ¬ dep x b := by
      intro x hx hd
      obtain ⟨v, hvx, hvb⟩ := hd
      rw [hb] at hvb
      simp at hvb
      subst hvb
      exact hm2' x hx hvx
    have hc := commute_block f hcomm b m2 hind
    simp only [sem_append, sem]
    rw [← hsem]
    simp only [mul_assoc]
    congr 3
    rw [← mul_assoc (sem f m2), hc, mul_assoc]
  · intro c hc
    simp only [List.mem_append, List.mem_cons] at hc ⊢
    tauto

/-- soundness of a loop body w.r.t. an interpretation `f` and an invariant `P` of commands -/
structure TryOK (f : Cmd → M) (P : Cmd → Prop) (try_ : Cmd → Cmd → Step) : Prop where
  ident : ∀ a b, P a → P b → try_ a b = .identity →
    ∃ w, a.wires = [w] ∧ b.wires = [w] ∧ f a * f b = 1
  merged : ∀ a b m, P a → P b → try_ a b = .merged m →
    ∃ w, a.wires = [w] ∧ b.wires = [w] ∧ m.wires = [w] ∧ P m ∧ f a * f b = f m

theorem single_wire_eq {c : Cmd} {w v : Nat} (h : c.wires = [v]) (hw : w ∈ c.wires) : v = w := by
  rw [h] at hw
  simp at hw
  exact hw.symm

/-- the loop on wire `w`, started in any position, is simulated on the whole list -/
theorem optLoop_sim (f : Cmd → M) (hcomm : ∀ a b, ¬ dep a b → f a * f b = f b * f a)
    (P : Cmd → Prop) (try_ : Cmd → Cmd → Step) (hok : TryOK f P try_) (w : Nat) :
    ∀ (fuel : Nat) (done rest l : List Cmd), (∀ c ∈ l, P c) → gridRow l w = done.reverse ++ rest →
      ∃ l', gridRow l' w = optLoop try_ fuel done rest ∧ (∀ v, v ≠ w → gridRow l' v = gridRow l v) ∧
        sem f l' = sem f l ∧ (∀ c ∈ l', P c) := by
  intro fuel
  induction fuel with
  | zero =>
    intro done rest l hP hrow
    exact ⟨l, by simpa [optLoop_zero, optLoop_nil, optLoop_single] using hrow, fun _ _ => rfl, rfl, hP⟩
  | succ fuel ih =>
    intro done rest l hP hrow
    match rest, hrow with
    | [], hrow => exact ⟨l, by simpa [optLoop_zero, optLoop_nil, optLoop_single] using hrow, fun _ _ => rfl, rfl, hP⟩
    | [a], hrow => exact ⟨l, by simpa [optLoop_zero, optLoop_nil, optLoop_single] using hrow, fun _ _ => rfl, rfl, hP⟩
    | a :: b :: rest, hrow =>
      have hain : a ∈ gridRow l w := by rw [hrow]; simp
      have hbin : b ∈ gridRow l w := by rw [hrow]; simp
      have hPa := hP a (mem_gridRow.1 hain).1
      have hPb := hP b (mem_gridRow.1 hbin).1
      rw [optLoop_succ]
      cases ht : try_ a b with
      | advance =>
        simp only
        exact ih (a :: done) (b :: rest) l hP (by simpa using hrow)
      | identity =>
        obtain ⟨v, hav, hbv, hsem⟩ := hok.ident a b hPa hPb ht
        have hv : v = w := single_wire_eq hav (mem_gridRow.1 hain).2
        subst hv
        obtain ⟨l', e1, e2, e3, e4⟩ := lift_step f hcomm (mid := []) hrow hav hbv (by simp)
          (by simpa [sem] using hsem)
        have hP' : ∀ c ∈ l', P c := fun c hc => by
          rcases e4 c hc with h | h
          · exact hP c h
          · simp at h
        cases done with
        | nil =>
          simp only
          obtain ⟨l'', g1, g2, g3, g4⟩ := ih [] rest l' hP' (by simpa using e1)
          exact ⟨l'', g1, fun u hu => (g2 u hu).trans (e2 u hu), g3.trans e3, g4⟩
        | cons d done' =>
          simp only
          obtain ⟨l'', g1, g2, g3, g4⟩ := ih done' (d :: rest) l' hP' (by simpa using e1)
          exact ⟨l'', g1, fun u hu => (g2 u hu).trans (e2 u hu), g3.trans e3, g4⟩
      | merged m =>
        obtain ⟨v, hav, hbv, hmv, hPm, hsem⟩ := hok.merged a b m hPa hPb ht
        have hv : v = w := single_wire_eq hav (mem_gridRow.1 hain).2
        subst hv
        obtain ⟨l', e1, e2, e3, e4⟩ := lift_step f hcomm (mid := [m]) hrow hav hbv
          (by simpa using hmv) (by simpa [sem] using hsem)
        have hP' : ∀ c ∈ l', P c := fun c hc => by
          rcases e4 c hc with h | h
          · exact hP c h
          · simp at h; subst h; exact hPm
        cases done with
        | nil =>
          simp only
          obtain ⟨l'', g1, g2, g3, g4⟩ := ih [] (m :: rest) l' hP' (by simpa using e1)
          exact ⟨l'', g1, fun u hu => (g2 u hu).trans (e2 u hu), g3.trans e3, g4⟩
        | cons d done' =>
          simp only
          obtain ⟨l'', g1, g2, g3, g4⟩ := ih done' (d :: m :: rest) l' hP' (by simpa using e1)
          exact ⟨l'', g1, fun u hu => (g2 u hu).trans (e2 u hu), g3.trans e3, g4⟩

/-- the loop on one wire with the fuel the model uses -/
def optRowG (try_ : Cmd → Cmd → Step) (row : List Cmd) : List Cmd :=
  optLoop try_ (optFuel row.length) [] row

theorem optRowG_nil (try_ : Cmd → Cmd → Step) : optRowG try_ [] = [] := by
  simp [optRowG, optLoop_nil]

/-- wires `0 … n-1` processed one after the other -/
theorem optWires_sim (f : Cmd → M) (hcomm : ∀ a b, ¬ dep a b → f a * f b = f b * f a)
    (P : Cmd → Prop) (try_ : Cmd → Cmd → Step) (hok : TryOK f P try_) (l : List Cmd)
    (hP : ∀ c ∈ l, P c) :
    ∀ n : Nat, ∃ L, (∀ w, w < n → gridRow L w = optRowG try_ (gridRow l w)) ∧
      (∀ w, n ≤ w → gridRow L w = gridRow l w) ∧ sem f L = sem f l ∧ (∀ c ∈ L, P c) := by
  intro n
  induction n with
  | zero => exact ⟨l, fun _ h => absurd h (Nat.not_lt_zero _), fun _ _ => rfl, rfl, hP⟩
  | succ n ih =>
    obtain ⟨L, h1, h2, h3, h4⟩ := ih
    obtain ⟨L', g1, g2, g3, g4⟩ := optLoop_sim f hcomm P try_ hok n
      (optFuel (gridRow l n).length) [] (gridRow l n) L h4 (by simpa using h2 n (Nat.le_refl n))
    refine ⟨L', ?_, ?_, g3.trans h3, g4⟩
    · intro w hw
      by_cases hwn : w = n
      · subst hwn; exact g1
      · rw [g2 w hwn]; exact h1 w (by omega)
    · intro w hw
      rw [g2 w (by omega)]; exact h2 w (by omega)

theorem exists_wire_bound (l : List Cmd) : ∃ n, ∀ c ∈ l, ∀ w ∈ c.wires, w < n := by
  have hb : ∀ ws : List Nat, ∃ n, ∀ w ∈ ws, w < n := by
    intro ws
    induction ws with
    | nil => exact ⟨0, by simp⟩
    | cons x xs ih =>
      obtain ⟨n, hn⟩ := ih
      refine ⟨max n (x + 1), ?_⟩
      intro w hw
      rcases List.mem_cons.1 hw with rfl | hw
      · omega
      · have := hn w hw; omega
  obtain ⟨n, hn⟩ := hb (l.flatMap Cmd.wires)
  exact ⟨n, fun c hc w hw => hn w (List.mem_flatMap.2 ⟨c, hc, hw⟩)⟩

/-- the optimised grid is the grid of a list with the same meaning -/
theorem optGrid_linearisable (f : Cmd → M) (hcomm : ∀ a b, ¬ dep a b → f a * f b = f b * f a)
    (P : Cmd → Prop) (try_ : Cmd → Cmd → Step) (hok : TryOK f P try_) (l : List Cmd)
    (hP : ∀ c ∈ l, P c) :
    ∃ L, (∀ w, gridRow L w = optRowG try_ (gridRow l w)) ∧ sem f L = sem f l ∧ (∀ c ∈ L, P c) := by
  obtain ⟨n, hn⟩ := exists_wire_bound l
  obtain ⟨L, h1, h2, h3, h4⟩ := optWires_sim f hcomm P try_ hok l hP n
  refine ⟨L, ?_, h3, h4⟩
  intro w
  by_cases hw : w < n
  · exact h1 w hw
  · have : gridRow l w = [] := gridRow_eq_nil (fun c hc hwc => hw (hn c hc w hwc))
    rw [h2 w (by omega), this, optRowG_nil]

/-- **every** list whose grid is the optimised grid has the meaning of the input -/
theorem optGrid_sem (f : Cmd → M) (hcomm : ∀ a b, ¬ dep a b → f a * f b = f b * f a)
    (P : Cmd → Prop) (hPw : ∀ c, P c → c.wires ≠ []) (try_ : Cmd → Cmd → Step) (hok : TryOK f P try_)
    (l out : List Cmd) (hP : ∀ c ∈ l, P c) (hout : ∀ c ∈ out, c.wires ≠ [])
    (hrows : ∀ w, gridRow out w = optRowG try_ (gridRow l w)) : sem f out = sem f l := by
  obtain ⟨L, h1, h2, h3⟩ := optGrid_linearisable f hcomm P try_ hok l hP
  have hleg : Legal L out := sameRows_legal out L (fun c hc => hPw c (h3 c hc)) hout
    (fun w => (hrows w).trans (h1 w).symm)
  exact (legal_sem f hcomm hleg).trans h2

end Sim

/-! ### termination: the fuel is never exhausted -/

theorem optLoop_fuel (try_ : Cmd → Cmd → Step) : ∀ (fuel : Nat) (done rest : List Cmd),
    2 * rest.length + done.length ≤ fuel →
    optLoop try_ (fuel + 1) done rest = optLoop try_ fuel done rest := by
  intro fuel
  induction fuel with
  | zero =>
    intro done rest h
    have hr : rest = [] := List.eq_nil_of_length_eq_zero (by omega)
    subst hr
    simp [optLoop_zero, optLoop_nil, optLoop_single]
  | succ fuel ih =>
    intro done rest h
    match rest, h with
    | [], _ => simp [optLoop_zero, optLoop_nil, optLoop_single]
    | [a], _ => simp [optLoop_zero, optLoop_nil, optLoop_single]
    | a :: b :: rest, h =>
      simp only [List.length_cons] at h
      rw [optLoop_succ, optLoop_succ]
      cases try_ a b with
      | advance => simp only; exact ih _ _ (by simp only [List.length_cons]; omega)
      | identity =>
        cases done with
        | nil => simp only; exact ih _ _ (by simp only [List.length_nil]; omega)
        | cons d done' =>
          simp only [List.length_cons] at h ⊢
          exact ih _ _ (by simp only [List.length_cons]; omega)
      | merged m =>
        cases done with
        | nil => simp only; exact ih _ _ (by simp only [List.length_cons, List.length_nil]; omega)
        | cons d done' =>
          simp only [List.length_cons] at h ⊢
          exact ih _ _ (by simp only [List.length_cons]; omega)

theorem optLoop_fuel_add (try_ : Cmd → Cmd → Step) (row : List Cmd) (k : Nat) :
    optLoop try_ (optFuel row.length + k) [] row = optLoop try_ (optFuel row.length) [] row := by
  induction k with
  | zero => rfl
  | succ k ih =>
    rw [← ih, ← Nat.add_assoc]
    exact optLoop_fuel try_ _ [] row (by simp [optFuel]; omega)

/-! ### frame: the loop only drops commands or inserts new ones -/

theorem optLoop_frame (try_ : Cmd → Cmd → Step) (Q : Cmd → Prop)
    (hQ : ∀ a b m, try_ a b = .merged m → Q m) :
    ∀ (fuel : Nat) (done rest : List Cmd), ∀ c ∈ optLoop try_ fuel done rest,
      c ∈ done ∨ c ∈ rest ∨ Q c := by
  intro fuel
  induction fuel with
  | zero =>
    intro done rest c hc
    simp [optLoop_zero, optLoop_nil, optLoop_single] at hc
    tauto
  | succ fuel ih =>
    intro done rest c hc
    match rest, hc with
    | [], hc => simp [optLoop_zero, optLoop_nil, optLoop_single] at hc; tauto
    | [a], hc => simp [optLoop_zero, optLoop_nil, optLoop_single] at hc; simp only [List.mem_singleton]; tauto
    | a :: b :: rest, hc =>
      rw [optLoop_succ] at hc
      cases ht : try_ a b with
      | advance =>
        rw [ht] at hc
        have := ih _ _ c hc
        simp only [List.mem_cons] at this ⊢
        tauto
      | identity =>
        rw [ht] at hc
        cases done with
        | nil =>
          have := ih _ _ c hc
          simp only [List.mem_cons] at this ⊢
          tauto
        | cons d done' =>
          have := ih _ _ c hc
          simp only [List.mem_cons] at this ⊢
          tauto
      | merged m =>
        rw [ht] at hc
        have hm := hQ a b m ht
        cases done with
        | nil =>
          have := ih _ _ c hc
          simp only [List.mem_cons] at this ⊢
          rcases this with h | h | h
          · tauto
          · rcases h with rfl | h
            · exact Or.inr (Or.inr hm)
            · tauto
          · tauto
        | cons d done' =>
          have := ih _ _ c hc
          simp only [List.mem_cons] at this ⊢
          rcases this with h | h | h
          · tauto
          · rcases h with rfl | rfl | h
            · tauto
            · exact Or.inr (Or.inr hm)
            · tauto
          · tauto

theorem optLoop_length_le (try_ : Cmd → Cmd → Step) :
    ∀ (fuel : Nat) (done rest : List Cmd),
      (optLoop try_ fuel done rest).length ≤ done.length + rest.length := by
  intro fuel
  induction fuel with
  | zero => intro done rest; simp [optLoop_zero, optLoop_nil, optLoop_single]
  | succ fuel ih =>
    intro done rest
    match rest with
    | [] => simp [optLoop_zero, optLoop_nil, optLoop_single]
    | [a] => simp [optLoop_zero, optLoop_nil, optLoop_single]
    | a :: b :: rest =>
      rw [optLoop_succ]
      cases try_ a b with
      | advance => have := ih (a :: done) (b :: rest); simp only [List.length_cons] at this ⊢; omega
      | identity =>
        cases done with
        | nil => have := ih [] rest; simp only [List.length_cons, List.length_nil] at this ⊢; omega
        | cons d done' =>
          have := ih done' (d :: rest); simp only [List.length_cons] at this ⊢; omega
      | merged m =>
        cases done with
        | nil => have := ih [] (m :: rest); simp only [List.length_cons, List.length_nil] at this ⊢; omega
        | cons d done' =>
          have := ih done' (d :: m :: rest); simp only [List.length_cons] at this ⊢; omega

end SFV

/-! ### lawful interpretations: the family laws imply that the loop body is sound -/
namespace SFV

/-- sign of the first parameter: the `dagger` flag negates it -/
def sg (d : Bool) : Rat := if d then -1 else 1

theorem Par.val_neg (θ : Nat → Rat) (p : Par) : p.neg.val θ = - p.val θ := by
  cases p <;> simp [Par.neg, Par.val]

theorem Par.val_add (θ : Nat → Rat) : ∀ {p q r : Par}, Par.add p q = some r →
    r.val θ = p.val θ + q.val θ
  | .num x, .num y, r, h => by
    simp only [Par.add, Option.some.injEq] at h
    subst h
    simp [Par.val]
  | .meas m k, .meas m' k', r, h => by
    simp only [Par.add] at h
    split at h
    · rename_i hm
      subst hm
      split at h
      · rename_i hk
        simp only [Option.some.injEq] at h
        subst h
        simp only [Par.val]
        rw [← add_mul, hk, zero_mul]
      · simp only [Option.some.injEq] at h
        subst h
        simp only [Par.val]
        ring
    · cases h
  | .num _, .meas _ _, r, h => by simp [Par.add] at h
  | .meas _ _, .num _, r, h => by simp [Par.add] at h

theorem signed_sum (θ : Nat → Rat) (da db : Bool) (pa pb p0 : Par)
    (h : Par.add pa (if da = db then pb else pb.neg) = some p0) :
    sg da * p0.val θ = sg da * pa.val θ + sg db * pb.val θ := by
  rw [Par.val_add θ h]
  cases da <;> cases db <;> simp [sg, Par.val_neg] <;> ring

theorem parsNums_map_num (U : List Rat) : parsNums (U.map Par.num) = some U := by
  induction U with
  | nil => rfl
  | cons x xs ih => simp [parsNums, ih]

/-- A **lawful interpretation** of commands in a monoid `M`: what the merge rules assume about the
meaning of the operation families.  `sem f [a, b] = f a * f b` is "`a` first, then `b`".
The laws are required for commands whose target list satisfies `dom`: the optimiser only ever
merges single-target commands, so `optimize_sem` takes `dom = fun r => r.length = 1` and assumes
nothing about multi-mode families; `merge_sound_partial` (direct calls of `merge`) takes any `dom`. -/
structure Lawful {M : Type} [Monoid M] (dom : List Nat → Prop) (f : Cmd → M) where
  /-- values of the symbols (measured / free parameters) -/
  θ : Nat → Rat
  /-- gate families: class, targets, remaining parameters ↦ one-parameter group -/
  G : String → List Nat → List Par → Rat → M
  /-- channel families -/
  C : String → List Nat → List Par → Rat → M
  /-- matrix-parametrised families -/
  D : String → List Nat → List Rat → M
  /-- the meaning does not depend on the identity of the `Command` object -/
  f_id : ∀ (c : Cmd) (i : Nat), f { c with id := i } = f c
  /-- a gate is its family at the first parameter, negated when `dagger` is set -/
  gate_f : ∀ (c : Cmd) (p : Par) (t : List Par), dom c.regs → ruleOf c.cls = .gate →
    c.cls ∉ knownUnlawful → c.pars = p :: t → f c = G c.cls c.regs t (sg c.dagger * p.val θ)
  gate_add : ∀ k r t x y, dom r → G k r t (x + y) = G k r t x * G k r t y
  gate_zero : ∀ k r t, dom r → G k r t 0 = 1
  chan_f : ∀ (c : Cmd) (x : Rat) (t : List Par), dom c.regs → ruleOf c.cls = .channel →
    c.pars = .num x :: t → f c = C c.cls c.regs t x
  /-- channels are multiplicative in the first parameter -/
  chan_mul : ∀ k r t x y, dom r → C k r t (y * x) = C k r t x * C k r t y
  chan_one : ∀ k r t, dom r → C k r t 1 = 1
  mat_f : ∀ (c : Cmd) (A : List Rat), dom c.regs → ruleOf c.cls = .matrix →
    parsNums c.pars = some A → f c = D c.cls c.regs A
  /-- first `A`, then `B` is the matrix product `B @ A` -/
  mat_mul : ∀ k r (A B : List Rat), dom r → A.length = B.length →
    D k r (matMul (Nat.sqrt A.length) B A) = D k r A * D k r B
  mat_one : ∀ k r n, dom r → D k r (identMat n) = 1
  /-- a preparation absorbs a preparation that precedes it on the same targets -/
  prep_absorb : ∀ a b : Cmd, dom a.regs → ruleOf a.cls = .prep → ruleOf b.cls = .prep →
    a.regs = b.regs → a.deps = [] → b.deps = [] → f a * f b = f b
  /-- a Fourier gate followed by its inverse is the identity -/
  fourier_inv : ∀ a b : Cmd, dom a.regs → ruleOf a.cls = .fourier → a.cls = b.cls →
    a.regs = b.regs → a.dagger ≠ b.dagger → f a * f b = 1

section LawfulProofs
variable {M : Type} [Monoid M] {f : Cmd → M} {dom : List Nat → Prop}

/-- laws on a larger domain give laws on a smaller one -/
def Lawful.mono {dom' : List Nat → Prop} (L : Lawful dom f) (h : ∀ r, dom' r → dom r) : Lawful dom' f where
  θ := L.θ
  G := L.G
  C := L.C
  D := L.D
  f_id := L.f_id
  gate_f := fun c p t hd => L.gate_f c p t (h _ hd)
  gate_add := fun k r t x y hd => L.gate_add k r t x y (h _ hd)
  gate_zero := fun k r t hd => L.gate_zero k r t (h _ hd)
  chan_f := fun c x t hd => L.chan_f c x t (h _ hd)
  chan_mul := fun k r t x y hd => L.chan_mul k r t x y (h _ hd)
  chan_one := fun k r t hd => L.chan_one k r t (h _ hd)
  mat_f := fun c A hd => L.mat_f c A (h _ hd)
  mat_mul := fun k r A B hd => L.mat_mul k r A B (h _ hd)
  mat_one := fun k r n hd => L.mat_one k r n (h _ hd)
  prep_absorb := fun a b hd => L.prep_absorb a b (h _ hd)
  fourier_inv := fun a b hd => L.fourier_inv a b (h _ hd)

/-- what a sound `merge` result has to satisfy -/
def MergeSound (f : Cmd → M) (a b : Cmd) (r : MergeRes) : Prop :=
  (r = .identity → f a * f b = 1) ∧
  (∀ op, r = .merged op → op.deps = [] ∧ ∀ i, f a * f b = f { op with id := i, regs := a.regs })

theorem gateMerge_sound (L : Lawful dom f) (a b : Cmd) (hdom : dom a.regs) (hr : a.regs = b.regs) (hda : a.deps = [])
    (hrule : ruleOf a.cls = .gate) (hK : a.cls ∉ knownUnlawful) : MergeSound f a b (gateMerge a b) := by
  unfold gateMerge
  split
  · exact ⟨by simp, by simp⟩
  · rename_i hcls
    simp only [ne_eq, not_not] at hcls
    split
    · rename_i pa ta pb tb hpa hpb
      split
      · rename_i htt
        subst htt
        have hfa := L.gate_f a pa ta hdom hrule hK hpa
        have hfb := L.gate_f b pb ta (hr ▸ hdom) (hcls ▸ hrule) (hcls ▸ hK) hpb
        rw [← hcls, ← hr] at hfb
        split
        · rename_i p0 hadd
          have hs := signed_sum L.θ a.dagger b.dagger pa pb p0 hadd
          split
          · rename_i h0
            subst h0
            refine ⟨fun _ => ?_, by simp⟩
            rw [hfa, hfb, ← L.gate_add _ _ _ _ _ hdom, ← hs]
            simp [Par.val, L.gate_zero _ _ _ hdom]
          · refine ⟨by simp, ?_⟩
            intro op hop
            simp only [MergeRes.merged.injEq] at hop
            subst hop
            refine ⟨hda, fun i => ?_⟩
            rw [L.gate_f { a with pars := p0 :: ta, id := i, regs := a.regs } p0 ta hdom hrule hK rfl]
            rw [hfa, hfb, ← L.gate_add _ _ _ _ _ hdom, ← hs]
        · exact ⟨by simp, by simp⟩
      · exact ⟨by simp, by simp⟩
    · exact ⟨by simp, by simp⟩

theorem channelMerge_sound (L : Lawful dom f) (a b : Cmd) (hdom : dom a.regs) (hr : a.regs = b.regs) (hda : a.deps = [])
    (hrule : ruleOf a.cls = .channel) : MergeSound f a b (channelMerge a b) := by
  unfold channelMerge
  split
  · exact ⟨by simp, by simp⟩
  · rename_i hcls
    simp only [ne_eq, not_not] at hcls
    split
    · rename_i x ta y tb hpa hpb
      split
      · rename_i htt
        subst htt
        have hfa := L.chan_f a x ta hdom hrule hpa
        have hfb := L.chan_f b y ta (hr ▸ hdom) (hcls ▸ hrule) hpb
        rw [← hcls, ← hr] at hfb
        split
        · rename_i h1
          refine ⟨fun _ => ?_, by simp⟩
          rw [hfa, hfb, ← L.chan_mul _ _ _ _ _ hdom, h1, L.chan_one _ _ _ hdom]
        · refine ⟨by simp, ?_⟩
          intro op hop
          simp only [MergeRes.merged.injEq] at hop
          subst hop
          refine ⟨hda, fun i => ?_⟩
          rw [L.chan_f { a with pars := .num (y * x) :: ta, id := i, regs := a.regs } (y * x) ta hdom hrule rfl]
          rw [hfa, hfb, ← L.chan_mul _ _ _ _ _ hdom]
      · exact ⟨by simp, by simp⟩
    · exact ⟨by simp, by simp⟩

theorem mat_f' (L : Lawful dom f) (a : Cmd) (U : List Rat) (i : Nat) (hdom : dom a.regs)
    (hrule : ruleOf a.cls = .matrix) :
    f { a with pars := U.map Par.num, id := i, regs := a.regs } = L.D a.cls a.regs U :=
  L.mat_f _ U hdom hrule (parsNums_map_num U)

theorem matrixMerge_sound (L : Lawful dom f) (a b : Cmd) (hdom : dom a.regs) (hr : a.regs = b.regs) (hda : a.deps = [])
    (hrule : ruleOf a.cls = .matrix) : MergeSound f a b (matrixMerge a b) := by
  unfold matrixMerge
  split
  · exact ⟨by simp, by simp⟩
  · rename_i hcls
    simp only [ne_eq, not_not] at hcls
    split
    · rename_i A B hA hB
      have hfa := L.mat_f a A hdom hrule hA
      have hfb := L.mat_f b B (hr ▸ hdom) (hcls ▸ hrule) hB
      rw [← hcls, ← hr] at hfb
      split
      · exact ⟨by simp, by simp⟩
      · rename_i hlen
        simp only [ne_eq, not_not] at hlen
        simp only
        split
        · rename_i hU
          refine ⟨fun _ => ?_, by simp⟩
          rw [hfa, hfb, ← L.mat_mul _ _ A B hdom hlen, hU, L.mat_one _ _ _ hdom]
        · refine ⟨by simp, ?_⟩
          intro op hop
          simp only [MergeRes.merged.injEq] at hop
          subst hop
          refine ⟨hda, fun i => ?_⟩
          rw [mat_f' L a _ i hdom hrule]
          rw [hfa, hfb, ← L.mat_mul _ _ A B hdom hlen]
    · exact ⟨by simp, by simp⟩

theorem prepMerge_sound (L : Lawful dom f) (a b : Cmd) (hdom : dom a.regs) (hr : a.regs = b.regs) (hda : a.deps = [])
    (hdb : b.deps = []) (hrule : ruleOf a.cls = .prep) : MergeSound f a b (prepMerge a b) := by
  unfold prepMerge
  split
  · rename_i hb
    refine ⟨by simp, ?_⟩
    intro op hop
    simp only [MergeRes.merged.injEq] at hop
    subst hop
    refine ⟨hdb, fun i => ?_⟩
    have : ({ b with id := i, regs := a.regs } : Cmd) = { b with id := i } := by rw [hr]
    rw [this, L.f_id b i]
    exact L.prep_absorb a b hdom hrule hb hr hda hdb
  · exact ⟨by simp, by simp⟩

theorem fourierMerge_sound (L : Lawful dom f) (a b : Cmd) (hdom : dom a.regs) (hr : a.regs = b.regs)
    (hrule : ruleOf a.cls = .fourier) : MergeSound f a b (fourierMerge a b) := by
  unfold fourierMerge
  split
  · exact ⟨by simp, by simp⟩
  · rename_i hcls
    simp only [ne_eq, not_not] at hcls
    split
    · rename_i hd
      exact ⟨fun _ => L.fourier_inv a b hdom hrule hcls hr hd, by simp⟩
    · exact ⟨by simp, by simp⟩

/-- every merge rule is sound for a lawful interpretation -/
theorem opMerge_sound (L : Lawful dom f) (a b : Cmd) (hdom : dom a.regs) (hr : a.regs = b.regs) (hda : a.deps = [])
    (hdb : b.deps = []) (hK : a.cls ∉ knownUnlawful) : MergeSound f a b (opMerge a b) := by
  unfold opMerge
  cases hrule : ruleOf a.cls with
  | gate => exact gateMerge_sound L a b hdom hr hda hrule hK
  | channel => exact channelMerge_sound L a b hdom hr hda hrule
  | matrix => exact matrixMerge_sound L a b hdom hr hda hrule
  | prep => exact prepMerge_sound L a b hdom hr hda hdb hrule
  | fourier => exact fourierMerge_sound L a b hdom hr hrule
  | never => exact ⟨by simp, by simp⟩

/-- well-formedness of a command: an operation with `ns = 1` has exactly one target (enforced by
`Operation.__or__`), and every command touches at least one subsystem -/
def WFc (c : Cmd) : Prop := (nsOf c = some 1 → c.regs.length = 1) ∧ c.wires ≠ []

instance (c : Cmd) : Decidable (WFc c) := by unfold WFc; exact inferInstance

/-- the classes with an unlawful inherited rule are out of reach of the optimiser: `ns ≠ 1` -/
theorem ns1_not_knownUnlawful {c : Cmd} (h : nsOf c = some 1) : c.cls ∉ knownUnlawful := by
  intro hmem
  simp only [knownUnlawful, List.mem_singleton] at hmem
  have e : classInfo "MZgate" = some (.gate, .fixed 2) := by decide
  simp [nsOf, hmem, e] at h

theorem single_wire {c : Cmd} (hP : WFc c) (hns : nsOf c = some 1) (hd : c.deps = []) :
    ∃ w, c.regs = [w] ∧ c.wires = [w] := by
  obtain ⟨w, hw⟩ := List.length_eq_one_iff.1 (hP.1 hns)
  exact ⟨w, hw, by simp [Cmd.wires, hw, hd]⟩

/-- the body of the loop of `optimize_circuit` is sound for every lawful interpretation -/
theorem tryMerge_ok (L : Lawful (fun r => r.length = 1) f) (B : Nat) : TryOK f WFc (tryMerge B) := by
  have key : ∀ a b, WFc a → WFc b → ∀ s, tryMerge B a b = s → s ≠ .advance →
      ∃ w, a.regs = [w] ∧ a.wires = [w] ∧ b.wires = [w] ∧ MergeSound f a b (opMerge a b) ∧
        ((s = .identity ∧ opMerge a b = .identity) ∨
         (∃ op, opMerge a b = .merged op ∧ s = .merged { op with id := a.id + B, regs := a.regs })) := by
    intro a b hPa hPb s hs hne
    unfold tryMerge at hs
    split at hs
    · rename_i h1
      split at hs
      · exact absurd hs.symm hne
      · rename_i h2
        simp only [not_or, ne_eq, not_not] at h2
        obtain ⟨hns, hda, hdb⟩ := h2
        obtain ⟨w, hrw, hww⟩ := single_wire hPa hns hda
        obtain ⟨w', hrw', hww'⟩ := single_wire hPb (h1.1 ▸ hns) hdb
        have : w' = w := by
          have := h1.2; rw [hrw, hrw'] at this; simpa using this.symm
        subst this
        refine ⟨w', hrw, hww, hww', opMerge_sound L a b (by rw [hrw]; rfl) h1.2 hda hdb (ns1_not_knownUnlawful hns), ?_⟩
        cases hm : opMerge a b with
        | fail => rw [hm] at hs; exact absurd hs.symm hne
        | identity => rw [hm] at hs; exact Or.inl ⟨hs.symm, rfl⟩
        | merged op => rw [hm] at hs; exact Or.inr ⟨op, rfl, hs.symm⟩
    · exact absurd hs.symm hne
  constructor
  · intro a b hPa hPb ht
    obtain ⟨w, _, hww, hwb, hsound, h⟩ := key a b hPa hPb _ ht (by simp)
    refine ⟨w, hww, hwb, ?_⟩
    rcases h with ⟨_, hm⟩ | ⟨op, _, hs⟩
    · exact hsound.1 hm
    · cases hs
  · intro a b m hPa hPb ht
    obtain ⟨w, hrw, hww, hwb, hsound, h⟩ := key a b hPa hPb _ ht (by simp)
    rcases h with ⟨hs, _⟩ | ⟨op, hm, hs⟩
    · cases hs
    · simp only [Step.merged.injEq] at hs
      obtain ⟨hdeps, hf⟩ := hsound.2 op hm
      have hmw : m.wires = [w] := by
        subst hs
        simp [Cmd.wires, hrw, hdeps]
      refine ⟨w, hww, hwb, hmw, ⟨?_, by rw [hmw]; simp⟩, ?_⟩
      · intro _
        subst hs
        simp [hrw]
      · rw [hs]; exact hf _

end LawfulProofs
end SFV

/-! ### the executable output checker, identities of new commands -/
namespace SFV

theorem gridRow_of_not_mem_allWires {l : List Cmd} {w : Nat} (h : w ∉ allWires l) : gridRow l w = [] :=
  gridRow_eq_nil (fun c hc hw => h (by
    unfold allWires
    rw [mem_sortDedup, List.mem_flatMap]
    exact ⟨c, hc, hw⟩))

theorem optRow_nil (B : Nat) : optRow B [] = [] := by
  simp [optRow, optLoop_nil]

theorem isOptOutput_sound {B : Nat} {l out : List Cmd} (h : isOptOutput B l out = true) :
    (∀ c ∈ out, c.wires ≠ []) ∧ ∀ w, gridRow out w = optRow B (gridRow l w) := by
  unfold isOptOutput at h
  simp only [Bool.and_eq_true, List.all_eq_true, beq_iff_eq] at h
  obtain ⟨h1, h2⟩ := h
  constructor
  · intro c hc hw
    have := h1 c hc
    simp [hw] at this
  · intro w
    by_cases hw : w ∈ allWires l ++ allWires out
    · exact h2 w hw
    · have hw' : w ∉ allWires l ∧ w ∉ allWires out := by
        simpa [List.mem_append, not_or] using hw
      rw [gridRow_of_not_mem_allWires hw'.1, gridRow_of_not_mem_allWires hw'.2, optRow_nil]

theorem tryMerge_new_id {B : Nat} {a b m : Cmd} (h : tryMerge B a b = .merged m) : B ≤ m.id := by
  unfold tryMerge at h
  split at h
  · split at h
    · cases h
    · split at h
      · cases h
      · cases h
      · simp only [Step.merged.injEq] at h
        subst h
        simp
  · cases h

end SFV

/-! ### completeness: the optimised row is a fixpoint — no two neighbours can be merged any more -/
namespace SFV

/-- neighbours `a`, `b` on a wire are left alone by the loop body -/
def Stuck (try_ : Cmd → Cmd → Step) (a b : Cmd) : Prop := try_ a b = .advance

/-- the zipper `(done, rest)` read as a list is a chain if `done` is one (backwards), `rest` is one, and
the two ends are linked -/
theorem zipper_chain (R : Cmd → Cmd → Prop) : ∀ (done rest : List Cmd),
    List.IsChain (flip R) done → List.IsChain R rest →
    (∀ d ∈ done.head?, ∀ a ∈ rest.head?, R d a) → List.IsChain R (done.reverse ++ rest) := by
  intro done
  induction done with
  | nil => intro rest _ h _; simpa using h
  | cons d ds ih =>
    intro rest hd hr hl
    have e : (d :: ds).reverse ++ rest = ds.reverse ++ (d :: rest) := by simp
    rw [e]
    refine ih (d :: rest) ?_ ?_ ?_
    · cases ds with
      | nil => exact List.IsChain.nil
      | cons e es => exact (List.isChain_cons_cons.1 hd).2
    · cases rest with
      | nil => exact List.IsChain.singleton d
      | cons a as => exact List.IsChain.cons_cons (hl d (by simp) a (by simp)) hr
    · intro x hx a ha
      simp only [List.head?_cons, Option.mem_def, Option.some.injEq] at ha
      subst ha
      cases ds with
      | nil => simp at hx
      | cons e es =>
        simp only [List.head?_cons, Option.mem_def, Option.some.injEq] at hx
        subst hx
        exact (List.isChain_cons_cons.1 hd).1

theorem chain_flip_cons (R : Cmd → Cmd → Prop) {a : Cmd} {done : List Cmd}
    (hd : List.IsChain (flip R) done) (hl : ∀ d ∈ done.head?, R d a) : List.IsChain (flip R) (a :: done) := by
  cases done with
  | nil => exact List.IsChain.singleton a
  | cons d ds => exact List.IsChain.cons_cons (hl d (by simp)) hd

theorem chain_flip_tail (R : Cmd → Cmd → Prop) {d : Cmd} {ds : List Cmd}
    (hd : List.IsChain (flip R) (d :: ds)) : List.IsChain (flip R) ds ∧ ∀ e ∈ ds.head?, R e d := by
  cases ds with
  | nil => exact ⟨List.IsChain.nil, by simp⟩
  | cons e es =>
    have := List.isChain_cons_cons.1 hd
    refine ⟨this.2, ?_⟩
    intro x hx
    simp only [List.head?_cons, Option.mem_def, Option.some.injEq] at hx
    subst hx
    exact this.1

/-- with enough fuel the loop returns a row in which every pair of neighbours is stuck -/
theorem optLoop_chain (try_ : Cmd → Cmd → Step) : ∀ (fuel : Nat) (done rest : List Cmd),
    2 * rest.length + done.length ≤ fuel → List.IsChain (flip (Stuck try_)) done →
    (∀ d ∈ done.head?, ∀ a ∈ rest.head?, Stuck try_ d a) →
    List.IsChain (Stuck try_) (optLoop try_ fuel done rest) := by
  intro fuel
  induction fuel with
  | zero =>
    intro done rest h _ _
    have hr : rest = [] := List.eq_nil_of_length_eq_zero (by omega)
    have hd : done = [] := List.eq_nil_of_length_eq_zero (by omega)
    subst hr; subst hd
    simp [optLoop_zero]
  | succ fuel ih =>
    intro done rest h hd hl
    match rest, h, hl with
    | [], _, hl =>
      rw [optLoop_nil]
      exact zipper_chain _ done [] hd List.IsChain.nil hl
    | [a], _, hl =>
      rw [optLoop_single]
      exact zipper_chain _ done [a] hd (List.IsChain.singleton a) hl
    | a :: b :: rest, h, hl =>
      simp only [List.length_cons] at h
      rw [optLoop_succ]
      cases ht : try_ a b with
      | advance =>
        simp only
        refine ih (a :: done) (b :: rest) (by simp only [List.length_cons]; omega) ?_ ?_
        · exact chain_flip_cons _ hd (fun d hd' => hl d hd' a (by simp))
        · intro d hd' x hx
          simp only [List.head?_cons, Option.mem_def, Option.some.injEq] at hd' hx
          subst hd'; subst hx
          exact ht
      | identity =>
        cases done with
        | nil =>
          simp only
          exact ih [] rest (by simp only [List.length_nil]; omega) List.IsChain.nil (by simp)
        | cons d ds =>
          simp only [List.length_cons] at h ⊢
          obtain ⟨h1, h2⟩ := chain_flip_tail _ hd
          refine ih ds (d :: rest) (by simp only [List.length_cons]; omega) h1 ?_
          intro e he x hx
          simp only [List.head?_cons, Option.mem_def, Option.some.injEq] at hx
          subst hx
          exact h2 e he
      | merged m =>
        cases done with
        | nil =>
          simp only
          exact ih [] (m :: rest) (by simp only [List.length_cons, List.length_nil]; omega)
            List.IsChain.nil (by simp)
        | cons d ds =>
          simp only [List.length_cons] at h ⊢
          obtain ⟨h1, h2⟩ := chain_flip_tail _ hd
          refine ih ds (d :: m :: rest) (by simp only [List.length_cons]; omega) h1 ?_
          intro e he x hx
          simp only [List.head?_cons, Option.mem_def, Option.some.injEq] at hx
          subst hx
          exact h2 e he

/-- on a row of stuck neighbours the loop changes nothing -/
theorem optLoop_of_chain (try_ : Cmd → Cmd → Step) : ∀ (fuel : Nat) (done rest : List Cmd),
    List.IsChain (Stuck try_) rest → optLoop try_ fuel done rest = done.reverse ++ rest := by
  intro fuel
  induction fuel with
  | zero => intro done rest _; exact optLoop_zero _ _ _
  | succ fuel ih =>
    intro done rest hc
    match rest, hc with
    | [], _ => exact optLoop_nil _ _ _
    | [a], _ => exact optLoop_single _ _ _ _
    | a :: b :: rest, hc =>
      have h := List.isChain_cons_cons.1 hc
      rw [optLoop_succ, show try_ a b = Step.advance from h.1]
      simp only
      rw [ih (a :: done) (b :: rest) h.2]
      simp

/-- whether a pair is stuck does not depend on the offset used for new identities -/
theorem tryMerge_stuck_iff (B B' : Nat) (a b : Cmd) : Stuck (tryMerge B) a b ↔ Stuck (tryMerge B') a b := by
  unfold Stuck tryMerge
  split
  · split
    · simp
    · cases opMerge a b <;> simp
  · simp

theorem optRow_chain (B : Nat) (row : List Cmd) : List.IsChain (Stuck (tryMerge B)) (optRow B row) :=
  optLoop_chain (tryMerge B) (optFuel row.length) [] row (by simp [optFuel]) List.IsChain.nil (by simp)

theorem optRow_idem (B B' : Nat) (row : List Cmd) : optRow B' (optRow B row) = optRow B row := by
  have h := optRow_chain B row
  have h' : List.IsChain (Stuck (tryMerge B')) (optRow B row) :=
    h.imp fun a b hab => (tryMerge_stuck_iff B B' a b).1 hab
  unfold optRow at h' ⊢
  rw [optLoop_of_chain (tryMerge B') _ [] _ h']
  simp

end SFV
