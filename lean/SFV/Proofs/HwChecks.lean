import SFV.Model.HwCompile
import SFV.Proofs.HwCompile
import Mathlib.Data.Matrix.Block
import Mathlib.Tactic.Ring
import Mathlib.Tactic.Linarith
import Mathlib.Algebra.Order.Field.Rat

/-!
# `numpy.allclose` model and the validation verdicts of `Xunitary` / `Xcov` (C12); the block algebra behind
`Xcov`'s re-synthesis.
-/
namespace SFV.Hw

theorem atolNp_pos : 0 < atolNp := by decide +kernel
theorem rtolNp_pos : 0 < rtolNp := by decide +kernel

/-- **the decision procedure is `numpy.allclose`'s inequality.**  Whenever the two moduli are rational
(`d = |a − b|`, `nb = |b|`), `closeC a b` holds exactly when `d ≤ atol + rtol · nb`. -/
theorem closeC_iff (a b : Cq) (d nb : Rat) (hd : 0 ≤ d)
    (hd2 : d * d = (a.1 - b.1) * (a.1 - b.1) + (a.2 - b.2) * (a.2 - b.2))
    (hn : 0 ≤ nb) (hn2 : nb * nb = b.1 * b.1 + b.2 * b.2) :
    closeC a b = true ↔ d ≤ atolNp + rtolNp * nb := by
  have ha := atolNp_pos
  have hr := rtolNp_pos
  have ht : 0 ≤ atolNp + rtolNp * nb := by positivity
  have hc : 0 ≤ 2 * atolNp * rtolNp * nb := by positivity
  rw [mul_self_le_mul_self_iff hd ht]
  unfold closeC
  simp only [← hd2, ← hn2]
  by_cases h : d * d - atolNp * atolNp - rtolNp * rtolNp * (nb * nb) ≤ 0
  · simp only [h, if_true, true_iff]
    nlinarith
  · simp only [h, if_false, decide_eq_true_eq]
    push Not at h
    have key : d * d - atolNp * atolNp - rtolNp * rtolNp * (nb * nb) ≤ 2 * atolNp * rtolNp * nb ↔
        (d * d - atolNp * atolNp - rtolNp * rtolNp * (nb * nb)) * (d * d - atolNp * atolNp - rtolNp * rtolNp * (nb * nb))
          ≤ (2 * atolNp * rtolNp * nb) * (2 * atolNp * rtolNp * nb) :=
      (mul_self_le_mul_self_iff (le_of_lt h) hc)
    constructor
    · intro h2
      have := key.2 (by nlinarith)
      nlinarith
    · intro h2
      have := key.1 (by nlinarith)
      nlinarith

/-- comparison with zero: `|a| ≤ atol` -/
theorem closeC_zero (a : Cq) : closeC a (0, 0) = true ↔ a.1 * a.1 + a.2 * a.2 ≤ atolNp * atolNp := by
  unfold closeC
  simp only [sub_zero, mul_zero, add_zero]
  by_cases h : a.1 * a.1 + a.2 * a.2 - atolNp * atolNp ≤ 0
  · simp only [h, if_true, true_iff]
    linarith
  · simp only [h, if_false, decide_eq_true_eq]
    push Not at h
    constructor
    · intro h2
      nlinarith
    · intro h2
      linarith

theorem closeC_refl (a : Cq) : closeC a a = true := by
  unfold closeC
  have ha := atolNp_pos
  have hr := rtolNp_pos
  have hn : 0 ≤ rtolNp * rtolNp * (a.1 * a.1 + a.2 * a.2) :=
    mul_nonneg (mul_self_nonneg _) (add_nonneg (mul_self_nonneg _) (mul_self_nonneg _))
  simp only [sub_self, mul_zero, add_zero, zero_sub]
  rw [if_pos (by nlinarith)]

theorem allcloseM_refl (A : CM) : allcloseM A A = true := by
  simp only [allcloseM, List.all_eq_true]
  intro rr hrr
  have h1 : rr.1 = rr.2 := by
    obtain ⟨r1, r2⟩ := rr
    exact (List.of_mem_zip hrr).1 |> fun _ => by
      have := List.mem_iff_getElem.1 hrr
      obtain ⟨i, hi, he⟩ := this
      simp only [List.getElem_zip, Prod.mk.injEq] at he
      rw [← he.1, ← he.2]
  intro ab hab
  have h2 : ab.1 = ab.2 := by
    rw [h1] at hab
    obtain ⟨x, y⟩ := ab
    have := List.mem_iff_getElem.1 hab
    obtain ⟨i, hi, he⟩ := this
    simp only [List.getElem_zip, Prod.mk.injEq] at he
    rw [← he.1, ← he.2]
  rw [h2]
  exact closeC_refl _

/-- **the Xunitary verdict.**  The compiler proceeds exactly when the symplectic matrix is orthogonal, the two
off-diagonal blocks of `U = X + iY` vanish and the diagonal blocks agree — all in the sense of `numpy.allclose` —
and each failure raises its own error, in this order. -/
theorem xunitaryCheck_ok_iff (half : Nat) (S : List (List Rat)) (used : List Nat) :
    (∃ U11, xunitaryCheck half S used = .ok U11) ↔
      allcloseM (gramR S.length S) (identM S.length) = true ∧
      allcloseM (blockM (xunitaryU half S used) 0 half half (2 * half)) (zerosM half half) = true ∧
      allcloseM (blockM (xunitaryU half S used) half (2 * half) 0 half) (zerosM half half) = true ∧
      allcloseM (blockM (xunitaryU half S used) 0 half 0 half)
        (blockM (xunitaryU half S used) half (2 * half) half (2 * half)) = true := by
  unfold xunitaryCheck
  generalize xunitaryU half S used = U
  by_cases h0 : allcloseM (gramR S.length S) (identM S.length) = true
  · by_cases h1 : allcloseM (blockM U 0 half half (2 * half)) (zerosM half half) = true
    · by_cases h2 : allcloseM (blockM U half (2 * half) 0 half) (zerosM half half) = true
      · by_cases h3 : allcloseM (blockM U 0 half 0 half) (blockM U half (2 * half) half (2 * half)) = true
        · simp [h0, h1, h2, h3]
        · simp [h0, h1, h2, h3]
      · simp [h0, h1, h2]
    · simp [h0, h1]
  · simp [h0]

theorem xunitaryCheck_error (half : Nat) (S : List (List Rat)) (used : List Nat) (e : XErr)
    (h : xunitaryCheck half S used = .error e) :
    (e = .notInterferometer ∧ allcloseM (gramR S.length S) (identM S.length) = false) ∨
    (e = .mix ∧ (allcloseM (blockM (xunitaryU half S used) 0 half half (2 * half)) (zerosM half half) = false ∨
      allcloseM (blockM (xunitaryU half S used) half (2 * half) 0 half) (zerosM half half) = false)) ∨
    (e = .notIdentical ∧ allcloseM (blockM (xunitaryU half S used) 0 half 0 half)
        (blockM (xunitaryU half S used) half (2 * half) half (2 * half)) = false) := by
  unfold xunitaryCheck at h
  generalize xunitaryU half S used = U at h ⊢
  by_cases h0 : allcloseM (gramR S.length S) (identM S.length) = true
  · by_cases h1 : allcloseM (blockM U 0 half half (2 * half)) (zerosM half half) = true
    · by_cases h2 : allcloseM (blockM U half (2 * half) 0 half) (zerosM half half) = true
      · by_cases h3 : allcloseM (blockM U 0 half 0 half) (blockM U half (2 * half) half (2 * half)) = true
        · simp [h0, h1, h2, h3] at h
        · simp [h0, h1, h2, h3] at h
          exact Or.inr (Or.inr ⟨h.symm, by simpa using h3⟩)
      · simp [h0, h1, h2] at h
        exact Or.inr (Or.inl ⟨h.symm, Or.inr (by simpa using h2)⟩)
    · simp [h0, h1] at h
      exact Or.inr (Or.inl ⟨h.symm, Or.inl (by simpa using h1)⟩)
  · simp [h0] at h
    exact Or.inl ⟨h.symm, by simpa using h0⟩

theorem xcovCheck_ok_iff (half : Nat) (A : CM) :
    (∃ B01, xcovCheck half A = .ok B01) ↔
      allcloseM (blockM (blockM A 0 (2 * half) 0 (2 * half)) 0 half 0 half) (zerosM half half) = true ∧
      allcloseM (blockM (blockM A 0 (2 * half) 0 (2 * half)) half (2 * half) half (2 * half)) (zerosM half half) = true ∧
      allcloseM (blockM (blockM A 0 (2 * half) 0 (2 * half)) 0 half half (2 * half))
        (blockM (blockM A 0 (2 * half) 0 (2 * half)) half (2 * half) 0 half) = true := by
  simp only [xcovCheck]
  generalize blockM A 0 (2 * half) 0 (2 * half) = B
  by_cases h1 : allcloseM (blockM B 0 half 0 half) (zerosM half half) = true
  · by_cases h2 : allcloseM (blockM B half (2 * half) half (2 * half)) (zerosM half half) = true
    · by_cases h3 : allcloseM (blockM B 0 half half (2 * half)) (blockM B half (2 * half) 0 half) = true
      · simp [h1, h2, h3]
      · simp [h1, h2, h3]
    · simp [h1, h2]
  · simp [h1]

/-! ## the block algebra of `Xcov`'s re-synthesis -/

open Matrix in
/-- two-mode squeezers with `tanh r` on the diagonal `T`, then the same interferometer `U` on both halves: the
adjacency block `[[0, T], [T, 0]]` becomes `[[0, U T Uᵀ], [U T Uᵀ, 0]]` — so choosing `U`, `T` as Takagi factors of
the source's `B01` (`U T Uᵀ = B01`) reproduces the source's adjacency matrix `[[0, B01], [B01, 0]]`, for every size and
over every commutative ring. -/
theorem xcov_block_algebra {m : Type} [Fintype m] [DecidableEq m] {K : Type} [CommRing K]
    (U T B01 : Matrix m m K) (h : U * T * Uᵀ = B01) :
    fromBlocks U 0 0 U * fromBlocks 0 T T 0 * (fromBlocks U 0 0 U)ᵀ = fromBlocks 0 B01 B01 0 := by
  rw [fromBlocks_transpose, fromBlocks_multiply, fromBlocks_multiply]
  simp only [Matrix.mul_zero, Matrix.zero_mul, add_zero, zero_add, transpose_zero, h]

/-- no integer lies a quarter away from an integer -/
theorem quarter_not_int (m : Int) : (0 : Rat) ≠ -(1 / 4) + (m : Rat) := by
  intro h
  have h4 : (4 : Rat) * (m : Rat) = 1 := by linarith
  have h5 : ((4 * m : Int) : Rat) = ((1 : Int) : Rat) := by push_cast; linarith
  have h6 : 4 * m = 1 := by exact_mod_cast h5
  omega

/-! ## `add_loss` / `remove_loss` -/

theorem removeLoss_append_gate (l : List LCmd) (t : List LCmd) :
    removeLoss (l ++ t) = removeLoss l ++ removeLoss t := by
  induction l with
  | nil => rfl
  | cons x xs ih => cases x <;> simp [removeLoss, ih]

theorem removeLoss_addLoss (g : Rat) (e : List Rat) :
    ∀ (c : List (String × List Nat)) (loop : Nat) (out : List LCmd), addLoss g e loop c = some out → removeLoss out = c := by
  intro c
  induction c with
  | nil => intro loop out h; simp [addLoss] at h; subst h; rfl
  | cons x xs ih =>
    intro loop out h
    obtain ⟨cls, regs⟩ := x
    simp only [addLoss] at h
    by_cases hb : cls = "BSgate"
    · simp only [hb, if_true] at h
      cases he : e[loop]? with
      | none => simp [he] at h
      | some eta =>
        cases hr : regs[1]? with
        | none => simp [he, hr] at h
        | some r =>
          simp only [he, hr, Option.map_eq_some_iff] at h
          obtain ⟨t, ht, rfl⟩ := h
          have := ih (loop + 1) t ht
          simp [removeLoss_append_gate, removeLoss, this, hb]
    · simp only [hb, if_false, Option.map_eq_some_iff] at h
      obtain ⟨t, ht, rfl⟩ := h
      have := ih loop t ht
      by_cases hm : cls = "MeasureFock" <;> by_cases hs : cls = "Sgate" <;>
        simp [removeLoss_append_gate, removeLoss, this, hm, hs]

/-- number of inserted loss channels -/
def lossCount : List LCmd → Nat
  | [] => 0
  | .gate _ _ :: rest => lossCount rest
  | .loss _ _ :: rest => lossCount rest + 1

theorem lossCount_append (l t : List LCmd) : lossCount (l ++ t) = lossCount l + lossCount t := by
  induction l with
  | nil => simp [lossCount]
  | cons x xs ih => cases x <;> simp [lossCount, ih] <;> omega

theorem lossCount_addLoss (g : Rat) (e : List Rat) :
    ∀ (c : List (String × List Nat)) (loop : Nat) (out : List LCmd), addLoss g e loop c = some out →
      lossCount out = (c.filter fun x => x.1 = "MeasureFock" ∨ x.1 = "Sgate" ∨ x.1 = "BSgate").length := by
  intro c
  induction c with
  | nil => intro loop out h; simp [addLoss] at h; subst h; rfl
  | cons x xs ih =>
    intro loop out h
    obtain ⟨cls, regs⟩ := x
    simp only [addLoss] at h
    by_cases hb : cls = "BSgate"
    · simp only [hb, if_true] at h
      cases he : e[loop]? with
      | none => simp [he] at h
      | some eta =>
        cases hr : regs[1]? with
        | none => simp [he, hr] at h
        | some r =>
          simp only [he, hr, Option.map_eq_some_iff] at h
          obtain ⟨t, ht, rfl⟩ := h
          have := ih (loop + 1) t ht
          simp [lossCount_append, lossCount, this, hb]
    · simp only [hb, if_false, Option.map_eq_some_iff] at h
      obtain ⟨t, ht, rfl⟩ := h
      have := ih loop t ht
      by_cases hm : cls = "MeasureFock" <;> by_cases hs : cls = "Sgate" <;>
        simp [lossCount_append, lossCount, this, hm, hs, hb] <;> omega

/-! ## `make_phases_compatible` -/

/-- `wrapPi x` is THE representative of `x` modulo 2 in `(−1, 1]` -/
theorem wrapPi_unique (x y : Rat) (h1 : -1 < y) (h2 : y ≤ 1) (m : Int) (hm : y = x + 2 * (m : Rat)) : wrapPi x = y := by
  obtain ⟨⟨m', hm'⟩, h3, h4⟩ := wrapPi_spec x
  have hd : wrapPi x - y = 2 * (((m' - m : Int)) : Rat) := by
    rw [hm', hm]; push_cast; ring
  have hlt : (((m' - m : Int)) : Rat) < 1 := by linarith
  have hgt : (-1 : Rat) < (((m' - m : Int)) : Rat) := by linarith
  have h5 : (m' - m : Int) < 1 := by exact_mod_cast hlt
  have h6 : (-1 : Int) < (m' - m : Int) := by exact_mod_cast hgt
  have h7 : m' - m = 0 := by omega
  rw [h7] at hd
  simp at hd
  linarith

theorem mod2_spec (q : Rat) : ∃ m : Int, mod2 q = q + 2 * (m : Rat) := by
  refine ⟨-(q / 2).floor, ?_⟩
  unfold mod2
  push_cast
  ring

theorem makeCompatible_spec (phi corr prev : Rat) :
    (∃ m : Int, makeCompatible phi corr prev = phi + (m : Rat)) ∧
    -1 / 2 ≤ wrapPi (makeCompatible phi corr prev + corr - prev) ∧
    wrapPi (makeCompatible phi corr prev + corr - prev) ≤ 1 / 2 := by
  obtain ⟨⟨k, hk⟩, h1, h2⟩ := wrapPi_spec (phi + corr - prev)
  unfold makeCompatible
  simp only
  by_cases hout : wrapPi (phi + corr - prev) < -1 / 2 ∨ wrapPi (phi + corr - prev) > 1 / 2
  · rw [if_pos hout]
    obtain ⟨n, hn⟩ := mod2_spec (phi + 1)
    refine ⟨⟨2 * n + 1, by rw [hn]; push_cast; ring⟩, ?_⟩
    rcases hout with hlo | hhi
    · -- w < -1/2: the new representative is w + 1
      have : wrapPi (mod2 (phi + 1) + corr - prev) = wrapPi (phi + corr - prev) + 1 := by
        apply wrapPi_unique _ _ (by linarith) (by linarith) (k - n)
        rw [hn, hk]; push_cast; ring
      rw [this]
      constructor <;> linarith
    · have : wrapPi (mod2 (phi + 1) + corr - prev) = wrapPi (phi + corr - prev) - 1 := by
        apply wrapPi_unique _ _ (by linarith) (by linarith) (k - n - 1)
        rw [hn, hk]; push_cast; ring
      rw [this]
      constructor <;> linarith
  · rw [if_neg hout]
    push Not at hout
    exact ⟨⟨0, by simp⟩, hout.1, hout.2⟩

/-! ## parameter rules -/

theorem hardCodedClash_false_iff (l p : List GArg) :
    hardCodedClash l p = false ↔ ∀ xy ∈ l.zip p, xy.1 = xy.2 ∨ xy.1.isSymbol = true ∨ xy.2.isExpr = true := by
  simp only [hardCodedClash, List.any_eq_false, Bool.and_eq_true, decide_eq_true_eq, Bool.not_eq_true',
    Bool.or_eq_false_iff, not_and]
  constructor
  · intro h xy hxy
    by_cases he : xy.1 = xy.2
    · exact Or.inl he
    · have := h xy hxy he
      by_cases hs : xy.1.isSymbol = true
      · exact Or.inr (Or.inl hs)
      · right; right
        have hs' : xy.1.isSymbol = false := by simpa using hs
        have := this
        simp only [hs', true_and] at this
        simpa using this
  · intro h xy hxy hne
    rcases h xy hxy with he | hs | hx
    · exact absurd he hne
    · simp [hs]
    · simp [hx]

theorem fixedValuesMatch_iff (l p : List GArg) :
    fixedValuesMatch l p = true ↔ ∀ xy ∈ l.zip p,
      (∀ a b, xy = (.num a, .num b) → a - b ≤ defaultAtol ∧ b - a ≤ defaultAtol) ∧
      (∀ a vs, xy = (.num a, .arr vs) → ∀ b ∈ vs, a - b ≤ defaultAtol ∧ b - a ≤ defaultAtol) := by
  simp only [fixedValuesMatch, List.all_eq_true]
  constructor
  · intro h xy hxy
    have := h xy hxy
    obtain ⟨x, y⟩ := xy
    constructor
    · intro a b he
      cases he
      simpa using this
    · intro a vs he b hb
      cases he
      simp only [List.all_eq_true, decide_eq_true_eq] at this
      exact this b hb
  · intro h xy hxy
    obtain ⟨x, y⟩ := xy
    obtain ⟨h1, h2⟩ := h (x, y) hxy
    cases x <;> cases y <;> simp only [List.all_eq_true, decide_eq_true_eq]
    · exact h1 _ _ rfl
    · exact fun b hb => h2 _ _ rfl b hb

end SFV.Hw
