import SFV.Model.States
import SFV.Proofs.GaussNM
import Mathlib.Data.List.Sort
import Mathlib.Data.List.Perm.Basic
import Mathlib.Tactic.Ring
import Mathlib.Tactic.FieldSimp
import Mathlib.Algebra.Field.Basic

/-! Lemmas for the phase-space part of `SFV.Model.States`: row / column selection of `reduced_gaussian`,
`reduced_bosonic`, `state(modes)` of the Gaussian and bosonic back ends, and the polynomial observables. -/
namespace SFV.States
open SFV.Gauss

variable {K : Type}

/-- `modes[a]` -/
abbrev at' (modes : List Nat) (a : Nat) : Nat := modes.getD a 0

/-- `reduced_gaussian(modes)`, ascending in-range list: entry `(a, b)` of every block of the result is entry
`(modes[a], modes[b])` of the same block of the full state -/
theorem reducedGaussian_subset (n : Nat) (modes : List Nat) (g : GData K)
    (hs : modes.Pairwise (· < ·)) (hr : ∀ m ∈ modes, m < n) :
    ∃ r, reducedGaussian n modes g = .ok (modes.length, r) ∧
      ∀ a b, a < modes.length → b < modes.length →
        r.mu a = g.mu (at' modes a) ∧ r.mu (a + modes.length) = g.mu (at' modes a + n) ∧
        r.cov a b = g.cov (at' modes a) (at' modes b) ∧
        r.cov a (b + modes.length) = g.cov (at' modes a) (at' modes b + n) ∧
        r.cov (a + modes.length) b = g.cov (at' modes a + n) (at' modes b) ∧
        r.cov (a + modes.length) (b + modes.length) = g.cov (at' modes a + n) (at' modes b + n) := by
  sorry

/-- unsorted lists raise `ValueError`, out-of-range ascending lists `IndexError` (or `ValueError` when too long) -/
theorem reducedGaussian_raises (n : Nat) (modes : List Nat) (g : GData K)
    (h : ¬ modes.Pairwise (· ≤ ·) ∨ ∃ m ∈ modes, n ≤ m) :
    ∃ e, reducedGaussian n modes g = .error e := by
  sorry

/-- `GaussianBackend.state(modes)`: xxpp state data in the requested order from the xpxp simulator data -/
theorem gaussBackendState_order (nlen : Nat) (modes : List Nat) (xpxp : GData K) (hr : ∀ m ∈ modes, m < nlen) :
    ∃ r, gaussBackendState nlen modes xpxp = .ok (modes.length, r) ∧
      ∀ a b, a < modes.length → b < modes.length →
        r.mu a = xpxp.mu (2 * at' modes a) ∧ r.mu (a + modes.length) = xpxp.mu (2 * at' modes a + 1) ∧
        r.cov a b = xpxp.cov (2 * at' modes a) (2 * at' modes b) ∧
        r.cov a (b + modes.length) = xpxp.cov (2 * at' modes a) (2 * at' modes b + 1) ∧
        r.cov (a + modes.length) b = xpxp.cov (2 * at' modes a + 1) (2 * at' modes b) ∧
        r.cov (a + modes.length) (b + modes.length) = xpxp.cov (2 * at' modes a + 1) (2 * at' modes b + 1) := by
  sorry

/-- the sorted concatenation `[2m…] ++ [2m+1…]` of a duplicate-free list is the interleaving of the ascending list -/
theorem bosonicInd_eq (modes : List Nat) (hd : modes.Nodup) :
    bosonicInd modes = interleaved (modes.mergeSort fun a b => decide (a ≤ b)) := by
  sorry

/-- `reduced_bosonic(modes)`, ascending in-range list: rows `2a, 2a+1` of the result are `x, p` of `modes[a]` -/
theorem reducedBosonic_subset (n : Nat) (modes : List Nat)
    (hs : modes.Pairwise (· < ·)) (hr : ∀ m ∈ modes, m < n) :
    reducedBosonic n modes = .ok (modes.length, interleaved modes) := by
  sorry

theorem interleaved_getD (modes : List Nat) (a : Nat) (ha : a < modes.length) :
    (interleaved modes).getD (2 * a) 0 = 2 * at' modes a ∧ (interleaved modes).getD (2 * a + 1) 0 = 2 * at' modes a + 1 := by
  sorry

/-- `BosonicBackend.state(modes)`: the documented ascending order, whatever order was requested -/
theorem bosonicBackendState_sorted (nlen : Nat) (modes : List Nat) (hd : modes.Nodup) (hr : ∀ m ∈ modes, m < nlen) :
    bosonicBackendState nlen modes = .ok (modes.length, interleaved (modes.mergeSort fun a b => decide (a ≤ b))) := by
  sorry

/-- after `xpxp_to_xxpp` the data handed to thewalrus is `x` of `modes[a]` at `a`, `p` of `modes[a]` at `a + k` -/
theorem toXXPP_interleaved (modes : List Nat) (a : Nat) (ha : a < modes.length) :
    (interleaved modes).getD (toXXPP modes.length a) 0 = 2 * at' modes a ∧
    (interleaved modes).getD (toXXPP modes.length (a + modes.length)) 0 = 2 * at' modes a + 1 := by
  sorry

/-- `mean_photon(mode)` reads exactly the four covariance entries and two means of `mode` -/
theorem gaussMeanPhoton_local [Field K] (hbar : K) (n mode : Nat) (g : GData K) (hm : mode < n) :
    gaussMeanPhoton hbar n mode g = .ok (meanPhoton1 hbar (selectG [mode, mode + n] g)) := by
  sorry

/-- consistency with the simulator's `(N, M, α)` picture at hbar = 2: `⟨n_k⟩ = N_kk + |α_k|²` -/
theorem gaussMeanPhoton_NM [Field K] (h2 : (2 : K) ≠ 0) (st : GS K) (k : Nat) (hk : k < st.n) :
    ∃ var, gaussMeanPhoton (2 : K) st.n k (gdataOfXP st.n (toXP st))
      = .ok ((st.N k k).re + ((st.mean k).re * (st.mean k).re + (st.mean k).im * (st.mean k).im), var) := by
  sorry

/-- `quad_expectation(mode, φ)` is the `x` mean / variance of the state rotated by `−φ` (K3 specification) -/
theorem gaussQuadExpectation_rotated [CommRing K] (c s : K) (n k : Nat) (V : XP K) (hk : k < n) :
    gaussQuadExpectation c s n k (gdataOfXP n V)
      = .ok ((linMap (rotRows k c (-s)) V).mx k, (linMap (rotRows k c (-s)) V).xx k k) := by
  sorry

/-- Gaussian `parity_expectation(modes)` (after the fix) is computed from the reduced state of the ascending list:
it only reads rows / columns of the requested modes -/
theorem gaussParityArgs_local (n : Nat) (modes : List Nat) (g g' : GData K) (hd : modes.Nodup)
    (hr : ∀ m ∈ modes, m < n)
    (hmu : ∀ m ∈ modes, g.mu m = g'.mu m ∧ g.mu (m + n) = g'.mu (m + n))
    (hcov : ∀ m ∈ modes, ∀ l ∈ modes, g.cov m l = g'.cov m l ∧ g.cov m (l + n) = g'.cov m (l + n) ∧
      g.cov (m + n) l = g'.cov (m + n) l ∧ g.cov (m + n) (l + n) = g'.cov (m + n) (l + n)) :
    ∃ r r', gaussParityArgs n modes g = .ok (modes.length, modes.length, r) ∧
      gaussParityArgs n modes g' = .ok (modes.length, modes.length, r') ∧
      (∀ a, a < 2 * modes.length → r.mu a = r'.mu a) ∧
      (∀ a b, a < 2 * modes.length → b < 2 * modes.length → r.cov a b = r'.cov a b) := by
  sorry

/-- `fidelity_vacuum()` is `fidelity_coherent` of the zero vector over all modes -/
theorem fidelityVacuum_zero [MulZeroClass K] (sq h2 : K) (n : Nat) :
    fidelityVacuumArgs sq h2 n = fidelityCoherentArgs sq h2 n (fun _ => 0) (fun _ => 0) ∧
    (∀ a, (fidelityVacuumArgs sq h2 n).1 a = 0) ∧ (fidelityVacuumArgs sq h2 n).2.2 = List.range n := by
  sorry

/-- `samples_expectation` does not depend on the order in which the modes are listed -/
theorem samplesExpectation_perm (samples : List (List Int)) (modes modes' : List Nat) (h : modes.Perm modes') :
    samplesExpectation samples modes = samplesExpectation samples modes' ∧
    samplesVariance samples modes = samplesVariance samples modes' := by
  sorry

end SFV.States
