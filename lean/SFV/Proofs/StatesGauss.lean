import SFV.Model.States
import SFV.Proofs.GaussNM
import Mathlib.Data.List.Sort
import Mathlib.Data.List.GetD
import Mathlib.Data.List.Perm.Basic
import Mathlib.Tactic.Ring
import Mathlib.Tactic.FieldSimp
import Mathlib.Algebra.Field.Basic

/-! Lemmas for the phase-space part of `SFV.Model.States`: row / column selection of `reduced_gaussian`,
`reduced_bosonic`, `state(modes)` of the Gaussian and bosonic back ends, and the polynomial observables. -/
namespace SFV.States
open SFV.Gauss

variable {K : Type}

/-- `modes[a]` -/
abbrev at' (modes : List Nat) (a : Nat) : Nat := modes.getD a 0

/-! ### list helpers (in `SFV.States.GaussAux` to keep the names local to this file) -/

namespace GaussAux


/-- `modes == sorted(modes)` is `Pairwise (· ≤ ·)` -/
theorem isSortedLe_iff : ∀ l : List Nat, isSortedLe l = true ↔ l.Pairwise (· ≤ ·)
  | [] => by simp [isSortedLe]
  | [_] => by simp [isSortedLe]
  | a :: b :: t => by
    have ih := isSortedLe_iff (b :: t)
    simp only [isSortedLe, Bool.and_eq_true, decide_eq_true_eq, ih]
    constructor
    · rintro ⟨hab, hp⟩
      refine List.pairwise_cons.2 ⟨?_, hp⟩
      intro x hx
      rcases List.mem_cons.1 hx with rfl | hx
      · exact hab
      · exact le_trans hab ((List.pairwise_cons.1 hp).1 x hx)
    · intro h
      have := List.pairwise_cons.1 h
      exact ⟨this.1 b (by simp), this.2⟩

theorem pairwise_le_of_lt {l : List Nat} (h : l.Pairwise (· < ·)) : l.Pairwise (· ≤ ·) :=
  h.imp (fun h => Nat.le_of_lt h)

/-- a strictly ascending list below `n` has at most `n` entries -/
theorem length_le_of_lt {n : Nat} {l : List Nat} (hs : l.Pairwise (· < ·)) (hr : ∀ m ∈ l, m < n) :
    l.length ≤ n := by
  have hnd : l.Nodup := hs.imp (fun h => Nat.ne_of_lt h)
  have hsub : l ⊆ List.range n := fun m hm => List.mem_range.2 (hr m hm)
  simpa using (List.subperm_of_subset hnd hsub).length_le

/-- entries of `concatenate([f(modes), g(modes)])` -/
theorem getD_two_blocks (f g : Nat → Nat) (l : List Nat) (a : Nat) (ha : a < l.length) :
    (l.map f ++ l.map g).getD a 0 = f (l.getD a 0) ∧
    (l.map f ++ l.map g).getD (a + l.length) 0 = g (l.getD a 0) := by
  constructor
  · rw [List.getD_append _ _ _ _ (by simpa using ha)]
    simp [List.getD_eq_getElem?_getD, ha]
  · rw [List.getD_append_right _ _ _ _ (by simp)]
    simp [List.getD_eq_getElem?_getD, ha]

theorem getD_range {n a : Nat} (ha : a < n) : (List.range n).getD a 0 = a := by
  simp [List.getD_eq_getElem?_getD, ha]

end GaussAux

/-! ### Gaussian selection -/

namespace GaussAux

theorem gaussInd_eq (n : Nat) (modes : List Nat) :
    gaussInd n modes = modes.map id ++ modes.map (· + n) := by simp [gaussInd]

theorem selectG_two_blocks (f h : Nat → Nat) (modes : List Nat) (g : GData K) :
    ∀ a b, a < modes.length → b < modes.length →
      (selectG (modes.map f ++ modes.map h) g).mu a = g.mu (f (at' modes a)) ∧
      (selectG (modes.map f ++ modes.map h) g).mu (a + modes.length) = g.mu (h (at' modes a)) ∧
      (selectG (modes.map f ++ modes.map h) g).cov a b = g.cov (f (at' modes a)) (f (at' modes b)) ∧
      (selectG (modes.map f ++ modes.map h) g).cov a (b + modes.length) = g.cov (f (at' modes a)) (h (at' modes b)) ∧
      (selectG (modes.map f ++ modes.map h) g).cov (a + modes.length) b = g.cov (h (at' modes a)) (f (at' modes b)) ∧
      (selectG (modes.map f ++ modes.map h) g).cov (a + modes.length) (b + modes.length)
        = g.cov (h (at' modes a)) (h (at' modes b)) := by
  intro a b ha hb
  obtain ⟨a1, a2⟩ := getD_two_blocks f h modes a ha
  obtain ⟨b1, b2⟩ := getD_two_blocks f h modes b hb
  simp only [selectG, at', a1, a2, b1, b2, and_self]

end GaussAux

/-- `reduced_gaussian(modes)`, ascending in-range list: entry `(a, b)` of every block of the result is entry
`(modes[a], modes[b])` of the same block of the full state -/
theorem reducedGaussian_subset (n : Nat) (modes : List Nat) (g : GData K)
    (hs : modes.Pairwise (· < ·)) (hr : ∀ m ∈ modes, m < n) :
    ∃ r, reducedGaussian n modes g = .ok (modes.length, r) ∧
      ∀ a b, a < modes.length → b < modes.length →
        r.mu a = g.mu (at' modes a) ∧ r.mu (a + modes.length) = g.mu (at' modes a + n) ∧
        r.cov a b = g.cov (at' modes a) (at' modes b) ∧
        r.cov a (b + modes.length) = g.cov (at' modes a) (at' modes b + n) ∧
        r.cov (a + modes.length) b = g.cov (at' modes a + n) (at' modes b) ∧
        r.cov (a + modes.length) (b + modes.length) = g.cov (at' modes a + n) (at' modes b + n) := by
  by_cases h : modes = List.range n
  · subst h
    refine ⟨g, by simp [reducedGaussian], ?_⟩
    intro a b ha hb
    rw [List.length_range] at ha hb ⊢
    simp only [at', GaussAux.getD_range ha, GaussAux.getD_range hb, and_self]
  · have h1 : isSortedLe modes = true := (GaussAux.isSortedLe_iff modes).2 (GaussAux.pairwise_le_of_lt hs)
    have h2 : ¬ modes.length > n := Nat.not_lt.2 (GaussAux.length_le_of_lt hs hr)
    have h3 : (gaussInd n modes).any (fun i => decide (2 * n ≤ i)) = false := by
      rw [List.any_eq_false]
      intro x hx
      simp only [gaussInd, List.mem_append, List.mem_map] at hx
      simp only [decide_eq_true_eq]
      rcases hx with hx | ⟨m, hm, rfl⟩
      · have := hr x hx; omega
      · have := hr m hm; omega
    refine ⟨selectG (gaussInd n modes) g, by simp [reducedGaussian, h, h1, h2, h3], ?_⟩
    rw [GaussAux.gaussInd_eq]
    exact GaussAux.selectG_two_blocks id (· + n) modes g

/-- unsorted lists raise `ValueError`, out-of-range ascending lists `IndexError` (or `ValueError` when too long) -/
theorem reducedGaussian_raises (n : Nat) (modes : List Nat) (g : GData K)
    (h : ¬ modes.Pairwise (· ≤ ·) ∨ ∃ m ∈ modes, n ≤ m) :
    ∃ e, reducedGaussian n modes g = .error e := by
  have h0 : modes ≠ List.range n := by
    rintro rfl
    rcases h with h | ⟨m, hm, hn⟩
    · exact h ((List.pairwise_lt_range).imp (fun h => Nat.le_of_lt h))
    · have := List.mem_range.1 hm; omega
  by_cases h1 : isSortedLe modes = true
  · by_cases h2 : modes.length > n
    · exact ⟨.valueError, by simp [reducedGaussian, h0, h1, h2]⟩
    · have hex : ∃ m ∈ modes, n ≤ m := by
        rcases h with h | h
        · exact absurd ((GaussAux.isSortedLe_iff modes).1 h1) h
        · exact h
      obtain ⟨m, hm, hn⟩ := hex
      have h3 : (gaussInd n modes).any (fun i => decide (2 * n ≤ i)) = true := by
        rw [List.any_eq_true]
        refine ⟨m + n, ?_, by simp only [decide_eq_true_eq]; omega⟩
        simp only [gaussInd, List.mem_append, List.mem_map]
        exact Or.inr ⟨m, hm, rfl⟩
      exact ⟨.indexError, by simp [reducedGaussian, h0, h1, h2, h3]⟩
  · exact ⟨.valueError, by simp [reducedGaussian, h0, h1]⟩

/-- `GaussianBackend.state(modes)`: xxpp state data in the requested order from the xpxp simulator data -/
theorem gaussBackendState_order (nlen : Nat) (modes : List Nat) (xpxp : GData K) (hr : ∀ m ∈ modes, m < nlen) :
    ∃ r, gaussBackendState nlen modes xpxp = .ok (modes.length, r) ∧
      ∀ a b, a < modes.length → b < modes.length →
        r.mu a = xpxp.mu (2 * at' modes a) ∧ r.mu (a + modes.length) = xpxp.mu (2 * at' modes a + 1) ∧
        r.cov a b = xpxp.cov (2 * at' modes a) (2 * at' modes b) ∧
        r.cov a (b + modes.length) = xpxp.cov (2 * at' modes a) (2 * at' modes b + 1) ∧
        r.cov (a + modes.length) b = xpxp.cov (2 * at' modes a + 1) (2 * at' modes b) ∧
        r.cov (a + modes.length) (b + modes.length) = xpxp.cov (2 * at' modes a + 1) (2 * at' modes b + 1) := by
  have h3 : (gaussBackendInd modes).any (fun i => decide (2 * nlen ≤ i)) = false := by
    rw [List.any_eq_false]
    intro x hx
    simp only [gaussBackendInd, List.mem_append, List.mem_map] at hx
    simp only [decide_eq_true_eq]
    rcases hx with ⟨m, hm, rfl⟩ | ⟨m, hm, rfl⟩
    · have := hr m hm; omega
    · have := hr m hm; omega
  refine ⟨selectG (gaussBackendInd modes) xpxp, by simp [gaussBackendState, h3], ?_⟩
  exact GaussAux.selectG_two_blocks (2 * ·) (2 * · + 1) modes xpxp

/-! ### bosonic -/

namespace GaussAux

theorem interleaved_cons (m : Nat) (t : List Nat) :
    interleaved (m :: t) = 2 * m :: (2 * m + 1) :: interleaved t := by
  simp [interleaved]

theorem mem_interleaved {x : Nat} {l : List Nat} :
    x ∈ interleaved l ↔ ∃ m ∈ l, x = 2 * m ∨ x = 2 * m + 1 := by
  simp [interleaved, List.mem_flatMap]

theorem interleaved_pairwise_lt : ∀ {l : List Nat}, l.Pairwise (· < ·) → (interleaved l).Pairwise (· < ·)
  | [], _ => by simp [interleaved]
  | a :: t, h => by
    have h' := List.pairwise_cons.1 h
    have ih := interleaved_pairwise_lt h'.2
    rw [interleaved_cons]
    refine List.pairwise_cons.2 ⟨?_, List.pairwise_cons.2 ⟨?_, ih⟩⟩
    · intro x hx
      rcases List.mem_cons.1 hx with rfl | hx
      · omega
      · obtain ⟨m, hm, hx⟩ := mem_interleaved.1 hx
        have := h'.1 m hm
        omega
    · intro x hx
      obtain ⟨m, hm, hx⟩ := mem_interleaved.1 hx
      have := h'.1 m hm
      omega

theorem interleaved_perm_blocks : ∀ l : List Nat,
    (interleaved l).Perm (l.map (2 * ·) ++ l.map (2 * · + 1))
  | [] => by simp [interleaved]
  | a :: t => by
    rw [interleaved_cons, List.map_cons, List.map_cons, List.cons_append]
    refine List.Perm.cons _ ?_
    refine List.Perm.trans ?_ List.perm_middle.symm
    exact List.Perm.cons _ (interleaved_perm_blocks t)

theorem pairwise_lt_of_le_nodup {l : List Nat} (h : l.Pairwise (· ≤ ·)) (hd : l.Nodup) :
    l.Pairwise (· < ·) :=
  (h.and hd).imp (fun h => Nat.lt_of_le_of_ne h.1 h.2)

theorem mergeSort_le_pairwise (l : List Nat) :
    (l.mergeSort fun a b => decide (a ≤ b)).Pairwise (· ≤ ·) := by
  have := List.pairwise_mergeSort (le := fun a b : Nat => decide (a ≤ b))
    (by intro _ _ _; simp only [decide_eq_true_eq]; omega)
    (by intro _ _; simp only [Bool.or_eq_true, decide_eq_true_eq]; omega) l
  exact this.imp (fun h => by simpa using h)

theorem eq_of_perm_sorted {l₁ l₂ : List Nat} (h₁ : l₁.Pairwise (· ≤ ·)) (h₂ : l₂.Pairwise (· ≤ ·))
    (hp : l₁.Perm l₂) : l₁ = l₂ :=
  List.Perm.eq_of_pairwise (fun _ _ _ _ hab hba => Nat.le_antisymm hab hba) h₁ h₂ hp

end GaussAux

/-- the sorted concatenation `[2m…] ++ [2m+1…]` of a duplicate-free list is the interleaving of the ascending list -/
theorem bosonicInd_eq (modes : List Nat) (hd : modes.Nodup) :
    bosonicInd modes = interleaved (modes.mergeSort fun a b => decide (a ≤ b)) := by
  have hp : (modes.mergeSort fun a b => decide (a ≤ b)).Perm modes := List.mergeSort_perm _ _
  have hlt : (modes.mergeSort fun a b => decide (a ≤ b)).Pairwise (· < ·) :=
    GaussAux.pairwise_lt_of_le_nodup (GaussAux.mergeSort_le_pairwise modes) (hp.nodup_iff.2 hd)
  refine GaussAux.eq_of_perm_sorted (GaussAux.mergeSort_le_pairwise _)
    (GaussAux.pairwise_le_of_lt (GaussAux.interleaved_pairwise_lt hlt)) ?_
  refine (List.mergeSort_perm _ _).trans ?_
  refine (GaussAux.interleaved_perm_blocks modes).symm.trans ?_
  exact (List.Perm.flatMap_right _ hp).symm

namespace GaussAux

theorem mergeSort_of_sorted_le {l : List Nat} (h : l.Pairwise (· ≤ ·)) :
    (l.mergeSort fun a b => decide (a ≤ b)) = l :=
  List.mergeSort_of_pairwise (h.imp (fun h => by simpa using h))

theorem interleaved_range (n : Nat) : interleaved (List.range n) = List.range (2 * n) := by
  induction n with
  | zero => simp [interleaved]
  | succ n ih =>
    have e : 2 * (n + 1) = 2 * n + 1 + 1 := by omega
    rw [e, List.range_succ, List.range_succ, List.range_succ]
    simp only [interleaved, List.flatMap_append] at ih ⊢
    rw [ih]
    simp

theorem bosonicInd_any_false {nlen : Nat} {modes : List Nat} (hr : ∀ m ∈ modes, m < nlen) :
    (bosonicInd modes).any (fun i => decide (2 * nlen ≤ i)) = false := by
  rw [List.any_eq_false]
  intro x hx
  simp only [bosonicInd, List.mem_mergeSort, List.mem_append, List.mem_map] at hx
  simp only [decide_eq_true_eq]
  rcases hx with ⟨m, hm, rfl⟩ | ⟨m, hm, rfl⟩
  · have := hr m hm; omega
  · have := hr m hm; omega

end GaussAux

/-- `reduced_bosonic(modes)`, ascending in-range list: rows `2a, 2a+1` of the result are `x, p` of `modes[a]` -/
theorem reducedBosonic_subset (n : Nat) (modes : List Nat)
    (hs : modes.Pairwise (· < ·)) (hr : ∀ m ∈ modes, m < n) :
    reducedBosonic n modes = .ok (modes.length, interleaved modes) := by
  by_cases h : modes = List.range n
  · subst h
    simp [reducedBosonic, GaussAux.interleaved_range]
  · have h1 : isSortedLe modes = true := (GaussAux.isSortedLe_iff modes).2 (GaussAux.pairwise_le_of_lt hs)
    have h2 : ¬ modes.length > n := Nat.not_lt.2 (GaussAux.length_le_of_lt hs hr)
    have h3 := GaussAux.bosonicInd_any_false hr
    have hnd : modes.Nodup := hs.imp (fun h => Nat.ne_of_lt h)
    have h4 : bosonicInd modes = interleaved modes := by
      rw [bosonicInd_eq modes hnd, GaussAux.mergeSort_of_sorted_le (GaussAux.pairwise_le_of_lt hs)]
    unfold reducedBosonic
    rw [if_neg h, if_neg (by simp [h1]), if_neg h2, if_neg (by simp [h3]), h4]

theorem interleaved_getD (modes : List Nat) (a : Nat) (ha : a < modes.length) :
    (interleaved modes).getD (2 * a) 0 = 2 * at' modes a ∧ (interleaved modes).getD (2 * a + 1) 0 = 2 * at' modes a + 1 := by
  induction modes generalizing a with
  | nil => simp at ha
  | cons m t ih =>
    rw [GaussAux.interleaved_cons]
    cases a with
    | zero => simp [at']
    | succ a =>
      have ha' : a < t.length := by simpa using ha
      have e1 : 2 * (a + 1) = 2 * a + 1 + 1 := by omega
      have e2 : 2 * (a + 1) + 1 = (2 * a + 1) + 1 + 1 := by omega
      rw [e2, e1]
      simp only [at', List.getD_cons_succ]
      exact ih a ha'

/-- `BosonicBackend.state(modes)`: the documented ascending order, whatever order was requested -/
theorem bosonicBackendState_sorted (nlen : Nat) (modes : List Nat) (hd : modes.Nodup) (hr : ∀ m ∈ modes, m < nlen) :
    bosonicBackendState nlen modes = .ok (modes.length, interleaved (modes.mergeSort fun a b => decide (a ≤ b))) := by
  unfold bosonicBackendState
  rw [if_neg (by simpa using hr), bosonicInd_eq modes hd]

/-- after `xpxp_to_xxpp` the data handed to thewalrus is `x` of `modes[a]` at `a`, `p` of `modes[a]` at `a + k` -/
theorem toXXPP_interleaved (modes : List Nat) (a : Nat) (ha : a < modes.length) :
    (interleaved modes).getD (toXXPP modes.length a) 0 = 2 * at' modes a ∧
    (interleaved modes).getD (toXXPP modes.length (a + modes.length)) 0 = 2 * at' modes a + 1 := by
  have e1 : toXXPP modes.length a = 2 * a := by simp [toXXPP, ha]
  have e2 : toXXPP modes.length (a + modes.length) = 2 * a + 1 := by simp [toXXPP]
  rw [e1, e2]
  exact interleaved_getD modes a ha

/-! ### observables -/

namespace GaussAux

/-- the one-mode reduction: whatever branch is taken, entries `0, 1` are `x, p` of `mode` -/
theorem reducedGaussian_single (n mode : Nat) (g : GData K) (hm : mode < n) :
    ∃ k r, reducedGaussian n [mode] g = .ok (k, r) ∧
      r.mu 0 = g.mu mode ∧ r.mu 1 = g.mu (mode + n) ∧
      r.cov 0 0 = g.cov mode mode ∧ r.cov 0 1 = g.cov mode (mode + n) ∧
      r.cov 1 0 = g.cov (mode + n) mode ∧ r.cov 1 1 = g.cov (mode + n) (mode + n) := by
  obtain ⟨r, hr, hE⟩ := reducedGaussian_subset n [mode] g (by simp) (by simpa using hm)
  have := hE 0 0 (by simp) (by simp)
  simp only [List.length_cons, List.length_nil, at', List.getD_cons_zero, Nat.zero_add] at this
  exact ⟨_, r, hr, this⟩

end GaussAux

/-- `mean_photon(mode)` reads exactly the four covariance entries and two means of `mode` -/
theorem gaussMeanPhoton_local [Field K] (hbar : K) (n mode : Nat) (g : GData K) (hm : mode < n) :
    gaussMeanPhoton hbar n mode g = .ok (meanPhoton1 hbar (selectG [mode, mode + n] g)) := by
  obtain ⟨k, r, hr, h0, h1, h00, h01, h10, h11⟩ := GaussAux.reducedGaussian_single n mode g hm
  simp only [gaussMeanPhoton, hr, bind, Except.bind, pure, Except.pure]
  simp [meanPhoton1, selectG, h0, h1, h00, h01, h10, h11]

/-- `quad_expectation(mode, φ)` is the `x` mean / variance of the state rotated by `−φ` (K3 specification) -/
theorem gaussQuadExpectation_rotated [CommRing K] (c s : K) (n k : Nat) (V : XP K) (hk : k < n) :
    gaussQuadExpectation c s n k (gdataOfXP n V)
      = .ok ((linMap (rotRows k c (-s)) V).mx k, (linMap (rotRows k c (-s)) V).xx k k) := by
  obtain ⟨k', r, hr, h0, h1, h00, h01, h10, h11⟩ := GaussAux.reducedGaussian_single n k (gdataOfXP n V) hk
  simp only [gaussQuadExpectation, hr, bind, Except.bind, pure, Except.pure]
  have hk' : ¬ k + n < n := by omega
  simp only [gdataOfXP, hk, hk', if_true, if_false, Nat.add_sub_cancel] at h0 h1 h00 h01 h10 h11
  simp only [quad1, h0, h1, h00, h01, h10, h11, linMap, rotRows, rows1, if_true, lsum, List.foldr,
    XP.cov, XP.mean]
  congr 1
  ext <;> ring

/-- consistency with the simulator's `(N, M, α)` picture at hbar = 2: `⟨n_k⟩ = N_kk + |α_k|²` -/
theorem gaussMeanPhoton_NM [Field K] (h2 : (2 : K) ≠ 0) (st : GS K) (k : Nat) (hk : k < st.n) :
    ∃ var, gaussMeanPhoton (2 : K) st.n k (gdataOfXP st.n (toXP st))
      = .ok ((st.N k k).re + ((st.mean k).re * (st.mean k).re + (st.mean k).im * (st.mean k).im), var) := by
  refine ⟨(meanPhoton1 (2 : K) (selectG [k, k + st.n] (gdataOfXP st.n (toXP st)))).2, ?_⟩
  rw [gaussMeanPhoton_local _ _ _ _ hk]
  congr 1
  refine Prod.ext ?_ rfl
  have hk' : ¬ k + st.n < st.n := by omega
  simp only [meanPhoton1, selectG, gdataOfXP, List.getD_cons_zero, List.getD_cons_succ, hk, hk', if_true,
    if_false, Nat.add_sub_cancel, toXP, Vxx, Vpp, meanX, meanP, Cx.add_re, Cx.sub_re, Cx.conj_re]
  field_simp
  ring

/-- Gaussian `parity_expectation(modes)` (after the fix) is computed from the reduced state of the ascending list:
it only reads rows / columns of the requested modes -/
theorem gaussParityArgs_local (n : Nat) (modes : List Nat) (g g' : GData K) (hd : modes.Nodup)
    (hr : ∀ m ∈ modes, m < n)
    (hmu : ∀ m ∈ modes, g.mu m = g'.mu m ∧ g.mu (m + n) = g'.mu (m + n))
    (hcov : ∀ m ∈ modes, ∀ l ∈ modes, g.cov m l = g'.cov m l ∧ g.cov m (l + n) = g'.cov m (l + n) ∧
      g.cov (m + n) l = g'.cov (m + n) l ∧ g.cov (m + n) (l + n) = g'.cov (m + n) (l + n)) :
    ∃ r r', gaussParityArgs n modes g = .ok (modes.length, modes.length, r) ∧
      gaussParityArgs n modes g' = .ok (modes.length, modes.length, r') ∧
      (∀ a, a < 2 * modes.length → r.mu a = r'.mu a) ∧
      (∀ a b, a < 2 * modes.length → b < 2 * modes.length → r.cov a b = r'.cov a b) := by
  have hp : (modes.mergeSort fun a b => decide (a ≤ b)).Perm modes := List.mergeSort_perm _ _
  have hlt : (modes.mergeSort fun a b => decide (a ≤ b)).Pairwise (· < ·) :=
    GaussAux.pairwise_lt_of_le_nodup (GaussAux.mergeSort_le_pairwise modes) (hp.nodup_iff.2 hd)
  have hmem : ∀ m ∈ (modes.mergeSort fun a b => decide (a ≤ b)), m ∈ modes := fun m hm => hp.mem_iff.1 hm
  have hlen : (modes.mergeSort fun a b => decide (a ≤ b)).length = modes.length := List.length_mergeSort _
  generalize hs : (modes.mergeSort fun a b => decide (a ≤ b)) = s at hp hlt hmem hlen
  obtain ⟨r, hr1, hE⟩ := reducedGaussian_subset n s g hlt (fun m hm => hr m (hmem m hm))
  obtain ⟨r', hr1', hE'⟩ := reducedGaussian_subset n s g' hlt (fun m hm => hr m (hmem m hm))
  have hnd : noDup modes = true := by simp [noDup, hd]
  have hat : ∀ a, a < s.length → at' s a ∈ modes := by
    intro a ha
    apply hmem
    simp only [at', List.getD_eq_getElem?_getD, List.getElem?_eq_getElem ha, Option.getD_some]
    exact List.getElem_mem ha
  refine ⟨r, r', ?_, ?_, ?_, ?_⟩
  · simp [gaussParityArgs, hnd, hs, hr1, hlen, bind, Except.bind, pure, Except.pure]
  · simp [gaussParityArgs, hnd, hs, hr1', hlen, bind, Except.bind, pure, Except.pure]
  · intro a ha
    rw [← hlen] at ha
    by_cases h : a < s.length
    · have e := hE a a h h
      have e' := hE' a a h h
      rw [e.1, e'.1]
      exact (hmu _ (hat a h)).1
    · obtain ⟨a', rfl⟩ : ∃ a', a = a' + s.length := ⟨a - s.length, by omega⟩
      have h' : a' < s.length := by omega
      have e := hE a' a' h' h'
      have e' := hE' a' a' h' h'
      rw [e.2.1, e'.2.1]
      exact (hmu _ (hat a' h')).2
  · intro a b ha hb
    rw [← hlen] at ha hb
    by_cases h : a < s.length
    · by_cases hb' : b < s.length
      · have e := hE a b h hb'
        have e' := hE' a b h hb'
        rw [e.2.2.1, e'.2.2.1]
        exact (hcov _ (hat a h) _ (hat b hb')).1
      · obtain ⟨b', rfl⟩ : ∃ b', b = b' + s.length := ⟨b - s.length, by omega⟩
        have hb'' : b' < s.length := by omega
        have e := hE a b' h hb''
        have e' := hE' a b' h hb''
        rw [e.2.2.2.1, e'.2.2.2.1]
        exact (hcov _ (hat a h) _ (hat b' hb'')).2.1
    · obtain ⟨a', rfl⟩ : ∃ a', a = a' + s.length := ⟨a - s.length, by omega⟩
      have h' : a' < s.length := by omega
      by_cases hb' : b < s.length
      · have e := hE a' b h' hb'
        have e' := hE' a' b h' hb'
        rw [e.2.2.2.2.1, e'.2.2.2.2.1]
        exact (hcov _ (hat a' h') _ (hat b hb')).2.2.1
      · obtain ⟨b', rfl⟩ : ∃ b', b = b' + s.length := ⟨b - s.length, by omega⟩
        have hb'' : b' < s.length := by omega
        have e := hE a' b' h' hb''
        have e' := hE' a' b' h' hb''
        rw [e.2.2.2.2.2, e'.2.2.2.2.2]
        exact (hcov _ (hat a' h') _ (hat b' hb'')).2.2.2

/-- `fidelity_vacuum()` is `fidelity_coherent` of the zero vector over all modes -/
theorem fidelityVacuum_zero [MulZeroClass K] (sq h2 : K) (n : Nat) :
    fidelityVacuumArgs sq h2 n = fidelityCoherentArgs sq h2 n (fun _ => 0) (fun _ => 0) ∧
    (∀ a, (fidelityVacuumArgs sq h2 n).1 a = 0) ∧ (fidelityVacuumArgs sq h2 n).2.2 = List.range n := by
  refine ⟨rfl, ?_, rfl⟩
  intro a
  simp [fidelityVacuumArgs, fidelityCoherentArgs]

namespace GaussAux

/-- the per-shot product does not depend on the order of the modes -/
theorem productForModes_perm (samples : List (List Int)) (modes modes' : List Nat) (h : modes.Perm modes') :
    productForModes samples modes = productForModes samples modes' := by
  unfold productForModes
  refine List.map_congr_left ?_
  intro row _
  induction h with
  | nil => rfl
  | cons x _ ih => simp only [List.foldr_cons, ih]
  | swap x y l => simp only [List.foldr_cons]; ring
  | trans _ _ ih1 ih2 => exact ih1.trans ih2

end GaussAux

/-- `samples_expectation` does not depend on the order in which the modes are listed -/
theorem samplesExpectation_perm (samples : List (List Int)) (modes modes' : List Nat) (h : modes.Perm modes') :
    samplesExpectation samples modes = samplesExpectation samples modes' ∧
    samplesVariance samples modes = samplesVariance samples modes' := by
  simp only [samplesExpectation, samplesVariance, GaussAux.productForModes_perm samples modes modes' h, and_self]

end SFV.States
