import SFV.Model.HwCompile

/-!
# `GBS.compile`: the options of the combined Fock measurement follow the modes, not the positions (C12).  Core Lean only.
-/
namespace SFV.Hw

theorem mem_insertSorted (m x : Nat) (l : List Nat) : x ∈ insertSorted m l ↔ x = m ∨ x ∈ l := by
  induction l with
  | nil => simp [insertSorted]
  | cons y ys ih =>
    simp only [insertSorted]
    by_cases h1 : m < y
    · simp [h1]
    · by_cases h2 : m = y
      · subst h2; simp [h1]
      · simp only [h1, h2, if_false, List.mem_cons, ih]
        constructor
        · rintro (h | h | h)
          · exact Or.inr (Or.inl h)
          · exact Or.inl h
          · exact Or.inr (Or.inr h)
        · rintro (h | h | h)
          · exact Or.inr (Or.inl h)
          · exact Or.inl h
          · exact Or.inr (Or.inr h)

theorem mem_sortedModes (x : Nat) (l : List Nat) : x ∈ sortedModes l ↔ x ∈ l := by
  induction l with
  | nil => simp [sortedModes]
  | cons y ys ih =>
    simp only [sortedModes, List.foldr_cons, mem_insertSorted, List.mem_cons]
    simp only [sortedModes] at ih
    rw [ih]

/-- with distinct keys, the lookup returns the value stored with the key -/
theorem optLookup_of_nodup {α : Type} (pairs : List (Nat × α)) (h : (pairs.map (·.1)).Nodup) (m : Nat) (v : α)
    (hm : (m, v) ∈ pairs) : optLookup pairs m = some v := by
  unfold optLookup
  cases hf : pairs.reverse.find? (fun p => decide (p.1 = m)) with
  | none =>
    have := List.find?_eq_none.1 hf (m, v) (List.mem_reverse.2 hm)
    simp at this
  | some p =>
    have hp := List.find?_some hf
    have hmem : p ∈ pairs := List.mem_reverse.1 (List.mem_of_find?_eq_some hf)
    simp only [decide_eq_true_eq] at hp
    -- same key, distinct keys ⇒ same pair
    have : p = (m, v) := by
      clear hf
      induction pairs with
      | nil => simp at hm
      | cons q qs ih =>
        simp only [List.map_cons, List.nodup_cons] at h
        rcases List.mem_cons.1 hmem with h1 | h1 <;> rcases List.mem_cons.1 hm with h2 | h2
        · rw [h1, h2]
        · exact absurd (List.mem_map_of_mem (f := (·.1)) h2) (by rw [← h1] at h; simpa [hp] using h.1)
        · exact absurd (List.mem_map_of_mem (f := (·.1)) h1) (by rw [← h2] at h; simpa [hp] using h.1)
        · exact ih h.2 h2 h1
    simp [this]

theorem zip_fst_sublist {α : Type} (l : List Nat) (s : List α) : ((l.zip s).map (·.1)).Sublist l := by
  induction l generalizing s with
  | nil => simp
  | cons x xs ih =>
    cases s with
    | nil => simp
    | cons y ys => simpa using (ih ys).cons₂ x

/-- the keys of the collected option pairs are a sublist of the measured modes -/
theorem optKeys_sublist {α : Type} (B : List FockCmd) (f : FockCmd → Option (List α)) :
    ((B.flatMap fun c => optPairs c.regs (f c)).map (·.1)).Sublist (B.flatMap (·.regs)) := by
  induction B with
  | nil => simp
  | cons c cs ih =>
    simp only [List.flatMap_cons, List.map_append]
    apply List.Sublist.append _ ih
    cases f c with
    | none => simp [optPairs]
    | some s =>
      exact zip_fst_sublist _ _

/-- the pair `(mode, value)` of position `k` of a command is among the collected pairs -/
theorem optPair_mem {α : Type} (B : List FockCmd) (f : FockCmd → Option (List α)) (c : FockCmd) (hc : c ∈ B) (s : List α)
    (hs : f c = some s) (k : Nat) (h1 : k < c.regs.length) (h2 : k < s.length) :
    (c.regs[k], s[k]) ∈ (B.flatMap fun c => optPairs c.regs (f c)) := by
  rw [List.mem_flatMap]
  refine ⟨c, hc, ?_⟩
  simp only [hs, optPairs]
  rw [List.mem_iff_getElem]
  exact ⟨k, by simp; omega, by simp⟩

theorem isEmpty_false_of_mem {α : Type} {l : List α} {a : α} (h : a ∈ l) : l.isEmpty = false := by
  cases l with
  | nil => simp at h
  | cons _ _ => rfl

/-- **the options follow the modes**: when the commands measure disjoint modes and the collection succeeds, the combined
measurement acts on exactly the measured modes, and at the place of every mode it carries the post-selection value (dark count)
that the source command gave for that mode — whatever the order of the commands and of the modes inside them -/
theorem gbsOptions_spec (B : List FockCmd) (hdis : (B.flatMap (·.regs)).Nodup)
    (modes : List Nat) (sel : Option (List Nat)) (dk : Option (List Rat)) (h : gbsOptions B = .ok (modes, sel, dk)) :
    (∀ m, m ∈ modes ↔ ∃ c ∈ B, m ∈ c.regs) ∧
    (∀ c ∈ B, ∀ s, c.select = some s → ∀ k (h1 : k < c.regs.length) (h2 : k < s.length),
      ∃ out, sel = some out ∧ ∃ j : Nat, modes[j]? = some c.regs[k] ∧ out[j]? = some s[k]) ∧
    (∀ c ∈ B, ∀ d, c.dark = some d → ∀ k (h1 : k < c.regs.length) (h2 : k < d.length),
      ∃ out, dk = some out ∧ ∃ j : Nat, modes[j]? = some c.regs[k] ∧ out[j]? = some d[k]) := by
  unfold gbsOptions at h
  simp only at h
  split at h
  · cases h
  · simp only [Except.ok.injEq, Prod.mk.injEq] at h
    obtain ⟨rfl, rfl, rfl⟩ := h
    have hmodes : ∀ m, m ∈ sortedModes (B.flatMap (·.regs)) ↔ ∃ c ∈ B, m ∈ c.regs := by
      intro m
      rw [mem_sortedModes, List.mem_flatMap]
    refine ⟨hmodes, ?_, ?_⟩
    · intro c hc s hs k h1 h2
      have hpair := optPair_mem B (·.select) c hc s hs k h1 h2
      have hne := isEmpty_false_of_mem hpair
      have hnd := (optKeys_sublist B (·.select)).nodup hdis
      have hl := optLookup_of_nodup _ hnd _ _ hpair
      have hm : c.regs[k] ∈ sortedModes (B.flatMap (·.regs)) := (hmodes _).2 ⟨c, hc, List.getElem_mem h1⟩
      obtain ⟨j, hj, hje⟩ := List.mem_iff_getElem.1 hm
      refine ⟨_, by rw [hne]; rfl, j, by simp [hj, hje], ?_⟩
      simp [hj, hje, hl]
    · intro c hc d hd k h1 h2
      have hpair := optPair_mem B (·.dark) c hc d hd k h1 h2
      have hne := isEmpty_false_of_mem hpair
      have hnd := (optKeys_sublist B (·.dark)).nodup hdis
      have hl := optLookup_of_nodup _ hnd _ _ hpair
      have hm : c.regs[k] ∈ sortedModes (B.flatMap (·.regs)) := (hmodes _).2 ⟨c, hc, List.getElem_mem h1⟩
      obtain ⟨j, hj, hje⟩ := List.mem_iff_getElem.1 hm
      refine ⟨_, by rw [hne]; rfl, j, by simp [hj, hje], ?_⟩
      simp [hj, hje, hl]

end SFV.Hw
