import SFV.Proofs.RegisterSim
/-! `All(gate) | reg` is simulated by the abstract rows, and the keys of `samples_dict` are exactly the indices of the
measured subsystems.  Core Lean only. -/
set_option linter.unusedSectionVars false
set_option linter.unusedSimpArgs false
namespace SFV.Reg
section AllSec
variable {D B : Type} [DataSem D]

/-- abstract effect of `All(gate k)` on the indices `is` -/
def aAll (k : Int) (is : List Nat) (a : Rows D) : Rows D :=
  is.foldl (fun a i => Rows.upd (DataSem.gate k) [i] a) a

theorem liveAt_of_flags {a a' : Rows D} (h : a'.map Option.isSome = a.map Option.isSome) (i : Nat) :
    Rows.liveAt a' i = Rows.liveAt a i := by
  rw [liveAt_flags, liveAt_flags, h]

/-- one single-mode gate through `step` -/
theorem use1_sim {o : BackendOps D B} {abs : B → Rows D} {Inv : B → Prop} {s : Sys B} {a : Rows D}
    (h : Sim o abs Inv s a) (r : Ref) (i : Nat) (k : Int) (hr : r.idx? = some i) (hl : Rows.liveAt a i = true) :
    ∃ p', s.prog.useOp [r] k [] = .ok p' ∧ Sim o abs Inv { s with prog := p' } (Rows.upd (DataSem.gate k) [i] a) := by
  have key := step_use h [r] k []
  have hidx : idxAll [r] = some [i] := by simp [idxAll, hr]
  have hok : a.okSel [i] = true := by simp [Rows.okSel, hl, hasDup]
  have haS : aStep a (.use [r] k []) = some (Rows.upd (DataSem.gate k) [i] a) := by
    simp [aStep, idxAll, hr, hok]
  rw [haS] at key
  obtain ⟨s', hs, hsim⟩ := key
  simp only [step] at hs
  cases hu : s.prog.useOp [r] k [] with
  | error e => simp [hu] at hs
  | ok p' =>
    simp only [hu, Except.ok.injEq] at hs
    subst hs
    exact ⟨p', rfl, hsim⟩

theorem foldlM_use_sim {o : BackendOps D B} {abs : B → Rows D} {Inv : B → Prop} (k : Int) :
    ∀ (reg : List Ref) (is : List Nat) (s : Sys B) (a : Rows D), Sim o abs Inv s a → idxAll reg = some is →
    is.all (Rows.liveAt a) = true →
    ∃ p', reg.foldlM (fun q r => q.useOp [r] k []) s.prog = .ok p' ∧ Sim o abs Inv { s with prog := p' } (aAll k is a) := by
  intro reg
  induction reg with
  | nil =>
    intro is s a h hi _
    simp only [idxAll, Option.some.injEq] at hi
    subst hi
    exact ⟨s.prog, rfl, by simpa [aAll] using h⟩
  | cons r rest ih =>
    intro is s a h hi hl
    obtain ⟨i, is', hri, hrest, rfl⟩ := idxAll_cons hi
    simp only [List.all_cons, Bool.and_eq_true] at hl
    obtain ⟨p1, h1, hsim1⟩ := use1_sim h r i k hri hl.1
    have hfl : (Rows.upd (DataSem.gate k) [i] a).map Option.isSome = a.map Option.isSome :=
      upd_flags _ [i] a (by simp [hl.1])
    have hl' : is'.all (Rows.liveAt (Rows.upd (DataSem.gate k) [i] a)) = true := by
      rw [List.all_eq_true]
      intro j hj
      rw [liveAt_of_flags hfl]
      exact (List.all_eq_true.1 hl.2) j hj
    obtain ⟨p2, h2, hsim2⟩ := ih is' { s with prog := p1 } _ hsim1 hrest hl'
    refine ⟨p2, ?_, ?_⟩
    · simp only [List.foldlM_cons, h1]
      exact h2
    · simpa [aAll] using hsim2

/-- **`All(gate k) | reg` is simulated**: accepted iff every item denotes a live index and none is repeated (the empty
selection is accepted); then the program has one more single-mode gate per item and represents `aAll k is a` -/
theorem allOp_sim {o : BackendOps D B} {abs : B → Rows D} {Inv : B → Prop} {s : Sys B} {a : Rows D}
    (h : Sim o abs Inv s a) (reg : List Ref) (k : Int) :
    match idxAll reg with
    | some is =>
      if selB a is then ∃ p', s.prog.allOp reg k = .ok p' ∧ Sim o abs Inv { s with prog := p' } (aAll k is a)
      else ∃ e, s.prog.allOp reg k = .error e
    | none => ∃ e, s.prog.allOp reg k = .error e := by
  have ht := testRegrefs_sel h.pinv h.flags reg
  rw [allOp_eq]
  cases hi : idxAll reg with
  | none =>
    simp only [hi] at ht ⊢
    obtain ⟨e, he⟩ := ht
    simp only [he]; exact ⟨e, rfl⟩
  | some is =>
    simp only [hi] at ht ⊢
    by_cases hs : selB a is = true
    · simp only [hs, if_true] at ht ⊢
      simp only [ht]
      have hl : is.all (Rows.liveAt a) = true := by
        simp only [selB, Bool.and_eq_true] at hs; exact hs.1
      exact foldlM_use_sim k reg is s a h hi hl
    · simp only [hs, Bool.false_eq_true, if_false] at ht ⊢
      obtain ⟨e, he⟩ := ht
      simp only [he]; exact ⟨e, rfl⟩
end AllSec

/-! keys of `samples_dict` -/
theorem mem_insertKey (m : Nat) : ∀ (l : List Nat) (x : Nat), x ∈ insertKey m l ↔ x = m ∨ x ∈ l := by
  intro l
  induction l with
  | nil => intro x; simp [insertKey]
  | cons a as ih =>
    intro x
    simp only [insertKey]
    split
    · simp
    · split
      · rename_i h; subst h; simp
      · simp only [List.mem_cons, ih]
        constructor
        · rintro (h | h | h) <;> simp [h]
        · rintro (h | h | h) <;> simp [h]

theorem mem_foldl_insertKey : ∀ (reg ks : List Nat) (x : Nat),
    x ∈ reg.foldl (fun ks m => insertKey m ks) ks ↔ x ∈ reg ∨ x ∈ ks := by
  intro reg
  induction reg with
  | nil => intro ks x; simp
  | cons m ms ih =>
    intro ks x
    simp only [List.foldl_cons, ih, mem_insertKey, List.mem_cons]
    constructor
    · rintro (h | h | h) <;> simp [h]
    · rintro ((h | h) | h) <;> simp [h]

theorem mem_samplesKeys_aux : ∀ (cs : List Cmd) (ks : List Nat) (x : Nat),
    x ∈ cs.foldl samplesStep ks ↔ (∃ c ∈ cs, c.op = .measure ∧ x ∈ c.reg) ∨ x ∈ ks := by
  intro cs
  induction cs with
  | nil => intro ks x; simp
  | cons c cs ih =>
    intro ks x
    simp only [List.foldl_cons, ih, List.mem_cons, exists_eq_or_imp, samplesStep]
    cases hop : c.op with
    | measure =>
      simp only [mem_foldl_insertKey, true_and]
      constructor
      · rintro (h | h | h)
        · exact Or.inl (Or.inr h)
        · exact Or.inl (Or.inl h)
        · exact Or.inr h
      · rintro ((h | h) | h)
        · exact Or.inr (Or.inl h)
        · exact Or.inl h
        · exact Or.inr (Or.inr h)
    | newModes n => simp
    | delete => simp
    | gate k => simp

/-- **`samples_dict` is keyed by subsystem index**: a key occurs iff some measurement of the segment acted on that index -/
theorem mem_samplesKeys (cs : List Cmd) (x : Nat) :
    x ∈ samplesKeys cs ↔ ∃ c ∈ cs, c.op = .measure ∧ x ∈ c.reg := by
  unfold samplesKeys
  rw [mem_samplesKeys_aux]
  simp
end SFV.Reg
