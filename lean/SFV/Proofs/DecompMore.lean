import SFV.Proofs.DecompUnitary
/-! Further lemmas for C17: the Mach-Zehnder phase push-through of `rectangular_symmetric`, the relocation
step and the index sets of `_absorb_zeta`, the SU(2)/SU(3) steps of `sun_compact`, the order logic of the real
branch of `takagi`, the structure of its complex branch, the permutation of `bloch_messiah`, and the
tabulation helpers of the driver. -/
namespace SFV.Decomp
set_option linter.unusedSimpArgs false
set_option linter.unusedSectionVars false
open Cx

/-! ### `rectangular_symmetric`: `MZ⁻¹ D = D' MZ'` -/
section pushMZ
variable {K : Type} [CommRing K]

/-- `mach_zehnder(φ_i, φ_e)⁻¹ ⋅ diag(a, b) = diag(a', b') ⋅ mach_zehnder(φ_i, φ_e')` with the parameters
`rectangular_symmetric` computes: `e^{iφ_e'} = a conj b`, `a' = −b conj(e) conj(w)`, `b' = −b conj(w)`,
`w = e^{iφ_i} = (c + i s)²` (`c, s` the atoms of the half internal angle). -/
theorem push_phase_MZ (c s : K) (a b e : Cx K) (hcs : c * c + s * s = 1) (hb : b.re * b.re + b.im * b.im = 1) :
    let w : Cx K := ⟨c * c - s * s, 2 * c * s⟩
    let e' : Cx K := a * conj b
    let a' : Cx K := -(b * conj e * conj w)
    let b' : Cx K := -(b * conj w)
    (blkMZi c s e).a * a = a' * (blkMZ c s e').a ∧ (blkMZi c s e).b * b = a' * (blkMZ c s e').b ∧
    (blkMZi c s e).c * a = b' * (blkMZ c s e').c ∧ (blkMZi c s e).d * b = b' * (blkMZ c s e').d := by
  refine ⟨?_, ?_, ?_, ?_⟩ <;> apply Cx.ext' <;> simp [blkMZi, blkMZ]
  · linear_combination (-a.im*b.im^2*c*e.re*s + a.im*b.im^2*e.im*s^2 - a.im*b.re^2*c*e.re*s + a.im*b.re^2*e.im*s^2 + a.re*b.im^2*c*e.im*s + a.re*b.im^2*e.re*s^2 + a.re*b.re^2*c*e.im*s + a.re*b.re^2*e.re*s^2) * hcs + (-a.im*c*e.re*s + a.im*e.im*s^2 + a.re*c*e.im*s + a.re*e.re*s^2) * hb
  · linear_combination (a.im*b.im^2*c*e.im*s + a.im*b.im^2*e.re*s^2 + a.im*b.re^2*c*e.im*s + a.im*b.re^2*e.re*s^2 + a.re*b.im^2*c*e.re*s - a.re*b.im^2*e.im*s^2 + a.re*b.re^2*c*e.re*s - a.re*b.re^2*e.im*s^2) * hcs + (a.im*c*e.im*s + a.im*e.re*s^2 + a.re*c*e.re*s - a.re*e.im*s^2) * hb
  · linear_combination (-b.im*c^2*e.re + b.im*c*e.im*s + b.re*c^2*e.im + b.re*c*e.re*s) * hcs
  · linear_combination (b.im*c^2*e.im + b.im*c*e.re*s + b.re*c^2*e.re - b.re*c*e.im*s) * hcs
  · linear_combination (-a.im*b.im^2*c^2 - a.im*b.im^2 - a.im*b.re^2*c^2 - a.im*b.re^2 + a.im + a.re*b.im^2*c*s + a.re*b.re^2*c*s) * hcs + (a.im*s^2 - a.im + a.re*c*s) * hb
  · linear_combination (a.im*b.im^2*c*s + a.im*b.re^2*c*s + a.re*b.im^2*c^2 + a.re*b.im^2 + a.re*b.re^2*c^2 + a.re*b.re^2 - a.re) * hcs + (a.im*c*s - a.re*s^2 + a.re) * hb
  · linear_combination (b.im*c*s - b.re*s^2) * hcs
  · linear_combination (-b.im*s^2 - b.re*c*s) * hcs

end pushMZ

/-! ### `_absorb_zeta` -/
section absorb
variable {K : Type} [CommRing K]

/-- the relocation step: a phase `f` on the upper mode behind an sMZI is the same as adding it to `σ` and
putting `conj f` on the lower mode (`diag(f, 1) M(σ) = diag(1, conj f) M(σ + ζ)`), entrywise. -/
theorem absorb_step (c s : K) (e f : Cx K) (hf : f.re * f.re + f.im * f.im = 1) :
    f * (blkM c s e).a = (blkM c s (e * f)).a ∧ f * (blkM c s e).b = (blkM c s (e * f)).b ∧
    (blkM c s e).c = conj f * (blkM c s (e * f)).c ∧ (blkM c s e).d = conj f * (blkM c s (e * f)).d := by
  refine ⟨?_, ?_, ?_, ?_⟩ <;> apply Cx.ext' <;> simp [blkM] <;>
    first
    | ring1
    | linear_combination (-(c * e.re)) * hf
    | linear_combination (-(c * e.im)) * hf
    | linear_combination (s * e.re) * hf
    | linear_combination (s * e.im) * hf

theorem mem_evens {a b x : Nat} : x ∈ evens a b ↔ a ≤ x ∧ x < b ∧ (x - a) % 2 = 0 := by
  simp only [evens, List.mem_map, List.mem_range]
  constructor
  · rintro ⟨k, hk, rfl⟩; omega
  · rintro ⟨h1, h2, h3⟩; exact ⟨(x - a) / 2, by omega, by omega⟩

/-- what a valid update is: an sMZI position of the rectangular mesh (`mode` and `layer` of equal parity,
inside the mesh), an edge phase that the circuit actually contains (`(layer + m + 1) % 2 = 0` on mode
`m - 1`), or `phi_outs[0]` for even `m`; the residual phase used exists. -/
def Upd.Valid (m : Nat) (u : Upd) : Prop :=
  u.j < m ∧
  match u.slot with
  | .sigma => u.mode + 1 < m ∧ u.layer < m ∧ u.mode % 2 = u.layer % 2
  | .edge => u.mode = m - 1 ∧ u.layer < m ∧ (u.layer + m + 1) % 2 = 0
  | .out => u.mode = 0 ∧ m % 2 = 0

theorem absorbFor_valid (m j layer : Nat) (b : Bool) (hj : j < m) (hl : layer < m)
    (hpar : j % 2 = layer % 2) (hlay : j + 2 < m → 1 ≤ layer)
    (hedge : if (layer % 2 == 0) == b then (layer + m + 1) % 2 = 0 else (1 ≤ layer ∧ (layer + m) % 2 = 0)) :
    ∀ u ∈ absorbFor m j layer b, u.Valid m := by
  intro u hu
  simp only [absorbFor, List.mem_append, List.mem_map, List.mem_singleton, mem_evens] at hu
  rcases hu with (⟨mode, hm, rfl⟩ | ⟨mode, hm, rfl⟩) | rfl
  · refine ⟨hj, ?_⟩
    dsimp only
    exact ⟨by omega, hl, by omega⟩
  · refine ⟨hj, ?_⟩
    dsimp only
    have := hlay (by omega)
    exact ⟨by omega, by omega, by omega⟩
  · by_cases h : (layer % 2 == 0) == b
    · rw [if_pos h] at hedge ⊢
      refine ⟨hj, ?_⟩
      dsimp only
      exact ⟨rfl, hl, hedge⟩
    · rw [if_neg h] at hedge ⊢
      refine ⟨hj, ?_⟩
      dsimp only
      exact ⟨rfl, by omega, by omega⟩

/-- every update `_absorb_zeta` makes goes to a parameter the circuit has, for every size -/
theorem absorbUpdates_valid (m : Nat) (hm0 : 1 ≤ m) : ∀ u ∈ absorbUpdates m, u.Valid m := by
  intro u hu
  unfold absorbUpdates at hu
  by_cases hm : m % 2 = 0
  · rw [if_pos hm] at hu
    rcases List.mem_cons.mp hu with rfl | hu
    · exact ⟨hm0, rfl, hm⟩
    · obtain ⟨t, ht, hu⟩ := List.mem_flatMap.mp hu
      have ht' := List.mem_range.mp ht
      refine absorbFor_valid m (t + 1) (m - (t + 1)) false (by omega) (by omega) (by omega) (by omega) ?_ u hu
      by_cases h : ((m - (t + 1)) % 2 == 0) == false
      · rw [if_pos h]; simp at h; omega
      · rw [if_neg h]; simp at h; omega
  · rw [if_neg hm] at hu
    obtain ⟨j, hj, hu⟩ := List.mem_flatMap.mp hu
    have hj' := List.mem_range.mp hj
    refine absorbFor_valid m j (m - j - 1) true hj' (by omega) (by omega) (by omega) ?_ u hu
    by_cases h : ((m - j - 1) % 2 == 0) == true
    · rw [if_pos h]; simp at h; omega
    · rw [if_neg h]; simp at h; omega

end absorb

/-! ### `sun_compact`: the general staircase rotation, SU(2) parameters, SU(3) first column -/
section sun
variable {K : Type} [CommRing K]

/-- general branch of `_build_staircase` (after the fix: `cf = √(|y|² + |z|²)`, `Y = y / cf`, `Z = z / cf`):
`R⁻¹ = [[conj Y, conj Z], [−Z, Y]]` sends `(y, z)` to `(cf, 0)`. -/
theorem staircase_step (U : CMat K) (i : Nat) (cf : K) (Y Z : Cx K)
    (hn : Y * conj Y + Z * conj Z = 1) (hy : U i 0 = ofReal cf * Y) (hz : U (i + 1) 0 = ofReal cf * Z) :
    leftMix ⟨conj Y, conj Z, -Z, Y⟩ i (i + 1) U i 0 = ofReal cf ∧
    leftMix ⟨conj Y, conj Z, -Z, Y⟩ i (i + 1) U (i + 1) 0 = 0 := by
  have h1 := congrArg Cx.re hn
  simp at h1
  constructor
  · simp only [leftMix, if_true, hy, hz]
    apply Cx.ext' <;> simp
    · linear_combination cf * h1
    · ring
  · simp only [leftMix, if_true, hy, hz, Nat.succ_ne_self, if_false]
    apply Cx.ext' <;> simp <;> ring

/-- that rotation is unitary -/
theorem staircase_block_unitary (Y Z : Cx K) (hn : Y * conj Y + Z * conj Z = 1) :
    (⟨conj Y, conj Z, -Z, Y⟩ : Blk K).IsUnitary := by
  have h1 := congrArg Cx.re hn
  simp at h1
  constructor <;> apply Cx.ext' <;> simp <;>
    first
    | ring1
    | linear_combination h1

/-- `_su2_parameters`: an SU(2) matrix `[[u, −conj v], [v, conj u]]` with `u = cos(β/2) e^{i(α+γ)/2}` and
`v = sin(β/2) e^{−i(α−γ)/2}` is the documented block `SU2(α, β, γ)` (`ea = e^{iα/2}`, `eg = e^{iγ/2}`). -/
theorem su2_parameters_block (c s : K) (ea eg : Cx K) :
    let u : Cx K := ea * eg * ofReal c
    let v : Cx K := conj ea * eg * ofReal s
    blkSU2 c s ea eg = ⟨u, -conj v, v, conj u⟩ := by
  simp only [blkSU2]
  congr 1 <;> apply Cx.ext' <;> simp <;> ring

/-- typical case of `_su3_parameters`: with `left = 1 ⊕ [[Y, −conj Z], [Z, conj Y]]` and
`middle = [[x, −cf], [cf, conj x]] ⊕ 1`, the first column `(x, y, z)` of `U` is sent to `(1, 0, 0)` by
`middle† left†`, so the remainder `right` is again of the form `1 ⊕ SU(2)`. -/
theorem su3_first_column (x Y Z : Cx K) (cf : K) (hn : Y * conj Y + Z * conj Z = 1)
    (hx : x * conj x + ofReal (cf * cf) = 1) :
    let y : Cx K := ofReal cf * Y
    let z : Cx K := ofReal cf * Z
    -- left† (x, y, z) = (x, cf, 0)
    conj Y * y + conj Z * z = ofReal cf ∧ -Z * y + Y * z = 0 ∧
    -- middle† (x, cf, 0) = (1, 0, 0)
    conj x * x + ofReal cf * ofReal cf = 1 ∧ -(ofReal cf) * x + x * ofReal cf = 0 := by
  have h1 := congrArg Cx.re hn
  have h2 := congrArg Cx.re hx
  simp at h1 h2
  refine ⟨?_, ?_, ?_, ?_⟩ <;> apply Cx.ext' <;> simp <;>
    first
    | ring1
    | linear_combination cf * h1
    | linear_combination h2

end sun

/-! ### `takagi` -/
section takagi

/-- complex branch (after the fix): with `N = v d conj(q) vᵀ` (SVD `N = v d w†`, `q = vᵀ w` symmetric), a square
root `r` of `conj q` that is symmetric and commutes with `d` gives the Takagi factor `U = v r`: `U d Uᵀ = N`.
(`t` = transpose; stated in a monoid.) -/
theorem takagi_complex_factors {G : Type} [Monoid G] (v vt d cq r rt : G)
    (hsq : r * r = cq) (hsym : rt = r) (hcomm : r * d = d * r) :
    (v * r) * d * (rt * vt) = v * d * cq * vt := by
  rw [hsym, ← hsq]
  calc v * r * d * (r * vt) = v * (r * d) * r * vt := by simp [mul_assoc]
    _ = v * (d * r) * r * vt := by rw [hcomm]
    _ = v * d * (r * r) * vt := by simp [mul_assoc]

theorem takagiInsert_perm (a : Int × Nat) : ∀ l, (takagiInsert a l).Perm (a :: l) := by
  intro l
  induction l with
  | nil => exact List.Perm.refl _
  | cons b l ih =>
    unfold takagiInsert
    by_cases h : takagiBefore a b = true
    · rw [if_pos h]
    · rw [if_neg h]
      exact ((List.Perm.cons b ih).trans (List.Perm.swap a b l))

theorem takagiSort_perm : ∀ l, (takagiSort l).Perm l := by
  intro l
  induction l with
  | nil => exact List.Perm.refl _
  | cons a l ih => exact (takagiInsert_perm a _).trans (List.Perm.cons a ih)

theorem takagiInsert_pairwise (a : Int × Nat) : ∀ l, l.Pairwise (fun x y => takagiBefore x y = true) →
    (takagiInsert a l).Pairwise (fun x y => takagiBefore x y = true) := by
  intro l
  induction l with
  | nil => intro _; simp [takagiInsert]
  | cons b l ih =>
    intro hp
    have hb := List.pairwise_cons.mp hp
    unfold takagiInsert
    by_cases h : takagiBefore a b = true
    · rw [if_pos h]
      refine List.pairwise_cons.mpr ⟨?_, hp⟩
      intro x hx
      rcases List.mem_cons.mp hx with rfl | hx
      · exact h
      · have := hb.1 x hx
        simp only [takagiBefore, decide_eq_true_eq] at *
        omega
    · rw [if_neg h]
      refine List.pairwise_cons.mpr ⟨?_, ih hb.2⟩
      intro x hx
      rcases List.mem_cons.mp ((takagiInsert_perm a l).mem_iff.mp hx) with rfl | hx
      · simp only [takagiBefore, decide_eq_true_eq] at *
        omega
      · exact hb.1 x hx

theorem takagiSort_pairwise : ∀ l, (takagiSort l).Pairwise (fun x y => takagiBefore x y = true) := by
  intro l
  induction l with
  | nil => simp [takagiSort]
  | cons a l ih => exact takagiInsert_pairwise a _ ih

theorem takagiOrder_perm (l : List Int) :
    (takagiOrder l).Perm ((l.map fun x => (x.natAbs : Int)).zipIdx) :=
  takagiSort_perm _

/-- the returned values are in decreasing order -/
theorem takagiOrder_sorted (l : List Int) :
    (takagiOrder l).Pairwise fun a b => b.1 ≤ a.1 := by
  refine List.Pairwise.imp ?_ (takagiSort_pairwise _)
  intro a b hab
  simp only [takagiBefore, decide_eq_true_eq] at hab
  omega

/-- and they are non-negative -/
theorem takagiOrder_nonneg (l : List Int) : ∀ p ∈ takagiOrder l, 0 ≤ p.1 := by
  intro p hp
  have h1 := List.fst_mem_of_mem_zipIdx ((takagiOrder_perm l).mem_iff.mp hp)
  obtain ⟨x, _, hx⟩ := List.mem_map.mp h1
  rw [← hx]; exact Int.natCast_nonneg _

/-- every index occurs exactly once: the order is a permutation of the positions, with the right value -/
theorem takagiOrder_index (l : List Int) (p : Int × Nat) (hp : p ∈ takagiOrder l) :
    ∃ x, l[p.2]? = some x ∧ p.1 = (x.natAbs : Int) := by
  have h1 := List.mem_zipIdx_iff_getElem?.mp ((takagiOrder_perm l).mem_iff.mp hp)
  rw [List.getElem?_map] at h1
  cases h : l[p.2]? with
  | none => rw [h] at h1; simp at h1
  | some x =>
    rw [h] at h1
    simp only [Option.map_some, Option.some.injEq] at h1
    exact ⟨x, rfl, h1.symm⟩

end takagi

/-! ### `bloch_messiah`: the reordering permutation -/
section bm

/-- `pmat` is symmetric (the code uses `pmat @ diag(ss) @ pmat`): the permutation is an involution of `0 … 2n-1` -/
theorem bmPerm_involutive (n i : Nat) (hi : i < 2 * n) : bmPerm n (bmPerm n i) = i ∧ bmPerm n i < 2 * n := by
  unfold bmPerm
  by_cases h : i < n
  · simp [h]; omega
  · simp only [h, if_false]
    have h2 : ¬ (3 * n - 1 - i < n) := by omega
    simp only [h2, if_false]
    omega

/-- singular values of a symplectic matrix sorted decreasingly come in pairs `ss (2n-1-i) = inv (ss i)`; after the
permutation the diagonal is `(s₁ … s_n, 1/s₁ … 1/s_n)`: entry `n + i` is the inverse of entry `i`. -/
theorem bmPerm_pairs {α : Type} (n : Nat) (ss : Nat → α) (inv : α → α)
    (hpair : ∀ i, i < n → ss (2 * n - 1 - i) = inv (ss i)) (i : Nat) (hi : i < n) :
    ss (bmPerm n i) = ss i ∧ ss (bmPerm n (n + i)) = inv (ss i) := by
  unfold bmPerm
  have h2 : ¬ (n + i < n) := by omega
  simp only [hi, if_true, h2, if_false, true_and]
  have : 3 * n - 1 - (n + i) = 2 * n - 1 - i := by omega
  rw [this]; exact hpair i hi

end bm

/-! ### the driver's tabulation helpers are the identity inside the matrix -/
section tab

theorem ofTable_tabulate {K : Type} [Zero K] (n : Nat) (U : CMat K) (i j : Nat) (hi : i < n) (hj : j < n) :
    ofTable (tabulate n U) i j = U i j := by
  simp [ofTable, tabulate, Array.getD_eq_getD_getElem?, Array.getElem?_ofFn, hi, hj]

theorem ofTablePat_tabulatePat (n : Nat) (Z : Pat) (i j : Nat) (hi : i < n) (hj : j < n) :
    ofTablePat (tabulatePat n Z) i j = Z i j := by
  simp [ofTablePat, tabulatePat, Array.getD_eq_getD_getElem?, Array.getElem?_ofFn, hi, hj]

/-- the pattern the driver evaluates (tabulated after every step) is the proved `runPat` inside the matrix,
for every schedule whose mixes stay inside the matrix -/
theorem runPatTab_eq (n : Nat) (l : List Step) : ∀ (a : Array (Array Bool)) (Z : Pat),
    (∀ s ∈ l, s.p + 1 < n) → (∀ i j, i < n → j < n → ofTablePat a i j = Z i j) →
    ∀ i j, i < n → j < n → ofTablePat (runPatTab n a l) i j = runPat Z l i j := by
  induction l with
  | nil => intro a Z _ h; exact h
  | cons s l ih =>
    intro a Z hs h
    have hp := hs s List.mem_cons_self
    show ∀ i j, i < n → j < n →
      ofTablePat (runPatTab n (tabulatePat n (applyStep (ofTablePat a) s)) l) i j = runPat (applyStep Z s) l i j
    apply ih _ _ (fun t ht => hs t (List.mem_cons_of_mem _ ht))
    intro i j hi hj
    rw [ofTablePat_tabulatePat n _ i j hi hj]
    simp only [applyStep]
    rw [h s.p j (by omega) hj, h (s.p + 1) j hp hj, h i s.p hi (by omega), h i (s.p + 1) hi hp, h i j hi hj]

end tab

end SFV.Decomp
