import SFV.Model.Engine
/-! Lemmas about the engine model (C09). -/
namespace SFV.Eng

/-! ### the command loop is a fold -/

theorem runCircuit_append (free : String → Option Rat) (outc : Outc) (a b : List Cmd) (st : RunSt) :
    runCircuit free outc st (a ++ b) =
      match runCircuit free outc st a with
      | .error e => .error e
      | .ok (st1, t1) =>
        match runCircuit free outc st1 b with
        | .error e => .error e
        | .ok (st2, t2) => .ok (st2, t1 ++ t2) := by
  induction a generalizing st with
  | nil =>
    simp only [List.nil_append, runCircuit]
    cases runCircuit free outc st b with
    | error e => rfl
    | ok r => simp
  | cons c rest ih =>
    simp only [List.cons_append, runCircuit]
    cases applyCmd free outc st c with
    | error e => rfl
    | ok r =>
      obtain ⟨st1, t1⟩ := r
      simp only [ih]
      cases runCircuit free outc st1 rest with
      | error e => rfl
      | ok r2 =>
        obtain ⟨st2, t2⟩ := r2
        simp only
        cases runCircuit free outc st2 b with
        | error e => rfl
        | ok r3 => simp [List.append_assoc]

/-! ### a circuit reads the measured values only at its open dependencies -/

theorem evalPar_congr {v v' : Nat → Option Val} (free : String → Option Rat) (p : Par)
    (h : ∀ m, p.dep = some m → v m = v' m) : evalPar v free p = evalPar v' free p := by
  cases p with
  | num c => rfl
  | sym a k c =>
    cases a with
    | meas m => simp only [evalPar]; rw [h m rfl]
    | free f => rfl

theorem evalPars_congr {v v' : Nat → Option Val} (free : String → Option Rat) (ps : List Par)
    (h : ∀ m ∈ ps.filterMap Par.dep, v m = v' m) : evalPars v free ps = evalPars v' free ps := by
  induction ps with
  | nil => rfl
  | cons p rest ih =>
    have h1 : evalPar v free p = evalPar v' free p := by
      apply evalPar_congr
      intro m hm
      apply h
      simp [hm]
    have h2 : evalPars v free rest = evalPars v' free rest := by
      apply ih
      intro m hm
      apply h
      simp only [List.filterMap_cons]
      cases p.dep with
      | none => exact hm
      | some x => exact List.mem_cons_of_mem _ hm
    simp only [evalPars, h1, h2]

theorem dep_neg (p : Par) : p.neg.dep = p.dep := by
  cases p with
  | num c => rfl
  | sym a k c => cases a <;> rfl

theorem deps_gateArgs (pars ps : List Par) (dg : Bool) (h : gateArgs pars dg = some ps) :
    ps.filterMap Par.dep = pars.filterMap Par.dep := by
  cases pars with
  | nil => simp [gateArgs] at h
  | cons p0 rest =>
    simp only [gateArgs] at h
    split at h
    · cases h
    · cases h
      cases dg with
      | false => rfl
      | true => simp [List.filterMap_cons, dep_neg]

theorem storeVals_congr (v v' : Nat → Option Val) (rs : List Nat) (o : List (List Rat)) (m : Nat)
    (h : v m = v' m) : storeVals v rs o m = storeVals v' rs o m := by
  induction rs generalizing v v' o with
  | nil => simpa [storeVals] using h
  | cons r rest ih =>
    simp only [storeVals]
    apply ih
    simp only [h]

theorem storeVals_mem (v v' : Nat → Option Val) (rs : List Nat) (o : List (List Rat)) (m : Nat)
    (h : m ∈ rs) : storeVals v rs o m = storeVals v' rs o m := by
  induction rs generalizing v v' o with
  | nil => cases h
  | cons r rest ih =>
    simp only [storeVals]
    by_cases hm : m = r
    · apply storeVals_congr
      simp [hm]
    · apply ih
      cases h with
      | head => exact absurd rfl hm
      | tail _ h' => exact h'

theorem applyGate1_congr {v v' : Nat → Option Val} (free : String → Option Rat) (c : Cmd)
    (h : ∀ m ∈ c.pars.filterMap Par.dep, v m = v' m) : applyGate1 free v c = applyGate1 free v' c := by
  unfold applyGate1
  cases hg : gateArgs c.pars c.dagger with
  | none => rfl
  | some ps =>
    simp only
    rw [evalPars_congr free ps (by rw [deps_gateArgs _ _ _ hg]; exact h)]

theorem mzCalls_congr {v v' : Nat → Option Val} (free : String → Option Rat) (dg : Bool) (pin pex : Par) (a b : Nat)
    (h : ∀ m ∈ [pin, pex].filterMap Par.dep, v m = v' m) :
    mzCalls free v dg pin pex a b = mzCalls free v' dg pin pex a b := by
  unfold mzCalls
  rw [evalPars_congr free [pin, pex] h]

/-- two run states are similar w.r.t. a set `D` of modes: same position in the outcome stream and the
same measured values on `D` -/
def Sim (D : List Nat) (a b : RunSt) : Prop := a.mpos = b.mpos ∧ ∀ m ∈ D, a.vals m = b.vals m

def SimRes (D : List Nat) : Except Err (RunSt × List Call) → Except Err (RunSt × List Call) → Prop
  | .ok (a, t), .ok (b, t') => t = t' ∧ Sim D a b
  | .error e, .error e' => e = e'
  | _, _ => False

theorem applyCmd_sim (free : String → Option Rat) (outc : Outc) (c : Cmd) (D : List Nat)
    (st st' : RunSt)
    (h : Sim (c.deps ++ D.filter fun m => !(c.kind == .meas && c.regs.contains m)) st st') :
    SimRes D (applyCmd free outc st c) (applyCmd free outc st' c) := by
  obtain ⟨hpos, hv⟩ := h
  have hdeps : ∀ m ∈ c.pars.filterMap Par.dep, st.vals m = st'.vals m := fun m hm =>
    hv m (List.mem_append_left _ hm)
  have hD : ∀ m ∈ D, ¬ (c.kind = .meas ∧ m ∈ c.regs) → st.vals m = st'.vals m := by
    intro m hm hnot
    apply hv
    apply List.mem_append_right
    simp only [List.mem_filter, hm, true_and]
    by_cases h1 : c.kind = .meas
    · by_cases h2 : m ∈ c.regs
      · exact absurd ⟨h1, h2⟩ hnot
      · simp [h2]
    · simp [h1]
  unfold applyCmd
  cases hk : c.kind with
  | gate =>
    simp only
    have hst : ∀ m ∈ D, st.vals m = st'.vals m := fun m hm => hD m hm (by simp [hk])
    split
    · rename_i pin pex a b hmz hp hr
      rw [mzCalls_congr free c.dagger pin pex a b (fun m hm => hdeps m (by rw [hp]; exact hm))]
      cases mzCalls free st'.vals c.dagger pin pex a b with
      | error e => exact rfl
      | ok t => exact ⟨rfl, hpos, hst⟩
    · rw [applyGate1_congr free c hdeps]
      cases applyGate1 free st'.vals c with
      | error e => exact rfl
      | ok t => exact ⟨rfl, hpos, hst⟩
  | plain =>
    simp only
    rw [evalPars_congr free c.pars hdeps]
    cases evalPars st'.vals free c.pars with
    | error e => exact rfl
    | ok args =>
      simp only
      cases mkCall c.cls args c with
      | error e => exact rfl
      | ok call => exact ⟨rfl, hpos, fun m hm => hD m hm (by simp [hk])⟩
  | meas =>
    simp only
    rw [evalPars_congr free c.pars hdeps]
    cases evalPars st'.vals free c.pars with
    | error e => exact rfl
    | ok args =>
      simp only
      cases mkCall c.cls args c with
      | error e => exact rfl
      | ok call =>
        refine ⟨rfl, by simp [hpos], ?_⟩
        intro m hm
        simp only [hpos]
        by_cases hr : m ∈ c.regs
        · exact storeVals_mem _ _ _ _ _ hr
        · exact storeVals_congr _ _ _ _ _ (hD m hm (fun hh => hr hh.2))
  | newModes => exact ⟨rfl, hpos, fun m hm => hD m hm (by simp [hk])⟩
  | del => exact ⟨rfl, hpos, fun m hm => hD m hm (by simp [hk])⟩

/-- **a circuit reads the measured values only at its open dependencies**: from two states that agree
there (and, for the conclusion, on `D`), the same calls are made, the same error is raised, and the
final states agree on `D`. -/
theorem runCircuit_sim (free : String → Option Rat) (outc : Outc) (c : List Cmd) (D : List Nat)
    (st st' : RunSt) (h : Sim (openDeps c ++ D) st st') :
    SimRes D (runCircuit free outc st c) (runCircuit free outc st' c) := by
  induction c generalizing st st' D with
  | nil =>
    simp only [runCircuit, SimRes]
    exact ⟨trivial, h.1, fun m hm => h.2 m (by simp [hm])⟩
  | cons c rest ih =>
    simp only [runCircuit]
    have h1 := applyCmd_sim free outc c (openDeps rest ++ D) st st' (by
      refine ⟨h.1, fun m hm => h.2 m ?_⟩
      simp only [openDeps, List.mem_append, List.mem_filter] at hm ⊢
      rcases hm with hm | ⟨hm | hm, hf⟩
      · exact Or.inl (Or.inl hm)
      · exact Or.inl (Or.inr ⟨hm, hf⟩)
      · exact Or.inr hm)
    cases ha : applyCmd free outc st c with
    | error e =>
      cases hb : applyCmd free outc st' c with
      | error e' => rw [ha, hb] at h1; exact h1
      | ok r => rw [ha, hb] at h1; exact h1.elim
    | ok r =>
      obtain ⟨s1, t1⟩ := r
      cases hb : applyCmd free outc st' c with
      | error e' => rw [ha, hb] at h1; exact h1.elim
      | ok r' =>
        obtain ⟨s1', t1'⟩ := r'
        rw [ha, hb] at h1
        obtain ⟨ht, hs⟩ := h1
        have h2 := ih D s1 s1' hs
        simp only
        cases hc : runCircuit free outc s1 rest with
        | error e =>
          cases hd : runCircuit free outc s1' rest with
          | error e' => rw [hc, hd] at h2; exact h2
          | ok r => rw [hc, hd] at h2; exact h2.elim
        | ok r2 =>
          obtain ⟨s2, t2⟩ := r2
          cases hd : runCircuit free outc s1' rest with
          | error e' => rw [hc, hd] at h2; exact h2.elim
          | ok r2' =>
            obtain ⟨s2', t2'⟩ := r2'
            rw [hc, hd] at h2
            exact ⟨by rw [ht, h2.1], h2.2⟩

/-! ### compilation distributes over concatenation -/

theorem bind2_assoc (x y z : Except Err (List Cmd)) : bind2 (bind2 x y) z = bind2 x (bind2 y z) := by
  cases x with
  | error e => rfl
  | ok a => cases y with
    | error e => rfl
    | ok b => cases z with
      | error e => rfl
      | ok c => simp [bind2, List.append_assoc]

theorem liftList_append (f : Cmd → Except Err (List Cmd)) (a b : List Cmd) :
    liftList f (a ++ b) = bind2 (liftList f a) (liftList f b) := by
  induction a with
  | nil =>
    simp only [List.nil_append, liftList]
    cases liftList f b <;> rfl
  | cons c rest ih => simp only [List.cons_append, liftList, ih, bind2_assoc]

theorem decompList_append (n : Nat) (cp : Compiler) (a b : List Cmd) :
    decompList n cp (a ++ b) = bind2 (decompList n cp a) (decompList n cp b) := by
  cases n <;> exact liftList_append _ a b

theorem bind2_ok {x y : Except Err (List Cmd)} {r : List Cmd} (h : bind2 x y = .ok r) :
    ∃ a b, x = .ok a ∧ y = .ok b ∧ r = a ++ b := by
  cases x with
  | error e => simp [bind2] at h
  | ok a => cases y with
    | error e => simp [bind2] at h
    | ok b => exact ⟨a, b, rfl, rfl, by simpa [bind2] using h.symm⟩

/-! ### binding -/

def bindAll (free : String → Option Rat) : List (String × Rat) → (String → Option Rat)
  | [] => free
  | (k, v) :: rest => bindAll (fun f => if f = k then some v else free f) rest

theorem bindParams_ok {names : List String} {free f : String → Option Rat} {args : List (String × Rat)}
    (h : bindParams names free args = .ok f) : f = bindAll free args := by
  induction args generalizing free with
  | nil => simpa [bindParams, bindAll] using h.symm
  | cons kv rest ih =>
    obtain ⟨k, v⟩ := kv
    simp only [bindParams] at h
    split at h
    · exact ih h
    · cases h

/-! ### the loop body, destructured -/

theorem runProgram_local {bk : BK} (hb : bk ≠ .bosonic) (cont : Bool) (free : String → Option Rat) (outc : Outc)
    (n : Nat) (st : RunSt) (c : List Cmd) : runProgram bk cont free outc n st c = runCircuit free outc st c := by
  cases bk with
  | bosonic => exact absurd rfl hb
  | fock => rfl
  | gaussian => rfl

theorem runOne_ok {cp : Compiler} {progs : Nat → Prog} {outc : Outc} {args : List (String × Rat)}
    {e e' : Eng} {w w' : World} {i : Nat} {t : List Call}
    (h : runOne cp progs outc args e w i = .ok (e', w', t)) :
    ∃ circ vals0 t0 free1 st tt,
      decompList compileFuel cp (progs i).circuit = .ok circ ∧
      initStep e (progs i) (w.vals i) = .ok (vals0, t0) ∧
      bindParams (progs i).freeNames (w.free i) args = .ok free1 ∧
      runProgram e.bk e.contd free1 outc (progs i).initN { vals := vals0, mpos := e.mpos } circ = .ok (st, tt) ∧
      e' = { e with prev := some (progs i).regs, runIds := e.runIds ++ [i],
                    samples := some (rowsOf (st.samples.map (·.2))),
                    measured := recordByIndex (progs i).regs st.vals,
                    contd := e.contd || !circ.isEmpty, mpos := st.mpos } ∧
      w' = { vals := setAt w.vals i st.vals, free := setAt w.free i free1, locked := setAt w.locked i true } ∧
      t = t0 ++ tt := by
  unfold runOne compileProg at h
  cases hc : decompList compileFuel cp (progs i).circuit with
  | error err => simp [hc] at h
  | ok circ =>
    simp only [hc] at h
    have hinit : initStep e { progs i with circuit := circ } (w.vals i) = initStep e (progs i) (w.vals i) := rfl
    rw [hinit] at h
    cases hi : initStep e (progs i) (w.vals i) with
    | error err => simp [hi] at h
    | ok r =>
      obtain ⟨vals0, t0⟩ := r
      simp only [hi] at h
      cases hb : bindParams (progs i).freeNames (w.free i) args with
      | error err => simp [hb] at h
      | ok free1 =>
        simp only [hb] at h
        cases hr : runProgram e.bk e.contd free1 outc (progs i).initN { vals := vals0, mpos := e.mpos } circ with
        | error err => simp [hr] at h
        | ok r2 =>
          obtain ⟨st, tt⟩ := r2
          simp only [hr, Except.ok.injEq, Prod.mk.injEq] at h
          exact ⟨circ, vals0, t0, free1, st, tt, rfl, rfl, rfl, hr, h.1.symm, h.2.1.symm, h.2.2.symm⟩

theorem runOne_of {cp : Compiler} {progs : Nat → Prog} {outc : Outc} {args : List (String × Rat)}
    {e : Eng} {w : World} {i : Nat} {circ : List Cmd} {vals0 : Nat → Option Val} {t0 tt : List Call}
    {free1 : String → Option Rat} {st : RunSt}
    (h1 : decompList compileFuel cp (progs i).circuit = .ok circ)
    (h2 : initStep e (progs i) (w.vals i) = .ok (vals0, t0))
    (h3 : bindParams (progs i).freeNames (w.free i) args = .ok free1)
    (h4 : runProgram e.bk e.contd free1 outc (progs i).initN { vals := vals0, mpos := e.mpos } circ = .ok (st, tt)) :
    runOne cp progs outc args e w i =
      .ok ({ e with prev := some (progs i).regs, runIds := e.runIds ++ [i],
                    samples := some (rowsOf (st.samples.map (·.2))),
                    measured := recordByIndex (progs i).regs st.vals,
                    contd := e.contd || !circ.isEmpty, mpos := st.mpos },
           { vals := setAt w.vals i st.vals, free := setAt w.free i free1, locked := setAt w.locked i true },
           t0 ++ tt) := by
  unfold runOne compileProg
  simp only [h1]
  have hinit : initStep e { progs i with circuit := circ } (w.vals i) = initStep e (progs i) (w.vals i) := rfl
  rw [hinit, h2]
  simp only [h3, h4]

/-! ### the segment loop is a fold -/

theorem runList_append (cp : Compiler) (progs : Nat → Prog) (outc : Outc) (args : List (String × Rat))
    (l1 l2 : List Nat) (e : Eng) (w : World) :
    runList cp progs outc args e w (l1 ++ l2) =
      match runList cp progs outc args e w l1 with
      | .error err => .error err
      | .ok (e1, w1, t1) =>
        match runList cp progs outc args e1 w1 l2 with
        | .error err => .error err
        | .ok (e2, w2, t2) => .ok (e2, w2, t1 ++ t2) := by
  induction l1 generalizing e w with
  | nil =>
    simp only [List.nil_append, runList]
    cases runList cp progs outc args e w l2 with
    | error err => rfl
    | ok r => simp
  | cons i rest ih =>
    simp only [List.cons_append, runList]
    cases runOne cp progs outc args e w i with
    | error err => rfl
    | ok r =>
      obtain ⟨e1, w1, t1⟩ := r
      simp only [ih]
      cases runList cp progs outc args e1 w1 rest with
      | error err => rfl
      | ok r2 =>
        obtain ⟨e2, w2, t2⟩ := r2
        simp only
        cases runList cp progs outc args e2 w2 l2 with
        | error err => rfl
        | ok r3 => simp [List.append_assoc]

/-! ### `run [..l1, ..l2]` versus `run l1; run l2` -/

theorem preCheck_append (progs : Nat → Prog) (shots : Nat) (l1 l2 : List Nat) :
    preCheck progs shots (l1 ++ l2) = (preCheck progs shots l1 || preCheck progs shots l2) := by
  simp only [preCheck, List.any_append, Bool.and_or_distrib_left]

theorem take_stateCalls (t s : List Call) : (t ++ s).take ((t ++ s).length - s.length) = t := by
  have : (t ++ s).length - s.length = t.length := by simp
  rw [this, List.take_left']
  rfl

theorem run_append (cp : Compiler) (progs : Nat → Prog) (o : Nat → List (List Rat)) (args : List (String × Rat))
    (kw : RunKw) (l1 l2 : List Nat) (e : Eng) (w : World)
    (hs1 : effShots progs kw l1 = effShots progs kw (l1 ++ l2))
    (hs2 : effShots progs kw l2 = effShots progs kw (l1 ++ l2))
    (hpre : preCheck progs (effShots progs kw (l1 ++ l2)) (l1 ++ l2) = false) :
    run cp progs o args kw e w (l1 ++ l2) =
      match run cp progs o args kw e w l1 with
      | .error err => .error err
      | .ok (e1, w1, t1) =>
        match run cp progs o args kw e1 w1 l2 with
        | .error err => .error err
        | .ok (e2, w2, t2) => .ok (e2, w2, t1.take (t1.length - (stateCalls kw).length) ++ t2) := by
  have hp := hpre
  rw [preCheck_append, Bool.or_eq_false_iff] at hp
  unfold run
  simp only [hs1, hs2, hpre, hp.1, hp.2, Bool.false_eq_true, if_false]
  rw [runList_append]
  cases runList cp progs ⟨o, effShots progs kw (l1 ++ l2)⟩ args e w l1 with
  | error err => rfl
  | ok r =>
    obtain ⟨e1, w1, t1⟩ := r
    simp only
    cases runList cp progs ⟨o, effShots progs kw (l1 ++ l2)⟩ args e1 w1 l2 with
    | error err => rfl
    | ok r2 =>
      obtain ⟨e2, w2, t2⟩ := r2
      simp only [take_stateCalls, List.append_assoc]

theorem run_trace_ends {cp : Compiler} {progs : Nat → Prog} {o : Nat → List (List Rat)} {args : List (String × Rat)}
    {kw : RunKw} {l : List Nat} {e e1 : Eng} {w w1 : World} {t : List Call}
    (h : run cp progs o args kw e w l = .ok (e1, w1, t)) :
    t = t.take (t.length - (stateCalls kw).length) ++ stateCalls kw := by
  unfold run at h
  simp only at h
  split at h
  · cases h
  · cases hr : runList cp progs ⟨o, effShots progs kw l⟩ args e w l with
    | error err => simp [hr] at h
    | ok r =>
      obtain ⟨e2, w2, t2⟩ := r
      simp only [hr, Except.ok.injEq, Prod.mk.injEq] at h
      rw [← h.2.2, take_stateCalls]

theorem mutating_stateCalls (kw : RunKw) : mutating (stateCalls kw) = [] := by
  unfold stateCalls
  cases kw.modes with
  | none => decide
  | some l => cases l with
    | nil => rfl
    | cons a rest => simp [mutating]

theorem mutating_append (a b : List Call) : mutating (a ++ b) = mutating a ++ mutating b := by
  simp [mutating, List.filter_append]

theorem mutating_state : mutating [stateCall] = [] := by decide

/-! ### runIds -/

theorem runList_runIds {cp : Compiler} {progs : Nat → Prog} {outc : Outc} {args : List (String × Rat)}
    {l : List Nat} {e e1 : Eng} {w w1 : World} {t : List Call}
    (h : runList cp progs outc args e w l = .ok (e1, w1, t)) : e1.runIds = e.runIds ++ l ∧ e1.bk = e.bk ∧ e1.opts = e.opts := by
  induction l generalizing e w t e1 w1 with
  | nil =>
    simp only [runList, Except.ok.injEq, Prod.mk.injEq] at h
    rw [← h.1]; simp
  | cons i rest ih =>
    simp only [runList] at h
    cases h1 : runOne cp progs outc args e w i with
    | error err => simp [h1] at h
    | ok r =>
      obtain ⟨e2, w2, t2⟩ := r
      simp only [h1] at h
      cases h2 : runList cp progs outc args e2 w2 rest with
      | error err => simp [h2] at h
      | ok r2 =>
        obtain ⟨e3, w3, t3⟩ := r2
        simp only [h2, Except.ok.injEq, Prod.mk.injEq] at h
        obtain ⟨_, _, _, _, _, _, _, _, _, _, he2, _, _⟩ := runOne_ok h1
        have := ih h2
        rw [← h.1, this.1, this.2.1, this.2.2, he2]
        simp

/-! ### re-running a program whose measured parameters are all measured inside the program -/

theorem bosonicMark_fields (c : Cmd) :
    (bosonicMark c).pars = c.pars ∧ (bosonicMark c).kind = c.kind ∧ (bosonicMark c).regs = c.regs := by
  unfold bosonicMark
  split <;> simp

theorem openDeps_mark (c : List Cmd) : openDeps (c.map bosonicMark) = openDeps c := by
  induction c with
  | nil => rfl
  | cons x rest ih =>
    obtain ⟨h1, h2, h3⟩ := bosonicMark_fields x
    simp only [List.map_cons, openDeps, ih, Cmd.deps, h1, h2, h3]

theorem runProgram_sim (bk : BK) (cont : Bool) (free : String → Option Rat) (outc : Outc) (n : Nat)
    (c : List Cmd) (st st' : RunSt) (h : Sim (openDeps c) st st') :
    SimRes [] (runProgram bk cont free outc n st c) (runProgram bk cont free outc n st' c) := by
  have hs := runCircuit_sim free outc c [] st st' (by simpa using h)
  cases bk with
  | fock => exact hs
  | gaussian => exact hs
  | bosonic =>
    simp only [runProgram]
    cases cont with
    | true =>
      simp only [if_true]
      exact runCircuit_sim free outc (c.map bosonicMark) [] st st' (by rw [openDeps_mark]; simpa using h)
    | false =>
      simp only [Bool.false_eq_true, if_false]
      by_cases hany : (c.any fun c => nonGaussPreps.contains c.cls || c.kind == Kind.newModes) = true
      · simp only [hany]
        exact rfl
      · simp only [hany]
        revert hs
        cases runCircuit free outc st c with
        | error err =>
          cases runCircuit free outc st' c with
          | error err' => exact id
          | ok r => exact id
        | ok r =>
          cases runCircuit free outc st' c with
          | error err' => exact id
          | ok r' =>
            intro hs
            exact ⟨by rw [hs.1], hs.2⟩

theorem runOne_world_indep {cp : Compiler} {progs : Nat → Prog} {outc : Outc} {args : List (String × Rat)}
    {i : Nat} {circ : List Cmd} (hc : decompList compileFuel cp (progs i).circuit = .ok circ)
    (ho : openDeps circ = []) (e : Eng) (hp : e.prev = none) (w w' : World) (hf : w.free i = w'.free i) :
    (runOne cp progs outc args e w i).map (fun r => (r.2.2, r.1.mpos, r.1.prev, r.1.samples.isSome)) =
    (runOne cp progs outc args e w' i).map (fun r => (r.2.2, r.1.mpos, r.1.prev, r.1.samples.isSome)) := by
  unfold runOne compileProg
  simp only [hc]
  have hi : ∀ v, initStep e { progs i with circuit := circ } v =
      .ok (v, [{ name := "begin_circuit", args := [[⟨((progs i).initN : Nat), 0⟩]], opts := e.opts }]) := by
    intro v; unfold initStep; rw [hp]
  rw [hi, hi, hf]
  simp only
  cases bindParams (progs i).freeNames (w'.free i) args with
  | error err => rfl
  | ok free1 =>
    simp only
    have hs := runProgram_sim e.bk e.contd free1 outc (progs i).initN circ
      { vals := w.vals i, mpos := e.mpos } { vals := w'.vals i, mpos := e.mpos } (by rw [ho]; exact ⟨rfl, by simp⟩)
    revert hs
    cases runProgram e.bk e.contd free1 outc (progs i).initN { vals := w.vals i, mpos := e.mpos } circ with
    | error err =>
      cases runProgram e.bk e.contd free1 outc (progs i).initN { vals := w'.vals i, mpos := e.mpos } circ with
      | error err' => intro hs; simp only [SimRes] at hs; simp [Except.map, hs]
      | ok r => intro hs; exact hs.elim
    | ok r =>
      cases runProgram e.bk e.contd free1 outc (progs i).initN { vals := w'.vals i, mpos := e.mpos } circ with
      | error err' => intro hs; exact hs.elim
      | ok r' =>
        intro hs
        obtain ⟨ht, hm, _⟩ := hs
        simp [Except.map, ht, hm]

/-! ### two segments versus the concatenated program -/

/-- the subsystem indices of a register -/
def idxs (regs : List (Nat × Bool)) : List Nat := regs.map (·.1)

theorem hasIdx_iff (regs : List (Nat × Bool)) (m : Nat) : hasIdx regs m = true ↔ m ∈ idxs regs := by
  simp [hasIdx, idxs, List.any_eq_true]

/-- the first step of two programs with the same initial register, started from values that agree on a
set `L` of indices both programs own, yields the same calls and values that agree on `L` -/
theorem initStep_agree (e : Eng) (p p' : Prog) (v v' v0 v0' : Nat → Option Val) (t0 t0' : List Call) (L : List Nat)
    (hn : p.initN = p'.initN) (hir : p.initRegs = p'.initRegs)
    (hL : ∀ m ∈ L, m ∈ idxs p.regs ∧ m ∈ idxs p'.regs) (hv : ∀ m ∈ L, v m = v' m)
    (h : initStep e p v = .ok (v0, t0)) (h' : initStep e p' v' = .ok (v0', t0')) :
    t0 = t0' ∧ ∀ m ∈ L, v0 m = v0' m := by
  unfold initStep at h h'
  cases hp : e.prev with
  | none =>
    simp only [hp, Except.ok.injEq, Prod.mk.injEq] at h h'
    refine ⟨by rw [← h.2, ← h'.2, hn], fun m hm => by rw [← h.1, ← h'.1]; exact hv m hm⟩
  | some prevRegs =>
    simp only [hp] at h h'
    rw [← hir] at h'
    split at h
    · rename_i heq
      simp only [heq, if_true, Except.ok.injEq, Prod.mk.injEq] at h h'
      refine ⟨by rw [← h.2, ← h'.2], fun m hm => ?_⟩
      rw [← h.1, ← h'.1]
      simp only [handOver, (hasIdx_iff _ _).2 (hL m hm).1, (hasIdx_iff _ _).2 (hL m hm).2, if_true]
    · cases h

theorem runList_two {cp : Compiler} {progs : Nat → Prog} {outc : Outc} {args : List (String × Rat)}
    {e ea : Eng} {w wa : World} {i1 i2 : Nat} {ta : List Call}
    (h : runList cp progs outc args e w [i1, i2] = .ok (ea, wa, ta)) :
    ∃ e1 w1 t1 t2, runOne cp progs outc args e w i1 = .ok (e1, w1, t1) ∧
      runOne cp progs outc args e1 w1 i2 = .ok (ea, wa, t2) ∧ ta = t1 ++ t2 := by
  simp only [runList] at h
  cases h1 : runOne cp progs outc args e w i1 with
  | error err => simp [h1] at h
  | ok r =>
    obtain ⟨e1, w1, t1⟩ := r
    simp only [h1] at h
    cases h2 : runOne cp progs outc args e1 w1 i2 with
    | error err => simp [h2] at h
    | ok r2 =>
      obtain ⟨e2, w2, t2⟩ := r2
      simp only [h2, Except.ok.injEq, Prod.mk.injEq, List.append_nil] at h
      exact ⟨e1, w1, t1, t2, rfl, by rw [h2, h.1, h.2.1], h.2.2.symm⟩

theorem runList_one {cp : Compiler} {progs : Nat → Prog} {outc : Outc} {args : List (String × Rat)}
    {e ea : Eng} {w wa : World} {i : Nat} {ta : List Call}
    (h : runList cp progs outc args e w [i] = .ok (ea, wa, ta)) :
    runOne cp progs outc args e w i = .ok (ea, wa, ta) := by
  simp only [runList] at h
  cases h1 : runOne cp progs outc args e w i with
  | error err => simp [h1] at h
  | ok r =>
    obtain ⟨e1, w1, t1⟩ := r
    simp only [h1, Except.ok.injEq, Prod.mk.injEq, List.append_nil] at h
    obtain ⟨rfl, rfl, rfl⟩ := h
    rfl

/-- core of the concatenation argument, on circuits: run `c1` then (from values `v2` that agree with the
result on what `c2` reads) `c2`, versus `c1 ++ c2` from a similar initial state -/
theorem concat_core (free : String → Option Rat) (outc : Outc) (c1 c2 : List Cmd) (L : List Nat)
    (st0 st0' st1 st2 st12 : RunSt) (v2 : Nat → Option Val) (tt1 tt2 tt12 : List Call)
    (h0 : Sim (openDeps c1 ++ L) st0 st0')
    (hr1 : runCircuit free outc st0 c1 = .ok (st1, tt1))
    (hv2 : ∀ m ∈ openDeps c2, m ∈ L ∧ v2 m = st1.vals m)
    (hr2 : runCircuit free outc { vals := v2, mpos := st1.mpos } c2 = .ok (st2, tt2))
    (hr12 : runCircuit free outc st0' (c1 ++ c2) = .ok (st12, tt12)) :
    tt12 = tt1 ++ tt2 ∧ st2.mpos = st12.mpos := by
  rw [runCircuit_append] at hr12
  have hs1 := runCircuit_sim free outc c1 L st0 st0' h0
  rw [hr1] at hs1
  cases h5 : runCircuit free outc st0' c1 with
  | error err => simp [h5] at hr12
  | ok r1 =>
    obtain ⟨st1', tt1'⟩ := r1
    rw [h5] at hs1
    obtain ⟨rfl, hm1, hvs1⟩ := hs1
    simp only [h5] at hr12
    have hs := runCircuit_sim free outc c2 [] { vals := v2, mpos := st1.mpos } st1'
      ⟨hm1, fun m hm => by
        have hmo : m ∈ openDeps c2 := by simpa using hm
        show v2 m = st1'.vals m
        rw [(hv2 m hmo).2]
        exact hvs1 m (hv2 m hmo).1⟩
    rw [hr2] at hs
    cases h4 : runCircuit free outc st1' c2 with
    | error err => simp [h4] at hr12
    | ok r =>
      obtain ⟨st2', tt2'⟩ := r
      rw [h4] at hs
      simp only [h4, Except.ok.injEq, Prod.mk.injEq] at hr12
      obtain ⟨rfl, rfl⟩ := hr12
      obtain ⟨rfl, hm, _⟩ := hs
      exact ⟨rfl, hm⟩

theorem map_mark_of_none (l : List Cmd) (h : ∀ c ∈ l, nonGaussPreps.contains c.cls = false) :
    l.map bosonicMark = l := by
  induction l with
  | nil => rfl
  | cons x rest ih =>
    simp only [List.map_cons, ih (fun c hc => h c (List.mem_cons_of_mem _ hc))]
    have hx := h x (List.mem_cons_self ..)
    unfold bosonicMark
    rw [hx]
    rfl

/-- a successful bosonic first segment: no `init_circuit`-only command, the plain loop ran, one
`begin_circuit` in front unless the circuit is empty -/
theorem runProgram_bosonic_first {free : String → Option Rat} {outc : Outc} {n : Nat} {st st' : RunSt}
    {c : List Cmd} {t : List Call} (h : runProgram .bosonic false free outc n st c = .ok (st', t)) :
    (∀ x ∈ c, nonGaussPreps.contains x.cls = false) ∧
    ∃ t', runCircuit free outc st c = .ok (st', t') ∧
      t = if c.isEmpty then t' else { name := "begin_circuit", args := [[⟨(n : Nat), 0⟩]] } :: t' := by
  simp only [runProgram, Bool.false_eq_true, if_false] at h
  split at h
  · cases h
  · rename_i hany
    refine ⟨fun x hx => ?_, ?_⟩
    · cases hb : nonGaussPreps.contains x.cls with
      | false => rfl
      | true =>
        exact absurd (List.any_eq_true.2 ⟨x, hx, by rw [hb]; rfl⟩) hany
    · cases hr : runCircuit free outc st c with
      | error err => simp [hr] at h
      | ok r =>
        obtain ⟨s2, t2⟩ := r
        simp only [hr, Except.ok.injEq, Prod.mk.injEq] at h
        exact ⟨t2, by rw [h.1], h.2.symm⟩

theorem concat_runList {cp : Compiler} {progs : Nat → Prog} {outc : Outc} {args : List (String × Rat)}
    {e : Eng} {w : World} {i1 i2 i12 : Nat} {circ1 circ2 : List Cmd}
    (hbk : e.bk = .bosonic → e.contd = true ∨ circ1 ≠ [])
    (hc : (progs i12).circuit = (progs i1).circuit ++ (progs i2).circuit)
    (hn : (progs i12).initN = (progs i1).initN)
    (hir : (progs i12).initRegs = (progs i1).initRegs)
    (hr : (progs i12).regs = (progs i2).regs)
    (hne : i2 ≠ i1)
    (hv : ∀ m ∈ idxs (progs i1).regs, w.vals i12 m = w.vals i1 m)
    (hf1 : w.free i1 = w.free i12) (hf2 : w.free i2 = w.free i12)
    -- well-formedness of the programs (true of every constructible Program):
    (hd1 : decompList compileFuel cp (progs i1).circuit = .ok circ1)
    (hd2 : decompList compileFuel cp (progs i2).circuit = .ok circ2)
    (hsub : ∀ m ∈ idxs (progs i1).regs, m ∈ idxs (progs i2).regs)
    (ho1 : ∀ m ∈ openDeps circ1, m ∈ idxs (progs i1).regs)
    (ho2 : ∀ m ∈ openDeps circ2, m ∈ idxs (progs i1).regs)
    {ea eb : Eng} {wa wb : World} {ta tb : List Call}
    (ha : runList cp progs outc args e w [i1, i2] = .ok (ea, wa, ta))
    (hb : runList cp progs outc args e w [i12] = .ok (eb, wb, tb)) :
    ta = tb ∧ ea.mpos = eb.mpos ∧ ea.prev = eb.prev := by
  obtain ⟨e1, w1, t1, t2, h1, h2, rfl⟩ := runList_two ha
  have h3 := runList_one hb
  obtain ⟨c1, vals0, t0, free1, st1, tt1, hd1', hi1, hb1, hr1, he1, hw1, rfl⟩ := runOne_ok h1
  obtain ⟨c2, v2, t0', free2, st2, tt2, hd2', hi2, hb2, hr2, hea, _, rfl⟩ := runOne_ok h2
  obtain ⟨circ12, vals0', t0'', free12, st12, tt12, hd12, hi12, hb12, hr12, heb, _, rfl⟩ := runOne_ok h3
  rw [hd1] at hd1'; cases hd1'
  rw [hd2] at hd2'; cases hd2'
  have hcirc : circ12 = circ1 ++ circ2 := by
    rw [hc, decompList_append, hd1, hd2] at hd12
    simpa [bind2] using hd12.symm
  -- same first step, values agree on the register of p1
  have hinit := initStep_agree e (progs i1) (progs i12) (w.vals i1) (w.vals i12) vals0 vals0' t0 t0''
    (idxs (progs i1).regs) hn.symm hir.symm (fun m hm => ⟨hm, by rw [hr]; exact hsub m hm⟩)
    (fun m hm => (hv m hm).symm) hi1 hi12
  obtain ⟨rfl, hvals0⟩ := hinit
  -- same bindings
  have hfree1 : free1 = free12 := by rw [bindParams_ok hb1, bindParams_ok hb12, hf1]
  have hw1f : w1.free i2 = w.free i2 := by rw [hw1]; simp [setAt, hne]
  have hfree2 : free2 = free12 := by rw [bindParams_ok hb2, bindParams_ok hb12, hw1f, hf2]
  subst hfree1
  subst hfree2
  have hprev : e1.prev = some (progs i1).regs := by rw [he1]
  have hbk1 : e1.bk = e.bk := by rw [he1]
  have hct1 : e1.contd = (e.contd || !circ1.isEmpty) := by rw [he1]
  have hmp1 : e1.mpos = st1.mpos := by rw [he1]
  have hmeas : ∀ k, e1.measured k = if hasIdx (progs i1).regs k then st1.vals k else none := by
    intro k; rw [he1]; rfl
  -- second segment: can_follow passed, hand-over made
  have hho2 : t0' = [] ∧ v2 = handOver (progs i2).regs e1.measured (w1.vals i2) := by
    unfold initStep at hi2
    rw [hprev] at hi2
    simp only at hi2
    split at hi2
    · simp only [Except.ok.injEq, Prod.mk.injEq] at hi2
      exact ⟨hi2.2.symm, hi2.1.symm⟩
    · cases hi2
  obtain ⟨rfl, hv2⟩ := hho2
  rw [hbk1, hct1, hmp1] at hr2
  rw [hcirc] at hr12
  have hsim0 : ∀ c, (∀ m ∈ openDeps c, m ∈ idxs (progs i1).regs) →
      Sim (openDeps c ++ idxs (progs i1).regs) { vals := vals0, mpos := e.mpos } { vals := vals0', mpos := e.mpos } :=
    fun c hoc => ⟨rfl, fun m hm => by
      rcases List.mem_append.1 hm with hm | hm
      · exact hvals0 m (hoc m hm)
      · exact hvals0 m hm⟩
  have hv2' : ∀ m, m ∈ idxs (progs i1).regs → v2 m = st1.vals m := by
    intro m hm
    rw [hv2]
    simp only [handOver, (hasIdx_iff _ _).2 (hsub m hm), if_true, hmeas, (hasIdx_iff _ _).2 hm]
  have hfin : ∀ (x y : List Call) (m1 m2 : Nat), x = y → m1 = m2 →
      t0 ++ x = t0 ++ y ∧ m1 = m2 := fun x y m1 m2 hx hm => ⟨by rw [hx], hm⟩
  suffices hkey : tt1 ++ ([] ++ tt2) = tt12 ∧ st2.mpos = st12.mpos by
    refine ⟨by rw [← hkey.1]; simp [List.append_assoc], ?_, ?_⟩
    · rw [hea, heb]; exact hkey.2
    · rw [hea, heb, hr]
  cases hbke : e.bk with
  | fock =>
    rw [hbke] at hr1 hr2 hr12
    have := concat_core free2 outc circ1 circ2 _ _ _ st1 st2 st12 v2 tt1 tt2 tt12 (hsim0 circ1 ho1) hr1
      (fun m hm => ⟨ho2 m hm, hv2' m (ho2 m hm)⟩) hr2 hr12
    exact ⟨by simp [this.1], this.2⟩
  | gaussian =>
    rw [hbke] at hr1 hr2 hr12
    have := concat_core free2 outc circ1 circ2 _ _ _ st1 st2 st12 v2 tt1 tt2 tt12 (hsim0 circ1 ho1) hr1
      (fun m hm => ⟨ho2 m hm, hv2' m (ho2 m hm)⟩) hr2 hr12
    exact ⟨by simp [this.1], this.2⟩
  | bosonic =>
    rw [hbke] at hr1 hr2 hr12
    cases hcont : e.contd with
    | true =>
      -- the engine is already in a continuation: all three runs are plain loops over the marked circuits
      rw [hcont] at hr1 hr2 hr12
      simp only [runProgram, Bool.true_or, if_true, List.map_append] at hr1 hr2 hr12
      have := concat_core free2 outc (circ1.map bosonicMark) (circ2.map bosonicMark) _ _ _ st1 st2 st12 v2 tt1 tt2 tt12
        (by rw [openDeps_mark]; exact hsim0 circ1 ho1) hr1
        (fun m hm => by rw [openDeps_mark] at hm; exact ⟨ho2 m hm, hv2' m (ho2 m hm)⟩) hr2 hr12
      exact ⟨by simp [this.1], this.2⟩
    | false =>
      have hne1 : circ1 ≠ [] := by
        rcases hbk hbke with h | h
        · rw [hcont] at h; cases h
        · exact h
      have hemp1 : circ1.isEmpty = false := by
        cases circ1 with
        | nil => exact absurd rfl hne1
        | cons _ _ => rfl
      have hemp12 : (circ1 ++ circ2).isEmpty = false := by
        cases circ1 with
        | nil => exact absurd rfl hne1
        | cons _ _ => rfl
      rw [hcont] at hr1 hr2 hr12
      obtain ⟨_, tt1', hr1', ht1⟩ := runProgram_bosonic_first hr1
      obtain ⟨hnone, tt12', hr12', ht12⟩ := runProgram_bosonic_first hr12
      simp only [hemp1, Bool.false_or, Bool.not_false, runProgram, if_true] at hr2
      rw [map_mark_of_none circ2 (fun c hc => hnone c (List.mem_append_right _ hc))] at hr2
      have := concat_core free2 outc circ1 circ2 _ _ _ st1 st2 st12 v2 tt1' tt2 tt12' (hsim0 circ1 ho1) hr1'
        (fun m hm => ⟨ho2 m hm, hv2' m (ho2 m hm)⟩) hr2 hr12'
      rw [ht1, ht12, hemp1, hemp12, this.1, hn]
      exact ⟨by simp, this.2⟩

/-! ### the two ways of running succeed together -/

theorem concat_core_fwd (free : String → Option Rat) (outc : Outc) (c1 c2 : List Cmd) (L : List Nat)
    (st0 st0' st1 st2 : RunSt) (v2 : Nat → Option Val) (tt1 tt2 : List Call)
    (h0 : Sim (openDeps c1 ++ L) st0 st0')
    (hr1 : runCircuit free outc st0 c1 = .ok (st1, tt1))
    (hv2 : ∀ m ∈ openDeps c2, m ∈ L ∧ v2 m = st1.vals m)
    (hr2 : runCircuit free outc { vals := v2, mpos := st1.mpos } c2 = .ok (st2, tt2)) :
    ∃ r, runCircuit free outc st0' (c1 ++ c2) = .ok r := by
  rw [runCircuit_append]
  have hs1 := runCircuit_sim free outc c1 L st0 st0' h0
  rw [hr1] at hs1
  cases h5 : runCircuit free outc st0' c1 with
  | error err => rw [h5] at hs1; exact hs1.elim
  | ok r1 =>
    obtain ⟨st1', tt1'⟩ := r1
    rw [h5] at hs1
    obtain ⟨_, hm1, hvs1⟩ := hs1
    have hs := runCircuit_sim free outc c2 [] { vals := v2, mpos := st1.mpos } st1'
      ⟨hm1, fun m hm => by
        have hmo : m ∈ openDeps c2 := by simpa using hm
        show v2 m = st1'.vals m
        rw [(hv2 m hmo).2]
        exact hvs1 m (hv2 m hmo).1⟩
    rw [hr2] at hs
    cases h4 : runCircuit free outc st1' c2 with
    | error err => rw [h4] at hs; exact hs.elim
    | ok r =>
      obtain ⟨s2', t2'⟩ := r
      exact ⟨(s2', tt1' ++ t2'), by simp only [h4]⟩

theorem concat_core_bwd (free : String → Option Rat) (outc : Outc) (c1 c2 : List Cmd) (L : List Nat)
    (st0 st0' : RunSt) (r12 : RunSt × List Call)
    (h0 : Sim (openDeps c1 ++ L) st0 st0')
    (hr12 : runCircuit free outc st0' (c1 ++ c2) = .ok r12) :
    ∃ st1 tt1, runCircuit free outc st0 c1 = .ok (st1, tt1) ∧
      ∀ v2 : Nat → Option Val, (∀ m ∈ openDeps c2, m ∈ L ∧ v2 m = st1.vals m) →
        ∃ r2, runCircuit free outc { vals := v2, mpos := st1.mpos } c2 = .ok r2 := by
  rw [runCircuit_append] at hr12
  have hs1 := runCircuit_sim free outc c1 L st0 st0' h0
  cases h5 : runCircuit free outc st0' c1 with
  | error err => simp [h5] at hr12
  | ok r1 =>
    obtain ⟨st1', tt1'⟩ := r1
    rw [h5] at hs1
    simp only [h5] at hr12
    cases h6 : runCircuit free outc st0 c1 with
    | error err => rw [h6] at hs1; exact hs1.elim
    | ok r =>
      obtain ⟨st1, tt1⟩ := r
      rw [h6] at hs1
      obtain ⟨_, hm1, hvs1⟩ := hs1
      refine ⟨st1, tt1, rfl, fun v2 hv2 => ?_⟩
      have hs := runCircuit_sim free outc c2 [] { vals := v2, mpos := st1.mpos } st1'
        ⟨hm1, fun m hm => by
          have hmo : m ∈ openDeps c2 := by simpa using hm
          show v2 m = st1'.vals m
          rw [(hv2 m hmo).2]
          exact hvs1 m (hv2 m hmo).1⟩
      cases h4 : runCircuit free outc st1' c2 with
      | error err => simp [h4] at hr12
      | ok r2' =>
        rw [h4] at hs
        cases h7 : runCircuit free outc { vals := v2, mpos := st1.mpos } c2 with
        | error err => rw [h7] at hs; exact hs.elim
        | ok r2 => exact ⟨_, rfl⟩

theorem bindParams_total (names : List String) (free : String → Option Rat) (args : List (String × Rat))
    (h : ∀ kv ∈ args, kv.1 ∈ names) : ∃ f, bindParams names free args = .ok f := by
  induction args generalizing free with
  | nil => exact ⟨free, rfl⟩
  | cons kv rest ih =>
    obtain ⟨k, v⟩ := kv
    simp only [bindParams]
    have hk : names.contains k = true := by simpa using h (k, v) (List.mem_cons_self ..)
    rw [hk]
    exact ih _ (fun kv hkv => h kv (List.mem_cons_of_mem _ hkv))

theorem initStep_ok_iff (e : Eng) (p : Prog) (v : Nat → Option Val) :
    (∃ r, initStep e p v = .ok r) ↔ (e.prev = none ∨ e.prev = some p.initRegs) := by
  unfold initStep
  cases hp : e.prev with
  | none => simp
  | some prevRegs =>
    simp only [reduceCtorEq, Option.some.injEq, false_or]
    by_cases h : p.initRegs = prevRegs
    · simp [h]
    · simp only [h, if_false]
      constructor
      · rintro ⟨r, hr⟩; cases hr
      · intro h'; exact absurd h'.symm h

theorem runList_one_of {cp : Compiler} {progs : Nat → Prog} {outc : Outc} {args : List (String × Rat)}
    {e ea : Eng} {w wa : World} {i : Nat} {ta : List Call}
    (h : runOne cp progs outc args e w i = .ok (ea, wa, ta)) :
    runList cp progs outc args e w [i] = .ok (ea, wa, ta) := by
  simp [runList, h]

theorem runList_two_of {cp : Compiler} {progs : Nat → Prog} {outc : Outc} {args : List (String × Rat)}
    {e e1 ea : Eng} {w w1 wa : World} {i1 i2 : Nat} {t1 t2 : List Call}
    (h1 : runOne cp progs outc args e w i1 = .ok (e1, w1, t1))
    (h2 : runOne cp progs outc args e1 w1 i2 = .ok (ea, wa, t2)) :
    runList cp progs outc args e w [i1, i2] = .ok (ea, wa, t1 ++ t2) := by
  simp [runList, h1, h2]

theorem concat_ok_iff {cp : Compiler} {progs : Nat → Prog} {outc : Outc} {args : List (String × Rat)}
    {e : Eng} {w : World} {i1 i2 i12 : Nat} {circ1 circ2 : List Cmd}
    (hbk : e.bk ≠ .bosonic)
    (hc : (progs i12).circuit = (progs i1).circuit ++ (progs i2).circuit)
    (hn : (progs i12).initN = (progs i1).initN)
    (hir : (progs i12).initRegs = (progs i1).initRegs)
    (hr : (progs i12).regs = (progs i2).regs)
    (hfol : (progs i2).initRegs = (progs i1).regs)
    (hne : i2 ≠ i1)
    (hv : ∀ m ∈ idxs (progs i1).regs, w.vals i12 m = w.vals i1 m)
    (hf1 : w.free i1 = w.free i12) (hf2 : w.free i2 = w.free i12)
    (hargs : ∀ kv ∈ args, kv.1 ∈ (progs i1).freeNames ∧ kv.1 ∈ (progs i2).freeNames ∧ kv.1 ∈ (progs i12).freeNames)
    (hd1 : decompList compileFuel cp (progs i1).circuit = .ok circ1)
    (hd2 : decompList compileFuel cp (progs i2).circuit = .ok circ2)
    (hsub : ∀ m ∈ idxs (progs i1).regs, m ∈ idxs (progs i2).regs)
    (ho1 : ∀ m ∈ openDeps circ1, m ∈ idxs (progs i1).regs)
    (ho2 : ∀ m ∈ openDeps circ2, m ∈ idxs (progs i1).regs) :
    (∃ r, runList cp progs outc args e w [i1, i2] = .ok r) ↔ (∃ r, runList cp progs outc args e w [i12] = .ok r) := by
  have hd12 : decompList compileFuel cp (progs i12).circuit = .ok (circ1 ++ circ2) := by
    rw [hc, decompList_append, hd1, hd2]; rfl
  have hsim0 : ∀ (vals0 vals0' : Nat → Option Val), (∀ m ∈ idxs (progs i1).regs, vals0 m = vals0' m) →
      Sim (openDeps circ1 ++ idxs (progs i1).regs) { vals := vals0, mpos := e.mpos } { vals := vals0', mpos := e.mpos } :=
    fun vals0 vals0' hvals0 => ⟨rfl, fun m hm => by
      rcases List.mem_append.1 hm with hm | hm
      · exact hvals0 m (ho1 m hm)
      · exact hvals0 m hm⟩
  obtain ⟨fb1, hfb1⟩ := bindParams_total (progs i1).freeNames (w.free i1) args (fun kv h => (hargs kv h).1)
  obtain ⟨fb12, hfb12⟩ := bindParams_total (progs i12).freeNames (w.free i12) args (fun kv h => (hargs kv h).2.2)
  have hfe : fb1 = fb12 := by rw [bindParams_ok hfb1, bindParams_ok hfb12, hf1]
  subst hfe
  constructor
  · rintro ⟨⟨ea, wa, ta⟩, ha⟩
    obtain ⟨e1, w1, t1, t2, h1, h2, rfl⟩ := runList_two ha
    obtain ⟨c1, vals0, t0, free1, st1, tt1, hd1', hi1, hb1, hr1, he1, hw1, rfl⟩ := runOne_ok h1
    obtain ⟨c2, v2, t0', free2, st2, tt2, hd2', hi2, hb2, hr2, hea, _, rfl⟩ := runOne_ok h2
    rw [hd1] at hd1'; cases hd1'
    rw [hd2] at hd2'; cases hd2'
    rw [hfb1] at hb1; cases hb1
    obtain ⟨⟨vals0', t0''⟩, hi12⟩ := (initStep_ok_iff e (progs i12) (w.vals i12)).2 (by
      rw [hir]; exact (initStep_ok_iff e (progs i1) (w.vals i1)).1 ⟨_, hi1⟩)
    obtain ⟨_, hvals0⟩ := initStep_agree e (progs i1) (progs i12) (w.vals i1) (w.vals i12) vals0 vals0' t0 t0''
      (idxs (progs i1).regs) hn.symm hir.symm (fun m hm => ⟨hm, by rw [hr]; exact hsub m hm⟩)
      (fun m hm => (hv m hm).symm) hi1 hi12
    have hw1f : w1.free i2 = w.free i2 := by rw [hw1]; simp [setAt, hne]
    have hfree2 : free2 = fb1 := by rw [bindParams_ok hb2, bindParams_ok hfb12, hw1f, hf2]
    subst hfree2
    have hprev : e1.prev = some (progs i1).regs := by rw [he1]
    have hbk1 : e1.bk = e.bk := by rw [he1]
    have hmp1 : e1.mpos = st1.mpos := by rw [he1]
    have hmeas : ∀ k, e1.measured k = if hasIdx (progs i1).regs k then st1.vals k else none := by
      intro k; rw [he1]; rfl
    have hv2 : v2 = handOver (progs i2).regs e1.measured (w1.vals i2) := by
      unfold initStep at hi2
      rw [hprev] at hi2
      simp only [hfol, if_true, Except.ok.injEq, Prod.mk.injEq] at hi2
      exact hi2.1.symm
    have hv2' : ∀ m, m ∈ idxs (progs i1).regs → v2 m = st1.vals m := by
      intro m hm
      rw [hv2]
      simp only [handOver, (hasIdx_iff _ _).2 (hsub m hm), if_true, hmeas, (hasIdx_iff _ _).2 hm]
    rw [runProgram_local hbk] at hr1
    rw [hbk1, runProgram_local hbk, hmp1] at hr2
    obtain ⟨⟨st12, tt12⟩, hr12⟩ := concat_core_fwd free2 outc circ1 circ2 _ _ _ st1 st2 v2 tt1 tt2
      (hsim0 vals0 vals0' hvals0) hr1 (fun m hm => ⟨ho2 m hm, hv2' m (ho2 m hm)⟩) hr2
    exact ⟨_, runList_one_of (runOne_of hd12 hi12 hfb12 (by rw [runProgram_local hbk]; exact hr12))⟩
  · rintro ⟨⟨eb, wb, tb⟩, hb⟩
    have h3 := runList_one hb
    obtain ⟨circ12, vals0', t0'', free12, st12, tt12, hd12', hi12, hb12, hr12, heb, _, rfl⟩ := runOne_ok h3
    rw [hd12] at hd12'; cases hd12'
    rw [hfb12] at hb12; cases hb12
    obtain ⟨⟨vals0, t0⟩, hi1⟩ := (initStep_ok_iff e (progs i1) (w.vals i1)).2 (by
      rw [← hir]; exact (initStep_ok_iff e (progs i12) (w.vals i12)).1 ⟨_, hi12⟩)
    obtain ⟨_, hvals0⟩ := initStep_agree e (progs i1) (progs i12) (w.vals i1) (w.vals i12) vals0 vals0' t0 t0''
      (idxs (progs i1).regs) hn.symm hir.symm (fun m hm => ⟨hm, by rw [hr]; exact hsub m hm⟩)
      (fun m hm => (hv m hm).symm) hi1 hi12
    rw [runProgram_local hbk] at hr12
    obtain ⟨st1, tt1, hr1, hnext⟩ := concat_core_bwd fb1 outc circ1 circ2 _ _ _ (st12, tt12)
      (hsim0 vals0 vals0' hvals0) hr12
    have h1 := runOne_of (e := e) (w := w) hd1 hi1 hfb1 (by rw [runProgram_local hbk]; exact hr1)
    -- second segment
    obtain ⟨fb2, hfb2⟩ := bindParams_total (progs i2).freeNames (w.free i2) args (fun kv h => (hargs kv h).2.1)
    have hfe2 : fb2 = fb1 := by rw [bindParams_ok hfb2, bindParams_ok hfb12, hf2]
    subst hfe2
    obtain ⟨e1, w1, t1, h1'⟩ : ∃ e1 w1 t1, runOne cp progs outc args e w i1 = .ok (e1, w1, t1) := ⟨_, _, _, h1⟩
    obtain ⟨c1, vals0b, t0b, free1b, st1b, tt1b, hd1', hi1', hb1', hr1', he1, hw1, _⟩ := runOne_ok h1'
    rw [hd1] at hd1'; cases hd1'
    rw [hi1] at hi1'; cases hi1'
    rw [hfb1] at hb1'; cases hb1'
    rw [runProgram_local hbk, hr1] at hr1'; cases hr1'
    have hprev : e1.prev = some (progs i1).regs := by rw [he1]
    have hbk1 : e1.bk = e.bk := by rw [he1]
    have hmp1 : e1.mpos = st1.mpos := by rw [he1]
    have hmeas : ∀ k, e1.measured k = if hasIdx (progs i1).regs k then st1.vals k else none := by
      intro k; rw [he1]; rfl
    have hw1f : w1.free i2 = w.free i2 := by rw [hw1]; simp [setAt, hne]
    have hi2 : initStep e1 (progs i2) (w1.vals i2) =
        .ok (handOver (progs i2).regs e1.measured (w1.vals i2), []) := by
      unfold initStep; rw [hprev]; simp [hfol]
    have hb2 : bindParams (progs i2).freeNames (w1.free i2) args = .ok fb2 := by rw [hw1f]; exact hfb2
    obtain ⟨⟨st2, tt2⟩, hr2⟩ := hnext (handOver (progs i2).regs e1.measured (w1.vals i2)) (fun m hm => by
      have hm1 := ho2 m hm
      refine ⟨hm1, ?_⟩
      simp only [handOver, (hasIdx_iff _ _).2 (hsub m hm1), if_true, hmeas, (hasIdx_iff _ _).2 hm1])
    have h2 := runOne_of (e := e1) (w := w1) hd2 hi2 hb2 (by rw [hbk1, runProgram_local hbk, hmp1]; exact hr2)
    exact ⟨_, runList_two_of h1' h2⟩

theorem run_ok {cp : Compiler} {progs : Nat → Prog} {o : Nat → List (List Rat)} {args : List (String × Rat)}
    {kw : RunKw} {l : List Nat} {e ea : Eng} {w wa : World} {ta : List Call}
    (h : run cp progs o args kw e w l = .ok (ea, wa, ta)) :
    preCheck progs (effShots progs kw l) l = false ∧
    ∃ t, runList cp progs ⟨o, effShots progs kw l⟩ args e w l = .ok (ea, wa, t) ∧ ta = t ++ stateCalls kw := by
  unfold run at h
  simp only at h
  cases hp : preCheck progs (effShots progs kw l) l with
  | true => simp [hp] at h
  | false =>
    simp only [hp, Bool.false_eq_true, if_false] at h
    cases hr : runList cp progs ⟨o, effShots progs kw l⟩ args e w l with
    | error err => simp [hr] at h
    | ok r =>
      obtain ⟨e2, w2, t2⟩ := r
      simp only [hr, Except.ok.injEq, Prod.mk.injEq] at h
      exact ⟨rfl, t2, by rw [h.1, h.2.1], h.2.2.symm⟩

theorem run_ok_iff (cp : Compiler) (progs : Nat → Prog) (o : Nat → List (List Rat)) (args : List (String × Rat))
    (kw : RunKw) (e : Eng) (w : World) (l : List Nat) :
    (∃ r, run cp progs o args kw e w l = .ok r) ↔
      (preCheck progs (effShots progs kw l) l = false ∧
       ∃ r, runList cp progs ⟨o, effShots progs kw l⟩ args e w l = .ok r) := by
  unfold run
  simp only
  cases hp : preCheck progs (effShots progs kw l) l with
  | true => simp
  | false =>
    simp only [Bool.false_eq_true, if_false, true_and]
    cases runList cp progs ⟨o, effShots progs kw l⟩ args e w l with
    | error err => simp
    | ok r => obtain ⟨e1, w1, t⟩ := r; simp

/-! ### heap level -/

theorem set_restore (l : List (List Par)) (i : Nat) (p0 z : Par) (rest : List Par)
    (h : l[i]? = some (p0 :: rest)) :
    (l.set i (z :: rest)).set i ((((l.set i (z :: rest))[i]?).getD []).set 0 p0) = l := by
  have hi : i < l.length := by
    rcases Nat.lt_or_ge i l.length with h' | h'
    · exact h'
    · rw [List.getElem?_eq_none h'] at h; cases h
  rw [List.getElem?_set_self hi]
  simp only [Option.getD_some, List.set_cons_zero, List.set_set]
  apply List.ext_getElem?
  intro j
  by_cases hj : i = j
  · subst hj; rw [List.getElem?_set_self hi, h]
  · rw [List.getElem?_set_ne hj]

/-- `Gate.apply` leaves the heap exactly as it found it: always on the normal path, and also when
`_apply` raises provided the restore is in a `finally` block -/
theorem gateApplyH_restores (b : Bool) (h : Heap) (a : Nat) (oc : Outcome) (hb : oc = .returns ∨ b = true) :
    (gateApplyH b h a oc).after = h := by
  unfold gateApplyH
  cases h1 : h.ops[a]? with
  | none => rfl
  | some o =>
    simp only
    cases h2 : h.pls[o.pl]? with
    | none => rfl
    | some l =>
      cases l with
      | nil => rfl
      | cons p0 rest =>
        simp only
        split
        · rfl
        · have key := set_restore h.pls o.pl p0 (if o.dagger then p0.neg else p0) rest h2
          cases oc with
          | returns => simp only [key]
          | raises =>
            rcases hb with hb | hb
            · cases hb
            · subst hb; simp only [key, if_true]

/-- what `_apply` reads is `gateArgs` of the stored parameters -/
theorem gateApplyH_seen (b : Bool) (h : Heap) (a : Nat) (oc : Outcome) (o : OpObj) (l : List Par)
    (h1 : h.ops[a]? = some o) (h2 : h.pls[o.pl]? = some l) :
    (gateApplyH b h a oc).seen = gateArgs l o.dagger := by
  unfold gateApplyH
  simp only [h1, h2]
  cases l with
  | nil => rfl
  | cons p0 rest =>
    simp only [gateArgs]
    have hi : o.pl < h.pls.length := by
      rcases Nat.lt_or_ge o.pl h.pls.length with h' | h'
      · exact h'
      · rw [List.getElem?_eq_none h'] at h2; cases h2
    split
    · rfl
    · cases oc <;> simp [List.getElem?_set_self hi]

theorem allocOne_prefix (base : Nat) (h : Heap) (n : NewOp) :
    h.ops <+: (allocOne base h n).ops ∧ h.pls <+: (allocOne base h n).pls := by
  unfold allocOne
  cases n.share with
  | none => exact ⟨List.prefix_append _ _, List.prefix_append _ _⟩
  | some j => exact ⟨List.prefix_append _ _, List.prefix_refl _⟩

theorem alloc_prefix (base : Nat) (news : List NewOp) (h : Heap) :
    h.ops <+: (news.foldl (allocOne base) h).ops ∧ h.pls <+: (news.foldl (allocOne base) h).pls := by
  induction news generalizing h with
  | nil => exact ⟨List.prefix_refl _, List.prefix_refl _⟩
  | cons n rest ih =>
    simp only [List.foldl_cons]
    have h1 := allocOne_prefix base h n
    have h2 := ih (allocOne base h n)
    exact ⟨h1.1.trans h2.1, h1.2.trans h2.2⟩

theorem flips_keep (base : Nat) (seq : List (Nat × List Nat)) (h : Heap) (hs : ∀ c ∈ seq, base ≤ c.1) :
    (seq.foldl (fun hh c => flipAt hh c.1) h).pls = h.pls ∧
    ∀ x < base, (seq.foldl (fun hh c => flipAt hh c.1) h).ops[x]? = h.ops[x]? := by
  induction seq generalizing h with
  | nil => exact ⟨rfl, fun _ _ => rfl⟩
  | cons c rest ih =>
    simp only [List.foldl_cons]
    have h2 := ih (flipAt h c.1) (fun d hd => hs d (List.mem_cons_of_mem _ hd))
    refine ⟨by rw [h2.1]; rfl, fun x hx => ?_⟩
    rw [h2.2 x hx]
    have : c.1 ≠ x := by
      have := hs c (List.mem_cons_self ..)
      omega
    simp [flipAt, this]

theorem prefix_getElem? {α : Type} {l1 l2 : List α} (h : l1 <+: l2) (x : Nat) (hx : x < l1.length) :
    l2[x]? = l1[x]? := by
  obtain ⟨t, rfl⟩ := h
  rw [List.getElem?_append_left hx]

/-- **`Gate.decompose` does not touch the objects that existed before the call**: every op object and
every parameter list of the input heap is unchanged; dagger flags are flipped only on products. -/
theorem gateDecomposeH_fresh (h : Heap) (a : Nat) (t : Tmpl) :
    (∀ x < h.ops.length, (gateDecomposeH h a t).1.ops[x]? = h.ops[x]?) ∧
    (∀ j < h.pls.length, (gateDecomposeH h a t).1.pls[j]? = h.pls[j]?) ∧
    (∀ c ∈ (gateDecomposeH h a t).2, h.ops.length ≤ c.1) := by
  have hp := alloc_prefix h.ops.length t.news h
  have hseq : ∀ c ∈ t.cmds.map (fun c => (h.ops.length + c.1, c.2)), h.ops.length ≤ c.1 := by
    intro c hc
    simp only [List.mem_map] at hc
    obtain ⟨d, _, rfl⟩ := hc
    simp
  unfold gateDecomposeH
  simp only
  split
  · have hf := flips_keep h.ops.length _ (t.news.foldl (allocOne h.ops.length) h) hseq
    refine ⟨fun x hx => ?_, fun j hj => ?_, fun c hc => hseq c (by simpa using hc)⟩
    · rw [hf.2 x hx, prefix_getElem? hp.1 x hx]
    · rw [hf.1, prefix_getElem? hp.2 j hj]
  · exact ⟨fun x hx => prefix_getElem? hp.1 x hx, fun j hj => prefix_getElem? hp.2 j hj, hseq⟩

/-! ### merging never touches its inputs -/

/-- the heap `h'` extends `h`: every object of `h` is still there, unchanged -/
def Extends (h h' : Heap) : Prop := h.ops <+: h'.ops ∧ h.pls <+: h'.pls

theorem gateMergeH_extends (h : Heap) (a b : Nat) : Extends h (gateMergeH false h a b).1 := by
  unfold gateMergeH
  have hr : Extends h h := ⟨List.prefix_refl _, List.prefix_refl _⟩
  split
  · split
    · exact hr
    · split
      · split
        · exact hr
        · split
          · exact hr
          · split
            · exact hr
            · exact ⟨List.prefix_append _ _, List.prefix_append _ _⟩
      · exact hr
  · exact hr

theorem channelMergeH_extends (h : Heap) (a b : Nat) : Extends h (channelMergeH false h a b).1 := by
  unfold channelMergeH
  have hr : Extends h h := ⟨List.prefix_refl _, List.prefix_refl _⟩
  split
  · split
    · exact hr
    · split
      · split
        · exact hr
        · split
          · exact hr
          · split
            · exact hr
            · exact ⟨List.prefix_append _ _, List.prefix_append _ _⟩
      · exact hr
  · exact hr

theorem extends_get {h h' : Heap} (he : Extends h h') :
    (∀ x < h.ops.length, h'.ops[x]? = h.ops[x]?) ∧ (∀ j < h.pls.length, h'.pls[j]? = h.pls[j]?) :=
  ⟨fun x hx => prefix_getElem? he.1 x hx, fun j hj => prefix_getElem? he.2 j hj⟩

theorem gateMergeH_new (h : Heap) (a b x : Nat) (hm : (gateMergeH false h a b).2 = .merged x) :
    x = h.ops.length ∧ ((gateMergeH false h a b).1.ops[x]?).map (·.pl) = some h.pls.length := by
  unfold gateMergeH at hm ⊢
  split at hm
  · split at hm
    · cases hm
    · split at hm
      · split at hm
        · cases hm
        · split at hm
          · cases hm
          · split at hm
            · cases hm
            · simp only [Bool.false_eq_true, if_false, MergeRes.merged.injEq] at hm
              subst hm
              rename_i h1 h2 _ _ _ _ _ _ _ _ _
              simp_all
      · cases hm
  · cases hm

theorem channelMergeH_new (h : Heap) (a b x : Nat) (hm : (channelMergeH false h a b).2 = .merged x) :
    x = h.ops.length ∧ ((channelMergeH false h a b).1.ops[x]?).map (·.pl) = some h.pls.length := by
  unfold channelMergeH at hm ⊢
  split at hm
  · split at hm
    · cases hm
    · split at hm
      · split at hm
        · cases hm
        · split at hm
          · cases hm
          · split at hm
            · cases hm
            · simp only [Bool.false_eq_true, if_false, MergeRes.merged.injEq] at hm
              subst hm
              simp_all
      · cases hm
  · cases hm

end SFV.Eng
