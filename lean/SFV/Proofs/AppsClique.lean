import SFV.Model.Apps

/-!
# Clique routines of `strawberryfields/apps/clique.py` (model `SFV.Apps`): `c0`, `c1`, `grow`, `swap`, `shrink`
-/
namespace SFV.Apps

/-- the random choice returns a valid position -/
def Lawful (pick : Pick) : Prop := ∀ step n, 0 < n → pick step n < n

structure Simple (g : Graph) : Prop where
  sym : ∀ u v, g.adj u v = g.adj v u
  irr : ∀ u, g.adj u u = false
  nodup : g.nodes.Nodup

def IsClique (g : Graph) (S : List Nat) : Prop := ∀ u ∈ S, ∀ v ∈ S, u ≠ v → g.adj u v = true

theorem choose_mem {α : Type} {pick : Pick} (hp : Lawful pick) (step : Nat) {l : List α} (hl : l ≠ []) (d : α) :
    choose pick step l d ∈ l := by
  unfold choose
  have hlen : 0 < l.length := List.length_pos_iff.mpr hl
  have h := hp step l.length hlen
  rw [List.getD_eq_getElem?_getD, List.getElem?_eq_getElem h]
  exact List.getElem_mem h

theorem mem_argmaxs (key : Nat → Int) (l : List Nat) (v : Nat) :
    v ∈ argmaxs key l ↔ v ∈ l ∧ ∀ u ∈ l, key u ≤ key v := by
  simp [argmaxs, List.mem_filter, List.all_eq_true]

theorem mem_argmins (key : Nat → Int) (l : List Nat) (v : Nat) :
    v ∈ argmins key l ↔ v ∈ l ∧ ∀ u ∈ l, key v ≤ key u := by
  simp [argmins, List.mem_filter, List.all_eq_true]

private theorem clq_exists_max (key : Nat → Int) : ∀ {l : List Nat}, l ≠ [] → ∃ v ∈ l, ∀ u ∈ l, key u ≤ key v
  | [], h => absurd rfl h
  | [x], _ => ⟨x, by simp, by simp⟩
  | x :: y :: ys, _ => by
    obtain ⟨v, hv, hmax⟩ := clq_exists_max key (l := y :: ys) (by simp)
    by_cases hxv : key x ≤ key v
    · refine ⟨v, List.mem_cons_of_mem _ hv, ?_⟩
      intro u hu
      rcases List.mem_cons.mp hu with rfl | hu
      · exact hxv
      · exact hmax u hu
    · refine ⟨x, by simp, ?_⟩
      intro u hu
      rcases List.mem_cons.mp hu with rfl | hu
      · exact Int.le_refl _
      · have := hmax u hu
        omega

theorem argmaxs_ne_nil (key : Nat → Int) {l : List Nat} (hl : l ≠ []) : argmaxs key l ≠ [] := by
  obtain ⟨v, hv, hmax⟩ := clq_exists_max key hl
  exact List.ne_nil_of_mem ((mem_argmaxs key l v).mpr ⟨hv, hmax⟩)

theorem argmins_ne_nil (key : Nat → Int) {l : List Nat} (hl : l ≠ []) : argmins key l ≠ [] := by
  obtain ⟨v, hv, hmax⟩ := clq_exists_max (fun u => - key u) hl
  refine List.ne_nil_of_mem ((mem_argmins key l v).mpr ⟨hv, ?_⟩)
  intro u hu
  have := hmax u hu
  omega

/-! ### sortAsc / distinct -/

theorem clq_insertAsc_perm (x : Nat) (l : List Nat) : (insertAsc x l).Perm (x :: l) := by
  induction l with
  | nil => simp [insertAsc]
  | cons y ys ih =>
    simp only [insertAsc]
    split
    · exact List.Perm.refl _
    · exact ((List.Perm.cons y ih).trans (List.Perm.swap x y ys))

theorem clq_sortAsc_perm (l : List Nat) : (sortAsc l).Perm l := by
  induction l with
  | nil => simp [sortAsc]
  | cons x xs ih =>
    have : sortAsc (x :: xs) = insertAsc x (sortAsc xs) := rfl
    rw [this]
    exact (clq_insertAsc_perm x _).trans (List.Perm.cons x ih)

theorem clq_mem_sortAsc (x : Nat) (l : List Nat) : x ∈ sortAsc l ↔ x ∈ l :=
  (clq_sortAsc_perm l).mem_iff

theorem clq_insertAsc_sorted (x : Nat) {l : List Nat} (h : l.Pairwise (· ≤ ·)) :
    (insertAsc x l).Pairwise (· ≤ ·) := by
  induction l with
  | nil => simp [insertAsc]
  | cons y ys ih =>
    simp only [insertAsc]
    rw [List.pairwise_cons] at h
    split
    · rename_i hxy
      refine List.pairwise_cons.mpr ⟨?_, List.pairwise_cons.mpr h⟩
      intro a ha
      rcases List.mem_cons.mp ha with rfl | ha
      · exact hxy
      · exact Nat.le_trans hxy (h.1 a ha)
    · rename_i hxy
      refine List.pairwise_cons.mpr ⟨?_, ih h.2⟩
      intro a ha
      rcases List.mem_cons.mp ((clq_insertAsc_perm x ys).mem_iff.mp ha) with rfl | ha
      · omega
      · exact h.1 a ha

theorem clq_sortAsc_sorted (l : List Nat) : (sortAsc l).Pairwise (· ≤ ·) := by
  induction l with
  | nil => simp [sortAsc]
  | cons x xs ih =>
    have : sortAsc (x :: xs) = insertAsc x (sortAsc xs) := rfl
    rw [this]
    exact clq_insertAsc_sorted x ih

theorem clq_sortAsc_nodup {l : List Nat} : (sortAsc l).Nodup ↔ l.Nodup :=
  (clq_sortAsc_perm l).nodup_iff

theorem clq_sortAsc_length (l : List Nat) : (sortAsc l).length = l.length :=
  (clq_sortAsc_perm l).length_eq

theorem clq_mem_distinct (x : Nat) (l : List Nat) : x ∈ distinct l ↔ x ∈ l := by
  induction l with
  | nil => simp [distinct]
  | cons y ys ih =>
    simp only [distinct, List.mem_cons, List.mem_filter, ih]
    by_cases h : x = y <;> simp [h]

theorem clq_nodup_distinct (l : List Nat) : (distinct l).Nodup := by
  induction l with
  | nil => simp [distinct]
  | cons y ys ih =>
    simp only [distinct]
    refine List.nodup_cons.mpr ⟨?_, ih.filter _⟩
    simp [List.mem_filter]

theorem clq_distinct_of_nodup {l : List Nat} (h : l.Nodup) : distinct l = l := by
  induction l with
  | nil => simp [distinct]
  | cons y ys ih =>
    rw [List.nodup_cons] at h
    simp only [distinct, ih h.2]
    congr 1
    rw [List.filter_eq_self]
    intro a ha
    have : a ≠ y := fun e => h.1 (e ▸ ha)
    simpa using this



theorem clq_succ_mul_pred (n : Nat) : (n + 1) * (n + 1 - 1) = n * (n - 1) + 2 * n := by
  cases n with
  | zero => rfl
  | succ k =>
    simp only [Nat.add_sub_cancel]
    grind

theorem clq_edgeCount_le (g : Graph) (S : List Nat) : edgeCount g S * 2 ≤ S.length * (S.length - 1) := by
  induction S with
  | nil => simp [edgeCount]
  | cons u rest ih =>
    simp only [edgeCount, List.length_cons]
    rw [clq_succ_mul_pred]
    have := List.length_filter_le (fun v => g.adj u v) rest
    omega

theorem clq_edgeCount_eq_iff (g : Graph) (S : List Nat) :
    edgeCount g S * 2 = S.length * (S.length - 1) ↔ S.Pairwise (fun u v => g.adj u v = true) := by
  induction S with
  | nil => simp [edgeCount]
  | cons u rest ih =>
    simp only [edgeCount, List.length_cons, List.pairwise_cons]
    rw [clq_succ_mul_pred, ← ih]
    have h1 := List.length_filter_le (fun v => g.adj u v) rest
    have h2 := clq_edgeCount_le g rest
    have h3 : (rest.filter fun v => g.adj u v).length = rest.length ↔ ∀ a ∈ rest, g.adj u a = true := by
      rw [List.length_filter_eq_length_iff]
    constructor
    · intro h
      exact ⟨h3.mp (by omega), by omega⟩
    · rintro ⟨ha, hb⟩
      have := h3.mpr ha
      omega

theorem clq_isClique_cons {g : Graph} (hs : Simple g) {u : Nat} {rest : List Nat} (hu : u ∉ rest) :
    IsClique g (u :: rest) ↔ (∀ v ∈ rest, g.adj u v = true) ∧ IsClique g rest := by
  constructor
  · intro h
    refine ⟨fun v hv => h u (by simp) v (by simp [hv]) (fun e => hu (e ▸ hv)), ?_⟩
    intro a ha b hb hab
    exact h a (by simp [ha]) b (by simp [hb]) hab
  · rintro ⟨h1, h2⟩ a ha b hb hab
    rcases List.mem_cons.mp ha with ea | ha' <;> rcases List.mem_cons.mp hb with eb | hb'
    · exact absurd (ea.trans eb.symm) hab
    · rw [ea]; exact h1 b hb'
    · rw [eb, hs.sym]; exact h1 a ha'
    · exact h2 a ha' b hb' hab

theorem clq_isClique_iff_pairwise {g : Graph} (hs : Simple g) {S : List Nat} (hS : S.Nodup) :
    IsClique g S ↔ S.Pairwise (fun u v => g.adj u v = true) := by
  induction S with
  | nil => simp [IsClique]
  | cons u rest ih =>
    rw [List.nodup_cons] at hS
    rw [clq_isClique_cons hs hS.1, List.pairwise_cons, ih hS.2]

/-- the edge-count test of the source is the pairwise definition (simple graphs, duplicate-free node list) -/
theorem isCliqueCount_iff {g : Graph} (hs : Simple g) {S : List Nat} (hS : S.Nodup) :
    isCliqueCount g S = true ↔ IsClique g S := by
  rw [clq_isClique_iff_pairwise hs hS, ← clq_edgeCount_eq_iff]
  simp [isCliqueCount]

theorem isCliquePair_iff {g : Graph} (S : List Nat) : isCliquePair g S = true ↔ IsClique g S := by
  simp only [isCliquePair, IsClique, List.all_eq_true, Bool.or_eq_true, beq_iff_eq]
  constructor
  · intro h u hu v hv huv
    rcases h u hu v hv with h | h
    · exact absurd h huv
    · exact h
  · intro h u hu v hv
    by_cases huv : u = v
    · exact Or.inl huv
    · exact Or.inr (h u hu v hv huv)

theorem mem_c0 (g : Graph) (C : List Nat) (i : Nat) :
    i ∈ c0 g C ↔ i ∈ g.nodes ∧ i ∉ C ∧ ∀ c ∈ C, g.adj i c = true := by
  simp [c0, List.mem_filter, List.all_eq_true]

theorem clq_filter_eq_singleton {l : List Nat} (hl : l.Nodup) (p : Nat → Bool) (c : Nat) :
    l.filter p = [c] ↔ c ∈ l ∧ p c = true ∧ ∀ c' ∈ l, c' ≠ c → p c' = false := by
  constructor
  · intro h
    have hc : c ∈ l.filter p := by rw [h]; simp
    rw [List.mem_filter] at hc
    refine ⟨hc.1, hc.2, ?_⟩
    intro c' hc' hne
    cases hp : p c' with
    | false => rfl
    | true =>
      have : c' ∈ l.filter p := List.mem_filter.mpr ⟨hc', hp⟩
      rw [h] at this
      simp at this
      exact absurd this hne
  · rintro ⟨hc, hpc, hrest⟩
    induction l with
    | nil => simp at hc
    | cons x xs ih =>
      rw [List.nodup_cons] at hl
      by_cases hx : x = c
      · subst hx
        have : xs.filter p = [] := by
          rw [List.filter_eq_nil_iff]
          intro a ha
          have : a ≠ x := fun e => hl.1 (e ▸ ha)
          simp [hrest a (by simp [ha]) this]
        simp [hpc, this]
      · have hpx : p x = false := hrest x (by simp) hx
        have hc' : c ∈ xs := by
          rcases List.mem_cons.mp hc with h | h
          · exact absurd h.symm hx
          · exact h
        simp only [List.filter_cons, hpx]
        exact ih hl.2 hc' (fun c' h' => hrest c' (by simp [h']))

theorem mem_c1 {g : Graph} (hn : g.nodes.Nodup) {C : List Nat} (hC : C.Nodup) (c i : Nat) :
    (c, i) ∈ c1 g C ↔ i ∈ g.nodes ∧ i ∉ C ∧ c ∈ C ∧ g.adj i c = false ∧ ∀ c' ∈ C, c' ≠ c → g.adj i c' = true := by
  have _ := hn
  have hfin : (i ∈ g.nodes ∧ i ∉ C ∧ C.filter (fun c => !g.adj i c) = [c]) ↔
      (i ∈ g.nodes ∧ i ∉ C ∧ c ∈ C ∧ g.adj i c = false ∧ ∀ c' ∈ C, c' ≠ c → g.adj i c' = true) := by
    rw [clq_filter_eq_singleton hC]
    simp
  rw [← hfin]
  simp only [c1, List.mem_filterMap]
  constructor
  · rintro ⟨j, hj, h⟩
    by_cases hc : C.contains j = true
    · rw [if_pos hc] at h; cases h
    · rw [if_neg hc] at h
      have hj' : j ∉ C := by simpa using hc
      split at h
      · rename_i c0 heq
        injection h with h
        injection h with h1 h2
        subst h1; subst h2
        exact ⟨hj, hj', heq⟩
      · cases h
  · rintro ⟨hi, hiC, hf⟩
    refine ⟨i, hi, ?_⟩
    have hc : ¬ C.contains i = true := by simpa using hiC
    rw [if_neg hc, hf]

/-! ### grow -/

/-- selection rule of grow: the node drawn is a C0 node, of maximal degree / weight among C0 -/
theorem growCands_spec (g : Graph) (sel : Sel) (cs : List Nat) (v : Nat) (hv : v ∈ growCands g sel cs) :
    v ∈ cs ∧ (sel = .degree → ∀ u ∈ cs, degree g u ≤ degree g v) ∧
    (∀ ws, sel = .weight ws → ∀ u ∈ cs, weightOf g ws u ≤ weightOf g ws v) := by
  cases sel with
  | uniform =>
    refine ⟨hv, fun h => (by cases h), fun ws h => (by cases h)⟩
  | degree =>
    simp only [growCands, mem_argmaxs] at hv
    refine ⟨hv.1, fun _ u hu => ?_, fun ws h => (by cases h)⟩
    exact Int.ofNat_le.mp (hv.2 u hu)
  | weight ws =>
    simp only [growCands, mem_argmaxs] at hv
    refine ⟨hv.1, fun h => (by cases h), fun ws' h => ?_⟩
    cases h
    exact hv.2

theorem growCands_ne_nil (g : Graph) (sel : Sel) {cs : List Nat} (h : cs ≠ []) : growCands g sel cs ≠ [] := by
  cases sel with
  | uniform => exact h
  | degree => exact argmaxs_ne_nil _ h
  | weight ws => exact argmaxs_ne_nil _ h

theorem clq_isClique_congr {g : Graph} {S S' : List Nat} (h : ∀ x, x ∈ S ↔ x ∈ S') :
    IsClique g S ↔ IsClique g S' := by
  unfold IsClique
  constructor
  · intro hc u hu v hv; exact hc u ((h u).mpr hu) v ((h v).mpr hv)
  · intro hc u hu v hv; exact hc u ((h u).mp hu) v ((h v).mp hv)

theorem clq_c0_congr (g : Graph) {C C' : List Nat} (h : ∀ x, x ∈ C ↔ x ∈ C') : c0 g C = c0 g C' := by
  unfold c0
  apply List.filter_congr
  intro i _
  have h1 : C.contains i = C'.contains i := by
    rw [Bool.eq_iff_iff]; simp [h i]
  have h2 : (C.all fun c => g.adj i c) = (C'.all fun c => g.adj i c) := by
    rw [Bool.eq_iff_iff]; simp only [List.all_eq_true]
    exact ⟨fun hh c hc => hh c ((h c).mpr hc), fun hh c hc => hh c ((h c).mp hc)⟩
  rw [h1, h2]

/-- one growth step keeps the invariant -/
theorem clq_grow_step {g : Graph} (hs : Simple g) {C : List Nat} {v : Nat} (hv : v ∈ c0 g C)
    (hnd : C.Nodup) (hsub : ∀ x ∈ C, x ∈ g.nodes) (hcl : IsClique g C) :
    (v :: C).Nodup ∧ (∀ x ∈ v :: C, x ∈ g.nodes) ∧ IsClique g (v :: C) := by
  rw [mem_c0] at hv
  obtain ⟨hvn, hvC, hadj⟩ := hv
  refine ⟨List.nodup_cons.mpr ⟨hvC, hnd⟩, ?_, (clq_isClique_cons hs hvC).mpr ⟨hadj, hcl⟩⟩
  intro x hx
  rcases List.mem_cons.mp hx with rfl | hx
  · exact hvn
  · exact hsub x hx

theorem clq_isEmpty_sortAsc {l : List Nat} : (sortAsc l).isEmpty = true ↔ l = [] := by
  rw [List.isEmpty_iff]
  constructor
  · intro h
    have := clq_sortAsc_perm l
    rw [h] at this
    exact List.nil_perm.mp this
  · intro h; rw [h]; rfl

theorem clq_grow_choice_mem {g : Graph} {pick : Pick} (hp : Lawful pick) (sel : Sel) (step : Nat) {C : List Nat}
    (hne : ¬ (sortAsc (c0 g C)).isEmpty = true) :
    choose pick step (growCands g sel (sortAsc (c0 g C))) 0 ∈ c0 g C := by
  have hne' : sortAsc (c0 g C) ≠ [] := fun e => hne (by rw [e]; rfl)
  have := choose_mem hp step (growCands_ne_nil g sel hne') 0
  exact (clq_mem_sortAsc _ _).mp (growCands_spec g sel _ _ this).1

theorem clq_growLoop_inv {g : Graph} (hs : Simple g) {pick : Pick} (hp : Lawful pick) (sel : Sel) :
    ∀ (f step : Nat) (C : List Nat), C.Nodup → (∀ x ∈ C, x ∈ g.nodes) → IsClique g C →
      (growLoop g sel pick f step C).Nodup ∧ (∀ x ∈ growLoop g sel pick f step C, x ∈ g.nodes) ∧
      IsClique g (growLoop g sel pick f step C) ∧ (∀ x ∈ C, x ∈ growLoop g sel pick f step C) := by
  intro f
  induction f with
  | zero => intro step C h1 h2 h3; exact ⟨h1, h2, h3, fun x hx => hx⟩
  | succ f ih =>
    intro step C h1 h2 h3
    simp only [growLoop]
    split
    · exact ⟨h1, h2, h3, fun x hx => hx⟩
    · rename_i hne
      have hv := clq_grow_choice_mem hp sel step hne
      obtain ⟨a, b, c⟩ := clq_grow_step hs hv h1 h2 h3
      obtain ⟨r1, r2, r3, r4⟩ := ih (step + 1) _ a b c
      exact ⟨r1, r2, r3, fun x hx => r4 x (List.mem_cons_of_mem _ hx)⟩

/-- termination measure: number of graph nodes outside `C` -/
def clq_outside (g : Graph) (C : List Nat) : Nat := (g.nodes.filter fun x => !C.contains x).length

theorem clq_outside_cons_lt {g : Graph} {C : List Nat} {v : Nat} (hv : v ∈ g.nodes) (hvC : v ∉ C) :
    clq_outside g (v :: C) < clq_outside g C := by
  unfold clq_outside
  have : (g.nodes.filter fun x => !(v :: C).contains x) =
      (g.nodes.filter fun x => !C.contains x).filter (fun x => x != v) := by
    rw [List.filter_filter]
    apply List.filter_congr
    intro x _
    by_cases hxv : x = v <;> by_cases hxC : x ∈ C <;> simp [hxv, hxC]
  rw [this]
  apply List.length_filter_lt_length_iff_exists.mpr
  exact ⟨v, List.mem_filter.mpr ⟨hv, by simpa using hvC⟩, by simp⟩

theorem clq_growLoop_maximal {g : Graph} {pick : Pick} (hp : Lawful pick) (sel : Sel) :
    ∀ (f step : Nat) (C : List Nat), clq_outside g C < f → c0 g (growLoop g sel pick f step C) = [] := by
  intro f
  induction f with
  | zero => intro step C h; omega
  | succ f ih =>
    intro step C h
    simp only [growLoop]
    split
    · rename_i he
      exact clq_isEmpty_sortAsc.mp he
    · rename_i hne
      have hv := clq_grow_choice_mem hp sel step hne
      have hv' := (mem_c0 _ _ _).mp hv
      have := clq_outside_cons_lt hv'.1 hv'.2.1
      exact ih (step + 1) _ (by omega)

theorem clq_checkClique_cases (g : Graph) (clique : List Nat) (sel : Sel) :
    checkClique g clique sel = .ok () ∨ ∃ e, checkClique g clique sel = .error e := by
  unfold checkClique
  split
  · exact Or.inr ⟨_, rfl⟩
  · split
    · exact Or.inr ⟨_, rfl⟩
    · split
      · exact Or.inr ⟨_, rfl⟩
      · exact Or.inl rfl

theorem clq_isClique_distinct {g : Graph} {S : List Nat} : IsClique g (distinct S) ↔ IsClique g S :=
  clq_isClique_congr (fun x => clq_mem_distinct x S)

theorem clq_checkClique_ok {g : Graph} (hs : Simple g) (clique : List Nat) (sel : Sel) :
    checkClique g clique sel = .ok () ↔
      ((∀ v ∈ clique, v ∈ g.nodes) ∧ IsClique g clique ∧ selOk g sel = true) := by
  have h1 : (clique.all fun v => g.nodes.contains v) = true ↔ ∀ v ∈ clique, v ∈ g.nodes := by
    simp [List.all_eq_true]
  have h2 := isCliqueCount_iff hs (clq_nodup_distinct clique)
  rw [clq_isClique_distinct] at h2
  rw [← h1, ← h2]
  unfold checkClique
  cases (clique.all fun v => g.nodes.contains v) <;> cases isCliqueCount g (distinct clique) <;>
    cases selOk g sel <;> simp

/-- grow: result is a clique of the graph containing the input, sorted, duplicate-free, and maximal -/
theorem grow_spec {g : Graph} (hs : Simple g) {pick : Pick} (hp : Lawful pick) {clique r : List Nat} {sel : Sel}
    (h : grow g clique sel pick = .ok r) :
    IsClique g r ∧ (∀ v ∈ clique, v ∈ r) ∧ (∀ v ∈ r, v ∈ g.nodes) ∧ r.Nodup ∧ r.Pairwise (· ≤ ·) ∧ c0 g r = [] := by
  unfold grow at h
  rcases clq_checkClique_cases g clique sel with hc | ⟨e, hc⟩
  · rw [hc] at h
    simp only [Except.ok.injEq] at h
    obtain ⟨k1, k2, _⟩ := (clq_checkClique_ok hs clique sel).mp hc
    have hsub : ∀ x ∈ distinct clique, x ∈ g.nodes := fun x hx => k1 x ((clq_mem_distinct _ _).mp hx)
    obtain ⟨r1, r2, r3, r4⟩ := clq_growLoop_inv hs hp sel (g.nodes.length + 1) 0 (distinct clique)
      (clq_nodup_distinct clique) hsub (clq_isClique_distinct.mpr k2)
    have hlt : clq_outside g (distinct clique) < g.nodes.length + 1 := by
      unfold clq_outside
      have := List.length_filter_le (fun x => !(distinct clique).contains x) g.nodes
      omega
    have hmax := clq_growLoop_maximal hp sel (g.nodes.length + 1) 0 (distinct clique) hlt
    subst h
    refine ⟨(clq_isClique_congr (fun x => clq_mem_sortAsc x _)).mpr r3, ?_, ?_, clq_sortAsc_nodup.mpr r1,
      clq_sortAsc_sorted _, ?_⟩
    · intro v hv
      exact (clq_mem_sortAsc _ _).mpr (r4 v ((clq_mem_distinct _ _).mpr hv))
    · intro v hv
      exact r2 v ((clq_mem_sortAsc _ _).mp hv)
    · rw [clq_c0_congr g (fun x => clq_mem_sortAsc x _)]
      exact hmax
  · rw [hc] at h
    cases h

/-- grow raises exactly when the input is not a clique of the graph (or the weights do not fit) -/
theorem grow_error_iff {g : Graph} (hs : Simple g) (pick : Pick) (clique : List Nat) (sel : Sel) :
    (∃ e, grow g clique sel pick = .error e) ↔
      ¬ ((∀ v ∈ clique, v ∈ g.nodes) ∧ IsClique g clique ∧ selOk g sel = true) := by
  rw [← clq_checkClique_ok hs]
  unfold grow
  rcases clq_checkClique_cases g clique sel with hc | ⟨e, hc⟩
  · rw [hc]
    simp
  · rw [hc]
    simp

/-! ### swap -/

theorem swapCands_spec (g : Graph) (sel : Sel) (cs : List (Nat × Nat)) (p : Nat × Nat) (hp : p ∈ swapCands g sel cs) :
    p ∈ cs ∧ (sel = .degree → ∀ q ∈ cs, degree g q.2 ≤ degree g p.2) ∧
    (∀ ws, sel = .weight ws → ∀ q ∈ cs, weightOf g ws q.2 ≤ weightOf g ws p.2) := by
  cases sel with
  | uniform =>
    exact ⟨hp, fun h => (by cases h), fun ws h => (by cases h)⟩
  | degree =>
    simp only [swapCands, List.mem_filter, List.all_eq_true, decide_eq_true_eq] at hp
    exact ⟨hp.1, fun _ => hp.2, fun ws h => (by cases h)⟩
  | weight ws =>
    simp only [swapCands, List.mem_filter, List.all_eq_true, decide_eq_true_eq] at hp
    refine ⟨hp.1, fun h => (by cases h), fun ws' h => ?_⟩
    cases h
    exact hp.2

private theorem clq_exists_max_pair (key : Nat × Nat → Int) :
    ∀ {l : List (Nat × Nat)}, l ≠ [] → ∃ v ∈ l, ∀ u ∈ l, key u ≤ key v
  | [], h => absurd rfl h
  | [x], _ => ⟨x, by simp, by simp⟩
  | x :: y :: ys, _ => by
    obtain ⟨v, hv, hmax⟩ := clq_exists_max_pair key (l := y :: ys) (by simp)
    by_cases hxv : key x ≤ key v
    · refine ⟨v, List.mem_cons_of_mem _ hv, ?_⟩
      intro u hu
      rcases List.mem_cons.mp hu with rfl | hu
      · exact hxv
      · exact hmax u hu
    · refine ⟨x, by simp, ?_⟩
      intro u hu
      rcases List.mem_cons.mp hu with rfl | hu
      · exact Int.le_refl _
      · have := hmax u hu
        omega

theorem clq_swapCands_ne_nil (g : Graph) (sel : Sel) {cs : List (Nat × Nat)} (h : cs ≠ []) :
    swapCands g sel cs ≠ [] := by
  cases sel with
  | uniform => exact h
  | degree =>
    obtain ⟨v, hv, hmax⟩ := clq_exists_max_pair (fun q => (degree g q.2 : Int)) h
    refine List.ne_nil_of_mem (a := v) ?_
    simp only [swapCands, List.mem_filter, List.all_eq_true, decide_eq_true_eq]
    exact ⟨hv, fun q hq => Int.ofNat_le.mp (hmax q hq)⟩
  | weight ws =>
    obtain ⟨v, hv, hmax⟩ := clq_exists_max_pair (fun q => weightOf g ws q.2) h
    refine List.ne_nil_of_mem (a := v) ?_
    simp only [swapCands, List.mem_filter, List.all_eq_true, decide_eq_true_eq]
    exact ⟨hv, hmax⟩

/-- exchanging a C1 pair in a duplicate-free clique gives a duplicate-free clique of the same size -/
theorem clq_swap_step {g : Graph} (hs : Simple g) {C : List Nat} (hnd : C.Nodup) (hsub : ∀ x ∈ C, x ∈ g.nodes)
    (hcl : IsClique g C) {p : Nat × Nat} (hp : p ∈ c1 g C) :
    IsClique g (p.2 :: C.erase p.1) ∧ (∀ v ∈ p.2 :: C.erase p.1, v ∈ g.nodes) ∧ (p.2 :: C.erase p.1).Nodup ∧
      (p.2 :: C.erase p.1).length = C.length := by
  obtain ⟨c, i⟩ := p
  obtain ⟨hi, hiC, hcC, _, hadj⟩ := (mem_c1 hs.nodup hnd c i).mp hp
  have hiE : i ∉ C.erase c := fun h => hiC (List.mem_of_mem_erase h)
  refine ⟨(clq_isClique_cons hs hiE).mpr ⟨?_, ?_⟩, ?_, List.nodup_cons.mpr ⟨hiE, hnd.erase c⟩, ?_⟩
  · intro v hv
    rw [hnd.mem_erase_iff] at hv
    exact hadj v hv.2 hv.1
  · intro u hu v hv huv
    exact hcl u (List.mem_of_mem_erase hu) v (List.mem_of_mem_erase hv) huv
  · intro v hv
    rcases List.mem_cons.mp hv with rfl | hv
    · exact hi
    · exact hsub v (List.mem_of_mem_erase hv)
  · have := List.length_erase_of_mem hcC
    have hpos : 0 < C.length := List.length_pos_of_mem hcC
    simp only [List.length_cons, this]
    omega

/-- swap: result is a clique of the same size; either nothing could be swapped (C1 empty) and the clique is
returned, or exactly one C1 pair (chosen by the rule) was exchanged -/
theorem swap_spec {g : Graph} (hs : Simple g) {pick : Pick} (hp : Lawful pick) {clique r : List Nat} {sel : Sel}
    (h : swap g clique sel pick = .ok r) :
    IsClique g r ∧ (∀ v ∈ r, v ∈ g.nodes) ∧ r.Nodup ∧ r.length = (distinct clique).length ∧
    ((c1 g (distinct clique) = [] ∧ r = sortAsc (distinct clique)) ∨
     (∃ p ∈ swapCands g sel (c1 g (distinct clique)), r.Perm (p.2 :: (distinct clique).erase p.1))) := by
  unfold swap at h
  rcases clq_checkClique_cases g clique sel with hc | ⟨e, hc⟩
  · rw [hc] at h
    obtain ⟨k1, k2, _⟩ := (clq_checkClique_ok hs clique sel).mp hc
    have hsub : ∀ x ∈ distinct clique, x ∈ g.nodes := fun x hx => k1 x ((clq_mem_distinct _ _).mp hx)
    have hnd := clq_nodup_distinct clique
    have hcl : IsClique g (distinct clique) := clq_isClique_distinct.mpr k2
    simp only at h
    split at h
    · rename_i he
      simp only [Except.ok.injEq] at h
      subst h
      refine ⟨(clq_isClique_congr (fun x => clq_mem_sortAsc x _)).mpr hcl, ?_, clq_sortAsc_nodup.mpr hnd,
        clq_sortAsc_length _, Or.inl ⟨List.isEmpty_iff.mp he, rfl⟩⟩
      intro v hv
      exact hsub v ((clq_mem_sortAsc _ _).mp hv)
    · rename_i hne
      simp only [Except.ok.injEq] at h
      have hne' : c1 g (distinct clique) ≠ [] := fun e => hne (by rw [e]; rfl)
      have hmem := choose_mem hp 0 (clq_swapCands_ne_nil g sel hne') (0, 0)
      have hmem' := (swapCands_spec g sel _ _ hmem).1
      obtain ⟨s1, s2, s3, s4⟩ := clq_swap_step hs hnd hsub hcl hmem'
      subst h
      refine ⟨(clq_isClique_congr (fun x => clq_mem_sortAsc x _)).mpr s1, ?_, clq_sortAsc_nodup.mpr s3,
        (clq_sortAsc_length _).trans s4, Or.inr ⟨_, hmem, clq_sortAsc_perm _⟩⟩
      intro v hv
      exact s2 v ((clq_mem_sortAsc _ _).mp hv)
  · rw [hc] at h
    cases h

/-! ### shrink -/

/-- selection rule of shrink (and of the shrink phase of resize): the node removed has minimum degree inside S,
and with weights minimum weight among the minimum-degree nodes -/
theorem shrinkCands_spec (g : Graph) (ws : Option (List Int)) (S : List Nat) (v : Nat) (hv : v ∈ shrinkCands g ws S) :
    v ∈ S ∧ (∀ u ∈ S, degIn g S v ≤ degIn g S u) ∧
    (∀ w, ws = some w → ∀ u ∈ S, degIn g S u = degIn g S v → weightOf g w v ≤ weightOf g w u) := by
  cases ws with
  | none =>
    simp only [shrinkCands, mem_argmins] at hv
    exact ⟨hv.1, fun u hu => Int.ofNat_le.mp (hv.2 u hu), fun w h => (by cases h)⟩
  | some w0 =>
    simp only [shrinkCands, mem_argmins] at hv
    obtain ⟨⟨h1, h2⟩, h3⟩ := hv
    refine ⟨h1, fun u hu => Int.ofNat_le.mp (h2 u hu), fun w h u hu he => ?_⟩
    cases h
    apply h3 u
    refine ⟨hu, fun x hx => ?_⟩
    rw [he]
    exact h2 x hx

theorem shrinkCands_ne_nil (g : Graph) (ws : Option (List Int)) {S : List Nat} (h : S ≠ []) : shrinkCands g ws S ≠ [] := by
  cases ws with
  | none => exact argmins_ne_nil _ h
  | some w => exact argmins_ne_nil _ (argmins_ne_nil _ h)

theorem clq_isCliqueCount_nil (g : Graph) : isCliqueCount g [] = true := by
  simp [isCliqueCount, edgeCount]

theorem clq_shrinkLoop_sublist (g : Graph) (ws : Option (List Int)) (pick : Pick) :
    ∀ (f step : Nat) (S : List Nat), (shrinkLoop g ws pick f step S).Sublist S := by
  intro f
  induction f with
  | zero => intro step S; exact List.Sublist.refl _
  | succ f ih =>
    intro step S
    simp only [shrinkLoop]
    split
    · exact List.Sublist.refl _
    · exact (ih _ _).trans (List.erase_sublist)

theorem clq_shrinkLoop_clique (g : Graph) (ws : Option (List Int)) {pick : Pick} (hp : Lawful pick) :
    ∀ (f step : Nat) (S : List Nat), S.length < f → isCliqueCount g (shrinkLoop g ws pick f step S) = true := by
  intro f
  induction f with
  | zero => intro step S h; omega
  | succ f ih =>
    intro step S h
    simp only [shrinkLoop]
    split
    · assumption
    · rename_i hnc
      have hne : S ≠ [] := fun e => hnc (by rw [e]; exact clq_isCliqueCount_nil g)
      have hmem := (shrinkCands_spec g ws S _ (choose_mem hp step (shrinkCands_ne_nil g ws hne) 0)).1
      apply ih
      have := List.length_erase_of_mem hmem
      have hpos : 0 < S.length := List.length_pos_of_mem hmem
      omega

/-- shrink: result is a clique of the graph inside the input subgraph -/
theorem shrink_spec {g : Graph} (hs : Simple g) {pick : Pick} (hp : Lawful pick) {sub r : List Nat} {sel : Sel}
    (h : shrink g sub sel pick = .ok r) :
    IsClique g r ∧ (∀ v ∈ r, v ∈ sub) ∧ r.Nodup ∧ r.Pairwise (· ≤ ·) := by
  have hSnd : (g.nodes.filter fun v => sub.contains v).Nodup := hs.nodup.filter _
  have hSsub : ∀ v ∈ (g.nodes.filter fun v => sub.contains v), v ∈ sub := by
    intro v hv
    simpa using (List.mem_filter.mp hv).2
  -- everything follows from: `r = sortAsc T` with `T` a sublist of `S` passing the clique test
  have key : ∀ T : List Nat, T.Sublist (g.nodes.filter fun v => sub.contains v) → isCliqueCount g T = true →
      r = sortAsc T → IsClique g r ∧ (∀ v ∈ r, v ∈ sub) ∧ r.Nodup ∧ r.Pairwise (· ≤ ·) := by
    intro T hT hc hr
    subst hr
    have hTnd : T.Nodup := hSnd.sublist hT
    refine ⟨(clq_isClique_congr (fun x => clq_mem_sortAsc x _)).mpr ((isCliqueCount_iff hs hTnd).mp hc), ?_,
      clq_sortAsc_nodup.mpr hTnd, clq_sortAsc_sorted _⟩
    intro v hv
    exact hSsub v (hT.subset ((clq_mem_sortAsc _ _).mp hv))
  unfold shrink at h
  split at h
  · cases h
  · split at h
    · cases h
    · simp only at h
      split at h
      · split at h
        · rename_i hc
          simp only [Except.ok.injEq] at h
          exact key _ (List.Sublist.refl _) hc h.symm
        · cases h
      · simp only [Except.ok.injEq] at h
        exact key _ (clq_shrinkLoop_sublist g _ pick _ _ _)
          (clq_shrinkLoop_clique g _ hp _ _ _ (Nat.lt_succ_self _)) h.symm
      · simp only [Except.ok.injEq] at h
        exact key _ (clq_shrinkLoop_sublist g _ pick _ _ _)
          (clq_shrinkLoop_clique g _ hp _ _ _ (Nat.lt_succ_self _)) h.symm

/-- a subgraph that is already a clique is returned unchanged -/
theorem shrink_of_clique {g : Graph} (hs : Simple g) (pick : Pick) {sub : List Nat} (hsub : ∀ v ∈ sub, v ∈ g.nodes)
    (hc : IsClique g sub) : shrink g sub .uniform pick = .ok (sortAsc (g.nodes.filter fun v => sub.contains v)) := by
  have h1 : (sub.all fun v => g.nodes.contains v) = true := by
    simpa [List.all_eq_true] using hsub
  have hSnd : (g.nodes.filter fun v => sub.contains v).Nodup := hs.nodup.filter _
  have hScl : IsClique g (g.nodes.filter fun v => sub.contains v) := by
    intro u hu v hv huv
    have hu' : u ∈ sub := by simpa using (List.mem_filter.mp hu).2
    have hv' : v ∈ sub := by simpa using (List.mem_filter.mp hv).2
    exact hc u hu' v hv' huv
  have h2 := (isCliqueCount_iff hs hSnd).mpr hScl
  simp only [shrink, h1, selOk, Bool.not_true, Bool.false_eq_true, if_false, shrinkLoop, h2, if_true]

end SFV.Apps
