import SFV.Model.HwCompile

/-!
# The S2-merge loop of `xunitary.py` (C12): refinement of the pop / insert list surgery to a functional
form, invariants of one merge, termination.  Core Lean only.
-/
namespace SFV.Hw

/-! ## positions -/

theorem positions_append (k : Key) (as bs : List Key) :
    positions k (as ++ bs) = positions k as ++ (positions k bs).map (· + as.length) := by
  induction as with
  | nil => simp [positions]
  | cons a as ih =>
    simp only [List.cons_append, positions, ih, List.map_append, List.map_map, List.append_assoc,
      List.length_cons]
    congr 2

theorem rev_ind {α : Type} {P : List α → Prop} (h0 : P []) (h1 : ∀ ys y, P ys → P (ys ++ [y])) :
    ∀ l, P l := by
  intro l
  have : ∀ r : List α, P r.reverse := by
    intro r
    induction r with
    | nil => exact h0
    | cons a as ih => simpa using h1 _ a ih
  simpa using this l.reverse

theorem positions_length (k : Key) (l : List Key) : (positions k l).length = l.count k := by
  induction l with
  | nil => simp [positions]
  | cons a as ih =>
    simp only [positions, List.length_append, List.length_map, ih, List.count_cons]
    by_cases h : a = k <;> simp [h] <;> omega

theorem mem_firstOcc (k : Key) (l : List Key) : k ∈ firstOcc l ↔ k ∈ l := by
  induction l with
  | nil => simp [firstOcc]
  | cons a as ih =>
    simp only [firstOcc, List.mem_cons, List.mem_filter, ih, decide_eq_true_eq]
    by_cases h : k = a <;> simp [h]

theorem firstOcc_nodup (l : List Key) : (firstOcc l).Nodup := by
  induction l with
  | nil => simp [firstOcc]
  | cons a as ih =>
    simp only [firstOcc, List.nodup_cons, List.mem_filter, decide_eq_true_eq]
    exact ⟨fun h => h.2 rfl, List.Pairwise.filter _ ih⟩

theorem firstOcc_of_nodup {l : List Key} (h : l.Nodup) : firstOcc l = l := by
  induction l with
  | nil => rfl
  | cons a as ih =>
    rw [List.nodup_cons] at h
    simp only [firstOcc, ih h.2]
    congr 1
    apply List.filter_eq_self.2
    intro x hx
    simp only [decide_eq_true_eq]
    intro hxa
    exact h.1 (hxa ▸ hx)

/-! ## the head of `list_duplicates` -/

theorem listDuplicates_mem {seq : List Key} {g : Key × List Nat} (h : g ∈ listDuplicates seq) :
    g.2 = positions g.1 seq ∧ 2 ≤ seq.count g.1 := by
  simp only [listDuplicates, List.mem_filterMap] at h
  obtain ⟨k, _, hk⟩ := h
  by_cases hl : (positions k seq).length > 1
  · simp only [hl, if_true, Option.some.injEq] at hk
    subst hk
    rw [positions_length] at hl
    exact ⟨rfl, hl⟩
  · simp [hl] at hk

theorem listDuplicates_nil {seq : List Key} (h : listDuplicates seq = []) : seq.Nodup := by
  rw [List.nodup_iff_count]
  intro k
  by_cases hk : k ∈ seq
  · simp only [listDuplicates, List.filterMap_eq_nil_iff] at h
    have := h k ((mem_firstOcc k seq).2 hk)
    by_cases hl : (positions k seq).length > 1
    · simp [hl] at this
    · rw [positions_length] at hl
      omega
  · rw [List.count_eq_zero.2 hk]
    omega

/-! ## the pop loop -/

/-- the accumulation the pop loop performs on the popped commands, in pop order -/
def accLoop : List S2 → Nat → Rat → Rat → Except MErr (Rat × Rat)
  | [], _, r, phi => .ok (r, phi)
  | c :: cs, k, r, phi =>
    if k > 0 ∧ c.phi ≠ phi then .error .circuit else accLoop cs (k + 1) (r + c.effR) c.phi

/-- popping the positions of `k` in descending order removes exactly the commands with key `k` and
accumulates them from the last to the first -/
theorem popLoop_spec (k : Key) (xs : List S2) :
    ∀ (tail : List S2) (kc : Nat) (r phi : Rat),
      popLoop (positions k (xs.map S2.key)).reverse kc (xs ++ tail) r phi =
        match accLoop (xs.filter (fun c => c.key = k)).reverse kc r phi with
        | .ok (r', phi') => .ok (xs.filter (fun c => c.key ≠ k) ++ tail, r', phi')
        | .error e => .error e := by
  induction xs using rev_ind with
  | h0 => intro tail kc r phi; simp [positions, popLoop, accLoop]
  | h1 ys y ih =>
    intro tail kc r phi
    simp only [List.map_append, List.map_cons, List.map_nil, positions_append, List.length_map,
      List.filter_append, List.reverse_append, List.append_assoc, List.singleton_append]
    by_cases hy : y.key = k
    · subst hy
      have hp : positions y.key [y.key] = [0] := by simp [positions]
      simp only [hp, List.map_cons, List.map_nil, Nat.zero_add, List.reverse_cons, List.reverse_nil,
        List.nil_append, List.singleton_append, List.filter_cons, decide_true, if_true,
        List.filter_nil, ne_eq, not_true_eq_false, decide_false, Bool.false_eq_true, if_false,
        List.append_nil, popLoop]
      have hget : (ys ++ y :: tail)[ys.length]? = some y := by simp
      rw [hget]
      simp only [accLoop]
      by_cases hc : kc > 0 ∧ y.phi ≠ phi
      · simp [hc]
      · simp only [hc, if_false]
        have her : (ys ++ y :: tail).eraseIdx ys.length = ys ++ tail := by
          rw [List.eraseIdx_append_of_length_le (Nat.le_refl _)]
          simp
        rw [her]
        exact ih tail (kc + 1) (r + y.effR) y.phi
    · have hp : positions k [y.key] = [] := by simp [positions, hy]
      simp only [hp, List.map_nil, List.reverse_nil, List.nil_append, List.filter_cons, hy,
        decide_false, Bool.false_eq_true, if_false, List.filter_nil, ne_eq, not_false_eq_true,
        decide_true, if_true, List.append_nil, List.append_assoc, List.singleton_append]
      exact ih (y :: tail) kc r phi

/-! ## one merge in functional form -/

/-- replace the first command with key `k` by `m` and drop the later ones -/
def mergeAt (k : Key) (m : S2) : List S2 → List S2
  | [] => []
  | x :: xs => if x.key = k then m :: xs.filter (fun c => c.key ≠ k) else x :: mergeAt k m xs

theorem insert_first (k : Key) (m : S2) (xs : List S2) (h : k ∈ xs.map S2.key) :
    (xs.filter (fun c => c.key ≠ k)).insertIdx ((positions k (xs.map S2.key)).headD 0) m = mergeAt k m xs := by
  induction xs with
  | nil => simp at h
  | cons x xs ih =>
    by_cases hx : x.key = k
    · simp [positions, mergeAt, hx]
    · have hk : k ∈ xs.map S2.key := by
        simp only [List.map_cons, List.mem_cons] at h
        rcases h with h | h
        · exact absurd h.symm hx
        · exact h
      have hne : positions k (xs.map S2.key) ≠ [] := by
        intro h0
        have := positions_length k (xs.map S2.key)
        rw [h0] at this
        have hc : 0 < (xs.map S2.key).count k := List.count_pos_iff.2 hk
        simp at this
        omega
      obtain ⟨i, is, his⟩ := List.exists_cons_of_ne_nil hne
      have ih' := ih hk
      simp only [his, List.headD_cons] at ih'
      simp only [List.map_cons, positions, hx, if_false, List.nil_append, his, List.map_cons,
        List.headD_cons, mergeAt, List.filter_cons, ne_eq, not_false_eq_true, decide_true, if_true,
        List.insertIdx_succ_cons, ih']

theorem mergeOne_spec (B : List S2) (k : Key) (h : k ∈ B.map S2.key) :
    mergeOne B (k, positions k (B.map S2.key)) =
      match accLoop (B.filter (fun c => c.key = k)).reverse 0 0 0 with
      | .ok (r, phi) => .ok (mergeAt k ⟨k.1, k.2, r, phi, false⟩ B)
      | .error e => .error e := by
  have := popLoop_spec k B [] 0 0 0
  simp only [List.append_nil] at this
  simp only [mergeOne, this]
  cases hacc : accLoop (B.filter (fun c => c.key = k)).reverse 0 0 0 with
  | error e => simp
  | ok v =>
    obtain ⟨r, phi⟩ := v
    simp only
    rw [insert_first k _ B h]

/-! ## what the accumulation returns -/

theorem accLoop_ok {ms : List S2} {kc : Nat} {r phi r' phi' : Rat}
    (h : accLoop ms kc r phi = .ok (r', phi')) :
    r' = ms.foldl (fun acc c => acc + c.effR) r ∧ (∀ c ∈ ms, c.phi = phi') ∧ (ms = [] → phi' = phi) ∧
      (kc > 0 → phi' = phi) := by
  induction ms generalizing kc r phi with
  | nil =>
    simp only [accLoop, Except.ok.injEq, Prod.mk.injEq] at h
    obtain ⟨rfl, rfl⟩ := h
    simp
  | cons c cs ih =>
    simp only [accLoop] at h
    by_cases hc : kc > 0 ∧ c.phi ≠ phi
    · simp [hc] at h
    · simp only [hc, if_false] at h
      obtain ⟨h1, h2, h3, h4⟩ := ih h
      have hcphi : c.phi = phi' := (h4 (Nat.succ_pos _)).symm
      refine ⟨by simpa using h1, ?_, by simp, ?_⟩
      · intro d hd
        rcases List.mem_cons.1 hd with rfl | hd
        · exact hcphi
        · exact h2 d hd
      · intro hk
        have : c.phi = phi := Classical.byContradiction fun hne => hc ⟨hk, hne⟩
        rw [← hcphi, this]

theorem accLoop_error {ms : List S2} {kc : Nat} {r phi : Rat} {e : MErr}
    (h : accLoop ms kc r phi = .error e) :
    e = .circuit ∧ ((kc > 0 ∧ ∃ c ∈ ms, c.phi ≠ phi) ∨ ∃ c ∈ ms, ∃ d ∈ ms, c.phi ≠ d.phi) := by
  induction ms generalizing kc r phi with
  | nil => simp [accLoop] at h
  | cons c cs ih =>
    simp only [accLoop] at h
    by_cases hc : kc > 0 ∧ c.phi ≠ phi
    · rw [if_pos hc] at h
      cases h
      exact ⟨rfl, Or.inl ⟨hc.1, c, List.mem_cons_self, hc.2⟩⟩
    · simp only [hc, if_false] at h
      obtain ⟨he, hrest⟩ := ih h
      refine ⟨he, Or.inr ?_⟩
      rcases hrest with ⟨_, d, hd, hne⟩ | ⟨a, ha, b, hb, hne⟩
      · exact ⟨d, List.mem_cons_of_mem _ hd, c, List.mem_cons_self, hne⟩
      · exact ⟨a, List.mem_cons_of_mem _ ha, b, List.mem_cons_of_mem _ hb, hne⟩

/-! ## invariants of one merge -/

/-- the summed squeezing of the commands on pair `k` (added from the last command to the first, as the loop does) -/
def sumR (k : Key) (B : List S2) : Rat := (B.filter (fun c => c.key = k)).foldr (fun c acc => acc + c.effR) 0

theorem firstOcc_filter (p : Key → Bool) (l : List Key) : firstOcc (l.filter p) = (firstOcc l).filter p := by
  induction l with
  | nil => simp [firstOcc]
  | cons a as ih =>
    by_cases hp : p a = true
    · simp only [List.filter_cons, hp, if_true, firstOcc, ih, List.filter_filter]
      congr 1
      apply List.filter_congr
      intro x _
      exact Bool.and_comm _ _
    · simp only [List.filter_cons, hp, Bool.false_eq_true, if_false, firstOcc, ih, List.filter_filter]
      apply List.filter_congr
      intro x _
      by_cases hx : p x = true
      · have : x ≠ a := fun hxa => hp (hxa ▸ hx)
        simp [hx, this]
      · simp [hx]

theorem keys_filter_ne (k : Key) (xs : List S2) :
    (xs.filter (fun c => c.key ≠ k)).map S2.key = (xs.map S2.key).filter (· ≠ k) := by
  rw [List.filter_map]
  rfl

theorem mergeAt_keys (k : Key) (m : S2) (hm : m.key = k) (B : List S2) (h : k ∈ B.map S2.key) :
    firstOcc ((mergeAt k m B).map S2.key) = firstOcc (B.map S2.key) := by
  induction B with
  | nil => simp at h
  | cons x xs ih =>
    by_cases hx : x.key = k
    · simp only [mergeAt, hx, if_true, List.map_cons, hm, firstOcc, keys_filter_ne, firstOcc_filter,
        List.filter_filter, Bool.and_self]
    · have hk : k ∈ xs.map S2.key := by
        simp only [List.map_cons, List.mem_cons] at h
        rcases h with h | h
        · exact absurd h.symm hx
        · exact h
      simp only [mergeAt, hx, if_false, List.map_cons, firstOcc, ih hk]

theorem filter_eq_filter_ne (k : Key) (xs : List S2) :
    (xs.filter (fun c => c.key ≠ k)).filter (fun c => c.key = k) = [] := by
  rw [List.filter_filter]
  apply List.filter_eq_nil_iff.2
  intro a _
  by_cases h : a.key = k <;> simp [h]

theorem filter_other_filter_ne (k k' : Key) (hk : k' ≠ k) (xs : List S2) :
    (xs.filter (fun c => c.key ≠ k)).filter (fun c => c.key = k') = xs.filter (fun c => c.key = k') := by
  rw [List.filter_filter]
  apply List.filter_congr
  intro a _
  by_cases h : a.key = k'
  · have : a.key ≠ k := fun h2 => hk (h ▸ h2)
    simp [h, hk]
  · simp [h]

theorem mergeAt_sum_self (k : Key) (m : S2) (hm : m.key = k) (B : List S2) (h : k ∈ B.map S2.key) :
    sumR k (mergeAt k m B) = 0 + m.effR := by
  induction B with
  | nil => simp at h
  | cons x xs ih =>
    by_cases hx : x.key = k
    · simp only [sumR, mergeAt, hx, if_true, List.filter_cons, hm, decide_true, filter_eq_filter_ne,
        List.foldr_cons, List.foldr_nil]
    · have hk : k ∈ xs.map S2.key := by
        simp only [List.map_cons, List.mem_cons] at h
        rcases h with h | h
        · exact absurd h.symm hx
        · exact h
      have := ih hk
      simp only [sumR] at this
      simp only [sumR, mergeAt, hx, if_false, List.filter_cons, decide_false, Bool.false_eq_true, this]

theorem mergeAt_sum_other (k k' : Key) (hk : k' ≠ k) (m : S2) (hm : m.key = k) (B : List S2) :
    sumR k' (mergeAt k m B) = sumR k' B := by
  induction B with
  | nil => simp [mergeAt]
  | cons x xs ih =>
    have hmk : ¬ m.key = k' := by rw [hm]; exact fun h => hk h.symm
    by_cases hx : x.key = k
    · have hxk : ¬ x.key = k' := by rw [hx]; exact fun h => hk h.symm
      have hunf : mergeAt k m (x :: xs) = m :: xs.filter (fun c => c.key ≠ k) := by simp [mergeAt, hx]
      rw [hunf]
      simp only [sumR, List.filter_cons, hmk, hxk, decide_false, Bool.false_eq_true, if_false,
        filter_other_filter_ne k k' hk]
    · have hunf : mergeAt k m (x :: xs) = x :: mergeAt k m xs := by simp [mergeAt, hx]
      rw [hunf]
      simp only [sumR] at ih
      by_cases hxk : x.key = k'
      · simp only [sumR, List.filter_cons, hxk, decide_true, if_true, List.foldr_cons, ih]
      · simp only [sumR, List.filter_cons, hxk, decide_false, Bool.false_eq_true, if_false, ih]

theorem mergeAt_mem (k : Key) (m : S2) (B : List S2) :
    (∀ d ∈ B, d.key ≠ k → d ∈ mergeAt k m B) ∧ (k ∈ B.map S2.key → m ∈ mergeAt k m B) ∧
    (∀ c ∈ mergeAt k m B, c = m ∨ (c ∈ B ∧ c.key ≠ k)) := by
  induction B with
  | nil => simp [mergeAt]
  | cons x xs ih =>
    obtain ⟨i1, i2, i3⟩ := ih
    by_cases hx : x.key = k
    · simp only [mergeAt, hx, if_true]
      refine ⟨?_, fun _ => List.mem_cons_self, ?_⟩
      · intro d hd hdk
        rcases List.mem_cons.1 hd with rfl | hd
        · exact absurd hx hdk
        · exact List.mem_cons_of_mem _ (List.mem_filter.2 ⟨hd, by simpa using hdk⟩)
      · intro c hc
        rcases List.mem_cons.1 hc with rfl | hc
        · exact Or.inl rfl
        · have := List.mem_filter.1 hc
          exact Or.inr ⟨List.mem_cons_of_mem _ this.1, by simpa using this.2⟩
    · simp only [mergeAt, hx, if_false]
      refine ⟨?_, ?_, ?_⟩
      · intro d hd hdk
        rcases List.mem_cons.1 hd with rfl | hd
        · exact List.mem_cons_self
        · exact List.mem_cons_of_mem _ (i1 d hd hdk)
      · intro hk
        simp only [List.map_cons, List.mem_cons] at hk
        rcases hk with hk | hk
        · exact absurd hk.symm hx
        · exact List.mem_cons_of_mem _ (i2 hk)
      · intro c hc
        rcases List.mem_cons.1 hc with rfl | hc
        · exact Or.inr ⟨List.mem_cons_self, hx⟩
        · rcases i3 c hc with h | h
          · exact Or.inl h
          · exact Or.inr ⟨List.mem_cons_of_mem _ h.1, h.2⟩

theorem filter_ne_length (k : Key) (xs : List S2) :
    (xs.filter (fun c => c.key ≠ k)).length + (xs.map S2.key).count k = xs.length := by
  induction xs with
  | nil => rfl
  | cons x xs ih =>
    by_cases h : x.key = k
    · simp [h, List.count_cons] at ih ⊢; omega
    · have : ¬ (x.key == k) = true := by simpa using h
      simp [h, List.count_cons, this] at ih ⊢; omega

theorem mergeAt_length (k : Key) (m : S2) (B : List S2) (h : k ∈ B.map S2.key) :
    (mergeAt k m B).length + (B.map S2.key).count k = B.length + 1 := by
  induction B with
  | nil => simp at h
  | cons x xs ih =>
    by_cases hx : x.key = k
    · have := filter_ne_length k xs
      simp [mergeAt, hx, List.count_cons] at this ⊢; omega
    · have hk : k ∈ xs.map S2.key := by
        simp only [List.map_cons, List.mem_cons] at h
        rcases h with h | h
        · exact absurd h.symm hx
        · exact h
      have := ih hk
      have hb : ¬ (x.key == k) = true := by simpa using hx
      simp [mergeAt, hx, List.count_cons, hb] at this ⊢; omega

/-! ## the loop -/

/-- what the merge loop guarantees about its result -/
structure MergeOk (B out : List S2) : Prop where
  nodup : (out.map S2.key).Nodup
  keys : out.map S2.key = firstOcc (B.map S2.key)
  sums : ∀ k, sumR k out = sumR k B
  phis : ∀ d ∈ B, ∃ c ∈ out, c.key = d.key ∧ c.phi = d.phi

theorem mergeLoop_spec : ∀ (fuel : Nat) (B : List S2), B.length ≤ fuel →
    match mergeLoop fuel B with
    | .ok out => MergeOk B out
    | .error e => e = .circuit ∧ ∃ c ∈ B, ∃ d ∈ B, c.key = d.key ∧ c.phi ≠ d.phi := by
  intro fuel
  induction fuel with
  | zero =>
    intro B hB
    have : B = [] := List.eq_nil_of_length_eq_zero (Nat.le_zero.1 hB)
    subst this
    simp only [mergeLoop, List.map_nil, listDuplicates, firstOcc, List.filterMap_nil, List.head?_nil]
    exact ⟨by simp, by simp [firstOcc], fun _ => rfl, by simp⟩
  | succ fuel ih =>
    intro B hB
    simp only [mergeLoop]
    cases hh : (listDuplicates (B.map S2.key)).head? with
    | none =>
      have hnil : listDuplicates (B.map S2.key) = [] := List.head?_eq_none_iff.1 hh
      have hnd := listDuplicates_nil hnil
      exact ⟨hnd, (firstOcc_of_nodup hnd).symm, fun _ => rfl, fun d hd => ⟨d, hd, rfl, rfl⟩⟩
    | some g =>
      have hg : g ∈ listDuplicates (B.map S2.key) := List.mem_of_mem_head? hh
      obtain ⟨hg2, hcount⟩ := listDuplicates_mem hg
      obtain ⟨k, idx⟩ := g
      simp only at hg2 hcount
      subst hg2
      have hk : k ∈ B.map S2.key := List.count_pos_iff.1 (by omega)
      simp only [mergeOne_spec B k hk]
      cases hacc : accLoop (B.filter (fun c => c.key = k)).reverse 0 0 0 with
      | error e =>
        simp only
        obtain ⟨he, hrest⟩ := accLoop_error hacc
        refine ⟨he, ?_⟩
        rcases hrest with ⟨h0, _⟩ | ⟨c, hc, d, hd, hne⟩
        · exact absurd h0 (Nat.lt_irrefl 0)
        · have hc' := List.mem_filter.1 (List.mem_reverse.1 hc)
          have hd' := List.mem_filter.1 (List.mem_reverse.1 hd)
          refine ⟨c, hc'.1, d, hd'.1, ?_, hne⟩
          have h1 : c.key = k := by simpa using hc'.2
          have h2 : d.key = k := by simpa using hd'.2
          rw [h1, h2]
      | ok v =>
        obtain ⟨r', phi'⟩ := v
        simp only
        obtain ⟨hr, hphi, _, _⟩ := accLoop_ok hacc
        have hlen := mergeAt_length k ⟨k.1, k.2, r', phi', false⟩ B hk
        have hB' : (mergeAt k ⟨k.1, k.2, r', phi', false⟩ B).length ≤ fuel := by omega
        have hmk : (⟨k.1, k.2, r', phi', false⟩ : S2).key = k := rfl
        obtain ⟨m1, m2, m3⟩ := mergeAt_mem k ⟨k.1, k.2, r', phi', false⟩ B
        -- a command of the group exists, and all of them carry phi'
        have hex : ∃ c0 ∈ B, c0.key = k ∧ c0.phi = phi' := by
          obtain ⟨c0, hc0, hck⟩ := List.mem_map.1 hk
          refine ⟨c0, hc0, hck, hphi c0 (List.mem_reverse.2 (List.mem_filter.2 ⟨hc0, by simpa using hck⟩))⟩
        have hsum : ∀ k', sumR k' (mergeAt k ⟨k.1, k.2, r', phi', false⟩ B) = sumR k' B := by
          intro k'
          by_cases hkk : k' = k
          · subst hkk
            rw [mergeAt_sum_self k' _ hmk B hk]
            simp only [sumR]
            rw [hr, List.foldl_reverse]
            exact Rat.zero_add _
          · exact mergeAt_sum_other k k' hkk _ hmk B
        have := ih _ hB'
        cases hrec : mergeLoop fuel (mergeAt k ⟨k.1, k.2, r', phi', false⟩ B) with
        | error e =>
          rw [hrec] at this
          simp only at this ⊢
          obtain ⟨he, c, hc, d, hd, hkey, hne⟩ := this
          refine ⟨he, ?_⟩
          -- lift both commands back to the original list
          have lift : ∀ x ∈ mergeAt k ⟨k.1, k.2, r', phi', false⟩ B, ∃ x0 ∈ B, x0.key = x.key ∧ x0.phi = x.phi := by
            intro x hx
            rcases m3 x hx with rfl | ⟨hxB, _⟩
            · obtain ⟨c0, hc0, hck, hcp⟩ := hex
              exact ⟨c0, hc0, hck, hcp⟩
            · exact ⟨x, hxB, rfl, rfl⟩
          obtain ⟨c0, hc0, hck, hcp⟩ := lift c hc
          obtain ⟨d0, hd0, hdk, hdp⟩ := lift d hd
          exact ⟨c0, hc0, d0, hd0, by rw [hck, hdk, hkey], by rw [hcp, hdp]; exact hne⟩
        | ok out =>
          rw [hrec] at this
          simp only at this ⊢
          refine ⟨this.nodup, ?_, fun k' => (this.sums k').trans (hsum k'), ?_⟩
          · rw [this.keys, mergeAt_keys k _ hmk B hk]
          · intro d hd
            by_cases hdk : d.key = k
            · obtain ⟨c, hc, hck, hcp⟩ := this.phis _ (m2 hk)
              refine ⟨c, hc, by rw [hck, hdk]; rfl, ?_⟩
              rw [hcp]
              exact (hphi d (List.mem_reverse.2 (List.mem_filter.2 ⟨hd, by simpa using hdk⟩))).symm
            · exact this.phis d (m1 d hd hdk)

/-- a list with one command per pair: each command's squeezing is its own -/
theorem sumR_of_nodup {out : List S2} (h : (out.map S2.key).Nodup) {c : S2} (hc : c ∈ out) :
    sumR c.key out = 0 + c.effR := by
  induction out with
  | nil => simp at hc
  | cons x xs ih =>
    simp only [List.map_cons, List.nodup_cons] at h
    rcases List.mem_cons.1 hc with rfl | hc
    · have : xs.filter (fun d => d.key = c.key) = [] := by
        apply List.filter_eq_nil_iff.2
        intro a ha
        simp only [decide_eq_true_eq]
        intro hak
        exact h.1 (hak ▸ List.mem_map_of_mem ha)
      simp [sumR, this]
    · have hne : ¬ x.key = c.key := fun hx => h.1 (hx ▸ List.mem_map_of_mem hc)
      have := ih h.2 hc
      simp only [sumR] at this
      simp only [sumR, List.filter_cons, hne, decide_false, Bool.false_eq_true, if_false, this]

theorem eq_of_nodup_keys {out : List S2} (h : (out.map S2.key).Nodup) {c c' : S2} (hc : c ∈ out)
    (hc' : c' ∈ out) (hk : c.key = c'.key) : c = c' := by
  induction out with
  | nil => simp at hc
  | cons x xs ih =>
    simp only [List.map_cons, List.nodup_cons] at h
    rcases List.mem_cons.1 hc with h1 | h1
    · rcases List.mem_cons.1 hc' with h2 | h2
      · rw [h1, h2]
      · subst h1
        exact absurd (hk ▸ List.mem_map_of_mem h2) h.1
    · rcases List.mem_cons.1 hc' with h2 | h2
      · subst h2
        exact absurd (hk ▸ List.mem_map_of_mem h1) h.1
      · exact ih h.2 h1 h2

/-- the guarded loop of `Xunitary.compile` -/
theorem mergeS2_spec (half : Nat) (B : List S2) :
    match mergeS2 half B with
    | .ok out =>
      (B.length ≤ half → out = B) ∧
      (half < B.length →
        (out.map S2.key).Nodup ∧ out.map S2.key = firstOcc (B.map S2.key) ∧
        (∀ c ∈ out, c.effR = sumR c.key B) ∧ (∀ c ∈ out, ∀ d ∈ B, d.key = c.key → d.phi = c.phi))
    | .error e => e = .circuit ∧ half < B.length ∧ ∃ c ∈ B, ∃ d ∈ B, c.key = d.key ∧ c.phi ≠ d.phi := by
  unfold mergeS2
  by_cases hlen : B.length > half
  · rw [if_pos hlen]
    have := mergeLoop_spec B.length B (Nat.le_refl _)
    cases hres : mergeLoop B.length B with
    | error e =>
      rw [hres] at this
      exact ⟨this.1, hlen, this.2⟩
    | ok out =>
      rw [hres] at this
      simp only at this ⊢
      refine ⟨fun h => absurd hlen (Nat.not_lt.2 h), fun _ => ⟨this.nodup, this.keys, ?_, ?_⟩⟩
      · intro c hc
        have h1 := sumR_of_nodup this.nodup hc
        rw [this.sums c.key, Rat.zero_add] at h1
        exact h1.symm
      · intro c hc d hd hk
        obtain ⟨c', hc', hck, hcp⟩ := this.phis d hd
        have : c' = c := eq_of_nodup_keys this.nodup hc' hc (hck.trans hk)
        rw [← hcp, this]
  · rw [if_neg hlen]
    exact ⟨fun _ => rfl, fun h => absurd h hlen⟩

end SFV.Hw
