import SFV.Model.Apps

/-!
# Orbit / event cardinalities (similarity.py): `orbitCardinality` counts distinct arrangements

`orbitCardinality orbit modes = fact modes / multProd (orbit ++ zeros)` is the number of DISTINCT
arrangements of the multiset `orbit ++ zeros`, the arrangements being enumerated by `dperms`.
Core Lean only.
-/
namespace SFV.Apps

/-! ## `distinct` -/

theorem card_mem_distinct (x : Nat) (l : List Nat) : x ∈ distinct l ↔ x ∈ l := by
  induction l with
  | nil => simp [distinct]
  | cons y ys ih =>
    simp only [distinct, List.mem_cons, List.mem_filter, ih, bne_iff_ne, ne_eq]
    by_cases h : x = y <;> simp [h]

theorem card_nodup_distinct (l : List Nat) : (distinct l).Nodup := by
  induction l with
  | nil => simp [distinct]
  | cons y ys ih =>
    simp only [distinct, List.nodup_cons, List.mem_filter, bne_self_eq_false, Bool.false_eq_true,
      and_false, not_false_eq_true, true_and]
    exact List.Pairwise.filter _ ih

/-! ## positivity -/

theorem fact_pos (n : Nat) : 0 < fact n := by
  induction n with
  | zero => simp [fact]
  | succ n ih => simp only [fact]; exact Nat.mul_pos (Nat.succ_pos n) ih

theorem card_prodList_pos (l : List Nat) (h : ∀ x ∈ l, 0 < x) : 0 < prodList l := by
  induction l with
  | nil => simp [prodList]
  | cons y ys ih =>
    have h1 : 0 < y := h y (by simp)
    have h2 : 0 < prodList ys := ih (fun x hx => h x (by simp [hx]))
    show 0 < y * prodList ys
    exact Nat.mul_pos h1 h2

theorem multProd_pos (s : List Nat) : 0 < multProd s := by
  unfold multProd
  apply card_prodList_pos
  intro x hx
  simp only [List.mem_map] at hx
  obtain ⟨v, _, rfl⟩ := hx
  exact fact_pos _

/-! ## `dperms`: membership and uniqueness -/

theorem card_dperms_mem_iff (k : Nat) : ∀ (s w : List Nat), s.length = k → (w ∈ dperms k s ↔ w.Perm s) := by
  induction k with
  | zero =>
    intro s w hs
    have : s = [] := List.eq_nil_of_length_eq_zero hs
    subst this
    simp [dperms]
  | succ k ih =>
    intro s w hs
    simp only [dperms, List.mem_flatMap, List.mem_map, card_mem_distinct]
    constructor
    · rintro ⟨v, hv, w', hw', rfl⟩
      have hl : (s.erase v).length = k := by rw [List.length_erase_of_mem hv]; omega
      exact List.cons_perm_iff_perm_erase.mpr ⟨hv, (ih _ _ hl).mp hw'⟩
    · intro hp
      cases w with
      | nil => have := hp.length_eq; simp at this; omega
      | cons v w' =>
        obtain ⟨hv, hp'⟩ := List.cons_perm_iff_perm_erase.mp hp
        have hl : (s.erase v).length = k := by rw [List.length_erase_of_mem hv]; omega
        exact ⟨v, hv, w', (ih _ _ hl).mpr hp', rfl⟩

/-- `dperms` enumerates exactly the rearrangements of `s` … -/
theorem dperms_mem_iff (s w : List Nat) : w ∈ dperms s.length s ↔ w.Perm s :=
  card_dperms_mem_iff s.length s w rfl

theorem card_dperms_nodup (k : Nat) : ∀ (s : List Nat), (dperms k s).Nodup := by
  induction k with
  | zero => intro s; simp [dperms]
  | succ k ih =>
    intro s
    simp only [dperms]
    unfold List.Nodup
    rw [List.pairwise_flatMap]
    constructor
    · intro v _
      rw [List.pairwise_map]
      exact (ih (s.erase v)).imp (fun hab h => hab (List.cons.inj h).2)
    · exact (card_nodup_distinct s).imp (fun {a b} hab x hx y hy hxy => by
        simp only [List.mem_map] at hx hy
        obtain ⟨x', _, rfl⟩ := hx
        obtain ⟨y', _, rfl⟩ := hy
        exact hab (List.cons.inj hxy).1)

/-- … each exactly once -/
theorem dperms_nodup (s : List Nat) : (dperms s.length s).Nodup := card_dperms_nodup _ s

/-! ## the multinomial identity -/

theorem card_prodList_cons (x : Nat) (xs : List Nat) : prodList (x :: xs) = x * prodList xs := rfl

theorem card_prodList_append (a b : List Nat) : prodList (a ++ b) = prodList a * prodList b := by
  induction a with
  | nil => simp [prodList]
  | cons x xs ih =>
    show x * prodList (xs ++ b) = (x * prodList xs) * prodList b
    rw [ih, Nat.mul_assoc]

theorem card_prodList_perm {a b : List Nat} (h : a.Perm b) : prodList a = prodList b := by
  induction h with
  | nil => rfl
  | cons x _ ih => rw [card_prodList_cons, card_prodList_cons, ih]
  | swap x y l => simp only [card_prodList_cons]; exact Nat.mul_left_comm _ _ _
  | trans _ _ ih1 ih2 => exact ih1.trans ih2

theorem card_prodList_ones (l : List Nat) (h : ∀ x ∈ l, x = 1) : prodList l = 1 := by
  induction l with
  | nil => rfl
  | cons y ys ih =>
    show y * prodList ys = 1
    rw [h y (by simp), ih (fun x hx => h x (by simp [hx]))]

/-- the product of `fact (count u t)` over ANY duplicate-free list of letters that covers `t`
is `multProd t` (absent letters contribute `0! = 1`) -/
theorem card_prod_cover (D t : List Nat) (hD : D.Nodup) (h : ∀ x ∈ t, x ∈ D) :
    prodList (D.map fun u => fact (t.count u)) = multProd t := by
  have hp := (List.filter_append_perm (fun u => decide (u ∈ t)) D).symm
  rw [card_prodList_perm (hp.map _), List.map_append, card_prodList_append]
  have h2 : prodList ((D.filter fun x => !decide (x ∈ t)).map fun u => fact (t.count u)) = 1 := by
    apply card_prodList_ones
    intro x hx
    simp only [List.mem_map, List.mem_filter] at hx
    obtain ⟨u, ⟨_, hu⟩, rfl⟩ := hx
    have : u ∉ t := by simpa using hu
    rw [List.count_eq_zero_of_not_mem this]; rfl
  rw [h2, Nat.mul_one]
  unfold multProd
  apply card_prodList_perm
  apply List.Perm.map
  rw [List.perm_ext_iff_of_nodup (List.Pairwise.filter _ hD) (card_nodup_distinct t)]
  intro a
  simp only [List.mem_filter, decide_eq_true_eq, card_mem_distinct]
  exact ⟨fun hh => hh.2, fun hh => ⟨h a hh, hh⟩⟩

theorem card_multProd_erase {s : List Nat} {v : Nat} (hv : v ∈ s) :
    multProd s = multProd (s.erase v) * s.count v := by
  have hD := card_nodup_distinct s
  have hvD : v ∈ distinct s := (card_mem_distinct v s).mpr hv
  have e1 : multProd s = prodList ((distinct s).map fun u => fact (s.count u)) := rfl
  have e2 : multProd (s.erase v) = prodList ((distinct s).map fun u => fact ((s.erase v).count u)) :=
    (card_prod_cover (distinct s) (s.erase v) hD
      (fun x hx => (card_mem_distinct x s).mpr (List.mem_of_mem_erase hx))).symm
  have hp := List.perm_cons_erase hvD
  rw [e1, e2, card_prodList_perm (hp.map _), card_prodList_perm (hp.map _)]
  simp only [List.map_cons]
  have hrest : ((distinct s).erase v).map (fun u => fact ((s.erase v).count u))
      = ((distinct s).erase v).map (fun u => fact (s.count u)) := by
    apply List.map_congr_left
    intro u hu
    have hne : u ≠ v := ((List.Nodup.mem_erase_iff hD).mp hu).1
    rw [List.count_erase_of_ne hne]
  rw [hrest, List.count_erase_self]
  have hc : 0 < s.count v := List.count_pos_iff.mpr hv
  obtain ⟨c, hc'⟩ : ∃ c, s.count v = c + 1 := ⟨s.count v - 1, by omega⟩
  rw [hc', card_prodList_cons, card_prodList_cons, Nat.add_sub_cancel]
  generalize prodList _ = R
  show ((c + 1) * fact c) * R = (fact c * R) * (c + 1)
  rw [Nat.mul_comm (fact c * R) (c + 1), Nat.mul_assoc]

theorem card_count_add_filter (d : Nat) (s : List Nat) :
    s.count d + (s.filter fun x => x != d).length = s.length := by
  induction s with
  | nil => rfl
  | cons x xs ih =>
    by_cases h : x = d
    · subst h; simp; omega
    · simp [h]; omega

/-- Σ over a duplicate-free cover of the multiplicities is the length -/
theorem card_sum_count (D : List Nat) : ∀ (s : List Nat), D.Nodup → (∀ x ∈ s, x ∈ D) →
    (D.map fun u => s.count u).sum = s.length := by
  induction D with
  | nil =>
    intro s _ h
    have : s = [] := List.eq_nil_iff_forall_not_mem.mpr (fun x hx => by simpa using h x hx)
    subst this; rfl
  | cons d D' ih =>
    intro s hD h
    obtain ⟨hd, hD'⟩ := List.nodup_cons.mp hD
    simp only [List.map_cons, List.sum_cons]
    have hcongr : D'.map (fun u => s.count u) = D'.map (fun u => (s.filter fun x => x != d).count u) := by
      apply List.map_congr_left
      intro u hu
      have hne : u ≠ d := fun e => hd (e ▸ hu)
      rw [List.count_filter (by simpa using hne)]
    rw [hcongr, ih _ hD' ?_]
    · exact card_count_add_filter d s
    · intro x hx
      simp only [List.mem_filter, bne_iff_ne, ne_eq] at hx
      have := h x hx.1
      simp only [List.mem_cons] at this
      rcases this with e | e
      · exact absurd e hx.2
      · exact e

theorem card_sum_mul_eq (D : List Nat) (f g : Nat → Nat) (c a : Nat)
    (h : ∀ v ∈ D, f v * c = a * g v) : (D.map f).sum * c = a * (D.map g).sum := by
  induction D with
  | nil => simp
  | cons d D' ih =>
    simp only [List.map_cons, List.sum_cons, Nat.add_mul, Nat.mul_add]
    rw [h d (by simp), ih (fun v hv => h v (by simp [hv]))]

theorem card_dperms_card (k : Nat) : ∀ s : List Nat, s.length = k →
    (dperms k s).length * multProd s = fact k := by
  induction k with
  | zero =>
    intro s hs
    have : s = [] := List.eq_nil_of_length_eq_zero hs
    subst this
    simp [dperms, multProd, distinct, prodList, fact]
  | succ k ih =>
    intro s hs
    simp only [dperms, List.length_flatMap, List.length_map]
    rw [card_sum_mul_eq (distinct s) _ (fun v => s.count v) (multProd s) (fact k)]
    · rw [card_sum_count (distinct s) s (card_nodup_distinct s)
        (fun x hx => (card_mem_distinct x s).mpr hx), hs]
      show fact k * (k + 1) = (k + 1) * fact k
      exact Nat.mul_comm _ _
    · intro v hv
      have hv' : v ∈ s := (card_mem_distinct v s).mp hv
      have hl : (s.erase v).length = k := by rw [List.length_erase_of_mem hv']; omega
      rw [card_multProd_erase hv', ← Nat.mul_assoc, ih _ hl]

/-- multinomial identity: (#distinct arrangements) · ∏ multiplicity! = length! -/
theorem dperms_card (s : List Nat) : (dperms s.length s).length * multProd s = fact s.length :=
  card_dperms_card _ s rfl

theorem card_dperms_length (k : Nat) (s : List Nat) (hs : s.length = k) :
    (dperms k s).length = fact k / multProd s :=
  (Nat.div_eq_of_eq_mul_left (multProd_pos s) (card_dperms_card k s hs).symm).symm

/-- the number of distinct arrangements -/
theorem dperms_length (s : List Nat) : (dperms s.length s).length = fact s.length / multProd s :=
  card_dperms_length _ s rfl

/-! ## `orbitCardinality` / `eventCardinality` -/

theorem orbitSample_length {orbit : List Nat} {modes : Nat} (h : orbit.length ≤ modes) :
    (orbitSample orbit modes).length = modes := by
  simp only [orbitSample, List.length_append, List.length_replicate]; omega

/-- orbit cardinality = number of distinct samples of `modes` modes in the orbit -/
theorem orbitCardinality_eq {orbit : List Nat} {modes : Nat} (h : orbit.length ≤ modes) :
    orbitCardinality orbit modes = (dperms modes (orbitSample orbit modes)).length := by
  rw [card_dperms_length modes _ (orbitSample_length h)]
  simp only [orbitCardinality, Nat.not_lt.mpr h, if_false]

/-- an orbit with more parts than modes contains no sample -/
theorem orbitCardinality_short {orbit : List Nat} {modes : Nat} (h : modes < orbit.length) :
    orbitCardinality orbit modes = 0 := by
  simp only [orbitCardinality, h, if_true]

/-- … and indeed no list of `modes` entries has the nonzero entries of such an orbit
(`hpos` is not needed) -/
theorem no_sample_of_short {orbit : List Nat} {modes : Nat} (h : modes < orbit.length)
    (_hpos : ∀ x ∈ orbit, 1 ≤ x) (w : List Nat) (hw : w.length = modes) :
    ¬ (w.filter (fun c => c != 0)).Perm orbit := by
  intro hp
  have h1 := hp.length_eq
  have h2 := List.length_filter_le (fun c => c != 0) w
  omega

/-- event cardinality is by definition the sum over the admissible orbits -/
theorem eventCardinality_eq_sum (photons maxCount modes : Nat) :
    eventCardinality photons maxCount modes =
      (((orbits photons).filter fun o => listMax o ≤ maxCount).map fun o =>
        if modes < o.length then 0 else (dperms modes (orbitSample o modes)).length).sum := by
  unfold eventCardinality
  congr 1
  apply List.map_congr_left
  intro o _
  by_cases h : modes < o.length
  · rw [orbitCardinality_short h, if_pos h]
  · rw [orbitCardinality_eq (Nat.not_lt.mp h), if_neg h]

/-! ## samples and their orbits -/

theorem card_insertAsc_perm (x : Nat) (l : List Nat) : (insertAsc x l).Perm (x :: l) := by
  induction l with
  | nil => exact List.Perm.refl _
  | cons y ys ih =>
    simp only [insertAsc]
    split
    · exact List.Perm.refl _
    · exact (ih.cons y).trans (List.Perm.swap x y ys)

theorem card_sortAsc_perm (l : List Nat) : (sortAsc l).Perm l := by
  induction l with
  | nil => exact List.Perm.refl _
  | cons y ys ih =>
    show (insertAsc y (sortAsc ys)).Perm (y :: ys)
    exact (card_insertAsc_perm y _).trans (ih.cons y)

theorem card_sortDesc_perm (l : List Nat) : (sortDesc l).Perm l :=
  (List.reverse_perm _).trans (card_sortAsc_perm l)

theorem card_insertAsc_comm (x y : Nat) (l : List Nat) :
    insertAsc x (insertAsc y l) = insertAsc y (insertAsc x l) := by
  induction l with
  | nil =>
    simp only [insertAsc]
    by_cases h1 : x ≤ y <;> by_cases h2 : y ≤ x <;> simp [h1, h2]
    all_goals omega
  | cons z zs ih =>
    simp only [insertAsc]
    by_cases h1 : x ≤ y <;> by_cases h2 : y ≤ x <;> by_cases h3 : x ≤ z <;> by_cases h4 : y ≤ z <;>
      simp [h1, h2, h3, h4, insertAsc, ih] <;> omega

/-- sorting forgets the arrangement -/
theorem card_sortAsc_eq_of_perm {a b : List Nat} (h : a.Perm b) : sortAsc a = sortAsc b := by
  induction h with
  | nil => rfl
  | cons x _ ih => show insertAsc x (sortAsc _) = insertAsc x (sortAsc _); rw [ih]
  | swap x y l =>
    show insertAsc y (insertAsc x (sortAsc l)) = insertAsc x (insertAsc y (sortAsc l))
    exact card_insertAsc_comm y x _
  | trans _ _ ih1 ih2 => exact ih1.trans ih2

theorem card_sampleToOrbit_eq_of_perm {a b : List Nat} (h : a.Perm b) :
    sampleToOrbit a = sampleToOrbit b := by
  unfold sampleToOrbit sortDesc
  rw [card_sortAsc_eq_of_perm (h.filter _)]

theorem card_sampleToOrbit_perm (s : List Nat) :
    (sampleToOrbit s).Perm (s.filter fun c => c != 0) := card_sortDesc_perm _

theorem card_filter_ne_zero_orbitSample (o : List Nat) (modes : Nat) :
    (orbitSample o modes).filter (fun c => c != 0) = o.filter (fun c => c != 0) := by
  simp [orbitSample, List.filter_append]

/-- a sample is a rearrangement of its orbit padded with zeros -/
theorem card_perm_orbitSample (s : List Nat) :
    s.Perm (orbitSample (sampleToOrbit s) s.length) := by
  have hlen : (sampleToOrbit s).length = (s.filter fun c => c != 0).length :=
    (card_sampleToOrbit_perm s).length_eq
  have h0 := card_count_add_filter 0 s
  have hz : s.filter (fun x => !(x != 0)) = List.replicate (s.count 0) 0 := by
    rw [← List.filter_beq]
    apply List.filter_congr
    intro x _
    simp [bne]
  unfold orbitSample
  rw [hlen, show s.length - (s.filter fun c => c != 0).length = s.count 0 by omega, ← hz]
  exact (List.filter_append_perm (fun c => c != 0) s).symm.trans
    ((card_sampleToOrbit_perm s).symm.append_right _)

theorem card_sampleToOrbit_length_le (s : List Nat) : (sampleToOrbit s).length ≤ s.length := by
  rw [(card_sampleToOrbit_perm s).length_eq]
  exact List.length_filter_le _ _

/-- every sample lies in the orbit `sampleToOrbit` assigns to it -/
theorem sample_mem_dperms_orbit (s : List Nat) :
    s ∈ dperms s.length (orbitSample (sampleToOrbit s) s.length) :=
  (card_dperms_mem_iff s.length _ s (orbitSample_length (card_sampleToOrbit_length_le s))).mpr
    (card_perm_orbitSample s)

theorem card_listMax_perm {a b : List Nat} (h : a.Perm b) : listMax a = listMax b := by
  induction h with
  | nil => rfl
  | cons x _ ih => show max x (listMax _) = max x (listMax _); rw [ih]
  | swap x y l =>
    show max y (max x (listMax l)) = max x (max y (listMax l))
    omega
  | trans _ _ ih1 ih2 => exact ih1.trans ih2

theorem card_listMax_orbitSample (o : List Nat) (modes : Nat) :
    listMax (orbitSample o modes) = listMax o := by
  unfold orbitSample listMax
  rw [List.foldr_append]
  congr 1
  generalize modes - o.length = k
  induction k with
  | zero => rfl
  | succ k ih => simp [List.replicate_succ, ih]

theorem card_sum_orbitSample (o : List Nat) (modes : Nat) : (orbitSample o modes).sum = o.sum := by
  unfold orbitSample
  rw [List.sum_append]
  generalize modes - o.length = k
  induction k with
  | zero => simp
  | succ k ih => simp [List.replicate_succ]

/-- members of an orbit: right length, same photon number, same maximum, same orbit -/
theorem dperms_orbit_props {o w : List Nat} {modes : Nat} (h : o.length ≤ modes)
    (hw : w ∈ dperms modes (orbitSample o modes)) :
    w.length = modes ∧ w.sum = o.sum ∧ listMax w = listMax o ∧ sampleToOrbit w = sampleToOrbit o := by
  have hp : w.Perm (orbitSample o modes) :=
    (card_dperms_mem_iff modes _ w (orbitSample_length h)).mp hw
  refine ⟨?_, ?_, ?_, ?_⟩
  · rw [hp.length_eq, orbitSample_length h]
  · rw [hp.sum_nat, card_sum_orbitSample]
  · rw [card_listMax_perm hp, card_listMax_orbitSample]
  · rw [card_sampleToOrbit_eq_of_perm hp]
    unfold sampleToOrbit
    rw [card_filter_ne_zero_orbitSample]

end SFV.Apps
