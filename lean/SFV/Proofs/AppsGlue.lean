import SFV.Proofs.AppsOrbits
import SFV.Proofs.AppsCard
import SFV.Proofs.AppsClique
/-! Combination lemmas for `Props/C19.lean`: events as disjoint unions of orbits, sample/orbit/event
consistency, and simplicity of graphs given by loop-free edge lists. -/
namespace SFV.Apps

/-- a sample with at least one photon lies in exactly one admissible orbit of its event: its own -/
theorem event_sample_in_unique_orbit {s : List Nat} {m : Nat} (hs : 1 ≤ s.sum) (hm : ∀ c ∈ s, c ≤ m) :
    sampleToOrbit s ∈ (orbits s.sum).filter (fun o => listMax o ≤ m) ∧
    s ∈ dperms s.length (orbitSample (sampleToOrbit s) s.length) ∧
    ∀ o ∈ orbits s.sum, o.length ≤ s.length → s ∈ dperms s.length (orbitSample o s.length) →
      o = sampleToOrbit s := by
  refine ⟨?_, sample_mem_dperms_orbit s, ?_⟩
  · rw [List.mem_filter]
    refine ⟨sampleToOrbit_mem_orbits s hs, ?_⟩
    simp only [decide_eq_true_eq]
    rw [sampleToOrbit_listMax]
    exact (listMax_le_iff s m).2 hm
  · intro o ho hlen hw
    have hp := (orbits_mem_iff hs o).1 ho
    have h4 := (dperms_orbit_props hlen hw).2.2.2
    rw [sampleToOrbit_of_partition hp] at h4
    exact h4.symm

/-- conversely every arrangement counted for an admissible orbit is a sample of the event -/
theorem event_orbit_members {n m modes : Nat} (hn : 1 ≤ n) {o w : List Nat}
    (ho : o ∈ (orbits n).filter (fun o => listMax o ≤ m)) (hfit : o.length ≤ modes)
    (hw : w ∈ dperms modes (orbitSample o modes)) :
    w.length = modes ∧ w.sum = n ∧ ∀ c ∈ w, c ≤ m := by
  rw [List.mem_filter] at ho
  obtain ⟨ho1, ho2⟩ := ho
  simp only [decide_eq_true_eq] at ho2
  have hp := (orbits_mem_iff hn o).1 ho1
  obtain ⟨h1, h2, h3, _⟩ := dperms_orbit_props hfit hw
  refine ⟨h1, ?_, ?_⟩
  · rw [h2]; exact hp.2.2
  · apply (listMax_le_iff w m).1
    rw [h3]; exact ho2

/-- the event of a sample is determined by its orbit: photon number = sum of the parts, admissible
iff the largest part is within the bound -/
theorem sample_event_via_orbit (s : List Nat) (m k : Nat) :
    sampleToEvent s m = some k ↔ (k = (sampleToOrbit s).sum ∧ listMax (sampleToOrbit s) ≤ m) := by
  rw [sampleToEvent_eq_some, sampleToOrbit_sum, sampleToOrbit_listMax, listMax_le_iff]

/-- a loop-free edge list over duplicate-free nodes gives a simple graph -/
theorem ofEdges_simple {nodes : List Nat} {edges : List (Nat × Nat)} (hn : nodes.Nodup)
    (hl : ∀ e ∈ edges, e.1 ≠ e.2) : Simple (Graph.ofEdges nodes edges) where
  sym := by
    intro u v
    simp only [Graph.ofEdges]
    congr 1
    funext e
    rw [Bool.or_comm]
  irr := by
    intro u
    simp only [Graph.ofEdges, List.any_eq_false]
    intro e he
    have := hl e he
    simp only [Bool.or_self, Bool.and_eq_true, beq_iff_eq, not_and]
    intro h1 h2
    exact this (h1.trans h2.symm)
  nodup := hn

end SFV.Apps
