import SFV.Proofs.StatesGauss
import SFV.Proofs.FockTensor

/-! Second batch of lemmas for the phase-space part of `SFV.Model.States`: `state(modes)` on registers with holes, the
polynomial `poly_quad_expectation`, and the bosonic weighted sums. -/
namespace SFV.States
open SFV.Gauss SFV.Fock

/-! ### helpers (in `SFV.States.G2` to keep the names local to this file) -/

namespace G2
open Finset

theorem sum_pair_support {K : Type} [AddCommMonoid K] {N p q : Nat} (hpq : p ≠ q) (hp : p < N) (hq : q < N)
    (h : Nat → K) (h0 : ∀ b, b ≠ p → b ≠ q → h b = 0) : ∑ b ∈ range N, h b = h p + h q := by
  refine Finset.sum_eq_add p q hpq (fun c _ hc => h0 c hc.1 hc.2) ?_ ?_
  · intro hn; exact absurd (Finset.mem_range.2 hp) hn
  · intro hn; exact absurd (Finset.mem_range.2 hq) hn

theorem isumL_nil {K : Type} [Zero K] [Add K] : gaussPolyQuad.isumL ([] : List K) = 0 := rfl
theorem isumL_cons {K : Type} [Zero K] [Add K] (x : K) (l : List K) :
    gaussPolyQuad.isumL (x :: l) = x + gaussPolyQuad.isumL l := rfl

theorem isumL_zero {K : Type} [AddMonoid K] {α : Type} (l : List α) :
    gaussPolyQuad.isumL (l.map fun _ => (0 : K)) = 0 := by
  induction l with
  | nil => rfl
  | cons x t ih => simp only [List.map_cons, isumL_cons, ih, add_zero]

theorem rotAll_mu_lt {K : Type} [Ring K] {n m : Nat} (hm : m < n) (c s : K) (g : GData K) :
    (rotAll n c s g).mu m = c * g.mu m + s * g.mu (m + n) := by
  simp only [rotAll, hm, if_true, sumTo_eq_sum]
  rw [sum_pair_support (p := m) (q := m + n) (by omega) (by omega) (by omega)]
  · have : n ≠ 0 := by omega
    simp [this]
  · intro b h1 h2
    simp [h1, h2]

theorem rotAll_cov_lt {K : Type} [CommRing K] {n m : Nat} (hm : m < n) (c s : K) (g : GData K) :
    (rotAll n c s g).cov m m
      = (c * g.cov m m + s * g.cov (m + n) m) * c + (c * g.cov m (m + n) + s * g.cov (m + n) (m + n)) * s := by
  simp only [rotAll, hm, if_true, sumTo_eq_sum]
  have hne : ¬ (m + n = m) := by omega
  have hn0 : n ≠ 0 := by omega
  have inner : ∀ i, (∑ j ∈ range (2 * n), (if i = m then c else if i = m + n then s else 0) * g.cov i j *
      (if j = m then c else if j = m + n then s else 0))
      = (if i = m then c else if i = m + n then s else 0) * g.cov i m * c
        + (if i = m then c else if i = m + n then s else 0) * g.cov i (m + n) * s := by
    intro i
    rw [sum_pair_support (p := m) (q := m + n) (by omega) (by omega) (by omega)]
    · simp [hn0]
    · intro b h1 h2
      simp [h1, h2]
  simp only [inner]
  rw [sum_pair_support (p := m) (q := m + n) (by omega) (by omega) (by omega)]
  · simp only [hne, if_true, if_false]
    ring
  · intro b h1 h2
    simp [h1, h2]

/-- the matrix of the number operator of mode `m`: `α` at `(m, m)` and `(m + n, m + n)` -/
theorem rowA {K : Type} [CommRing K] (α : K) {n m : Nat} (hm : m < n) (f : Nat → K) (a : Nat) :
    ∑ b ∈ range (2 * n), (if a = b ∧ (a = m ∨ a = m + n) then α else 0) * f b
      = if a = m ∨ a = m + n then α * f a else 0 := by
  by_cases h : a = m ∨ a = m + n
  · have ha : a < 2 * n := by omega
    rw [Finset.sum_eq_single a]
    · simp [h]
    · intro b _ hb
      simp [Ne.symm hb]
    · intro hn; exact absurd (Finset.mem_range.2 ha) hn
  · simp [h]

/-- a sum over the phase-space indices that is supported on `x_m`, `p_m` -/
theorem sumP {K : Type} [AddCommMonoid K] {n m : Nat} (hm : m < n) (h : Nat → K)
    (h0 : ∀ b, b ≠ m → b ≠ m + n → h b = 0) : ∑ b ∈ range (2 * n), h b = h m + h (m + n) :=
  sum_pair_support (by omega) (by omega) (by omega) h h0

theorem sum_iteP {K : Type} [AddCommMonoid K] {n m : Nat} (hm : m < n) (F : Nat → K) :
    ∑ a ∈ range (2 * n), (if a = m ∨ a = m + n then F a else 0) = F m + F (m + n) := by
  rw [sumP hm]
  · have : n ≠ 0 := by omega
    simp [this]
  · intro b h1 h2
    simp [h1, h2]

theorem filter_range_beq (n m : Nat) :
    (List.range n).filter (fun x => x == m) = if m < n then [m] else [] := by
  induction n with
  | zero => simp
  | succ n ih =>
    rw [List.range_succ, List.filter_append, ih]
    by_cases h : m < n
    · have : ¬ (n = m) := by omega
      have h' : m < n + 1 := by omega
      simp [h, h', this]
    · by_cases h' : n = m
      · subst h'
        simp
      · have h'' : ¬ (m < n + 1) := by omega
        simp [h, h', h'']

theorem exModes_number {K : Type} [Field K] [DecidableEq K] (α : K) (hα : α ≠ 0) {n m : Nat} (hm : m < n) :
    exModes n (fun a b => if a = b ∧ (a = m ∨ a = m + n) then α else 0) (fun _ => (0 : K)) = [m] := by
  unfold exModes
  rw [List.filter_congr (q := fun x => x == m), filter_range_beq, if_pos hm]
  intro x hx
  have hx' : x < n := List.mem_range.1 hx
  by_cases h : x = m
  · subst h
    simp only [bne_self_eq_false, Bool.or_false, beq_self_eq_true]
    rw [List.any_eq_true]
    refine ⟨x, List.mem_range.2 (by omega), ?_⟩
    simp [hα]
  · have h1 : ¬ (x = m + n) := by omega
    have h2 : ¬ (x + n = m) := by omega
    have hb : (x == m) = false := by simp [h]
    rw [hb]
    simp [h, h1, h2]

theorem wsum_nil {K : Type} [Zero K] [Add K] : wsum ([] : List K) = 0 := rfl
theorem wsum_cons {K : Type} [Zero K] [Add K] (x : K) (l : List K) : wsum (x :: l) = x + wsum l := rfl

theorem wsum_affine {K : Type} [Field K] (l : List (K × GData K)) (f : K × GData K → K) (d e : K) :
    wsum (l.map fun p => p.1 * (f p / d - e))
      = wsum (l.map fun p => p.1 * f p) / d - wsum (l.map fun p => p.1) * e := by
  induction l with
  | nil => simp [wsum_nil]
  | cons x t ih =>
    simp only [List.map_cons, wsum_cons, ih]
    ring

end G2

/-- `GaussianBackend.state(modes)` with deleted modes: every list of active subsystem indices (any order) gives the xxpp data of
exactly these subsystems in that order, labelled with them -/
theorem gaussBackendStateA_order {K : Type} (nlen : Nat) (active modes : List Nat) (xpxp : GData K)
    (hact : ∀ m ∈ active, m < nlen) (hm : ∀ m ∈ modes, m ∈ active) :
    ∃ r, gaussBackendStateA nlen active (some modes) xpxp = .ok (modes.length, r, modes) ∧
      ∀ a b, a < modes.length → b < modes.length →
        r.mu a = xpxp.mu (2 * at' modes a) ∧ r.mu (a + modes.length) = xpxp.mu (2 * at' modes a + 1) ∧
        r.cov a b = xpxp.cov (2 * at' modes a) (2 * at' modes b) ∧
        r.cov a (b + modes.length) = xpxp.cov (2 * at' modes a) (2 * at' modes b + 1) ∧
        r.cov (a + modes.length) b = xpxp.cov (2 * at' modes a + 1) (2 * at' modes b) ∧
        r.cov (a + modes.length) (b + modes.length) = xpxp.cov (2 * at' modes a + 1) (2 * at' modes b + 1) := by
  have hany : modes.any (fun i => !active.contains i) = false := by
    rw [List.any_eq_false]
    intro x hx
    simp [hm x hx]
  obtain ⟨r, hr, hE⟩ := gaussBackendState_order nlen modes xpxp (fun m h => hact m (hm m h))
  refine ⟨r, ?_, hE⟩
  unfold gaussBackendStateA
  simp only [Option.getD_some]
  rw [if_neg (by rw [hany]; simp), hr]

/-- `modes = None` means all active subsystems -/
theorem gaussBackendStateA_none {K : Type} (nlen : Nat) (active : List Nat) (xpxp : GData K) :
    gaussBackendStateA nlen active none xpxp = gaussBackendStateA nlen active (some active) xpxp := by
  rfl

/-- an index that is not an active subsystem is rejected with `ValueError` -/
theorem gaussBackendStateA_raises {K : Type} (nlen : Nat) (active modes : List Nat) (xpxp : GData K)
    (h : ∃ m ∈ modes, m ∉ active) :
    gaussBackendStateA nlen active (some modes) xpxp = .error .valueError := by
  obtain ⟨m, hm, hna⟩ := h
  have hany : modes.any (fun i => !active.contains i) = true := by
    rw [List.any_eq_true]
    exact ⟨m, hm, by simp [hna]⟩
  unfold gaussBackendStateA
  simp only [Option.getD_some]
  rw [if_pos hany]

/-- `BosonicBackend.state(modes)`: label `a` names the subsystem whose `x, p` are rows `2a, 2a+1` of the returned data -/
theorem bosonicBackendLabels_data (nlen : Nat) (modes : List Nat) (hd : modes.Nodup) (hr : ∀ m ∈ modes, m < nlen)
    (a : Nat) (ha : a < modes.length) :
    ∃ ind, bosonicBackendState nlen modes = .ok (modes.length, ind) ∧
      ind.getD (2 * a) 0 = 2 * (bosonicBackendLabels modes).getD a 0 ∧
      ind.getD (2 * a + 1) 0 = 2 * (bosonicBackendLabels modes).getD a 0 + 1 := by
  refine ⟨_, bosonicBackendState_sorted nlen modes hd hr, ?_⟩
  have hlen : (modes.mergeSort fun a b => decide (a ≤ b)).length = modes.length := List.length_mergeSort _
  exact interleaved_getD (modes.mergeSort fun a b => decide (a ≤ b)) a (by rw [hlen]; exact ha)

/-- **`poly_quad_expectation` with `A = 0`, `d = e_{x_m}`, `k = 0` is `quad_expectation(m, φ)`** (mean and variance), for every
state, mode and angle atoms -/
theorem gaussPolyQuad_linear {K : Type} [Field K] [DecidableEq K] (hbar : K) (n m : Nat) (c s : K) (g : GData K)
    (hm : m < n) (rotate : Bool) (hrot : rotate = false → c = 1 ∧ s = 0) :
    gaussPolyQuad hbar n (fun _ _ => 0) (fun a => if a = m then 1 else 0) 0 rotate c s g
      = quad1 c s (selectG [m, m + n] g) := by
  have hex : (exModes n (fun _ _ => (0 : K)) (fun a => if a = m then (1 : K) else 0)).isEmpty = false := by
    have hmem : m ∈ exModes n (fun _ _ => (0 : K)) (fun a => if a = m then (1 : K) else 0) := by
      simp only [exModes, List.mem_filter, List.mem_range]
      refine ⟨hm, ?_⟩
      simp
    cases h : exModes n (fun _ _ => (0 : K)) (fun a => if a = m then (1 : K) else 0) with
    | nil => rw [h] at hmem; simp at hmem
    | cons x t => rfl
  have hmN : m < 2 * n := by omega
  unfold gaussPolyQuad
  simp only [hex, Bool.false_eq_true, if_false, sumTo_eq_sum, zero_mul, mul_zero, Finset.sum_const_zero,
    add_zero, zero_add, sub_self, G2.isumL_zero, sub_zero, mul_ite, mul_one, ite_mul, one_mul,
    Finset.sum_ite_eq', Finset.mem_range, hmN, if_true]
  cases rotate with
  | true =>
    simp only [if_true, G2.rotAll_mu_lt hm, G2.rotAll_cov_lt hm, quad1, selectG, List.getD_cons_zero,
      List.getD_cons_succ]
  | false =>
    obtain ⟨rfl, rfl⟩ := hrot rfl
    simp [quad1, selectG]

/-- **`poly_quad_expectation` of the number operator** `(x_m² + p_m²)/(2ħ) − 1/2` **is `mean_photon(m)`** (mean and variance,
including the symmetric-ordering correction) -/
theorem gaussPolyQuad_number {K : Type} [Field K] [DecidableEq K] (hbar : K) (hh : hbar ≠ 0) (h2 : (2 : K) ≠ 0) (n m : Nat)
    (g : GData K) (hm : m < n) :
    gaussPolyQuad hbar n (fun a b => if a = b ∧ (a = m ∨ a = m + n) then 1 / (2 * hbar) else 0) (fun _ => 0) (-(1 / 2))
      false 1 0 g
      = meanPhoton1 hbar (selectG [m, m + n] g) := by
  have hα : (1 / (2 * hbar) : K) ≠ 0 := by
    simp [hh, h2]
  unfold gaussPolyQuad
  simp only [G2.exModes_number _ hα hm, List.isEmpty_cons, Bool.false_eq_true, if_false, sumTo_eq_sum,
    List.map_cons, List.map_nil, G2.isumL_cons, G2.isumL_nil, G2.rowA _ hm, ← Finset.mul_sum]
  simp only [mul_ite, mul_zero, add_zero, G2.sum_iteP hm, Finset.sum_const_zero]
  simp only [ite_mul, zero_mul, Finset.sum_add_distrib, G2.sum_iteP hm]
  have h4 : (4 : K) ≠ 0 := by
    have e : (4 : K) = 2 * 2 := by ring
    rw [e]
    exact mul_ne_zero h2 h2
  have hn1 : ¬ (m + n = m) := by omega
  have hn2 : ¬ (m = m + n) := by omega
  simp only [hn1, hn2, true_and, false_and, true_or, or_true, if_true, if_false, sub_zero]
  simp only [meanPhoton1, selectG, List.getD_cons_zero, List.getD_cons_succ]
  refine Prod.ext ?_ ?_
  · simp only
    field_simp
    ring
  · simp only
    field_simp
    ring

/-- a one-component bosonic state (weight 1) has the Gaussian `mean_photon` (mean and variance) -/
theorem bosonicMeanPhoton_single {K : Type} [Field K] (hbar : K) (g : GData K) :
    bosonicMeanPhoton hbar [((1 : K), g)] = meanPhoton1 hbar g := by
  simp only [bosonicMeanPhoton, meanPhoton1, List.map_cons, List.map_nil, G2.wsum_cons, G2.wsum_nil]
  refine Prod.ext ?_ ?_
  · simp only; ring
  · simp only; ring

/-- the bosonic mean photon number is the weighted sum of the components' Gaussian values when the weights sum to one -/
theorem bosonicMeanPhoton_mix {K : Type} [Field K] (hbar : K) (comps : List (K × GData K))
    (hw : wsum (comps.map fun p => p.1) = 1) :
    (bosonicMeanPhoton hbar comps).1 = wsum (comps.map fun p => p.1 * (meanPhoton1 hbar p.2).1) := by
  simp only [bosonicMeanPhoton, meanPhoton1]
  rw [G2.wsum_affine comps (fun p => p.2.cov 0 0 + p.2.cov 1 1 + (p.2.mu 0 * p.2.mu 0 + p.2.mu 1 * p.2.mu 1)) (2 * hbar) (1 / 2), hw]
  ring

/-- a one-component bosonic state (weight 1) has the Gaussian `quad_expectation` -/
theorem bosonicQuad_single {K : Type} [CommRing K] (c s : K) (g : GData K) :
    bosonicQuad c s [((1 : K), g)] = quad1 c s g := by
  simp only [bosonicQuad, quad1, List.map_cons, List.map_nil, G2.wsum_cons, G2.wsum_nil]
  refine Prod.ext ?_ ?_
  · simp only; ring
  · simp only; ring

/-- bosonic `⟨x_φ⟩` is the weighted sum of the components' values -/
theorem bosonicQuad_mix {K : Type} [CommRing K] (c s : K) (comps : List (K × GData K)) :
    (bosonicQuad c s comps).1 = wsum (comps.map fun p => p.1 * (quad1 c s p.2).1) := by
  rfl

end SFV.States
