import SFV.Model.Hbar
import Mathlib.Tactic.Ring
import Mathlib.Tactic.FieldSimp
import Mathlib.Algebra.Field.Basic
import Mathlib.Algebra.Order.Field.Basic

/-! Lemmas for the hbar layer (C15): the front-end rescalings cancel the documented units, state objects
scale by `s` / `s²`, the polynomial observables divide the right power out again, observers are pure. -/
namespace SFV.Hbar
open SFV.Gauss

set_option linter.unusedSectionVars false

variable {K : Type} [Field K] [DecidableEq K] {G : Type}

theorem two_s_ne {s : K} (hs : s ≠ 0) (h2 : (2 : K) ≠ 0) : s + s ≠ 0 := by
  intro h
  have : (2 : K) * s = 0 := by rw [← h]; ring
  rcases mul_eq_zero.mp this with h | h
  · exact h2 h
  · exact hs h

theorem gateP0_congr {a b : K} (dg : Bool) (h : a = b) : gateP0 a dg = gateP0 b dg := by rw [h]

/-- one operation: rescaling the user parameters by their units and compiling at `s` gives the calls of the
hbar = 2 (`s = 1`) program -/
theorem compile_rescale (s : K) (hs : s ≠ 0) (h2 : (2 : K) ≠ 0) (op : FOp K G) :
    compile s (rescale s op) = compile 1 op := by
  have h2s := two_s_ne hs h2
  cases op with
  | dgate r c sn dg k => rfl
  | xgate x dg k =>
    simp only [rescale, compile]
    rw [gateP0_congr dg (show x * s / (s + s) = x / (1 + 1) by field_simp)]
  | zgate p dg k =>
    simp only [rescale, compile]
    rw [gateP0_congr dg (show p * s / (s + s) = p / (1 + 1) by field_simp)]
  | vgate γ dg k =>
    simp only [rescale, compile]
    by_cases hγ : γ = 0
    · subst hγ; simp [gateP0]
    · have hγs : γ / s ≠ 0 := div_ne_zero hγ hs
      simp only [gateP0, hγ, hγs, if_false]
      cases dg <;> simp <;> field_simp
  | gaussian V r modes =>
    simp only [rescale, compile, gaussianInitV, List.map_map]
    congr 2
    · apply List.map_congr_left; intro x _; simp only [Function.comp]; field_simp
    · apply List.map_congr_left; intro row _
      simp only [Function.comp, List.map_map]
      apply List.map_congr_left; intro v _; simp only [Function.comp]; field_simp
  | homodyne c sn sel k =>
    simp only [rescale, compile]
    cases sel with
    | none => rfl
    | some v => simp only [Option.map_some]; congr 3; field_simp
  | free g => rfl

theorem compileProg_rescale (s : K) (hs : s ≠ 0) (h2 : (2 : K) ≠ 0) (prog : List (FOp K G)) :
    compileProg s (prog.map (rescale s)) = compileProg 1 prog := by
  induction prog with
  | nil => rfl
  | cons op rest ih =>
    simp only [compileProg, List.map_cons, List.flatMap_cons] at ih ⊢
    rw [compile_rescale s hs h2 op, ih]

/-! ### state objects -/

theorem meanPhoton_invariant (s : K) (hs : s ≠ 0) (h2 : (2 : K) ≠ 0) (n : Nat) (mu2 : Nat → K) (cov2 : Nat → Nat → K)
    (m : Nat) : meanPhoton (mkState s n mu2 cov2) m = meanPhoton (mkState 1 n mu2 cov2) m := by
  have h11 : (1 : K) + 1 ≠ 0 := by rw [one_add_one_eq_two]; exact h2
  have hss : s * s + s * s ≠ 0 := by
    have : s * s + s * s = 2 * (s * s) := by ring
    rw [this]; exact mul_ne_zero h2 (mul_ne_zero hs hs)
  simp only [meanPhoton, mkState]
  refine Prod.ext ?_ ?_ <;> simp only <;> field_simp

theorem displacement_invariant (s : K) (hs : s ≠ 0) (h2 : (2 : K) ≠ 0) (n : Nat) (mu2 : Nat → K)
    (cov2 : Nat → Nat → K) (m : Nat) :
    displacement (mkState s n mu2 cov2) m = displacement (mkState 1 n mu2 cov2) m := by
  have h2s := two_s_ne hs h2
  have h11 : (1 : K) + 1 ≠ 0 := by rw [one_add_one_eq_two]; exact h2
  simp only [displacement, mkState]
  refine Prod.ext ?_ ?_ <;> simp only <;> field_simp

theorem normCov_invariant (s : K) (hs : s ≠ 0) (n : Nat) (mu2 : Nat → K) (cov2 : Nat → Nat → K) (m : Nat) :
    normCov (mkState s n mu2 cov2) m = normCov (mkState 1 n mu2 cov2) m := by
  simp only [normCov, mkState]
  refine Prod.ext ?_ (Prod.ext ?_ (Prod.ext ?_ ?_)) <;> simp only <;> field_simp

theorem squeezingInputs_invariant (s : K) (hs : s ≠ 0) (n : Nat) (mu2 : Nat → K) (cov2 : Nat → Nat → K) (m : Nat) :
    squeezingInputs (mkState s n mu2 cov2) m = squeezingInputs (mkState 1 n mu2 cov2) m := by
  simp only [squeezingInputs, normCov_invariant s hs]

theorem fockInputs_invariant (s : K) (hs : s ≠ 0) (n : Nat) (mu2 : Nat → K) (cov2 : Nat → Nat → K) :
    fockInputs (mkState s n mu2 cov2) = fockInputs (mkState 1 n mu2 cov2) := by
  simp only [fockInputs, mkState]
  refine Prod.ext ?_ ?_ <;> funext i <;> simp only
  · field_simp
  · funext j; field_simp

theorem quadExpectation_scaling (s : K) (n : Nat) (mu2 : Nat → K) (cov2 : Nat → Nat → K) (m : Nat) (c sn : K) :
    quadExpectation (mkState s n mu2 cov2) m c sn
      = (s * (quadExpectation (mkState 1 n mu2 cov2) m c sn).1,
         s * s * (quadExpectation (mkState 1 n mu2 cov2) m c sn).2) := by
  simp only [quadExpectation, mkState]
  refine Prod.ext ?_ ?_ <;> simp only <;> ring

section ordered
variable [LinearOrder K] [IsStrictOrderedRing K]

/-- every dimensionless answer on a state object built at `s` equals the answer at `s = 1` (hbar = 2) -/
theorem answer_invariant (s : K) (hs : s ≠ 0) (n : Nat) (mu2 : Nat → K) (cov2 : Nat → Nat → K) (c : Call K) :
    answer (mkState s n mu2 cov2) c = answer (mkState 1 n mu2 cov2) c := by
  have h2 : (2 : K) ≠ 0 := two_ne_zero
  cases c with
  | means =>
    simp only [answer, mkState]
    congr 1; apply List.map_congr_left; intro i _; field_simp
  | cov =>
    simp only [answer, mkState]
    congr 1; apply List.flatMap_congr; intro i _; apply List.map_congr_left; intro j _; field_simp
  | reduced modes =>
    simp only [answer, reducedGaussian, mkState, List.map_map, List.flatMap_map]
    congr 2
    · apply List.map_congr_left; intro i _; simp only [Function.comp]; field_simp
    · apply List.flatMap_congr; intro i _
      apply List.map_congr_left; intro j _; simp only [Function.comp]; field_simp
  | displacement m => simp only [answer, displacement_invariant s hs h2]
  | isCoherent m tol => simp only [answer, normCov_invariant s hs]
  | isSqueezed m tol => simp only [answer, normCov_invariant s hs]
  | squeezing m => simp only [answer, squeezingInputs_invariant s hs]
  | meanPhoton m => simp only [answer, meanPhoton_invariant s hs h2]
  | quad m c sn =>
    simp only [answer, quadExpectation_scaling s n mu2 cov2 m c sn]
    simp only [mkState]
    congr 2
    · field_simp
    · congr 1; field_simp

/-- the repaired observers never change the state object, so a whole history answers like a fresh object -/
theorem history_step (st : GState K) (cs : List (Call K)) : history step st cs = cs.map (answer st) := by
  induction cs with
  | nil => rfl
  | cons c cs ih => simp only [history, step, List.map_cons, ih]

/-- the old code is the repaired code as long as the aliasing condition `N = 1` is not met -/
theorem stepOld_eq_step (st : GState K) (hn : st.n ≠ 1) (c : Call K) : stepOld st c = step st c := by
  have : (st.n == 1) = false := by simpa using hn
  cases c <;> simp [stepOld, step, this]

theorem history_stepOld (st : GState K) (hn : st.n ≠ 1) (cs : List (Call K)) :
    history stepOld st cs = history step st cs := by
  induction cs generalizing st with
  | nil => rfl
  | cons c cs ih =>
    simp only [history, stepOld_eq_step st hn c]
    rw [ih]
    simpa [step] using hn

end ordered

/-! ### Wigner function -/

theorem det2_scaling (s a b d : K) : det2 (a * (s * s)) (b * (s * s)) (d * (s * s)) = s * s * (s * s) * det2 a b d := by
  simp only [det2]; ring

theorem wignerExponent_invariant (s : K) (hs : s ≠ 0) (x p mx mp a b d : K) (hdet : det2 a b d ≠ 0) :
    wignerExponent (x * s) (p * s) (mx * s) (mp * s) (a * (s * s)) (b * (s * s)) (d * (s * s))
      = wignerExponent x p mx mp a b d := by
  have h1 : det2 (a * (s * s)) (b * (s * s)) (d * (s * s)) ≠ 0 := by
    rw [det2_scaling]; exact mul_ne_zero (mul_ne_zero (mul_ne_zero hs hs) (mul_ne_zero hs hs)) hdet
  simp only [wignerExponent]
  rw [div_eq_div_iff h1 hdet]
  simp only [det2]; ring

theorem wignerFockArg_invariant (s : K) (hs : s ≠ 0) (h2 : (2 : K) ≠ 0) (x p : K) :
    wignerFockArg s (x * s) (p * s) = wignerFockArg 1 x p := by
  have h2s := two_s_ne hs h2
  have h11 : (1 : K) + 1 ≠ 0 := by rw [one_add_one_eq_two]; exact h2
  simp only [wignerFockArg]
  refine Prod.ext ?_ ?_ <;> simp only <;> field_simp

end SFV.Hbar
