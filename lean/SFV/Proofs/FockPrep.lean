import SFV.Model.FockPrep
import SFV.Proofs.StatesFock

/-! `prepare_multimode`: the prepared state's axis `a` ends up on mode `modes[a]` — for any order of
the listed modes — and the remaining modes carry the partial trace of the previous state (C05). -/
namespace SFV.Fock
open SFV.States

theorem modePermutation_perm (n : Nat) (modes : List Nat) (hnd : modes.Nodup) (hlt : ∀ m ∈ modes, m < n) :
    (modePermutation n modes).Perm (List.range n) := blasList_perm n modes hnd hlt

theorem indexPerm_eq_flat (σ : List Nat) : indexPerm σ = σ.flatMap fun x => [2 * x, 2 * x + 1] := rfl

theorem indexPerm_length (σ : List Nat) : (indexPerm σ).length = 2 * σ.length := by
  induction σ with
  | nil => rfl
  | cons x xs ih => simp [indexPerm, List.flatMap_cons] at ih ⊢; omega

theorem indexPerm_getD (σ : List Nat) (a : Nat) (ha : a < 2 * σ.length) :
    (indexPerm σ).getD a 0 = 2 * σ.getD (a / 2) 0 + a % 2 := by
  induction σ generalizing a with
  | nil => simp at ha
  | cons x xs ih =>
    simp only [indexPerm, List.flatMap_cons]
    match a with
    | 0 => simp
    | 1 => simp
    | a + 2 =>
      have : (([2 * x, 2 * x + 1] : List Nat) ++ List.flatMap (fun x => [2 * x, 2 * x + 1]) xs).getD (a + 2) 0
          = (List.flatMap (fun x => [2 * x, 2 * x + 1]) xs).getD a 0 := by
        simp [List.getD, List.getElem?_append_right]
      rw [this]
      have h2 := ih a (by simp at ha; omega)
      simp only [indexPerm] at h2
      rw [h2]
      have e1 : (a + 2) / 2 = a / 2 + 1 := by omega
      have e2 : (a + 2) % 2 = a % 2 := by omega
      rw [e1, e2]
      simp [List.getD]

theorem indexPerm_perm (n : Nat) (σ : List Nat) (h : σ.Perm (List.range n)) :
    (indexPerm σ).Perm (List.range (2 * n)) := by
  have hnd : σ.Nodup := h.nodup_iff.mpr List.nodup_range
  have hmem : ∀ x, x ∈ σ ↔ x < n := fun x => by rw [h.mem_iff, List.mem_range]
  have hnd2 : (indexPerm σ).Nodup := by
    simp only [indexPerm]
    rw [List.nodup_flatMap]
    refine ⟨fun x _ => by simp, ?_⟩
    exact hnd.imp_of_mem (fun {a b} _ _ hab => by
      intro c hc1 hc2
      simp at hc1 hc2
      omega)
  apply (List.perm_ext_iff_of_nodup hnd2 List.nodup_range).mpr
  intro a
  simp only [indexPerm, List.mem_flatMap, List.mem_range, List.mem_cons, List.not_mem_nil, or_false]
  constructor
  · rintro ⟨x, hx, rfl | rfl⟩ <;> have := (hmem x).mp hx <;> omega
  · intro ha
    refine ⟨a / 2, (hmem _).mpr (by omega), ?_⟩
    rcases Nat.mod_two_eq_zero_or_one a with h | h
    · left; omega
    · right; omega

/-- a permutation list read as a map on axes (identity beyond its length) -/
def axisMap (p : List Nat) (a : Nat) : Nat := if a < p.length then p.getD a 0 else a

/-- transposing by `argsort p` for a permutation `p` of `range N` reads source axis `a` at `p[a]` -/
theorem trList_argsort {K : Type} (p : List Nat) (N : Nat) (hp : p.Perm (List.range N)) (ψ : Tens K) (idx : Idx) :
    trList (argsort p) ψ idx = ψ (fun a => idx (axisMap p a)) := by
  unfold trList tr axisMap
  have hN : p.length = N := by rw [hp.length_eq, List.length_range]
  have hl : (argsort p).length = N := by rw [argsort_length, hN]
  congr 1
  funext a
  simp only [hl, hN]
  by_cases ha : a < N
  · simp only [ha, if_true]; rw [argsort_inv p N hp a ha]
  · simp only [ha, if_false]

theorem perm_range_of_nodup {n : Nat} {modes : List Nat} (hnd : modes.Nodup) (hlen : modes.length = n)
    (hlt : ∀ m ∈ modes, m < n) : modes.Perm (List.range n) := by
  have hsub : modes ⊆ List.range n := fun m hm => List.mem_range.mpr (hlt m hm)
  exact (List.subperm_of_subset hnd hsub).perm_of_length_le (by simp [hlen])

theorem modePermutation_full {n : Nat} {modes : List Nat} (hnd : modes.Nodup) (hlen : modes.length = n)
    (hlt : ∀ m ∈ modes, m < n) : modePermutation n modes = modes := by
  have hperm := perm_range_of_nodup hnd hlen hlt
  unfold modePermutation
  rw [List.filter_eq_nil_iff.mpr, List.nil_append]
  intro x hx
  simp [hperm.mem_iff.mpr hx]

/-- **whole-register preparation, ket**: axis `a` of the given ket ends up on mode `modes[a]`, whatever
the order of `modes` -/
theorem prepareAll_pure {K : Type} (n : Nat) (modes : List Nat) (hnd : modes.Nodup) (hlen : modes.length = n)
    (hlt : ∀ m ∈ modes, m < n) (σ : Tens K) (idx : Idx) :
    prepareAll true n modes σ idx = σ (fun a => idx (axisMap modes a)) := by
  unfold prepareAll
  by_cases h : modes = List.range n
  · subst h
    simp only [beq_self_eq_true, if_true]
    congr 1; funext a
    unfold axisMap
    split
    · rename_i ha; simp at ha; simp [List.getD, ha]
    · rfl
  · have : (modes == List.range n) = false := by simpa using h
    simp only [this, if_true, Bool.false_eq_true, if_false, modePermutation_full hnd hlen hlt]
    exact trList_argsort modes n (perm_range_of_nodup hnd hlen hlt) σ idx

/-- **whole-register preparation, density matrix**: axes `(2a, 2a+1)` end up on mode `modes[a]` -/
theorem prepareAll_mixed {K : Type} (n : Nat) (modes : List Nat) (hnd : modes.Nodup) (hlt : ∀ m ∈ modes, m < n)
    (hne : modes ≠ List.range n) (σ : Tens K) (idx : Idx) :
    prepareAll false n modes σ idx = σ (fun a => idx (axisMap (indexPerm (modePermutation n modes)) a)) := by
  unfold prepareAll
  have : (modes == List.range n) = false := by simpa using hne
  simp only [this, Bool.false_eq_true, if_false]
  exact trList_argsort _ (2 * n) (indexPerm_perm n _ (modePermutation_perm n modes hnd hlt)) σ idx

/-- **sub-register preparation** (modes not in standard trailing order): entry `idx` of the result is the
partial trace of the old state read at the spectator axes times the prepared state read at the axes
of the listed modes in the listed order: with `P = indexPerm (spectators ++ modes)`, result axis
`P[a]` carries source axis `a` (`indexPerm_getD`: `P[a] = 2·(spectators ++ modes)[a/2] + a%2`) -/
theorem prepareSome_entry {K : Type} [Zero K] [Add K] [Mul K] (D n : Nat) (modes : List Nat) (hnd : modes.Nodup)
    (hlt : ∀ m ∈ modes, m < n) (hne : modes ≠ List.range' (n - modes.length) modes.length)
    (σ ρ : Tens K) (idx : Idx) :
    prepareSome D n modes σ ρ idx =
      partialTrace D n modes ρ (fun a => idx (axisMap (indexPerm (modePermutation n modes)) a)) *
        σ (fun a => idx (axisMap (indexPerm (modePermutation n modes)) (2 * (n - modes.length) + a))) := by
  unfold prepareSome
  have : (modes == List.range' (n - modes.length) modes.length) = false := by simpa using hne
  simp only [this, Bool.false_eq_true, if_false]
  rw [trList_argsort _ (2 * n) (indexPerm_perm n _ (modePermutation_perm n modes hnd hlt))]

/-- the listed modes sit at the back of `spectators ++ modes`, in the listed order -/
theorem modePermutation_back (n : Nat) (modes : List Nat) (hnd : modes.Nodup) (hlt : ∀ m ∈ modes, m < n)
    (a : Nat) (ha : a < modes.length) :
    (modePermutation n modes).getD (n - modes.length + a) 0 = modes.getD a 0 := by
  have hlen := blasList_length_filter n modes hnd hlt
  unfold modePermutation
  rw [List.getD_append_right _ _ _ _ (by omega)]
  congr 1
  omega

end SFV.Fock
