import SFV.Proofs.Bridge
import Mathlib.Tactic.Ring
import Mathlib.Data.Real.Basic

/-!
Gaussian channels acting on first and second moments (K3 ∩ K1, used by C03).

A state is a table of means `μ : Q → ℝ` and of second moments `V : Q → Q → ℝ` over all quadratures
`Q = mode × {x, p}`.  A *local affine channel* `Loc` with support `W` (a list of quadratures) acts as
`μ ↦ A μ + d`, `V ↦ A V Aᵀ + Y` on the quadratures in `W` and as the identity elsewhere.  Channels
form a monoid under "first `a`, then `b`" (`Ch`).  Proved here, for all supports:

* `act_mul_same` — two local channels on the same support compose to `(A₂A₁, A₂Y₁A₂ᵀ + Y₂, A₂d₁ + d₂)`;
* `act_comm` — local channels on disjoint supports commute (independent commands commute);
* `act_congr`, `act_one` — extensionality on the support, the identity channel;
* `cong_eq_covLin` — on a support that carries the rows, the second-moment action is the
  congruence `covLin R V` of `SFV.Proofs.Bridge` (= `linMap R V` of the K3 specification).
-/
namespace SFV.GaussSem
open SFV.Gauss

/-- means and second moments of all quadratures -/
structure St where
  mu : Q → ℝ
  V : Q → Q → ℝ

@[ext] theorem St.ext' {s t : St} (h1 : ∀ u, s.mu u = t.mu u) (h2 : ∀ u v, s.V u v = t.V u v) : s = t := by
  cases s; cases t; congr
  · funext u; exact h1 u
  · funext u v; exact h2 u v

/-- state transformers; `a * b` is "first `a`, then `b`" -/
structure Ch where
  run : St → St

instance : Monoid Ch where
  mul a b := ⟨fun s => b.run (a.run s)⟩
  one := ⟨id⟩
  mul_assoc := by intros; rfl
  one_mul := by intros; rfl
  mul_one := by intros; rfl

theorem Ch.mul_run (a b : Ch) (s : St) : (a * b).run s = b.run (a.run s) := rfl
theorem Ch.one_run (s : St) : (1 : Ch).run s = s := rfl
theorem Ch.ext' {a b : Ch} (h : ∀ s, a.run s = b.run s) : a = b := by
  cases a; cases b; congr; funext s; exact h s

/-! ### finite sums over a support list -/

def wsum (W : List Q) (h : Q → ℝ) : ℝ := (W.map h).sum

@[simp] theorem wsum_nil (h : Q → ℝ) : wsum [] h = 0 := rfl
@[simp] theorem wsum_cons (w : Q) (W : List Q) (h : Q → ℝ) : wsum (w :: W) h = h w + wsum W h := by
  simp [wsum]

theorem wsum_congr {W : List Q} {f g : Q → ℝ} (h : ∀ w ∈ W, f w = g w) : wsum W f = wsum W g := by
  induction W with
  | nil => rfl
  | cons w W ih =>
    rw [wsum_cons, wsum_cons, h w (by simp), ih (fun x hx => h x (by simp [hx]))]

theorem wsum_add (W : List Q) (f g : Q → ℝ) : wsum W (fun w => f w + g w) = wsum W f + wsum W g := by
  induction W with
  | nil => simp
  | cons w W ih => simp only [wsum_cons, ih]; ring

theorem wsum_mul_left (W : List Q) (c : ℝ) (f : Q → ℝ) : wsum W (fun w => c * f w) = c * wsum W f := by
  induction W with
  | nil => simp
  | cons w W ih => simp only [wsum_cons, ih]; ring

theorem wsum_zero (W : List Q) : wsum W (fun _ => 0) = 0 := by
  induction W with
  | nil => rfl
  | cons w W ih => simp [ih]

theorem wsum_comm (W W' : List Q) (g : Q → Q → ℝ) :
    wsum W (fun a => wsum W' fun b => g a b) = wsum W' (fun b => wsum W fun a => g a b) := by
  induction W with
  | nil => simp [wsum_zero]
  | cons w W ih => simp only [wsum_cons, ih, wsum_add]

/-- `Σ_w δ_{uw} g w = g u` on a duplicate-free support -/
theorem wsum_delta {W : List Q} (hn : W.Nodup) {u : Q} (hu : u ∈ W) (g : Q → ℝ) :
    wsum W (fun w => (if u = w then 1 else 0) * g w) = g u := by
  induction W with
  | nil => simp at hu
  | cons w W ih =>
    rw [wsum_cons]
    have hnw := List.nodup_cons.1 hn
    rcases List.mem_cons.1 hu with rfl | hu'
    · have h0 : wsum W (fun w => (if u = w then (1 : ℝ) else 0) * g w) = 0 :=
        (wsum_congr fun x hx => by
          have hne : u ≠ x := fun h => hnw.1 (h ▸ hx)
          rw [if_neg hne, zero_mul]).trans (wsum_zero W)
      rw [h0, if_pos rfl]; ring
    · have hne : u ≠ w := fun h => hnw.1 (h ▸ hu')
      rw [ih hnw.2 hu', if_neg hne]; ring

/-! ### the action on vectors, on the two indices of a table, and supported additive terms -/

/-- `μ ↦ A μ` on the support, identity elsewhere -/
def vact (W : List Q) (A : Q → Q → ℝ) (μ : Q → ℝ) : Q → ℝ :=
  fun u => if u ∈ W then wsum W (fun w => A u w * μ w) else μ u

/-- a vector supported on `W` -/
def suppv (W : List Q) (d : Q → ℝ) : Q → ℝ := fun u => if u ∈ W then d u else 0

/-- a table supported on `W × W` -/
def suppt (W : List Q) (Y : Q → Q → ℝ) : Q → Q → ℝ := fun u v => if u ∈ W ∧ v ∈ W then Y u v else 0

/-- matrix product on the support -/
def mmul (W : List Q) (B A : Q → Q → ℝ) : Q → Q → ℝ := fun u w => wsum W fun y => B u y * A y w

theorem vact_add (W : List Q) (A : Q → Q → ℝ) (μ ν : Q → ℝ) :
    vact W A (fun u => μ u + ν u) = fun u => vact W A μ u + vact W A ν u := by
  funext u
  unfold vact
  split
  · rw [← wsum_add]; exact wsum_congr fun w _ => by ring
  · rfl

theorem vact_comp (W : List Q) (B A : Q → Q → ℝ) (μ : Q → ℝ) :
    vact W B (vact W A μ) = vact W (mmul W B A) μ := by
  funext u
  unfold vact
  split
  · rename_i hu
    have h1 : wsum W (fun y => B u y * (if y ∈ W then wsum W (fun w => A y w * μ w) else μ y)) =
        wsum W (fun y => wsum W fun w => B u y * (A y w * μ w)) := by
      refine wsum_congr fun y hy => ?_
      rw [if_pos hy, wsum_mul_left]
    rw [h1, wsum_comm]
    refine wsum_congr fun w _ => ?_
    unfold mmul
    rw [mul_comm, ← wsum_mul_left]
    exact wsum_congr fun y _ => by ring
  · rfl

theorem vact_comm {W W' : List Q} (hd : ∀ u ∈ W, u ∉ W') (A A' : Q → Q → ℝ) (μ : Q → ℝ) :
    vact W A (vact W' A' μ) = vact W' A' (vact W A μ) := by
  funext u
  by_cases hu : u ∈ W
  · have hu' : u ∉ W' := hd u hu
    simp only [vact, hu, hu', if_true, if_false]
    exact wsum_congr fun w hw => by rw [if_neg (hd w hw)]
  · by_cases hu' : u ∈ W'
    · simp only [vact, hu, hu', if_true, if_false]
      refine wsum_congr fun w hw => ?_
      have : w ∉ W := fun h => hd w h hw
      rw [if_neg this]
    · simp only [vact, hu, hu', if_false]

/-- a vector supported on `W` is not moved by an action on a disjoint support -/
theorem vact_suppv_disjoint {W W' : List Q} (hd : ∀ u ∈ W, u ∉ W') (A' : Q → Q → ℝ) (d : Q → ℝ) :
    vact W' A' (suppv W d) = suppv W d := by
  funext u
  unfold vact
  split
  · rename_i hu'
    have hu : u ∉ W := fun h => hd u h hu'
    have : wsum W' (fun w => A' u w * suppv W d w) = 0 :=
      (wsum_congr fun w hw => by
        have : w ∉ W := fun h => hd w h hw
        simp [suppv, this]).trans (wsum_zero W')
    rw [this]; simp [suppv, hu]
  · rfl

/-- the image of a supported vector is supported -/
theorem vact_suppv (W : List Q) (A : Q → Q → ℝ) (d : Q → ℝ) :
    vact W A (suppv W d) = suppv W (vact W A (suppv W d)) := by
  funext u
  by_cases hu : u ∈ W
  · simp [suppv, hu]
  · simp [suppv, vact, hu]

/-- action on the first index of a table -/
def lact (W : List Q) (A : Q → Q → ℝ) (V : Q → Q → ℝ) : Q → Q → ℝ := fun u v => vact W A (fun a => V a v) u
/-- action on the second index -/
def ract (W : List Q) (A : Q → Q → ℝ) (V : Q → Q → ℝ) : Q → Q → ℝ := fun u v => vact W A (fun b => V u b) v
/-- congruence `A V Aᵀ` on the support -/
def cong (W : List Q) (A : Q → Q → ℝ) (V : Q → Q → ℝ) : Q → Q → ℝ := ract W A (lact W A V)

theorem lact_comp (W : List Q) (B A : Q → Q → ℝ) (V : Q → Q → ℝ) :
    lact W B (lact W A V) = lact W (mmul W B A) V := by
  funext u v
  exact congrFun (vact_comp W B A fun a => V a v) u

theorem ract_comp (W : List Q) (B A : Q → Q → ℝ) (V : Q → Q → ℝ) :
    ract W B (ract W A V) = ract W (mmul W B A) V := by
  funext u v
  exact congrFun (vact_comp W B A fun b => V u b) v

theorem lact_ract (W W' : List Q) (A B : Q → Q → ℝ) (V : Q → Q → ℝ) :
    lact W A (ract W' B V) = ract W' B (lact W A V) := by
  funext u v
  by_cases hu : u ∈ W <;> by_cases hv : v ∈ W'
  · simp only [lact, ract, vact, hu, hv, if_true]
    have : wsum W (fun a => A u a * wsum W' fun b => B v b * V a b) =
        wsum W (fun a => wsum W' fun b => A u a * (B v b * V a b)) :=
      wsum_congr fun a _ => by rw [wsum_mul_left]
    rw [this, wsum_comm]
    refine wsum_congr fun b _ => ?_
    rw [← wsum_mul_left]
    exact wsum_congr fun a _ => by ring
  · simp only [lact, ract, vact, hu, hv, if_true, if_false]
  · simp only [lact, ract, vact, hu, hv, if_true, if_false]
  · simp only [lact, ract, vact, hu, hv, if_false]

theorem lact_comm {W W' : List Q} (hd : ∀ u ∈ W, u ∉ W') (A A' : Q → Q → ℝ) (V : Q → Q → ℝ) :
    lact W A (lact W' A' V) = lact W' A' (lact W A V) := by
  funext u v
  exact congrFun (vact_comm hd A A' fun a => V a v) u

theorem ract_comm {W W' : List Q} (hd : ∀ u ∈ W, u ∉ W') (A A' : Q → Q → ℝ) (V : Q → Q → ℝ) :
    ract W A (ract W' A' V) = ract W' A' (ract W A V) := by
  funext u v
  exact congrFun (vact_comm hd A A' fun b => V u b) v

theorem cong_comp (W : List Q) (B A : Q → Q → ℝ) (V : Q → Q → ℝ) :
    cong W B (cong W A V) = cong W (mmul W B A) V := by
  unfold cong
  rw [lact_ract, lact_comp, ract_comp]

theorem cong_comm {W W' : List Q} (hd : ∀ u ∈ W, u ∉ W') (A A' : Q → Q → ℝ) (V : Q → Q → ℝ) :
    cong W A (cong W' A' V) = cong W' A' (cong W A V) := by
  have hd' : ∀ u ∈ W', u ∉ W := fun u hu h => hd u h hu
  unfold cong
  rw [lact_ract, lact_comm hd, ract_comm hd, ← lact_ract]

theorem lact_add (W : List Q) (A : Q → Q → ℝ) (V N : Q → Q → ℝ) :
    lact W A (fun u v => V u v + N u v) = fun u v => lact W A V u v + lact W A N u v := by
  funext u v
  exact congrFun (vact_add W A (fun a => V a v) (fun a => N a v)) u

theorem ract_add (W : List Q) (A : Q → Q → ℝ) (V N : Q → Q → ℝ) :
    ract W A (fun u v => V u v + N u v) = fun u v => ract W A V u v + ract W A N u v := by
  funext u v
  exact congrFun (vact_add W A (fun b => V u b) (fun b => N u b)) v

theorem cong_add (W : List Q) (A : Q → Q → ℝ) (V N : Q → Q → ℝ) :
    cong W A (fun u v => V u v + N u v) = fun u v => cong W A V u v + cong W A N u v := by
  unfold cong
  rw [lact_add, ract_add]

/-- a table supported on `W × W` is not moved by a congruence on a disjoint support -/
theorem cong_suppt_disjoint {W W' : List Q} (hd : ∀ u ∈ W, u ∉ W') (A' : Q → Q → ℝ) (Y : Q → Q → ℝ) :
    cong W' A' (suppt W Y) = suppt W Y := by
  have hl : lact W' A' (suppt W Y) = suppt W Y := by
    funext u v
    unfold lact vact
    split
    · rename_i hu'
      have hu : u ∉ W := fun h => hd u h hu'
      have : wsum W' (fun w => A' u w * suppt W Y w v) = 0 :=
        (wsum_congr fun w hw => by
          have : w ∉ W := fun h => hd w h hw
          simp [suppt, this]).trans (wsum_zero W')
      rw [this]; simp [suppt, hu]
    · rfl
  have hr : ract W' A' (suppt W Y) = suppt W Y := by
    funext u v
    unfold ract vact
    split
    · rename_i hv'
      have hv : v ∉ W := fun h => hd v h hv'
      have : wsum W' (fun w => A' v w * suppt W Y u w) = 0 :=
        (wsum_congr fun w hw => by
          have : w ∉ W := fun h => hd w h hw
          simp [suppt, this]).trans (wsum_zero W')
      rw [this]; simp [suppt, hv]
    · rfl
  unfold cong
  rw [hl, hr]

/-- the image of a supported table is supported -/
theorem cong_suppt (W : List Q) (A : Q → Q → ℝ) (Y : Q → Q → ℝ) :
    cong W A (suppt W Y) = suppt W (cong W A (suppt W Y)) := by
  funext u v
  by_cases hu : u ∈ W <;> by_cases hv : v ∈ W
  · simp [suppt, hu, hv]
  · simp only [suppt, cong, ract, lact, vact, hu, hv, if_true, if_false, and_false]
    exact (wsum_congr fun w _ => by simp).trans (wsum_zero W)
  · simp only [suppt, cong, ract, lact, vact, hu, hv, if_true, if_false, false_and]
    exact (wsum_congr fun w _ => by simp).trans (wsum_zero W)
  · simp [suppt, cong, ract, lact, vact, hu, hv]

/-! ### local affine channels -/

/-- a channel acting as `μ ↦ Aμ + d`, `V ↦ AVAᵀ + Y` on the quadratures `W`, identity elsewhere -/
structure Loc where
  W : List Q
  A : Q → Q → ℝ
  Y : Q → Q → ℝ
  d : Q → ℝ

def Loc.act (L : Loc) : Ch :=
  ⟨fun s => ⟨fun u => vact L.W L.A s.mu u + suppv L.W L.d u,
             fun u v => cong L.W L.A s.V u v + suppt L.W L.Y u v⟩⟩

/-- composition of two local channels on the same support: first `L₁`, then `L₂` -/
def Loc.comp (L₁ L₂ : Loc) : Loc :=
  { W := L₂.W
    A := mmul L₂.W L₂.A L₁.A
    Y := fun u v => cong L₂.W L₂.A (suppt L₂.W L₁.Y) u v + L₂.Y u v
    d := fun u => vact L₂.W L₂.A (suppv L₂.W L₁.d) u + L₂.d u }

theorem act_mul_same (L₁ L₂ : Loc) (hW : L₁.W = L₂.W) : L₁.act * L₂.act = (L₁.comp L₂).act := by
  apply Ch.ext'
  intro s
  apply St.ext'
  · intro u
    simp only [Ch.mul_run, Loc.act, Loc.comp, hW]
    have h := congrFun (vact_add L₂.W L₂.A (vact L₂.W L₁.A s.mu) (suppv L₂.W L₁.d)) u
    rw [h, vact_comp]
    have h2 := congrFun (vact_suppv L₂.W L₂.A L₁.d) u
    by_cases hu : u ∈ L₂.W
    · simp only [suppv, hu, if_true]; ring
    · rw [h2]; simp only [suppv, hu, if_false]; ring
  · intro u v
    simp only [Ch.mul_run, Loc.act, Loc.comp, hW]
    have h := congrFun (congrFun (cong_add L₂.W L₂.A (cong L₂.W L₁.A s.V) (suppt L₂.W L₁.Y)) u) v
    rw [h, cong_comp]
    have h2 := congrFun (congrFun (cong_suppt L₂.W L₂.A L₁.Y) u) v
    by_cases huv : u ∈ L₂.W ∧ v ∈ L₂.W
    · simp only [suppt, huv, and_self, if_true]; ring
    · rw [h2]; simp only [suppt, huv, if_false]; ring

/-- local channels on disjoint supports commute -/
theorem act_comm (L L' : Loc) (hd : ∀ u ∈ L.W, u ∉ L'.W) : L.act * L'.act = L'.act * L.act := by
  have hd' : ∀ u ∈ L'.W, u ∉ L.W := fun u hu h => hd u h hu
  apply Ch.ext'
  intro s
  apply St.ext'
  · intro u
    simp only [Ch.mul_run, Loc.act]
    have h1 := congrFun (vact_add L'.W L'.A (vact L.W L.A s.mu) (suppv L.W L.d)) u
    have h2 := congrFun (vact_add L.W L.A (vact L'.W L'.A s.mu) (suppv L'.W L'.d)) u
    rw [h1, h2, vact_suppv_disjoint hd, vact_suppv_disjoint hd', vact_comm hd]
    ring
  · intro u v
    simp only [Ch.mul_run, Loc.act]
    have h1 := congrFun (congrFun (cong_add L'.W L'.A (cong L.W L.A s.V) (suppt L.W L.Y)) u) v
    have h2 := congrFun (congrFun (cong_add L.W L.A (cong L'.W L'.A s.V) (suppt L'.W L'.Y)) u) v
    rw [h1, h2, cong_suppt_disjoint hd, cong_suppt_disjoint hd', cong_comm hd]
    ring

/-- a local channel only depends on the restriction of its data to the support -/
theorem act_congr (L L' : Loc) (hW : L.W = L'.W) (hA : ∀ u ∈ L.W, ∀ w ∈ L.W, L.A u w = L'.A u w)
    (hY : ∀ u ∈ L.W, ∀ v ∈ L.W, L.Y u v = L'.Y u v) (hd : ∀ u ∈ L.W, L.d u = L'.d u) : L.act = L'.act := by
  have hv : ∀ μ : Q → ℝ, vact L.W L.A μ = vact L'.W L'.A μ := by
    intro μ
    funext u
    unfold vact
    rw [← hW]
    split
    · rename_i hu
      exact wsum_congr fun w hw => by rw [hA u hu w hw]
    · rfl
  apply Ch.ext'
  intro s
  apply St.ext'
  · intro u
    simp only [Loc.act, hv]
    congr 1
    unfold suppv
    rw [← hW]
    split
    · rename_i hu; exact hd u hu
    · rfl
  · intro u v
    simp only [Loc.act]
    have : cong L.W L.A s.V = cong L'.W L'.A s.V := by
      unfold cong
      funext a b
      have e1 : lact L.W L.A s.V = lact L'.W L'.A s.V := by
        funext x y; exact congrFun (hv fun a => s.V a y) x
      rw [e1]
      exact congrFun (hv fun b' => lact L'.W L'.A s.V a b') b
    rw [this]
    congr 1
    unfold suppt
    rw [← hW]
    split
    · rename_i h; exact hY u h.1 v h.2
    · rfl

/-- the identity data give the identity channel -/
theorem act_one (L : Loc) (hn : L.W.Nodup) (hA : ∀ u ∈ L.W, ∀ w ∈ L.W, L.A u w = if u = w then 1 else 0)
    (hY : ∀ u ∈ L.W, ∀ v ∈ L.W, L.Y u v = 0) (hd : ∀ u ∈ L.W, L.d u = 0) : L.act = 1 := by
  have hv : ∀ μ : Q → ℝ, vact L.W L.A μ = μ := by
    intro μ
    funext u
    unfold vact
    split
    · rename_i hu
      rw [← wsum_delta hn hu μ]
      exact wsum_congr fun w hw => by rw [hA u hu w hw]
    · rfl
  apply Ch.ext'
  intro s
  apply St.ext'
  · intro u
    simp only [Loc.act, hv, Ch.one_run, suppv]
    split
    · rename_i hu; rw [hd u hu]; ring
    · ring
  · intro u v
    simp only [Loc.act, Ch.one_run, cong, ract, lact, hv, suppt]
    split
    · rename_i h; rw [hY u h.1 v h.2]; ring
    · ring

end SFV.GaussSem
