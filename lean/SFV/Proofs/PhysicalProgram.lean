import SFV.Proofs.Physical

/-!
# The uncertainty relation along a whole program of Gaussian channels

`Physical.uncertainty_channel` is the one-step statement.  Here: a program is any list of channels `(X, Y)` on the whole register
(gates are the case `Y = 0`, `X Ω Xᵀ = Ω`); if every step satisfies the complete-positivity condition, the covariance matrix reached
from any physical covariance matrix is physical — induction over the program, no bound on its length or on the register size.
-/
namespace SFV.Physical
open Matrix
open scoped ComplexOrder

set_option linter.unusedSectionVars false
variable {n : Type} [Fintype n] [DecidableEq n]

/-- one step `V ↦ X V Xᵀ + Y` -/
def chanStep (V : Matrix n n ℝ) (XY : Matrix n n ℝ × Matrix n n ℝ) : Matrix n n ℝ := XY.1 * V * XY.1ᵀ + XY.2

/-- the complete-positivity condition of a step -/
def ChanCP (Ω : Matrix n n ℝ) (XY : Matrix n n ℝ × Matrix n n ℝ) : Prop :=
  (cplx XY.2 + Complex.I • cplx (Ω - XY.1 * Ω * XY.1ᵀ)).PosSemidef

theorem uncertainty_program (Ω : Matrix n n ℝ) (prog : List (Matrix n n ℝ × Matrix n n ℝ))
    (hcp : ∀ s ∈ prog, ChanCP Ω s) (V : Matrix n n ℝ) (h : Uncertainty V Ω) :
    Uncertainty (prog.foldl chanStep V) Ω := by
  induction prog generalizing V with
  | nil => exact h
  | cons s prog ih =>
    exact ih (fun t ht => hcp t (by simp [ht])) _ (uncertainty_channel V Ω s.1 s.2 (hcp s (by simp)) h)

/-- a symplectic gate is a channel step with `Y = 0` satisfying the condition -/
theorem gate_chanCP (Ω S : Matrix n n ℝ) (hS : S * Ω * Sᵀ = Ω) : ChanCP Ω (S, 0) := by
  unfold ChanCP
  simp only [hS, sub_self]
  have : cplx (0 : Matrix n n ℝ) = 0 := by ext i j; simp [cplx]
  rw [this]
  simpa using (PosSemidef.zero : (0 : Matrix n n ℂ).PosSemidef)

end SFV.Physical
