import SFV.Model.DecomposeMesh
import SFV.Proofs.DecomposeDriver
import SFV.Proofs.DecompUnitary
/-! C02: the unitary of the emitted mesh circuits is the factorisation's own defining product.
Per block: `BSgate(θ,0)·Rgate(φ) = T(θ,φ)`, `Rgate(−φ)·BSgate(−θ,0) = Ti(θ,φ)` (`= T⁻¹`), the MZgate docstring
matrix `= mach_zehnder`, the sMZgate matrix `= M(σ, δ)`, the five commands of `_sun_compact_cmds` `=` the SU(2)
block; per list: `Interferometer._decompose` multiplies these in the order of the documented factorisation. -/
namespace SFV.Decompose
open SFV.Decomp SFV.Decomp.Cx
set_option linter.unusedSimpArgs false
set_option linter.unusedSectionVars false

variable {K A : Type} [CommRing K]

macro "cx_tac" : tactic => `(tactic| (apply Cx.ext' <;> simp <;> ring))

/-- `BS_clements(θ, φ) = BS(θ, 0) R(φ)`: `Rgate(φ)` on the first mode followed by `BSgate(θ, 0)` is the `T` block -/
theorem clements_block (cs : A → K × K) (hf : K) (zero : A) (h0 : cs zero = (1, 0)) (θ φ : A) (p q : Nat) (hpq : p ≠ q)
    (W : CMat K) :
    applyM cs hf ⟨.BS θ zero, [p, q]⟩ (applyM cs hf ⟨.R φ, [p]⟩ W) =
      leftMix (blkT (cs θ).1 (cs θ).2 (eOf cs φ)) p q W := by
  have hqp : q ≠ p := Ne.symm hpq
  funext i j
  simp only [applyM, leftMix, leftPhase, blkBS, blkT, eOf, h0]
  by_cases hip : i = p
  · subst hip; simp [hqp]; cx_tac
  · by_cases hiq : i = q
    · subst hiq; simp [hip, hqp]; cx_tac
    · simp [hip, hiq]

/-- `BSgate(−θ, 0)` followed by `Rgate(−φ)` on the first mode is the `Ti` block (`T(θ,φ)⁻¹`) -/
theorem clements_inv_block (cs : A → K × K) (hf : K) (zero : A) (h0 : cs zero = (1, 0)) [Neg A]
    (hneg : ∀ a, cs (-a) = ((cs a).1, -(cs a).2)) (θ φ : A) (p q : Nat) (hpq : p ≠ q) (W : CMat K) :
    applyM cs hf ⟨.R (-φ), [p]⟩ (applyM cs hf ⟨.BS (-θ) zero, [p, q]⟩ W) =
      leftMix (blkTi (cs θ).1 (cs θ).2 (eOf cs φ)) p q W := by
  have hqp : q ≠ p := Ne.symm hpq
  funext i j
  simp only [applyM, leftMix, leftPhase, blkBS, blkTi, eOf, h0, hneg]
  by_cases hip : i = p
  · subst hip; simp [hqp]; cx_tac
  · by_cases hiq : i = q
    · subst hiq; simp [hip, hqp]; cx_tac
    · simp [hip, hiq]

/-- the MZgate docstring matrix is `decompositions.mach_zehnder(φ_i, φ_e)`; `(c, s)` are the atoms of `φ_i/2` -/
theorem mz_block (hf c s : K) (hh : hf + hf = 1) (hcs : c * c + s * s = 1) (e' : Cx K) :
    blkMZdoc hf (⟨c * c - s * s, 2 * c * s⟩ : Cx K) e' = blkMZ c s e' := by
  simp only [blkMZdoc, blkMZ, Blk.mk.injEq]
  refine ⟨?_, ?_, ?_, ?_⟩ <;> apply Cx.ext' <;> simp [Cx.I] <;> grind

/-- the sMZgate matrix at `(σ + δ, σ − δ)` is the sMZI matrix `decompositions.M(σ, δ)`; `(cσ, sσ)`, `(cδ, sδ)` atoms -/
theorem smz_block (hf cσ sσ cδ sδ : K) (hh : hf + hf = 1) :
    blkSMZdoc hf (⟨cσ * cδ - sσ * sδ, sσ * cδ + cσ * sδ⟩ : Cx K) ⟨cσ * cδ + sσ * sδ, sσ * cδ - cσ * sδ⟩ =
      blkM cδ sδ ⟨cσ, sσ⟩ := by
  simp only [blkSMZdoc, blkM, Blk.mk.injEq]
  refine ⟨?_, ?_, ?_, ?_⟩ <;> apply Cx.ext' <;> simp [Cx.I] <;> grind

/-- the five commands `_sun_compact_cmds` emits for one factor, in the order they are applied (the list is
reversed at the end): `R(−γ/2)₂, R(γ/2)₁, BS(β/2, 0), R(−α/2)₂, R(α/2)₁` multiply to the SU(2) block -/
theorem su2_block (cs : A → K × K) (hf : K) (zero : A) (h0 : cs zero = (1, 0)) [Neg A]
    (hneg : ∀ a, cs (-a) = ((cs a).1, -(cs a).2)) (half : A → A) (reg : List Nat) (md1 md2 : Nat) (a b g : A)
    (hpq : rg reg md1 ≠ rg reg md2) (W : CMat K) :
    runM cs hf (su2Cmds half zero reg md1 md2 a b g).reverse W =
      leftMix (blkSU2 (cs (half b)).1 (cs (half b)).2 (eOf cs (half a)) (eOf cs (half g))) (rg reg md1) (rg reg md2) W := by
  have hqp := Ne.symm hpq
  funext i j
  simp only [runM, su2Cmds, List.reverse_cons, List.reverse_nil, List.nil_append, List.cons_append, List.foldl_cons,
    List.foldl_nil, applyM, leftMix, leftPhase, blkBS, blkSU2, eOf, h0, hneg]
  by_cases hip : i = rg reg md1
  · subst hip; simp [hqp, hpq]; cx_tac
  · by_cases hiq : i = rg reg md2
    · subst hiq; simp [hip, hqp, hpq]; cx_tac
    · simp [hip, hiq]

/-! ### lists -/

theorem runM_append (cs : A → K × K) (hf : K) (l1 l2 : List (MCmd A)) (W : CMat K) :
    runM cs hf (l1 ++ l2) W = runM cs hf l2 (runM cs hf l1 W) := by simp [runM, List.foldl_append]

theorem runM_eq_semL (cs : A → K × K) (hf : K) (l : List (MCmd A)) (W : CMat K) :
    runM cs hf l W = semL (applyM cs hf) l W := rfl

/-- factor list with the positions replaced by the targets and the angles clipped as the source clips them -/
def relab (reg : List Nat) (clip : A → A) (l : List (Nat × Nat × A × A)) : List (Nat × Nat × A × A) :=
  l.map fun e => (rg reg e.1, rg reg e.2.1, clip e.2.2.1, clip e.2.2.2)

theorem runM_T_blocks (cs : A → K × K) (hf : K) (zero : A) (h0 : cs zero = (1, 0)) (reg : List Nat) (clip : A → A)
    (l : List (Nat × Nat × A × A)) (hl : ∀ e ∈ l, rg reg e.1 ≠ rg reg e.2.1) (W : CMat K) :
    runM cs hf (l.flatMap fun e => [⟨.R (clip e.2.2.2), [rg reg e.1]⟩, ⟨.BS (clip e.2.2.1) zero, [rg reg e.1, rg reg e.2.1]⟩]) W =
      prodT cs (relab reg clip l) W := by
  induction l generalizing W with
  | nil => rfl
  | cons e l ih =>
    simp only [List.flatMap_cons, runM_append, relab, List.map_cons, prodT, List.foldl_cons]
    have h1 := clements_block cs hf zero h0 (clip e.2.2.1) (clip e.2.2.2) _ _ (hl e (by simp)) W
    simp only [runM, List.foldl_cons, List.foldl_nil] at h1 ⊢
    rw [h1]
    exact ih (fun e' he' => hl e' (by simp [he'])) _

theorem runM_Ti_blocks (cs : A → K × K) (hf : K) (zero : A) (h0 : cs zero = (1, 0)) [Neg A]
    (hneg : ∀ a, cs (-a) = ((cs a).1, -(cs a).2)) (reg : List Nat) (clip : A → A)
    (l : List (Nat × Nat × A × A)) (hl : ∀ e ∈ l, rg reg e.1 ≠ rg reg e.2.1) (W : CMat K) :
    runM cs hf (l.flatMap fun e => [⟨.BS (-(clip e.2.2.1)) zero, [rg reg e.1, rg reg e.2.1]⟩, ⟨.R (-(clip e.2.2.2)), [rg reg e.1]⟩]) W =
      prodTi cs (relab reg clip l) W := by
  induction l generalizing W with
  | nil => rfl
  | cons e l ih =>
    simp only [List.flatMap_cons, runM_append, relab, List.map_cons, prodTi, List.foldl_cons]
    have h1 := clements_inv_block cs hf zero h0 hneg (clip e.2.2.1) (clip e.2.2.2) _ _ (hl e (by simp)) W
    simp only [runM, List.foldl_cons, List.foldl_nil] at h1 ⊢
    rw [h1]
    exact ih (fun e' he' => hl e' (by simp [he'])) _

theorem runM_phases (cs : A → K × K) (hf : K) (l : List (A × Nat)) (W : CMat K) :
    runM cs hf (l.map fun qn => ⟨.R qn.1, [qn.2]⟩) W = prodPhase cs l W := by
  induction l generalizing W with
  | nil => rfl
  | cons e l ih => simp only [List.map_cons, runM, List.foldl_cons, prodPhase, applyM] at ih ⊢; exact ih _

/-- local phases of the emission, as `(angle, target)` -/
def phaseList (zero : A) (mod2pi : A → A) (reg : List Nat) (R : List (Option A)) : List (A × Nat) :=
  R.zipIdx.map fun qn => (mod2pi (qn.1.getD zero), rg reg qn.2)

variable [DecidableEq A] [Neg A]

/-- **Clements meshes** (`rectangular`, and `rectangular_phase_end` with `BS2 = []`), `drop_identity=False`: the unitary
of the emitted circuit is `Ti(BS2[0]) ⋯ Ti(BS2[-1]) · D · T(BS1[-1]) ⋯ T(BS1[0])`, the defining product of the factors
`(tilist, diag, tlist)` that `decompositions.rectangular` returns (C17 `reconstruct`), for factor lists of every length -/
theorem interferometer_defining_product (cs : A → K × K) (hf : K) (zero : A) (h0 : cs zero = (1, 0))
    (hneg : ∀ a, cs (-a) = ((cs a).1, -(cs a).2)) (clip mod2pi : A → A) (identity : Bool) (reg : List Nat)
    (BS1 : List (Nat × Nat × A × A)) (R : List (Option A)) (BS2 : List (Nat × Nat × A × A))
    (h1 : ∀ e ∈ BS1, rg reg e.1 ≠ rg reg e.2.1) (h2 : ∀ e ∈ BS2, rg reg e.1 ≠ rg reg e.2.1) (W : CMat K) :
    runM cs hf (interferometerCmds zero clip mod2pi identity false false reg BS1 R (some BS2)) W =
      prodTi cs (relab reg clip BS2.reverse) (prodPhase cs (phaseList zero mod2pi reg R) (prodT cs (relab reg clip BS1) W)) := by
  rw [SFV.Decompose.interferometer_cmds_structure, runM_append, runM_append,
    runM_T_blocks cs hf zero h0 reg clip BS1 h1,
    runM_Ti_blocks cs hf zero h0 hneg reg clip BS2.reverse (fun e he => h2 e (by simpa using he))]
  congr 1
  have : (R.zipIdx.map fun qn => (⟨.R (mod2pi (qn.1.getD zero)), [rg reg qn.2]⟩ : MCmd A)) =
      (phaseList zero mod2pi reg R).map fun qn => ⟨.R qn.1, [qn.2]⟩ := by
    simp [phaseList, List.map_map, Function.comp_def]
  rw [this, runM_phases]

/-- **Reck mesh** (`triangular`, repaired emission): `Ti(tl[-1]) ⋯ Ti(tl[0]) · D` — the documented
`U = T₁⁻¹ ⋯ T_k⁻¹ D` of `decompositions.triangular` -/
theorem triangular_defining_product (cs : A → K × K) (hf : K) (zero : A) (h0 : cs zero = (1, 0))
    (hneg : ∀ a, cs (-a) = ((cs a).1, -(cs a).2)) (clip mod2pi : A → A) (identity : Bool) (reg : List Nat)
    (BS1 : List (Nat × Nat × A × A)) (R : List (Option A)) (BS2 : Option (List (Nat × Nat × A × A)))
    (h1 : ∀ e ∈ BS1, rg reg e.1 ≠ rg reg e.2.1) (W : CMat K) :
    runM cs hf (interferometerDecompose zero clip mod2pi identity false false true reg BS1 R BS2) W =
      prodTi cs (relab reg clip BS1) (prodPhase cs (phaseList zero mod2pi reg R) W) := by
  have h := interferometer_defining_product cs hf zero h0 hneg clip mod2pi identity reg [] R BS1.reverse
    (by simp) (fun e he => h1 e (by simpa using he)) W
  simp only [interferometerDecompose, if_true]
  rw [h]
  simp [relab, prodT]

/-- with `drop_identity=True` the unitary is the same (only `R(0)`, `BS(0,0)` are dropped) -/
theorem interferometer_drop_same_unitary (cs : A → K × K) (hf : K) (zero : A) (h0 : cs zero = (1, 0))
    (hnz : -zero = zero) (clip mod2pi : A → A) (hmod : mod2pi zero = zero) (symmetric : Bool) (reg : List Nat)
    (BS1 : List (Nat × Nat × A × A)) (R : List (Option A)) (BS2 : Option (List (Nat × Nat × A × A))) (W : CMat K) :
    runM cs hf (interferometerCmds zero clip mod2pi false true symmetric reg BS1 R BS2) W =
      runM cs hf (interferometerCmds zero clip mod2pi false false symmetric reg BS1 R BS2) W := by
  simp only [runM_eq_semL]
  refine SFV.Decompose.interferometer_drop_identity (applyM cs hf) zero clip mod2pi ?_ ?_ hnz hmod symmetric reg BS1 R BS2 W
  · intro rs s
    match rs with
    | [] => rfl
    | [p] =>
      funext i j
      simp only [applyM, leftPhase, eOf, h0]
      by_cases hip : i = p <;> simp [hip]
      cx_tac
    | _ :: _ :: _ => rfl
  · intro rs s
    match rs with
    | [] => rfl
    | [_] => rfl
    | [p, q] =>
      funext i j
      simp only [applyM, leftMix, blkBS, eOf, h0]
      by_cases hip : i = p
      · simp only [hip, if_true]; apply Cx.ext' <;> simp
      · by_cases hiq : i = q
        · have hqp : ¬ q = p := by rw [← hiq]; exact hip
          simp only [hip, hiq, hqp, if_true, if_false]; apply Cx.ext' <;> simp
        · simp [hip, hiq]
    | _ :: _ :: _ :: _ => rfl

/-- **MZ mesh** (`rectangular_symmetric`): the emitted `MZgate`s multiply to `∏ mach_zehnder(φ_i, φ_e)` followed by the
local phases — the defining product of `decompositions.rectangular_symmetric`; `half` gives the atoms of `φ_i/2` -/
theorem symmetric_defining_product (cs : A → K × K) (hf : K) (hh : hf + hf = 1) (zero : A) (clip mod2pi : A → A)
    (half : A → K × K) (hhalf : ∀ a, cs a = ((half a).1 * (half a).1 - (half a).2 * (half a).2, 2 * (half a).1 * (half a).2))
    (hunit : ∀ a, (half a).1 * (half a).1 + (half a).2 * (half a).2 = 1)
    (identity dropId : Bool) (hd : (!identity || !dropId) = true) (reg : List Nat)
    (BS1 : List (Nat × Nat × A × A)) (W : CMat K) :
    runM cs hf (interferometerCmds zero clip mod2pi identity dropId true reg BS1 [] none) W =
      prodMZ cs half (relab reg (fun a => mod2pi (clip a)) BS1) W := by
  simp only [interferometerCmds, hd, if_true, phaseCmds, List.zipIdx_nil, List.flatMap_nil, List.append_nil]
  induction BS1 generalizing W with
  | nil => rfl
  | cons e l ih =>
    obtain ⟨n, m, θ, φ⟩ := e
    simp only [List.flatMap_cons, runM_append, relab, List.map_cons, prodMZ, List.foldl_cons] at ih ⊢
    rw [← ih]
    congr 1
    simp only [bs1Cmds, if_true, runM, List.foldl_cons, List.foldl_nil, applyM]
    have := mz_block hf (half (mod2pi (clip θ))).1 (half (mod2pi (clip θ))).2 hh (hunit _) (eOf cs (mod2pi (clip φ)))
    rw [← this]
    congr 2
    simp only [eOf, hhalf (mod2pi (clip θ))]

omit [DecidableEq A] in
theorem runM_su2_blocks (cs : A → K × K) (hf : K) (zero : A) (h0 : cs zero = (1, 0))
    (hneg : ∀ a, cs (-a) = ((cs a).1, -(cs a).2)) (half : A → A) (reg : List Nat)
    (l : List ((Nat × Nat) × (A × A × A))) (hl : ∀ p ∈ l, rg reg p.1.1 ≠ rg reg p.1.2) (W : CMat K) :
    runM cs hf (l.flatMap fun p => (su2Cmds half zero reg p.1.1 p.1.2 p.2.1 p.2.2.1 p.2.2.2).reverse) W =
      prodSU2 cs half reg l W := by
  induction l generalizing W with
  | nil => rfl
  | cons p l ih =>
    simp only [List.flatMap_cons, runM_append, prodSU2, List.foldl_cons]
    rw [su2_block cs hf zero h0 hneg half reg p.1.1 p.1.2 p.2.1 p.2.2.1 p.2.2.2 (hl p (by simp)) W]
    exact ih (fun p' hp' => hl p' (by simp [hp'])) _

/-- **`sun_compact`**: the emitted circuit multiplies the SU(2) blocks of the parameter list in matrix-multiplication
order (`U = e^{iφ/n} · B₁ B₂ ⋯ B_k`: the last factor acts first), then the global phase on every mode -/
theorem sun_compact_defining_product (cs : A → K × K) (hf : K) (zero : A) (h0 : cs zero = (1, 0))
    (hneg : ∀ a, cs (-a) = ((cs a).1, -(cs a).2)) (half divn : A → A) (reg : List Nat)
    (params : List ((Nat × Nat) × (A × A × A))) (gp : Option A) (hadj : ∀ p ∈ params, p.1.2 = p.1.1 + 1)
    (hl : ∀ p ∈ params, rg reg p.1.1 ≠ rg reg p.1.2) (W : CMat K) :
    ∃ cmds, sunCompactCmds half divn zero reg params gp = some cmds ∧
      runM cs hf cmds W =
        prodPhase cs ((match gp with | some g => reg.map fun mode => (divn g, mode) | none => []).reverse)
          (prodSU2 cs half reg params.reverse W) := by
  obtain ⟨built, hb, hbuilt⟩ := sunCompact_order half divn zero reg params gp hadj
  refine ⟨_, hb, ?_⟩
  rw [hbuilt, List.reverse_append, runM_append, List.reverse_flatMap]
  have hfm : (List.reverse ∘ fun p : (Nat × Nat) × (A × A × A) => su2Cmds half zero reg p.1.1 p.1.2 p.2.1 p.2.2.1 p.2.2.2) =
      fun p => (su2Cmds half zero reg p.1.1 p.1.2 p.2.1 p.2.2.1 p.2.2.2).reverse := rfl
  rw [hfm, runM_su2_blocks cs hf zero h0 hneg half reg params.reverse (fun p hp => hl p (by simpa using hp))]
  cases gp with
  | none => rfl
  | some g =>
    have : (reg.map fun mode => (⟨.R (divn g), [mode]⟩ : MCmd A)).reverse =
        ((reg.map fun mode => (divn g, mode)).reverse).map fun qn => ⟨.R qn.1, [qn.2]⟩ := by
      simp [List.map_reverse, List.map_map, Function.comp_def]
    simp only
    rw [this, runM_phases]


/-! ### the emitted circuit as a product of Mathlib matrices, composed with C17's `reconstruct` -/
section matrices
variable {n : Nat}

/-- the embedded `T` / `Ti` block of a factor entry as a matrix -/
def matT (n : Nat) (cs : A → K × K) (e : Nat × Nat × A × A) : Matrix (Fin n) (Fin n) (Cx K) :=
  toM n (embed (blkT (cs e.2.2.1).1 (cs e.2.2.1).2 (eOf cs e.2.2.2)) e.1 e.2.1)
def matTi (n : Nat) (cs : A → K × K) (e : Nat × Nat × A × A) : Matrix (Fin n) (Fin n) (Cx K) :=
  toM n (embed (blkTi (cs e.2.2.1).1 (cs e.2.2.1).2 (eOf cs e.2.2.2)) e.1 e.2.1)
/-- the phase shifter of one local phase -/
def matP (n : Nat) (cs : A → K × K) (qn : A × Nat) : Matrix (Fin n) (Fin n) (Cx K) :=
  Matrix.diagonal (phaseVec n (eOf cs qn.1) qn.2)

/-- entries address two distinct modes of the register -/
def Inside (n : Nat) (l : List (Nat × Nat × A × A)) : Prop := ∀ e ∈ l, e.1 < n ∧ e.2.1 < n ∧ e.1 ≠ e.2.1

omit [DecidableEq A] [Neg A] in
theorem toM_prodT (cs : A → K × K) (l : List (Nat × Nat × A × A)) (hl : Inside n l) (W : CMat K) :
    toM n (prodT cs l W) = prodL ((l.map (matT n cs)).reverse) * toM n W := by
  induction l generalizing W with
  | nil => simp [prodT, prodL]
  | cons e l ih =>
    simp only [prodT, List.foldl_cons, List.map_cons, List.reverse_cons, prodL_append] at ih ⊢
    rw [ih (fun e' he' => hl e' (by simp [he']))]
    obtain ⟨h1, h2, h3⟩ := hl e (by simp)
    rw [toM_leftMix _ _ _ h1 h2 h3]
    simp [prodL, matT, mul_assoc]

omit [DecidableEq A] [Neg A] in
theorem toM_prodTi (cs : A → K × K) (l : List (Nat × Nat × A × A)) (hl : Inside n l) (W : CMat K) :
    toM n (prodTi cs l W) = prodL ((l.map (matTi n cs)).reverse) * toM n W := by
  induction l generalizing W with
  | nil => simp [prodTi, prodL]
  | cons e l ih =>
    simp only [prodTi, List.foldl_cons, List.map_cons, List.reverse_cons, prodL_append] at ih ⊢
    rw [ih (fun e' he' => hl e' (by simp [he']))]
    obtain ⟨h1, h2, h3⟩ := hl e (by simp)
    rw [toM_leftMix _ _ _ h1 h2 h3]
    simp [prodL, matTi, mul_assoc]

omit [DecidableEq A] [Neg A] in
theorem toM_prodPhase (cs : A → K × K) (l : List (A × Nat)) (W : CMat K) :
    toM n (prodPhase cs l W) = prodL ((l.map (matP n cs)).reverse) * toM n W := by
  induction l generalizing W with
  | nil => simp [prodPhase, prodL]
  | cons e l ih =>
    simp only [prodPhase, List.foldl_cons, List.map_cons, List.reverse_cons, prodL_append] at ih ⊢
    rw [ih, toM_leftPhase]
    simp [prodL, matP, mul_assoc]

omit [DecidableEq A] [Neg A] in
theorem toM_idM : toM n (idM : CMat K) = 1 := by
  ext i j
  simp [toM, idM, Matrix.one_apply, Fin.ext_iff]

/-- **the emitted Clements circuit as a matrix product**: `Ti(BS2[0]) ⋯ Ti(BS2[-1]) · P(R[-1]) ⋯ P(R[0]) · T(BS1[-1]) ⋯ T(BS1[0])`
in `Matrix (Fin n) (Fin n) (Cx K)` (targets = the register itself, angles as the source clips them) -/
theorem emitted_matrix_product (cs : A → K × K) (hf : K) (zero : A) (h0 : cs zero = (1, 0))
    (hneg : ∀ a, cs (-a) = ((cs a).1, -(cs a).2)) (clip mod2pi : A → A) (identity : Bool) (reg : List Nat)
    (BS1 : List (Nat × Nat × A × A)) (R : List (Option A)) (BS2 : List (Nat × Nat × A × A))
    (h1 : Inside n (relab reg clip BS1)) (h2 : Inside n (relab reg clip BS2)) :
    toM n (runM cs hf (interferometerCmds zero clip mod2pi identity false false reg BS1 R (some BS2)) idM) =
      prodL ((relab reg clip BS2).map (matTi n cs)) *
        prodL (((phaseList zero mod2pi reg R).map (matP n cs)).reverse) *
        prodL (((relab reg clip BS1).map (matT n cs)).reverse) := by
  have g1 : ∀ e ∈ BS1, rg reg e.1 ≠ rg reg e.2.1 := fun e he =>
    (h1 (rg reg e.1, rg reg e.2.1, clip e.2.2.1, clip e.2.2.2) (by simp only [relab, List.mem_map]; exact ⟨e, he, rfl⟩)).2.2
  have g2 : ∀ e ∈ BS2, rg reg e.1 ≠ rg reg e.2.1 := fun e he =>
    (h2 (rg reg e.1, rg reg e.2.1, clip e.2.2.1, clip e.2.2.2) (by simp only [relab, List.mem_map]; exact ⟨e, he, rfl⟩)).2.2
  rw [interferometer_defining_product cs hf zero h0 hneg clip mod2pi identity reg BS1 R BS2 g1 g2 idM]
  have h2' : Inside n (relab reg clip BS2.reverse) := by
    intro e he
    apply h2 e
    simp only [relab, List.mem_map, List.mem_reverse] at he ⊢
    exact he
  rw [toM_prodTi cs _ h2', toM_prodPhase, toM_prodT cs _ h1, toM_idM]
  simp only [relab, List.map_reverse, List.reverse_reverse, mul_one, mul_assoc]

/-- **composition with C17's `reconstruct`**: let `l` be the record of an elimination run on `U` (left factors `t`,
right factors `t'`, as `decompositions.rectangular` performs it) ending in the matrix `D`; if the returned factor lists are
that record — `BS2` lists the inverses of the left factors as `Ti` blocks, `BS1` the inverses of the right factors as `T`
blocks (in reverse order), and the local phases multiply to `D` — then the emitted circuit's unitary **is `U`**. -/
theorem interferometer_from_elimination (cs : A → K × K) (hf : K) (zero : A) (h0 : cs zero = (1, 0))
    (hneg : ∀ a, cs (-a) = ((cs a).1, -(cs a).2)) (clip mod2pi : A → A) (identity : Bool) (reg : List Nat)
    (BS1 : List (Nat × Nat × A × A)) (R : List (Option A)) (BS2 : List (Nat × Nat × A × A))
    (h1 : Inside n (relab reg clip BS1)) (h2 : Inside n (relab reg clip BS2))
    (U D : Matrix (Fin n) (Fin n) (Cx K)) (l : List (Matrix (Fin n) (Fin n) (Cx K) ⊕ Matrix (Fin n) (Fin n) (Cx K)))
    (inv : Matrix (Fin n) (Fin n) (Cx K) → Matrix (Fin n) (Fin n) (Cx K))
    (hl : ∀ t ∈ lefts l, inv t * t = 1) (hr : ∀ t ∈ rights l, t * inv t = 1) (hrun : runElim U l = D)
    (hBS2 : (lefts l).map inv = (relab reg clip BS2).map (matTi n cs))
    (hBS1 : (rights l).reverse.map inv = ((relab reg clip BS1).map (matT n cs)).reverse)
    (hD : D = prodL (((phaseList zero mod2pi reg R).map (matP n cs)).reverse)) :
    toM n (runM cs hf (interferometerCmds zero clip mod2pi identity false false reg BS1 R (some BS2)) idM) = U := by
  rw [emitted_matrix_product cs hf zero h0 hneg clip mod2pi identity reg BS1 R BS2 h1 h2]
  rw [reconstruct_eq U D l inv hl hr hrun, hBS2, hBS1, hD]

end matrices


/-! ### the compact meshes -/
section compact
variable [Add A] [Sub A]

/-- command of an item: a phase shifter is an `Rgate`, an sMZI `M(σ, δ)` is `sMZgate(σ + δ, σ − δ)` -/
def CItem.toCmd (reg : List Nat) : CItem A → MCmd A
  | .phase φ j => ⟨.R φ, [rg reg j]⟩
  | .smzi σ δ n => ⟨.sMZ (σ + δ) (σ - δ), [rg reg n, rg reg (n + 1)]⟩

omit [DecidableEq A] [Neg A] in
theorem rectCompactCmds_eq (reg : List Nat) (m : Nat) (phiIns : Nat → A) (phiEdges : Nat → Nat → A)
    (deltas sigmas : Nat → Nat → A) (phiOuts : List (Nat × A)) :
    rectCompactCmds reg m phiIns phiEdges deltas sigmas phiOuts =
      (rectCompactSpec m phiIns phiEdges deltas sigmas phiOuts).map (CItem.toCmd reg) := by
  simp only [rectCompactCmds, rectCompactSpec, List.map_append, List.map_map, List.map_flatMap]
  congr 1
  congr 1
  congr 1
  funext layer
  split <;> simp [CItem.toCmd, Function.comp_def]

omit [DecidableEq A] [Neg A] in
theorem triCompactCmds_eq (reg : List Nat) (m : Nat) (phiIns : Nat → A) (deltas sigmas : Nat → Nat → A) (zetas : Nat → A) :
    triCompactCmds reg m phiIns deltas sigmas zetas =
      (triCompactSpec m phiIns deltas sigmas zetas).map (CItem.toCmd reg) := by
  simp only [triCompactCmds, triCompactSpec, List.map_append, List.map_map, List.map_flatMap, List.map_cons]
  rfl

/-- angle addition, the link between the two internal phases of the sMZgate and `(σ, δ)` -/
def AngleAdd (cs : A → K × K) : Prop := ∀ σ δ : A,
  cs (σ + δ) = ((cs σ).1 * (cs δ).1 - (cs σ).2 * (cs δ).2, (cs σ).2 * (cs δ).1 + (cs σ).1 * (cs δ).2) ∧
  cs (σ - δ) = ((cs σ).1 * (cs δ).1 + (cs σ).2 * (cs δ).2, (cs σ).2 * (cs δ).1 - (cs σ).1 * (cs δ).2)

omit [DecidableEq A] [Neg A] in
theorem runM_items (cs : A → K × K) (hf : K) (hh : hf + hf = 1) (hadd : AngleAdd cs) (reg : List Nat)
    (l : List (CItem A)) (W : CMat K) : runM cs hf (l.map (CItem.toCmd reg)) W = runSpec cs reg l W := by
  induction l generalizing W with
  | nil => rfl
  | cons it l ih =>
    simp only [List.map_cons, runM, List.foldl_cons, runSpec] at ih ⊢
    rw [← ih]
    congr 1
    cases it with
    | phase φ j => rfl
    | smzi σ δ k =>
      simp only [CItem.toCmd, applyM]
      have := smz_block hf (cs σ).1 (cs σ).2 (cs δ).1 (cs δ).2 hh
      simp only [eOf, (hadd σ δ).1, (hadd σ δ).2]
      rw [this]

omit [DecidableEq A] [Neg A] in
/-- **`rectangular_compact`**: the unitary of the emitted circuit is the mesh's defining product of `P` and `M` blocks -/
theorem rect_compact_defining_product (cs : A → K × K) (hf : K) (hh : hf + hf = 1) (hadd : AngleAdd cs) (reg : List Nat)
    (m : Nat) (phiIns : Nat → A) (phiEdges : Nat → Nat → A) (deltas sigmas : Nat → Nat → A) (phiOuts : List (Nat × A))
    (W : CMat K) :
    runM cs hf (rectCompactCmds reg m phiIns phiEdges deltas sigmas phiOuts) W =
      runSpec cs reg (rectCompactSpec m phiIns phiEdges deltas sigmas phiOuts) W := by
  rw [rectCompactCmds_eq, runM_items cs hf hh hadd]

omit [DecidableEq A] [Neg A] in
/-- **`triangular_compact`**: likewise -/
theorem tri_compact_defining_product (cs : A → K × K) (hf : K) (hh : hf + hf = 1) (hadd : AngleAdd cs) (reg : List Nat)
    (m : Nat) (phiIns : Nat → A) (deltas sigmas : Nat → Nat → A) (zetas : Nat → A) (W : CMat K) :
    runM cs hf (triCompactCmds reg m phiIns deltas sigmas zetas) W =
      runSpec cs reg (triCompactSpec m phiIns deltas sigmas zetas) W := by
  rw [triCompactCmds_eq, runM_items cs hf hh hadd]

end compact

end SFV.Decompose
