import SFV.Model.HbarObs
import SFV.Proofs.Hbar

/-! Lemmas for part 2 of the hbar layer: weighted sums and matrix traces pull the powers of `s` out. -/
namespace SFV.Hbar
open SFV.Gauss

set_option linter.unusedSectionVars false

variable {K : Type} [Field K] [DecidableEq K] {G : Type}

/-! ### sums -/

theorem foldr_add_congr (l : List Nat) (f g : Nat → K) (h : ∀ i, f i = g i) :
    l.foldr (fun i acc => f i + acc) 0 = l.foldr (fun i acc => g i + acc) 0 := by
  induction l with
  | nil => rfl
  | cons a l ih => simp only [List.foldr_cons, ih, h a]

theorem sumR_congr (n : Nat) (f g : Nat → K) (h : ∀ i, f i = g i) : sumR n f = sumR n g :=
  foldr_add_congr _ f g h

theorem foldr_add_mul (l : List Nat) (c : K) (f : Nat → K) :
    l.foldr (fun i acc => c * f i + acc) 0 = c * l.foldr (fun i acc => f i + acc) 0 := by
  induction l with
  | nil => simp
  | cons a l ih => simp only [List.foldr_cons, ih]; ring

theorem sumR_mul_left (n : Nat) (c : K) (f : Nat → K) : sumR n (fun i => c * f i) = c * sumR n f :=
  foldr_add_mul _ c f

theorem wsumFrom_congr (k : Nat) (w : List K) (f g : Nat → K) (h : ∀ i, f i = g i) :
    wsumFrom k w f = wsumFrom k w g := by
  induction w generalizing k with
  | nil => rfl
  | cons a w ih => simp only [wsumFrom, ih, h k]

theorem wsumFrom_mul (k : Nat) (w : List K) (c : K) (f : Nat → K) :
    wsumFrom k w (fun i => c * f i) = c * wsumFrom k w f := by
  induction w generalizing k with
  | nil => simp [wsumFrom]
  | cons a w ih => simp only [wsumFrom, ih]; ring

theorem wsum_congr (w : List K) (f g : Nat → K) (h : ∀ i, f i = g i) : wsum w f = wsum w g :=
  wsumFrom_congr 0 w f g h

theorem wsum_mul (w : List K) (c : K) (f : Nat → K) : wsum w (fun i => c * f i) = c * wsum w f :=
  wsumFrom_mul 0 w c f

/-- a weighted sum whose summands are `c ×` the summands of another one -/
theorem wsum_scale (w : List K) (c : K) (f g : Nat → K) (h : ∀ i, f i = c * g i) : wsum w f = c * wsum w g := by
  rw [wsum_congr w f (fun i => c * g i) h, wsum_mul]

/-! ### bosonic state objects -/

theorem bMeanPhoton_invariant (s : K) (hs : s ≠ 0) (h2 : (2 : K) ≠ 0) (n : Nat) (w : List K) (mu2 : Nat → Nat → K)
    (cov2 : Nat → Nat → Nat → K) (m : Nat) :
    bMeanPhoton (mkBState s n w mu2 cov2) m = bMeanPhoton (mkBState 1 n w mu2 cov2) m := by
  have h11 : (1 : K) + 1 ≠ 0 := by rw [one_add_one_eq_two]; exact h2
  have hss : s * s + s * s ≠ 0 := by
    have : s * s + s * s = 2 * (s * s) := by ring
    rw [this]; exact mul_ne_zero h2 (mul_ne_zero hs hs)
  have h1111 : (1 : K) * 1 + 1 * 1 ≠ 0 := by simpa using h11
  simp only [bMeanPhoton, mkBState]
  -- the three weighted sums at `s` in terms of those at 1
  have e1 : wsum w (fun i => cov2 i (2 * m) (2 * m) * (s * s) + cov2 i (2 * m + 1) (2 * m + 1) * (s * s)
        + (mu2 i (2 * m) * s * (mu2 i (2 * m) * s) + mu2 i (2 * m + 1) * s * (mu2 i (2 * m + 1) * s)))
      = (s * s) * wsum w (fun i => cov2 i (2 * m) (2 * m) * (1 * 1) + cov2 i (2 * m + 1) (2 * m + 1) * (1 * 1)
        + (mu2 i (2 * m) * 1 * (mu2 i (2 * m) * 1) + mu2 i (2 * m + 1) * 1 * (mu2 i (2 * m + 1) * 1))) :=
    wsum_scale w (s * s) _ _ (fun i => by ring)
  have e2 : wsum w (fun i =>
        cov2 i (2 * m) (2 * m) * (s * s) * (cov2 i (2 * m) (2 * m) * (s * s))
          + cov2 i (2 * m) (2 * m + 1) * (s * s) * (cov2 i (2 * m + 1) (2 * m) * (s * s))
          + (cov2 i (2 * m + 1) (2 * m) * (s * s) * (cov2 i (2 * m) (2 * m + 1) * (s * s))
            + cov2 i (2 * m + 1) (2 * m + 1) * (s * s) * (cov2 i (2 * m + 1) (2 * m + 1) * (s * s)))
          + (1 + 1) * (mu2 i (2 * m) * s * (cov2 i (2 * m) (2 * m) * (s * s) * (mu2 i (2 * m) * s)
              + cov2 i (2 * m) (2 * m + 1) * (s * s) * (mu2 i (2 * m + 1) * s))
            + mu2 i (2 * m + 1) * s * (cov2 i (2 * m + 1) (2 * m) * (s * s) * (mu2 i (2 * m) * s)
              + cov2 i (2 * m + 1) (2 * m + 1) * (s * s) * (mu2 i (2 * m + 1) * s))))
      = (s * s * (s * s)) * wsum w (fun i =>
        cov2 i (2 * m) (2 * m) * (1 * 1) * (cov2 i (2 * m) (2 * m) * (1 * 1))
          + cov2 i (2 * m) (2 * m + 1) * (1 * 1) * (cov2 i (2 * m + 1) (2 * m) * (1 * 1))
          + (cov2 i (2 * m + 1) (2 * m) * (1 * 1) * (cov2 i (2 * m) (2 * m + 1) * (1 * 1))
            + cov2 i (2 * m + 1) (2 * m + 1) * (1 * 1) * (cov2 i (2 * m + 1) (2 * m + 1) * (1 * 1)))
          + (1 + 1) * (mu2 i (2 * m) * 1 * (cov2 i (2 * m) (2 * m) * (1 * 1) * (mu2 i (2 * m) * 1)
              + cov2 i (2 * m) (2 * m + 1) * (1 * 1) * (mu2 i (2 * m + 1) * 1))
            + mu2 i (2 * m + 1) * 1 * (cov2 i (2 * m + 1) (2 * m) * (1 * 1) * (mu2 i (2 * m) * 1)
              + cov2 i (2 * m + 1) (2 * m + 1) * (1 * 1) * (mu2 i (2 * m + 1) * 1)))) :=
    wsum_scale w (s * s * (s * s)) _ _ (fun i => by ring)
  have e3 : wsum w (fun i =>
        ((cov2 i (2 * m) (2 * m) * (s * s) + cov2 i (2 * m + 1) (2 * m + 1) * (s * s)
            + (mu2 i (2 * m) * s * (mu2 i (2 * m) * s) + mu2 i (2 * m + 1) * s * (mu2 i (2 * m + 1) * s)))
            / ((1 + 1) * (s * s + s * s)) - 1 / (1 + 1))
          * ((cov2 i (2 * m) (2 * m) * (s * s) + cov2 i (2 * m + 1) (2 * m + 1) * (s * s)
            + (mu2 i (2 * m) * s * (mu2 i (2 * m) * s) + mu2 i (2 * m + 1) * s * (mu2 i (2 * m + 1) * s)))
            / ((1 + 1) * (s * s + s * s)) - 1 / (1 + 1)))
      = wsum w (fun i =>
        ((cov2 i (2 * m) (2 * m) * (1 * 1) + cov2 i (2 * m + 1) (2 * m + 1) * (1 * 1)
            + (mu2 i (2 * m) * 1 * (mu2 i (2 * m) * 1) + mu2 i (2 * m + 1) * 1 * (mu2 i (2 * m + 1) * 1)))
            / ((1 + 1) * (1 * 1 + 1 * 1)) - 1 / (1 + 1))
          * ((cov2 i (2 * m) (2 * m) * (1 * 1) + cov2 i (2 * m + 1) (2 * m + 1) * (1 * 1)
            + (mu2 i (2 * m) * 1 * (mu2 i (2 * m) * 1) + mu2 i (2 * m + 1) * 1 * (mu2 i (2 * m + 1) * 1)))
            / ((1 + 1) * (1 * 1 + 1 * 1)) - 1 / (1 + 1))) :=
    wsum_congr w _ _ (fun i => by field_simp)
  rw [e1, e2, e3]
  refine Prod.ext ?_ ?_ <;> simp only <;> field_simp

theorem bDisplacement_invariant (s : K) (hs : s ≠ 0) (h2 : (2 : K) ≠ 0) (n : Nat) (w : List K) (mu2 : Nat → Nat → K)
    (cov2 : Nat → Nat → Nat → K) (m : Nat) :
    bDisplacement (mkBState s n w mu2 cov2) m = bDisplacement (mkBState 1 n w mu2 cov2) m := by
  have h2s := two_s_ne hs h2
  have h11 : (1 : K) + 1 ≠ 0 := by rw [one_add_one_eq_two]; exact h2
  simp only [bDisplacement, mkBState]
  rw [wsum_scale w s (fun i => mu2 i (2 * m) * s) (fun i => mu2 i (2 * m) * 1) (fun i => by ring),
    wsum_scale w s (fun i => mu2 i (2 * m + 1) * s) (fun i => mu2 i (2 * m + 1) * 1) (fun i => by ring)]
  refine Prod.ext ?_ ?_ <;> simp only <;> field_simp

theorem bQuad_scaling (s : K) (n : Nat) (w : List K) (mu2 : Nat → Nat → K) (cov2 : Nat → Nat → Nat → K) (m : Nat)
    (c sn : K) :
    bQuad (mkBState s n w mu2 cov2) m c sn
      = (s * (bQuad (mkBState 1 n w mu2 cov2) m c sn).1, s * s * (bQuad (mkBState 1 n w mu2 cov2) m c sn).2) := by
  simp only [bQuad, mkBState]
  rw [wsum_scale w s (fun i => c * (mu2 i (2 * m) * s) + sn * (mu2 i (2 * m + 1) * s))
      (fun i => c * (mu2 i (2 * m) * 1) + sn * (mu2 i (2 * m + 1) * 1)) (fun i => by ring),
    wsum_scale w (s * s)
      (fun i => c * (cov2 i (2 * m) (2 * m) * (s * s) * c + cov2 i (2 * m) (2 * m + 1) * (s * s) * sn)
        + sn * (cov2 i (2 * m + 1) (2 * m) * (s * s) * c + cov2 i (2 * m + 1) (2 * m + 1) * (s * s) * sn))
      (fun i => c * (cov2 i (2 * m) (2 * m) * (1 * 1) * c + cov2 i (2 * m) (2 * m + 1) * (1 * 1) * sn)
        + sn * (cov2 i (2 * m + 1) (2 * m) * (1 * 1) * c + cov2 i (2 * m + 1) (2 * m + 1) * (1 * 1) * sn))
      (fun i => by ring),
    wsum_scale w (s * s)
      (fun i => (c * (mu2 i (2 * m) * s) + sn * (mu2 i (2 * m + 1) * s)) * (c * (mu2 i (2 * m) * s) + sn * (mu2 i (2 * m + 1) * s)))
      (fun i => (c * (mu2 i (2 * m) * 1) + sn * (mu2 i (2 * m + 1) * 1)) * (c * (mu2 i (2 * m) * 1) + sn * (mu2 i (2 * m + 1) * 1)))
      (fun i => by ring)]
  refine Prod.ext ?_ ?_ <;> simp only <;> ring

/-! ### Fock quadrature expectation -/

theorem xphiRe_scale (s c : K) (sq : Nat → K) (dim m k : Nat) : xphiRe s c sq dim m k = s * xphiRe 1 c sq dim m k := by
  simp only [xphiRe]; ring

theorem xphiIm_scale (s sn : K) (sq : Nat → K) (dim m k : Nat) : xphiIm s sn sq dim m k = s * xphiIm 1 sn sq dim m k := by
  simp only [xphiIm]; ring

theorem mmul_scale (dim : Nat) (a b : K) (A A' B B' : Nat → Nat → K) (hA : ∀ i j, A i j = a * A' i j)
    (hB : ∀ i j, B i j = b * B' i j) (i j : Nat) : mmul dim A B i j = a * b * mmul dim A' B' i j := by
  simp only [mmul]
  rw [← sumR_mul_left]
  apply sumR_congr
  intro k; rw [hA, hB]; ring

theorem trRe_scale (D : Nat) (a : K) (AR AI AR' AI' ρr ρi : Nat → Nat → K) (hR : ∀ i j, AR i j = a * AR' i j)
    (hI : ∀ i j, AI i j = a * AI' i j) : trRe D AR AI ρr ρi = a * trRe D AR' AI' ρr ρi := by
  simp only [trRe]
  rw [← sumR_mul_left]
  apply sumR_congr
  intro m
  rw [← sumR_mul_left]
  apply sumR_congr
  intro k; rw [hR, hI]; ring

theorem fockQuad_scaling (s c sn : K) (sq : Nat → K) (D : Nat) (ρr ρi : Nat → Nat → K) :
    fockQuad s c sn sq D ρr ρi
      = (s * (fockQuad 1 c sn sq D ρr ρi).1, s * s * (fockQuad 1 c sn sq D ρr ρi).2) := by
  have hm : trRe D (xphiRe s c sq (D + 5)) (xphiIm s sn sq (D + 5)) ρr ρi
      = s * trRe D (xphiRe 1 c sq (D + 5)) (xphiIm 1 sn sq (D + 5)) ρr ρi :=
    trRe_scale D s _ _ _ _ ρr ρi (xphiRe_scale s c sq (D + 5)) (xphiIm_scale s sn sq (D + 5))
  have hsq : trRe D
        (fun i j => mmul (D + 5) (xphiRe s c sq (D + 5)) (xphiRe s c sq (D + 5)) i j
          - mmul (D + 5) (xphiIm s sn sq (D + 5)) (xphiIm s sn sq (D + 5)) i j)
        (fun i j => mmul (D + 5) (xphiRe s c sq (D + 5)) (xphiIm s sn sq (D + 5)) i j
          + mmul (D + 5) (xphiIm s sn sq (D + 5)) (xphiRe s c sq (D + 5)) i j) ρr ρi
      = (s * s) * trRe D
        (fun i j => mmul (D + 5) (xphiRe 1 c sq (D + 5)) (xphiRe 1 c sq (D + 5)) i j
          - mmul (D + 5) (xphiIm 1 sn sq (D + 5)) (xphiIm 1 sn sq (D + 5)) i j)
        (fun i j => mmul (D + 5) (xphiRe 1 c sq (D + 5)) (xphiIm 1 sn sq (D + 5)) i j
          + mmul (D + 5) (xphiIm 1 sn sq (D + 5)) (xphiRe 1 c sq (D + 5)) i j) ρr ρi := by
    apply trRe_scale
    · intro i j
      rw [mmul_scale (D + 5) s s _ _ _ _ (xphiRe_scale s c sq (D + 5)) (xphiRe_scale s c sq (D + 5)),
        mmul_scale (D + 5) s s _ _ _ _ (xphiIm_scale s sn sq (D + 5)) (xphiIm_scale s sn sq (D + 5))]
      ring
    · intro i j
      rw [mmul_scale (D + 5) s s _ _ _ _ (xphiRe_scale s c sq (D + 5)) (xphiIm_scale s sn sq (D + 5)),
        mmul_scale (D + 5) s s _ _ _ _ (xphiIm_scale s sn sq (D + 5)) (xphiRe_scale s c sq (D + 5))]
      ring
  simp only [fockQuad]
  rw [hm, hsq]
  refine Prod.ext ?_ ?_ <;> simp only <;> ring

/-! ### decomposition tail, build time vs run time -/

/-- every call compiled from the displacement tail of `Gaussian._decompose` shifts the quadrature by exactly the
entry of `r / s` that `Gaussian._apply` hands to `prepare_gaussian_state` -/
theorem compile_xgate_shift (s : K) (hs : s ≠ 0) (h2 : (2 : K) ≠ 0) (u : K) (hu : u ≠ 0) (k : Nat) :
    (compile (G := G) s (.xgate u false k)).map callShift = [some (k, u / s, 0)] := by
  have h2s := two_s_ne hs h2
  have hne : u / (s + s) ≠ 0 := div_ne_zero hu h2s
  have hsum : u / (s + s) + u / (s + s) = u / s := by
    rw [← add_div, div_eq_div_iff h2s hs]; ring
  simp [compile, gateP0, hne, callShift, hsum]

theorem compile_zgate_shift (s : K) (hs : s ≠ 0) (h2 : (2 : K) ≠ 0) (u : K) (hu : u ≠ 0) (k : Nat) :
    (compile (G := G) s (.zgate u false k)).map callShift = [some (k, 0, u / s)] := by
  have h2s := two_s_ne hs h2
  have hne : u / (s + s) ≠ 0 := div_ne_zero hu h2s
  have hsum : u / (s + s) + u / (s + s) = u / s := by
    rw [← add_div, div_eq_div_iff h2s hs]; ring
  simp [compile, gateP0, hne, callShift, hsum]

theorem compileAt_eq_compile (sb s : K) (op : FOp K G) (h : isGaussianPrep op = false) :
    compileAt sb s op = compile s op := by
  cases op <;> simp_all [compileAt, isGaussianPrep]

theorem compileAt_same (s : K) (op : FOp K G) : compileAt s s op = compile s op := by
  cases op <;> simp [compileAt, compile]

/-! ### the purity decision -/

theorem normMat_rescale (s t : K) (hs : s ≠ 0) (ht : t ≠ 0) (V : List (List K)) :
    normMat (s * t * (s * t)) (V.map fun row => row.map fun v => v * (t * t)) = normMat (s * s) V := by
  simp only [normMat, List.map_map]
  apply List.map_congr_left; intro row _
  simp only [Function.comp, List.map_map]
  apply List.map_congr_left; intro v _
  simp only [Function.comp]; field_simp

section
variable [LinearOrder K] [IsStrictOrderedRing K]

theorem pureNormalised_rescale (det : List (List K) → K) (tol s t : K) (hs : s ≠ 0) (ht : t ≠ 0) (V : List (List K)) :
    pureNormalised det tol (s * t) (V.map fun row => row.map fun v => v * (t * t)) = pureNormalised det tol s V := by
  simp only [pureNormalised, normMat_rescale s t hs ht V]

end

end SFV.Hbar
