/-! K7 lemmas: register bookkeeping, the cache state machine invariant, loop flattening, renaming. -/
import SFV.Model.Tdm
namespace SFV.Tdm

def initRefs (C : Nat) : List (Nat × Bool) := (List.range C).map fun i => (i, true)

theorem register_initRefs (C : Nat) : register (initRefs C) = List.range C := by
  simp [register, initRefs, List.filter_map, Function.comp_def, List.map_map]

theorem register_all_active (refs : List (Nat × Bool)) (h : ∀ r ∈ refs, r.2 = true) :
    register refs = refs.map (·.1) := by
  unfold register
  rw [List.filter_eq_self.mpr h]

theorem dropAdded_add (C k : Nat) :
    dropAdded (addSubsystems (initRefs C) k) k = initRefs C := by
  have hall : ∀ r ∈ addSubsystems (initRefs C) k, r.2 = true := by
    intro r hr
    simp [addSubsystems, initRefs] at hr
    rcases hr with ⟨a, _, rfl⟩ | ⟨a, _, rfl⟩ <;> rfl
  unfold dropAdded
  rw [register_all_active _ hall]
  simp only [addSubsystems, initRefs, List.map_append, List.map_map, List.length_append,
    List.length_map, List.length_range, Function.comp_def, List.map_id']
  simp only [Nat.add_sub_cancel, List.filter_append]
  have h1 : List.drop C (List.range C ++ List.map (fun x => C + x) (List.range k))
      = List.map (fun x => C + x) (List.range k) := by
    rw [List.drop_append_of_le_length (by simp)]
    simp
  rw [h1]
  have h2 : List.filter (fun r : Nat × Bool => !(r.2 && (List.map (fun x => C + x) (List.range k)).contains r.1))
      (List.map (fun i => (i, true)) (List.range C)) = List.map (fun i => (i, true)) (List.range C) := by
    rw [List.filter_eq_self]
    intro r hr
    simp at hr
    rcases hr with ⟨a, ha, rfl⟩
    simp
    intro x _ ; omega
  have h3 : List.filter (fun r : Nat × Bool => !(r.2 && (List.map (fun x => C + x) (List.range k)).contains r.1))
      (List.map (fun i => (C + i, true)) (List.range k)) = [] := by
    rw [List.filter_eq_nil_iff]
    intro r hr
    simp at hr
    rcases hr with ⟨a, ha, rfl⟩
    simp
    exact ha
  rw [h2, h3]; simp

/-! ### the cache state machine: invariant over all call histories -/

/-- the three forms a program can be in, in terms of the anchored attributes -/
structure Inv (cfg : Cfg) (prog : List TCmd) (s : St) : Prop where
  rolled : s.rolled = prog
  form :
    -- rolled
    (s.unrolled = none ∧ s.spaceUnrolled = none ∧ s.circuit = prog ∧ s.shots = none ∧
      s.numAdded ≤ 0 ∧ s.initNum = cfg.concurr ∧ s.regRefs = initRefs cfg.concurr) ∨
    -- unrolled with register shift
    ((∃ c, s.unrolled = some c) ∧ s.spaceUnrolled = none ∧
      s.numAdded ≤ 0 ∧ s.initNum = cfg.concurr ∧ s.regRefs = initRefs cfg.concurr) ∨
    -- space-unrolled
    ((∃ c, s.spaceUnrolled = some c) ∧ s.unrolled = none ∧
      ((0 < s.numAdded ∧ s.initNum = cfg.concurr + s.numAdded ∧
          s.regRefs = addSubsystems (initRefs cfg.concurr) s.numAdded.toNat) ∨
       (s.numAdded ≤ 0 ∧ s.initNum = cfg.concurr ∧ s.regRefs = initRefs cfg.concurr)))

/-- what `roll` returns from any state satisfying the invariant: the rolled form -/
structure IsRolled (cfg : Cfg) (prog : List TCmd) (s : St) : Prop where
  circuit : s.circuit = prog
  rolled : s.rolled = prog
  unrolled : s.unrolled = none
  spaceUnrolled : s.spaceUnrolled = none
  shots : s.shots = none
  numAdded : s.numAdded ≤ 0
  initNum : s.initNum = cfg.concurr
  regRefs : s.regRefs = initRefs cfg.concurr

theorem inv_init (cfg : Cfg) (prog : List TCmd) : Inv cfg prog (St.init cfg prog) :=
  ⟨rfl, Or.inl ⟨rfl, rfl, rfl, rfl, Int.le_refl 0, rfl, rfl⟩⟩

theorem IsRolled.inv {cfg : Cfg} {prog : List TCmd} {s : St} (h : IsRolled cfg prog s) : Inv cfg prog s :=
  ⟨h.rolled, Or.inl ⟨h.unrolled, h.spaceUnrolled, h.circuit, h.shots, h.numAdded, h.initNum, h.regRefs⟩⟩

theorem roll_isRolled {cfg : Cfg} {prog : List TCmd} {s : St} (h : Inv cfg prog s) :
    IsRolled cfg prog s.roll ∧ s.roll.locked = s.locked := by
  obtain ⟨hr, hf⟩ := h
  rcases hf with ⟨h1, h2, h3, h4, h5, h6, h7⟩ | ⟨⟨c, h1⟩, h2, h5, h6, h7⟩ | ⟨⟨c, h1⟩, h2, h3⟩
  · have : s.roll = s := by simp [St.roll, St.isUnrolled, h1, h2]
    rw [this]; exact ⟨⟨h3, hr, h1, h2, h4, h5, h6, h7⟩, rfl⟩
  · refine ⟨⟨?_, ?_, ?_, ?_, ?_, ?_, ?_, ?_⟩, ?_⟩ <;>
      simp [St.roll, St.isUnrolled, h1, h2, hr, h5, h6, h7]
  · rcases h3 with ⟨hp, hi, hrefs⟩ | ⟨hp, hi, hrefs⟩
    · refine ⟨⟨?_, ?_, ?_, ?_, ?_, ?_, ?_, ?_⟩, ?_⟩ <;>
        simp [St.roll, St.isUnrolled, h1, h2, hr, hp, hi, hrefs, dropAdded_add]
    · have hn : ¬ (0 < s.numAdded) := by omega
      refine ⟨⟨?_, ?_, ?_, ?_, ?_, ?_, ?_, ?_⟩, ?_⟩ <;>
        simp [St.roll, St.isUnrolled, h1, h2, hr, hn, hi, hrefs, hp]

theorem Inv.congr_locked {cfg : Cfg} {prog : List TCmd} {s : St} (h : Inv cfg prog s) (b : Bool) :
    Inv cfg prog { s with locked := b } := ⟨h.rolled, h.form⟩

theorem build_shift_inv {cfg : Cfg} {prog : List TCmd} {s : St} (h : IsRolled cfg prog s) (k : Nat) :
    Inv cfg prog (({ s with shots := some k }).build cfg k false) ∧
    (({ s with shots := some k }).build cfg k false).locked = s.locked := by
  refine ⟨⟨?_, Or.inr (Or.inl ⟨⟨unrollProgram cfg false s.circuit k (register s.regRefs), ?_⟩,
    ?_, ?_, ?_, ?_⟩)⟩, ?_⟩ <;>
    simp [St.build, h.circuit, h.spaceUnrolled, h.numAdded, h.initNum, h.regRefs]

theorem unroll_inv {cfg : Cfg} {prog : List TCmd} {s : St} (h : Inv cfg prog s) (k : Nat) :
    Inv cfg prog (s.unroll cfg k).1 ∧ (s.unroll cfg k).1.locked = s.locked := by
  have hroll := roll_isRolled h
  obtain ⟨hr, hf⟩ := h
  rcases hf with ⟨h1, h2, h3, h4, h5, h6, h7⟩ | ⟨⟨c, h1⟩, h2, h5, h6, h7⟩ | ⟨⟨c, h1⟩, h2, h3⟩
  · have hs : IsRolled cfg prog s := ⟨h3, hr, h1, h2, h4, h5, h6, h7⟩
    have := build_shift_inv hs k
    simpa [St.unroll, h1, h2] using this
  · by_cases hk : s.shots = some k
    · refine ⟨⟨?_, Or.inr (Or.inl ⟨⟨c, ?_⟩, ?_, ?_, ?_, ?_⟩)⟩, ?_⟩ <;>
        simp [St.unroll, h1, hk, hr, h2, h5, h6, h7]
    · have := build_shift_inv hroll.1 k
      simp only [St.unroll, h1, hk, if_false]
      exact ⟨this.1, this.2.trans hroll.2⟩
  · have : (s.unroll cfg k).1 = s := by simp [St.unroll, h1, h2]
    rw [this]
    exact ⟨⟨hr, Or.inr (Or.inr ⟨⟨c, h1⟩, h2, h3⟩)⟩, rfl⟩

theorem spaceFresh_inv {cfg : Cfg} {prog : List TCmd} {s : St} (h : IsRolled cfg prog s) (k : Nat) :
    Inv cfg prog (St.spaceFresh cfg s k) ∧ (St.spaceFresh cfg s k).locked = s.locked := by
  by_cases hp : 0 < (cfg.timebins : Int) - (cfg.concurr : Int) + ((cfg.concurr : Int) - 1)
  · refine ⟨⟨?_, Or.inr (Or.inr ⟨⟨(St.spaceFresh cfg s k).circuit, ?_⟩, ?_, Or.inl ⟨?_, ?_, ?_⟩⟩)⟩, ?_⟩ <;>
      simp [St.spaceFresh, St.build, h.circuit, h.unrolled, h.initNum, h.regRefs, hp]
  · refine ⟨⟨?_, Or.inr (Or.inr ⟨⟨(St.spaceFresh cfg s k).circuit, ?_⟩, ?_, Or.inr ⟨?_, ?_, ?_⟩⟩)⟩, ?_⟩ <;>
      simp [St.spaceFresh, St.build, h.circuit, h.unrolled, h.initNum, h.regRefs, hp]
    omega

theorem spaceUnroll_inv {cfg : Cfg} {prog : List TCmd} {s : St} (h : Inv cfg prog s) (k : Nat) :
    Inv cfg prog (s.spaceUnroll cfg k) ∧ (s.spaceUnroll cfg k).locked = s.locked := by
  have hroll := roll_isRolled h
  have hfresh := spaceFresh_inv hroll.1 k
  cases hsp : s.spaceUnrolled with
  | none =>
    simp only [St.spaceUnroll, hsp]
    exact ⟨hfresh.1, hfresh.2.trans hroll.2⟩
  | some c =>
    by_cases hk : s.shots = some k
    · obtain ⟨hr, hf⟩ := h
      rcases hf with ⟨_, h2, _⟩ | ⟨_, h2, _⟩ | ⟨_, h2, h3⟩
      · simp [hsp] at h2
      · simp [hsp] at h2
      · refine ⟨⟨?_, Or.inr (Or.inr ⟨⟨c, ?_⟩, ?_, ?_⟩)⟩, ?_⟩ <;>
          simp [St.spaceUnroll, hsp, hk, hr, h2]
        exact h3
    · simp only [St.spaceUnroll, hsp, hk, if_false]
      exact ⟨hfresh.1, hfresh.2.trans hroll.2⟩

/-- seen from the caller's program, a run only locks it: the register shared with the engine's
working copy comes back as it was -/
theorem run_state {cfg : Cfg} {prog : List TCmd} {s : St} (h : Inv cfg prog s)
    (sh : Option Nat) (sp cr : Bool) : (s.run cfg sh sp cr).1 = { s with locked := true } := by
  have h' : Inv cfg prog { s with locked := true } := h.congr_locked true
  have key : ∀ p : St, p.regRefs = s.regRefs →
      ({ ({ s with locked := true } : St) with regRefs := p.regRefs } : St) = { s with locked := true } := by
    intro p hp; rw [hp]
  obtain ⟨hr, hf⟩ := h
  simp only [St.run]
  apply key
  cases sp with
  | true =>
    cases hsp : s.spaceUnrolled with
    | some c => simp
    | none =>
      have hreg : s.regRefs = initRefs cfg.concurr := by
        rcases hf with ⟨_, _, _, _, _, _, h7⟩ | ⟨_, _, _, _, h7⟩ | ⟨⟨c, h1⟩, _⟩
        · exact h7
        · exact h7
        · simp [hsp] at h1
      have := (roll_isRolled (spaceUnroll_inv h' (match sh with | some 0 => 1 | some k => k | none => 1)).1).1.regRefs
      rw [hsp] at this
      simp only [Option.isNone_none, if_true]
      exact this.trans hreg.symm
  | false =>
    by_cases hu : s.isUnrolled = true
    · have hu' : ({ s with locked := true } : St).isUnrolled = true := hu
      simp [hu']
    · have hreg : s.regRefs = initRefs cfg.concurr := by
        rcases hf with ⟨_, _, _, _, _, _, h7⟩ | ⟨⟨c, h1⟩, _⟩ | ⟨⟨c, h1⟩, _⟩
        · exact h7
        · simp [St.isUnrolled, h1] at hu
        · simp [St.isUnrolled, h1] at hu
      have := (roll_isRolled (unroll_inv h' (match sh with | some 0 => 1 | some k => k | none => 1)).1).1.regRefs
      have hu0 : s.isUnrolled = false := by simpa using hu
      have hu' : ({ s with locked := true } : St).isUnrolled = false := hu0
      simp only [hu', Bool.not_false, if_true, Bool.false_eq_true, if_false]
      exact this.trans hreg.symm

theorem step_inv {cfg : Cfg} {prog : List TCmd} {s : St} (h : Inv cfg prog s) (e : Ev) :
    Inv cfg prog (s.step cfg e) := by
  cases e with
  | unroll k => exact (unroll_inv h k).1
  | spaceUnroll k => exact (spaceUnroll_inv h k).1
  | roll => exact (roll_isRolled h).1.inv
  | run sh sp cr => simp only [St.step]; rw [run_state h]; exact h.congr_locked true
  | lock => exact h.congr_locked true

theorem steps_inv {cfg : Cfg} {prog : List TCmd} (evs : List Ev) {s : St} (h : Inv cfg prog s) :
    Inv cfg prog (s.steps cfg evs) := by
  induction evs generalizing s with
  | nil => exact h
  | cons e es ih => exact ih (step_inv h e)

/-- the lock is only ever set by `lock` and `run`, never by (un)rolling -/
theorem step_locked {cfg : Cfg} {prog : List TCmd} {s : St} (h : Inv cfg prog s) (e : Ev) :
    (s.step cfg e).locked = (s.locked || match e with | .lock => true | .run _ _ _ => true | _ => false) := by
  cases e with
  | unroll k => simpa [St.step] using (unroll_inv h k).2
  | spaceUnroll k => simpa [St.step] using (spaceUnroll_inv h k).2
  | roll => simpa [St.step] using (roll_isRolled h).2
  | run sh sp cr => simp only [St.step]; rw [run_state h]; simp
  | lock => simp [St.step]
end SFV.Tdm
