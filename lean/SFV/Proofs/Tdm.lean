import SFV.Model.Tdm
/-! K7 lemmas: register bookkeeping, the cache state machine invariant over all call histories,
loop flattening, permutation / rotation facts about the register shift. -/
namespace SFV.Tdm

def initRefs (C : Nat) : List (Nat × Bool) := (List.range C).map fun i => (i, true)

theorem register_initRefs (C : Nat) : register (initRefs C) = List.range C := by
  simp [register, initRefs, List.filter_map, Function.comp_def, List.map_map]

theorem register_all_active (refs : List (Nat × Bool)) (h : ∀ r ∈ refs, r.2 = true) :
    register refs = refs.map (·.1) := by
  unfold register
  rw [List.filter_eq_self.mpr h]

theorem dropAdded_add (C k : Nat) :
    dropAdded (addSubsystems (initRefs C) k) k = initRefs C := by
  have hall : ∀ r ∈ addSubsystems (initRefs C) k, r.2 = true := by
    intro r hr
    simp [addSubsystems, initRefs] at hr
    rcases hr with ⟨a, _, rfl⟩ | ⟨a, _, rfl⟩ <;> rfl
  unfold dropAdded
  rw [register_all_active _ hall]
  simp only [addSubsystems, initRefs, List.map_append, List.map_map, List.length_append,
    List.length_map, List.length_range, Function.comp_def, List.map_id']
  simp only [Nat.add_sub_cancel, List.filter_append]
  have h1 : List.drop C (List.range C ++ List.map (fun x => C + x) (List.range k))
      = List.map (fun x => C + x) (List.range k) := by
    rw [List.drop_append_of_le_length (by simp)]
    simp
  rw [h1]
  have h2 : List.filter (fun r : Nat × Bool => !(r.2 && (List.map (fun x => C + x) (List.range k)).contains r.1))
      (List.map (fun i => (i, true)) (List.range C)) = List.map (fun i => (i, true)) (List.range C) := by
    rw [List.filter_eq_self]
    intro r hr
    simp at hr
    rcases hr with ⟨a, ha, rfl⟩
    simp
    intro x _ ; omega
  have h3 : List.filter (fun r : Nat × Bool => !(r.2 && (List.map (fun x => C + x) (List.range k)).contains r.1))
      (List.map (fun i => (C + i, true)) (List.range k)) = [] := by
    rw [List.filter_eq_nil_iff]
    intro r hr
    simp at hr
    rcases hr with ⟨a, ha, rfl⟩
    simp
    exact ha
  rw [h2, h3]; simp

/-! ### the cache state machine: invariant over all call histories -/

/-- the three forms a program can be in, in terms of the anchored attributes -/
structure Inv (cfg : Cfg) (prog : List TCmd) (s : St) : Prop where
  rolled : s.rolled = prog
  form :
    -- rolled
    (s.unrolled = none ∧ s.spaceUnrolled = none ∧ s.circuit = prog ∧ s.shots = none ∧
      s.numAdded ≤ 0 ∧ s.initNum = cfg.concurr ∧ s.regRefs = initRefs cfg.concurr) ∨
    -- unrolled with register shift
    ((∃ c, s.unrolled = some c) ∧ s.spaceUnrolled = none ∧
      s.numAdded ≤ 0 ∧ s.initNum = cfg.concurr ∧ s.regRefs = initRefs cfg.concurr) ∨
    -- space-unrolled
    ((∃ c, s.spaceUnrolled = some c) ∧ s.unrolled = none ∧
      ((0 < s.numAdded ∧ s.initNum = cfg.concurr + s.numAdded ∧
          s.regRefs = addSubsystems (initRefs cfg.concurr) s.numAdded.toNat) ∨
       (s.numAdded ≤ 0 ∧ s.initNum = cfg.concurr ∧ s.regRefs = initRefs cfg.concurr)))

/-- what `roll` returns from any state satisfying the invariant: the rolled form -/
structure IsRolled (cfg : Cfg) (prog : List TCmd) (s : St) : Prop where
  circuit : s.circuit = prog
  rolled : s.rolled = prog
  unrolled : s.unrolled = none
  spaceUnrolled : s.spaceUnrolled = none
  shots : s.shots = none
  numAdded : s.numAdded ≤ 0
  initNum : s.initNum = cfg.concurr
  regRefs : s.regRefs = initRefs cfg.concurr

theorem inv_init (cfg : Cfg) (prog : List TCmd) : Inv cfg prog (St.init cfg prog) :=
  ⟨rfl, Or.inl ⟨rfl, rfl, rfl, rfl, Int.le_refl 0, rfl, rfl⟩⟩

theorem IsRolled.inv {cfg : Cfg} {prog : List TCmd} {s : St} (h : IsRolled cfg prog s) : Inv cfg prog s :=
  ⟨h.rolled, Or.inl ⟨h.unrolled, h.spaceUnrolled, h.circuit, h.shots, h.numAdded, h.initNum, h.regRefs⟩⟩

theorem roll_isRolled {cfg : Cfg} {prog : List TCmd} {s : St} (h : Inv cfg prog s) :
    IsRolled cfg prog s.roll ∧ s.roll.locked = s.locked := by
  obtain ⟨hr, hf⟩ := h
  rcases hf with ⟨h1, h2, h3, h4, h5, h6, h7⟩ | ⟨⟨c, h1⟩, h2, h5, h6, h7⟩ | ⟨⟨c, h1⟩, h2, h3⟩
  · have : s.roll = s := by simp [St.roll, St.isUnrolled, h1, h2]
    rw [this]; exact ⟨⟨h3, hr, h1, h2, h4, h5, h6, h7⟩, rfl⟩
  · refine ⟨⟨?_, ?_, ?_, ?_, ?_, ?_, ?_, ?_⟩, ?_⟩ <;>
      simp [St.roll, St.isUnrolled, h1, h2, hr, h5, h6, h7]
  · rcases h3 with ⟨hp, hi, hrefs⟩ | ⟨hp, hi, hrefs⟩
    · refine ⟨⟨?_, ?_, ?_, ?_, ?_, ?_, ?_, ?_⟩, ?_⟩ <;>
        simp [St.roll, St.isUnrolled, h1, h2, hr, hp, hi, hrefs, dropAdded_add]
    · have hn : ¬ (0 < s.numAdded) := by omega
      refine ⟨⟨?_, ?_, ?_, ?_, ?_, ?_, ?_, ?_⟩, ?_⟩ <;>
        simp [St.roll, St.isUnrolled, h1, h2, hr, hn, hi, hrefs, hp]

theorem Inv.congr_locked {cfg : Cfg} {prog : List TCmd} {s : St} (h : Inv cfg prog s) (b : Bool) :
    Inv cfg prog { s with locked := b } := ⟨h.rolled, h.form⟩

theorem build_shift_inv {cfg : Cfg} {prog : List TCmd} {s : St} (h : IsRolled cfg prog s) (k : Nat) :
    Inv cfg prog (({ s with shots := some k }).build cfg k false) ∧
    (({ s with shots := some k }).build cfg k false).locked = s.locked := by
  refine ⟨⟨?_, Or.inr (Or.inl ⟨⟨unrollProgram cfg false s.circuit k (register s.regRefs), ?_⟩,
    ?_, ?_, ?_, ?_⟩)⟩, ?_⟩ <;>
    simp [St.build, h.circuit, h.spaceUnrolled, h.numAdded, h.initNum, h.regRefs]

theorem unroll_inv {cfg : Cfg} {prog : List TCmd} {s : St} (h : Inv cfg prog s) (k : Nat) :
    Inv cfg prog (s.unroll cfg k).1 ∧ (s.unroll cfg k).1.locked = s.locked := by
  have hroll := roll_isRolled h
  obtain ⟨hr, hf⟩ := h
  rcases hf with ⟨h1, h2, h3, h4, h5, h6, h7⟩ | ⟨⟨c, h1⟩, h2, h5, h6, h7⟩ | ⟨⟨c, h1⟩, h2, h3⟩
  · have hs : IsRolled cfg prog s := ⟨h3, hr, h1, h2, h4, h5, h6, h7⟩
    have := build_shift_inv hs k
    simpa [St.unroll, h1, h2] using this
  · by_cases hk : s.shots = some k
    · refine ⟨⟨?_, Or.inr (Or.inl ⟨⟨c, ?_⟩, ?_, ?_, ?_, ?_⟩)⟩, ?_⟩ <;>
        simp [St.unroll, h1, hk, hr, h2, h5, h6, h7]
    · have := build_shift_inv hroll.1 k
      simp only [St.unroll, h1, hk, if_false]
      exact ⟨this.1, this.2.trans hroll.2⟩
  · have : (s.unroll cfg k).1 = s := by simp [St.unroll, h1, h2]
    rw [this]
    exact ⟨⟨hr, Or.inr (Or.inr ⟨⟨c, h1⟩, h2, h3⟩)⟩, rfl⟩

theorem spaceFresh_inv {cfg : Cfg} {prog : List TCmd} {s : St} (h : IsRolled cfg prog s) (k : Nat) :
    Inv cfg prog (St.spaceFresh cfg s k) ∧ (St.spaceFresh cfg s k).locked = s.locked := by
  by_cases hp : 0 < (k : Int) * (cfg.timebins : Int) - (cfg.concurr : Int) + ((cfg.concurr : Int) - 1)
  · refine ⟨⟨?_, Or.inr (Or.inr ⟨⟨(St.spaceFresh cfg s k).circuit, ?_⟩, ?_, Or.inl ⟨?_, ?_, ?_⟩⟩)⟩, ?_⟩ <;>
      simp [St.spaceFresh, St.build, h.circuit, h.unrolled, h.initNum, h.regRefs, hp]
  · refine ⟨⟨?_, Or.inr (Or.inr ⟨⟨(St.spaceFresh cfg s k).circuit, ?_⟩, ?_, Or.inr ⟨?_, ?_, ?_⟩⟩)⟩, ?_⟩ <;>
      simp [St.spaceFresh, St.build, h.circuit, h.unrolled, h.initNum, h.regRefs, hp]
    omega

theorem spaceUnroll_inv {cfg : Cfg} {prog : List TCmd} {s : St} (h : Inv cfg prog s) (k : Nat) :
    Inv cfg prog (s.spaceUnroll cfg k) ∧ (s.spaceUnroll cfg k).locked = s.locked := by
  have hroll := roll_isRolled h
  have hfresh := spaceFresh_inv hroll.1 k
  cases hsp : s.spaceUnrolled with
  | none =>
    simp only [St.spaceUnroll, hsp]
    exact ⟨hfresh.1, hfresh.2.trans hroll.2⟩
  | some c =>
    by_cases hk : s.shots = some k
    · obtain ⟨hr, hf⟩ := h
      rcases hf with ⟨_, h2, _⟩ | ⟨_, h2, _⟩ | ⟨_, h2, h3⟩
      · simp [hsp] at h2
      · simp [hsp] at h2
      · refine ⟨⟨?_, Or.inr (Or.inr ⟨⟨c, ?_⟩, ?_, ?_⟩)⟩, ?_⟩ <;>
          simp [St.spaceUnroll, hsp, hk, hr, h2]
        exact h3
    · simp only [St.spaceUnroll, hsp, hk, if_false]
      exact ⟨hfresh.1, hfresh.2.trans hroll.2⟩

/-- seen from the caller's program, a run only locks it: the register shared with the engine's
working copy comes back as it was -/
theorem run_state {cfg : Cfg} {prog : List TCmd} {s : St} (h : Inv cfg prog s)
    (sh : Option Nat) (sp cr : Bool) : (s.run cfg sh sp cr).1 = { s with locked := true } := by
  have h' : Inv cfg prog { s with locked := true } := h.congr_locked true
  have key : ∀ p : St, p.regRefs = s.regRefs →
      ({ ({ s with locked := true } : St) with regRefs := p.regRefs } : St) = { s with locked := true } := by
    intro p hp; rw [hp]
  obtain ⟨hr, hf⟩ := h
  simp only [St.run]
  apply key
  cases sp with
  | true =>
    cases hsp : s.spaceUnrolled with
    | some c => simp
    | none =>
      have hreg : s.regRefs = initRefs cfg.concurr := by
        rcases hf with ⟨_, _, _, _, _, _, h7⟩ | ⟨_, _, _, _, h7⟩ | ⟨⟨c, h1⟩, _⟩
        · exact h7
        · exact h7
        · simp [hsp] at h1
      have := (roll_isRolled (spaceUnroll_inv h' (match sh with | some 0 => 1 | some k => k | none => 1)).1).1.regRefs
      rw [hsp] at this
      simp only [Option.isNone_none, if_true]
      exact this.trans hreg.symm
  | false =>
    by_cases hu : s.isUnrolled = true
    · have hu' : ({ s with locked := true } : St).isUnrolled = true := hu
      simp [hu']
    · have hreg : s.regRefs = initRefs cfg.concurr := by
        rcases hf with ⟨_, _, _, _, _, _, h7⟩ | ⟨⟨c, h1⟩, _⟩ | ⟨⟨c, h1⟩, _⟩
        · exact h7
        · simp [St.isUnrolled, h1] at hu
        · simp [St.isUnrolled, h1] at hu
      have := (roll_isRolled (unroll_inv h' (match sh with | some 0 => 1 | some k => k | none => 1)).1).1.regRefs
      have hu0 : s.isUnrolled = false := by simpa using hu
      have hu' : ({ s with locked := true } : St).isUnrolled = false := hu0
      simp only [hu', Bool.not_false, if_true, Bool.false_eq_true, if_false]
      exact this.trans hreg.symm

theorem step_inv {cfg : Cfg} {prog : List TCmd} {s : St} (h : Inv cfg prog s) (e : Ev) :
    Inv cfg prog (s.step cfg e) := by
  cases e with
  | unroll k => exact (unroll_inv h k).1
  | spaceUnroll k => exact (spaceUnroll_inv h k).1
  | roll => exact (roll_isRolled h).1.inv
  | run sh sp cr => simp only [St.step]; rw [run_state h]; exact h.congr_locked true
  | lock => exact h.congr_locked true

theorem steps_inv {cfg : Cfg} {prog : List TCmd} (evs : List Ev) {s : St} (h : Inv cfg prog s) :
    Inv cfg prog (s.steps cfg evs) := by
  induction evs generalizing s with
  | nil => exact h
  | cons e es ih => exact ih (step_inv h e)

/-- the lock is only ever set by `lock` and `run`, never by (un)rolling -/
theorem step_locked {cfg : Cfg} {prog : List TCmd} {s : St} (h : Inv cfg prog s) (e : Ev) :
    (s.step cfg e).locked = (s.locked || match e with | .lock => true | .run _ _ _ => true | _ => false) := by
  cases e with
  | unroll k => simpa [St.step] using (unroll_inv h k).2
  | spaceUnroll k => simpa [St.step] using (spaceUnroll_inv h k).2
  | roll => simpa [St.step] using (roll_isRolled h).2
  | run sh sp cr => simp only [St.step]; rw [run_state h]; simp
  | lock => simp [St.step]

/-- the register at global bin `g`: `g` shifts applied -/
def regAt (cfg : Cfg) (space : Bool) : Nat → List Nat → List Nat
  | 0, q => q
  | g + 1, q => regAt cfg space g (shiftStep cfg space q)

theorem regAt_add (cfg : Cfg) (space : Bool) (a b : Nat) (q : List Nat) :
    regAt cfg space (a + b) q = regAt cfg space b (regAt cfg space a q) := by
  induction a generalizing q with
  | zero => simp [regAt]
  | succ a ih => rw [Nat.succ_add]; simp [regAt, ih]

theorem flatMap_congr' {α β : Type} {l : List α} {f g : α → List β} (h : ∀ a ∈ l, f a = g a) :
    l.flatMap f = l.flatMap g := by
  induction l with
  | nil => rfl
  | cons a l ih =>
    simp only [List.flatMap_cons]
    rw [h a (by simp), ih (fun b hb => h b (by simp [hb]))]

/-- the commands of one bin when nothing is filtered -/
def binCmds (cfg : Cfg) (rolled : List TCmd) (q : List Nat) (t : Nat) : List TCmd :=
  rolled.map fun c => applyOp cfg c (getModes q c) t

theorem binStep_shift (cfg : Cfg) (q : List Nat) (t : Nat) (rolled : List TCmd) (prev : List Nat)
    (h : prev.length = rolled.length) :
    (binStep cfg false q t rolled prev).1 = binCmds cfg rolled q t ∧
    (binStep cfg false q t rolled prev).2.length = rolled.length := by
  induction rolled generalizing prev with
  | nil => simp [binStep, binCmds]
  | cons c cs ih =>
    cases prev with
    | nil => simp at h
    | cons p ps =>
      have := ih ps (by simpa using h)
      simp only [binStep, binCmds] at this ⊢
      simp [List.zipWith, stepCmd, this.1]
      have h' : ps.length = cs.length := by simpa using h
      omega

theorem binsLoop_shift (cfg : Cfg) (rolled : List TCmd) (ts : List Nat) (q prev : List Nat)
    (h : prev.length = rolled.length) :
    (binsLoop cfg false rolled ts q prev).1 =
      (List.range ts.length).flatMap (fun j => binCmds cfg rolled (regAt cfg false j q) (ts.getD j 0)) ∧
    (binsLoop cfg false rolled ts q prev).2 = regAt cfg false ts.length q := by
  induction ts generalizing q prev with
  | nil => simp [binsLoop, regAt]
  | cons t ts ih =>
    have hb := binStep_shift cfg q t rolled prev h
    have := ih (shiftStep cfg false q) (binStep cfg false q t rolled prev).2 hb.2
    simp only [binsLoop, List.length_cons, regAt]
    rw [this.1, this.2, hb.1, List.range_succ_eq_map, List.flatMap_cons, List.flatMap_map]
    simp [regAt]

theorem shotsLoop_shift (cfg : Cfg) (rolled : List TCmd) (shots : Nat) (q : List Nat) :
    shotsLoop cfg false rolled shots q =
      (List.range shots).flatMap fun s => (List.range cfg.timebins).flatMap fun i =>
        binCmds cfg rolled (regAt cfg false (s * cfg.timebins + i) q) i := by
  induction shots generalizing q with
  | zero => simp [shotsLoop]
  | succ n ih =>
    have hb := binsLoop_shift cfg rolled (List.range cfg.timebins) q (rolled.map fun _ => 0) (by simp)
    simp only [shotsLoop]
    rw [hb.1, hb.2, ih, List.range_succ_eq_map, List.flatMap_cons, List.flatMap_map]
    congr 1
    · rw [List.length_range]
      apply flatMap_congr'
      intro j hj
      simp at hj
      simp [hj]
    · apply flatMap_congr'
      intro s _
      apply flatMap_congr'
      intro i _
      simp only [List.length_range]
      rw [← regAt_add]
      congr 2
      rw [Nat.succ_mul]; omega
theorem shiftBy_perm {α : Type} (l : List α) (n : Int) : (shiftBy l n).Perm l := by
  unfold shiftBy
  exact (List.perm_append_comm).trans (by rw [List.take_append_drop])

theorem shiftBandsFrom_perm {α : Type} (s : Nat) (N : List Nat) (q : List α) :
    (shiftBandsFrom s N q).Perm q := by
  induction N generalizing s q with
  | nil => exact List.Perm.refl _
  | cons n ns ih =>
    simp only [shiftBandsFrom]
    refine (ih _ _).trans ?_
    have h1 : (q.take s ++ shiftBy ((q.drop s).take n) 1 ++ q.drop (s + n)).Perm
        (q.take s ++ (q.drop s).take n ++ q.drop (s + n)) :=
      ((List.Perm.refl _).append (shiftBy_perm _ _)).append (List.Perm.refl _)
    refine h1.trans ?_
    have : q.take s ++ (q.drop s).take n ++ q.drop (s + n) = q := by
      rw [List.append_assoc, ← List.drop_drop, List.take_append_drop, List.take_append_drop]
    rw [this]

theorem shiftStep_perm (cfg : Cfg) (space : Bool) (q : List Nat) : (shiftStep cfg space q).Perm q := by
  unfold shiftStep
  split
  · exact shiftBy_perm _ _
  · split
    · exact shiftBandsFrom_perm _ _ _
    · exact shiftBy_perm _ _
    · exact List.Perm.refl _

/-- at every bin the register is a rearrangement of the initial register: slot ↦ subsystem is a bijection -/
theorem regAt_perm (cfg : Cfg) (space : Bool) (g : Nat) (q : List Nat) : (regAt cfg space g q).Perm q := by
  induction g generalizing q with
  | zero => exact List.Perm.refl _
  | succ g ih => exact (ih _).trans (shiftStep_perm cfg space q)

/-- renaming the subsystems of a bin's command by "slot currently holding it" gives back the slots -/
theorem getModes_idxOf (q : List Nat) (hq : q.Nodup) (c : TCmd) (hc : ∀ j ∈ c.regs, j < q.length) :
    (getModes q c).map (fun m => q.idxOf m) = c.regs := by
  unfold getModes
  rw [List.map_map]
  conv => rhs; rw [← List.map_id c.regs]
  apply List.map_congr_left
  intro j hj
  have hlt := hc j hj
  simp only [Function.comp, id]
  have : q.getD j 0 = q[j] := by simp [List.getD_eq_getElem?_getD, hlt]
  rw [this]
  exact List.Nodup.idxOf_getElem hq j hlt

/-- rotation by one step: slot `j` receives what slot `j+1` held, the last slot what slot 0 held -/
theorem shiftBy_one_getD (q : List Nat) (j : Nat) (h : j + 1 < q.length) :
    (shiftBy q 1).getD j 0 = q.getD (j + 1) 0 := by
  have hc : pyCut q.length 1 = 1 := by simp [pyCut]; omega
  simp only [shiftBy, hc]
  rw [List.getD_eq_getElem?_getD, List.getD_eq_getElem?_getD, List.getElem?_append_left (by simp; omega)]
  simp

theorem shiftBy_one_last (q : List Nat) (h : 0 < q.length) :
    (shiftBy q 1).getD (q.length - 1) 0 = q.getD 0 0 := by
  have hc : pyCut q.length 1 = 1 := by simp [pyCut]; omega
  simp only [shiftBy, hc]
  rw [List.getD_eq_getElem?_getD, List.getD_eq_getElem?_getD, List.getElem?_append_right (by simp)]
  cases q with
  | nil => simp at h
  | cons a as => simp

/-! ### crop / delay arithmetic -/

theorem startZeros_le (l : List Int) : startZeros l ≤ l.length := by
  induction l with
  | nil => simp [startZeros]
  | cons v vs ih => simp only [startZeros]; split <;> simp <;> omega

theorem startZeros_replicate (e : Nat) : startZeros (List.replicate e (0 : Int)) = e := by
  induction e with
  | zero => simp [startZeros]
  | succ e ih => simp [List.replicate_succ, startZeros, ih]

theorem startZeros_append (l : List Int) (e : Nat) :
    startZeros (l ++ List.replicate e 0) =
      if startZeros l = l.length then l.length + e else startZeros l := by
  induction l with
  | nil => simp [startZeros, startZeros_replicate]
  | cons v vs ih =>
    simp only [List.cons_append, startZeros, List.length_cons]
    by_cases hv : v ≠ 0
    · simp [hv]
    · simp only [hv, if_false, ih]
      have := startZeros_le vs
      split <;> split <;> omega

theorem padCropFrom_ge (a : Nat) (alphas : List (List Int)) (delays : List Nat) :
    a ≤ padCropFrom a alphas delays := by
  induction alphas generalizing a delays with
  | nil => simp [padCropFrom]
  | cons α as ih =>
    cases delays with
    | nil => simp [padCropFrom]
    | cons d ds => simp only [padCropFrom]; exact Nat.le_trans (Nat.le_add_right _ _) (ih _ _)

theorem imposed_le (α : List Int) (d : Nat) : imposed α d ≤ d := by
  unfold imposed; split <;> omega

theorem cropFrom_padded (total a : Nat) (alphas : List (List Int)) (delays : List Nat)
    (ht : padCropFrom a alphas delays ≤ total) :
    cropFrom a (List.zipWith (fun alpha pro => List.replicate pro 0 ++ alpha ++ List.replicate (total - pro) 0)
      alphas (prologues a alphas delays)) delays = padCropFrom a alphas delays := by
  induction alphas generalizing a delays with
  | nil => simp [cropFrom, padCropFrom, prologues]
  | cons α as ih =>
    cases delays with
    | nil => simp [cropFrom, padCropFrom, prologues]
    | cons d ds =>
      simp only [prologues, List.zipWith_cons_cons, cropFrom, padCropFrom] at ht ⊢
      have hge := padCropFrom_ge (a + imposed α d) as ds
      have hdrop : (List.replicate a (0 : Int) ++ α ++ List.replicate (total - a) 0).drop a
          = α ++ List.replicate (total - a) 0 := by
        rw [List.append_assoc, List.drop_append_of_le_length (by simp)]
        simp
      have hmin : min (startZeros (α ++ List.replicate (total - a) 0)) d = imposed α d := by
        rw [startZeros_append]
        have hle := startZeros_le α
        by_cases hz : startZeros α = α.length
        · have hi : imposed α d = d := by simp [imposed, hz]
          rw [hi] at hge ht ⊢
          simp only [hz, if_true]
          omega
        · have hi : imposed α d = min (startZeros α) d := by simp [imposed, hz]
          rw [hi]
          simp [hz]
      rw [hdrop, hmin]
      exact ih _ _ ht

theorem crop_of_padded (alphas : List (List Int)) (delays : List Nat) :
    cropValue (padded alphas delays) delays = padCrop alphas delays := by
  unfold cropValue padded padCrop
  exact cropFrom_padded _ 0 alphas delays (Nat.le_refl _)

end SFV.Tdm
