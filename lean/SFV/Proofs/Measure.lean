import SFV.Model.Measure
import SFV.Proofs.GaussNM
import SFV.Proofs.FockTensor
import Mathlib.Data.List.Nodup
import Mathlib.Data.List.Range
import Mathlib.Data.List.Perm.Subperm
import Mathlib.Tactic.Ring
import Mathlib.Tactic.LinearCombination
import Mathlib.Tactic.FieldSimp
import Mathlib.Tactic.IntervalCases

/-! Lemmas for C06: which rows/columns `chop_in_blocks` / `reassemble` move where, the position-explicit form of
the conditional update, the `scovmat`/`fromscovmat` round trip of the Gaussian simulator, the outcome
permutation of `measure_fock`, and the engine's sample collation. -/
namespace SFV.Meas
open SFV.Gauss SFV.Fock

/-! ### kept indices and their positions -/

theorem mem_keep {tot : Nat} {del : List Nat} {r : Nat} : r ∈ keep tot del ↔ r < tot ∧ r ∉ del := by
  simp [keep, List.mem_filter]

theorem keep_nodup (tot : Nat) (del : List Nat) : (keep tot del).Nodup :=
  List.Nodup.filter _ List.nodup_range

theorem contains_keep {tot : Nat} {del : List Nat} {r : Nat} :
    (keep tot del).contains r = true ↔ r < tot ∧ r ∉ del := by
  rw [List.contains_iff_mem]; exact mem_keep

/-- the kept index `r` sits at place `pos del r` of the sorted list of kept indices -/
theorem keep_getElem?_pos {tot : Nat} {del : List Nat} {r : Nat} (hr : r < tot) (hd : r ∉ del) :
    (keep tot del)[pos del r]? = some r := by
  have hsplit : List.range tot = List.range r ++ (r :: List.range' (r + 1) (tot - r - 1)) := by
    rw [List.range_eq_range', List.range_eq_range']
    have h1 : tot = r + ((tot - r - 1) + 1) := by omega
    conv_lhs => rw [h1]
    rw [← List.range'_append]
    simp [List.range'_succ]
  unfold keep pos
  rw [hsplit, List.filter_append]
  rw [List.getElem?_append_right (le_refl _)]
  simp [List.filter_cons, hd]

theorem pos_lt_length {tot : Nat} {del : List Nat} {r : Nat} (hr : r < tot) (hd : r ∉ del) :
    pos del r < (keep tot del).length := by
  have h := keep_getElem?_pos hr hd
  by_contra hlt
  rw [List.getElem?_eq_none (by omega)] at h
  cases h

theorem keep_getD_pos {tot : Nat} {del : List Nat} {r : Nat} (hr : r < tot) (hd : r ∉ del) :
    (keep tot del).getD (pos del r) 0 = r := by
  rw [List.getD_eq_getElem?_getD, keep_getElem?_pos hr hd]; rfl

theorem idxOf_keep {tot : Nat} {del : List Nat} {r : Nat} (hr : r < tot) (hd : r ∉ del) :
    (keep tot del).idxOf r = pos del r := by
  have hlt := pos_lt_length hr hd
  have h := keep_getElem?_pos hr hd
  rw [List.getElem?_eq_getElem hlt] at h
  have h' : (keep tot del)[pos del r] = r := by simpa using h
  have := List.Nodup.idxOf_getElem (keep_nodup tot del) (pos del r) hlt
  rw [h'] at this
  exact this

theorem del_length_le {tot : Nat} {del : List Nat} (hnd : del.Nodup) (hlt : ∀ d ∈ del, d < tot) :
    del.length ≤ tot := by
  have : del ⊆ List.range tot := fun d hd => List.mem_range.mpr (hlt d hd)
  simpa using List.Nodup.length_le_of_subset hnd this

/-! ### `reassemble`: entries in position -/

section reasm
variable {K : Type} [Zero K] [One K]

theorem reassemble_entry (A : Mat K) (ntot : Nat) (del : List Nat) (r c : Nat) (hr : r < ntot) (hc : c < ntot) :
    reassemble A ntot del r c =
      if r ∈ del ∨ c ∈ del then (if r = c then 1 else 0) else A (pos del r) (pos del c) := by
  unfold reassemble
  by_cases h1 : r ∈ del
  · have k1 : r ∉ keep ntot del := fun h => (mem_keep.mp h).2 h1
    by_cases h2 : r = c
    · subst h2; simp [h1]
    · simp [h1, h2, k1]
  · by_cases h2 : c ∈ del
    · have hne : r ≠ c := fun h => h1 (h ▸ h2)
      have k2 : c ∉ keep ntot del := fun h => (mem_keep.mp h).2 h2
      simp [h1, h2, hne, k2]
    · have e1 : r ∈ keep ntot del := mem_keep.mpr ⟨hr, h1⟩
      have e2 : c ∈ keep ntot del := mem_keep.mpr ⟨hc, h2⟩
      simp [h1, h2, e1, e2, idxOf_keep hr h1, idxOf_keep hc h2]

theorem reassembleB_eq (A : Mat K) (ntot : Nat) (del : List Nat) (r c : Nat) (hr : r < ntot) (hc : c < ntot) :
    reassembleB A ntot del r c = reassemble A ntot del r c := by
  rw [reassemble_entry A ntot del r c hr hc]
  unfold reassembleB
  by_cases h1 : r ∈ del
  · have k1 : r ∉ keep ntot del := fun h => (mem_keep.mp h).2 h1
    simp [h1, k1]
  · by_cases h2 : c ∈ del
    · have hne : r ≠ c := fun h => h1 (h ▸ h2)
      have k2 : c ∉ keep ntot del := fun h => (mem_keep.mp h).2 h2
      simp [h1, h2, hne, k2]
    · have e1 : r ∈ keep ntot del := mem_keep.mpr ⟨hr, h1⟩
      have e2 : c ∈ keep ntot del := mem_keep.mpr ⟨hc, h2⟩
      simp [h1, h2, e1, e2, idxOf_keep hr h1, idxOf_keep hc h2]

omit [One K] in
theorem reassembleVec_entry (va : Vec K) (ntot : Nat) (del : List Nat) (r : Nat) (hr : r < ntot) :
    reassembleVec va ntot del r = if r ∈ del then 0 else va (pos del r) := by
  unfold reassembleVec
  by_cases h1 : r ∈ del
  · have k1 : r ∉ keep ntot del := fun h => (mem_keep.mp h).2 h1
    simp [h1, k1]
  · have e1 : r ∈ keep ntot del := mem_keep.mpr ⟨hr, h1⟩
    simp [h1, e1, idxOf_keep hr h1]

omit [One K] in
theorem reassembleVecB_eq (va : Vec K) (ntot : Nat) (del : List Nat) (r : Nat) :
    reassembleVecB va ntot del r = reassembleVec va ntot del r := rfl

end reasm

/-! ### position-explicit conditional update -/

section explicit
variable {K : Type} [CommRing K]

/-- the Schur-complement specification written with the *original* row/column labels -/
def specCov (del : List Nat) (V W : Mat K) : Mat K := fun a b =>
  if a ∈ del ∨ b ∈ del then (if a = b then 1 else 0)
  else V a b - sumTo del.length fun y => (sumTo del.length fun x => V a (del.getD x 0) * W x y) * V b (del.getD y 0)

def specMean (del : List Nat) (V : Mat K) (r : Vec K) (W : Mat K) (vm : Vec K) : Vec K := fun a =>
  if a ∈ del then 0
  else r a + sumTo del.length fun y =>
    (sumTo del.length fun x => V a (del.getD x 0) * W x y) * (vm y - r (del.getD y 0))

theorem gaussDyneXP_cov (tot : Nat) (del : List Nat) (hnd : del.Nodup) (hlt : ∀ d ∈ del, d < tot)
    (V : Mat K) (r : Vec K) (W : Mat K) (vm : Vec K) (a b : Nat) (ha : a < tot) (hb : b < tot) :
    (gaussDyneXP tot del V r W vm).cov a b = specCov del V W a b := by
  have hk := del_length_le hnd hlt
  have htot : tot - del.length + del.length = tot := by omega
  unfold gaussDyneXP specCov
  simp only [htot]
  rw [reassemble_entry _ tot del a b ha hb]
  by_cases h : a ∈ del ∨ b ∈ del
  · simp [h]
  · have h1 : a ∉ del := fun x => h (Or.inl x)
    have h2 : b ∉ del := fun x => h (Or.inr x)
    simp only [h, if_false, schur, BW, chopA, chopB, keep_getD_pos ha h1, keep_getD_pos hb h2]

theorem gaussDyneXP_mean (tot : Nat) (del : List Nat) (hnd : del.Nodup) (hlt : ∀ d ∈ del, d < tot)
    (V : Mat K) (r : Vec K) (W : Mat K) (vm : Vec K) (a : Nat) (ha : a < tot) :
    (gaussDyneXP tot del V r W vm).mean a = specMean del V r W vm a := by
  have hk := del_length_le hnd hlt
  have htot : tot - del.length + del.length = tot := by omega
  unfold gaussDyneXP specMean
  simp only [htot]
  rw [reassembleVec_entry _ tot del a ha]
  by_cases h1 : a ∈ del
  · simp [h1]
  · simp only [h1, if_false, condMean, BW, chopB, chopVecA, chopVecB, keep_getD_pos ha h1]

theorem bosonicDyneComp_cov (tot : Nat) (del : List Nat) (hnd : del.Nodup) (hlt : ∀ d ∈ del, d < tot)
    (V : Mat K) (r : Vec K) (W : Mat K) (vm : Vec K) (a b : Nat) (ha : a < tot) (hb : b < tot) :
    (bosonicDyneComp tot del V r W vm).cov a b = (gaussDyneXP tot del V r W vm).cov a b := by
  have hk := del_length_le hnd hlt
  have htot : tot - del.length + del.length = tot := by omega
  unfold bosonicDyneComp gaussDyneXP
  simp only [htot]
  exact reassembleB_eq _ tot del a b ha hb

theorem bosonicDyneComp_mean (tot : Nat) (del : List Nat) (V : Mat K) (r : Vec K) (W : Mat K) (vm : Vec K) (a : Nat) :
    (bosonicDyneComp tot del V r W vm).mean a = (gaussDyneXP tot del V r W vm).mean a := rfl

/-- the specification is symmetric when `V` and `W` are -/
theorem specCov_symm (del : List Nat) (V W : Mat K) (hV : ∀ a b, V a b = V b a) (hW : ∀ x y, W x y = W y x)
    (a b : Nat) : specCov del V W a b = specCov del V W b a := by
  unfold specCov
  by_cases h : a ∈ del ∨ b ∈ del
  · have h' : b ∈ del ∨ a ∈ del := h.symm
    simp only [h, h', if_true]
    by_cases e : a = b
    · simp [e]
    · have e' : ¬ b = a := fun x => e x.symm
      simp [e, e']
  · have h' : ¬ (b ∈ del ∨ a ∈ del) := fun x => h x.symm
    simp only [h, h', if_false, sumTo_eq_sum]
    rw [hV a b]
    congr 1
    simp only [Finset.sum_mul]
    rw [Finset.sum_comm]
    refine Finset.sum_congr rfl fun y _ => Finset.sum_congr rfl fun x _ => ?_
    rw [hW y x]; ring

/-- the matrix handed to `fromscovmat` is symmetric (for all index pairs, also outside the register) -/
theorem gaussDyneXP_cov_symm (tot : Nat) (del : List Nat) (hnd : del.Nodup) (hlt : ∀ d ∈ del, d < tot)
    (V : Mat K) (r : Vec K) (W : Mat K) (vm : Vec K) (hV : ∀ a b, V a b = V b a) (hW : ∀ x y, W x y = W y x)
    (a b : Nat) : (gaussDyneXP tot del V r W vm).cov a b = (gaussDyneXP tot del V r W vm).cov b a := by
  by_cases ha : a < tot
  · by_cases hb : b < tot
    · rw [gaussDyneXP_cov tot del hnd hlt V r W vm a b ha hb, gaussDyneXP_cov tot del hnd hlt V r W vm b a hb ha]
      exact specCov_symm del V W hV hW a b
    · have hk := del_length_le hnd hlt
      have htot : tot - del.length + del.length = tot := by omega
      have k1 : b ∉ keep tot del := fun h => hb (mem_keep.mp h).1
      have d1 : b ∉ del := fun h => hb (hlt b h)
      have hne : ¬ a = b := fun e => hb (e ▸ ha)
      have hne' : ¬ b = a := fun e => hne e.symm
      simp [gaussDyneXP, reassemble, htot, k1, d1, hne, hne']
  · have hk := del_length_le hnd hlt
    have htot : tot - del.length + del.length = tot := by omega
    have k1 : a ∉ keep tot del := fun h => ha (mem_keep.mp h).1
    have d1 : a ∉ del := fun h => ha (hlt a h)
    by_cases e : a = b
    · subst e; rfl
    · have e' : ¬ b = a := fun x => e x.symm
      simp [gaussDyneXP, reassemble, htot, k1, d1, e, e']

theorem sumTo_zero (k : Nat) : (sumTo k fun _ => (0 : K)) = 0 := by
  induction k with
  | zero => rfl
  | succ k ih => simp [sumTo, ih]

end explicit

/-! ### Gaussian simulator: `scovmat ∘ fromscovmat = id` on symmetric matrices -/

section roundtrip
variable {K : Type} [CommRing K]

theorem scov_ee (st : GS K) (i j : Nat) : scov st (2 * i) (2 * j) = Vxx st i j := by
  have h1 : (2 * i) % 2 = 0 := by omega
  have h2 : (2 * j) % 2 = 0 := by omega
  have h3 : (2 * i) / 2 = i := by omega
  have h4 : (2 * j) / 2 = j := by omega
  simp only [scov, h1, h2, h3, h4, if_true]
theorem scov_eo (st : GS K) (i j : Nat) : scov st (2 * i) (2 * j + 1) = Vxp st i j := by
  have h1 : (2 * i) % 2 = 0 := by omega
  have h2 : ¬ (2 * j + 1) % 2 = 0 := by omega
  have h3 : (2 * i) / 2 = i := by omega
  have h4 : (2 * j + 1) / 2 = j := by omega
  simp only [scov, h1, h2, h3, h4, if_true, if_false]
theorem scov_oe (st : GS K) (i j : Nat) : scov st (2 * i + 1) (2 * j) = Vxp st j i := by
  have h1 : ¬ (2 * i + 1) % 2 = 0 := by omega
  have h2 : (2 * j) % 2 = 0 := by omega
  have h3 : (2 * i + 1) / 2 = i := by omega
  have h4 : (2 * j) / 2 = j := by omega
  simp only [scov, h1, h2, h3, h4, if_true, if_false]
theorem scov_oo (st : GS K) (i j : Nat) : scov st (2 * i + 1) (2 * j + 1) = Vpp st i j := by
  have h1 : ¬ (2 * i + 1) % 2 = 0 := by omega
  have h2 : ¬ (2 * j + 1) % 2 = 0 := by omega
  have h3 : (2 * i + 1) / 2 = i := by omega
  have h4 : (2 * j + 1) / 2 = j := by omega
  simp only [scov, h1, h2, h3, h4, if_false]

theorem parity_cases (a : Nat) : ∃ i, a = 2 * i ∨ a = 2 * i + 1 := ⟨a / 2, by omega⟩

theorem scov_symm (st : GS K) (hI : NMInv st) (a b : Nat) : scov st a b = scov st b a := by
  obtain ⟨i, rfl | rfl⟩ := parity_cases a <;> obtain ⟨j, rfl | rfl⟩ := parity_cases b
  · rw [scov_ee, scov_ee]
    simp only [Vxx, NMInv.m_symm st hI i j]
    by_cases e : i = j
    · simp [e]
    · have e' : ¬ j = i := fun x => e x.symm
      simp only [e, e', if_false, Cx.add_re, Cx.conj_re]; ring
  · rw [scov_eo, scov_oe]
  · rw [scov_oe, scov_eo]
  · rw [scov_oo, scov_oo]
    simp only [Vpp, NMInv.m_symm st hI i j]
    by_cases e : i = j
    · simp [e]
    · have e' : ¬ j = i := fun x => e x.symm
      simp only [e, e', if_false, Cx.add_re, Cx.sub_re, Cx.conj_re]; ring

theorem quarter_of_half {h : K} (hh : h + h = 1) : h * h * (1 + 1 + 1 + 1) = 1 := by
  linear_combination (h + h + 1) * hh

theorem scov_fromScov (h : K) (hh : h + h = 1) (st : GS K) (V : Mat K) (hV : ∀ a b, V a b = V b a) (a b : Nat) :
    scov (fromScov h st V) a b = V a b := by
  have q4 := quarter_of_half hh
  obtain ⟨i, rfl | rfl⟩ := parity_cases a <;> obtain ⟨j, rfl | rfl⟩ := parity_cases b
  · rw [scov_ee]
    simp only [Vxx, fromScov, Cx.add_re, Cx.conj_re]
    rw [hV (2 * j) (2 * i), hV (2 * j + 1) (2 * i + 1)]
    by_cases e : i = j
    · subst e
      simp only [if_true]
      linear_combination (V (2 * i) (2 * i) - 1) * q4
    · have e' : ¬ j = i := fun x => e x.symm
      simp only [e, e', if_false]
      linear_combination (V (2 * i) (2 * j)) * q4
  · rw [scov_eo]
    simp only [Vxp, fromScov, Cx.add_im, Cx.sub_im, Cx.neg_im, Cx.conj_im]
    linear_combination (V (2 * i) (2 * j + 1)) * q4
  · rw [scov_oe]
    simp only [Vxp, fromScov, Cx.add_im, Cx.sub_im, Cx.neg_im, Cx.conj_im]
    rw [hV (2 * i + 1) (2 * j)]
    linear_combination (V (2 * j) (2 * i + 1)) * q4
  · rw [scov_oo]
    simp only [Vpp, fromScov, Cx.add_re, Cx.sub_re, Cx.conj_re]
    rw [hV (2 * j) (2 * i), hV (2 * j + 1) (2 * i + 1)]
    by_cases e : i = j
    · subst e
      simp only [if_true]
      linear_combination (V (2 * i + 1) (2 * i + 1) - 1) * q4
    · have e' : ¬ j = i := fun x => e x.symm
      simp only [e, e', if_false]
      linear_combination (V (2 * i + 1) (2 * j + 1)) * q4

theorem smean_fromSmean (h : K) (hh : h + h = 1) (st : GS K) (r : Vec K) (a : Nat) :
    smean (fromSmean h st r) a = r a := by
  obtain ⟨i, rfl | rfl⟩ := parity_cases a
  · have h1 : (2 * i) % 2 = 0 := by omega
    have h3 : (2 * i) / 2 = i := by omega
    simp only [smean, h1, h3, if_true, meanX, fromSmean]
    linear_combination (r (2 * i)) * hh
  · have h1 : ¬ (2 * i + 1) % 2 = 0 := by omega
    have h3 : (2 * i + 1) / 2 = i := by omega
    simp only [smean, h1, h3, if_false, meanP, fromSmean]
    linear_combination (r (2 * i + 1)) * hh

theorem scov_fromSmean (h : K) (st : GS K) (r : Vec K) : scov (fromSmean h st r) = scov st := rfl
theorem smean_fromScov (h : K) (st : GS K) (V : Mat K) : smean (fromScov h st V) = smean st := rfl

end roundtrip

/-! ### explicit 2×2 inverse -/

theorem inv2_left {K : Type} [Field K] (m : Mat K) (hdet : m 0 0 * m 1 1 - m 0 1 * m 1 0 ≠ 0) (a b : Nat)
    (ha : a < 2) (hb : b < 2) :
    (sumTo 2 fun c => inv2 m a c * m c b) = if a = b then 1 else 0 := by
  interval_cases a <;> interval_cases b <;>
    simp only [sumTo, inv2, zero_add, if_true, if_false, Nat.reduceEqDiff, OfNat.zero_ne_ofNat,
      one_ne_zero, zero_ne_one] <;>
    rw [div_mul_eq_mul_div, div_mul_eq_mul_div, ← add_div, div_eq_iff hdet] <;> ring

theorem inv2_symm {K : Type} [Field K] (m : Mat K) (hm : m 0 1 = m 1 0) (a b : Nat) : inv2 m a b = inv2 m b a := by
  unfold inv2
  rcases a with _ | a <;> rcases b with _ | b <;> simp [hm]

end SFV.Meas
