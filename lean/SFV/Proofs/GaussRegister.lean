import SFV.Proofs.GaussNM

/-! K3, registers that change size: `GaussianModes.add_mode` / `del_mode` refine the phase-space specification
"old modes keep their data, new modes are uncorrelated vacua" resp. "the deleted mode is traced out", and whole programs
that mix gates with `New` / `Del` refine the independent calculation (C01, C05, C08). -/
namespace SFV.Gauss
open Cx

variable {K : Type} [CommRing K]

theorem addMode_inv (st : GS K) (hI : NMInv st) (m : Nat) : NMInv (addMode st m) := by
  obtain ⟨h1, h2, h3⟩ := hI
  refine ⟨fun i j => ?_, fun i j => ?_, fun i => ?_⟩
  · by_cases hi : i < st.n <;> by_cases hj : j < st.n <;> simp [addMode, hi, hj, h1 i j]
    all_goals exact Cx.ext' (by simp) (by simp)
  · by_cases hi : i < st.n <;> by_cases hj : j < st.n <;> simp [addMode, hi, hj, h2 i j]
  · by_cases hi : i < st.n <;> simp [addMode, hi, h3 i]

/-- **`add_mode(m)`**: every entry among the old modes is kept (whatever the number of old and new modes), every new mode
is an uncorrelated vacuum -/
theorem addMode_refines (st : GS K) (m : Nat) :
    XP.Eq (toXP (addMode st m)) (addVacuum (toXP st) st.n) := by
  refine ⟨fun i j => ?_, fun i j => ?_, fun i j => ?_, fun i => ?_, fun i => ?_⟩
  · by_cases hi : i < st.n <;> by_cases hj : j < st.n <;> by_cases hij : i = j <;>
      simp [toXP, addVacuum, addMode, Vxx, hi, hj, hij, and_comm]
  · by_cases hi : i < st.n <;> by_cases hj : j < st.n <;> simp [toXP, addVacuum, addMode, Vxp, hi, hj, and_comm]
  · by_cases hi : i < st.n <;> by_cases hj : j < st.n <;> by_cases hij : i = j <;>
      simp [toXP, addVacuum, addMode, Vpp, hi, hj, hij, and_comm]
  · by_cases hi : i < st.n <;> simp [toXP, addVacuum, addMode, meanX, hi]
  · by_cases hi : i < st.n <;> simp [toXP, addVacuum, addMode, meanP, hi]

/-- in particular no old mode loses its state or its correlations, at any index -/
theorem addMode_keeps_old (st : GS K) (m i j : Nat) (hi : i < st.n) (hj : j < st.n) :
    (toXP (addMode st m)).xx i j = (toXP st).xx i j ∧ (toXP (addMode st m)).xp i j = (toXP st).xp i j ∧
    (toXP (addMode st m)).pp i j = (toXP st).pp i j ∧ (toXP (addMode st m)).mx i = (toXP st).mx i ∧
    (toXP (addMode st m)).mp i = (toXP st).mp i := by
  obtain ⟨h1, h2, h3, h4, h5⟩ := addMode_refines st m
  refine ⟨?_, ?_, ?_, ?_, ?_⟩
  · rw [h1]; simp [addVacuum, hi, hj]
  · rw [h2]; simp [addVacuum, hi, hj]
  · rw [h3]; simp [addVacuum, hi, hj]
  · rw [h4]; simp [addVacuum, hi]
  · rw [h5]; simp [addVacuum, hi]

/-- operations of a program on a register that may grow and shrink -/
inductive ROp (K : Type)
  | op (o : GOp K)
  | newModes (m : Nat)
  | delMode (k : Nat)

def ROp.ok : ROp K → Prop
  | .op o => o.ok
  | _ => True

/-- what `GaussianModes` does (`del_mode` = `loss(0, k)`, then the mode is only marked inactive) -/
def applyNMR (st : GS K) : ROp K → GS K
  | .op o => applyNM st o
  | .newModes m => addMode st m
  | .delMode k => loss st 0 k

/-- the independent calculation, with the register size carried along -/
def applyXPR (Vn : XP K × Nat) : ROp K → XP K × Nat
  | .op o => (applyXP Vn.1 o, Vn.2)
  | .newModes m => (addVacuum Vn.1 Vn.2, Vn.2 + m)
  | .delMode k => (addNoise (linMap (lossRows k 0) Vn.1) k 1, Vn.2)

theorem applyNM_n (st : GS K) (o : GOp K) : (applyNM st o).n = st.n := by
  cases o <;> rfl

theorem applyNMR_step (st : GS K) (hI : NMInv st) (op : ROp K) (hok : op.ok) :
    (toXP (applyNMR st op), (applyNMR st op).n) = applyXPR (toXP st, st.n) op ∧ NMInv (applyNMR st op) := by
  cases op with
  | op o =>
    obtain ⟨h1, h2⟩ := applyNM_step st hI o hok
    exact ⟨by simp [applyNMR, applyXPR, h1, applyNM_n], h2⟩
  | newModes m =>
    refine ⟨?_, addMode_inv st hI m⟩
    simp only [applyNMR, applyXPR, XP.eq_of_Eq (addMode_refines st m)]
    rfl
  | delMode k =>
    refine ⟨?_, loss_inv st hI 0 k⟩
    have h := XP.eq_of_Eq (loss_refines st hI 0 k)
    simp only [applyNMR, applyXPR, h]
    have hn : (loss st 0 k).n = st.n := rfl
    simp [hn]

/-- **programs with `New` and `Del`**: for every sequence of gates, channels, mode creations and deletions the simulator's
moments are the independent phase-space calculation's, and so is its register size -/
theorem applyNMR_program (ops : List (ROp K)) (st : GS K) (hI : NMInv st) (hok : ∀ op ∈ ops, op.ok) :
    (toXP (ops.foldl applyNMR st), (ops.foldl applyNMR st).n) = ops.foldl applyXPR (toXP st, st.n) ∧
    NMInv (ops.foldl applyNMR st) := by
  induction ops generalizing st with
  | nil => exact ⟨rfl, hI⟩
  | cons op ops ih =>
    obtain ⟨h1, h2⟩ := applyNMR_step st hI op (hok op (by simp))
    have := ih (applyNMR st op) h2 (fun o ho => hok o (by simp [ho]))
    simp only [List.foldl_cons]
    rw [← h1]
    exact this

end SFV.Gauss
