import SFV.Proofs.Register
/-! System-level simulation for the K2 register model: the program-side validity test agrees with the abstract
selection test, every history event is simulated by `aStep`, and hence program register, back end and abstract
rows agree after every history — generically in a back end that refines the rows. Core Lean only. -/
set_option linter.unusedSectionVars false
set_option linter.unusedSimpArgs false
namespace SFV.Reg

theorem hasDup_false_iff : ∀ (l : List Nat), hasDup l = false ↔ l.Nodup := by
  intro l
  induction l with
  | nil => simp [hasDup]
  | cons a as ih => simp [hasDup, ih, List.nodup_cons]

/-- is index `i` an active subsystem of the program? -/
def actAt (p : Prog) (i : Nat) : Bool :=
  match p.regRefs[i]? with
  | some r => r.active
  | none => false

theorem resolve_ok {p : Prog} {rr : Ref} {r : RegRef} (h : p.resolve rr = .ok r) :
    ∃ i, rr.idx? = some i ∧ p.regRefs[i]? = some r := by
  cases rr with
  | int i =>
    simp only [Prog.resolve] at h
    split at h
    · cases h
    · rename_i hneg
      split at h
      · rename_i r' hr; cases h
        exact ⟨i.toNat, by simp [Ref.idx?, hneg], hr⟩
      · cases h
  | own i =>
    simp only [Prog.resolve] at h
    split at h
    · rename_i r' hr; cases h; exact ⟨i, rfl, hr⟩
    · cases h
  | foreign ind act =>
    simp only [Prog.resolve] at h
    split at h <;> cases h

theorem resolve_of_idx {p : Prog} {rr : Ref} {i : Nat} {r : RegRef} (h : rr.idx? = some i)
    (hr : p.regRefs[i]? = some r) : p.resolve rr = .ok r := by
  cases rr with
  | int j =>
    simp only [Ref.idx?] at h
    split at h
    · cases h
    · rename_i hneg
      cases h
      simp [Prog.resolve, hneg, hr]
  | own j =>
    simp only [Ref.idx?] at h; cases h
    simp [Prog.resolve, hr]
  | foreign ind act => simp [Ref.idx?] at h

theorem idxAll_cons {rr : Ref} {rest : List Ref} {l : List Nat} (h : idxAll (rr :: rest) = some l) :
    ∃ i is, rr.idx? = some i ∧ idxAll rest = some is ∧ l = i :: is := by
  simp only [idxAll] at h
  split at h
  · rename_i i is hi his; cases h; exact ⟨i, is, hi, his, rfl⟩
  · cases h

theorem idxAll_cons_some {rr : Ref} {rest : List Ref} {i : Nat} {is : List Nat} (h1 : rr.idx? = some i)
    (h2 : idxAll rest = some is) : idxAll (rr :: rest) = some (i :: is) := by
  simp [idxAll, h1, h2]

theorem idxAll_length : ∀ (reg : List Ref) (is : List Nat), idxAll reg = some is → is.length = reg.length := by
  intro reg
  induction reg with
  | nil => intro is h; simp [idxAll] at h; subst h; rfl
  | cons rr rest ih =>
    intro is h
    obtain ⟨i, is', _, h2, rfl⟩ := idxAll_cons h
    simp [ih is' h2]

/-- **the loop of `_test_regrefs` decides exactly the abstract selection test**: it succeeds iff every item denotes
an index, all those indices are active subsystems of the program, none is repeated and none was seen before;
the result is the list of (active) RegRefs of those indices -/
theorem testLoop_iff {p : Prog} (hp : ProgInv p) : ∀ (reg : List Ref) (temp out : List RegRef),
    (∀ t ∈ temp, t.active = true) →
    (p.testLoop reg temp = .ok out ↔
      ∃ is, idxAll reg = some is ∧ out = temp ++ is.map (fun i => (⟨i, true⟩ : RegRef)) ∧
        (∀ i ∈ is, actAt p i = true) ∧ is.Nodup ∧ (∀ i ∈ is, i ∉ temp.map (·.ind))) := by
  intro reg
  induction reg with
  | nil =>
    intro temp out _
    simp only [Prog.testLoop, idxAll]
    constructor
    · intro h; cases h; exact ⟨[], rfl, by simp, by simp, by simp, by simp⟩
    · rintro ⟨is, h1, h2, _⟩; cases h1; simp [h2]
  | cons rr rest ih =>
    intro temp out ht
    unfold Prog.testLoop
    cases hres : p.resolve rr with
    | error e =>
      simp only
      constructor
      · intro h; cases h
      · rintro ⟨is, h1, _, h3, _, _⟩
        obtain ⟨i, is', hi, _, rfl⟩ := idxAll_cons h1
        have hact := h3 i (by simp)
        unfold actAt at hact
        cases hr : p.regRefs[i]? with
        | none => simp [hr] at hact
        | some r => rw [resolve_of_idx hi hr] at hres; cases hres
    | ok r =>
      simp only
      obtain ⟨i, hi, hr⟩ := resolve_ok hres
      have hind : r.ind = i := hp i r hr
      have hact_eq : actAt p i = r.active := by simp [actAt, hr]
      by_cases ha : r.active = true
      · have hrmk : r = ⟨i, true⟩ := by cases r; simp_all
        by_cases hc : temp.contains r = true
        · simp only [ha, Bool.not_true, Bool.false_eq_true, if_false, hc, if_true]
          constructor
          · intro h; cases h
          · rintro ⟨is, h1, _, _, _, h5⟩
            obtain ⟨i', is', hi', _, rfl⟩ := idxAll_cons h1
            rw [hi] at hi'; cases hi'
            exfalso
            apply h5 i (by simp)
            simp only [List.contains_iff_mem] at hc
            exact List.mem_map.2 ⟨r, hc, hind⟩
        · simp only [ha, Bool.not_true, Bool.false_eq_true, if_false, hc]
          have hc' : r ∉ temp := by simpa using hc
          have ht' : ∀ t ∈ temp ++ [r], t.active = true := by
            intro t hm
            rcases List.mem_append.1 hm with h | h
            · exact ht t h
            · simp at h; rw [h]; exact ha
          rw [ih (temp ++ [r]) out ht']
          have hnot : i ∉ temp.map (·.ind) := by
            intro hm
            obtain ⟨t, htm, hti⟩ := List.mem_map.1 hm
            have : t = r := by
              have := ht t htm
              rw [hrmk]; cases t; simp_all
            exact hc' (this ▸ htm)
          constructor
          · rintro ⟨is', h1, h2, h3, h4, h5⟩
            refine ⟨i :: is', idxAll_cons_some hi h1, ?_, ?_, ?_, ?_⟩
            · rw [h2, hrmk]; simp
            · intro j hj
              rcases List.mem_cons.1 hj with rfl | hj
              · rw [hact_eq, ha]
              · exact h3 j hj
            · refine List.nodup_cons.2 ⟨?_, h4⟩
              intro hm
              apply h5 i hm
              simp [hind]
            · intro j hj
              rcases List.mem_cons.1 hj with rfl | hj
              · exact hnot
              · intro hm; apply h5 j hj; simp only [List.map_append, List.mem_append]; exact Or.inl hm
          · rintro ⟨is, h1, h2, h3, h4, h5⟩
            obtain ⟨i', is', hi', hrest, rfl⟩ := idxAll_cons h1
            rw [hi] at hi'; cases hi'
            obtain ⟨hni, hnd⟩ := List.nodup_cons.1 h4
            refine ⟨is', hrest, ?_, fun j hj => h3 j (by simp [hj]), hnd, ?_⟩
            · rw [h2, hrmk]; simp
            · intro j hj hm
              simp only [List.map_append, List.mem_append, List.map_cons, List.map_nil, List.mem_singleton] at hm
              rcases hm with hm | hm
              · exact h5 j (by simp [hj]) hm
              · rw [hind] at hm; subst hm; exact hni hj
      · have ha' : r.active = false := by simpa using ha
        simp only [ha', Bool.not_false, if_true]
        constructor
        · intro h; cases h
        · rintro ⟨is, h1, _, h3, _, _⟩
          obtain ⟨i', is', hi', _, rfl⟩ := idxAll_cons h1
          rw [hi] at hi'; cases hi'
          have := h3 i (by simp)
          rw [hact_eq, ha'] at this; cases this

theorem testRegrefs_iff {p : Prog} (hp : ProgInv p) (reg : List Ref) (out : List RegRef) :
    p.testRegrefs reg = .ok out ↔
      ∃ is, idxAll reg = some is ∧ out = is.map (fun i => (⟨i, true⟩ : RegRef)) ∧
        (∀ i ∈ is, actAt p i = true) ∧ is.Nodup := by
  unfold Prog.testRegrefs
  rw [testLoop_iff hp reg [] out (by simp)]
  constructor
  · rintro ⟨is, h1, h2, h3, h4, _⟩; exact ⟨is, h1, by simpa using h2, h3, h4⟩
  · rintro ⟨is, h1, h2, h3, h4⟩; exact ⟨is, h1, by simpa using h2, h3, h4, by simp⟩

/-! ### flags -/
section Flags
variable {D : Type} [DataSem D]

theorem liveAt_flags (a : Rows D) (i : Nat) : Rows.liveAt a i = ((a.map Option.isSome)[i]?).getD false := by
  unfold Rows.liveAt
  simp only [List.getElem?_map]
  cases h : a[i]? with
  | none => simp
  | some o => cases o <;> simp

theorem actAt_flags (p : Prog) (i : Nat) : actAt p i = (p.flags[i]?).getD false := by
  unfold actAt Prog.flags
  simp only [List.getElem?_map]
  cases h : p.regRefs[i]? <;> simp

theorem liveAt_eq_actAt {a : Rows D} {p : Prog} (h : a.map Option.isSome = p.flags) (i : Nat) :
    Rows.liveAt a i = actAt p i := by
  rw [liveAt_flags, actAt_flags, h]

theorem Rows.run_append (cs : List Cmd) (c : Cmd) : ∀ (r : Rows D),
    Rows.run (cs ++ [c]) r = (Rows.run cs r).bind (fun r' => Rows.cmd r' c) := by
  induction cs with
  | nil =>
    intro r
    simp only [List.nil_append, Rows.run]
    cases h : Rows.cmd r c <;> simp [Option.bind, h]
  | cons c' cs ih =>
    intro r
    simp only [List.cons_append, Rows.run]
    cases Rows.cmd r c' with
    | none => rfl
    | some r' => exact ih r'

theorem Rows.clear_get : ∀ (is : List Nat) (a : Rows D) (j : Nat),
    (Rows.clear is a)[j]? = if j ∈ is then (a[j]?).map (fun _ => none) else a[j]? := by
  intro is
  induction is with
  | nil => intro a j; simp [Rows.clear]
  | cons i is ih =>
    intro a j
    have := ih (a.set i none) j
    simp only [Rows.clear, List.foldl_cons] at this ⊢
    rw [this, List.getElem?_set]
    by_cases h2 : i = j
    · subst h2
      by_cases h3 : i < a.length
      · have : a[i]? = some a[i] := List.getElem?_eq_getElem h3
        by_cases h1 : i ∈ is <;> simp [h1, h3, this]
      · have : a[i]? = none := List.getElem?_eq_none (Nat.le_of_not_lt h3)
        by_cases h1 : i ∈ is <;> simp [h1, h3, this]
    · have h2' : ¬ j = i := fun h => h2 h.symm
      by_cases h1 : j ∈ is <;> simp [h1, h2, h2']

theorem clear_flags {a : Rows D} {l : List RegRef} (is : List Nat)
    (hp : ∀ (i : Nat) (r : RegRef), l[i]? = some r → r.ind = i)
    (h : a.map Option.isSome = l.map (·.active)) :
    (Rows.clear is a).map Option.isSome = (Prog.deactivate is l).map (·.active) := by
  apply List.ext_getElem?
  intro j
  have hj := congrArg (fun x => x[j]?) h
  simp only [List.getElem?_map] at hj
  simp only [List.getElem?_map, Rows.clear_get, Prog.deactivate]
  cases hl : l[j]? with
  | none =>
    cases ha : a[j]? with
    | none => simp
    | some o => simp [hl, ha] at hj
  | some r =>
    have hind := hp j r hl
    cases ha : a[j]? with
    | none => simp [hl, ha] at hj
    | some o =>
      simp only [hl, ha, Option.map_some, Option.some.injEq] at hj
      by_cases hm : j ∈ is
      · simp [hm, hind]
      · simp [hm, hind, hj]

theorem writeBack_some_flags : ∀ (ms : List Nat) (vs : List D) (a : Rows D),
    ms.all (Rows.liveAt a) = true →
    (writeBack ms (vs.map some) a).map Option.isSome = a.map Option.isSome := by
  intro ms
  induction ms with
  | nil => intro vs a _; simp [writeBack]
  | cons m ms ih =>
    intro vs a hl
    cases vs with
    | nil => simp [writeBack]
    | cons v vs =>
      simp only [List.all_cons, Bool.and_eq_true] at hl
      simp only [List.map_cons, writeBack]
      have hl' : ms.all (Rows.liveAt (a.set m (some v))) = true := by
        rw [List.all_eq_true]
        intro m' hm'
        rw [liveAt_set]
        split
        · rfl
        · exact (List.all_eq_true.1 hl.2) m' hm'
      rw [ih vs _ hl']
      apply List.ext_getElem?
      intro j
      simp only [List.getElem?_map, List.getElem?_set]
      by_cases h : m = j
      · subst h
        have := hl.1
        unfold Rows.liveAt at this
        cases ha : a[m]? with
        | none => simp [ha] at this
        | some o =>
          have hlt := (List.getElem?_eq_some_iff.1 ha).1
          cases o with
          | none => simp [ha] at this
          | some d => simp [hlt]
      · simp [h]

theorem upd_flags (f : List D → List D) (ms : List Nat) (a : Rows D) (hl : ms.all (Rows.liveAt a) = true) :
    (Rows.upd f ms a).map Option.isSome = a.map Option.isSome :=
  writeBack_some_flags ms _ a hl
end Flags

/-! ### `Operation.__or__` against the abstract selection test -/
section OpOr
variable {D : Type} [DataSem D]

/-- all live, no repetition -/
def selB (a : Rows D) (is : List Nat) : Bool := is.all a.liveAt && !hasDup is

theorem okSel_eq (a : Rows D) (is : List Nat) : a.okSel is = (!is.isEmpty && selB a is) := by
  simp [Rows.okSel, selB, Bool.and_assoc]

/-- the indices an `op | reg` with dependencies `deps` is accepted on, abstractly -/
def accSel (a : Rows D) (ns : Option Nat) (reg deps : List Ref) : Option (List Nat) :=
  match idxAll reg, idxAll deps with
  | some is, some ds =>
    if !reg.isEmpty && !Prog.nsBad ns reg.length && selB a is && selB a ds then some is else none
  | _, _ => none

theorem testRegrefs_sel {a : Rows D} {p : Prog} (hp : ProgInv p) (hf : a.map Option.isSome = p.flags)
    (reg : List Ref) :
    match idxAll reg with
    | some is => if selB a is then p.testRegrefs reg = .ok (is.map (fun i => (⟨i, true⟩ : RegRef)))
                 else ∃ e, p.testRegrefs reg = .error e
    | none => ∃ e, p.testRegrefs reg = .error e := by
  have key := fun out => testRegrefs_iff hp reg out
  cases hidx : idxAll reg with
  | none =>
    simp only
    cases ht : p.testRegrefs reg with
    | error e => exact ⟨e, rfl⟩
    | ok out => obtain ⟨is, h1, _⟩ := (key out).1 ht; rw [hidx] at h1; cases h1
  | some is =>
    simp only
    by_cases hs : selB a is = true
    · simp only [hs, if_true]
      simp only [selB, Bool.and_eq_true, Bool.not_eq_true', List.all_eq_true] at hs
      apply (key _).2
      exact ⟨is, hidx, rfl, fun i hi => by rw [← liveAt_eq_actAt hf]; exact hs.1 i hi,
        (hasDup_false_iff is).1 hs.2⟩
    · simp only [hs, Bool.false_eq_true, if_false]
      cases ht : p.testRegrefs reg with
      | error e => exact ⟨e, rfl⟩
      | ok out =>
        exfalso
        obtain ⟨is', h1, _, h3, h4⟩ := (key out).1 ht
        rw [hidx] at h1; cases h1
        apply hs
        simp only [selB, Bool.and_eq_true, Bool.not_eq_true', List.all_eq_true]
        exact ⟨fun i hi => by rw [liveAt_eq_actAt hf]; exact h3 i hi, (hasDup_false_iff is).2 h4⟩

theorem map_mk_ind (is : List Nat) : (is.map (fun i => (⟨i, true⟩ : RegRef))).map (·.ind) = is := by
  induction is with
  | nil => rfl
  | cons i is ih => simp [ih]

theorem opOr_sim {a : Rows D} {p : Prog} (hp : ProgInv p) (hl : p.locked = false)
    (hf : a.map Option.isSome = p.flags) (op : Op) (ns : Option Nat) (reg deps : List Ref) :
    match accSel a ns reg deps with
    | some is => ∃ p', p.opOr op ns reg deps = .ok (p', is.map (fun i => (⟨i, true⟩ : RegRef))) ∧
        p'.regRefs = p.regRefs ∧ p'.locked = false ∧ p'.circuit = p.circuit ++ [⟨op, is⟩] ∧
        p'.initRegRefs = p.initRegRefs ∧ p'.initNum = p.initNum
    | none => ∃ e, p.opOr op ns reg deps = .error e := by
  have h1 := testRegrefs_sel hp hf reg
  have h2 := testRegrefs_sel hp hf deps
  unfold accSel
  unfold Prog.opOr
  by_cases hbad : (reg.isEmpty || Prog.nsBad ns reg.length) = true
  · rw [if_pos hbad]
    have : (!reg.isEmpty && !Prog.nsBad ns reg.length) = false := by
      cases h3 : reg.isEmpty <;> cases h4 : Prog.nsBad ns reg.length <;> simp_all
    cases idxAll reg <;> cases idxAll deps <;> simp [this] <;> exact ⟨_, rfl⟩
  · rw [if_neg hbad]
    have hgood : (!reg.isEmpty && !Prog.nsBad ns reg.length) = true := by
      cases h3 : reg.isEmpty <;> cases h4 : Prog.nsBad ns reg.length <;> simp_all
    unfold Prog.append
    simp only [hl, Bool.false_eq_true, if_false]
    cases hir : idxAll reg with
    | none =>
      simp only [hir] at h1
      obtain ⟨e, he⟩ := h1
      simp only [he]
      exact ⟨e, rfl⟩
    | some is =>
      simp only [hir] at h1
      cases hid : idxAll deps with
      | none =>
        simp only [hid] at h2
        obtain ⟨e, he⟩ := h2
        simp only
        cases p.testRegrefs reg with
        | error e' => exact ⟨e', rfl⟩
        | ok rs => simp only [he]; exact ⟨e, rfl⟩
      | some ds =>
        simp only [hid] at h2
        simp only [hgood, Bool.true_and]
        by_cases hs1 : selB a is = true
        · simp only [hs1, if_true] at h1
          by_cases hs2 : selB a ds = true
          · simp only [hs2, if_true] at h2
            simp only [hs1, hs2, Bool.and_self, if_true, h1, h2, map_mk_ind]
            exact ⟨_, rfl, rfl, rfl, rfl, rfl, rfl⟩
          · simp only [hs2, Bool.false_eq_true, if_false] at h2
            obtain ⟨e, he⟩ := h2
            have : (selB a is && selB a ds) = false := by simp [hs2]
            simp only [this, Bool.false_eq_true, if_false, h1, he]
            exact ⟨e, rfl⟩
        · simp only [hs1, Bool.false_eq_true, if_false] at h1
          obtain ⟨e, he⟩ := h1
          have : (selB a is && selB a ds) = false := by simp [hs1]
          simp only [this, Bool.false_eq_true, if_false, he]
          exact ⟨e, rfl⟩
end OpOr

/-! ### the simulation -/
section SimSec
variable {D B : Type} [DataSem D]

/-- what a back end has to satisfy: it refines the abstract rows -/
structure Refines (o : BackendOps D B) (abs : B → Rows D) (Inv : B → Prop) : Prop where
  begin_inv : ∀ n, Inv (o.begin n)
  begin_abs : ∀ n, abs (o.begin n) = List.replicate n (some DataSem.vac)
  run : ∀ (n : Nat) (cs : List Cmd) (b : B) (r' : Rows D), Inv b → n = (Rows.live (abs b)).length →
    Rows.run cs (abs b) = some r' → ∃ b', o.runProg n cs b = .ok b' ∧ Inv b' ∧ abs b' = r'
  getModes : ∀ b, Inv b → o.getModes b = Rows.live (abs b)
  state : ∀ b, Inv b → o.stateNone b = .ok (Rows.state 0 (abs b))

/-- the simulator state the segment under construction will be run on -/
def baseBe (o : BackendOps D B) (s : Sys B) : B :=
  match s.prev with
  | none => o.begin s.prog.initNum
  | some _ => s.be

/-- concrete system `s` (engine, back end, program under construction with its deferred commands) represents the
abstract rows `a` (all accepted events applied immediately) -/
structure Sim (o : BackendOps D B) (abs : B → Rows D) (Inv : B → Prop) (s : Sys B) (a : Rows D) : Prop where
  pinv : ProgInv s.prog
  unlocked : s.prog.locked = false
  startOk : match s.prev with
    | none => s.prog.initRegRefs.all (·.active) = true
    | some pr => s.prog.initRegRefs = pr
  binv : Inv (baseBe o s)
  run : Rows.run s.prog.circuit (abs (baseBe o s)) = some a
  flags : a.map Option.isSome = s.prog.flags
  /-- `init_num_subsystems` is the number of modes the simulator holds when the segment starts -/
  hinit : s.prog.initNum = (Rows.live (abs (baseBe o s))).length

theorem sim_prog_step {o : BackendOps D B} {abs : B → Rows D} {Inv : B → Prop} {s : Sys B} {a a' : Rows D}
    (h : Sim o abs Inv s a) (p' : Prog) (c : Cmd) (hinv : ProgInv p') (hl : p'.locked = false)
    (hi : p'.initRegRefs = s.prog.initRegRefs) (hn : p'.initNum = s.prog.initNum)
    (hc : p'.circuit = s.prog.circuit ++ [c]) (hcmd : Rows.cmd a c = some a')
    (hf : a'.map Option.isSome = p'.flags) : Sim o abs Inv { s with prog := p' } a' := by
  have hb : baseBe o { s with prog := p' } = baseBe o s := by
    unfold baseBe; simp only [hn]
  refine ⟨hinv, hl, ?_, ?_, ?_, hf, ?_⟩
  · have := h.startOk
    simp only [hi]
    exact this
  · rw [hb]; exact h.binv
  · rw [hb]
    simp only [hc, Rows.run_append, h.run, Option.bind]
    exact hcmd
  · rw [hb]; simp only [hn]; exact h.hinit

theorem idxAll_own (inds : List Nat) : idxAll (inds.map Ref.own) = some inds := by
  induction inds with
  | nil => rfl
  | cons i is ih => simp [idxAll, Ref.idx?, ih]

theorem opOr_none_eq (p : Prog) (op : Op) (reg deps : List Ref) (h : reg ≠ []) :
    p.opOr op none reg deps = p.append op reg deps := by
  unfold Prog.opOr
  cases reg with
  | nil => exact absurd rfl h
  | cons r rs => simp [Prog.nsBad]

theorem flags_length {a : Rows D} {p : Prog} (h : a.map Option.isSome = p.flags) : a.length = p.regRefs.length := by
  have := congrArg List.length h
  simpa [Prog.flags] using this

theorem liveAt_append_new (a : Rows D) (n i : Nat) (h1 : a.length ≤ i) (h2 : i < a.length + n) :
    Rows.liveAt (a ++ List.replicate n (some (DataSem.vac : D))) i = true := by
  unfold Rows.liveAt
  rw [List.getElem?_append_right h1]
  have : (List.replicate n (some (DataSem.vac : D)))[i - a.length]? = some (some DataSem.vac) := by
    rw [List.getElem?_replicate]; simp; omega
  simp [this]

/-- `New(n)` -/
theorem step_new {o : BackendOps D B} {abs : B → Rows D} {Inv : B → Prop} {s : Sys B} {a : Rows D}
    (h : Sim o abs Inv s a) (n : Nat) :
    match aStep a (.new n) with
    | some a' => ∃ s', step o s (.new n) = .ok s' ∧ Sim o abs Inv s' a'
    | none => ∃ e, step o s (.new n) = .error e := by
  simp only [aStep, step]
  by_cases hn : n < 1
  · simp only [hn, if_true]
    simp [Prog.newOp, Prog.addSubsystems, h.unlocked, hn]
  · simp only [hn, if_false]
    -- `_add_subsystems`
    cases h1 : s.prog.addSubsystems n with
    | error e => simp [Prog.addSubsystems, h.unlocked, hn] at h1
    | ok v =>
      obtain ⟨p1, inds⟩ := v
      obtain ⟨hr, hinds, _, _, hl1, hc1, hi1, hn1⟩ := addSubsystems_spec h1
      have hlen := flags_length h.flags
      have hp1 : ProgInv p1 := by
        intro i r hg; rw [hr] at hg; exact progInv_append_new _ _ h.pinv i r hg
      have hf1 : (a ++ List.replicate n (some (DataSem.vac : D))).map Option.isSome = p1.flags := by
        simp only [Prog.flags, hr, List.map_append, List.map_map]
        rw [map_flags_range]
        have := h.flags
        simp only [Prog.flags] at this
        simp [this]
      have hne : inds.map Ref.own ≠ [] := by
        rw [hinds]; intro hc
        have := congrArg List.length hc
        simp at this; omega
      have hacc : accSel (a ++ List.replicate n (some (DataSem.vac : D))) none (inds.map Ref.own) [] = some inds := by
        unfold accSel
        rw [idxAll_own]
        have he : (inds.map Ref.own).isEmpty = false := by
          cases hx : inds.map Ref.own with
          | nil => exact absurd hx hne
          | cons _ _ => rfl
        have hs : selB (a ++ List.replicate n (some (DataSem.vac : D))) inds = true := by
          simp only [selB, Bool.and_eq_true, Bool.not_eq_true', List.all_eq_true]
          refine ⟨?_, (hasDup_false_iff _).2 (by rw [hinds]; exact List.nodup_range')⟩
          intro i hi
          rw [hinds, List.mem_range'_1] at hi
          exact liveAt_append_new a n i (by omega) (by omega)
        have hs0 : selB (a ++ List.replicate n (some (DataSem.vac : D))) [] = true := by simp [selB, hasDup]
        simp [idxAll, he, Prog.nsBad, hs, hs0]
      have := opOr_sim hp1 hl1 hf1 (.newModes n) none (inds.map Ref.own) []
      rw [hacc, opOr_none_eq _ _ _ _ hne] at this
      obtain ⟨p2, h2, hr2, hl2, hc2, hi2, hn2⟩ := this
      simp only [Prog.newOp, h1, h2]
      refine ⟨_, rfl, ?_⟩
      have hil : inds.length = n := by rw [hinds]; simp
      apply sim_prog_step h p2 ⟨.newModes n, inds⟩
      · intro i r hg; rw [hr2] at hg; exact hp1 i r hg
      · exact hl2
      · rw [hi2, hi1]
      · rw [hn2, hn1]
      · rw [hc2, hc1]
      · simp [Rows.cmd, hil]
      · simp only [Prog.flags, hr2]; exact hf1
theorem isEmpty_of_length_eq {α β : Type} {l : List α} {m : List β} (h : l.length = m.length) :
    l.isEmpty = m.isEmpty := by
  cases l <;> cases m <;> simp_all

theorem accSel_none_nil (a : Rows D) (ms : List Ref) :
    accSel a none ms [] = match idxAll ms with
      | some is => if a.okSel is then some is else none
      | none => none := by
  unfold accSel
  cases hi : idxAll ms with
  | none => rfl
  | some is =>
    have he := isEmpty_of_length_eq (idxAll_length ms is hi)
    simp only [idxAll, okSel_eq, he, Prog.nsBad]
    have : selB a [] = true := by simp [selB, hasDup]
    simp [this]

theorem okSel_all {a : Rows D} {is : List Nat} (h : a.okSel is = true) : is.all a.liveAt = true := by
  simp only [Rows.okSel, Bool.and_eq_true] at h
  exact h.1.2

/-- `Del | ms` -/
theorem step_del {o : BackendOps D B} {abs : B → Rows D} {Inv : B → Prop} {s : Sys B} {a : Rows D}
    (h : Sim o abs Inv s a) (ms : List Ref) :
    match aStep a (.del ms) with
    | some a' => ∃ s', step o s (.del ms) = .ok s' ∧ Sim o abs Inv s' a'
    | none => ∃ e, step o s (.del ms) = .error e := by
  have key := opOr_sim h.pinv h.unlocked h.flags .delete none ms []
  rw [accSel_none_nil] at key
  simp only [aStep, step, Prog.delOp]
  cases hi : idxAll ms with
  | none =>
    simp only [hi] at key
    obtain ⟨e, he⟩ := key
    simp only [he]; exact ⟨e, rfl⟩
  | some is =>
    simp only [hi] at key
    by_cases hs : a.okSel is = true
    · simp only [hs, if_true] at key ⊢
      obtain ⟨p1, h1, hr1, hl1, hc1, hi1, hn1⟩ := key
      simp only [h1, map_mk_ind]
      refine ⟨_, rfl, ?_⟩
      apply sim_prog_step h _ ⟨.delete, is⟩
      · intro i r hg
        simp only [hr1] at hg
        exact progInv_deactivate _ _ h.pinv i r hg
      · exact hl1
      · exact hi1
      · exact hn1
      · exact hc1
      · simp [Rows.cmd, hs]
      · simp only [Prog.flags, hr1]
        exact clear_flags is h.pinv h.flags
    · simp only [hs, Bool.false_eq_true, if_false] at key ⊢
      obtain ⟨e, he⟩ := key
      simp only [he]; exact ⟨e, rfl⟩

/-- a measurement on `ms` -/
theorem step_meas {o : BackendOps D B} {abs : B → Rows D} {Inv : B → Prop} {s : Sys B} {a : Rows D}
    (h : Sim o abs Inv s a) (ms : List Ref) :
    match aStep a (.meas ms) with
    | some a' => ∃ s', step o s (.meas ms) = .ok s' ∧ Sim o abs Inv s' a'
    | none => ∃ e, step o s (.meas ms) = .error e := by
  have key := opOr_sim h.pinv h.unlocked h.flags .measure none ms []
  rw [accSel_none_nil] at key
  simp only [aStep, step, Prog.measOp]
  cases hi : idxAll ms with
  | none =>
    simp only [hi] at key
    obtain ⟨e, he⟩ := key
    simp only [he]; exact ⟨e, rfl⟩
  | some is =>
    simp only [hi] at key
    by_cases hs : a.okSel is = true
    · simp only [hs, if_true] at key ⊢
      obtain ⟨p1, h1, hr1, hl1, hc1, hi1, hn1⟩ := key
      simp only [h1]
      refine ⟨_, rfl, ?_⟩
      apply sim_prog_step h p1 ⟨.measure, is⟩
      · intro i r hg; rw [hr1] at hg; exact h.pinv i r hg
      · exact hl1
      · exact hi1
      · exact hn1
      · exact hc1
      · simp [Rows.cmd, hs]
      · simp only [Prog.flags, hr1]
        rw [upd_flags _ _ _ (okSel_all hs)]
        exact h.flags
    · simp only [hs, Bool.false_eq_true, if_false] at key ⊢
      obtain ⟨e, he⟩ := key
      simp only [he]; exact ⟨e, rfl⟩

theorem accSel_use (a : Rows D) (ms deps : List Ref) :
    accSel a (some (if (ms.length == 1) = true then 1 else 2)) ms deps = match idxAll ms, idxAll deps with
      | some is, some ds =>
        if ((is.length == 1 || is.length == 2) && a.okSel is && (ds.isEmpty || a.okSel ds)) = true then some is else none
      | _, _ => none := by
  unfold accSel
  cases hi : idxAll ms with
  | none => rfl
  | some is =>
    cases hd : idxAll deps with
    | none => rfl
    | some ds =>
      have hL := idxAll_length ms is hi
      have hcond : (!ms.isEmpty && !Prog.nsBad (some (if (ms.length == 1) = true then 1 else 2)) ms.length
            && selB a is && selB a ds)
          = ((is.length == 1 || is.length == 2) && a.okSel is && (ds.isEmpty || a.okSel ds)) := by
        have hds : (ds.isEmpty || a.okSel ds) = selB a ds := by
          cases ds with
          | nil => simp [selB, hasDup]
          | cons d ds => simp [okSel_eq]
        rw [hds, okSel_eq, hL, isEmpty_of_length_eq hL]
        rcases ms with _ | ⟨x, _ | ⟨y, _ | ⟨z, t⟩⟩⟩ <;> simp [Prog.nsBad]
      simp only [hcond]

/-- a gate on `ms` with measured-parameter dependencies `deps` -/
theorem step_use {o : BackendOps D B} {abs : B → Rows D} {Inv : B → Prop} {s : Sys B} {a : Rows D}
    (h : Sim o abs Inv s a) (ms : List Ref) (k : Int) (deps : List Ref) :
    match aStep a (.use ms k deps) with
    | some a' => ∃ s', step o s (.use ms k deps) = .ok s' ∧ Sim o abs Inv s' a'
    | none => ∃ e, step o s (.use ms k deps) = .error e := by
  have key := opOr_sim h.pinv h.unlocked h.flags (.gate k) (some (if (ms.length == 1) = true then 1 else 2)) ms deps
  rw [accSel_use] at key
  simp only [aStep, step, Prog.useOp]
  cases hi : idxAll ms with
  | none =>
    simp only [hi] at key
    obtain ⟨e, he⟩ := key
    simp only [he]; exact ⟨e, rfl⟩
  | some is =>
    cases hd : idxAll deps with
    | none =>
      simp only [hi, hd] at key
      obtain ⟨e, he⟩ := key
      simp only [he]; exact ⟨e, rfl⟩
    | some ds =>
      simp only [hi, hd] at key
      by_cases hs : ((is.length == 1 || is.length == 2) && a.okSel is && (ds.isEmpty || a.okSel ds)) = true
      · simp only [hs, if_true] at key ⊢
        obtain ⟨p1, h1, hr1, hl1, hc1, hi1, hn1⟩ := key
        simp only [h1]
        refine ⟨_, rfl, ?_⟩
        have hok : a.okSel is = true := by
          simp only [Bool.and_eq_true] at hs; exact hs.1.2
        apply sim_prog_step h p1 ⟨.gate k, is⟩
        · intro i r hg; rw [hr1] at hg; exact h.pinv i r hg
        · exact hl1
        · exact hi1
        · exact hn1
        · exact hc1
        · simp [Rows.cmd, hok]
        · simp only [Prog.flags, hr1]
          rw [upd_flags _ _ _ (okSel_all hok)]
          exact h.flags
      · simp only [hs, Bool.false_eq_true, if_false] at key ⊢
        obtain ⟨e, he⟩ := key
        simp only [he]; exact ⟨e, rfl⟩
def trueIdx : Nat → List Bool → List Nat
  | _, [] => []
  | c, true :: bs => c :: trueIdx (c + 1) bs
  | c, false :: bs => trueIdx (c + 1) bs

theorem liveFrom_trueIdx {α : Type} : ∀ (l : List (Option α)) (c : Nat), liveFrom c l = trueIdx c (l.map Option.isSome) := by
  intro l
  induction l with
  | nil => intro _; rfl
  | cons x xs ih => intro c; cases x <;> simp [liveFrom, trueIdx, ih]

theorem register_trueIdx : ∀ (l : List RegRef) (c : Nat), (∀ (i : Nat) (r : RegRef), l[i]? = some r → r.ind = c + i) →
    (l.filter (·.active)).map (·.ind) = trueIdx c (l.map (·.active)) := by
  intro l
  induction l with
  | nil => intro _ _; rfl
  | cons r rs ih =>
    intro c h
    have h0 := h 0 r (by simp)
    have h' : ∀ (i : Nat) (r' : RegRef), rs[i]? = some r' → r'.ind = (c + 1) + i := by
      intro i r' hi
      have := h (i + 1) r' (by simpa using hi)
      omega
    cases ha : r.active <;> simp [List.filter, ha, trueIdx, ih (c + 1) h'] <;> omega

/-- the program register is the live set -/
theorem sim_register {o : BackendOps D B} {abs : B → Rows D} {Inv : B → Prop} {s : Sys B} {a : Rows D}
    (h : Sim o abs Inv s a) : s.prog.register = Rows.live a := by
  unfold Prog.register Rows.live
  rw [liveFrom_trueIdx, h.flags, register_trueIdx _ 0 (fun i r hi => by have := h.pinv i r hi; omega)]
  rfl

theorem live_replicate_length (n : Nat) (v : D) : (Rows.live (List.replicate n (some v) : Rows D)).length = n := by
  unfold Rows.live
  rw [liveFrom_trueIdx]
  simp only [List.map_replicate, Option.isSome_some]
  suffices ∀ c, (trueIdx c (List.replicate n true)).length = n from this 0
  induction n with
  | zero => intro _; rfl
  | succ n ih => intro c; simp [List.replicate_succ, trueIdx, ih]

theorem fresh_spec {n : Nat} {p : Prog} (h : Prog.fresh n = .ok p) :
    p.locked = false ∧ p.circuit = [] ∧ p.initNum = n ∧ p.initRegRefs = p.regRefs ∧ 1 ≤ n := by
  unfold Prog.fresh at h
  simp only at h
  split at h
  · cases h
  · rename_i p1 inds h1
    cases h
    obtain ⟨_, _, hn, _, hl, hc, _, hin⟩ := addSubsystems_spec h1
    exact ⟨hl, hc, hin, rfl, hn⟩

theorem fresh_error {n : Nat} (hn : n < 1) : ∃ e, Prog.fresh n = .error e := by
  simp [Prog.fresh, Prog.addSubsystems, hn]

theorem fresh_ok {n : Nat} (hn : ¬ n < 1) : ∃ p, Prog.fresh n = .ok p := by
  simp [Prog.fresh, Prog.addSubsystems, hn]

/-- `eng.run(prog)`; next segment `Program(prog)` -/
theorem step_end {o : BackendOps D B} {abs : B → Rows D} {Inv : B → Prop} (R : Refines o abs Inv) {s : Sys B}
    {a : Rows D} (h : Sim o abs Inv s a) :
    ∃ s', step o s .endProg = .ok s' ∧ Sim o abs Inv s' a ∧ s'.prog.circuit = [] ∧ s'.prev ≠ none := by
  have hstart : engineStart o s = .ok (baseBe o s) := by
    have := h.startOk
    unfold baseBe engineStart
    cases hp : s.prev with
    | none => simp only [hp] at this; simp [this]
    | some pr => simp only [hp] at this; simp [Prog.canFollow, this]
  obtain ⟨b1, hb1, hi1, ha1⟩ := R.run s.prog.initNum s.prog.circuit (baseBe o s) a h.binv h.hinit h.run
  have hb1' : o.runProg s.prog.lock.initNum s.prog.lock.circuit (baseBe o s) = .ok b1 := hb1
  refine ⟨⟨s.prog.lock.child, some s.prog.lock.regRefs, b1⟩, ?_, ?_, rfl, by simp⟩
  · simp only [step, engineRun, hstart, hb1']
  · refine ⟨?_, rfl, rfl, ?_, ?_, ?_, ?_⟩
    · exact h.pinv
    · exact hi1
    · simp only [baseBe, Prog.child, Rows.run, ha1]
    · simp only [Prog.child, Prog.flags]; exact h.flags
    · have hreg := sim_register h
      simp only [baseBe, Prog.child, Prog.numSubsystems, ha1]
      show s.prog.lock.register.length = _
      have : s.prog.lock.register = s.prog.register := rfl
      rw [this, hreg]

/-- `eng.reset()`; next segment a fresh `Program(n)` -/
theorem step_reset {o : BackendOps D B} {abs : B → Rows D} {Inv : B → Prop} (R : Refines o abs Inv) (s : Sys B)
    (a : Rows D) (n : Nat) :
    match aStep a (.reset n) with
    | some a' => ∃ s', step o s (.reset n) = .ok s' ∧ Sim o abs Inv s' a'
    | none => ∃ e, step o s (.reset n) = .error e := by
  simp only [aStep, step]
  by_cases hn : n < 1
  · simp only [hn, if_true]
    obtain ⟨e, he⟩ := fresh_error hn
    simp only [he]; exact ⟨e, rfl⟩
  · simp only [hn, if_false]
    obtain ⟨p, hp⟩ := fresh_ok hn
    simp only [hp]
    refine ⟨_, rfl, ?_⟩
    obtain ⟨hl, hc, hin, hir, _⟩ := fresh_spec hp
    obtain ⟨hpi, _, hfl⟩ := fresh_progInv hp
    refine ⟨hpi, hl, ?_, R.begin_inv _, ?_, ?_, ?_⟩
    · simp only
      rw [hir]
      have : p.regRefs.map (·.active) = List.replicate n true := hfl
      rw [List.all_eq_true]
      intro r hr
      have hm : r.active ∈ p.regRefs.map (·.active) := List.mem_map.2 ⟨r, hr, rfl⟩
      rw [this] at hm
      exact (List.mem_replicate.1 hm).2
    · simp only [baseBe, hc, Rows.run, R.begin_abs, hin]
    · rw [hfl]; simp
    · simp only [baseBe, R.begin_abs, hin, live_replicate_length]

/-- **every event of the history alphabet is simulated**: accepted by the real system iff accepted by the
abstract rows, and the successor states correspond -/
theorem step_sim {o : BackendOps D B} {abs : B → Rows D} {Inv : B → Prop} (R : Refines o abs Inv) {s : Sys B}
    {a : Rows D} (h : Sim o abs Inv s a) (ev : Ev) :
    match aStep a ev with
    | some a' => ∃ s', step o s ev = .ok s' ∧ Sim o abs Inv s' a'
    | none => ∃ e, step o s ev = .error e := by
  cases ev with
  | new n => exact step_new h n
  | del ms => exact step_del h ms
  | use ms k deps => exact step_use h ms k deps
  | meas ms => exact step_meas h ms
  | endProg =>
    obtain ⟨s', h1, h2, _⟩ := step_end R h
    exact ⟨s', h1, h2⟩
  | reset n => exact step_reset R s a n

/-- **whole histories** -/
theorem runHist_sim {o : BackendOps D B} {abs : B → Rows D} {Inv : B → Prop} (R : Refines o abs Inv) :
    ∀ (es : List Ev) (s : Sys B) (a : Rows D), Sim o abs Inv s a → Sim o abs Inv (runHist o s es) (aRunHist a es) := by
  intro es
  induction es with
  | nil => intro s a h; exact h
  | cons e es ih =>
    intro s a h
    have := step_sim R h e
    unfold runHist aRunHist
    cases ha : aStep a e with
    | none =>
      simp only [ha] at this
      obtain ⟨err, he⟩ := this
      simp only [he]
      exact ih s a h
    | some a' =>
      simp only [ha] at this
      obtain ⟨s', hs, hsim⟩ := this
      simp only [hs]
      exact ih s' a' hsim

/-- the initial system: a fresh engine and `Program(n)` -/
theorem init_sim {o : BackendOps D B} {abs : B → Rows D} {Inv : B → Prop} (hbi : ∀ n, Inv (o.begin n))
    (hba : ∀ n, abs (o.begin n) = List.replicate n (some DataSem.vac)) {n : Nat}
    {s : Sys B} (h : Sys.init o n = .ok s) : Sim o abs Inv s (List.replicate n (some DataSem.vac)) ∧ s.prev = none := by
  unfold Sys.init at h
  split at h
  · cases h
  · rename_i p hp
    cases h
    obtain ⟨hl, hc, hin, hir, _⟩ := fresh_spec hp
    obtain ⟨hpi, _, hfl⟩ := fresh_progInv hp
    refine ⟨⟨hpi, hl, ?_, hbi _, ?_, ?_, by simp only [baseBe, hba, hin, live_replicate_length]⟩, rfl⟩
    · simp only
      rw [hir, List.all_eq_true]
      intro r hr
      have hm : r.active ∈ p.regRefs.map (·.active) := List.mem_map.2 ⟨r, hr, rfl⟩
      have : p.regRefs.map (·.active) = List.replicate n true := hfl
      rw [this] at hm
      exact (List.mem_replicate.1 hm).2
    · simp only [baseBe, hc, Rows.run, hba, hin]
    · rw [hfl]; simp

/-- events that only build the program -/
def Ev.isProg : Ev → Bool
  | .new _ | .del _ | .use _ _ _ | .meas _ => true
  | _ => false

/-- program-building events are simulated on any back end (nothing is executed yet) -/
theorem step_sim_prog {o : BackendOps D B} {abs : B → Rows D} {Inv : B → Prop} {s : Sys B}
    {a : Rows D} (h : Sim o abs Inv s a) (ev : Ev) (hev : ev.isProg = true) :
    match aStep a ev with
    | some a' => ∃ s', step o s ev = .ok s' ∧ Sim o abs Inv s' a' ∧ s'.prev = s.prev
    | none => ∃ e, step o s ev = .error e := by
  have key : ∀ s', step o s ev = .ok s' → s'.prev = s.prev := by
    intro s' hs
    cases ev with
    | new n => simp only [step] at hs; split at hs <;> cases hs; rfl
    | del ms => simp only [step] at hs; split at hs <;> cases hs; rfl
    | use ms k deps => simp only [step] at hs; split at hs <;> cases hs; rfl
    | meas ms => simp only [step] at hs; split at hs <;> cases hs; rfl
    | endProg => cases hev
    | reset n => cases hev
  have main : match aStep a ev with
      | some a' => ∃ s', step o s ev = .ok s' ∧ Sim o abs Inv s' a'
      | none => ∃ e, step o s ev = .error e := by
    cases ev with
    | new n => exact step_new h n
    | del ms => exact step_del h ms
    | use ms k deps => exact step_use h ms k deps
    | meas ms => exact step_meas h ms
    | endProg => cases hev
    | reset n => cases hev
  cases ha : aStep a ev with
  | none => simp only [ha] at main ⊢; exact main
  | some a' =>
    simp only [ha] at main ⊢
    obtain ⟨s', h1, h2⟩ := main
    exact ⟨s', h1, h2, key s' h1⟩

theorem runHist_sim_prog {o : BackendOps D B} {abs : B → Rows D} {Inv : B → Prop} :
    ∀ (es : List Ev) (s : Sys B) (a : Rows D), es.all Ev.isProg = true → Sim o abs Inv s a →
    Sim o abs Inv (runHist o s es) (aRunHist a es) ∧ (runHist o s es).prev = s.prev := by
  intro es
  induction es with
  | nil => intro s a _ h; exact ⟨h, rfl⟩
  | cons e es ih =>
    intro s a hall h
    simp only [List.all_cons, Bool.and_eq_true] at hall
    have := step_sim_prog h e hall.1
    unfold runHist aRunHist
    cases ha : aStep a e with
    | none =>
      simp only [ha] at this
      obtain ⟨err, he⟩ := this
      simp only [he]
      exact ih s a hall.2 h
    | some a' =>
      simp only [ha] at this
      obtain ⟨s', hs, hsim, hprev⟩ := this
      simp only [hs]
      obtain ⟨h1, h2⟩ := ih s' a' hall.2 hsim
      exact ⟨h1, by rw [h2, hprev]⟩

/-! observations under `Sim` -/

/-- at a segment boundary (the program under construction is still empty and a segment was run) the back end
itself represents the rows -/
theorem sim_boundary {o : BackendOps D B} {abs : B → Rows D} {Inv : B → Prop} (R : Refines o abs Inv) {s : Sys B}
    {a : Rows D} (h : Sim o abs Inv s a) (hc : s.prog.circuit = []) (hp : s.prev ≠ none) :
    abs s.be = a ∧ o.getModes s.be = Rows.live a ∧ o.stateNone s.be = .ok (Rows.state 0 a) := by
  have hb : baseBe o s = s.be := by
    unfold baseBe
    cases hx : s.prev with
    | none => exact absurd hx hp
    | some _ => rfl
  have hrun := h.run
  rw [hc, hb] at hrun
  simp only [Rows.run, Option.some.injEq] at hrun
  have hinv := h.binv
  rw [hb] at hinv
  exact ⟨hrun, by rw [R.getModes _ hinv, hrun], by rw [R.state _ hinv, hrun]⟩

/-- the Gaussian back end refines the rows -/
theorem gaussRefines : Refines (gaussOps D) (PS.abs (D := D)) (PSInv (D := D)) where
  begin_inv := PS.begin_inv
  begin_abs := PS.begin_abs
  run := fun _ cs b r' hb _ hr => PS.runCircuit_refines cs b hb r' hr
  getModes := PS.getModes_live
  state := PS.stateNone_exact
/-- the append of `All.__or__` is the single-mode `gate | r` -/
theorem appendGate1_eq (p : Prog) (k : Int) (r : Ref) : p.appendGate1 k r = p.useOp [r] k [] := by
  unfold Prog.appendGate1 Prog.useOp Prog.opOr
  simp only [List.length_cons, List.length_nil, Nat.zero_add, beq_self_eq_true, if_true, Prog.nsBad,
    List.isEmpty_cons, bne_self_eq_false, Bool.or_self, Bool.false_eq_true, if_false]

/-- `All(gate) | reg` = test the whole selection, then one single-mode `gate | r` per item -/
theorem allOp_eq (p : Prog) (reg : List Ref) (k : Int) :
    p.allOp reg k = match p.testRegrefs reg with
      | .error e => .error e
      | .ok _ => reg.foldlM (fun q r => q.useOp [r] k []) p := by
  have h : (fun (q : Prog) (r : Ref) => q.appendGate1 k r) = fun q r => q.useOp [r] k [] := by
    funext q r; exact appendGate1_eq q k r
  unfold Prog.allOp
  cases p.testRegrefs reg with
  | error e => rfl
  | ok v => simp only [h]
end SimSec

end SFV.Reg
