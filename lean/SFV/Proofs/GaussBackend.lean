import SFV.Model.GaussBackend
import SFV.Proofs.GaussNM

/-! The Gaussian back end's API calls realise the documented operations (sign conventions, C01) and
its preparations leave the target in the documented state (C05). -/
namespace SFV.Gauss
open Cx

variable {K : Type} [CommRing K]

/-- with the `(-θ, -φ)` call convention the circuit-level rows are the documented `B(θ, φ)` -/
theorem sfBsRows_eq (k l : Nat) (c s ct sn : K) : sfBsRows k l c s ct sn = bsRows k l c (-s) ct (-sn) := by
  funext u
  obtain ⟨i, q⟩ := u
  cases q <;> simp only [sfBsRows, bsRows] <;> split <;> try (split) <;> simp <;> ring_nf
  all_goals simp

/-- **`backend.beamsplitter(θ, φ, k, l)` is the documented `B(θ, φ)` on `(k, l)`** for every register size,
every ordered pair of distinct modes and all parameter values -/
theorem bkBeamsplitter_refines (st : GS K) (hI : NMInv st) (c s ct sn : K) (k l : Nat) (hkl : k ≠ l)
    (hcs : c * c + s * s = 1) (hts : ct * ct + sn * sn = 1) :
    toXP (bkBeamsplitter st c s ct sn k l) = linMap (sfBsRows k l c s ct sn) (toXP st) := by
  rw [sfBsRows_eq]
  have h1 : c * c + -s * -s = 1 := by rw [neg_mul_neg]; exact hcs
  have h2 : ct * ct + -sn * -sn = 1 := by rw [neg_mul_neg]; exact hts
  exact XP.eq_of_Eq (beamsplitter_refines st hI c (-s) ct (-sn) k l hkl h1 h2)

/-- **coherent preparation**: the target carries `(2 Re β, 2 Im β)` with vacuum variances and no correlations -/
theorem bkPrepareCoherent_poststate (st : GS K) (β : Cx K) (k j : Nat) :
    let st' := bkPrepareCoherent st β k
    st'.N k j = 0 ∧ st'.N j k = 0 ∧ st'.M k j = 0 ∧ st'.M j k = 0 ∧ st'.mean k = β := by
  intro st'
  have h := loss_zero_resets st k j
  refine ⟨h.1, h.2.1, h.2.2.1, h.2.2.2.1, ?_⟩
  simp only [st', bkPrepareCoherent, displace, if_true]
  rw [h.2.2.2.2]
  apply Cx.ext' <;> simp

/-- **squeezed preparation** = the documented squeezing of the vacuum on the target, rest reset-local -/
theorem bkPrepareSqueezed_refines (st : GS K) (hI : NMInv st) (c s ch sh : K) (k : Nat)
    (hcs : c * c + s * s = 1) (hh : ch * ch - sh * sh = 1) :
    toXP (bkPrepareSqueezed st c s ch sh k) =
      linMap (squeezeRows k c s ch sh) (addNoise (linMap (lossRows k 0) (toXP st)) k (1 - 0 * 0)) := by
  unfold bkPrepareSqueezed
  rw [XP.eq_of_Eq (squeeze_refines (loss st 0 k) (loss_inv st hI 0 k) c s ch sh k hcs hh),
    XP.eq_of_Eq (loss_refines st hI 0 k)]

end SFV.Gauss
