import SFV.Proofs.StatesGauss3

/-! Fourth batch: what bosonic `fidelity_coherent`, `purity`, `wigner` hand to the transcendental functions. -/
namespace SFV.States
open SFV.Gauss

/-- the bosonic `fidelity_coherent` arguments are the Gaussian ones (`fidelityCoherentArgs`, xxpp) read through the xpxp ordering:
`δ[2a] = μ[2a] − mean[a]`, `δ[2a+1] = μ[2a+1] − mean[a+n]`, and `cov_sum = cov + (ħ/2)·1` with the same identity matrix -/
theorem bosonicFidelityArgs_match {K : Type} [Ring K] (sq h2 : K) (n : Nat) (alphaRe alphaIm : Nat → K) (w : K) (g : GData K)
    (a : Nat) (ha : a < n) :
    ∃ d, bosonicFidelityArgs sq h2 alphaRe alphaIm [(w, g)] = [(w, d)] ∧
      d.mu (2 * a) = g.mu (2 * a) - (fidelityCoherentArgs sq h2 n alphaRe alphaIm).1 a ∧
      d.mu (2 * a + 1) = g.mu (2 * a + 1) - (fidelityCoherentArgs sq h2 n alphaRe alphaIm).1 (a + n) ∧
      ∀ b c, d.cov b c = g.cov b c + (fidelityCoherentArgs sq h2 n alphaRe alphaIm).2.1 b c := by
  simp only [bosonicFidelityArgs, List.map]
  refine ⟨_, rfl, ?_, ?_, ?_⟩
  · have h1 : (2 * a) % 2 = 0 := by omega
    have h2' : (2 * a) / 2 = a := by omega
    simp [fidelityCoherentArgs, h1, h2', ha]
  · have h1 : (2 * a + 1) % 2 = 1 := by omega
    have h2' : (2 * a + 1) / 2 = a := by omega
    have h3 : ¬ (a + n < n) := by omega
    simp [fidelityCoherentArgs, h1, h2', h3]
  · intro b c
    simp [fidelityCoherentArgs]

/-- `fidelity_vacuum`'s arguments: `δ = μ` -/
theorem bosonicFidelityArgs_vacuum {K : Type} [Ring K] (sq h2 : K) (w : K) (g : GData K) (a : Nat) :
    ∃ d, bosonicFidelityArgs sq h2 (fun _ => 0) (fun _ => 0) [(w, g)] = [(w, d)] ∧ d.mu a = g.mu a := by
  simp only [bosonicFidelityArgs, List.map]
  refine ⟨_, rfl, ?_⟩
  simp

/-- a one-component state: a single pair with `δ = 0`, `Σ = 2·cov`, weight `w²` — the Gaussian purity `(ħ/2)ⁿ / sqrt(det cov)` -/
theorem bosonicPurityArgs_single {K : Type} [Ring K] (w : K) (g : GData K) :
    ∃ d, bosonicPurityArgs [(w, g)] = [(w * w, d)] ∧ (∀ a, d.mu a = 0) ∧ ∀ a b, d.cov a b = g.cov a b + g.cov a b := by
  refine ⟨{ mu := fun a => g.mu a - g.mu a, cov := fun a b => g.cov a b + g.cov a b }, ?_, ?_, ?_⟩
  · simp [bosonicPurityArgs]
  · intro a; simp
  · intro a b; rfl

/-- the number of pairs is the square of the number of components, and the pair list is symmetric in the weights' product -/
theorem bosonicPurityArgs_length {K : Type} [Add K] [Sub K] [Mul K] (comps : List (K × GData K)) :
    (bosonicPurityArgs comps).length = comps.length * comps.length := by
  simp [bosonicPurityArgs, List.length_flatMap]

/-- **parity is `πħ · W(0, 0)`** at the level of the arguments: the quadratic form and determinant `wigner` evaluates at the origin
are those of `parity_expectation([mode])`, component by component -/
theorem bosonicWignerArgs_origin {K : Type} [CommRing K] (comps : List (K × GData K)) :
    bosonicWignerArgs 0 0 comps = bosonicParityArgs1 comps := by
  simp only [bosonicWignerArgs, bosonicParityArgs1]
  apply List.map_congr_left
  intro c _
  refine Prod.ext rfl (Prod.ext ?_ ?_)
  · simp [parity1]; ring
  · simp [parity1]

/-- the quadratic form vanishes at a component's own mean (its peak) -/
theorem bosonicWignerArgs_peak {K : Type} [CommRing K] (w : K) (g : GData K) :
    bosonicWignerArgs (g.mu 0) (g.mu 1) [(w, g)] = [(w, 0, g.cov 0 0 * g.cov 1 1 - g.cov 0 1 * g.cov 1 0)] := by
  simp [bosonicWignerArgs, parity1]

end SFV.States
