import SFV.Model.HwCompile

/-!
# X-series template (C12): facts about the mesh lists that hold for every size.  Core Lean only.
-/
namespace SFV.Hw

theorem compiledMZ_adjacent {N p : Nat} (h : p ∈ compiledMZ N) : p + 1 < N := by
  simp only [compiledMZ, tilist, tlist, colSweep, rowSweep, List.mem_append, List.mem_reverse,
    List.mem_flatMap, List.mem_range] at h
  rcases h with ⟨k, hk, hp⟩ | ⟨k, hk, hp⟩
  · by_cases he : k % 2 = 0
    · simp only [he, if_true, List.mem_map, List.mem_range] at hp
      obtain ⟨l, _, rfl⟩ := hp
      omega
    · simp [he] at hp
  · by_cases he : k % 2 = 1
    · simp only [he, if_true, List.mem_map, List.mem_range] at hp
      obtain ⟨l, _, rfl⟩ := hp
      omega
    · simp [he] at hp

theorem layoutMZ_adjacent {N p : Nat} (h : p ∈ layoutMZ N) : p + 1 < N := by
  simp only [layoutMZ, layer, List.mem_flatMap, List.mem_range, List.mem_filter] at h
  obtain ⟨_, _, hp, _⟩ := h
  omega

/-- every layer position `(l, p)` of the rectangular mesh — `l < N`, `p + 1 < N`, `p ≡ l (mod 2)` — is hit by the
symmetric decomposition: by the column sweep `k = l + p` when `l + p ≤ N - 2`, else by the row sweep
`k = 2N - 3 - l - p` -/
theorem compiledMZ_covers {N l p : Nat} (hl : l < N) (hp : p + 1 < N) (hpar : p % 2 = l % 2) :
    (∃ k, k < N - 1 ∧ k % 2 = 0 ∧ p ∈ colSweep k ∧ k = l + p) ∨
    (∃ k, k < N - 1 ∧ k % 2 = 1 ∧ p ∈ rowSweep N k ∧ k + l + p + 3 = 2 * N) := by
  by_cases h : l + p + 2 ≤ N
  · refine Or.inl ⟨l + p, by omega, by omega, ?_, rfl⟩
    simp only [colSweep, List.mem_map, List.mem_range]
    exact ⟨l, by omega, by omega⟩
  · refine Or.inr ⟨2 * N - 3 - l - p, by omega, by omega, ?_, by omega⟩
    simp only [rowSweep, List.mem_map, List.mem_range]
    exact ⟨N - 1 - l, by omega, by omega⟩

theorem xCompiled_parts (N : Nat) (o : List Nat) :
    xCompiled N o = o.map (s2Sk N) ++ ((compiledMZ N).map (mzSk 0) ++ (List.range N).map (fun i => rSk (i + 0)))
      ++ ((compiledMZ N).map (mzSk N) ++ (List.range N).map (fun i => rSk (i + N))) ++ [measSk (2 * N)] := rfl

end SFV.Hw
